(* C17 — context-managed transformations write back through the inverse transformation.  Property theorems only. *)
From Coq Require Import ZArith List String Bool Permutation.
Import ListNotations.
From TD Require Import Model.C17_Inverse Proofs.C17_InverseP Gen.C17_registry Model.C17_Elem Proofs.C17_ElemP Proofs.C17_SpellP.
From TD Require Import Model.C17_Ctx Proofs.C17_CtxP.
From TD Require Import Model.C04_Tree Model.C04_Ops Model.C17_Tree Proofs.C17_TreeP Model.C17_Keys Proofs.C17_KeysP.
Open Scope string_scope.
Open Scope Z_scope.

(* the registry, regenerated from /repo on every run: every operation decorated as a context manager has an inverse
   registered under its own name and vice versa, no key registered twice, and every registered operation is one whose
   inverse is modelled below (or a lock toggle / to_module) *)
Definition registry_ok : bool :=
  forallb (fun op => existsb (String.eqb op) (map fst inverse_registry)) decorated_ops
  && forallb (fun k => existsb (String.eqb k) decorated_ops) (map fst inverse_registry)
  && forallb (fun k => Nat.eqb (List.length (filter (String.eqb k) (map fst inverse_registry))) 1) (map fst inverse_registry)
  && forallb (fun k => existsb (String.eqb k) (modelled_ops ++ toggle_ops)) (map fst inverse_registry)
  && forallb (fun kv => String.eqb (snd kv) ("_reverse_" ++
        (if String.eqb (fst kv) "lock_" then "lock" else if String.eqb (fst kv) "unlock_" then "unlock" else fst kv)))
       inverse_registry.
Theorem C17_registry_total : registry_ok = true.
Proof. vm_compute. reflexivity. Qed.
Print Assumptions C17_registry_total.

(* every spelling of the arguments (positional / keyword / mixed / defaults / custom separator) is re-parsed to the same inverse call *)
Theorem C17_spellings_transpose : forall a b sh n,
  reverse "transpose" {| pos := [VInt a; VInt b]; kw := [] |} sh n = CTranspose a b
  /\ reverse "transpose" {| pos := []; kw := [("dim0", VInt a); ("dim1", VInt b)] |} sh n = CTranspose a b
  /\ reverse "transpose" {| pos := []; kw := [("dim1", VInt b); ("dim0", VInt a)] |} sh n = CTranspose a b
  /\ reverse "transpose" {| pos := [VInt a]; kw := [("dim1", VInt b)] |} sh n = CTranspose a b.
Proof. exact transpose_spellings. Qed.
Print Assumptions C17_spellings_transpose.

Theorem C17_spellings_keys : forall sep sh n,
  reverse "flatten_keys" {| pos := [VStr sep]; kw := [] |} sh n = CUnflattenKeys sep
  /\ reverse "flatten_keys" {| pos := []; kw := [("separator", VStr sep)] |} sh n = CUnflattenKeys sep
  /\ reverse "flatten_keys" {| pos := []; kw := [] |} sh n = CUnflattenKeys "."
  /\ reverse "unflatten_keys" {| pos := [VStr sep]; kw := [] |} sh n = CFlattenKeys sep
  /\ reverse "unflatten_keys" {| pos := []; kw := [("separator", VStr sep)] |} sh n = CFlattenKeys sep
  /\ reverse "unflatten_keys" {| pos := []; kw := [] |} sh n = CFlattenKeys ".".
Proof. exact keys_spellings. Qed.
Print Assumptions C17_spellings_keys.

Theorem C17_spellings_flatten : forall a b sh n,
  let r := reverse "flatten" {| pos := [VInt a; VInt b]; kw := [] |} sh n in
  reverse "flatten" {| pos := [VInt a]; kw := [("end_dim", VInt b)] |} sh n = r
  /\ reverse "flatten" {| pos := []; kw := [("start_dim", VInt a); ("end_dim", VInt b)] |} sh n = r
  /\ reverse "flatten" {| pos := []; kw := [("end_dim", VInt b); ("start_dim", VInt a)] |} sh n = r
  /\ reverse "flatten" {| pos := []; kw := [] |} sh n = reverse "flatten" {| pos := [VInt 0; VInt (-1)]; kw := [] |} sh n
  /\ reverse "flatten" {| pos := [VInt a]; kw := [] |} sh n = reverse "flatten" {| pos := [VInt a; VInt (-1)]; kw := [] |} sh n.
Proof. exact flatten_spellings. Qed.
Print Assumptions C17_spellings_flatten.

Theorem C17_spellings_unflatten : forall d sz sh n,
  let r := reverse "unflatten" {| pos := [VInt d; VInts sz]; kw := [] |} sh n in
  reverse "unflatten" {| pos := [VInt d]; kw := [("unflattened_size", VInts sz)] |} sh n = r
  /\ reverse "unflatten" {| pos := []; kw := [("dim", VInt d); ("unflattened_size", VInts sz)] |} sh n = r
  /\ r = (if zlen sz =? 1 then CIdentity else CFlatten (norm d (zlen sh)) (norm d (zlen sh) + zlen sz - 1)).
Proof. exact unflatten_spellings. Qed.
Print Assumptions C17_spellings_unflatten.

Theorem C17_spellings_squeeze : forall d sh n,
  reverse "unsqueeze" {| pos := [VInt d]; kw := [] |} sh n = CSqueeze d
  /\ reverse "unsqueeze" {| pos := []; kw := [("dim", VInt d)] |} sh n = CSqueeze d
  /\ reverse "squeeze" {| pos := []; kw := [("dim", VInt d)] |} sh n = reverse "squeeze" {| pos := [VInt d]; kw := [] |} sh n
  /\ reverse "squeeze" {| pos := [VInt d]; kw := [] |} sh n = (if n =? zlen sh then CIdentity else CUnsqueeze d).
Proof. exact squeeze_spellings. Qed.
Print Assumptions C17_spellings_squeeze.

Theorem C17_spellings_permute : forall dims sh n,
  reverse "permute" {| pos := [VInts dims]; kw := [] |} sh n
  = CPermute (inv_perm (map (fun d => if d >=? 0 then d else n + d) dims))
  /\ reverse "permute" {| pos := []; kw := [("dims", VInts dims)] |} sh n
  = CPermute (inv_perm (map (fun d => if d >=? 0 then d else n + d) dims)).
Proof. exact permute_spellings. Qed.
Print Assumptions C17_spellings_permute.

(* the inverse call undoes the forward operation on the batch shape — every rank, every (negative) dim *)
Theorem C17_transpose_inverse : forall sh a b sh', sh_transpose sh a b = Some sh' -> sh_transpose sh' a b = Some sh.
Proof. exact transpose_involutive. Qed.
Print Assumptions C17_transpose_inverse.

(* stated on arbitrary lists, i.e. also for the element positions: permuting by dims then by argsort(dims) is the identity *)
Theorem C17_permute_inverse : forall sh dims,
  Permutation dims (map Z.of_nat (seq 0 (List.length sh))) -> sh_permute (sh_permute sh dims) (inv_perm dims) = sh.
Proof. exact permute_inverse. Qed.
Print Assumptions C17_permute_inverse.

Theorem C17_flatten_inverse : forall sh a b, 0 <= a <= b -> b < zlen sh ->
  sh_unflatten (sh_flatten sh a b) a (firstn (Z.to_nat (b + 1 - a)) (skipn (Z.to_nat a) sh)) = sh.
Proof. exact flatten_unflatten. Qed.
Print Assumptions C17_flatten_inverse.

Theorem C17_unflatten_inverse : forall sh d sz, 0 <= d < zlen sh -> sz <> [] ->
  sh_flatten (sh_unflatten sh d sz) d (d + zlen sz - 1)
  = (firstn (Z.to_nat d) sh ++ [prodZ sz] ++ skipn (Z.to_nat (d + 1)) sh)%list.
Proof. exact unflatten_flatten. Qed.
Print Assumptions C17_unflatten_inverse.

Theorem C17_unsqueeze_inverse : forall sh d, 0 <= d <= zlen sh -> sh_squeeze (sh_unsqueeze sh d) d = sh.
Proof. exact unsqueeze_squeeze. Qed.
Print Assumptions C17_unsqueeze_inverse.

Theorem C17_squeeze_inverse : forall sh d, 0 <= d < zlen sh ->
  (nthZ sh d 0 = 1 -> sh_unsqueeze (sh_squeeze sh d) d = sh) /\ (nthZ sh d 0 <> 1 -> sh_squeeze sh d = sh).
Proof. exact squeeze_unsqueeze. Qed.
Print Assumptions C17_squeeze_inverse.

(* write-back: in place when the original is locked, new keys admitted when it is not *)
Theorem C17_writeback_locked : forall out inv r,
  writeback true out inv = Some r ->
  map fst r = map fst out
  /\ map (fun kv => fst (snd kv)) r = map (fun kv => fst (snd kv)) out
  /\ (forall k s c, In (k, (s, c)) r -> match lookup inv k with Some (_, c') => c = c' | None => In (k, (s, c)) out end).
Proof. exact writeback_locked. Qed.
Print Assumptions C17_writeback_locked.

Theorem C17_writeback_unlocked : forall out inv,
  exists r, writeback false out inv = Some r
  /\ map fst r = (map fst out ++ map fst (filter (fun kv => match lookup out (fst kv) with Some _ => false | None => true end) inv))%list
  /\ (forall k v, In (k, v) inv -> lookup out k = None -> In (k, v) r).
Proof. exact writeback_unlocked. Qed.
Print Assumptions C17_writeback_unlocked.

(* a key added to the yielded object of a LOCKED original never reaches the original: silently skipped when the two have a
   key in common, KeyError (None) when they have none *)
Theorem C17_writeback_locked_new_key : forall out inv k v r,
  In (k, v) inv -> lookup out k = None -> writeback true out inv = Some r -> lookup r k = None.
Proof. exact writeback_locked_new_key. Qed.
Print Assumptions C17_writeback_locked_new_key.
Theorem C17_writeback_locked_disjoint : forall out inv, inv <> [] ->
  (forall kv, In kv inv -> lookup out (fst kv) = None) -> writeback true out inv = None.
Proof. exact writeback_locked_disjoint. Qed.
Print Assumptions C17_writeback_locked_disjoint.

(* nested blocks: inverses are popped in LIFO order and the queue is restored *)
Theorem C17_nested_blocks : forall (Op : Type) (o : @obj Op),
  match exit_ok (enter (enter o)) with
  | Some (x1, o1) => x1 = C17_Inverse.last_op o /\ exit_ok o1 = Some (C17_Inverse.last_op o, o)
  | None => False
  end.
Proof. exact @nested_blocks. Qed.
Print Assumptions C17_nested_blocks.

(* ------------------------------------------------------------------ element maps (deepening round) *)
(* [undoes c r sh ysh] (Model/C17_Elem.v): the call r on the yielded object gives back the shape sh, every valid
   multi-index i of the original comes back to i, and every valid multi-index j of the yielded object is written back to
   the one position of the original it is the image of.  For every rank, every dims, every argument spelling
   (python's binding [forward_call] vs the re-parsing [reverse] of the recorded (args, kwargs)). *)
Theorem C17_elem_roundtrip : forall op, In op ["transpose"; "permute"; "view"; "flatten"; "unflatten"; "squeeze"; "unsqueeze"] ->
  forall s sh c ysh, Forall (fun x => 0 <= x) sh -> forward_call op s = Some c -> shape_of c sh = Some ysh ->
    undoes c (reverse op s sh (zlen ysh)) sh ysh.
Proof. exact elem_roundtrip. Qed.
Print Assumptions C17_elem_roundtrip.

(* unflatten: the full statement holds of the repaired _reverse_unflatten (D201; Model/C17_Inverse.v::fixed_D201) ... *)
Definition C17_elem_roundtrip_unflatten_full_statement : Prop :=
  forall s sh c ysh, Forall (fun x => 0 <= x) sh -> forward_call "unflatten" s = Some c -> shape_of c sh = Some ysh ->
    undoes c (reverse "unflatten" s sh (zlen ysh)) sh ysh.
Theorem C17_elem_roundtrip_unflatten : C17_elem_roundtrip_unflatten_full_statement.
Proof. exact elem_roundtrip_unflatten. Qed.
Print Assumptions C17_elem_roundtrip_unflatten.
(* ... and was false of the unrepaired one ([reverse_with false]) for a size of length 1 *)
Theorem C17_elem_roundtrip_unflatten_unrepaired_partial : forall s sh c ysh,
  Forall (fun x => 0 <= x) sh -> forward_call "unflatten" s = Some c -> shape_of c sh = Some ysh -> (2 <= unflat_len c)%nat ->
  undoes c (reverse_with false "unflatten" s sh (zlen ysh)) sh ysh.
Proof. exact elem_roundtrip_unflatten_unrepaired_partial. Qed.
Print Assumptions C17_elem_roundtrip_unflatten_unrepaired_partial.
Theorem C17_elem_roundtrip_unflatten_unrepaired_refuted : exists s sh c ysh,
  Forall (fun x => 0 <= x) sh /\ forward_call "unflatten" s = Some c /\ shape_of c sh = Some ysh
  /\ shape_of (reverse_with false "unflatten" s sh (zlen ysh)) ysh = None.
Proof. exact elem_roundtrip_unflatten_unrepaired_refuted. Qed.
Print Assumptions C17_elem_roundtrip_unflatten_unrepaired_refuted.

(* per operation, on normalised calls: what the reverse call must be *)
Theorem C17_undoes_view : forall l sh ysh, Forall (fun x => 0 <= x) sh -> shape_of (CView l) sh = Some ysh ->
  undoes (CView l) (CView sh) sh ysh.
Proof. exact undoes_view. Qed.
Print Assumptions C17_undoes_view.
Theorem C17_undoes_permute : forall l sh ysh p, perm_dims l (zlen sh) = Some p -> shape_of (CPermute l) sh = Some ysh ->
  undoes (CPermute l) (CPermute (inv_perm p)) sh ysh.
Proof. exact undoes_permute. Qed.
Print Assumptions C17_undoes_permute.
Theorem C17_undoes_flatten : forall a b sh ysh a' b', Forall (fun x => 0 <= x) sh ->
  flatten_dims a b (zlen sh) = Some (a', b') -> shape_of (CFlatten a b) sh = Some ysh ->
  undoes (CFlatten a b) (CUnflatten a' (seg sh a' b')) sh ysh.
Proof. exact undoes_flatten. Qed.
Print Assumptions C17_undoes_flatten.
Theorem C17_undoes_squeeze : forall d sh ysh, shape_of (CSqueeze d) sh = Some ysh ->
  undoes (CSqueeze d) (if zlen ysh =? zlen sh then CIdentity else CUnsqueeze d) sh ysh.
Proof. exact undoes_squeeze. Qed.
Print Assumptions C17_undoes_squeeze.
(* the position arithmetic underneath *)
Theorem C17_unravel_ravel : forall sh i, valid_idx sh i = true -> unravel sh (ravel sh i) = i.
Proof. exact unravel_ravel. Qed.
Print Assumptions C17_unravel_ravel.
Theorem C17_ravel_unravel : forall sh k, Forall (fun x => 0 < x) sh -> 0 <= k < prodZ sh ->
  valid_idx sh (unravel sh k) = true /\ ravel sh (unravel sh k) = k.
Proof. exact ravel_unravel. Qed.
Print Assumptions C17_ravel_unravel.

(* ------------------------------------------------------------------ protocol: lock state, exception path, queue (deepening round) *)
(* any nesting of `with td.lock_():` / `with td.unlock_():` blocks, sequences and raised exceptions (Exception or bare
   BaseException) leaves the lock flag and the queue as they were — normal and exceptional exit (repair D6/D53) *)
Theorem C17_lock_reverted : forall p o, no_bare p = true ->
  exists o' e, run true p o = Some (o', e) /\ locked o' = locked o /\ queue o' = queue o.
Proof. exact lock_reverted. Qed.
Print Assumptions C17_lock_reverted.
Theorem C17_lock_reverted_without_repair_refuted :
  exists p o o' e, no_bare p = true /\ run false p o = Some (o', e) /\ locked o' <> locked o.
Proof. exact lock_reverted_without_repair_refuted. Qed.
Print Assumptions C17_lock_reverted_without_repair_refuted.
(* arbitrary nesting over several objects (re-entering the same object, entering the yielded object of a yielded
   object, decorated calls overwriting _last_op in between, dead originals): every queue restored, LIFO *)
Theorem C17_queues_restored : forall l, balanced l -> forall h log, in_heap h l ->
  exists h' log', run_ev l h log = Some (h', log') /\ same_queues h h'.
Proof. exact queues_restored. Qed.
Print Assumptions C17_queues_restored.
Theorem C17_block_pops_own_entry : forall i e body, balanced body -> forall h log, in_heap h (EEnter i :: body ++ [EExit i e])%list ->
  exists h' log', run_ev (EEnter i :: body ++ [EExit i e])%list h log = Some (h', (log' ++ [(i, last_op (nth i h dflt))])%list).
Proof. exact block_pops_own_entry. Qed.
Print Assumptions C17_block_pops_own_entry.
Theorem C17_reenter_same_object : forall o n rc, last_op o = Some rc -> o_op rc = OpShape n -> o_alive rc = true ->
  forall e1, is_exception e1 = false ->
  exists o1, exit_ true (enter_ o) e1 = ExitOk o1 (Some (OpShape n))
    /\ queue o1 = queue o /\ last_op o1 = Some rc
    /\ exists o2, exit_ true (enter_ o1) ExcNone = ExitOk o2 (Some (OpShape n)) /\ queue o2 = queue o.
Proof. exact reenter_same_object. Qed.
Print Assumptions C17_reenter_same_object.
(* the seeded breakage C17-2 (an __enter__ that clears _last_op) in the model's terms *)
Theorem C17_reenter_with_clearing_enter_refuted : exists o rc o1 o2,
  last_op o = Some rc /\ o_op rc = OpShape "transpose" /\ o_alive rc = true
  /\ exit_ true (enter_clearing o) ExcNone = ExitOk o1 (Some (OpShape "transpose"))
  /\ exit_ true (enter_clearing o1) ExcNone = ExitOk o2 None.
Proof. exact reenter_with_clearing_enter_refuted. Qed.
Print Assumptions C17_reenter_with_clearing_enter_refuted.

(* ------------------------------------------------------------------ write-back on trees (deepening round, part 2) *)
(* locked original (out.update_(inv)): keys, order, nesting and every leaf OBJECT are the original's; a leaf's content is the
   yielded object's where it has a leaf at the same path, unchanged elsewhere; nothing is created *)
Theorem C17_writeback_tree_locked : forall out inv r,
  writeback_t true out inv = Some r ->
  skel_es r = skel_es out
  /\ forall p, kfind p r = match kfind p out with
                           | Some (s, c0) => Some (s, match kfind p inv with Some (_, c') => c' | None => c0 end)
                           | None => None
                           end.
Proof. exact writeback_t_locked. Qed.
Print Assumptions C17_writeback_tree_locked.
Theorem C17_writeback_tree_locked_no_new_leaf : forall out inv r p,
  writeback_t true out inv = Some r -> kfind p out = None -> kfind p r = None.
Proof. exact writeback_t_locked_no_new_leaf. Qed.
Print Assumptions C17_writeback_tree_locked_no_new_leaf.
Theorem C17_writeback_tree_locked_disjoint : forall out inv,
  kleaves_es inv <> [] -> (forall pl, In pl (kleaves_es inv) -> kfind (fst pl) out = None) -> writeback_t true out inv = None.
Proof. exact writeback_t_locked_disjoint. Qed.
Print Assumptions C17_writeback_tree_locked_disjoint.
(* unlocked original (out.update(inv, inplace=False)): keys = old, in place, then new; an entry the yielded object does not
   have is the same object (frame); an entry it has is the nested update when both are nodes, the yielded object's otherwise *)
Theorem C17_writeback_tree_unlocked_keys : forall inv out, NoDup (map fst inv) ->
  map fst (update_t out inv)
  = (map fst out ++ filter (fun k => negb (existsb (String.eqb k) (map fst out))) (map fst inv))%list.
Proof. exact update_t_keys. Qed.
Print Assumptions C17_writeback_tree_unlocked_keys.
Theorem C17_writeback_tree_unlocked_frame : forall inv out k, ~ In k (map fst inv) -> kget k (update_t out inv) = kget k out.
Proof. exact update_t_frame. Qed.
Print Assumptions C17_writeback_tree_unlocked_frame.
Theorem C17_writeback_tree_unlocked_entry : forall inv out k w, NoDup (map fst inv) -> In (k, w) inv ->
  kget k (update_t out inv)
  = match w, kget k out with
    | KNode sub, Some (KNode tsub) => Some (KNode (update_t tsub sub))
    | _, _ => Some w
    end.
Proof. exact update_t_entry. Qed.
Print Assumptions C17_writeback_tree_unlocked_entry.

(* ------------------------------------------------------------------ flatten_keys / unflatten_keys on key trees *)
(* key.split(sep) gives back the components separator.join was given, under the EXACT condition [clean_path]: str.split
   matches leftmost, so no occurrence of sep may start inside a component — also not one that straddles the joint *)
Theorem C17_split_join : forall sep, sep <> "" -> forall p, clean_path sep p = true -> split sep (join sep p) = p.
Proof. exact split_join. Qed.
Print Assumptions C17_split_join.
(* for a separator of ONE character "no component contains it" is that condition *)
Theorem C17_clean_path_char : forall c p, no_sep_inside (String c "") p = true -> clean_path (String c "") p = true.
Proof. exact clean_path_char. Qed.
Print Assumptions C17_clean_path_char.
(* ... for longer separators it is not *)
Theorem C17_split_join_multichar_refuted : exists sep p,
  sep <> "" /\ no_sep_inside sep p = true /\ split sep (join sep p) <> p /\ clean_path sep p = false.
Proof. exact split_join_multichar_refuted. Qed.
Print Assumptions C17_split_join_multichar_refuted.
(* every leaf name of the flattened object is taken by unflatten_keys for exactly the path the leaf has in the original (same
   order); in particular an entry added as "a<sep>b<sep>c" is the nested key (a, b, c) *)
Theorem C17_paths_roundtrip : forall sep es, sep <> "" ->
  (forall pv, In pv (leaves true [] (Node es)) -> clean_path sep (fst pv) = true) ->
  unflat_paths sep (flat_names sep es) = leaves true [] (Node es).
Proof. exact paths_roundtrip. Qed.
Print Assumptions C17_paths_roundtrip.
Theorem C17_paths_roundtrip_char : forall c es,
  (forall pv, In pv (leaves true [] (Node es)) -> no_sep_inside (String c "") (fst pv) = true) ->
  unflat_paths (String c "") (flat_names (String c "") es) = leaves true [] (Node es).
Proof. exact paths_roundtrip_char. Qed.
Print Assumptions C17_paths_roundtrip_char.
Theorem C17_added_key_path : forall sep p, sep <> "" -> clean_path sep p = true -> py_key_path sep (join sep p) = p.
Proof. exact added_key_path. Qed.
Print Assumptions C17_added_key_path.
(* what happens otherwise, through the real flatten / unflatten functions (C04's models) *)
Theorem C17_keys_roundtrip_multichar_refuted : exists sep es y inv,
  flatten_out sep es = Ok y /\ unflatten_in sep y = (inv, None)
  /\ leafpaths es = [(["a"; "b"], Leaf LT 1)] /\ leafpaths inv = [([""; "ab"], Leaf LT 1)].
Proof. exact keys_roundtrip_multichar_refuted. Qed.
Print Assumptions C17_keys_roundtrip_multichar_refuted.
Theorem C17_keys_roundtrip_key_with_sep_refuted : exists es y inv,
  flatten_out "." es = Ok y /\ unflatten_in "." y = (inv, None)
  /\ leafpaths es = [(["a.b"], Leaf LT 1)] /\ leafpaths inv = [(["a"; "b"], Leaf LT 1)].
Proof. exact keys_roundtrip_key_with_sep_refuted. Qed.
Print Assumptions C17_keys_roundtrip_key_with_sep_refuted.
Theorem C17_keys_roundtrip_empty_node_refuted : exists es y inv,
  flatten_out "." es = Ok y /\ unflatten_in "." y = (inv, None) /\ map fst es = ["a"; "n"] /\ map fst inv = ["a"].
Proof. exact keys_roundtrip_empty_node_refuted. Qed.
Print Assumptions C17_keys_roundtrip_empty_node_refuted.

(* non-vacuity *)
Example C17_ex_permute : Permutation [2; 0; 1] (map Z.of_nat (seq 0 3))
  /\ sh_permute (sh_permute [5; 6; 7] [2; 0; 1]) (inv_perm [2; 0; 1]) = [5; 6; 7].
Proof. split; [|reflexivity]. cbn. apply perm_trans with [0; 2; 1]; [apply perm_swap|apply perm_skip, perm_swap]. Qed.
Example C17_ex_flatten : reverse "flatten" {| pos := [VInt (-2)]; kw := [] |} [2; 3; 4] 2 = CUnflatten 1 [3; 4].
Proof. reflexivity. Qed.
Example C17_ex_elem_flatten :
  forward_call "flatten" {| pos := [VInt (-2)]; kw := [] |} = Some (CFlatten (-2) (-1))
  /\ shape_of (CFlatten (-2) (-1)) [2; 3; 4] = Some [2; 12]
  /\ push (CFlatten (-2) (-1)) [2; 3; 4] [1; 2; 3] = Some [1; 11]
  /\ push (reverse "flatten" {| pos := [VInt (-2)]; kw := [] |} [2; 3; 4] 2) [2; 12] [1; 11] = Some [1; 2; 3].
Proof. repeat split; reflexivity. Qed.
Example C17_ex_elem_permute_partial :
  shape_of (CPermute [-2; -3]) [2; 3; 4] = Some [3; 2; 4] /\ push (CPermute [-2; -3]) [2; 3; 4] [1; 2; 3] = Some [2; 1; 3].
Proof. split; reflexivity. Qed.
Example C17_ex_elem_view :
  shape_of (CView [4; -1]) [2; 3; 4] = Some [4; 6] /\ push (CView [4; -1]) [2; 3; 4] [1; 2; 3] = Some [3; 5]
  /\ push (CView [2; 3; 4]) [4; 6] [3; 5] = Some [1; 2; 3].
Proof. repeat split; reflexivity. Qed.
Example C17_ex_lock_blocks :
  no_bare (PUnlock (PSeq (PLock (PRaise ExcException)) PSkip)) = true
  /\ run true (PUnlock (PSeq (PLock (PRaise ExcException)) PSkip)) {| locked := true; last_op := None; queue := [] |}
     = Some ({| locked := true; last_op := Some (rec_of OpLock); queue := [] |}, ExcException).
Proof. split; reflexivity. Qed.
Example C17_ex_balanced : balanced [EEnter 0; EEnter 1; ECall 0 None; EEnter 0; EExit 0 ExcNone; EExit 1 ExcException; EExit 0 ExcNone].
Proof.
  apply (b_block 0 ExcNone [EEnter 1; ECall 0 None; EEnter 0; EExit 0 ExcNone; EExit 1 ExcException]).
  apply (b_block 1 ExcException [ECall 0 None; EEnter 0; EExit 0 ExcNone]).
  apply (b_app [ECall 0 None] [EEnter 0; EExit 0 ExcNone]); [constructor|]. apply (b_block 0 ExcNone []). constructor.
Qed.
Example C17_ex_writeback_locked_new_key :
  writeback true [("a", (0%nat, 10))] [("a", (100%nat, 500)); ("z", (101%nat, 501))] = Some [("a", (0%nat, 500))]
  /\ writeback true [("a", (0%nat, 10))] [("z", (101%nat, 501))] = None.
Proof. split; reflexivity. Qed.
Example C17_ex_unflatten_len1 :
  forward_call "unflatten" {| pos := [VInt 0; VInts [6]]; kw := [] |} = Some (CUnflatten 0 [6])
  /\ shape_of (CUnflatten 0 [6]) [6; 4] = Some [6; 4]
  /\ reverse "unflatten" {| pos := [VInt 0; VInts [6]]; kw := [] |} [6; 4] 2 = CIdentity
  /\ reverse_with false "unflatten" {| pos := [VInt 0; VInts [6]]; kw := [] |} [6; 4] 2 = CFlatten 0 0.
Proof. repeat split; reflexivity. Qed.
Example C17_ex_clean_path : clean_path "." ["a"; "b"; "c"] = true /\ split "." (join "." ["a"; "b"; "c"]) = ["a"; "b"; "c"]
  /\ clean_path "::" ["a:"; "b"] = false /\ split "::" (join "::" ["a:"; "b"]) = ["a"; ":b"].
Proof. repeat split; reflexivity. Qed.
Example C17_ex_block_added_nested :
  flatten_keys_block "." false [("a", Leaf LT 1); ("n", Node [("b", Leaf LT 2)])] [("p.q.r", Leaf LT 9)]
  = BOk [("a", KLeaf 1 1); ("n", KNode [("b", KLeaf 2 2)]); ("p", KNode [("q", KNode [("r", KLeaf 9 9)])])]
  /\ flatten_keys_block "." true [("a", Leaf LT 1); ("n", Node [("b", Leaf LT 2)])] [("p.q.r", Leaf LT 9)]
  = BOk [("a", KLeaf 1 1); ("n", KNode [("b", KLeaf 2 2)])].
Proof. split; reflexivity. Qed.
Example C17_ex_writeback_tree :
  writeback_t true [("a", KLeaf 1 10); ("n", KNode [("b", KLeaf 2 20)])] [("n", KNode [("b", KLeaf 7 99); ("z", KLeaf 8 5)])]
  = Some [("a", KLeaf 1 10); ("n", KNode [("b", KLeaf 2 99)])]
  /\ writeback_t false [("a", KLeaf 1 10); ("n", KNode [("b", KLeaf 2 20)])] [("n", KNode [("b", KLeaf 7 99); ("z", KLeaf 8 5)])]
  = Some [("a", KLeaf 1 10); ("n", KNode [("b", KLeaf 7 99); ("z", KLeaf 8 5)])].
Proof. split; reflexivity. Qed.
