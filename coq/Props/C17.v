(* C17 — context-managed transformations write back through the inverse transformation.  Property theorems only. *)
From Coq Require Import ZArith List String Bool Permutation.
Import ListNotations.
From TD Require Import Model.C17_Inverse Proofs.C17_InverseP Gen.C17_registry.
Open Scope string_scope.
Open Scope Z_scope.

(* the registry, regenerated from /repo on every run: every operation decorated as a context manager has an inverse
   registered under its own name and vice versa, no key registered twice, and every registered operation is one whose
   inverse is modelled below (or a lock toggle / to_module) *)
Definition registry_ok : bool :=
  forallb (fun op => existsb (String.eqb op) (map fst inverse_registry)) decorated_ops
  && forallb (fun k => existsb (String.eqb k) decorated_ops) (map fst inverse_registry)
  && forallb (fun k => Nat.eqb (List.length (filter (String.eqb k) (map fst inverse_registry))) 1) (map fst inverse_registry)
  && forallb (fun k => existsb (String.eqb k) (modelled_ops ++ toggle_ops)) (map fst inverse_registry)
  && forallb (fun kv => String.eqb (snd kv) ("_reverse_" ++
        (if String.eqb (fst kv) "lock_" then "lock" else if String.eqb (fst kv) "unlock_" then "unlock" else fst kv)))
       inverse_registry.
Theorem C17_registry_total : registry_ok = true.
Proof. vm_compute. reflexivity. Qed.
Print Assumptions C17_registry_total.

(* every spelling of the arguments (positional / keyword / mixed / defaults / custom separator) is re-parsed to the same inverse call *)
Theorem C17_spellings_transpose : forall a b sh n,
  reverse "transpose" {| pos := [VInt a; VInt b]; kw := [] |} sh n = CTranspose a b
  /\ reverse "transpose" {| pos := []; kw := [("dim0", VInt a); ("dim1", VInt b)] |} sh n = CTranspose a b
  /\ reverse "transpose" {| pos := []; kw := [("dim1", VInt b); ("dim0", VInt a)] |} sh n = CTranspose a b
  /\ reverse "transpose" {| pos := [VInt a]; kw := [("dim1", VInt b)] |} sh n = CTranspose a b.
Proof. exact transpose_spellings. Qed.
Print Assumptions C17_spellings_transpose.

Theorem C17_spellings_keys : forall sep sh n,
  reverse "flatten_keys" {| pos := [VStr sep]; kw := [] |} sh n = CUnflattenKeys sep
  /\ reverse "flatten_keys" {| pos := []; kw := [("separator", VStr sep)] |} sh n = CUnflattenKeys sep
  /\ reverse "flatten_keys" {| pos := []; kw := [] |} sh n = CUnflattenKeys "."
  /\ reverse "unflatten_keys" {| pos := [VStr sep]; kw := [] |} sh n = CFlattenKeys sep
  /\ reverse "unflatten_keys" {| pos := []; kw := [("separator", VStr sep)] |} sh n = CFlattenKeys sep
  /\ reverse "unflatten_keys" {| pos := []; kw := [] |} sh n = CFlattenKeys ".".
Proof. exact keys_spellings. Qed.
Print Assumptions C17_spellings_keys.

Theorem C17_spellings_flatten : forall a b sh n,
  let r := reverse "flatten" {| pos := [VInt a; VInt b]; kw := [] |} sh n in
  reverse "flatten" {| pos := [VInt a]; kw := [("end_dim", VInt b)] |} sh n = r
  /\ reverse "flatten" {| pos := []; kw := [("start_dim", VInt a); ("end_dim", VInt b)] |} sh n = r
  /\ reverse "flatten" {| pos := []; kw := [("end_dim", VInt b); ("start_dim", VInt a)] |} sh n = r
  /\ reverse "flatten" {| pos := []; kw := [] |} sh n = reverse "flatten" {| pos := [VInt 0; VInt (-1)]; kw := [] |} sh n
  /\ reverse "flatten" {| pos := [VInt a]; kw := [] |} sh n = reverse "flatten" {| pos := [VInt a; VInt (-1)]; kw := [] |} sh n.
Proof. exact flatten_spellings. Qed.
Print Assumptions C17_spellings_flatten.

Theorem C17_spellings_unflatten : forall d sz sh n,
  let r := reverse "unflatten" {| pos := [VInt d; VInts sz]; kw := [] |} sh n in
  reverse "unflatten" {| pos := [VInt d]; kw := [("unflattened_size", VInts sz)] |} sh n = r
  /\ reverse "unflatten" {| pos := []; kw := [("dim", VInt d); ("unflattened_size", VInts sz)] |} sh n = r
  /\ r = CFlatten (norm d (zlen sh)) (norm d (zlen sh) + zlen sz - 1).
Proof. exact unflatten_spellings. Qed.
Print Assumptions C17_spellings_unflatten.

Theorem C17_spellings_squeeze : forall d sh n,
  reverse "unsqueeze" {| pos := [VInt d]; kw := [] |} sh n = CSqueeze d
  /\ reverse "unsqueeze" {| pos := []; kw := [("dim", VInt d)] |} sh n = CSqueeze d
  /\ reverse "squeeze" {| pos := []; kw := [("dim", VInt d)] |} sh n = reverse "squeeze" {| pos := [VInt d]; kw := [] |} sh n
  /\ reverse "squeeze" {| pos := [VInt d]; kw := [] |} sh n = (if n =? zlen sh then CIdentity else CUnsqueeze d).
Proof. exact squeeze_spellings. Qed.
Print Assumptions C17_spellings_squeeze.

Theorem C17_spellings_permute : forall dims sh n,
  reverse "permute" {| pos := [VInts dims]; kw := [] |} sh n
  = CPermute (inv_perm (map (fun d => if d >=? 0 then d else n + d) dims))
  /\ reverse "permute" {| pos := []; kw := [("dims", VInts dims)] |} sh n
  = CPermute (inv_perm (map (fun d => if d >=? 0 then d else n + d) dims)).
Proof. exact permute_spellings. Qed.
Print Assumptions C17_spellings_permute.

(* the inverse call undoes the forward operation on the batch shape — every rank, every (negative) dim *)
Theorem C17_transpose_inverse : forall sh a b sh', sh_transpose sh a b = Some sh' -> sh_transpose sh' a b = Some sh.
Proof. exact transpose_involutive. Qed.
Print Assumptions C17_transpose_inverse.

(* stated on arbitrary lists, i.e. also for the element positions: permuting by dims then by argsort(dims) is the identity *)
Theorem C17_permute_inverse : forall sh dims,
  Permutation dims (map Z.of_nat (seq 0 (List.length sh))) -> sh_permute (sh_permute sh dims) (inv_perm dims) = sh.
Proof. exact permute_inverse. Qed.
Print Assumptions C17_permute_inverse.

Theorem C17_flatten_inverse : forall sh a b, 0 <= a <= b -> b < zlen sh ->
  sh_unflatten (sh_flatten sh a b) a (firstn (Z.to_nat (b + 1 - a)) (skipn (Z.to_nat a) sh)) = sh.
Proof. exact flatten_unflatten. Qed.
Print Assumptions C17_flatten_inverse.

Theorem C17_unflatten_inverse : forall sh d sz, 0 <= d < zlen sh -> sz <> [] ->
  sh_flatten (sh_unflatten sh d sz) d (d + zlen sz - 1)
  = (firstn (Z.to_nat d) sh ++ [prodZ sz] ++ skipn (Z.to_nat (d + 1)) sh)%list.
Proof. exact unflatten_flatten. Qed.
Print Assumptions C17_unflatten_inverse.

Theorem C17_unsqueeze_inverse : forall sh d, 0 <= d <= zlen sh -> sh_squeeze (sh_unsqueeze sh d) d = sh.
Proof. exact unsqueeze_squeeze. Qed.
Print Assumptions C17_unsqueeze_inverse.

Theorem C17_squeeze_inverse : forall sh d, 0 <= d < zlen sh ->
  (nthZ sh d 0 = 1 -> sh_unsqueeze (sh_squeeze sh d) d = sh) /\ (nthZ sh d 0 <> 1 -> sh_squeeze sh d = sh).
Proof. exact squeeze_unsqueeze. Qed.
Print Assumptions C17_squeeze_inverse.

(* write-back: in place when the original is locked, new keys admitted when it is not *)
Theorem C17_writeback_locked : forall out inv r,
  writeback true out inv = Some r ->
  map fst r = map fst out
  /\ map (fun kv => fst (snd kv)) r = map (fun kv => fst (snd kv)) out
  /\ (forall k s c, In (k, (s, c)) r -> match lookup inv k with Some (_, c') => c = c' | None => In (k, (s, c)) out end).
Proof. exact writeback_locked. Qed.
Print Assumptions C17_writeback_locked.

Theorem C17_writeback_unlocked : forall out inv,
  exists r, writeback false out inv = Some r
  /\ map fst r = (map fst out ++ map fst (filter (fun kv => match lookup out (fst kv) with Some _ => false | None => true end) inv))%list
  /\ (forall k v, In (k, v) inv -> lookup out k = None -> In (k, v) r).
Proof. exact writeback_unlocked. Qed.
Print Assumptions C17_writeback_unlocked.

(* nested blocks: inverses are popped in LIFO order and the queue is restored *)
Theorem C17_nested_blocks : forall (Op : Type) (o : @obj Op),
  match exit_ok (enter (enter o)) with
  | Some (x1, o1) => x1 = last_op o /\ exit_ok o1 = Some (last_op o, o)
  | None => False
  end.
Proof. exact @nested_blocks. Qed.
Print Assumptions C17_nested_blocks.

(* non-vacuity *)
Example C17_ex_permute : Permutation [2; 0; 1] (map Z.of_nat (seq 0 3))
  /\ sh_permute (sh_permute [5; 6; 7] [2; 0; 1]) (inv_perm [2; 0; 1]) = [5; 6; 7].
Proof. split; [|reflexivity]. cbn. apply perm_trans with [0; 2; 1]; [apply perm_swap|apply perm_skip, perm_swap]. Qed.
Example C17_ex_flatten : reverse "flatten" {| pos := [VInt (-2)]; kw := [] |} [2; 3; 4] 2 = CUnflatten 1 [3; 4].
Proof. reflexivity. Qed.
