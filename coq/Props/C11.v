(* C11 — in-memory serialisation round trips preserve content in every history.  Property theorems only. *)
From Coq Require Import ZArith List Bool Arith String.
Import ListNotations.
From TD Require Import Model.C11_Layout Model.C11_Tree Model.C11_Formats
  Proofs.C11_LayoutP Proofs.C11_TreeP Proofs.C11_HistP Proofs.C11_WriteP Proofs.C11_FormatsP Proofs.C11_ReorderP Proofs.C11_LockP.
Open Scope nat_scope.

(* ================================================================= 1. the byte layout (ALL leaf lists, any padding unit) *)
(* segments are consecutive from 0, each inside [0, total), pairwise disjoint, and cover [0, total) *)
Theorem C11_layout_disjoint_cover : forall A np (ls : list lspec),
  let L := layout_from A np 0 ls in
  List.length L = List.length ls
  /\ (forall a, nth_error L 0 = Some a -> s_start a = 0)
  /\ (forall i a b, nth_error L i = Some a -> nth_error L (S i) = Some b -> s_stop a = s_start b)
  /\ (forall a, nth_error L (List.length ls - 1) = Some a -> s_stop a = total A np ls)
  /\ (forall i a, nth_error L i = Some a -> s_start a <= s_stop a /\ s_stop a <= total A np ls)
  /\ (forall i j a b, i < j -> nth_error L i = Some a -> nth_error L j = Some b -> s_stop a <= s_start b)
  /\ (forall x, x < total A np ls -> exists i sg, nth_error L i = Some sg /\ s_start sg <= x < s_stop sg).
Proof. exact layout_disjoint_cover. Qed.
Print Assumptions C11_layout_disjoint_cover.

(* the storage consolidate() fills has exactly `total` bytes *)
Theorem C11_storage_size : forall A np ls, Forall wf_leaf ls -> List.length (encode A np ls) = total A np (map spec_of ls).
Proof. exact encode_length. Qed.
Print Assumptions C11_storage_size.

(* alignment: `.view(dtype)` needs start mod element_size = 0.  FALSE of the code as it is (padding unit 8, 16-byte elements) *)
Definition C11_layout_aligned_full_statement : Prop := aligned_statement 8.
Theorem C11_layout_aligned_refuted : ~ aligned_statement 8.
Proof. exact layout_aligned_refuted. Qed.
Print Assumptions C11_layout_aligned_refuted.

(* ... true for every element size that divides the padding unit (1, 2, 4, 8 today; also 16 once the unit is 16) *)
Theorem C11_layout_aligned_partial : forall A ls, 0 < A -> forall i sg l,
  nth_error (layout_from A true 0 ls) i = Some sg -> nth_error ls i = Some l ->
  0 < sp_esz l -> Nat.divide (sp_esz l) A -> s_start sg mod sp_esz l = 0.
Proof. exact layout_aligned_partial. Qed.
Print Assumptions C11_layout_aligned_partial.

(* ... and without padding when all leaves share one element size *)
Theorem C11_layout_aligned_uniform : forall A e ls, 0 < e -> Forall (fun l => sp_esz l = e) ls -> forall i sg,
  nth_error (layout_from A false 0 ls) i = Some sg -> s_start sg mod e = 0.
Proof. exact layout_aligned_uniform. Qed.
Print Assumptions C11_layout_aligned_uniform.

(* decode . encode on bytes and shapes: every leaf comes back exactly when its record is aligned, and the view fails otherwise *)
Theorem C11_decode_encode_bytes : forall A np ls i l sg,
  Forall wf_leaf ls -> nth_error ls i = Some l ->
  nth_error (layout_from A np 0 (map spec_of ls)) i = Some sg ->
  flat_size A np (spec_of l) mod l_esz l = 0 ->
  decode_leaf (encode A np ls) (l_dt l) (l_esz l) (l_shape l) sg
  = if s_start sg mod l_esz l =? 0 then DOk l else DViewErr.
Proof. exact decode_encode_leaf. Qed.
Print Assumptions C11_decode_encode_bytes.

(* the size side condition holds for every element size that divides, or is a multiple of, the padding unit *)
Theorem C11_size_condition : forall A l, 0 < A -> 0 < l_esz l -> Nat.divide (l_esz l) A \/ Nat.divide A (l_esz l) ->
  flat_size A true (spec_of l) mod l_esz l = 0.
Proof. exact size_ok_pad. Qed.
Print Assumptions C11_size_condition.

(* an in-place write through a view of the storage = re-encoding with the new bytes (nothing else moves) *)
Theorem C11_write_through : forall A np pre l post b,
  Forall wf_leaf pre -> List.length b = List.length (l_bytes l) ->
  splice (encode A np (pre ++ l :: post)) (total A np (map spec_of pre)) b = encode A np (pre ++ set_bytes l b :: post).
Proof. exact splice_encode. Qed.
Print Assumptions C11_write_through.

(* ================================================================= 2. consolidate / consolidated rebuild on trees *)
(* consolidate(): same keys, order, tensors, non-tensor data, batch sizes, names, device -- but never locked (D110) *)
Theorem C11_consolidate_content : forall A np t st, tree_side A np t -> consolidate_tree A np false t = Ok st ->
  unview_t (cur st) = setlock_t false (unview_t t).
Proof. exact consolidate_content. Qed.
Print Assumptions C11_consolidate_content.

(* the consolidated rebuild of (metadata, storage) of ANY well-formed aligned tree, at any depth, inside any storage:
   the tree itself, every tensor a view at its offset, re-locked as the metadata says, keys regrouped by kind *)
Theorem C11_rebuild_consolidated : forall A np t pre post pl, Forall wf_leaf pre -> no_reserved_t t = true ->
  side A np (total A np (lspecs pre)) (flat t) ->
  rebuild_t (encode A np (pre ++ flat t ++ post)) pl (fst (meta_t A np t (total A np (lspecs pre))))
  = Ok (reorder_t (relock_t pl (fst (mark_t A np t (total A np (lspecs pre)))))).
Proof. intros A np. exact (proj1 (rebuild_ok A np)). Qed.
Print Assumptions C11_rebuild_consolidated.

Theorem C11_consolidate_16byte_refuted :
  wf_t t_d11 = true /\ no_reserved_t t_d11 = true /\ sizes_ok 8 true (flat t_d11) = true /\
  consolidate_tree 8 true false t_d11 = Raised EView.
Proof. exact consolidate_16byte_refuted. Qed.
Print Assumptions C11_consolidate_16byte_refuted.

(* ================================================================= 3. pickle / deepcopy in histories *)
Definition C11_pickle_history_full_statement : Prop :=
  forall t ops, tree_side 8 true t ->
    let st := run {| cur := t; snap := None |} ops in
    exists st', pickle_roundtrip st = Ok st' /\
      forall path k, leaf_at (cur st') path k = leaf_at (cur st) path k
                     /\ option_map meta (sub_at (cur st') path) = option_map meta (sub_at (cur st) path).

(* (a) never consolidated: every history *)
Theorem C11_pickle_unconsolidated : forall t ops,
  existsb is_cons ops = false ->
  let st := run {| cur := t; snap := None |} ops in
  lock_closed_t (cur st) = true -> pickle_roundtrip st = Ok st.
Proof. exact pickle_unconsolidated. Qed.
Print Assumptions C11_pickle_unconsolidated.

(* (a') ... and the side condition is an invariant: EVERY history without consolidate() from any lock-closed tensordict *)
Theorem C11_pickle_unconsolidated_all : forall t ops,
  lock_closed_t t = true -> forallb op_closed ops = true -> existsb is_cons ops = false ->
  let st := run {| cur := t; snap := None |} ops in pickle_roundtrip st = Ok st.
Proof. exact pickle_unconsolidated_all. Qed.
Print Assumptions C11_pickle_unconsolidated_all.

(* (b) freshly consolidated, nothing locked: the copy is the consolidated tensordict, keys regrouped *)
Theorem C11_pickle_fresh_partial : forall A np t st, tree_side A np t -> unlocked_t t = true ->
  consolidate_tree A np false t = Ok st ->
  pickle_roundtrip st = Ok {| cur := reorder_t (cur st); snap := snap st |}.
Proof. exact pickle_fresh_partial. Qed.
Print Assumptions C11_pickle_fresh_partial.

(* (c) consolidated, then ANY history of in-place writes (set_ / copy_ / update_ at any depth): the writes go through the
   storage and the copy is the tensordict as it is at the moment of the call *)
Theorem C11_pickle_inplace_history : forall A np t st0 ws, tree_side A np t -> unlocked_t t = true ->
  consolidate_tree A np false t = Ok st0 -> forallb is_write ws = true ->
  let st := run st0 ws in
  pickle_roundtrip st = Ok {| cur := reorder_t (cur st); snap := snap st |}.
Proof. exact pickle_inplace_history. Qed.
Print Assumptions C11_pickle_inplace_history.

(* (d) what the copy of a consolidated tensordict is in general: the SOURCE as it was when consolidate() ran *)
Theorem C11_pickle_of_consolidated : forall A np tofile t st, tree_side A np t ->
  consolidate_tree A np tofile t = Ok st ->
  pickle_roundtrip st = Ok {| cur := reorder_t (relock_t false (fst (mark_t A np t 0))); snap := snap st |}.
Proof. exact pickle_of_consolidated. Qed.
Print Assumptions C11_pickle_of_consolidated.

(* (e) the full statement is false (D12): an out-of-place write and a new key after consolidate() are not in the copy *)
Theorem C11_pickle_after_mutation_refuted :
  exists t ops, tree_side 8 true t /\
    let st := run {| cur := t; snap := None |} ops in
    exists st', pickle_roundtrip st = Ok st' /\
      leaf_at (cur st) [] "a" = Some (i32 1) /\ leaf_at (cur st') [] "a" = Some (i32 0) /\
      leaf_at (cur st) [] "c" = Some (i32 1) /\ leaf_at (cur st') [] "c" = None.
Proof. exact pickle_after_mutation_refuted. Qed.
Print Assumptions C11_pickle_after_mutation_refuted.

(* (f) lock state: consolidate() drops it, the pickled copy has the source's (D110) *)
Theorem C11_consolidate_lock_refuted :
  exists t, tree_side 8 true t /\ m_locked (meta t) = true /\
    exists st st', consolidate_tree 8 true false t = Ok st /\ m_locked (meta (cur st)) = false /\
                   pickle_roundtrip st = Ok st' /\ m_locked (meta (cur st')) = true.
Proof. exact consolidate_lock_refuted. Qed.
Print Assumptions C11_consolidate_lock_refuted.

(* (g) device after consolidate(filename) (D114) *)
Theorem C11_file_device_refuted :
  exists t, tree_side 8 true t /\ m_dev (meta t) = None /\
    exists st st', consolidate_tree 8 true true t = Ok st /\ m_dev (meta (cur st)) = Some 0 /\
                   pickle_roundtrip st = Ok st' /\ m_dev (meta (cur st')) = None.
Proof. exact file_device_refuted. Qed.
Print Assumptions C11_file_device_refuted.

(* (h) a nested tensordict named like a field of the metadata dict (D115) *)
Theorem C11_reserved_key_refuted :
  wf_t t_d115 = true /\ sizes_ok 8 true (flat t_d115) = true /\ aligned_at 8 true 0 (lspecs (flat t_d115)) = true /\
  exists st st', consolidate_tree 8 true false t_d115 = Ok st /\ pickle_roundtrip st = Ok st' /\
    leaf_at (cur st) ["size"%string] "a" = Some (i32 2) /\ sub_at (cur st') ["size"%string] = None.
Proof. exact reserved_key_refuted. Qed.
Print Assumptions C11_reserved_key_refuted.

(* regrouping the keys changes nothing that is looked up by key *)
Theorem C11_reorder_lookup : forall t, nodup_t t = true ->
  forall path k, leaf_at (reorder_t t) path k = leaf_at t path k
                 /\ option_map meta (sub_at (reorder_t t) path) = option_map meta (sub_at t path).
Proof. exact reorder_lookup. Qed.
Print Assumptions C11_reorder_lookup.

(* ================================================================= 4. structural formats, each for the fields it carries *)
(* to_dict / from_dict(batch_size=bs): keys, nesting, the tensor objects, the non-tensor payloads; every node gets the
   batch size the caller passes again; no names, no device, no lock state (a dict has no place for them) *)
Theorem C11_to_dict_from_dict : forall t bs, all_prefix_t bs t = true -> from_dict (to_dict t) bs = Ok (blanked_t bs t).
Proof. exact to_dict_from_dict. Qed.
Print Assumptions C11_to_dict_from_dict.

Theorem C11_to_dict_from_dict_coherent : forall t, coherent_t t = true ->
  from_dict (to_dict t) (m_bs (meta t)) = Ok (blanked_t (m_bs (meta t)) t).
Proof. exact to_dict_from_dict_coherent. Qed.
Print Assumptions C11_to_dict_from_dict_coherent.

(* pytree: everything but the lock state *)
Theorem C11_pytree_roundtrip : forall t, coherent_t t = true -> pt_unflatten (pt_leaves t) (pt_spec t) = Some (setlock_t false t).
Proof. exact pytree_roundtrip. Qed.
Print Assumptions C11_pytree_roundtrip.

(* state_dict / load_state_dict into a target like the source: contents and batch sizes arrive; names, lock state and device
   stay the target's *)
Theorem C11_state_dict_roundtrip : forall t g, like_t t g = true -> nodup_t g = true ->
  load_t g (state_dict t) = LDone (merge_t t g).
Proof. exact state_dict_roundtrip. Qed.
Print Assumptions C11_state_dict_roundtrip.

(* numpy structured arrays: the packed record is readable back iff every field size divides the record size (D111) *)
Theorem C11_struct_fields_partial : forall sizes e, Forall (fun s => s = e) sizes -> 0 < e ->
  forallb (fun s => record_size sizes mod s =? 0) sizes = true.
Proof. exact struct_fields_partial. Qed.
Print Assumptions C11_struct_fields_partial.

Theorem C11_struct_fields_refuted : exists sizes, Forall (fun s => 0 < s) sizes /\
  forallb (fun s => record_size sizes mod s =? 0) sizes = false.
Proof. exact struct_fields_refuted. Qed.
Print Assumptions C11_struct_fields_refuted.

(* ================================================================= non-vacuity *)
Example C11_ex_layout : layout true [ {| sp_esz := 2; sp_shape := [3] |}; {| sp_esz := 8; sp_shape := [2] |}; {| sp_esz := 1; sp_shape := [0; 4] |} ]
  = [ {| s_start := 0; s_stop := 8; s_pad := 2 |}; {| s_start := 8; s_stop := 24; s_pad := 0 |}; {| s_start := 24; s_stop := 24; s_pad := 0 |} ].
Proof. reflexivity. Qed.

Definition ex_tree : tree :=
  Node (m3 false) (FLeaf "z" (i32 7) None (FSub "n" (Node (m3 false) (FNonT "s" 1 [3] (FLeaf "b" (i32 2) None FNil))) (FLeaf "a" (i32 1) None FNil))).
Example C11_ex_side : tree_side 8 true ex_tree /\ unlocked_t ex_tree = true /\ coherent_t ex_tree = true /\ nodup_t ex_tree = true.
Proof. repeat split; reflexivity. Qed.
Example C11_ex_consolidate : exists st, consolidate_tree 8 true false ex_tree = Ok st /\ List.length (sn_storage (match snap st with Some s => s | None => {| sn_meta := MNode m0 [] [] MNil; sn_storage := [] |} end)) = 48.
Proof. eexists. split; [vm_compute; reflexivity|reflexivity]. Qed.
Example C11_ex_inplace : forallb is_write [OWrite ["n"%string] "b" (l_bytes (i32 9)); OWrite [] "a" (l_bytes (i32 4))] = true.
Proof. reflexivity. Qed.
Example C11_ex_like : like_t ex_tree ex_tree = true /\ nodup_t ex_tree = true.
Proof. split; reflexivity. Qed.
