(* C11 — in-memory serialisation round trips preserve content in every history.  Property theorems only. *)
From Coq Require Import ZArith List Bool Arith String.
Import ListNotations.
From TD Require Import Model.C11_Layout Model.C11_Tree Model.C11_Formats Proofs.C11_LayoutP.
Open Scope nat_scope.

(* ---------------------------------------------------------------- the byte layout (for ALL leaf lists, any padding unit) *)
(* segments are consecutive from 0, each within [0, total), pairwise disjoint, and cover [0, total); the storage that
   consolidate() fills has exactly `total` bytes *)
Theorem C11_layout_disjoint_cover : forall A np (ls : list lspec),
  let L := layout_from A np 0 ls in
  List.length L = List.length ls
  /\ (forall a, nth_error L 0 = Some a -> s_start a = 0)
  /\ (forall i a b, nth_error L i = Some a -> nth_error L (S i) = Some b -> s_stop a = s_start b)
  /\ (forall a, nth_error L (List.length ls - 1) = Some a -> s_stop a = total A np ls)
  /\ (forall i a, nth_error L i = Some a -> s_start a <= s_stop a /\ s_stop a <= total A np ls)
  /\ (forall i j a b, i < j -> nth_error L i = Some a -> nth_error L j = Some b -> s_stop a <= s_start b)
  /\ (forall x, x < total A np ls -> exists i sg, nth_error L i = Some sg /\ s_start sg <= x < s_stop sg).
Proof. exact layout_disjoint_cover. Qed.
Print Assumptions C11_layout_disjoint_cover.
