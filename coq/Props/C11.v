(* C11 — in-memory serialisation round trips preserve content in every history.  Property theorems only. *)
From Coq Require Import ZArith List Bool Arith String.
Import ListNotations.
From TD Require Import Model.C11_Layout Model.C11_Tree Model.C11_Formats Model.C11_Jagged
  Proofs.C11_JaggedP Proofs.C11_ThreadsP Proofs.C11_LayoutP Proofs.C11_TreeP Proofs.C11_AuxP Proofs.C11_PickleP Proofs.C11_HistP Proofs.C11_WriteP Proofs.C11_FormatsP Proofs.C11_ReorderP Proofs.C11_LockP.
Open Scope nat_scope.

(* ================================================================= 1. the byte layout (ALL leaf lists, any padding unit) *)
(* segments are consecutive from 0, each inside [0, total), pairwise disjoint, and cover [0, total) *)
Theorem C11_layout_disjoint_cover : forall A np (ls : list lspec),
  let L := layout_from A np 0 ls in
  List.length L = List.length ls
  /\ (forall a, nth_error L 0 = Some a -> s_start a = 0)
  /\ (forall i a b, nth_error L i = Some a -> nth_error L (S i) = Some b -> s_stop a = s_start b)
  /\ (forall a, nth_error L (List.length ls - 1) = Some a -> s_stop a = total A np ls)
  /\ (forall i a, nth_error L i = Some a -> s_start a <= s_stop a /\ s_stop a <= total A np ls)
  /\ (forall i j a b, i < j -> nth_error L i = Some a -> nth_error L j = Some b -> s_stop a <= s_start b)
  /\ (forall x, x < total A np ls -> exists i sg, nth_error L i = Some sg /\ s_start sg <= x < s_stop sg).
Proof. exact layout_disjoint_cover. Qed.
Print Assumptions C11_layout_disjoint_cover.

(* the storage consolidate() fills has exactly `total` bytes *)
Theorem C11_storage_size : forall A np ls, Forall wf_leaf ls -> List.length (encode A np ls) = total A np (map spec_of ls).
Proof. exact encode_length. Qed.
Print Assumptions C11_storage_size.

(* alignment (fix: D11, padding unit 16): `.view(dtype)` needs start mod element_size = 0 -- TRUE for every leaf list over the
   supported element sizes 1, 2, 4, 8, 16 *)
Theorem C11_layout_aligned : forall ls i sg l,
  Forall (fun l => supported (sp_esz l) = true) ls ->
  nth_error (layout true ls) i = Some sg -> nth_error ls i = Some l -> s_start sg mod sp_esz l = 0.
Proof. exact layout_aligned. Qed.
Print Assumptions C11_layout_aligned.

(* ... and the former padding unit 8 could not do it (uint8[8] followed by complex128): why the repair pads to 16 *)
Theorem C11_layout_unit8_insufficient : ~ aligned_statement 8.
Proof. exact layout_aligned_refuted. Qed.
Print Assumptions C11_layout_unit8_insufficient.

(* ... true for every element size that divides the padding unit (1, 2, 4, 8 today; also 16 once the unit is 16) *)
Theorem C11_layout_aligned_partial : forall A ls, 0 < A -> forall i sg l,
  nth_error (layout_from A true 0 ls) i = Some sg -> nth_error ls i = Some l ->
  0 < sp_esz l -> Nat.divide (sp_esz l) A -> s_start sg mod sp_esz l = 0.
Proof. exact layout_aligned_partial. Qed.
Print Assumptions C11_layout_aligned_partial.

(* ... and without padding when all leaves share one element size *)
Theorem C11_layout_aligned_uniform : forall A e ls, 0 < e -> Forall (fun l => sp_esz l = e) ls -> forall i sg,
  nth_error (layout_from A false 0 ls) i = Some sg -> s_start sg mod e = 0.
Proof. exact layout_aligned_uniform. Qed.
Print Assumptions C11_layout_aligned_uniform.

(* decode . encode on bytes and shapes: every leaf comes back exactly when its record is aligned, and the view fails otherwise *)
Theorem C11_decode_encode_bytes : forall A np ls i l sg,
  Forall wf_leaf ls -> nth_error ls i = Some l ->
  nth_error (layout_from A np 0 (map spec_of ls)) i = Some sg ->
  flat_size A np (spec_of l) mod l_esz l = 0 ->
  decode_leaf (encode A np ls) (l_dt l) (l_esz l) (l_shape l) sg
  = if s_start sg mod l_esz l =? 0 then DOk l else DViewErr.
Proof. exact decode_encode_leaf. Qed.
Print Assumptions C11_decode_encode_bytes.

(* the size side condition holds for every element size that divides, or is a multiple of, the padding unit *)
Theorem C11_size_condition : forall A l, 0 < A -> 0 < l_esz l -> Nat.divide (l_esz l) A \/ Nat.divide A (l_esz l) ->
  flat_size A true (spec_of l) mod l_esz l = 0.
Proof. exact size_ok_pad. Qed.
Print Assumptions C11_size_condition.

(* an in-place write through a view of the storage = re-encoding with the new bytes (nothing else moves) *)
Theorem C11_write_through : forall A np pre l post b,
  Forall wf_leaf pre -> List.length b = List.length (l_bytes l) ->
  splice (encode A np (pre ++ l :: post)) (total A np (map spec_of pre)) b = encode A np (pre ++ set_bytes l b :: post).
Proof. exact splice_encode. Qed.
Print Assumptions C11_write_through.

(* ================================================================= 2. consolidate / consolidated rebuild on trees *)
(* consolidate(): same keys, order, tensors, non-tensor data, batch sizes, names, device and (fix: D110) lock state *)
Theorem C11_consolidate_content : forall A np t st, tree_side A np t -> consolidate_tree A np false t = Ok st ->
  unview_t (cur st) = unview_t t.
Proof. exact consolidate_content. Qed.
Print Assumptions C11_consolidate_content.

(* the consolidated rebuild of (metadata, storage) of ANY well-formed aligned tree, at any depth, inside any storage:
   the tree itself, every tensor a view at its offset, re-locked as the metadata says, keys regrouped by kind *)
Theorem C11_rebuild_consolidated : forall A np t pre post pl, Forall wf_leaf pre -> no_reserved_t t = true ->
  side A np (total A np (lspecs pre)) (flat t) ->
  rebuild_t (encode A np (pre ++ flat t ++ post)) pl (fst (meta_t A np t (total A np (lspecs pre))))
  = Ok (reorder_t (relock_t pl (fst (mark_t A np t (total A np (lspecs pre)))))).
Proof. intros A np. exact (proj1 (rebuild_ok A np)). Qed.
Print Assumptions C11_rebuild_consolidated.

(* ================================================================= 3. pickle / deepcopy in histories *)
(* the full statement; after fix: D12 it follows from (f) + (e) + C11_reorder_lookup as soon as the storage of a current
   snapshot holds the bytes of the current tensors (aliasing: proved for (b), (c); checked against the code otherwise) *)
Definition C11_pickle_history_full_statement : Prop :=
  forall t ops, tree_side align_unit true t ->
    let st := run {| cur := t; snap := None |} ops in
    exists st', pickle_roundtrip st = Ok st' /\
      forall path k, leaf_at (cur st') path k = leaf_at (cur st) path k
                     /\ option_map meta (sub_at (cur st') path) = option_map meta (sub_at (cur st) path).

(* (a) never consolidated: every history *)
Theorem C11_pickle_unconsolidated : forall t ops,
  existsb is_cons ops = false ->
  let st := run {| cur := t; snap := None |} ops in
  lock_closed_t (cur st) = true -> pickle_roundtrip st = Ok st.
Proof. exact pickle_unconsolidated. Qed.
Print Assumptions C11_pickle_unconsolidated.

(* (a') ... and the side condition is an invariant: EVERY history without consolidate() from any lock-closed tensordict *)
Theorem C11_pickle_unconsolidated_all : forall t ops,
  lock_closed_t t = true -> forallb op_closed ops = true -> existsb is_cons ops = false ->
  let st := run {| cur := t; snap := None |} ops in pickle_roundtrip st = Ok st.
Proof. exact pickle_unconsolidated_all. Qed.
Print Assumptions C11_pickle_unconsolidated_all.

(* (b) freshly consolidated (lock state included): the copy is the consolidated tensordict, keys regrouped *)
Theorem C11_pickle_fresh : forall t st, tree_side align_unit true t -> lock_closed_t t = true ->
  consolidate_tree align_unit true false t = Ok st ->
  pickle_roundtrip st = Ok {| cur := reorder_t (cur st); snap := snap st |}.
Proof. exact pickle_fresh. Qed.
Print Assumptions C11_pickle_fresh.

(* (c) consolidated, then ANY history of in-place writes (set_ / copy_ / update_ at any depth): the writes go through the
   storage, the snapshot stays current, and the copy is the tensordict as it is at the moment of the call *)
Theorem C11_pickle_inplace_history : forall t st0 ws, tree_side align_unit true t -> lock_closed_t t = true ->
  consolidate_tree align_unit true false t = Ok st0 -> forallb is_write ws = true ->
  let st := run st0 ws in
  pickle_roundtrip st = Ok {| cur := reorder_t (cur st); snap := snap st |}.
Proof. exact pickle_inplace_history. Qed.
Print Assumptions C11_pickle_inplace_history.

(* (d) fix: D12, ANY state: a snapshot that no longer describes the object (metadata recomputed now differs, or some tensor
   is not the view at its offset) is not used: the copy is made from the object itself and does not carry the snapshot *)
Theorem C11_pickle_stale_snapshot : forall st sn, snap st = Some sn -> snapshot_current st sn = false ->
  pickle_roundtrip st = Ok {| cur := unview_t (relock_t false (cur st)); snap := None |}.
Proof. exact pickle_stale_snapshot. Qed.
Print Assumptions C11_pickle_stale_snapshot.

(* (f) fix: D12 -- EVERY history (consolidations, in-place and structural mutations, locks, names, in any order): whenever
   the snapshot is absent or no longer current at the moment of the call, the copy is the object itself *)
Theorem C11_pickle_history_stale : forall t ops,
  lock_closed_t t = true -> forallb op_closed ops = true ->
  let st := run {| cur := t; snap := None |} ops in
  (match snap st with None => True | Some sn => snapshot_current st sn = false end) ->
  pickle_roundtrip st = Ok {| cur := unview_t (cur st); snap := None |} \/
  (snap st = None /\ pickle_roundtrip st = Ok st).
Proof. exact pickle_history_stale. Qed.
Print Assumptions C11_pickle_history_stale.

(* (e) ANY state whose snapshot is current: the consolidated rebuild is the object itself, keys regrouped -- provided the
   storage holds the bytes of the current tensors (they are views of it; this aliasing fact is proved for the histories of
   (b) and (c) and checked byte for byte against the implementation on every generated history) *)
Theorem C11_pickle_current_snapshot : forall st sn, snap st = Some sn -> snapshot_current st sn = true ->
  sn_storage sn = encode align_unit true (flat (cur st)) -> tree_side align_unit true (cur st) -> lock_closed_t (cur st) = true ->
  pickle_roundtrip st = Ok {| cur := reorder_t (cur st); snap := snap st |}.
Proof. exact pickle_current_snapshot. Qed.
Print Assumptions C11_pickle_current_snapshot.

(* (g) the clause "every tensor is the view at ITS OWN layout offset" of the guard cannot be dropped: with metadata equality
   and "some view of the storage" alone, two same-dtype/shape tensors that traded places after consolidate() pass the guard
   and the rebuild returns them un-swapped (the weakened guard is refuted; the real one rejects and the copy is right) *)
Theorem C11_guard_offsets_necessary :
  let st := run {| cur := t_swap; snap := None |} [OConsolidate false; OSwap [] "a"%string "b"%string] in
  exists sn t', snap st = Some sn /\ snapshot_current_weak st sn = true /\ snapshot_current st sn = false /\
    rebuild_t (sn_storage sn) false (sn_meta sn) = Ok t' /\
    leaf_at (cur st) [] "a" = Some (f32 2) /\ leaf_at t' [] "a" = Some (f32 1) /\
    exists st', pickle_roundtrip st = Ok st' /\ leaf_at (cur st') [] "a" = Some (f32 2) /\ leaf_at (cur st') [] "b" = Some (f32 1).
Proof. exact guard_offsets_necessary. Qed.
Print Assumptions C11_guard_offsets_necessary.

(* regrouping the keys changes nothing that is looked up by key *)
Theorem C11_reorder_lookup : forall t, nodup_t t = true ->
  forall path k, leaf_at (reorder_t t) path k = leaf_at t path k
                 /\ option_map meta (sub_at (reorder_t t) path) = option_map meta (sub_at t path).
Proof. exact reorder_lookup. Qed.
Print Assumptions C11_reorder_lookup.

(* ================================================================= 4. structural formats, each for the fields it carries *)
(* to_dict / from_dict(batch_size=bs): keys, nesting, the tensor objects, the non-tensor payloads; every node gets the
   batch size the caller passes again; no names, no device, no lock state (a dict has no place for them) *)
Theorem C11_to_dict_from_dict : forall t bs, all_prefix_t bs t = true -> from_dict (to_dict t) bs = Ok (blanked_t bs t).
Proof. exact to_dict_from_dict. Qed.
Print Assumptions C11_to_dict_from_dict.

Theorem C11_to_dict_from_dict_coherent : forall t, coherent_t t = true ->
  from_dict (to_dict t) (m_bs (meta t)) = Ok (blanked_t (m_bs (meta t)) t).
Proof. exact to_dict_from_dict_coherent. Qed.
Print Assumptions C11_to_dict_from_dict_coherent.

(* pytree: everything but the lock state *)
Theorem C11_pytree_roundtrip : forall t, coherent_t t = true -> pt_unflatten (pt_leaves t) (pt_spec t) = Some (setlock_t false t).
Proof. exact pytree_roundtrip. Qed.
Print Assumptions C11_pytree_roundtrip.

(* state_dict / load_state_dict into a target like the source: contents and batch sizes arrive; names, lock state and device
   stay the target's *)
Theorem C11_state_dict_roundtrip : forall t g, like_t t g = true -> nodup_t g = true ->
  load_t g (state_dict t) = LDone (merge_t t g).
Proof. exact state_dict_roundtrip. Qed.
Print Assumptions C11_state_dict_roundtrip.

(* numpy structured arrays: a field of the packed record can be viewed without a copy iff its size divides the record size
   (fix: D111 -- from_struct_array copies the other fields) *)
Theorem C11_struct_fields_partial : forall sizes e, Forall (fun s => s = e) sizes -> 0 < e ->
  forallb (fun s => record_size sizes mod s =? 0) sizes = true.
Proof. exact struct_fields_partial. Qed.
Print Assumptions C11_struct_fields_partial.

Theorem C11_struct_fields_refuted : exists sizes, Forall (fun s => 0 < s) sizes /\
  forallb (fun s => record_size sizes mod s =? 0) sizes = false.
Proof. exact struct_fields_refuted. Qed.
Print Assumptions C11_struct_fields_refuted.


(* ================================================================= 5. the codec with jagged tensors, lazy stacks, tensorclass nodes *)
(* reader (writer t) = t for EVERY tree: any depth, any number of jagged tensors per node, with or without lengths, before /
   after / between plain leaves, nodes of class TensorDict / tensorclass / lazy stack (members read back by index), inside
   any storage (pre / post), under any lock state of the ancestors: the tree itself, re-locked as the metadata says, keys
   regrouped by kind (non-tensors, leaves, nested) *)
Theorem C11_jagged_codec_roundtrip : forall A np t pl, jkeys_ok_t t = true -> jtree_side A np t ->
  jrebuild_t true (jencode A np t) pl (fst (jmeta_t A np t 0)) = JOk (jreorder_t (jrelock_t pl t)).
Proof. exact jcodec_roundtrip. Qed.
Print Assumptions C11_jagged_codec_roundtrip.

(* the per-node discipline of the two local names nested_values / nested_lengths: what the `leaves` loop of a node returns
   does not depend on what they held when the loop started -- nothing read for one jagged tensor reaches the next *)
Theorem C11_jagged_state_independent : forall A np f pre post st st', Forall wf_leaf pre -> jkeys_ok_f f = true ->
  side A np (total A np (lspecs pre)) (jflat_f f) ->
  jread_leaves true (encode A np (pre ++ jflat_f f ++ post)) (jmf_lvs A np f (total A np (lspecs pre))) st
  = jread_leaves true (encode A np (pre ++ jflat_f f ++ post)) (jmf_lvs A np f (total A np (lspecs pre))) st'.
Proof. exact jread_state_independent. Qed.
Print Assumptions C11_jagged_state_independent.

(* ... and the reset `nested_lengths = None` at <NJT_VALUES> cannot be dropped: without it a jagged tensor without lengths
   stored after one with lengths comes back with the first one's lengths *)
Theorem C11_jagged_reset_necessary :
  jrebuild_t true (jencode align_unit true t_two_njt) false (fst (jmeta_t align_unit true t_two_njt 0)) = JOk t_two_njt /\
  exists t', jrebuild_t false (jencode align_unit true t_two_njt) false (fst (jmeta_t align_unit true t_two_njt 0)) = JOk t' /\
             t' <> t_two_njt /\
             jpart_l (jents t') = JNjt "j0" (ileaf 3 2 [6] [1; 2; 3; 4; 5; 6]%Z) (Some (ileaf 8 8 [3] [1; 1; 2]%Z)) (ileaf 8 8 [4] [0; 2; 3; 6]%Z)
               (JLeaf "m" (ileaf 1 1 [3] [7; 8; 9]%Z)
                 (JNjt "j1" (ileaf 8 8 [4] [10; 11; 12; 13]%Z) (Some (ileaf 8 8 [3] [1; 1; 2]%Z)) (ileaf 8 8 [4] [0; 1; 1; 4]%Z) JNil)).
Proof. exact njt_reset_necessary. Qed.
Print Assumptions C11_jagged_reset_necessary.

(* the statement without a condition on the keys is FALSE of the code (finding D116): the markers are tested with
   str.startswith on user keys *)
Definition C11_jagged_roundtrip_full_statement : Prop := jroundtrip_statement.
Theorem C11_jagged_roundtrip_refuted : ~ jroundtrip_statement.
Proof. exact jroundtrip_marker_keys_refuted. Qed.
Print Assumptions C11_jagged_roundtrip_refuted.

Theorem C11_jagged_marker_sub_renamed :
  jtree_side align_unit true t_marker_sub /\
  exists t', jroundtrip t_marker_sub = JOk t' /\ jfind_sub (jents t') "<TD>x" = None /\ jfind_sub (jents t') "x" <> None.
Proof. exact jroundtrip_marker_sub_renamed. Qed.
Print Assumptions C11_jagged_marker_sub_renamed.

Theorem C11_jagged_roundtrip_partial : forall t, jkeys_ok_t t = true -> jtree_side align_unit true t ->
  jroundtrip t = JOk (jreorder_t (jrelock_t false t)).
Proof. exact jroundtrip_partial. Qed.
Print Assumptions C11_jagged_roundtrip_partial.

(* ================================================================= 6. consolidate(num_threads > 0) *)
(* the per-entry copy tasks, completed in ANY order in which each runs at least once, on a storage with ANY initial content
   (torch.empty), leave exactly the bytes the single-threaded torch.cat writes *)
Theorem C11_threads_any_order : forall A np ls, Forall wf_leaf ls -> forall init order,
  List.length init = total A np (lspecs ls) -> (forall i, i < List.length ls -> In i order) ->
  run_tasks init (pick_tasks (tasks_from A np 0 ls) order) = encode A np ls.
Proof. exact threads_any_order. Qed.
Print Assumptions C11_threads_any_order.

Theorem C11_threads_permutation : forall A np ls, Forall wf_leaf ls -> forall init order,
  List.length init = total A np (lspecs ls) -> Permutation.Permutation (seq 0 (List.length ls)) order ->
  run_tasks init (pick_tasks (tasks_from A np 0 ls) order) = encode A np ls.
Proof. exact threads_permutation. Qed.
Print Assumptions C11_threads_permutation.

(* ... and a task that is never completed leaves uninitialised bytes: every future must be waited for (fix: D113) *)
Theorem C11_threads_missing_task_refuted :
  exists ls init order, Forall wf_leaf ls /\ List.length init = total 16 true (lspecs ls) /\ NoDup order /\
    run_tasks init (pick_tasks (tasks_from 16 true 0 ls) order) <> encode 16 true ls.
Proof. exact threads_missing_task_refuted. Qed.
Print Assumptions C11_threads_missing_task_refuted.

(* ================================================================= non-vacuity *)
Example C11_ex_layout : layout true [ {| sp_esz := 2; sp_shape := [3] |}; {| sp_esz := 8; sp_shape := [2] |}; {| sp_esz := 1; sp_shape := [0; 4] |} ]
  = [ {| s_start := 0; s_stop := 16; s_pad := 10 |}; {| s_start := 16; s_stop := 32; s_pad := 0 |}; {| s_start := 32; s_stop := 32; s_pad := 0 |} ].
Proof. reflexivity. Qed.

Definition ex_tree : tree :=
  Node (m3 false) (FLeaf "z" (i32 7) None (FSub "n" (Node (m3 false) (FNonT "s" 1 [3] (FLeaf "b" (i32 2) None FNil))) (FLeaf "a" (i32 1) None FNil))).
Example C11_ex_side : tree_side align_unit true ex_tree /\ lock_closed_t ex_tree = true /\ coherent_t ex_tree = true /\ nodup_t ex_tree = true.
Proof. repeat split; reflexivity. Qed.
Example C11_ex_consolidate : exists st, consolidate_tree align_unit true false ex_tree = Ok st /\ List.length (sn_storage (match snap st with Some s => s | None => {| sn_meta := MNode m0 [] [] MNil; sn_storage := [] |} end)) = 48.
Proof. eexists. split; [vm_compute; reflexivity|reflexivity]. Qed.
Example C11_ex_inplace : forallb is_write [OWrite ["n"%string] "b" (l_bytes (i32 9)); OWrite [] "a" (l_bytes (i32 4))] = true.
Proof. reflexivity. Qed.
Example C11_ex_like : like_t ex_tree ex_tree = true /\ nodup_t ex_tree = true.
Proof. split; reflexivity. Qed.

(* jagged codec: a tree with two jagged tensors (one with lengths), a lazy stack of two members and a tensorclass node *)
Definition ex_jtree : jtree :=
  JNode (CTd (jm1 [3]))
    (JNjt "j0" (ileaf 3 2 [6] [1; 2; 3; 4; 5; 6]%Z) (Some (ileaf 8 8 [3] [1; 1; 2]%Z)) (ileaf 8 8 [4] [0; 2; 3; 6]%Z)
      (JSub "l" (JNode (CLazy 0 None true)
                   (JSub "0" (JNode (CTd (jm1 [3])) (JLeaf "x" (ileaf 1 1 [3] [1; 2; 3]%Z) JNil))
                      (JSub "1" (JNode (CTd (jm1 [3])) (JLeaf "x" (ileaf 1 1 [3] [4; 5; 6]%Z) JNil)) JNil)))
        (JSub "leaves" (JNode (CTc 0 (jm1 [3])) (JNonT "s" 1 [3] (JLeaf "y" (ileaf 8 8 [3] [7; 8; 9]%Z) JNil)))
          (JNjt "j1" (ileaf 8 8 [4] [10; 11; 12; 13]%Z) None (ileaf 8 8 [4] [0; 1; 1; 4]%Z) JNil)))).
Example C11_ex_jagged_side : jkeys_ok_t ex_jtree = true /\ jtree_side align_unit true ex_jtree.
Proof. split; [reflexivity|]. unfold jtree_side, side. split; [|split; reflexivity]. cbn. repeat constructor. Qed.
Example C11_ex_jagged_roundtrip : jroundtrip ex_jtree = JOk (jreorder_t (jrelock_t false ex_jtree)).
Proof. vm_compute. reflexivity. Qed.
Example C11_ex_threads : let ls := jflat ex_jtree in
  Forall wf_leaf ls /\ (forall i, i < List.length ls -> In i [3; 3; 0; 7; 1; 6; 2; 5; 4]) /\ List.length ls = 8.
Proof. cbn. split; [repeat constructor|split; [|reflexivity]]. intros i Hi. do 8 (destruct i as [|i]; [cbn; tauto|]). exfalso. do 8 apply Nat.succ_lt_mono in Hi. inversion Hi. Qed.
