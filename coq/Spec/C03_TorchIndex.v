(* Spec: the shape torch gives tensor[idx] for a tensor of shape [bs] — torch's own two stages:
   (A) basic ops left to right (int / 0-dim integer tensor = select, slice, None = unsqueeze, Ellipsis = the missing
       full slices), advanced indices (integer arrays, boolean masks) recorded as slots;
   (B) advanced indexing: the broadcast shape replaces the advanced slots in place when they are adjacent (no slice / None
       between the first and the last), and goes to the front otherwise.
   Validated against real torch on the harness grid in every run (harness/c03.py, SPEC-MISMATCH = machinery bug). *)
From Coq Require Import ZArith List Bool Lia.
Import ListNotations.
From TD Require Import Spec.PySlice Model.C03_Index.
Open Scope nat_scope.

Inductive slot := K (n : nat) | A.

Definition shape_eqb := fix eqb (a b : list nat) : bool :=
  match a, b with [] , [] => true | x :: a', y :: b' => Nat.eqb x y && eqb a' b' | _, _ => false end.

(* number of tensor dims an item consumes *)
Definition consumes (it : item) : nat :=
  match it with
  | INone | IEll => 0
  | IMask sh _ => length sh
  | _ => 1
  end.
Definition total_consumed (idx : list item) : nat := fold_right (fun it n => consumes it + n) 0 idx.

(* stage A on an index without Ellipsis; [dims] = the dims not yet consumed *)
Fixpoint slots (idx : list item) (dims : list nat) : option (list slot) :=
  match idx with
  | [] => Some (map K dims)
  | it :: r =>
      match it with
      | INone => option_map (cons (K 1)) (slots r dims)
      | IEll => None
      | IInt i =>
          match dims with
          | [] => None
          | n :: ds => if ((- Z.of_nat n <=? i) && (i <? Z.of_nat n))%Z then slots r ds else None
          end
      | IAdv0 => match dims with [] => None | _ :: ds => slots r ds end   (* value validity is a side condition *)
      | ISl a b c =>
          match dims with
          | [] => None
          | n :: ds =>
              let st := match c with None => 1%Z | Some s => s end in
              if (st <=? 0)%Z then None   (* torch: slice step must be positive *)
              else option_map (cons (K (Z.to_nat (range_len (py_indices a b st (Z.of_nat n)))))) (slots r ds)
          end
      | IAdv _ => match dims with [] => None | _ :: ds => option_map (cons A) (slots r ds) end
      | IMask sh _ =>
          if Nat.leb (length sh) (length dims) && shape_eqb sh (firstn (length sh) dims) && negb (Nat.eqb (length sh) 0)
          then option_map (cons A) (slots r (skipn (length sh) dims)) else None
      end
  end.

(* Ellipsis expansion: replace the (single) Ellipsis by rank - consumed full slices *)
Definition expand_ell (idx : list item) (rank : nat) : option (list item) :=
  match length (filter is_ell idx) with
  | 0 => Some idx
  | 1 =>
      let c := total_consumed idx in
      if Nat.leb c rank then
        Some (flat_map (fun it => if is_ell it then repeat full_slice (rank - c) else [it]) idx)
      else None
  | _ => None     (* outside the property's grammar (tensordict and NumPy reject; torch tolerates) *)
  end.

Fixpoint keeps (l : list slot) : list nat :=
  match l with [] => [] | K n :: r => n :: keeps r | A :: r => keeps r end.
Fixpoint has_A (l : list slot) : bool := match l with [] => false | A :: _ => true | _ :: r => has_A r end.
(* after the first A: is there a K followed (later) by an A ? *)
Fixpoint gap_after (l : list slot) : bool :=
  match l with [] => false | K _ :: r => has_A r || gap_after r | A :: r => gap_after r end.
Fixpoint adjacent (l : list slot) : bool :=
  match l with [] => true | K _ :: r => adjacent r | A :: r => negb (gap_after r) end.
Fixpoint before_A (l : list slot) : list nat :=
  match l with [] => [] | K n :: r => n :: before_A r | A :: _ => [] end.
Fixpoint after_first_A (l : list slot) : list nat :=
  match l with [] => [] | K _ :: r => after_first_A r | A :: r => keeps r end.

Definition place (B : list nat) (l : list slot) : list nat :=
  if negb (has_A l) then keeps l
  else if adjacent l then before_A l ++ B ++ after_first_A l
  else B ++ keeps l.

Definition torch_shape (bs : list nat) (idx : list item) : option (list nat) :=
  match expand_ell idx (length bs) with
  | None => None
  | Some idx' =>
      match slots idx' bs with
      | None => None
      | Some sl =>
          match bcast_all (adv_shapes idx') with
          | Reject => None
          | Ok B => Some (place B sl)
          end
      end
  end.
