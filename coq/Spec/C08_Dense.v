(* Spec for C08: the property's own vocabulary, written independently of tensordict's code.
   - multi-index coordinates (insertion / removal of a coordinate = stacking / selecting along a dim),
   - what torch indexing does to a tensor of a given shape, for the index grammar of the property
     (ints, slices, None, plus ONE advanced index: integer tensor of any rank or boolean mask of any rank):
       [res_shape idx shape]  the shape of x[idx],   [src_of idx shape r]  the source multi-index of result element r,
   - array expressions [arr]: leaves (member tensordicts), the DENSE STACK as coordinate insertion, and torch's shape
     operations, with their meaning [shape_of] / [at_] : result multi-index -> (member id, multi-index inside the member).
   [res_shape]/[src_of] are validated against the real torch on every run (harness/c08.py, SPEC-MISMATCH on disagreement). *)
From Coq Require Import ZArith List Bool Lia.
Import ListNotations.
From TD Require Import Spec.PySlice.
Open Scope Z_scope.

Definition insert_at {A} (k : nat) (x : A) (l : list A) : list A := firstn k l ++ x :: skipn k l.
Definition remove_at {A} (k : nat) (l : list A) : list A := firstn k l ++ skipn (S k) l.
Definition prodZ (l : list Z) : Z := fold_right Z.mul 1 l.
Definition lenZ {A} (l : list A) : Z := Z.of_nat (List.length l).

Inductive item :=
  | IInt (i : Z)
  | ISl (a b c : option Z)
  | INone
  | IEll
  | ITen (sh : list Z) (vals : list Z)       (* integer tensor: shape, row-major values *)
  | IMask (sh : list Z) (bits : list bool).  (* boolean mask: shape, row-major bits; sh = [] is a 0-dim bool tensor *)

(* -------- helpers *)
Definition in_dim (x s : Z) : bool := (0 <=? x) && (x <? s).
Definition norm_i (i s : Z) : option Z :=
  if in_dim i s then Some i else if (- s <=? i) && (i <? 0) then Some (i + s) else None.

Fixpoint in_range (sh r : list Z) : bool :=
  match sh, r with
  | [], [] => true
  | s :: sh', x :: r' => in_dim x s && in_range sh' r'
  | _, _ => false
  end.

(* row-major flattening of a multi-index *)
Fixpoint ravel_acc (acc : Z) (sh r : list Z) : Z :=
  match sh, r with
  | s :: sh', x :: r' => ravel_acc (acc * s + x) sh' r'
  | _, _ => acc
  end.
Definition ravel (sh r : list Z) : Z := ravel_acc 0 sh r.

Fixpoint unravel (sh : list Z) (k : Z) : list Z :=
  match sh with
  | [] => []
  | s :: sh' => let m := prodZ sh' in (if m =? 0 then 0 else k / m) :: unravel sh' (if m =? 0 then 0 else k mod m)
  end.

Definition nthZ {A} (l : list A) (k : Z) : option A := if k <? 0 then None else nth_error l (Z.to_nat k).

(* positions (row-major) of the true bits *)
Fixpoint true_pos_from (k : Z) (bits : list bool) : list Z :=
  match bits with
  | [] => []
  | b :: r => if b then k :: true_pos_from (k + 1) r else true_pos_from (k + 1) r
  end.
Definition true_pos (bits : list bool) : list Z := true_pos_from 0 bits.

Definition step_of (c : option Z) : Z := match c with None => 1 | Some s => s end.

Definition list_eqb (a b : list Z) : bool :=
  (Nat.eqb (List.length a) (List.length b)) && forallb (fun p => fst p =? snd p) (combine a b).

(* all values of an index tensor address dim size s (torch checks only when the tensor is non-empty) *)
Definition vals_ok (vals : list Z) (s : Z) : bool :=
  forallb (fun v => match norm_i v s with Some _ => true | None => false end) vals.

(* -------- torch indexing on shapes.  Ellipsis must have been expanded (IEll -> None = not in this domain). *)
Fixpoint res_shape (idx : list item) (shape : list Z) : option (list Z) :=
  match idx with
  | [] => Some shape
  | IInt i :: rest =>
      match shape with
      | s :: sh => match norm_i i s with Some _ => res_shape rest sh | None => None end
      | [] => None
      end
  | ISl a b c :: rest =>
      match shape with
      | s :: sh => if step_of c <=? 0 then None
                   else option_map (cons (range_len (py_indices a b (step_of c) s))) (res_shape rest sh)
      | [] => None
      end
  | INone :: rest => option_map (cons 1) (res_shape rest shape)
  | IEll :: _ => None
  | ITen tsh vals :: rest =>
      match shape with
      | s :: sh => if (lenZ vals =? prodZ tsh) && vals_ok vals s && forallb (fun x => 0 <=? x) tsh
                   then option_map (app tsh) (res_shape rest sh) else None
      | [] => None
      end
  | IMask msh bits :: rest =>
      let k := List.length msh in
      if list_eqb (firstn k shape) msh && (lenZ bits =? prodZ msh)
      then option_map (cons (lenZ (true_pos bits))) (res_shape rest (skipn k shape)) else None
  end.

(* source multi-index of result element r (None: r is not a position of the result / index illegal) *)
Fixpoint src_of (idx : list item) (shape : list Z) (r : list Z) : option (list Z) :=
  match idx with
  | [] => if in_range shape r then Some r else None
  | IInt i :: rest =>
      match shape with
      | s :: sh => match norm_i i s with
                   | Some i' => option_map (cons i') (src_of rest sh r)
                   | None => None
                   end
      | [] => None
      end
  | ISl a b c :: rest =>
      match shape, r with
      | s :: sh, x :: r' =>
          if step_of c <=? 0 then None else
          let t := py_indices a b (step_of c) s in
          if in_dim x (range_len t) then option_map (cons (range_nth t x)) (src_of rest sh r') else None
      | _, _ => None
      end
  | INone :: rest =>
      match r with
      | x :: r' => if x =? 0 then src_of rest shape r' else None
      | [] => None
      end
  | IEll :: _ => None
  | ITen tsh vals :: rest =>
      match shape with
      | s :: sh =>
          let k := List.length tsh in
          if (lenZ vals =? prodZ tsh) && vals_ok vals s && forallb (fun x => 0 <=? x) tsh && in_range tsh (firstn k r)
          then match nthZ vals (ravel tsh (firstn k r)) with
               | Some v => match norm_i v s with
                           | Some v' => option_map (cons v') (src_of rest sh (skipn k r))
                           | None => None
                           end
               | None => None
               end
          else None
      | [] => None
      end
  | IMask msh bits :: rest =>
      let k := List.length msh in
      if list_eqb (firstn k shape) msh && (lenZ bits =? prodZ msh)
      then match r with
           | x :: r' => match nthZ (true_pos bits) x with
                        | Some p => option_map (app (unravel msh p)) (src_of rest (skipn k shape) r')
                        | None => None
                        end
           | [] => None
           end
      else None
  end.

(* numpy/torch expansion of one Ellipsis: as many full slices as there are dims not addressed by the other items *)
Definition consumes (it : item) : nat :=
  match it with
  | IInt _ | ISl _ _ _ | ITen _ _ => 1%nat
  | INone | IEll => 0%nat
  | IMask sh _ => List.length sh
  end.
Definition consumed (idx : list item) : nat := fold_right (fun it acc => (consumes it + acc)%nat) 0%nat idx.
Definition is_ell (it : item) : bool := match it with IEll => true | _ => false end.
Fixpoint expand_ell (idx : list item) (fill : nat) : list item :=
  match idx with
  | [] => []
  | IEll :: rest => repeat (ISl None None None) fill ++ rest
  | it :: rest => it :: expand_ell rest fill
  end.
(* spec: an index with at most one Ellipsis on a tensor of rank [rank] *)
Definition spec_expand (idx : list item) (rank : nat) : option (list item) :=
  let n := List.length (filter is_ell idx) in
  if (1 <? n)%nat then None
  else if (rank <? consumed idx)%nat then None
  else Some (expand_ell idx (rank - consumed idx)).

(* -------- array expressions *)
Inductive arr :=
  | Leaf (j : nat) (bs : list Z)                         (* member tensordict j with batch size bs *)
  | Stack (sd : nat) (bs0 : list Z) (parts : list arr)   (* the stack of parts along sd (bs0: part shape if no part) *)
  | Index (idx : list item) (a : arr)                    (* torch indexing *)
  | Transp (d0 d1 : nat) (a : arr)
  | Perm (p : list nat) (a : arr)
  | Squeeze (d : nat) (a : arr)                          (* torch: no-op when the dim is not 1 *)
  | Unsq (d : nat) (a : arr)
  | Cat (d : nat) (parts : list arr)
  | Repeat (reps : list Z) (a : arr)
  | RepInt (r : Z) (d : nat) (a : arr)
  | Expand (sh : list Z) (a : arr).

Definition opt_bind {A B} (o : option A) (f : A -> option B) : option B := match o with Some a => f a | None => None end.

Definition swap_nth (d0 d1 : nat) (l : list Z) : option (list Z) :=
  match nth_error l d0, nth_error l d1 with
  | Some x, Some y =>
      Some (map (fun p => if Nat.eqb (fst p) d0 then y else if Nat.eqb (fst p) d1 then x else snd p)
                (combine (seq 0 (List.length l)) l))
  | _, _ => None
  end.

Fixpoint index_of (d : nat) (p : list nat) (k : nat) : option nat :=
  match p with
  | [] => None
  | x :: r => if Nat.eqb x d then Some k else index_of d r (S k)
  end.

Fixpoint all_some {A} (l : list (option A)) : option (list A) :=
  match l with
  | [] => Some []
  | Some x :: r => option_map (cons x) (all_some r)
  | None :: _ => None
  end.

Definition is_perm (p : list nat) : bool :=
  forallb (fun d => match index_of d p 0 with Some _ => true | None => false end) (seq 0 (List.length p)).

(* permute: result dim k is source dim p[k]:  shape' = [shape[p k]]_k ;  source index J with J[p k] = I[k] *)
Definition perm_shape (p : list nat) (sh : list Z) : option (list Z) :=
  if Nat.eqb (List.length p) (List.length sh) && is_perm p then all_some (map (fun d => nth_error sh d) p) else None.
Definition perm_src (p : list nat) (I : list Z) : option (list Z) :=
  if Nat.eqb (List.length p) (List.length I) && is_perm p
  then all_some (map (fun d => opt_bind (index_of d p 0) (fun k => nth_error I k)) (seq 0 (List.length p))) else None.

Fixpoint all_same (l : list (list Z)) : option (list Z) :=
  match l with
  | [] => None
  | [x] => Some x
  | x :: r => match all_same r with Some y => if list_eqb x y then Some x else None | None => None end
  end.

(* cat along d: shapes equal except at d *)
Fixpoint cat_shapes (d : nat) (shs : list (list Z)) : option (list Z) :=
  match shs with
  | [] => None
  | [x] => match nth_error x d with Some _ => Some x | None => None end
  | x :: r => match cat_shapes d r, nth_error x d with
              | Some y, Some sx => match nth_error y d with
                                   | Some sy => if list_eqb (remove_at d x) (remove_at d y)
                                                then Some (firstn d y ++ (sx + sy) :: skipn (S d) y) else None
                                   | None => None
                                   end
              | _, _ => None
              end
  end.

Definition broadcast_dim (t s : Z) : option Z := if t =? s then Some t else if s =? 1 then Some t else if t =? -1 then Some s else None.

  (* nested fixpoints over [arr] *)
  Fixpoint shape_of (a : arr) : option (list Z) :=
    match a with
    | Leaf _ bs => Some bs
    | Stack sd bs0 parts =>
        let fix shapes (l : list arr) : option (list (list Z)) :=
          match l with
          | [] => Some []
          | x :: r => match shape_of x, shapes r with Some s, Some ss => Some (s :: ss) | _, _ => None end
          end in
        match parts with
        | [] => if (sd <=? List.length bs0)%nat then Some (insert_at sd 0 bs0) else None
        | _ => match shapes parts with
               | Some ss => match all_same ss with
                            | Some bs => if (sd <=? List.length bs)%nat then Some (insert_at sd (lenZ parts) bs) else None
                            | None => None
                            end
               | None => None
               end
        end
    | Index idx x => opt_bind (shape_of x) (res_shape idx)
    | Transp d0 d1 x => opt_bind (shape_of x) (swap_nth d0 d1)
    | Perm p x => opt_bind (shape_of x) (perm_shape p)
    | Squeeze d x =>
        opt_bind (shape_of x) (fun sh => match nth_error sh d with
                                         | Some s => Some (if s =? 1 then remove_at d sh else sh)
                                         | None => None
                                         end)
    | Unsq d x => opt_bind (shape_of x) (fun sh => if (d <=? List.length sh)%nat then Some (insert_at d 1 sh) else None)
    | Cat d parts =>
        let fix shapes (l : list arr) : option (list (list Z)) :=
          match l with
          | [] => Some []
          | x :: r => match shape_of x, shapes r with Some s, Some ss => Some (s :: ss) | _, _ => None end
          end in
        opt_bind (shapes parts) (cat_shapes d)
    | Repeat reps x =>
        opt_bind (shape_of x) (fun sh => if Nat.eqb (List.length reps) (List.length sh) && forallb (fun r => 0 <=? r) reps
                                         then Some (map (fun p => fst p * snd p) (combine reps sh)) else None)
    | RepInt r d x =>
        opt_bind (shape_of x) (fun sh => match nth_error sh d with
                                         | Some s => if 0 <=? r then Some (firstn d sh ++ (s * r) :: skipn (S d) sh) else None
                                         | None => None
                                         end)
    | Expand tgt x =>
        opt_bind (shape_of x) (fun sh =>
          let k := (List.length tgt - List.length sh)%nat in
          if (List.length sh <=? List.length tgt)%nat && forallb (fun t => 0 <=? t) (firstn k tgt)
          then option_map (app (firstn k tgt)) (all_some (map (fun p => broadcast_dim (fst p) (snd p)) (combine (skipn k tgt) sh)))
          else None)
    end.

  (* which element (member id, multi-index inside the member) sits at multi-index I of the array *)
  Fixpoint at_ (a : arr) (I : list Z) : option (nat * list Z) :=
    match a with
    | Leaf j bs => if in_range bs I then Some (j, I) else None
    | Stack sd bs0 parts =>
        match nth_error I sd with
        | Some k =>
            (fix pick (l : list arr) (k : Z) : option (nat * list Z) :=
               match l with
               | [] => None
               | x :: r => if k =? 0 then at_ x (remove_at sd I) else if k <? 0 then None else pick r (k - 1)
               end) parts k
        | None => None
        end
    | Index idx x => opt_bind (shape_of x) (fun sh => opt_bind (src_of idx sh I) (at_ x))
    | Transp d0 d1 x => opt_bind (swap_nth d0 d1 I) (at_ x)
    | Perm p x => opt_bind (perm_src p I) (at_ x)
    | Squeeze d x =>
        opt_bind (shape_of x) (fun sh => match nth_error sh d with
                                         | Some s => if s =? 1 then at_ x (insert_at d 0 I) else at_ x I
                                         | None => None
                                         end)
    | Unsq d x => match nth_error I d with
                  | Some z => if z =? 0 then at_ x (remove_at d I) else None
                  | None => None
                  end
    | Cat d parts =>
        match nth_error I d with
        | Some k =>
            (fix pick (l : list arr) (k : Z) : option (nat * list Z) :=
               match l with
               | [] => None
               | x :: r => match opt_bind (shape_of x) (fun sh => nth_error sh d) with
                           | Some s => if k <? 0 then None
                                       else if k <? s then at_ x (firstn d I ++ k :: skipn (S d) I) else pick r (k - s)
                           | None => None
                           end
               end) parts k
        | None => None
        end
    | Repeat reps x =>
        opt_bind (shape_of x) (fun sh =>
          if Nat.eqb (List.length reps) (List.length sh) && Nat.eqb (List.length I) (List.length sh)
             && forallb (fun p => in_dim (fst p) (snd p)) (combine I (map (fun p => fst p * snd p) (combine reps sh)))
          then at_ x (map (fun p => fst p mod snd p) (combine I sh)) else None)
    | RepInt r d x =>
        match nth_error I d with
        | Some k => if (0 <? r) && (0 <=? k) then at_ x (firstn d I ++ (k / r) :: skipn (S d) I) else None
        | None => None
        end
    | Expand tgt x =>
        opt_bind (shape_of x) (fun sh =>
          let k := (List.length tgt - List.length sh)%nat in
          match shape_of (Expand tgt x) with
          | Some rs => if in_range rs I
                       then at_ x (map (fun p => if snd p =? 1 then 0 else fst p) (combine (skipn k I) sh)) else None
          | None => None
          end)
    end.

(* every position of a shape, row-major (used by the correspondence to print element maps, and by examples) *)
Fixpoint all_indices (sh : list Z) : list (list Z) :=
  match sh with
  | [] => [[]]
  | s :: sh' => flat_map (fun x => map (cons (Z.of_nat x)) (all_indices sh')) (seq 0 (Z.to_nat s))
  end.
