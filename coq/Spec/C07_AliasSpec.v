(* C07 — the property's vocabulary, independent of how tensordict implements the operations.
   "tensors the caller already holds" = views (storage id + index map) into the heap of storages; an alias of a tensor
   is any view with a cell in common. *)
From Coq Require Import ZArith List String Bool Arith.
Import ListNotations.
From TD Require Import Model.C07_Heap.

(* no cell of a pre-existing storage is written: the old storages are a prefix of the new ones, contents included *)
Definition stor_ext (h h' : heap) : Prop := exists ext, hstor h' = hstor h ++ ext.

(* nothing is allocated or rebound: the same nodes with the same key -> entry bindings (hence the same key sets, the
   same storage ids and the same index maps behind every key, on every tensordict in the heap), the same storages
   with the same sizes; only cell contents may differ *)
Definition inplace_frame (h h' : heap) : Prop :=
  hnodes h' = hnodes h /\ map (@List.length Z) (hstor h') = map (@List.length Z) (hstor h).

(* only storages in [sids] may have changed *)
Definition only_storages (sids : list nat) (h h' : heap) : Prop :=
  forall s, ~ In s sids -> get_stor h' s = get_stor h s.

(* a view into storage ids that did not exist before *)
Definition fresh_view (h : heap) (v : view) : Prop := List.length (hstor h) <= vsid v.

(* v' is a view of (part of) the memory of v *)
Definition view_of (v v' : view) : Prop := vsid v' = vsid v /\ incl (vcells v') (vcells v).

Definition in_bounds (h : heap) (v : view) : Prop :=
  forall c, In c (vcells v) -> c < List.length (get_stor h (vsid v)).
