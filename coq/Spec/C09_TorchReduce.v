(* C09 — what torch does to a *shape* (and to dim names) when a tensor is reduced over a set of dims. *)
From Coq Require Import ZArith List Bool Arith String.
Import ListNotations.

Fixpoint reduce_from {A} (one : option A) (i : nat) (l : list A) (dims : list nat) : list A :=
  match l with
  | [] => []
  | x :: r =>
      if existsb (Nat.eqb i) dims
      then match one with Some o => o :: reduce_from one (S i) r dims | None => reduce_from one (S i) r dims end
      else x :: reduce_from one (S i) r dims
  end.

(* shape of  t.sum(dims, keepdim)  for t of shape sh *)
Definition torch_reduce (sh : list nat) (dims : list nat) (keepdim : bool) : list nat :=
  reduce_from (if keepdim then Some 1 else None) 0 sh dims.
(* dim names of the result: a reduced dim keeps its name with keepdim, disappears without *)
Definition torch_reduce_names {N} (ns : list N) (dims : list nat) (keepdim : bool) : list N :=
  if keepdim then ns else reduce_from None 0 ns dims.

(* python's dim normalisation: -n <= d < n  |->  d mod n *)
Definition norm_dim (n : nat) (d : Z) : option nat :=
  if ((- Z.of_nat n <=? d) && (d <? Z.of_nat n))%Z then Some (Z.to_nat (d mod Z.of_nat n)) else None.

(* torch broadcasting as an element map: position [i] of the broadcast result (rank >= rank of the source) reads the
   source of shape [s] at: the trailing |s| coordinates of i, with 0 wherever the source dim is 1 *)
Definition spec_bcast_index (s : list nat) (i : list nat) : list nat :=
  map (fun p => if Nat.eqb (fst p) 1 then 0 else snd p) (combine s (skipn (List.length i - List.length s) i)).
(* "broadcast against the batch dims from the left": a leaf of shape B ++ feat reads the operand (shape s, broadcast
   to the batch shape B) at its batch coordinates only *)
Definition spec_left_index (s B : list nat) (i : list nat) : list nat := spec_bcast_index s (firstn (List.length B) i).
