(* Spec for C16: a non-tensor entry IS a batch-shaped array of Python objects.
   - an object array = a shape and a function from multi-indices to payloads (payload = identifier of an equality class
     of Python objects);
   - what torch / NumPy indexing does to such an array for the index grammar of the property (ints, slices, None and at
     most ONE advanced index: an integer tensor of any rank or a boolean mask of any rank): [ix_shape idx sh] is the shape
     of a[idx] and [ix_src idx sh r] the source position of result position r.  With a single advanced index its
     dimensions stay in place (torch's adjacent-subspace rule), so both are compositional: item by item, every item consumes
     [consumes it] source dims and produces [produces it] result dims;
   - stacking = inserting a coordinate, unbinding = fixing one, nested-list layout = row-major order.
   [ix_shape] / [ix_src] are validated against the real torch on every index the harness generates (SPEC-MISMATCH). *)
From Coq Require Import ZArith List Bool Lia.
Import ListNotations.
From TD Require Import Spec.PySlice.
Open Scope nat_scope.

Definition payload := Z.

Inductive item :=
| IInt (i : Z)                               (* python int / 0-dim integer tensor *)
| ISl (a b c : option Z)                     (* slice *)
| INone                                      (* None *)
| ITen (tsh : list nat) (vals : list Z)      (* integer tensor / list / range / ndarray: shape, row-major values *)
| IMask (msh : list nat) (bits : list bool). (* boolean mask: shape, row-major bits *)

Definition insert_at {A} (k : nat) (x : A) (l : list A) : list A := firstn k l ++ x :: skipn k l.
Definition remove_at {A} (k : nat) (l : list A) : list A := firstn k l ++ skipn (S k) l.
Definition prod (l : list nat) : nat := fold_right Nat.mul 1 l.

Fixpoint in_range (sh r : list nat) : bool :=
  match sh, r with
  | [], [] => true
  | n :: sh', x :: r' => (x <? n) && in_range sh' r'
  | _, _ => false
  end.

(* python's normalisation of a possibly negative position *)
Definition norm (i : Z) (n : nat) : option nat :=
  if ((0 <=? i) && (i <? Z.of_nat n))%Z then Some (Z.to_nat i)
  else if ((- Z.of_nat n <=? i) && (i <? 0))%Z then Some (Z.to_nat (i + Z.of_nat n)) else None.

Definition step_of (c : option Z) : Z := match c with None => 1%Z | Some s => s end.
Definition sl_len (a b c : option Z) (n : nat) : nat := Z.to_nat (range_len (py_indices a b (step_of c) (Z.of_nat n))).
Definition sl_nth (a b c : option Z) (n : nat) (k : nat) : nat :=
  Z.to_nat (range_nth (py_indices a b (step_of c) (Z.of_nat n)) (Z.of_nat k)).

(* row-major flattening *)
Fixpoint ravel (sh r : list nat) : nat :=
  match sh, r with
  | n :: sh', x :: r' => x * prod sh' + ravel sh' r'
  | _, _ => 0
  end.
Fixpoint unravel (sh : list nat) (k : nat) : list nat :=
  match sh with
  | [] => []
  | n :: sh' => (k / prod sh') :: unravel sh' (k mod prod sh')
  end.

Fixpoint true_pos_from (k : nat) (bits : list bool) : list nat :=
  match bits with
  | [] => []
  | b :: r => if b then k :: true_pos_from (S k) r else true_pos_from (S k) r
  end.
Definition true_pos (bits : list bool) : list nat := true_pos_from 0 bits.

Definition shape_eqb := fix eqb (a b : list nat) : bool :=
  match a, b with [], [] => true | x :: a', y :: b' => Nat.eqb x y && eqb a' b' | _, _ => false end.

Definition consumes (it : item) : nat :=
  match it with INone => 0 | IMask msh _ => length msh | _ => 1 end.
Definition produces (it : item) : nat :=
  match it with IInt _ => 0 | ISl _ _ _ | INone | IMask _ _ => 1 | ITen tsh _ => length tsh end.

Definition vals_ok (vals : list Z) (n : nat) : bool :=
  forallb (fun v => match norm v n with Some _ => true | None => false end) vals.

(* the result dims one item produces from the source dims it consumes *)
Definition item_shape (it : item) (dims : list nat) : option (list nat) :=
  match it, dims with
  | IInt i, [n] => match norm i n with Some _ => Some [] | None => None end
  | ISl a b c, [n] => if (step_of c <=? 0)%Z then None else Some [sl_len a b c n]
  | INone, [] => Some [1]
  | ITen tsh vals, [n] =>
      if Nat.eqb (length vals) (prod tsh) && vals_ok vals n && negb (Nat.eqb (length tsh) 0) then Some tsh else None
  | IMask msh bits, _ =>
      if shape_eqb msh dims && Nat.eqb (length bits) (prod msh) && negb (Nat.eqb (length msh) 0)
      then Some [length (true_pos bits)] else None
  | _, _ => None
  end.

(* the source coordinates (as many as the item consumes) of the result coordinates r (as many as it produces) *)
Definition item_src (it : item) (dims : list nat) (r : list nat) : option (list nat) :=
  match it, dims with
  | IInt i, [n] => match r with [] => option_map (fun j => [j]) (norm i n) | _ => None end
  | ISl a b c, [n] =>
      match r with
      | [k] => if (step_of c <=? 0)%Z then None else if k <? sl_len a b c n then Some [sl_nth a b c n k] else None
      | _ => None
      end
  | INone, [] => match r with [0] => Some [] | _ => None end
  | ITen tsh vals, [n] =>
      if Nat.eqb (length vals) (prod tsh) && vals_ok vals n && negb (Nat.eqb (length tsh) 0) && in_range tsh r
      then match nth_error vals (ravel tsh r) with
           | Some v => option_map (fun j => [j]) (norm v n)
           | None => None
           end
      else None
  | IMask msh bits, _ =>
      if shape_eqb msh dims && Nat.eqb (length bits) (prod msh) && negb (Nat.eqb (length msh) 0)
      then match r with
           | [k] => option_map (unravel msh) (nth_error (true_pos bits) k)
           | _ => None
           end
      else None
  | _, _ => None
  end.

Definition obind {A B} (o : option A) (f : A -> option B) : option B := match o with Some a => f a | None => None end.

Fixpoint ix_shape (idx : list item) (sh : list nat) : option (list nat) :=
  match idx with
  | [] => Some sh
  | it :: rest =>
      let c := consumes it in
      if length sh <? c then None else
      obind (item_shape it (firstn c sh)) (fun o => obind (ix_shape rest (skipn c sh)) (fun o' => Some (o ++ o')))
  end.

Fixpoint ix_src (idx : list item) (sh r : list nat) : option (list nat) :=
  match idx with
  | [] => if in_range sh r then Some r else None
  | it :: rest =>
      let c := consumes it in let p := produces it in
      if (length sh <? c) || (length r <? p) then None else
      obind (item_src it (firstn c sh) (firstn p r)) (fun s =>
      obind (ix_src rest (skipn c sh) (skipn p r)) (fun s' => Some (s ++ s')))
  end.

Definition is_adv (it : item) : bool := match it with ITen _ _ | IMask _ _ => true | _ => false end.
Definition n_adv (idx : list item) : nat := length (filter is_adv idx).

(* -------- arrays as functions; nested-list layout *)
Inductive tree := Leaf (p : payload) | Node (l : list tree).

(* the nested list of an array of shape sh with elements f: row-major, first dim outermost *)
Fixpoint tree_of (sh : list nat) (f : list nat -> option payload) : option tree :=
  match sh with
  | [] => option_map Leaf (f [])
  | n :: sh' =>
      option_map Node
        ((fix all (l : list nat) : option (list tree) :=
            match l with
            | [] => Some []
            | k :: r => match tree_of sh' (fun I => f (k :: I)), all r with
                        | Some t, Some ts => Some (t :: ts) | _, _ => None end
            end) (seq 0 n))
  end.

(* every position of a shape, row-major *)
Fixpoint all_indices (sh : list nat) : list (list nat) :=
  match sh with
  | [] => [[]]
  | n :: sh' => flat_map (fun x => map (cons x) (all_indices sh')) (seq 0 n)
  end.
