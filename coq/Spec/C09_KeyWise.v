(* C09 — the property's own vocabulary (written without looking at how tensordict computes it).
   A tensordict is a finite map from (flattened) keys to values; a pointwise operation must hand torch, for every key,
   the entries stored under that same key on both sides. *)
From Coq Require Import List String Bool Arith.
Import ListNotations.
From TD Require Import Model.Dual Model.C09_Align.

Section Spec.
  Context {V : Type}.

  (* the two operands have the same key set *)
  Definition same_keysb (s o : @items V) : bool :=
    forallb (fun k => mem k (keys_of o)) (keys_of s) && forallb (fun k => mem k (keys_of s)) (keys_of o).

  (* result[k] demanded by the property, default=None: f(self[k], other[k]) for every key *)
  Definition spec_same (s o : @items V) (k : string) : option (V * @rhs V) :=
    match dget s k, dget o k with
    | Some v, Some w => Some (v, RLeaf w)
    | _, _ => None
    end.
  (* default="intersection": only the common keys *)
  Definition spec_inter := spec_same.
  (* default=d: every key of either side, the missing side replaced by d *)
  Definition spec_default (d : V) (s o : @items V) (k : string) : option (V * @rhs V) :=
    match dget s k, dget o k with
    | Some v, Some w => Some (v, RLeaf w)
    | Some v, None => Some (v, RLeaf d)
    | None, Some w => Some (d, RLeaf w)
    | None, None => None
    end.
  (* a scalar / tensor operand meets every entry of self *)
  Definition spec_scalar (s : @items V) (k : string) : option (V * @rhs V) :=
    option_map (fun v => (v, ROperand)) (dget s k).

  (* ternary: both operands by key *)
  Definition spec_tern (s o1 o2 : @items V) (k : string) : option (V * @rhs V * @rhs V) :=
    match dget s k, dget o1 k, dget o2 k with
    | Some v, Some a, Some b => Some (v, RLeaf a, RLeaf b)
    | _, _, _ => None
    end.

  (* nested view: the leaf reached by a path of keys *)
  Fixpoint leaf_at (t : tree V) (p : list string) : option V :=
    match t, p with
    | Leaf v, [] => Some v
    | Node c, k :: p' =>
        (fix look (l : list (string * tree V)) : option V :=
           match l with
           | [] => None
           | (k', t') :: r => if String.eqb k' k then leaf_at t' p' else look r
           end) c
    | _, _ => None
    end.
  Fixpoint cleaf_at (t : ctree V) (p : list string) : option (V * V) :=
    match t, p with
    | CLeaf a b, [] => Some (a, b)
    | CNode c, k :: p' =>
        (fix look (l : list (string * ctree V)) : option (V * V) :=
           match l with
           | [] => None
           | (k', t') :: r => if String.eqb k' k then cleaf_at t' p' else look r
           end) c
    | _, _ => None
    end.
  (* the comparison demanded by the property: at every path, the two leaves stored there *)
  Definition spec_cmp (t1 t2 : tree V) (p : list string) : option (V * V) :=
    match leaf_at t1 p, leaf_at t2 p with
    | Some a, Some b => Some (a, b)
    | _, _ => None
    end.

  (* same nested key structure, keys unique at every node *)
  Inductive same_struct : tree V -> tree V -> Prop :=
  | SS_leaf a b : same_struct (Leaf a) (Leaf b)
  | SS_node c1 c2 :
      NoDup (map fst c1) -> NoDup (map fst c2) ->
      (forall k, In k (map fst c1) <-> In k (map fst c2)) ->
      (forall k t1 t2, dget c1 k = Some t1 -> dget c2 k = Some t2 -> same_struct t1 t2) ->
      same_struct (Node c1) (Node c2).
End Spec.
