(* Spec: CPython's slice.indices(len), written after Objects/sliceobject.c (PySlice_Unpack + PySlice_AdjustIndices):
   defaults are +-infinity, then clamped.  Validated on every run against the real [slice.indices] (harness/c18.py). *)
From Coq Require Import ZArith List Bool Lia.
Import ListNotations.
Open Scope Z_scope.

(* None = omitted bound *)
Definition adjust (step len : Z) (v : option Z) (is_start : bool) : Z :=
  match v with
  | None =>
      if is_start then (if step <? 0 then len - 1 else 0)
      else (if step <? 0 then -1 else len)
  | Some x =>
      if x <? 0 then
        (let y := x + len in if y <? 0 then (if step <? 0 then -1 else 0) else y)
      else if x >=? len then (if step <? 0 then len - 1 else len)
      else x
  end.

Definition py_indices (start stop : option Z) (step len : Z) : Z * Z * Z :=
  (adjust step len start true, adjust step len stop false, step).

(* len(range(start, stop, step)) — CPython's get_len_of_range *)
Definition range_len (t : Z * Z * Z) : Z :=
  let '(a, b, c) := t in
  if c >? 0 then (if a <? b then (b - a - 1) / c + 1 else 0)
  else (if b <? a then (a - b - 1) / (- c) + 1 else 0).

(* the k-th element of range(start, stop, step) *)
Definition range_nth (t : Z * Z * Z) (k : Z) : Z := let '(a, _, c) := t in a + k * c.
