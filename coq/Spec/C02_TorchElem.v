(* Spec: what torch does to the ELEMENTS of a (contiguous) tensor, operation by operation: for a multi-index r of the
   result, the multi-index of the source tensor whose element the result holds there.  Written from the meaning of
   the operations, independently of tensordict; validated against the real torch on every run of ./check C02 (torch
   applied to arange(numel).reshape(shape) returns, at every result position, the row-major position of its source:
   compared with [ravel (source r) shape] for every position of every generated legal call; a disagreement is a
   SPEC-MISMATCH, exit 2). *)
From Coq Require Import ZArith List Bool.
Import ListNotations.
From TD Require Import Spec.C02_TorchShape.
Open Scope Z_scope.

(* row-major position of a multi-index, and back *)
Fixpoint ravel (idx s : list Z) : Z :=
  match idx, s with
  | i :: r, _ :: s' => i * prodZ s' + ravel r s'
  | _, _ => 0
  end.

Fixpoint unravel (k : Z) (s : list Z) : list Z :=
  match s with
  | [] => []
  | _ :: s' => (k / prodZ s') :: unravel (k mod prodZ s') s'
  end.

Fixpoint map2 {A B C} (f : A -> B -> C) (a : list A) (b : list B) : list C :=
  match a, b with x :: a', y :: b' => f x y :: map2 f a' b' | _, _ => [] end.

(* view / reshape / flatten / unflatten / squeeze / unsqueeze of a contiguous tensor: the row-major order of the
   elements is kept (s = source shape, s' = result shape) *)
Definition e_reshape (s s' r : list Z) : list Z := unravel (ravel r s') s.

(* expand to m dims: new leading dims are dropped, an expanded singleton is read at 0 *)
Definition e_expand (s : list Z) (m : nat) (r : list Z) : list Z :=
  map2 (fun n x => if n =? 1 then 0 else x) s (skipn (m - List.length s) r).

(* repeat with m counts: the tensor is tiled: position x of a dim of size n reads x mod n *)
Definition e_repeat (s : list Z) (m : nat) (r : list Z) : list Z :=
  map2 (fun n x => x mod n) s (skipn (m - List.length s) r).

(* repeat_interleave(rep, dim=i): every element is repeated rep times in place *)
Definition e_repint (rep : Z) (i : nat) (r : list Z) : list Z := set_nth i (nthZ r i / rep) r.

(* permute(p): result dim k is source dim p[k] *)
Fixpoint pos (j : nat) (p : list nat) : nat :=
  match p with [] => O | x :: q => if Nat.eqb x j then O else S (pos j q) end.
Definition e_permute (p : list nat) (r : list Z) : list Z := map (fun j => nthZ r (pos j p)) (seq 0 (List.length p)).

Definition e_transpose (i j : nat) (r : list Z) : list Z := swap_nth r i j.

(* every multi-index of a shape, in row-major order *)
Definition all_indices (s : list Z) : list (list Z) :=
  map (fun k => unravel (Z.of_nat k) s) (seq 0 (Z.to_nat (prodZ s))).
