(* C05 — the property's own vocabulary over the heap, written relationally (no fuel, independent of the traversal code):
   reachability through entries / lazy-stack members, "p is in c's list of lock parents" (recorded on the node, or inherited
   from the members for a lazy stack), the structure snapshot of a tree, and the lock-graph invariant. *)
From Coq Require Import List String Bool Arith PeanoNat.
Import ListNotations.
From TD Require Import Model.C05_Heap Model.C05_Lock.

Definition child (h : heap) (p c : nat) : Prop := In c (children h p).

(* reflexive-transitive closure of [child]: the tree of a root *)
Inductive Reach (h : heap) : nat -> nat -> Prop :=
| Reach_refl n : Reach h n n
| Reach_step n c m : child h n c -> Reach h c m -> Reach h n m.

(* p is among the lock parents of c: recorded on c itself, or (lazy stack) inherited from a member *)
Inductive has_parent (h : heap) : nat -> nat -> Prop :=
| HP_own c nd p : lookup h c = Some nd -> In p (pars nd) -> has_parent h c p
| HP_lazy c nd m p : lookup h c = Some nd -> nk nd = KLazy -> In m (node_children nd) -> has_parent h m p -> has_parent h c p.

(* all paths below n are shorter than d (what a successful fuelled traversal witnesses; excludes cycles) *)
Fixpoint depth_lt (h : heap) (d : nat) (n : nat) : Prop :=
  match d with
  | 0 => False
  | S d' => forall c, child h n c -> depth_lt h d' c
  end.

(* ---- the lock-graph invariant -------------------------------------------------------------------------------------- *)
(* I1: below a live node whose flag is True, every child collection is flagged True and lists that node among its lock parents *)
Definition closed_at (s : st) (p : nat) : Prop :=
  forall nd c, lookup (hp s) p = Some nd -> In c (node_children nd) ->
    flag_true (hp s) c = true /\ has_parent (hp s) c p.

Definition I1 (s : st) : Prop := forall p, flag_true (hp s) p = true -> live s p = true -> closed_at s p.
(* I0: a live object keeps its children alive *)
Definition I0 (s : st) : Prop := forall p c, child (hp s) p c -> live s p = true -> live s c = true.
(* every referenced child exists; identities are below the allocation counter *)
Definition closed_heap (s : st) : Prop :=
  (forall p c, child (hp s) p c -> lookup (hp s) c <> None) /\
  (forall n, lookup (hp s) n <> None -> n < nxt s) /\
  (forall d, In d (dead s) -> d < nxt s).

Record Inv (s : st) : Prop := mkInv { inv_I1 : I1 s; inv_I0 : I0 s; inv_closed : closed_heap s }.

(* ---- what "the tree of r is as it was" means ------------------------------------------------------------------------ *)
Definition same_node_structure (h h' : heap) (n : nat) : Prop :=
  match lookup h n, lookup h' n with
  | Some a, Some b => nk a = nk b /\ ents a = ents b
  | None, None => True
  | _, _ => False
  end.

(* structure snapshot of the tree of r: kind, key paths and bound identities of every node reachable from r *)
Definition tree_unchanged (h h' : heap) (r : nat) : Prop := forall n, Reach h r n -> same_node_structure h h' n.
Definition tree_locked (h : heap) (r : nat) : Prop := forall n, Reach h r n -> flag_true h n = true.

(* the documented exceptions of the property: storage conversions that rebind leaves / add the entry they are given *)
Definition unguarded (o : op) : Prop :=
  match o with
  | OMakeMemmap _ _ => True
  | OMemmap _ => True
  | _ => False
  end.
