(* C05 — the property's own vocabulary over the heap, written relationally (no fuel, independent of the traversal code):
   reachability through entries / lazy-stack members, "p is in c's list of lock parents" (stored for a TensorDict, inherited
   from the members for a lazy stack), hollow lazy stacks (no TensorDict underneath: nothing stores their parents), the
   structure snapshot of a tree, and the lock-graph invariant. *)
From Coq Require Import List String Bool Arith PeanoNat.
Import ListNotations.
From TD Require Import Model.C05_Heap Model.C05_Lock.

Definition child (h : heap) (p c : nat) : Prop := In c (children h p).

(* reflexive-transitive closure of [child]: the tree of a root *)
Inductive Reach (h : heap) : nat -> nat -> Prop :=
| Reach_refl n : Reach h n n
| Reach_step n c m : child h n c -> Reach h c m -> Reach h n m.

(* p is among the lock parents of c (before the `is not self` filtering of lazy stacks) *)
Inductive has_parent (h : heap) : nat -> nat -> Prop :=
| HP_td c nd p : lookup h c = Some nd -> nk nd = KTd -> In p (pars nd) -> has_parent h c p
| HP_lazy c nd m p : lookup h c = Some nd -> nk nd = KLazy -> In m (node_children nd) -> has_parent h m p -> has_parent h c p.

(* a lazy stack with no TensorDict underneath (no members, or only hollow members): its parent list is empty whatever happens *)
Inductive hollow (h : heap) : nat -> Prop :=
| Hollow_none c : lookup h c = None -> hollow h c
| Hollow_lazy c nd : lookup h c = Some nd -> nk nd = KLazy -> (forall m, In m (node_children nd) -> hollow h m) -> hollow h c.

(* all paths below n are shorter than d (what a successful fuelled traversal witnesses; excludes cycles) *)
Fixpoint depth_lt (h : heap) (d : nat) (n : nat) : Prop :=
  match d with
  | 0 => False
  | S d' => forall c, child h n c -> depth_lt h d' c
  end.

(* ---- the lock-graph invariant -------------------------------------------------------------------------------------- *)
(* I1: below a live node whose flag is True, every child collection is flagged True and lists that node among its lock parents
       -- unless the node became locked through _memmap_ (which writes the flag without building the graph: D7) *)
Definition closed_at (s : st) (p : nat) : Prop :=
  forall nd c, lookup (hp s) p = Some nd -> In c (node_children nd) ->
    mm nd = true \/ (flag_true (hp s) c = true /\ has_parent (hp s) c p).

Definition I1 (s : st) : Prop := forall p, flag_true (hp s) p = true -> live s p = true -> closed_at s p.
(* I0: a live object keeps its children alive *)
Definition I0 (s : st) : Prop := forall p c, child (hp s) p c -> live s p = true -> live s c = true.
(* every referenced child exists; identities are below the allocation counter *)
Definition closed_heap (s : st) : Prop :=
  (forall p c, child (hp s) p c -> lookup (hp s) c <> None) /\
  (forall n, lookup (hp s) n <> None -> n < nxt s) /\
  (forall d, In d (dead s) -> d < nxt s).
Definition no_hollow (s : st) : Prop := forall n, lookup (hp s) n <> None -> ~ hollow (hp s) n.

Record Inv (s : st) : Prop := mkInv { inv_I1 : I1 s; inv_I0 : I0 s; inv_closed : closed_heap s; inv_nh : no_hollow s }.

(* calls outside the modelled domain: a lazy stack created with no members is hollow (D56: it can be unlocked alone) *)
Definition in_scope (o : op) : Prop :=
  match o with
  | ONewLazy ms => ms <> []
  | _ => True
  end.

(* ---- what "the tree of r is as it was" means ------------------------------------------------------------------------ *)
Definition same_node_structure (h h' : heap) (n : nat) : Prop :=
  match lookup h n, lookup h' n with
  | Some a, Some b => nk a = nk b /\ ents a = ents b
  | None, None => True
  | _, _ => False
  end.

(* structure snapshot of the tree of r: kind, key paths and bound identities of every node reachable from r *)
Definition tree_unchanged (h h' : heap) (r : nat) : Prop := forall n, Reach h r n -> same_node_structure h h' n.
Definition tree_locked (h : heap) (r : nat) : Prop := forall n, Reach h r n -> flag_true h n = true.

(* structural (entry-changing) calls and their guard class *)
Definition unguarded (o : op) : Prop :=
  match o with
  | OExclude _ _ => fixed_D8 = false                     (* D8 *)
  | OMakeMemmap _ _ => True                              (* documented exception *)
  | OMemmap _ => True                                    (* documented storage conversion: leaves are rebound *)
  | _ => False
  end.
