(* Spec: WHICH element torch's tensor[idx] puts at each position of the result — the element map
     sel bs idx : result multi-index -> source multi-index
   for a tensor of shape [bs], following torch's own two stages (Spec/C03_TorchIndex.v computes the shapes of the same
   two stages):
   (A) basic ops left to right: int / 0-dim integer tensor = select (negative values wrap once), slice = the k-th
       element of the range given by slice.indices(n), None = a new size-1 dim that comes from no source dim, Ellipsis = the
       missing full slices;
   (B) advanced indices given by their VALUES: integer arrays (shape + row-major values) and boolean masks (the list
       of their True positions in row-major order = nonzero()) are broadcast together; the coordinate [b] inside the
       broadcast block picks, for every advanced item, its own (broadcast) entry.  The block sits where [place] puts it.
   Validated against real torch on arange proxies for every generated case of every run (harness/c03.py, sel-all;
   a disagreement is a SPEC-MISMATCH = machinery bug). *)
From Coq Require Import ZArith List Bool Lia.
Import ListNotations.
From TD Require Import Spec.PySlice Model.C03_Index Spec.C03_TorchIndex.
Open Scope nat_scope.

Inductive vitem :=
| VInt (i : Z)
| VSl (a b c : option Z)
| VNone
| VEll
| VAdv (sh : list nat) (vals : list Z)          (* list / range / ndarray / integer tensor, ndim >= 1: row-major values *)
| VAdv0 (i : Z)                                 (* 0-dim integer tensor *)
| VMask (sh : list nat) (pos : list (list nat)). (* boolean mask: its True positions, row-major order *)

Definition erase (v : vitem) : item :=
  match v with
  | VInt i => IInt i
  | VSl a b c => ISl a b c
  | VNone => INone
  | VEll => IEll
  | VAdv sh _ => IAdv sh
  | VAdv0 _ => IAdv0
  | VMask sh pos => IMask sh (length pos)
  end.

Definition vis_ell (v : vitem) : bool := match v with VEll => true | _ => false end.

(* a python index value along a dim of size n: negative values count from the end *)
Definition norm (n : nat) (z : Z) : Z := if (z <? 0)%Z then (z + Z.of_nat n)%Z else z.

(* broadcasting: the coordinate of an array of shape [sh] that position [b] of the broadcast block reads —
   right-aligned, size-1 dims are read at 0 *)
Fixpoint zip0 (sh b : list nat) : list nat :=
  match sh, b with
  | n :: sh', x :: b' => (if Nat.eqb n 1 then 0 else x) :: zip0 sh' b'
  | _, _ => []
  end.
Definition bproj (sh b : list nat) : list nat := zip0 sh (skipn (length b - length sh) b).
(* row-major offset *)
Fixpoint ravel (sh mi : list nat) (acc : nat) : nat :=
  match sh, mi with
  | n :: sh', i :: mi' => ravel sh' mi' (acc * n + i)
  | _, _ => acc
  end.
Definition lookup (sh : list nat) (vals : list Z) (b : list nat) : Z := nth (ravel sh (bproj sh b) 0) vals 0%Z.
Definition mask_pos (pos : list (list nat)) (b : list nat) : list nat :=
  nth (ravel [length pos] (bproj [length pos] b) 0) pos [].

(* inverse of [place]: split a result multi-index into the coordinate inside the broadcast block and the coordinates
   of the kept dims, in slot order *)
Definition unplace (nB : nat) (sl : list slot) (r : list nat) : list nat * list nat :=
  if negb (has_A sl) then ([], r)
  else if adjacent sl then
    let p := length (before_A sl) in (firstn nB (skipn p r), firstn p r ++ skipn (p + nB) r)
  else (firstn nB r, skipn nB r).

(* stage A + B on an Ellipsis-free index: walk the items with the dims not yet consumed; [ks] = coordinates of the
   kept result dims not yet used; the result lists one source coordinate per source dim *)
Fixpoint sel_items (idx : list vitem) (dims : list nat) (b ks : list nat) : option (list Z) :=
  match idx with
  | [] => Some (map Z.of_nat ks)                    (* untouched trailing dims: identity *)
  | it :: r =>
      match it with
      | VNone => match ks with [] => None | _ :: ks' => sel_items r dims b ks' end
      | VEll => None
      | VInt i | VAdv0 i =>
          match dims with [] => None | n :: ds => option_map (cons (norm n i)) (sel_items r ds b ks) end
      | VSl a bb c =>
          match dims, ks with
          | n :: ds, k :: ks' =>
              let st := match c with None => 1%Z | Some s => s end in
              option_map (cons (range_nth (py_indices a bb st (Z.of_nat n)) (Z.of_nat k))) (sel_items r ds b ks')
          | _, _ => None
          end
      | VAdv sh vals =>
          match dims with [] => None | n :: ds => option_map (cons (norm n (lookup sh vals b))) (sel_items r ds b ks) end
      | VMask sh pos =>
          if Nat.leb (length sh) (length dims)
          then option_map (app (map Z.of_nat (mask_pos pos b))) (sel_items r (skipn (length sh) dims) b ks)
          else None
      end
  end.

Definition sel_ne (bs : list nat) (idx : list vitem) (r : list nat) : option (list Z) :=
  match slots (map erase idx) bs, bcast_all (adv_shapes (map erase idx)) with
  | Some sl, Ok B =>
      if Nat.eqb (length r) (length (place B sl))
      then let '(b, ks) := unplace (length B) sl r in sel_items idx bs b ks
      else None
  | _, _ => None
  end.

Definition vexpand_ell (idx : list vitem) (rank : nat) : option (list vitem) :=
  match length (filter vis_ell idx) with
  | 0 => Some idx
  | 1 =>
      let c := total_consumed (map erase idx) in
      if Nat.leb c rank then
        Some (flat_map (fun it => if vis_ell it then repeat (VSl None None None) (rank - c) else [it]) idx)
      else None
  | _ => None
  end.

Definition sel (bs : list nat) (idx : list vitem) (r : list nat) : option (list Z) :=
  match vexpand_ell idx (length bs) with
  | Some idx' => sel_ne bs idx' r
  | None => None
  end.

(* all multi-indices of a shape, row-major *)
Fixpoint all_mi (sh : list nat) : list (list nat) :=
  match sh with
  | [] => [[]]
  | n :: r => flat_map (fun i => map (cons i) (all_mi r)) (seq 0 n)
  end.

(* the whole result, element by element (what the harness compares with an arange proxy) *)
Definition sel_all (bs : list nat) (idx : list vitem) : option (list (option (list Z))) :=
  match torch_shape bs (map erase idx) with
  | Some sh => Some (map (sel bs idx) (all_mi sh))
  | None => None
  end.

(* r is a position of a tensor of shape sh *)
Definition in_range (sh r : list nat) : Prop := Forall2 (fun i n => i < n) r sh.
Definition in_rangeZ (sh : list nat) (s : list Z) : Prop := Forall2 (fun z n => (0 <= z < Z.of_nat n)%Z) s sh.

(* the positions a write through idx touches = the image of sel *)
Definition written (bs : list nat) (idx : list vitem) (p : list Z) : Prop :=
  exists sh r, torch_shape bs (map erase idx) = Some sh /\ in_range sh r /\ sel bs idx r = Some p.
Definition written_ne (bs : list nat) (idx : list vitem) (p : list Z) : Prop :=
  exists sl B r, slots (map erase idx) bs = Some sl /\ bcast_all (adv_shapes (map erase idx)) = Ok B /\
                 in_range (place B sl) r /\ sel_ne bs idx r = Some p.

(* view vs copy: torch returns a view of the source exactly when no advanced index is left after 0-dim integer
   tensors have been turned into selects *)
Definition is_adv (it : item) : bool := match it with IAdv _ | IMask _ _ => true | _ => false end.
Definition is_view (idx : list item) : bool := negb (existsb is_adv idx).
