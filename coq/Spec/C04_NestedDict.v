(* C04 — the property's own vocabulary: a plain (python) nested dict and the replay of a history on it.
   Independent of the model of tensordict's code.  A dict is an association list in insertion order with python's
   semantics (assignment to an existing key keeps its place, a new key goes last); values are tensors, other payloads
   or nested dicts.  Keys of the nested dict are PATHS (non-empty lists of strings). *)
From Coq Require Import ZArith List String Bool Ascii.
Import ListNotations.
Open Scope string_scope.
Open Scope list_scope.

Inductive nd := NT (z : Z) | NS (z : Z) | ND (d : list (string * nd)).
Definition dict := list (string * nd).
Definition path := list string.

(* ---- one level: d.get(k), d[k] = v, del d[k] ---- *)
Fixpoint d_get (k : string) (d : dict) : option nd :=
  match d with [] => None | (k', v) :: r => if String.eqb k k' then Some v else d_get k r end.
Fixpoint d_put (k : string) (v : nd) (d : dict) : dict :=
  match d with
  | [] => [(k, v)]
  | (k', v') :: r => if String.eqb k k' then (k', v) :: r else (k', v') :: d_put k v r
  end.
Fixpoint d_rem (k : string) (d : dict) : dict :=
  match d with [] => [] | (k', v') :: r => if String.eqb k k' then r else (k', v') :: d_rem k r end.

(* ---- nested lookup ---- *)
Inductive found := Found (v : nd) | Missing | ThroughLeaf.

Fixpoint nd_find (p : path) (d : dict) : found :=
  match p with
  | [] => Missing
  | k :: rest =>
      match d_get k d with
      | None => Missing
      | Some v =>
          match rest with
          | [] => Found v
          | _ :: _ => match v with ND sub => nd_find rest sub | _ => ThroughLeaf end
          end
      end
  end.

(* d[p0][p1]...[pn] = v, creating the intermediate dicts; None: the path runs through a value that is not a dict *)
Fixpoint nd_set (p : path) (v : nd) (d : dict) : option dict :=
  match p with
  | [] => None
  | k :: rest =>
      match rest with
      | [] => Some (d_put k v d)
      | _ :: _ =>
          match d_get k d with
          | None => option_map (fun s => d_put k (ND s) d) (nd_set rest v [])
          | Some (ND sub) => option_map (fun s => d_put k (ND s) d) (nd_set rest v sub)
          | Some _ => None
          end
      end
  end.

(* del d[p0]...[pn]; None: KeyError (or path through a non-dict) *)
Fixpoint nd_del (p : path) (d : dict) : option dict :=
  match p with
  | [] => None
  | k :: rest =>
      match rest with
      | [] => match d_get k d with Some _ => Some (d_rem k d) | None => None end
      | _ :: _ =>
          match d_get k d with
          | Some (ND sub) => option_map (fun s => d_put k (ND s) d) (nd_del rest sub)
          | _ => None
          end
      end
  end.

(* ---- leaves, emptiness ---- *)
Definition nd_is_leaf (nt : bool) (v : nd) : bool := match v with NT _ => true | NS _ => nt | ND _ => false end.

Fixpoint nd_has_leaf (v : nd) : bool :=
  match v with
  | ND d => (fix go (d : dict) : bool := match d with [] => false | (_, w) :: r => nd_has_leaf w || go r end) d
  | _ => true
  end.

(* ---- views: the entries of the nested dict in document order (a dict before its children) ----
   inc: descend into nested dicts; lo: leaves only; nt: non-tensor payloads count as leaves (is_leaf_nontensor) or
   not (the default is_leaf, for which they are neither leaves nor nodes) *)
Fixpoint nd_entries (inc lo nt : bool) (prefix : path) (v : nd) : list (path * nd) :=
  match v with
  | ND d =>
      (fix go (d : dict) : list (path * nd) :=
         match d with
         | [] => []
         | (k, w) :: r =>
             (if negb lo || nd_is_leaf nt w then [(prefix ++ [k], w)] else [])
             ++ (if inc then nd_entries inc lo nt (prefix ++ [k]) w else [])
             ++ go r
         end) d
  | _ => []
  end.

Definition nd_view (inc lo nt : bool) (d : dict) : list (path * nd) := nd_entries inc lo nt [] (ND d).

Definition dotted (p : path) : string := String.concat "." p.

(* a sorted view: same entries, names non-decreasing *)
Fixpoint names_sorted (l : list string) : Prop :=
  match l with
  | [] => True
  | x :: r => (match r with [] => True | y :: _ => String.leb x y = true end) /\ names_sorted r
  end.

(* ---- the operations of a history, on canonical keys (paths) ---- *)
Inductive sop :=
| SSet (p : path) (v : nd)
| SDel (p : path)
| SPop (p : path) (dflt : option Z)
| SRename (p q : path) (safe : bool)
| SUpdate (items : list (path * nd))
| SSetDefault (p : path) (v : nd)
| SSelect (ps : list path) (inplace strict cont : bool)
| SExclude (ps : list path) (inplace cont : bool)
| SSplit (sets : list (list path)) (inplace strict : bool) (dflt : option Z) (cont : option nat)
| SFlatten (sep : string) (inplace cont : bool)
| SUnflatten (sep : string) (inplace cont : bool)
| SClear
| SFilterEmpty
| SNop.

Inductive sret := SRNone | SRVal (v : nd) | SRDefault (z : Z) | SRPyNone.

Record sres := mk_sres { s_self : dict; s_ret : sret; s_results : option (list dict); s_cont : dict }.

Definition s_plain (d : dict) : sres := mk_sres d SRNone None d.

(* pop: the value, or the default when one is given *)
Definition nd_pop (p : path) (dflt : bool) (d : dict) : option (dict * option nd) :=
  match nd_find p d with
  | Found v => option_map (fun d' => (d', Some v)) (nd_del p d)
  | Missing => if dflt then Some (d, None) else None
  | ThroughLeaf => None
  end.

(* rename = pop the old key, then store under the new one *)
Definition nd_rename (p q : path) (safe : bool) (d : dict) : option dict :=
  match nd_find p d with
  | Found v =>
      if list_eq_dec string_dec p q then Some d
      else if safe && (match nd_find q d with Found _ => true | _ => false end) then None
      else match nd_del p d with Some d1 => nd_set q v d1 | None => None end
  | _ => None
  end.

(* update: nested dicts are merged, everything else is (re)bound *)
Fixpoint nd_assign (v : nd) : path -> dict -> option dict :=
  fix go (p : path) (d : dict) {struct p} : option dict :=
    match p with
    | [] => None
    | k :: rest =>
        match rest with
        | _ :: _ =>
            match d_get k d with
            | None => option_map (fun s => d_put k (ND s) d) (go rest [])
            | Some (ND sub) => option_map (fun s => d_put k (ND s) d) (go rest sub)
            | Some _ => None
            end
        | [] =>
            match d_get k d, v with
            | Some (ND sub), ND vs =>
                option_map (fun s => d_put k (ND s) d)
                  ((fix items (l : dict) (acc : dict) {struct l} : option dict :=
                      match l with
                      | [] => Some acc
                      | (k', v') :: r => match nd_assign v' [k'] acc with Some acc' => items r acc' | None => None end
                      end) vs sub)
            | _, _ => Some (d_put k v d)
            end
        end
    end.

Fixpoint nd_update (items : list (path * nd)) (d : dict) : option dict :=
  match items with
  | [] => Some d
  | (p, v) :: r => match nd_assign v p d with Some d' => nd_update r d' | None => None end
  end.

Definition nd_setdefault (p : path) (v : nd) (d : dict) : option (dict * nd) :=
  match nd_find p d with
  | Found w => Some (d, w)
  | Missing => option_map (fun d' => (d', v)) (nd_set p v d)
  | ThroughLeaf => None
  end.

(* select: {p: d[p] for p in ps}, as a nested dict *)
Fixpoint nd_select (ps : list path) (strict : bool) (d acc : dict) : option dict :=
  match ps with
  | [] => Some acc
  | p :: r =>
      match nd_find p d with
      | Found v => match nd_set p v acc with Some acc' => nd_select r strict d acc' | None => None end
      | Missing => if strict then None else nd_select r strict d acc
      | ThroughLeaf => None
      end
  end.

(* exclude: delete every listed key that is present *)
Fixpoint nd_exclude (ps : list path) (d : dict) : option dict :=
  match ps with
  | [] => Some d
  | p :: r =>
      match nd_find p d with
      | Found _ => match nd_del p d with Some d' => nd_exclude r d' | None => None end
      | Missing => nd_exclude r d
      | ThroughLeaf => None
      end
  end.

(* drop every nested dict that holds no leaf *)
Fixpoint nd_prune (v : nd) : nd :=
  match v with
  | ND d =>
      ND ((fix go (d : dict) : dict :=
             match d with
             | [] => []
             | (k, w) :: r =>
                 match w with
                 | ND _ => if nd_has_leaf w then (k, nd_prune w) :: go r else go r
                 | _ => (k, w) :: go r
                 end
             end) d)
  | _ => v
  end.
Definition nd_filter_empty (d : dict) : dict := match nd_prune (ND d) with ND d' => d' | _ => d end.

(* split_keys: each key set pops its keys from the remainder and stores them in a fresh dict *)
Fixpoint nd_split_set (ps : list path) (strict : bool) (dflt : option Z) (rest out : dict) : option (dict * dict) :=
  match ps with
  | [] => Some (rest, out)
  | p :: r =>
      match nd_pop p (negb strict) rest with
      | None => None
      | Some (rest', Some v) => match nd_set p v out with Some out' => nd_split_set r strict dflt rest' out' | None => None end
      | Some (rest', None) =>
          match dflt with
          | None => nd_split_set r strict dflt rest' out
          | Some z => match nd_set p (NT z) out with Some out' => nd_split_set r strict dflt rest' out' | None => None end
          end
      end
  end.

Fixpoint nd_split (sets : list (list path)) (strict : bool) (dflt : option Z) (rest : dict) (outs : list dict)
  : option (dict * list dict) :=
  match sets with
  | [] => Some (rest, outs)
  | ps :: r =>
      match nd_split_set ps strict dflt rest [] with
      | None => None
      | Some (rest', out) => nd_split r strict dflt rest' (outs ++ [out])
      end
  end.

(* flatten: one entry per leaf, named by its joined path; colliding names are an error *)
Fixpoint s_has_dup (l : list string) : bool :=
  match l with [] => false | x :: r => (if in_dec string_dec x r then true else false) || s_has_dup r end.

Definition nd_flatten (sep : string) (d : dict) : option dict :=
  let lv := nd_view true true true d in
  let names := map (fun pv => String.concat sep (fst pv)) lv in
  if s_has_dup names then None else Some (combine names (map snd lv)).

(* unflatten: every top-level key containing the separator moves to the path of its pieces; an occupied or
   unreachable destination is an error.  [pieces] is python's str.split, supplied by the caller of the spec. *)
Fixpoint nd_unflatten (split_key : string -> option path) (ks : list string) (d : dict) : option dict :=
  match ks with
  | [] => Some d
  | k :: r =>
      match split_key k with
      | None => nd_unflatten split_key r d
      | Some q =>
          match d_get k d, nd_find q d with
          | Some v, Missing => match nd_set q v (d_rem k d) with Some d' => nd_unflatten split_key r d' | None => None end
          | _, _ => None
          end
      end
  end.

Definition one_res (inplace cont : bool) (d : dict) (out : dict) : sres :=
  if inplace then s_plain out else mk_sres d SRNone (Some [out]) (if cont then out else d).

Definition nd_step (split_key : string -> string -> option path) (d : dict) (o : sop) : option sres :=
  match o with
  | SNop => Some (s_plain d)
  | SSet p v => option_map s_plain (nd_set p v d)
  | SDel p => option_map s_plain (nd_del p d)
  | SPop p dflt =>
      match nd_pop p (match dflt with Some _ => true | None => false end) d with
      | Some (d', Some v) => Some (mk_sres d' (SRVal v) None d')
      | Some (d', None) => Some (mk_sres d' (match dflt with Some z => SRDefault z | None => SRPyNone end) None d')
      | None => None
      end
  | SRename p q safe => option_map s_plain (nd_rename p q safe d)
  | SUpdate items => option_map s_plain (nd_update items d)
  | SSetDefault p v => option_map (fun dw => mk_sres (fst dw) (SRVal (snd dw)) None (fst dw)) (nd_setdefault p v d)
  | SSelect ps inplace strict cont => option_map (one_res inplace cont d) (nd_select ps strict d [])
  | SExclude ps inplace cont => option_map (one_res inplace cont d) (nd_exclude ps d)
  | SSplit sets inplace strict dflt cont =>
      match nd_split sets strict dflt d [] with
      | None => None
      | Some (rest, outs) =>
          let rest' := nd_filter_empty rest in
          let self' := if inplace then rest' else d in
          let all := outs ++ [rest'] in
          Some (mk_sres self' SRNone (Some all) (match cont with Some i => nth i all self' | None => self' end))
      end
  | SFlatten sep inplace cont => option_map (one_res inplace cont d) (nd_flatten sep d)
  | SUnflatten sep inplace cont => option_map (one_res inplace cont d) (nd_unflatten (split_key sep) (map fst d) d)
  | SClear => Some (s_plain [])
  | SFilterEmpty => Some (s_plain (nd_filter_empty d))
  end.
