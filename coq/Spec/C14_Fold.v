(* C14 — SPEC: what "applying the modules one after another" means.  A functional environment key -> value;
   a module reads its in_keys and binds its out_keys ("_" discards); the last writer of a key wins.
   Independent of tensordict's algorithm (no tensordict objects, no copies, no update, no nesting). *)
From Coq Require Import List Bool.
Import ListNotations.
From TD Require Import Model.C14_Flow.

Definition env := key -> option term.
Definition eqe (e1 e2 : env) : Prop := forall k, e1 k = e2 k.
Definition eupd (e : env) (k : key) (v : term) : env := fun k' => if key_eqb k' k then Some v else e k'.

Fixpoint eread (ks : list key) (e : env) : option (list term) :=
  match ks with
  | [] => Some []
  | k :: r => match e k, eread r e with Some v, Some l => Some (v :: l) | _, _ => None end
  end.

Definition ewrite (kvs : list (key * term)) (e : env) : env :=
  fold_left (fun e kv => if is_sink (fst kv) then e else eupd e (fst kv) (snd kv)) kvs e.

Definition apply_leaf (l : leaf) (e : env) : option env :=
  match eread (ins l) e with
  | Some args => Some (ewrite (leaf_vals l args) e)
  | None => None                         (* a missing input *)
  end.

Fixpoint spec_run (ls : list leaf) (e : env) : option env :=
  match ls with
  | [] => Some e
  | l :: r => match apply_leaf l e with Some e' => spec_run r e' | None => None end
  end.

Definition env_of (t : td) : env := fun k => get k t.

(* keys a list of modules writes (the sink is not a key) *)
Definition writes (ls : list leaf) : list key := filter (fun k => negb (is_sink k)) (flat_map outs ls).

(* live keys before a list of modules, given the keys live after it *)
Fixpoint live (ls : list leaf) (L : key -> Prop) : key -> Prop :=
  match ls with
  | [] => L
  | l :: r => fun k => List.In k (ins l) \/ (live r L k /\ ~ List.In k (writes [l]))
  end.
