(* Spec: what torch does to the SHAPE of a tensor, operation by operation (torch 2.x, CPU), written from torch's
   documented behaviour / ATen's shape functions, independently of tensordict.  [Reject] = torch raises.
   Trusted, and validated against the real torch on every run of ./check C02 (every generated (shape, arguments)
   pair is evaluated here and by torch on a proxy tensor; a disagreement is a SPEC-MISMATCH, exit 2).
   Sizes and dims are Z (dims may be negative, target shapes may contain -1); positions are nat. *)
From Coq Require Import ZArith List Bool Lia.
Import ListNotations.
Open Scope Z_scope.

Inductive res (A : Type) : Type := Ok (a : A) | Reject.
Arguments Ok {A} a.
Arguments Reject {A}.

Definition shape := list Z.

Definition prodZ (s : list Z) : Z := fold_right Z.mul 1 s.
Definition sumZ (s : list Z) : Z := fold_right Z.add 0 s.
Definition numel (s : shape) : Z := prodZ s.
Definition rank (s : shape) : Z := Z.of_nat (List.length s).

Definition bind {A B} (r : res A) (f : A -> res B) : res B := match r with Ok a => f a | Reject => Reject end.
Notation "'do' x <- r ; k" := (bind r (fun x => k)) (at level 200, x name, r at level 100, k at level 200).

Fixpoint mapM {A B} (f : A -> res B) (l : list A) : res (list B) :=
  match l with
  | [] => Ok []
  | x :: r => do y <- f x; do ys <- mapM f r; Ok (y :: ys)
  end.

(* ---- list positions *)
Definition nthZ (s : list Z) (i : nat) : Z := nth i s 0.
Definition remove_nth {A} (i : nat) (l : list A) : list A := firstn i l ++ skipn (S i) l.
Definition insert_nth {A} (i : nat) (x : A) (l : list A) : list A := firstn i l ++ x :: skipn i l.
Definition set_nth {A} (i : nat) (x : A) (l : list A) : list A := firstn i l ++ x :: skipn (S i) l.

(* ---- c10::maybe_wrap_dim: a dim d of a rank-n tensor must lie in [-n, n-1]; negative counts from the end *)
Definition wrap_dim (d : Z) (n : nat) : res nat :=
  let m := Z.of_nat n in
  if (d <? - m) || (m <=? d) then Reject else Ok (Z.to_nat (if d <? 0 then d + m else d)).
(* for 0-dim tensors most ops wrap against rank 1 (range [-1, 0]) *)
Definition wrap_dim_scalar (d : Z) (n : nat) : res nat := wrap_dim d (Nat.max n 1).

Fixpoint nodupb (l : list nat) : bool :=
  match l with [] => true | x :: r => negb (existsb (Nat.eqb x) r) && nodupb r end.

(* ---- permute / transpose *)
Definition t_permute (s : shape) (dims : list Z) : res shape :=
  if negb (Nat.eqb (List.length dims) (List.length s)) then Reject else
  do p <- mapM (fun d => wrap_dim d (List.length s)) dims;
  if nodupb p then Ok (map (nthZ s) p) else Reject.

Definition swap_nth (s : shape) (i j : nat) : shape :=
  set_nth j (nthZ s i) (set_nth i (nthZ s j) s).

Definition t_transpose (s : shape) (d0 d1 : Z) : res shape :=
  do i <- wrap_dim_scalar d0 (List.length s);
  do j <- wrap_dim_scalar d1 (List.length s);
  match s with [] => Ok [] | _ => Ok (swap_nth s i j) end.

(* ---- squeeze / unsqueeze *)
Definition t_squeeze_dim (s : shape) (d : Z) : res shape :=
  do i <- wrap_dim_scalar d (List.length s);
  match s with
  | [] => Ok []
  | _ => Ok (if nthZ s i =? 1 then remove_nth i s else s)
  end.

Definition t_squeeze_all (s : shape) : res shape := Ok (filter (fun x => negb (x =? 1)) s).

Definition t_unsqueeze (s : shape) (d : Z) : res shape :=
  do i <- wrap_dim d (S (List.length s)); Ok (insert_nth i 1 s).

(* ---- expand: sizes aligned from the right; -1 keeps an existing dim; new leading dims must be given (>= 0) *)
Fixpoint expand_tail (old tgt : list Z) : res shape :=
  match old, tgt with
  | [], [] => Ok []
  | o :: old', t :: tgt' =>
      do r <- expand_tail old' tgt';
      if t =? -1 then Ok (o :: r)
      else if t =? o then Ok (o :: r)
      else if (o =? 1) && (0 <=? t) then Ok (t :: r)
      else Reject
  | _, _ => Reject
  end.

Definition t_expand (s : shape) (tgt : list Z) : res shape :=
  let n := List.length s in
  let m := List.length tgt in
  if (m <? n)%nat then Reject else
  let lead := firstn (m - n) tgt in
  if forallb (fun x => 0 <=? x) lead then
    do r <- expand_tail s (skipn (m - n) tgt); Ok (lead ++ r)
  else Reject.

(* ---- at::infer_size: at most one -1, the others >= 0 *)
Definition count_neg1 (l : list Z) : nat := List.length (filter (fun x => x =? -1) l).

Definition infer_size (tgt : list Z) (total : Z) : res shape :=
  if negb (forallb (fun x => -1 <=? x) tgt) then Reject else
  let known := prodZ (filter (fun x => negb (x =? -1)) tgt) in
  match count_neg1 tgt with
  | O => if known =? total then Ok tgt else Reject
  | S O =>
      if (0 <? known) && (total mod known =? 0)
      then Ok (map (fun x => if x =? -1 then total / known else x) tgt)
      else Reject
  | _ => Reject
  end.

(* view / reshape of a contiguous tensor *)
Definition t_view (s : shape) (tgt : list Z) : res shape := infer_size tgt (numel s).
Definition t_reshape := t_view.

(* ---- flatten / unflatten *)
Definition t_flatten (s : shape) (a b : Z) : res shape :=
  do i <- wrap_dim_scalar a (List.length s);
  do j <- wrap_dim_scalar b (List.length s);
  match s with
  | [] => Ok [1]
  | _ =>
      if (j <? i)%nat then Reject
      else if Nat.eqb i j then Ok s
      else Ok (firstn i s ++ prodZ (firstn (S j - i) (skipn i s)) :: skipn (S j) s)
  end.

Definition t_unflatten (s : shape) (d : Z) (sizes : list Z) : res shape :=
  do i <- wrap_dim d (List.length s);
  match sizes with
  | [] => Reject
  | _ => do sz <- infer_size sizes (nthZ s i); Ok (firstn i s ++ sz ++ skipn (S i) s)
  end.

(* ---- repeat / repeat_interleave *)
Fixpoint map2_mul (a b : list Z) : list Z :=
  match a, b with x :: a', y :: b' => x * y :: map2_mul a' b' | _, _ => [] end.

Definition t_repeat (s : shape) (reps : list Z) : res shape :=
  let n := List.length s in
  let m := List.length reps in
  if (m <? n)%nat then Reject
  else
    (* torch only refuses a negative resulting size: a negative count against a size-0 dim gives 0 *)
    let r := map2_mul (repeat 1 (m - n) ++ s) reps in
    if forallb (fun x => 0 <=? x) r then Ok r else Reject.

Definition t_repeat_interleave (s : shape) (r : Z) (d : option Z) : res shape :=
  if r <? 0 then Reject else
  match d with
  | None => Ok [numel s * r]
  | Some d =>
      match s with
      | [] => Reject                      (* a 0-dim tensor has no dim to repeat along *)
      | _ => do i <- wrap_dim d (List.length s); Ok (set_nth i (nthZ s i * r) s)
      end
  end.

(* ---- unbind / split / chunk: lists of shapes *)
Definition t_unbind (s : shape) (d : Z) : res (list shape) :=
  match s with
  | [] => Reject
  | _ => do i <- wrap_dim d (List.length s); Ok (repeat (remove_nth i s) (Z.to_nat (nthZ s i)))
  end.

(* sizes of the pieces when a length n is cut in pieces of k > 0: k, k, ..., remainder (at least one piece) *)
Fixpoint pieces (fuel : nat) (n k : Z) : list Z :=
  match fuel with
  | O => [n]
  | S f => if n <=? k then [n] else k :: pieces f (n - k) k
  end.

Definition t_split_int (s : shape) (k d : Z) : res (list shape) :=
  match s with
  | [] => Reject
  | _ =>
      do i <- wrap_dim d (List.length s);
      let n := nthZ s i in
      if k <? 0 then Reject
      else if k =? 0 then (if n =? 0 then Ok [s] else Reject)
      else Ok (map (fun x => set_nth i x s) (pieces (Z.to_nat n) n k))
  end.

Definition t_split_list (s : shape) (l : list Z) (d : Z) : res (list shape) :=
  match s with
  | [] => Reject
  | _ =>
      do i <- wrap_dim d (List.length s);
      if forallb (fun x => 0 <=? x) l && (sumZ l =? nthZ s i)
      then Ok (map (fun x => set_nth i x s) l) else Reject
  end.

Definition cdiv (a b : Z) : Z := (a + b - 1) / b.

Definition t_chunk (s : shape) (c d : Z) : res (list shape) :=
  match s with
  | [] => Reject
  | _ =>
      do i <- wrap_dim d (List.length s);
      let n := nthZ s i in
      if c <=? 0 then Reject
      else if n =? 0 then Ok (repeat s (Z.to_nat c))
      else Ok (map (fun x => set_nth i x s) (pieces (Z.to_nat n) n (cdiv n c)))
  end.

(* ---- gather: index of the same rank (0-dim counts as 1-dim), not larger than the input off [dim]; result = index shape *)
Definition nonempty (s : shape) : shape := match s with [] => [1] | _ => s end.

Fixpoint le_all (idx inp : list Z) : bool :=
  match idx, inp with
  | [], [] => true
  | x :: idx', y :: inp' => (x <=? y) && le_all idx' inp'
  | _, _ => false
  end.

Fixpoint le_off (i : nat) (idx inp : list Z) : bool :=
  match idx, inp with
  | [], [] => true
  | x :: idx', y :: inp' =>
      match i with
      | O => le_all idx' inp'
      | S i' => (x <=? y) && le_off i' idx' inp'
      end
  | _, _ => false
  end.

Definition t_gather (s : shape) (d : Z) (ishape : shape) : res shape :=
  let s' := nonempty s in
  let i' := nonempty ishape in
  (* an index without elements is not validated (ATen returns before the shape checks): only the dim is wrapped *)
  if numel ishape =? 0 then (do _i <- wrap_dim d (List.length s'); Ok ishape) else
  if negb (Nat.eqb (List.length s') (List.length i')) then Reject else
  do i <- wrap_dim d (List.length s');
  (* a non-empty index into a size-0 dim has no legal value: always out of bounds *)
  if (0 <? numel ishape) && (nthZ s' i =? 0) then Reject
  else if le_off i i' s' then Ok ishape else Reject.

(* ---- masked_select: mask and input are broadcast together; the result is 1-d, one element per True *)
Fixpoint broadcastable_rev (a b : list Z) : bool :=
  match a, b with
  | x :: a', y :: b' => ((x =? y) || (x =? 1) || (y =? 1)) && broadcastable_rev a' b'
  | _, _ => true
  end.
Definition broadcastable (a b : shape) : bool := broadcastable_rev (rev a) (rev b).

Definition t_masked_select (s mshape : shape) (count_after_broadcast : Z) : res shape :=
  if broadcastable s mshape then Ok [count_after_broadcast] else Reject.

(* ---- stack / cat over a non-empty list of operands *)
Fixpoint list_eqb (a b : list Z) : bool :=
  match a, b with
  | [], [] => true
  | x :: a', y :: b' => (x =? y) && list_eqb a' b'
  | _, _ => false
  end.

Definition t_stack (shapes : list shape) (d : Z) : res shape :=
  match shapes with
  | [] => Reject
  | s :: rest =>
      if forallb (list_eqb s) rest then
        do i <- wrap_dim d (S (List.length s)); Ok (insert_nth i (Z.of_nat (List.length shapes)) s)
      else Reject
  end.

(* equal off position i (domain: no operand of shape exactly [0] unless all operands are 1-d; torch skips those) *)
Definition eq_off (i : nat) (a b : shape) : bool := list_eqb (remove_nth i a) (remove_nth i b).

Definition t_cat (shapes : list shape) (d : Z) : res shape :=
  match shapes with
  | [] => Reject
  | [] :: _ => Reject                              (* zero-dimensional tensors cannot be concatenated *)
  | s :: rest =>
      do i <- wrap_dim d (List.length s);
      if forallb (fun t => Nat.eqb (List.length t) (List.length s) && eq_off i s t) rest
      then Ok (set_nth i (sumZ (map (fun t => nthZ t i) shapes)) s) else Reject
  end.
