(* C09 — lemmas about the lazy-stack dispatch (Model/C09_Lazy.v) against the dense-stack spec. *)
From Coq Require Import ZArith List String Bool Arith Ascii Lia.
Import ListNotations.
From TD Require Import Model.Dual Model.C09_Align Model.C09_Shape Model.C09_Reduce Model.C09_Lazy
  Spec.C09_KeyWise Spec.C09_TorchReduce Proofs.C09_AlignP Proofs.C09_CompareP Proofs.C09_ShapeP.

(* ------------------------------------------------------------------ member-indexed keys *)
Lemma strip_mkey : forall i j k, strip i (mkey j k) = if Nat.eqb i j then Some k else None.
Proof.
  induction i as [|i IH]; intros [|j] k; cbn; try reflexivity. apply IH.
Qed.
Lemma strip_some : forall i K k, strip i K = Some k -> K = mkey i k.
Proof.
  induction i as [|i IH]; intros [|c r] k H; cbn in H; try discriminate.
  - destruct (Ascii.eqb c "|"%char) eqn:E; [|discriminate]. apply Ascii.eqb_eq in E. inversion H. subst. reflexivity.
  - destruct (Ascii.eqb c "#"%char) eqn:E; [|discriminate]. apply Ascii.eqb_eq in E. subst. cbn. f_equal. now apply IH.
Qed.
Lemma mkey_inj : forall i j k k', mkey i k = mkey j k' -> i = j /\ k = k'.
Proof.
  intros i j k k' H. assert (S : strip i (mkey j k') = Some k) by (rewrite <- H, strip_mkey, Nat.eqb_refl; reflexivity).
  rewrite strip_mkey in S. destruct (Nat.eqb i j) eqn:E; [|discriminate]. apply Nat.eqb_eq in E. inversion S. auto.
Qed.

(* the part of a fused result that goes to member i holds, under k, what the result holds under (i, k) *)
Lemma member_part_get {A} : forall (r : list (string * A)) i k, dget (member_part i r) k = dget r (mkey i k).
Proof.
  induction r as [|[K v] r IH]; intros i k; cbn; [reflexivity|].
  destruct (strip i K) eqn:S.
  - apply strip_some in S. subst K. cbn. destruct (String.eqb s k) eqn:E.
    + apply String.eqb_eq in E. subst. now rewrite String.eqb_refl.
    + replace (String.eqb (mkey i s) (mkey i k)) with false; [apply IH|].
      symmetry. apply String.eqb_neq. intro H. apply mkey_inj in H. destruct H as [_ H]. subst. now rewrite String.eqb_refl in E.
  - replace (String.eqb K (mkey i k)) with false; [apply IH|].
    symmetry. apply String.eqb_neq. intro H. subst K. rewrite strip_mkey, Nat.eqb_refl in S. discriminate.
Qed.

(* ------------------------------------------------------------------ the member-indexed items of a lazy stack *)
Section Flat.
  Context {V : Type}.

  Lemma dget_app {A} (a b : list (string * A)) k :
    dget (a ++ b) k = match dget a k with Some v => Some v | None => dget b k end.
  Proof. induction a as [|[k' v] a IH]; cbn; [reflexivity|]. destruct (String.eqb k' k); [reflexivity|apply IH]. Qed.

  Lemma dget_prefix (m : @items V) i k : dget (map (fun kv => (mkey i (fst kv), snd kv)) m) (mkey i k) = dget m k.
  Proof.
    induction m as [|[k' v] m IH]; cbn; [reflexivity|]. destruct (String.eqb k' k) eqn:E.
    - apply String.eqb_eq in E. subst. now rewrite String.eqb_refl.
    - replace (String.eqb (mkey i k') (mkey i k)) with false; [apply IH|].
      symmetry. apply String.eqb_neq. intro H. apply mkey_inj in H. destruct H as [_ H]. subst. now rewrite String.eqb_refl in E.
  Qed.
  Lemma dget_prefix_other (m : @items V) i j k : i <> j -> dget (map (fun kv => (mkey i (fst kv), snd kv)) m) (mkey j k) = None.
  Proof.
    intros N. induction m as [|[k' v] m IH]; cbn; [reflexivity|].
    replace (String.eqb (mkey i k') (mkey j k)) with false; [apply IH|].
    symmetry. apply String.eqb_neq. intro H. apply mkey_inj in H. tauto.
  Qed.

  Lemma dget_later_members : forall (l : @lazy V) c b k, b < c -> dget (lazy_items_from c l) (mkey b k) = None.
  Proof.
    induction l as [|m l IH]; intros c b k Hc; cbn [lazy_items_from]; [reflexivity|].
    rewrite dget_app, dget_prefix_other by lia. apply IH. lia.
  Qed.

  (* (i, k) is looked up in member i *)
  Lemma dget_lazy_items_from : forall (l : @lazy V) b i k,
    dget (lazy_items_from b l) (mkey (b + i) k) = dget (nth i l []) k.
  Proof.
    induction l as [|m l IH]; intros b i k; cbn [lazy_items_from]; [destruct i; reflexivity|].
    rewrite dget_app. destruct i as [|i].
    - rewrite Nat.add_0_r, dget_prefix. cbn [nth]. destruct (dget m k); [reflexivity|].
      apply dget_later_members. lia.
    - rewrite dget_prefix_other by lia. cbn [nth]. replace (b + S i) with (S b + i) by lia. apply IH.
  Qed.
  Lemma dget_lazy_items (l : @lazy V) i k : dget (lazy_items l) (mkey i k) = dget (nth i l []) k.
  Proof. apply (dget_lazy_items_from l 0 i k). Qed.

  (* a key of the member-indexed items is (i, k) for a key k of member i *)
  Lemma in_lazy_keys_from : forall (l : @lazy V) b K,
    In K (keys_of (lazy_items_from b l)) <-> exists i k, i < List.length l /\ K = mkey (b + i) k /\ In k (keys_of (nth i l [])).
  Proof.
    induction l as [|m l IH]; intros b K; cbn [lazy_items_from].
    - cbn. split; [tauto|]. intros (i & k & Hi & _). cbn in Hi. lia.
    - unfold keys_of in *. rewrite map_app, in_app_iff, map_map. cbn [fst]. rewrite IH. split.
      + intros [H|(i & k & Hi & HK & Hk)].
        * apply in_map_iff in H. destruct H as ([k v] & HK & Hin). exists 0, k. cbn [List.length nth fst] in *.
          split; [lia|]. split; [now rewrite Nat.add_0_r|]. apply in_map_iff. now exists (k, v).
        * exists (S i), k. cbn [List.length nth]. split; [lia|]. split; [|exact Hk]. rewrite HK. f_equal. lia.
      + intros (i & k & Hi & HK & Hk). destruct i as [|i]; cbn [nth List.length] in *.
        * left. apply in_map_iff in Hk. destruct Hk as ([k' v] & E & Hin). cbn in E. subst k'.
          apply in_map_iff. exists (k, v). split; [|exact Hin]. cbn. now rewrite HK, Nat.add_0_r.
        * right. exists i, k. split; [lia|]. split; [|exact Hk]. rewrite HK. f_equal. lia.
  Qed.

  Lemma NoDup_app_intro {A} (a b : list A) : NoDup a -> NoDup b -> (forall x, In x a -> ~ In x b) -> NoDup (a ++ b).
  Proof.
    induction a as [|x a IH]; intros Ha Hb Hd; cbn; [exact Hb|]. inversion Ha; subst. constructor.
    - rewrite in_app_iff. intros [H|H]; [tauto|]. apply (Hd x); [now left|exact H].
    - apply IH; auto. intros y Hy. apply Hd. now right.
  Qed.

  Lemma nodup_lazy_items_from : forall (l : @lazy V) b,
    (forall i, i < List.length l -> NoDup (keys_of (nth i l []))) -> NoDup (keys_of (lazy_items_from b l)).
  Proof.
    induction l as [|m l IH]; intros b H; cbn [lazy_items_from]; [constructor|].
    unfold keys_of. rewrite map_app. apply NoDup_app_intro.
    - rewrite map_map. cbn [fst]. specialize (H 0 ltac:(cbn; lia)). cbn [nth] in H. unfold keys_of in H.
      rewrite <- (map_map fst (mkey b)). apply FinFun.Injective_map_NoDup; [|exact H].
      intros x y E. now apply mkey_inj in E.
    - apply IH. intros i Hi. apply (H (S i)). cbn. lia.
    - intros K HK HK'. rewrite map_map in HK. cbn [fst] in HK. apply in_map_iff in HK. destruct HK as ([k v] & E & _). cbn in E.
      apply (in_lazy_keys_from l (S b) K) in HK'. destruct HK' as (i & k' & _ & E' & _). rewrite <- E in E'.
      apply mkey_inj in E'. lia.
  Qed.
End Flat.

Lemma mem_In k l : mem k l = true <-> In k l.
Proof.
  unfold mem. rewrite existsb_exists. split.
  - intros (x & Hx & E). apply String.eqb_eq in E. now subst.
  - intros H. exists k. split; [exact H|apply String.eqb_refl].
Qed.
Lemma same_keysb_In {V} (s o : @items V) : same_keysb s o = true <-> (forall k, In k (keys_of s) <-> In k (keys_of o)).
Proof.
  unfold same_keysb. rewrite andb_true_iff, !forallb_forall. split.
  - intros [H1 H2] k. split; intros H; [apply mem_In, H1, H|apply mem_In, H2, H].
  - intros H. split; intros k Hk; apply mem_In, H, Hk.
Qed.

(* ------------------------------------------------------------------ fused binary family between two lazy stacks *)
(* members with the same key sets, in ANY insertion order per member: member i of the result holds, under every key,
   (self_i[k], other_i[k]) — the entries of the dense stacks under k, slice i *)
Theorem lazy_binary_keywise {V} fx f (s o : @lazy V) :
  List.length s = List.length o -> lazy_items s <> [] ->
  (forall i, i < List.length s -> NoDup (keys_of (nth i s [])) /\ NoDup (keys_of (nth i o [])) /\
                                   same_keysb (nth i s []) (nth i o []) = true) ->
  exists ms, lazy_binary_plan true fx f s (LOpLazy o) DNone = Ok (LzMembers ms) /\ List.length ms = List.length s /\
    forall i k, i < List.length s -> dget (nth i ms []) k = spec_same (nth i s []) (nth i o []) k.
Proof.
  intros Hlen Hne H. unfold lazy_binary_plan. cbn [flat_operand].
  assert (Ns : NoDup (keys_of (lazy_items s))) by (apply nodup_lazy_items_from; intros i Hi; apply (H i Hi)).
  assert (No : NoDup (keys_of (lazy_items o))).
  { apply nodup_lazy_items_from. intros i Hi. rewrite <- Hlen in Hi. apply (H i Hi). }
  assert (Sk : same_keysb (lazy_items s) (lazy_items o) = true).
  { apply same_keysb_In. intros K. unfold lazy_items. rewrite !in_lazy_keys_from. rewrite <- Hlen.
    split; intros (i & k & Hi & HK & Hk); exists i, k; (split; [exact Hi|]); (split; [exact HK|]);
      destruct (H i Hi) as (_ & _ & S); pose proof (proj1 (same_keysb_In _ _) S k) as S'; now apply S'. }
  destruct (binary_same_keys fx f false (lazy_items s) (lazy_items o) Ns No Hne Sk) as (r & Hr & Hk).
  rewrite Hr. eexists. split; [reflexivity|]. split; [now rewrite map_length, seq_length|].
  intros i k Hi. rewrite (nth_indep _ [] (member_part 0 r)) by (now rewrite map_length, seq_length).
  rewrite (map_nth (fun i => member_part i r)), seq_nth by exact Hi. cbn [plus].
  rewrite member_part_get, Hk. unfold spec_same. now rewrite !dget_lazy_items.
Qed.

(* D52 repaired: default=<value>: member i of the result holds the union of the keys of self_i and other_i *)
Theorem lazy_binary_default {V} fx f (s o : @lazy V) (v : V) :
  List.length s = List.length o -> lazy_items o <> [] ->
  (forall i, i < List.length s -> NoDup (keys_of (nth i s [])) /\ NoDup (keys_of (nth i o []))) ->
  exists ms, lazy_binary_plan true fx f s (LOpLazy o) (DVal v) = Ok (LzMembers ms) /\ List.length ms = List.length s /\
    forall i k, i < List.length s -> dget (nth i ms []) k = spec_default v (nth i s []) (nth i o []) k.
Proof.
  intros Hlen Hne H. unfold lazy_binary_plan. cbn [flat_operand].
  assert (Ns : NoDup (keys_of (lazy_items s))) by (apply nodup_lazy_items_from; intros i Hi; apply (H i Hi)).
  assert (No : NoDup (keys_of (lazy_items o))).
  { apply nodup_lazy_items_from. intros i Hi. rewrite <- Hlen in Hi. apply (H i Hi). }
  destruct (binary_default_value fx f (lazy_items s) (lazy_items o) v Ns No Hne) as (r & Hr & Hk).
  rewrite Hr. eexists. split; [reflexivity|]. split; [now rewrite map_length, seq_length|].
  intros i k Hi. rewrite (nth_indep _ [] (member_part 0 r)) by (now rewrite map_length, seq_length).
  rewrite (map_nth (fun i => member_part i r)), seq_nth by exact Hi. cbn [plus].
  rewrite member_part_get, Hk. unfold spec_default. now rewrite !dget_lazy_items.
Qed.

(* a scalar / 0-d tensor operand meets every entry of every member *)
Theorem lazy_binary_scalar {V} fx f (s : @lazy V) d :
  lazy_items s <> [] -> (forall i, i < List.length s -> NoDup (keys_of (nth i s []))) ->
  exists ms, lazy_binary_plan true fx f s LOpScalar d = Ok (LzMembers ms) /\ List.length ms = List.length s /\
    forall i k, i < List.length s -> dget (nth i ms []) k = spec_scalar (nth i s []) k.
Proof.
  intros Hne H. unfold lazy_binary_plan. cbn [flat_operand].
  assert (Ns : NoDup (keys_of (lazy_items s))) by (apply nodup_lazy_items_from; exact H).
  destruct (binary_scalar fx f false (lazy_items s) d Ns Hne) as (r & Hr & Hk).
  rewrite Hr. eexists. split; [reflexivity|]. split; [now rewrite map_length, seq_length|].
  intros i k Hi. rewrite (nth_indep _ [] (member_part 0 r)) by (now rewrite map_length, seq_length).
  rewrite (map_nth (fun i => member_part i r)), seq_nth by exact Hi. cbn [plus].
  rewrite member_part_get, Hk. unfold spec_scalar. now rewrite dget_lazy_items.
Qed.

(* before D52: the entries only `other` has stay under their member-indexed keys *)
Local Open Scope string_scope.
Local Open Scope list_scope.
Lemma lazy_default_stray_before :
  lazy_binary_plan false true Foreach [[("x", 1%Z)]; [("x", 2%Z)]] (LOpLazy [[("x", 10%Z); ("c", 30%Z)]; [("x", 20%Z); ("c", 40%Z)]]) (DVal 0%Z)
  = Ok (LzStray [[("x", (1%Z, RLeaf 10%Z))]; [("x", (2%Z, RLeaf 20%Z))]]
                [(mkey 0 "c", (0%Z, RLeaf 30%Z)); (mkey 1 "c", (0%Z, RLeaf 40%Z))]).
Proof. reflexivity. Qed.

(* ------------------------------------------------------------------ comparisons *)
Theorem lazy_compare_keywise {V} : forall (s o : list (tree V)), Forall2 same_struct s o ->
  exists r, lazy_compare s o = Ok r /\
    Forall2 (fun c ab => exists t, c = COk t /\ forall p, cleaf_at t p = spec_cmp (fst ab) (snd ab) p) r (combine s o).
Proof.
  intros s o H. induction H as [|a b s o Hab _ IH]; cbn.
  - exists []. split; [reflexivity|constructor].
  - destruct IH as (r & Hr & Hf). rewrite Hr. eexists. split; [reflexivity|]. constructor; [|exact Hf].
    destruct (compare_keywise a b Hab) as (t & Ht & Hp). exists t. split; [exact Ht|exact Hp].
Qed.
Lemma lazy_compare_member_count {V} (s o : list (tree V)) : List.length s <> List.length o -> lazy_compare s o = Raised.
Proof.
  revert o. induction s as [|a s IH]; intros [|b o] H; cbn in *; try reflexivity; try congruence.
  rewrite IH by congruence. reflexivity.
Qed.

(* ------------------------------------------------------------------ _maybe_broadcast_other on a lazy self (D50-D51) *)
Lemma shape_eqb_refl (s : shape) : shape_eqb s s = true.
Proof. induction s; cbn; [reflexivity|]. now rewrite Nat.eqb_refl. Qed.

(* a tensor of rank >= 1 that broadcasts to the batch shape: every member is called with its slice *)
Theorem lazy_broadcast_member (bs s : shape) sd :
  List.length s <> 0 -> bcast_all [bs; s] = Some bs ->
  forall hetero, lazy_maybe_broadcast true hetero bs sd [KTensor s]
                 = LMember bs sd (maybe_broadcast (remove_at sd bs) [KTensor (remove_at sd bs)]).
Proof.
  intros Hn Hb hetero; revert Hn Hb.
  intros Hn Hb. unfold lazy_maybe_broadcast. cbn [existsb needs_bcast orb negb].
  replace (Nat.eqb (List.length s) 0) with false by (symmetry; now apply Nat.eqb_neq). cbn. cbn in Hb. rewrite Hb.
  now rewrite shape_eqb_refl.
Qed.
(* a tensor that enlarges the batch shape: the expanded stack is dense and the dense per-leaf path applies *)
Theorem lazy_broadcast_dense (bs s B : shape) sd :
  List.length s <> 0 -> bcast_all [bs; s] = Some B -> shape_eqb B bs = false ->
  lazy_maybe_broadcast true false bs sd [KTensor s] = LDense (BPerLeaf B) /\
  lazy_maybe_broadcast true true bs sd [KTensor s]
  = LMember B (expand_stack_dim bs sd B)
            (maybe_broadcast (remove_at (expand_stack_dim bs sd B) B) [KTensor (remove_at (expand_stack_dim bs sd B) B)]).
Proof.
  intros Hn Hb He. cbn in Hb.
  split; unfold lazy_maybe_broadcast; cbn [existsb needs_bcast orb negb];
    (replace (Nat.eqb (List.length s) 0) with false by (symmetry; now apply Nat.eqb_neq)); cbn; rewrite Hb;
    now rewrite He.
Qed.
Lemma lazy_broadcast_before_unsliced :
  lazy_maybe_broadcast false false [2; 3] 0 [KTensor [2; 3]] = LUnsliced [2; 3].
Proof. reflexivity. Qed.

Lemma expandable_refl (B : shape) : expandable B B = true.
Proof.
  unfold expandable. rewrite Nat.leb_refl, Nat.sub_diag. cbn [skipn andb].
  induction B; cbn; [reflexivity|]. now rewrite Nat.eqb_refl.
Qed.
Lemma bcast_index_in_range : forall j B, Forall2 lt j B ->
  map (fun p : nat * nat => if Nat.eqb (fst p) 1 then 0 else snd p) (combine B j) = j.
Proof.
  intros j B H. induction H as [|x b j B Hx _ IH]; cbn; [reflexivity|]. rewrite IH. f_equal.
  destruct (Nat.eqb b 1) eqn:E; [|reflexivity]. apply Nat.eqb_eq in E. lia.
Qed.
Lemma insert_at_length {A} n (x : A) l : List.length (insert_at n x l) = S (List.length l).
Proof.
  unfold insert_at. rewrite app_length. cbn [List.length]. rewrite Nat.add_succ_r, <- app_length, firstn_skipn. reflexivity.
Qed.
Lemma remove_at_length {A} n (l : list A) : n < List.length l -> S (List.length (remove_at n l)) = List.length l.
Proof.
  intros H. unfold remove_at. rewrite app_length, firstn_length, skipn_length. lia.
Qed.

(* member i, position (jb ++ jf) of its leaf, reads the operand where the DENSE stack reads it at the position with
   i inserted at the stack dim: (lazy op tensor) materialised = (dense op tensor), element by element *)
Theorem member_view_is_dense_view (s B feat : shape) sd i :
  expandable s B = true -> sd < List.length B ->
  exists u, member_operand_view s B sd i feat = Ok u /\ vshape u = remove_at sd B ++ feat /\
    forall jb jf, Forall2 lt jb (remove_at sd B) -> List.length jf = List.length feat ->
      vidx u (jb ++ jf) = spec_left_index s B (insert_at sd i jb ++ jf).
Proof.
  intros He Hsd. unfold member_operand_view, v_expand. cbn [vshape base_view]. rewrite He. cbn [v_select vshape].
  destruct (operand_view_left (remove_at sd B) (remove_at sd B) feat (expandable_refl _)) as (u & Hu & Hs & Hi).
  rewrite Hu. eexists. split; [reflexivity|]. split; [exact Hs|].
  intros jb jf Hr Lf. cbn [vidx v_select base_view].
  assert (Lb : List.length jb = List.length (remove_at sd B)).
  { clear - Hr. induction Hr; cbn; [reflexivity|]. now f_equal. }
  rewrite (Hi jb jf Lb Lf). unfold spec_left_index.
  assert (E1 : firstn (List.length (remove_at sd B)) (jb ++ jf) = jb).
  { rewrite <- Lb, firstn_app, Nat.sub_diag, firstn_O, app_nil_r. apply firstn_all. }
  rewrite E1.
  assert (E2 : spec_bcast_index (remove_at sd B) jb = jb).
  { unfold spec_bcast_index. rewrite Lb, Nat.sub_diag. cbn [skipn]. now apply bcast_index_in_range. }
  rewrite E2.
  assert (Li : List.length (insert_at sd i jb) = List.length B).
  { rewrite insert_at_length, Lb. now apply remove_at_length. }
  assert (E3 : firstn (List.length B) (insert_at sd i jb ++ jf) = insert_at sd i jb).
  { rewrite <- Li, firstn_app, Nat.sub_diag, firstn_O, app_nil_r. apply firstn_all. }
  rewrite E3. apply bidx_spec.
Qed.

(* ------------------------------------------------------------------ softmax (D53) *)
Lemma nth_insert_at {A} : forall sd (x : A) j d dflt, sd <= List.length j -> d <> sd ->
  nth d (insert_at sd x j) dflt = nth (if Nat.ltb d sd then d else d - 1) j dflt.
Proof.
  induction sd as [|sd IH]; intros x j d dflt Hl Hd.
  - unfold insert_at. cbn. destruct d; [lia|]. cbn. now rewrite Nat.sub_0_r.
  - destruct j as [|a j]; [cbn in Hl; lia|]. unfold insert_at. cbn [firstn skipn app]. fold (insert_at sd x j).
    destruct d as [|d]; [reflexivity|]. cbn [nth]. rewrite IH by (cbn in Hl; lia).
    change (Nat.ltb (S d) (S sd)) with (Nat.ltb d sd). destruct (Nat.ltb d sd) eqn:E; [reflexivity|].
    apply Nat.ltb_ge in E. destruct d as [|d]; [lia|]. cbn. now rewrite Nat.sub_0_r.
Qed.

(* a batch dim other than the stack dim: the members run softmax over the axis that IS axis d of the stacked entry *)
Theorem lazy_softmax_axis nb sd dim d :
  correct_neg_dim dim nb = Some d -> d <> sd ->
  exists d', lazy_softmax true nb sd dim = SmMember d' /\
    forall (j : list nat) (i : nat), sd <= List.length j -> nth d (insert_at sd i j) 0 = nth d' j 0.
Proof.
  intros Hc Hd. unfold lazy_softmax. rewrite Hc. replace (Nat.eqb d sd) with false by (symmetry; now apply Nat.eqb_neq).
  eexists. split; [reflexivity|]. intros j i Hl. now apply nth_insert_at.
Qed.
Theorem lazy_softmax_stack_dim nb sd dim : correct_neg_dim dim nb = Some sd -> lazy_softmax true nb sd dim = SmDense sd.
Proof. intros Hc. unfold lazy_softmax. now rewrite Hc, Nat.eqb_refl. Qed.
(* before D53: torch.softmax(x, dim=d) on the member leaves ran over another axis *)
Lemma lazy_softmax_before_refuted :
  exists nb sd dim d j i, lazy_softmax false nb sd dim = SmLeaf d /\ sd <= List.length j /\
    nth d (insert_at sd i j) 0 <> nth d j 0.
Proof. exists 2, 0, 1%Z, 1, [5; 7], 9. repeat split; cbn; [lia|discriminate]. Qed.

(* ------------------------------------------------------------------ reductions: the dense copy is reduced *)
Lemma lazy_front_is_dense fx op (bs : shape) names dim kd :
  lazy_front fx op bs names dim kd = front fx op bs (lazy_dense_names bs names) dim kd.
Proof. reflexivity. Qed.
Lemma lazy_dense_names_length (bs : shape) ns ns' :
  List.length ns = List.length bs -> lazy_dense_names bs (Some ns) = Some ns' -> List.length ns' = List.length bs.
Proof. unfold lazy_dense_names. destruct (Nat.leb (List.length bs) 1); [discriminate|]. intros H E. inversion E. now subst. Qed.

(* ------------------------------------------------------------------ a stack that stays lazy when it is expanded:
   the stack dim moves by the number of new leading dims, and member i of the expanded stack is member i expanded *)
Lemma skipn_insert_at {A} : forall k n (x : A) l, k <= List.length l ->
  skipn k (insert_at (k + n) x l) = insert_at n x (skipn k l).
Proof.
  induction k as [|k IH]; intros n x l H; [reflexivity|].
  destruct l as [|a l]; [cbn in H; lia|]. unfold insert_at. cbn [plus firstn skipn app].
  fold (insert_at (k + n) x l). rewrite IH by (cbn in H; lia). reflexivity.
Qed.
Lemma zero_ones_insert_at : forall sd (s : shape) x l, sd < List.length s -> sd <= List.length l ->
  zero_ones s (insert_at sd x l)
  = insert_at sd (if Nat.eqb (nth sd s 0) 1 then 0 else x) (zero_ones (remove_at sd s) l).
Proof.
  induction sd as [|sd IH]; intros s x l Hs Hl; destruct s as [|d s]; try (cbn in Hs; lia).
  - reflexivity.
  - destruct l as [|a l]; [cbn in Hl; lia|]. unfold insert_at, remove_at. cbn [firstn skipn app zero_ones nth].
    fold (insert_at sd x l). fold (remove_at sd s). rewrite IH by (cbn in Hs, Hl; lia). reflexivity.
Qed.

(* element (jb with i inserted at the SHIFTED stack dim) of the dense stack expanded to B is element jb of member i
   expanded to the members' part of B — for operands / target shapes of any rank >= the stack's *)
Theorem expand_member_commutes (bs B : shape) sd i jb :
  sd < List.length bs -> List.length bs <= List.length B -> S (List.length jb) = List.length B ->
  bidx bs (insert_at (expand_stack_dim bs sd B) i jb)
  = insert_at sd (if Nat.eqb (nth sd bs 0) 1 then 0 else i) (bidx (remove_at sd bs) jb).
Proof.
  intros Hs Hb Hj. unfold bidx, expand_stack_dim. rewrite insert_at_length.
  assert (Hr : S (List.length (remove_at sd bs)) = List.length bs) by now apply remove_at_length.
  replace (S (List.length jb) - List.length bs) with (List.length B - List.length bs) by lia.
  replace (List.length jb - List.length (remove_at sd bs)) with (List.length B - List.length bs) by lia.
  replace (List.length B + sd - List.length bs) with ((List.length B - List.length bs) + sd) by lia.
  rewrite skipn_insert_at by lia. apply zero_ones_insert_at; [exact Hs|]. rewrite skipn_length. lia.
Qed.
(* unbinding along the ORIGINAL stack dim after the expansion (seeded change C09-3) pairs member i with another slice *)
Lemma expand_member_original_dim_refuted :
  exists (bs B : shape) sd i jb, sd < List.length bs /\ S (List.length jb) = List.length B /\
    nth sd (bidx bs (insert_at sd i jb)) 0 <> i.
Proof. exists [3; 2], [3; 3; 2], 0, 0, [1; 0]. repeat split; cbn; lia. Qed.
