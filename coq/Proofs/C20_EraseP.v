(* C20 — erasure lemmas: everything _set_str / _validate_value do to a value or to the container (device cast, renaming,
   cloning, locking, device rewrite) leaves the plain nested dict unchanged; a write is a dict assignment. *)
From Coq Require Import ZArith List String Bool Lia.
Import ListNotations.
From TD Require Import Model.C20_Apply Model.C20_Spec.
Open Scope string_scope.

Scheme tree_mind := Induction for tree Sort Prop
  with forest_mind := Induction for forest Sort Prop.

Section Erase.
Variable A : Type.
Notation tree := (tree A).
Notation forest := (forest A).
Notation erase_t := (erase_t A).
Notation erase_f := (erase_f A).

Lemma erase_f_cons k (t : tree) (r : forest) : erase_f (FCons k t r) = SCons A k (erase_t t) (erase_f r).
Proof. reflexivity. Qed.
Lemma erase_f_nil : erase_f FNil = SNil A.
Proof. reflexivity. Qed.
Lemma erase_t_node ob m (f : forest) : erase_t (Node ob m f) = SNode A (erase_f f).
Proof. reflexivity. Qed.
Lemma erase_t_nont ob p m : erase_t (NonT ob p m) = SNonT A.
Proof. reflexivity. Qed.
Lemma erase_t_leaf s v : erase_t (Leaf s v) = SLeaf A (match v with VOld z => SOld A z | VNew a => SNew A a end).
Proof. reflexivity. Qed.

Lemma erase_fset : forall (f : forest) k v, erase_f (fset A f k v) = sset A (erase_f f) k (erase_t v).
Proof.
  induction f as [|k' t r IH]; intros k v; cbn [fset].
  - reflexivity.
  - rewrite erase_f_cons. cbn [sset]. destruct (String.eqb k k'); rewrite erase_f_cons; [reflexivity|]. now rewrite IH.
Qed.

Lemma erase_fget : forall (f : forest) k, option_map erase_t (fget A f k) = sget A (erase_f f) k.
Proof.
  induction f as [|k' t r IH]; intro k; cbn [fget].
  - reflexivity.
  - rewrite erase_f_cons. cbn [sget]. destruct (String.eqb k k'); [reflexivity|apply IH].
Qed.

(* structure-preserving maps over forests *)
Lemma erase_to_dev d : forall f : forest, erase_f (f_to_dev A d f) = erase_f f.
Proof.
  apply (forest_mind A (fun t => match t with Node _ _ g => erase_f (f_to_dev A d g) = erase_f g | _ => True end)
                       (fun f => erase_f (f_to_dev A d f) = erase_f f)); try (intros; exact I); try reflexivity.
  - intros _ _ f IH. exact IH.
  - intros k t IHt r IHr. cbn [f_to_dev]. rewrite !erase_f_cons, IHr.
    destruct t as [s v|ob p m|ob m g]; try reflexivity. now rewrite !erase_t_node, IHt.
Qed.
Lemma erase_set_dev d : forall f : forest, erase_f (f_set_dev A d f) = erase_f f.
Proof.
  apply (forest_mind A (fun t => match t with Node _ _ g => erase_f (f_set_dev A d g) = erase_f g | _ => True end)
                       (fun f => erase_f (f_set_dev A d f) = erase_f f)); try (intros; exact I); try reflexivity.
  - intros _ _ f IH. exact IH.
  - intros k t IHt r IHr. cbn [f_set_dev]. rewrite !erase_f_cons, IHr.
    destruct t as [s v|ob p m|ob m g]; try reflexivity. now rewrite !erase_t_node, IHt.
Qed.
Lemma erase_clone : forall f : forest, erase_f (f_clone A f) = erase_f f.
Proof.
  apply (forest_mind A (fun t => match t with Node _ _ g => erase_f (f_clone A g) = erase_f g | _ => True end)
                       (fun f => erase_f (f_clone A f) = erase_f f)); try (intros; exact I); try reflexivity.
  - intros _ _ f IH. exact IH.
  - intros k t IHt r IHr. cbn [f_clone]. rewrite !erase_f_cons, IHr.
    destruct t as [s v|ob p m|ob m g]; try reflexivity. now rewrite !erase_t_node, IHt.
Qed.
Lemma erase_lock : forall f : forest, erase_f (f_lock A f) = erase_f f.
Proof.
  apply (forest_mind A (fun t => match t with Node _ _ g => erase_f (f_lock A g) = erase_f g | _ => True end)
                       (fun f => erase_f (f_lock A f) = erase_f f)); try (intros; exact I); try reflexivity.
  - intros _ _ f IH. exact IH.
  - intros k t IHt r IHr. cbn [f_lock]. rewrite !erase_f_cons, IHr.
    destruct t as [s v|ob p m|ob m g]; try reflexivity. now rewrite !erase_t_node, IHt.
Qed.
Lemma erase_rename : forall (f : forest) ns, erase_f (f_rename A ns f) = erase_f f.
Proof.
  apply (forest_mind A (fun t => match t with Node _ _ g => forall ns, erase_f (f_rename A ns g) = erase_f g | _ => True end)
                       (fun f => forall ns, erase_f (f_rename A ns f) = erase_f f)); try (intros; exact I); try reflexivity.
  - intros _ _ f IH. exact IH.
  - intros k t IHt r IHr ns. cbn [f_rename]. rewrite !erase_f_cons, IHr.
    destruct t as [s v|ob p m|ob m g]; try reflexivity. now rewrite !erase_t_node, IHt.
Qed.

Lemma erase_t_to_dev d (t : tree) : erase_t (t_to_dev A d t) = erase_t t.
Proof. destruct t; cbn [t_to_dev]; try reflexivity. now rewrite !erase_t_node, erase_to_dev. Qed.
Lemma erase_t_lock (t : tree) : erase_t (t_lock A t) = erase_t t.
Proof. destruct t; cbn [t_lock]; try reflexivity. now rewrite !erase_t_node, erase_lock. Qed.

(* keys *)
Lemma fkeys_fset_in : forall (f : forest) k v, fget A f k <> None -> fkeys A (fset A f k v) = fkeys A f.
Proof.
  induction f as [|k' t r IH]; intros k v H; cbn [fget fset fkeys] in *.
  - congruence.
  - destruct (String.eqb k k'); cbn [fkeys]; [reflexivity|]. now rewrite IH.
Qed.
Lemma fkeys_rename : forall (f : forest) ns, fkeys A (f_rename A ns f) = fkeys A f.
Proof. induction f as [|k t r IH]; intro ns; cbn [f_rename fkeys]; [reflexivity|now rewrite IH]. Qed.
Lemma fkeys_set_dev d : forall f : forest, fkeys A (f_set_dev A d f) = fkeys A f.
Proof. induction f as [|k t r IH]; cbn [f_set_dev fkeys]; [reflexivity|now rewrite IH]. Qed.

Lemma fget_none_notin : forall (f : forest) k, fget A f k = None <-> ~ In k (fkeys A f).
Proof.
  induction f as [|k' t r IH]; intro k; cbn [fget fkeys In].
  - tauto.
  - destruct (String.eqb k k') eqn:E.
    + apply String.eqb_eq in E. subst. split; [discriminate|]. intro H. exfalso. apply H. now left.
    + apply String.eqb_neq in E. rewrite IH. split.
      * intros H [H1|H1]; [congruence|tauto].
      * tauto.
Qed.
Lemma fget_fset_other : forall (f : forest) k k' v, k <> k' -> fget A (fset A f k' v) k = fget A f k.
Proof.
  induction f as [|k0 t r IH]; intros k k' v H; cbn [fset fget].
  - destruct (String.eqb k k') eqn:E; [apply String.eqb_eq in E; congruence|reflexivity].
  - destruct (String.eqb k' k0) eqn:E0; cbn [fget].
    + apply String.eqb_eq in E0. subst k0.
      destruct (String.eqb k k') eqn:E; [apply String.eqb_eq in E; congruence|reflexivity].
    + destruct (String.eqb k k0); [reflexivity|now apply IH].
Qed.

Lemma mem_str_in k l : mem_str k l = true <-> In k l.
Proof.
  induction l as [|x r IH]; cbn [mem_str In]; [split; [discriminate|tauto]|].
  rewrite orb_true_iff, IH, String.eqb_eq. split; intros [H|H]; auto.
Qed.
Lemma disjoint_str_spec a b : disjoint_str a b = true -> forall k, In k a -> ~ In k b.
Proof.
  induction a as [|x r IH]; cbn [disjoint_str In]; [tauto|].
  rewrite andb_true_iff, negb_true_iff. intros [H1 H2] k [->|Hk].
  - intro Hb. apply mem_str_in in Hb. congruence.
  - now apply IH.
Qed.
Lemma nodup_str_spec l : nodup_str l = true -> NoDup l.
Proof.
  induction l as [|x r IH]; cbn [nodup_str]; [constructor|].
  rewrite andb_true_iff, negb_true_iff. intros [H1 H2]. constructor; [|now apply IH].
  intro Hin. apply mem_str_in in Hin. congruence.
Qed.

End Erase.
