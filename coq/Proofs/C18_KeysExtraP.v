From Coq Require Import List String Bool.
Import ListNotations.
From TD Require Import Model.Keys Proofs.KeysP.
Open Scope string_scope.

(* unravel_keys after repair D1804: the Python branch is the one-argument alias of unravel_key, as the native binding is:
   same result on every argument list (any arity, valid keys or not) *)
Theorem unravel_keys_dual ks : py_unravel_keys ks = cpp_unravel_keys ks.
Proof.
  unfold py_unravel_keys, py_unravel_keys_gen, cpp_unravel_keys. destruct ks as [|k [|k2 r]]; try reflexivity.
  now rewrite unravel_key_dual.
Qed.

(* what the alias means: exactly one argument, and the result is that of unravel_key *)
Theorem unravel_keys_is_unravel_key k :
  cpp_unravel_keys [k] = match cpp_unravel_key k with RRaise => KRaise | r => KOne r end
  /\ (forall ks, List.length ks <> 1 -> cpp_unravel_keys ks = KRaise /\ py_unravel_keys ks = KRaise).
Proof.
  split; [reflexivity|]. intros ks H. destruct ks as [|a [|b r]]; [split; reflexivity|now contradiction H|split; reflexivity].
Qed.

(* ---- the code before the repair ([repaired := false]): the two paths did NOT agree (finding D1804) ... *)
Theorem unravel_keys_unrepaired_refuted : exists ks, py_unravel_keys_unrepaired ks <> cpp_unravel_keys ks.
Proof. exists [KS "a"]. vm_compute. discriminate. Qed.

(* ... on no accepted input at all: the native path returns the bare key, the old Python path a tuple of keys *)
Theorem unravel_keys_unrepaired_never_agree ks :
  cpp_unravel_keys ks <> KRaise -> py_unravel_keys_unrepaired ks <> cpp_unravel_keys ks.
Proof.
  unfold cpp_unravel_keys, py_unravel_keys_unrepaired, py_unravel_keys_gen. intros H.
  destruct ks as [|k [|k2 r]]; [now contradiction H| |now contradiction H].
  destruct (py_unravel_key_list [k]); destruct (cpp_unravel_key k); try discriminate. now contradiction H.
Qed.

(* what did hold: on one argument the old Python result was the 1-tuple around the native result *)
Theorem unravel_keys_unrepaired_partial k :
  py_unravel_keys_unrepaired [k] = match cpp_unravel_keys [k] with KOne r => KMany [r] | other => other end.
Proof.
  unfold py_unravel_keys_unrepaired, py_unravel_keys_gen, cpp_unravel_keys, py_unravel_key_list. cbn [map sequence_res].
  rewrite unravel_key_dual. destruct (cpp_unravel_key k); reflexivity.
Qed.
