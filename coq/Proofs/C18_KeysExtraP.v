From Coq Require Import List String Bool.
Import ListNotations.
From TD Require Import Model.Keys Proofs.KeysP.
Open Scope string_scope.

(* unravel_keys: the two paths do NOT agree (finding D1804) ... *)
Theorem unravel_keys_dual_refuted : exists ks, py_unravel_keys ks <> cpp_unravel_keys ks.
Proof. exists [KS "a"]. vm_compute. discriminate. Qed.

(* ... on no accepted input at all: the native path returns the bare key, the Python path a tuple of keys *)
Theorem unravel_keys_never_agree ks : cpp_unravel_keys ks <> KRaise -> py_unravel_keys ks <> cpp_unravel_keys ks.
Proof.
  unfold cpp_unravel_keys, py_unravel_keys. intros H. destruct ks as [|k [|k2 r]]; [now contradiction H| |now contradiction H].
  destruct (py_unravel_key_list [k]); destruct (cpp_unravel_key k); try discriminate. now contradiction H.
Qed.

(* what does hold: on one argument the Python result is the 1-tuple around the native result, and both reject the same keys *)
Theorem unravel_keys_partial k :
  py_unravel_keys [k] = match cpp_unravel_keys [k] with KOne r => KMany [r] | other => other end.
Proof.
  unfold py_unravel_keys, cpp_unravel_keys, py_unravel_key_list. cbn [map sequence_res].
  rewrite unravel_key_dual. destruct (cpp_unravel_key k); reflexivity.
Qed.
