From Coq Require Import List String Bool Arith Lia.
Import ListNotations.
From TD Require Import Model.C18_Names.
Open Scope string_scope.

(* ---- the working tree (repair D1801 applied): __init__ and the setter do not ask is_compiling() any more ---- *)

(* setter: the two arms agree for every state and every value (valid or not) *)
Theorem names_set_dual bd cur value : names_set true bd cur value = names_set false bd cur value.
Proof. reflexivity. Qed.

(* __init__: the two arms agree for every names argument (valid or not): names are kept, invalid names are rejected *)
Theorem init_names_dual bd names : init_names true bd names = init_names false bd names.
Proof. reflexivity. Qed.

(* the setter stores what it was given when it accepts it *)
Lemma names_set_ok bd compile cur v s : names_set compile bd cur (Some v) = NOk s -> s = None \/ s = Some v.
Proof.
  unfold names_set, names_set_gen. rewrite andb_false_r.
  destruct (Nat.eqb (count_none v) bd); [intros H; injection H as <-; now left|].
  destruct (negb _); [discriminate|]. destruct (negb _); [discriminate|]. intros H; injection H as <-; now right.
Qed.

(* ... and it erases exactly when no dimension is named *)
Lemma names_set_erases bd compile cur v : count_none v = bd -> names_set compile bd cur (Some v) = NOk None.
Proof.
  intros H. unfold names_set, names_set_gen. rewrite andb_false_r. now rewrite (proj2 (Nat.eqb_eq _ _) H).
Qed.

(* _new_unsafe: the two arms store the same raw state, for every class and every names argument (checked or not: the
   function is "unsafe" on both paths) *)
Theorem new_unsafe_names_dual bd cls_is_td names :
  new_unsafe_names true cls_is_td bd names = new_unsafe_names false cls_is_td bd names.
Proof. destruct cls_is_td; reflexivity. Qed.

(* ... namely the names it was given *)
Theorem new_unsafe_names_stores compile cls_is_td bd names : new_unsafe_names compile cls_is_td bd names = NOk names.
Proof. destruct compile, cls_is_td; reflexivity. Qed.

(* ---- the code before repair D1801 ([repaired := false]) fails every one of these statements ---- *)

(* erasing the names of a named tensordict was skipped by the compile arm *)
Theorem names_set_unrepaired_refuted : exists bd cur value,
  observe_names bd (names_set_unrepaired true bd cur value) <> observe_names bd (names_set_unrepaired false bd cur value).
Proof. exists 1, (Some [Some "a"]), None. vm_compute. discriminate. Qed.

(* names were dropped by __init__ ... *)
Theorem init_names_unrepaired_refuted : exists bd names,
  observe_names bd (init_names_unrepaired true bd names) <> observe_names bd (init_names_unrepaired false bd names).
Proof. exists 1, (Some [Some "a"]). vm_compute. discriminate. Qed.

(* ... and invalid names were not rejected *)
Theorem init_names_unrepaired_rejects_refuted : exists bd names,
  init_names_unrepaired false bd names = NValueError /\ init_names_unrepaired true bd names = NOk None.
Proof. exists 1, (Some [Some "a"; Some "b"]). split; reflexivity. Qed.

(* _new_unsafe: the same defect through the fallback to __init__; a subclass kept the eager path *)
Theorem new_unsafe_names_unrepaired_refuted : exists bd names,
  observe_names bd (new_unsafe_names_unrepaired true true bd names) <> observe_names bd (new_unsafe_names_unrepaired false true bd names).
Proof. exists 1, (Some [Some "a"]). vm_compute. discriminate. Qed.

Theorem new_unsafe_names_unrepaired_partial bd names :
  new_unsafe_names_unrepaired true false bd names = new_unsafe_names_unrepaired false false bd names
  /\ new_unsafe_names_unrepaired true true bd None = new_unsafe_names_unrepaired false true bd None.
Proof. split; reflexivity. Qed.

(* what did hold before the repair: the setter agreed on a tensordict that was not named yet, and for any value naming
   a dimension; __init__ agreed exactly when no dimension was named *)
Theorem names_set_unrepaired_unnamed bd value :
  names_set_unrepaired true bd None value = names_set_unrepaired false bd None value.
Proof.
  unfold names_set_unrepaired, names_set_gen. destruct value as [v|]; [|reflexivity].
  destruct (Nat.eqb (count_none v) bd); reflexivity.
Qed.

Theorem names_set_unrepaired_naming bd cur v :
  count_none v <> bd -> names_set_unrepaired true bd cur (Some v) = names_set_unrepaired false bd cur (Some v).
Proof.
  intros H. unfold names_set_unrepaired, names_set_gen.
  destruct (Nat.eqb (count_none v) bd) eqn:E; [apply Nat.eqb_eq in E; contradiction|reflexivity].
Qed.

Theorem init_names_unrepaired_only_unnamed bd names :
  init_names_unrepaired true bd names = init_names_unrepaired false bd names -> init_names_unrepaired false bd names = NOk None.
Proof. unfold init_names_unrepaired, init_names_gen at 1. cbn. intros H. now rewrite <- H. Qed.
