From Coq Require Import List String Bool Arith Lia.
Import ListNotations.
From TD Require Import Model.C18_Names.
Open Scope string_scope.

(* setter: on a tensordict that is not named yet the two arms agree, for every value (valid or not) *)
Theorem names_set_dual_unnamed bd value : names_set true bd None value = names_set false bd None value.
Proof.
  unfold names_set. destruct value as [v|]; [|reflexivity].
  destruct (Nat.eqb (count_none v) bd); reflexivity.
Qed.

(* setter: with a value that names at least one dimension the two arms agree whatever the current state *)
Theorem names_set_dual_naming bd cur v :
  count_none v <> bd -> names_set true bd cur (Some v) = names_set false bd cur (Some v).
Proof.
  intros H. unfold names_set. destruct (Nat.eqb (count_none v) bd) eqn:E; [apply Nat.eqb_eq in E; contradiction|reflexivity].
Qed.

(* ... and they do NOT agree in general: erasing the names of a named tensordict is skipped by the compile arm *)
Theorem names_set_dual_refuted : exists bd cur value,
  observe_names bd (names_set true bd cur value) <> observe_names bd (names_set false bd cur value).
Proof. exists 1, (Some [Some "a"]), None. vm_compute. discriminate. Qed.

(* __init__: the full statement is false of the code (names are dropped, and invalid names are not rejected) *)
Theorem init_names_dual_refuted : exists bd names,
  observe_names bd (init_names true bd names) <> observe_names bd (init_names false bd names).
Proof. exists 1, (Some [Some "a"]). vm_compute. discriminate. Qed.

Theorem init_names_rejects_refuted : exists bd names,
  init_names false bd names = NValueError /\ init_names true bd names = NOk None.
Proof. exists 1, (Some [Some "a"; Some "b"]). split; reflexivity. Qed.

(* ... it holds exactly when no dimension is named *)
Theorem init_names_dual_partial bd names :
  (names = None \/ exists v, names = Some v /\ count_none v = bd) ->
  init_names true bd names = init_names false bd names.
Proof.
  intros [->|[v [-> H]]]; unfold init_names, names_set; [reflexivity|].
  rewrite (proj2 (Nat.eqb_eq _ _) H). reflexivity.
Qed.

(* the eager arm stores what it was given when it accepts it *)
Lemma names_set_eager_ok bd cur v s : names_set false bd cur (Some v) = NOk s -> s = None \/ s = Some v.
Proof.
  unfold names_set. destruct (Nat.eqb (count_none v) bd); [intros H; injection H as <-; now left|].
  destruct (negb _); [discriminate|]. destruct (negb _); [discriminate|]. intros H; injection H as <-; now right.
Qed.

(* conversely, whenever the arms agree on __init__, nothing ended up named *)
Theorem init_names_dual_only_unnamed bd names :
  init_names true bd names = init_names false bd names -> init_names false bd names = NOk None.
Proof. unfold init_names at 1. cbn. intros H. now rewrite <- H. Qed.

(* _new_unsafe: same defect through the fallback; for another class (a subclass keeps the eager path) the arms coincide *)
Theorem new_unsafe_names_dual_subclass bd names :
  new_unsafe_names true false bd names = new_unsafe_names false false bd names.
Proof. reflexivity. Qed.

Theorem new_unsafe_names_dual_partial bd :
  new_unsafe_names true true bd None = new_unsafe_names false true bd None.
Proof. reflexivity. Qed.

Theorem new_unsafe_names_dual_refuted : exists bd names,
  observe_names bd (new_unsafe_names true true bd names) <> observe_names bd (new_unsafe_names false true bd names).
Proof. exists 1, (Some [Some "a"]). vm_compute. discriminate. Qed.
