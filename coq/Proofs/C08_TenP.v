(* C08: an integer tensor (list / range) of ANY rank >= 1 sitting ON the stack dim, basic items around it:
   _split_index hands the nested list of (member, sub-index) to __getitem__'s [recompose], which stacks the selected
   members' items rank times at the position where the dense result has the tensor's dims.
   Reads: lazy[pre, T, post] denotes dense[pre, T, post] (element map through the VALUE of T, negative values included),
   at any nesting depth of the members. *)
From Coq Require Import ZArith List Bool Lia ZifyBool.
Import ListNotations.
From TD Require Import Spec.PySlice Spec.C08_Dense Model.C08_Lazy Proofs.C08_CoordP Proofs.C08_IndexP.
Open Scope Z_scope.

(* ------------------------------------------------------------------------------------------------------------
   row-major flattening and tensor.unbind(0) / tolist() *)
Lemma ravel_acc_lin sh : forall r acc, List.length r = List.length sh ->
  ravel_acc acc sh r = acc * prodZ sh + ravel_acc 0 sh r.
Proof.
  induction sh as [|s sh IH]; intros [|x r] acc H; cbn in H; try discriminate.
  - cbn. lia.
  - cbn [ravel_acc]. rewrite (IH r (acc * s + x)), (IH r (0 * s + x)) by lia.
    change (prodZ (s :: sh)) with (s * prodZ sh). ring.
Qed.

Lemma ravel_cons s sh x r : List.length r = List.length sh -> ravel (s :: sh) (x :: r) = x * prodZ sh + ravel sh r.
Proof. intros H. unfold ravel. cbn [ravel_acc]. rewrite ravel_acc_lin by exact H. ring. Qed.

Lemma prodZ_nonneg sh : Forall (fun s => 0 <= s) sh -> 0 <= prodZ sh.
Proof. induction 1 as [|s sh Hs _ IH]; cbn; [lia|]. fold (prodZ sh). nia. Qed.

Lemma ravel_bound sh : forall r, in_range sh r = true -> 0 <= ravel sh r < prodZ sh.
Proof.
  induction sh as [|s sh IH]; intros [|x r] H; cbn [in_range] in H; try discriminate.
  - cbn. lia.
  - apply andb_prop in H. destruct H as [Hx Hr]. pose proof (in_range_length _ _ Hr) as HL.
    rewrite ravel_cons by exact HL. specialize (IH r Hr). change (prodZ (s :: sh)) with (s * prodZ sh).
    unfold in_dim in Hx. nia.
Qed.

Lemma chunks_length {A} f k : forall (l : list A), List.length (chunks f k l) = f.
Proof. induction f as [|f IH]; intros l; cbn; [reflexivity|]. rewrite IH. reflexivity. Qed.

Lemma chunks_nth {A} f k : forall (l : list A) i, (i < f)%nat ->
  nth_error (chunks f k l) i = Some (firstn k (skipn (i * k) l)).
Proof.
  induction f as [|f IH]; intros l i Hi; [lia|]. cbn [chunks]. destruct i as [|i]; [reflexivity|].
  cbn [nth_error]. rewrite IH by lia. cbn [Nat.mul]. rewrite skipn_add. reflexivity.
Qed.

Lemma chunk_length {A} f k (l : list A) i : List.length l = (f * k)%nat -> (i < f)%nat ->
  List.length (firstn k (skipn (i * k) l)) = k.
Proof. intros HL Hi. rewrite firstn_length, skipn_length, HL. nia. Qed.

Lemma nth_firstn' {A} n : forall (l : list A) k, (k < n)%nat -> nth_error (firstn n l) k = nth_error l k.
Proof. induction n as [|n IH]; intros [|x l] [|k] H; cbn; try lia; try reflexivity. apply IH. lia. Qed.
Lemma nth_skipn' {A} n : forall (l : list A) k, nth_error (skipn n l) k = nth_error l (n + k).
Proof. induction n as [|n IH]; intros [|x l] k; cbn; try reflexivity; [destruct k; reflexivity|apply IH]. Qed.

(* element q of row k of a (s x P) table stored row-major *)
Lemma nthZ_chunk (vals : list Z) s P k q c :
  0 <= s -> 0 <= P -> lenZ vals = s * P -> in_dim k s = true -> 0 <= q < P ->
  nthZ (chunks (Z.to_nat s) (Z.to_nat P) vals) k = Some c ->
  nthZ vals (k * P + q) = nthZ c q /\ lenZ c = P.
Proof.
  intros Hs HP HL Hk Hq Hc. unfold in_dim in Hk. unfold nthZ in *.
  replace (k <? 0) with false in Hc by lia. replace (k * P + q <? 0) with false by nia. replace (q <? 0) with false by lia.
  rewrite chunks_nth in Hc by lia. inversion Hc; subst c. clear Hc.
  assert (HLn : List.length vals = (Z.to_nat s * Z.to_nat P)%nat) by (unfold lenZ in HL; nia).
  split.
  - rewrite nth_firstn' by lia. rewrite nth_skipn'. f_equal. nia.
  - unfold lenZ. rewrite (chunk_length (Z.to_nat s)) by (assumption || lia). lia.
Qed.

Lemma chunks_all_length {A} f k : forall (l : list A), List.length l = (f * k)%nat ->
  Forall (fun c => List.length c = k) (chunks f k l).
Proof.
  induction f as [|f IH]; intros l HL; cbn [chunks]; constructor.
  - rewrite firstn_length. nia.
  - apply IH. rewrite skipn_length. nia.
Qed.

(* ------------------------------------------------------------------------------------------------------------
   the nested fixpoint of [recompose], unfolded on the two shapes tolist() produces *)
Lemma to_nest_list sh vals : exists l, to_nest sh vals = NList l.
Proof. destruct sh as [|s [|s2 r]]; cbn; eauto. Qed.

Lemma recompose_leaves G parts nsd bs0 sub vals :
  recompose G parts nsd bs0 sub (NList (map NLeaf vals)) =
  rbind (rmap (fun j => rbind (member parts j) (fun m => m_get_or_self G m sub)) vals)
        (fun xs => match xs with [] => Raised | _ => Ok (Stack nsd bs0 xs) end).
Proof.
  cbn [recompose]. f_equal.
  induction vals as [|j vals IH]; [reflexivity|].
  cbn [map rmap]. destruct (member parts j) as [m| | |]; cbn [rbind]; try reflexivity.
  destruct (m_get_or_self G m sub) as [x| | |]; cbn [rbind]; try reflexivity.
  rewrite IH. reflexivity.
Qed.

Lemma recompose_lists G parts nsd bs0 sub sh cs :
  recompose G parts nsd bs0 sub (NList (map (to_nest sh) cs)) =
  rbind (rmap (fun c => recompose G parts nsd bs0 sub (to_nest sh c)) cs)
        (fun xs => match xs with [] => Raised | _ => Ok (Stack nsd bs0 xs) end).
Proof.
  cbn [recompose]. f_equal.
  induction cs as [|c cs IH]; [reflexivity|].
  cbn [map rmap]. destruct (to_nest_list sh c) as [l E]. rewrite E.
  destruct (recompose G parts nsd bs0 sub (NList l)) as [x| | |]; cbn [rbind]; try reflexivity.
  rewrite IH. reflexivity.
Qed.

Lemma Forall2_Forall_r {A B} (R : A -> B -> Prop) (P : A -> Prop) (Q : B -> Prop) l m :
  Forall2 R l m -> Forall P l -> (forall a b, P a -> R a b -> Q b) -> Forall Q m.
Proof.
  intros H. induction H as [|a b l m Hab _ IH]; intros HP HQ; constructor.
  - inversion HP; subst. eapply HQ; eauto.
  - inversion HP; subst. apply IH; assumption.
Qed.

(* ------------------------------------------------------------------------------------------------------------
   what [recompose] builds: the members picked by the VALUES of the tensor, each indexed by the shared sub-index,
   stacked rank(T) times at dim nsd *)
Section TenRead.
  Variable G : arr -> list item -> res arr.
  Variables (parts : list arr) (bs bs0 : list Z) (sub : list item) (ra rb : list Z) (nsd : nat).
  Hypothesis Hnsd : List.length ra = nsd.
  Hypothesis Hshape : Forall (fun p => shape_of p = Some bs) parts.
  Hypothesis Hsound : Forall (fun p => sound p bs) parts.
  Hypothesis Hnn : Forall (fun s => 0 <= s) bs.
  Hypothesis Hrs : res_shape sub bs = Some (ra ++ rb).
  Hypothesis HG : forall m x, In m parts -> is_stack m = true -> G m sub = Ok x -> equiv x (Index sub m).

  (* element r of the result: coordinates nsd .. nsd+rank-1 address the tensor, its value there picks the member *)
  Definition ten_at (tsh vals : list Z) (r : list Z) : option (nat * list Z) :=
    let k := List.length tsh in
    let rt := firstn k (skipn nsd r) in
    if in_range tsh rt then
      match nthZ vals (ravel tsh rt) with
      | Some v => match member parts v with
                  | Ok m => opt_bind (src_of sub bs (firstn nsd r ++ skipn (nsd + k) r)) (at_ m)
                  | _ => None
                  end
      | None => None
      end
    else None.

  Lemma rmap_members_vals : forall vals xs,
    rmap (fun j => rbind (member parts j) (fun m => m_get_or_self G m sub)) vals = Ok xs ->
    exists ms, Forall2 (fun j m => member parts j = Ok m) vals ms /\
               Forall2 (fun m x => equiv x (Index sub m)) ms xs.
  Proof.
    induction vals as [|j vals IH]; intros xs H; cbn [rmap] in H.
    - inversion H. exists []. split; constructor.
    - apply rbind_ok in H. destruct H as [x [Hx H]].
      apply rbind_ok in Hx. destruct Hx as [m [Em Ex]].
      apply rbind_ok in H. destruct H as [xs' [Er H]].
      inversion H as [Hxs]. destruct (IH xs' Er) as [ms [F1 F2]].
      exists (m :: ms). split; constructor; auto.
      pose proof (member_In _ _ _ Em) as Hin.
      apply (m_get_or_self_equiv G m sub x bs (ra ++ rb)).
      + apply (proj1 (Forall_forall _ _) Hshape). exact Hin.
      + apply (proj1 (Forall_forall _ _) Hsound). exact Hin.
      + exact Hnn.
      + exact Hrs.
      + intros. eapply HG; eauto.
      + exact Ex.
  Qed.

  Lemma members_shape_vals ms js : Forall2 (fun j m => member parts j = Ok m) js ms -> Forall (fun m => shape_of m = Some bs) ms.
  Proof.
    induction 1 as [|j m js ms Hm _ IH]; constructor; [|exact IH].
    apply (proj1 (Forall_forall _ _) Hshape). eapply member_In; exact Hm.
  Qed.

  Lemma firstn_app_exact' {A} (a b : list A) : firstn (List.length a) (a ++ b) = a.
  Proof. rewrite firstn_app, firstn_all, Nat.sub_diag. cbn. apply app_nil_r. Qed.
  Lemma skipn_app_exact' {A} (a b : list A) : skipn (List.length a) (a ++ b) = b.
  Proof. rewrite skipn_app, skipn_all, Nat.sub_diag. reflexivity. Qed.

  (* rank 1: the stack of the selected members *)
  Lemma recompose_base vals x :
    recompose G parts nsd bs0 sub (NList (map NLeaf vals)) = Ok x ->
    shape_of x = Some (ra ++ [lenZ vals] ++ rb) /\ forall r, at_ x r = ten_at [lenZ vals] vals r.
  Proof.
    intros H. rewrite recompose_leaves in H. apply rbind_ok in H. destruct H as [xs [Er H]].
    destruct (rmap_members_vals _ _ Er) as [ms [F1 F2]].
    destruct xs as [|x0 xs]; [discriminate|]. inversion H; subst x. clear H.
    pose proof (members_shape_vals _ _ F1) as Hms.
    destruct (stack_of_indexed nsd bs0 sub bs (ra ++ rb) ms (x0 :: xs) F2 Hms Hrs
                ltac:(rewrite app_length; lia) ltac:(discriminate)) as [Hsh Hat].
    assert (Hlen : lenZ (x0 :: xs) = lenZ vals).
    { unfold lenZ. rewrite <- (Forall2_length _ _ _ F2), <- (Forall2_length _ _ _ F1). reflexivity. }
    split.
    - rewrite Hsh, Hlen, <- Hnsd, insert_at_app. reflexivity.
    - intros r. rewrite Hat. unfold ten_at. cbn [List.length].
      destruct (nth_error r nsd) as [k|] eqn:Ek.
      + destruct (nth_error_split _ _ _ Ek) as [r1 [r2 [Er12 Lr1]]]. subst r.
        rewrite skipn_add. rewrite <- Lr1. rewrite firstn_app_exact', skipn_app_exact', remove_at_app.
        cbn [firstn skipn in_range]. rewrite andb_true_r.
        replace (ravel [lenZ vals] [k]) with k by (unfold ravel; cbn; lia).
        pose proof (Forall2_nthZ _ _ _ F1 k) as HP1.
        destruct (nthZ vals k) as [v|] eqn:Ev; destruct (nthZ ms k) as [m|] eqn:Em; try contradiction.
        * rewrite (nthZ_range _ _ _ Ev), HP1. reflexivity.
        * destruct (in_dim k (lenZ vals)); reflexivity.
      + apply nth_error_None in Ek. rewrite (skipn_all2 r) by exact Ek. reflexivity.
  Qed.

  (* any rank >= 1 *)
  Lemma recompose_sem : forall tsh, tsh <> [] -> Forall (fun s => 0 <= s) tsh -> forall vals x,
    lenZ vals = prodZ tsh ->
    recompose G parts nsd bs0 sub (to_nest tsh vals) = Ok x ->
    shape_of x = Some (ra ++ tsh ++ rb) /\ forall r, at_ x r = ten_at tsh vals r.
  Proof.
    induction tsh as [|s tsh IH]; intros Hne Hpos vals x HL H; [congruence|].
    inversion Hpos as [|? ? Hs Hpos']; subst.
    destruct tsh as [|s2 rest].
    - (* rank 1 *)
      cbn [to_nest] in H. destruct (recompose_base vals x H) as [Hsh Hat].
      assert (E : lenZ vals = s) by (cbn in HL; lia). rewrite E in Hsh, Hat. split; assumption.
    - (* rank >= 2: one stack of the rows' results *)
      set (tsh' := s2 :: rest) in *.
      assert (HP : 0 <= prodZ tsh') by (apply prodZ_nonneg; exact Hpos').
      change (to_nest (s :: tsh') vals)
        with (NList (map (to_nest tsh') (chunks (Z.to_nat s) (Z.to_nat (prodZ tsh')) vals))) in H.
      rewrite recompose_lists in H. apply rbind_ok in H. destruct H as [xs [Er H]].
      destruct xs as [|x0 xs]; [discriminate|]. inversion H; subst x. clear H.
      set (cs := chunks (Z.to_nat s) (Z.to_nat (prodZ tsh')) vals) in *.
      apply rmap_Forall2 in Er.
      change (prodZ (s :: tsh')) with (s * prodZ tsh') in HL.
      assert (HLn : List.length vals = (Z.to_nat s * Z.to_nat (prodZ tsh'))%nat) by (unfold lenZ in HL; nia).
      assert (Hcs : Forall (fun c => lenZ c = prodZ tsh') cs).
      { eapply Forall_impl; [|apply (chunks_all_length _ _ vals HLn)]. intros c Hc. unfold lenZ. cbn beta in Hc. lia. }
      assert (Hxs : Forall (fun y => shape_of y = Some (ra ++ tsh' ++ rb)) (x0 :: xs)).
      { apply (Forall2_Forall_r _ _ _ _ _ Er Hcs). intros c y Hc Hy.
        apply (IH ltac:(discriminate) Hpos' c y Hc Hy). }
      assert (Hlen : lenZ (x0 :: xs) = s).
      { unfold lenZ. rewrite <- (Forall2_length _ _ _ Er). unfold cs. rewrite chunks_length. lia. }
      split.
      + rewrite (shape_of_stack nsd bs0 (x0 :: xs) (ra ++ tsh' ++ rb) ltac:(discriminate) Hxs
                   ltac:(rewrite app_length; lia)).
        unfold compute_batch_size. rewrite Hlen, <- Hnsd, insert_at_app. reflexivity.
      + intros r. rewrite at_stack. unfold ten_at.
        destruct (nth_error r nsd) as [k|] eqn:Ek.
        * destruct (nth_error_split _ _ _ Ek) as [r1 [r2 [Er12 Lr1]]]. subst r.
          rewrite !skipn_add. rewrite <- Lr1. rewrite firstn_app_exact', skipn_app_exact', remove_at_app.
          cbn [List.length firstn skipn in_range].
          pose proof (Forall2_nthZ _ _ _ Er k) as HP1.
          destruct (nthZ (x0 :: xs) k) as [y|] eqn:Ey.
          -- destruct (nthZ cs k) as [c|] eqn:Ec; [|contradiction].
             pose proof (nthZ_range _ _ _ Ey) as Hk. rewrite Hlen in Hk. rewrite Hk. cbn [andb].
             assert (Hc : lenZ c = prodZ tsh').
             { apply (proj1 (Forall_forall _ _) Hcs). eapply nthZ_In; exact Ec. }
             destruct (IH ltac:(discriminate) Hpos' c y Hc HP1) as [_ Hat]. rewrite Hat. unfold ten_at.
             rewrite skipn_add. rewrite <- Lr1. rewrite firstn_app_exact', skipn_app_exact'.
             destruct (in_range tsh' (firstn (List.length tsh') r2)) eqn:Ein; [|reflexivity].
             pose proof (in_range_length _ _ Ein) as HLr.
             rewrite ravel_cons by exact HLr.
             pose proof (ravel_bound _ _ Ein) as Hq.
             destruct (nthZ_chunk vals s (prodZ tsh') k _ c Hs HP HL Hk Hq Ec) as [Enth _].
             rewrite Enth. reflexivity.
          -- destruct (nthZ cs k) as [c|] eqn:Ec; [contradiction|].
             destruct (in_dim k s) eqn:Hk; [|reflexivity]. exfalso.
             unfold nthZ, in_dim in *. replace (k <? 0) with false in Ec by lia.
             apply nth_error_None in Ec. unfold cs in Ec. rewrite chunks_length in Ec. lia.
        * apply nth_error_None in Ek. rewrite (skipn_all2 r) by exact Ek. reflexivity.
  Qed.
End TenRead.

(* ------------------------------------------------------------------------------------------------------------
   what _split_index returns for an integer tensor on the stack dim *)
Definition mk_split_nd (k : split_kind) (ns nn : Z) : split :=
  {| sp_kind := k; sp_num_single := ns; sp_num_none := nn; sp_num_squash := 0; sp_isint := false; sp_has_bool := false;
     sp_nd := true; sp_split_dim := 0; sp_mask_loc := 0%nat; sp_masks := [] |}.

Theorem split_index_ten sd n shape pre tsh vals post :
  basic pre -> consumed pre = sd -> Forall post_item post -> one_adv (pre ++ ITen tsh vals :: post) ->
  (lenZ vals =? prodZ tsh) = true ->
  split_index sd n shape (pre ++ ITen tsh vals :: post) =
  Ok (mk_split_nd (KNest (to_nest tsh vals) (pre ++ post)) (count_int pre) (count_none pre)).
Proof.
  intros HB HC HP HA HL. unfold split_index.
  rewrite convert_ellipsis_noell by (apply noell_app; [apply basic_noell; exact HB|constructor; [reflexivity|apply post_noell; exact HP]]).
  cbn [rbind]. unfold one_adv in HA. rewrite HA.
  change {| st_out := []; st_sel := SAll n; st_num_single := 0; st_num_none := 0; st_num_squash := 0;
            st_isint := false; st_has_bool := false; st_nd := false; st_enc := false; st_cursor := 0%nat;
            st_split_dim := 0; st_mask_loc := 0%nat; st_masks := [] |} with (s0 n).
  rewrite loop_pre by (assumption || (cbn; lia)).
  cbn [split_loop]. unfold split_step at 1. cbn [as_number st_cursor st_upd s0].
  replace (0 + consumed pre)%nat with sd by lia. rewrite Nat.eqb_refl. cbn [rbind st_enc].
  rewrite loop_post by (assumption || (cbn; lia)). cbn [rbind].
  unfold st_upd, s0. cbn -[Z.add to_nest lenZ prodZ Z.eqb].
  rewrite <- map_app, rmap_osub_item. cbn [rbind]. rewrite HL. unfold mk_split_nd.
  rewrite !Z.add_0_r, !Z.add_0_l. reflexivity.
Qed.

Section TenOneLevel.
  Variable G : arr -> list item -> res arr.
  Variables (sd : nat) (bs0 : list Z) (parts : list arr) (S1 S2 : list Z).
  Let bs := S1 ++ S2.
  Let self := Stack sd bs0 parts.
  Let shape := S1 ++ lenZ parts :: S2.
  Hypothesis HS1 : List.length S1 = sd.
  Hypothesis Hne : parts <> [].
  Hypothesis Hshape : Forall (fun p => shape_of p = Some bs) parts.
  Hypothesis Hsound : Forall (fun p => sound p bs) parts.
  Hypothesis Hnn : Forall (fun s => 0 <= s) bs.

  (* lazy[pre, T, post]: T an integer tensor of rank >= 1 on the stack dim *)
  Theorem getitem_ten_core pre t0 tsh vals post a' rsd :
    basic pre -> consumed pre = sd -> Forall post_item post -> one_adv (pre ++ ITen (t0 :: tsh) vals :: post) ->
    (forall m x, In m parts -> is_stack m = true -> G m (pre ++ post) = Ok x -> equiv x (Index (pre ++ post) m)) ->
    res_shape (pre ++ ITen (t0 :: tsh) vals :: post) shape = Some rsd ->
    getitem_body G self sd bs0 parts shape (pre ++ ITen (t0 :: tsh) vals :: post) = Ok a' ->
    equiv a' (Index (pre ++ ITen (t0 :: tsh) vals :: post) self).
  Proof.
    intros HB HC HP HA HG Hlegal H.
    set (T := t0 :: tsh) in *.
    assert (HNpre : noell pre) by (apply basic_noell; exact HB).
    assert (HCpre : consumed pre = List.length S1) by lia.
    pose proof Hlegal as Hlegal0.
    unfold shape in Hlegal. rewrite (res_shape_app pre HNpre S1 _ _ HCpre) in Hlegal.
    destruct (res_shape pre S1) as [ra|] eqn:Era; [|discriminate].
    cbn [res_shape] in Hlegal.
    destruct ((lenZ vals =? prodZ T) && vals_ok vals (lenZ parts) && forallb (fun x : Z => 0 <=? x) T) eqn:Hc; [|discriminate].
    destruct (res_shape post S2) as [rb|] eqn:Erb; [|discriminate]. cbn [option_map] in Hlegal.
    pose proof Hc as Hc0.
    apply andb_prop in Hc. destruct Hc as [Hc HposT]. apply andb_prop in Hc. destruct Hc as [HL Hvok].
    assert (HposT' : Forall (fun s => 0 <= s) T).
    { apply Forall_forall. intros s Hs. pose proof (proj1 (forallb_forall _ _) HposT s Hs). lia. }
    unfold getitem_body in H.
    change (Z.of_nat (List.length parts)) with (lenZ parts) in *.
    rewrite (split_index_ten sd (List.length parts) shape pre T vals post HB HC HP HA HL) in H.
    cbn [rbind mk_split_nd sp_has_bool sp_nd sp_kind sp_num_single sp_num_none] in H.
    rewrite <- HC in H at 1. rewrite (nsd_basic pre HB) in H.
    unfold nonneg_nat in H. replace (Z.of_nat (rdims_l pre) <? 0) with false in H by lia. cbn [rbind] in H.
    rewrite Nat2Z.id in H. set (nsd := rdims_l pre) in *.
    assert (Hnsd : List.length ra = nsd) by (eapply res_shape_exact; eauto).
    assert (Hrs : res_shape (pre ++ post) bs = Some (ra ++ rb)).
    { unfold bs. rewrite (res_shape_app pre HNpre S1 S2 post HCpre), Era, Erb. reflexivity. }
    destruct (recompose_sem G parts bs bs0 (pre ++ post) ra rb nsd Hnsd Hshape Hsound Hnn Hrs HG T
                ltac:(discriminate) HposT' vals a' ltac:(lia) H) as [Hsh Hat].
    assert (Hself : shape_of self = Some shape).
    { unfold self, shape. rewrite (shape_of_stack sd bs0 parts bs Hne Hshape) by (unfold bs; rewrite app_length; lia).
      unfold compute_batch_size, bs. rewrite <- HS1 at 1. rewrite insert_at_app. reflexivity. }
    split.
    - rewrite Hsh, (shape_index _ _ _ Hself). fold shape. rewrite Hlegal0, <- Hlegal. reflexivity.
    - intros r. rewrite Hat, (at_index _ _ _ r Hself). unfold ten_at, shape.
      rewrite (src_of_app pre HNpre S1 _ _ r HCpre). fold nsd.
      destruct (Nat.le_gt_cases nsd (List.length r)) as [Hlen|Hlen].
      + destruct (split_at nsd r Hlen) as [r1 [r2 [Er12 Lr1]]]. subst r.
        rewrite skipn_add. rewrite <- Lr1. rewrite firstn_app_exact', skipn_app_exact'.
        cbn [src_of]. rewrite Hc0. cbn [andb].
        destruct (in_range T (firstn (List.length T) r2)) eqn:Ein;
          [|destruct (src_of pre S1 r1); reflexivity].
        destruct (nthZ vals (ravel T (firstn (List.length T) r2))) as [v|];
          [|destruct (src_of pre S1 r1); reflexivity].
        unfold member. destruct (norm_i v (lenZ parts)) as [v'|];
          [|destruct (src_of pre S1 r1); reflexivity].
        unfold bs. rewrite (src_of_app pre HNpre S1 S2 post _ HCpre). fold nsd. rewrite <- Lr1.
        rewrite firstn_app_exact', skipn_app_exact'.
        destruct (src_of pre S1 r1) as [a1|] eqn:Ea1; [|destruct (nthZ parts v'); reflexivity].
        destruct (src_of post S2 (skipn (List.length T) r2)) as [b1|]; [|destruct (nthZ parts v'); reflexivity].
        cbn [option_map opt_bind]. unfold self. rewrite at_stack.
        assert (La1 : List.length a1 = sd) by (rewrite (src_of_length pre HNpre S1 r1 a1 HCpre Ea1); exact HS1).
        rewrite <- La1. rewrite nth_error_app_mid, remove_at_app.
        destruct (nthZ parts v'); reflexivity.
      + rewrite (skipn_all2 r) by lia. cbn [List.length T firstn in_range].
        destruct (src_of pre S1 (firstn nsd r)); [|reflexivity]. cbn [src_of]. rewrite Hc0. reflexivity.
  Qed.
End TenOneLevel.

Lemma wf_stack_inv sd bs0 parts bs : wf_tree (Stack sd bs0 parts) bs ->
  exists bs', parts <> [] /\ wf_forall parts bs' /\ (sd <= List.length bs')%nat /\ bs = insert_at sd (lenZ parts) bs'.
Proof. intros H. inversion H; subst. eauto. Qed.

(* split_index_adv_on_stack, integer tensor (list / range): at ANY nesting depth of the members, for every rank >= 1 of the
   tensor, every value (negative ones included), ints / slices / None before and after it *)
Theorem getitem_ten_on_stack : forall fuel sd bs0 parts bs pre t0 tsh vals post a' rsd,
  wf_tree (Stack sd bs0 parts) bs -> basic pre -> consumed pre = sd -> basic post ->
  res_shape (pre ++ ITen (t0 :: tsh) vals :: post) bs = Some rsd ->
  lz_getitem fuel (Stack sd bs0 parts) (pre ++ ITen (t0 :: tsh) vals :: post) = Ok a' ->
  equiv a' (Index (pre ++ ITen (t0 :: tsh) vals :: post) (Stack sd bs0 parts)).
Proof.
  intros fuel sd bs0 parts bs pre t0 tsh vals post a' rsd Hwf HB HC HBp Hlegal H.
  destruct fuel as [|f]; [discriminate|]. cbn [lz_getitem] in H. rewrite (wf_shape _ _ Hwf) in H.
  destruct (wf_stack_inv _ _ _ _ Hwf) as [bs' [Hne [Hparts [Hsd Ebs']]]]. subst bs.
  pose proof (wf_forall_nonneg _ _ Hne Hparts) as Hnn.
  destruct (split_at sd bs' Hsd) as [S1 [S2 [Ebs LS1]]]. subst bs'.
  assert (Eins : insert_at sd (lenZ parts) (S1 ++ S2) = S1 ++ lenZ parts :: S2) by (rewrite <- LS1; apply insert_at_app).
  rewrite Eins in H, Hlegal.
  assert (HA : one_adv (pre ++ ITen (t0 :: tsh) vals :: post)).
  { unfold one_adv.
    assert (E : forall l, basic l -> filter is_adv l = []).
    { intros l Hl. induction Hl as [|it l Hit _ IH]; [reflexivity|]. cbn. destruct it; cbn in Hit; try contradiction; cbn; exact IH. }
    rewrite filter_app. cbn [filter is_adv]. rewrite (E pre HB), (E post HBp). reflexivity. }
  eapply (getitem_ten_core (lz_getitem f) sd bs0 parts S1 S2 LS1 Hne (wf_forall_shapes _ _ Hparts)
            (wf_forall_sound _ _ Hparts) Hnn pre t0 tsh vals post a' rsd); eauto using basic_post.
  intros m x Hin _ Hx.
  assert (Hrs : exists rs, res_shape (pre ++ post) (S1 ++ S2) = Some rs).
  { assert (HNpre : noell pre) by (apply basic_noell; exact HB).
    rewrite (res_shape_app pre HNpre S1 _ _ ltac:(lia)) in Hlegal.
    rewrite (res_shape_app pre HNpre S1 S2 post ltac:(lia)).
    destruct (res_shape pre S1); [|discriminate]. cbn [res_shape] in Hlegal.
    destruct (_ && _ && _); [|discriminate]. destruct (res_shape post S2); [|discriminate]. cbn [option_map]. eauto. }
  destruct Hrs as [rs Hrs].
  eapply (getitem_basic f m (S1 ++ S2) (pre ++ post) x rs); eauto using basic_app. eapply wf_forall_In; eauto.
Qed.
