From Coq Require Import ZArith List Bool Arith Lia.
Import ListNotations.
From TD Require Import Model.C11_Layout.
Open Scope nat_scope.

Lemma In_firstn_In {X} (x : X) : forall n l, In x (firstn n l) -> In x l.
Proof.
  induction n as [|n IH]; intros [|y l] H; cbn in *; try contradiction.
  destruct H as [H|H]; [now left|right; now apply IH].
Qed.

Lemma Forall_firstn {X} (P : X -> Prop) n l : Forall P l -> Forall P (firstn n l).
Proof. intros H. apply Forall_forall. intros x Hx. apply (proj1 (Forall_forall _ _) H). eapply In_firstn_In. exact Hx. Qed.

(* ------------------------------------------------------------------ totals *)
Lemma total_app A np a b : total A np (a ++ b) = total A np a + total A np b.
Proof. unfold total. induction a as [|x a IH]; cbn [app fold_right]; [reflexivity|]. rewrite IH. lia. Qed.

Lemma total_cons A np l r : total A np (l :: r) = flat_size A np l + total A np r.
Proof. reflexivity. Qed.

Lemma firstn_S_nth {X} (ls : list X) : forall i l, nth_error ls i = Some l -> firstn (S i) ls = firstn i ls ++ [l].
Proof.
  induction ls as [|x r IH]; intros [|i] l H; cbn in *; try discriminate.
  - now injection H as ->.
  - f_equal. now apply IH.
Qed.

Lemma total_firstn_S A np ls i l : nth_error ls i = Some l ->
  total A np (firstn (S i) ls) = total A np (firstn i ls) + flat_size A np l.
Proof. intros H. rewrite (firstn_S_nth _ _ _ H), total_app. cbn. lia. Qed.

Lemma total_firstn_mono A np ls : forall i j, i <= j -> total A np (firstn i ls) <= total A np (firstn j ls).
Proof.
  induction ls as [|x r IH]; intros i j Hij.
  - now rewrite !firstn_nil.
  - destruct i as [|i], j as [|j]; cbn [firstn]; rewrite ?total_cons; try lia.
    + cbn. lia.
    + specialize (IH i j ltac:(lia)). lia.
Qed.

Lemma total_firstn_le A np ls i : total A np (firstn i ls) <= total A np ls.
Proof.
  rewrite <- (firstn_all ls) at 2.
  destruct (Nat.le_gt_cases i (length ls)) as [H|H].
  - now apply total_firstn_mono.
  - rewrite (firstn_all2 ls) by lia. rewrite firstn_all. lia.
Qed.

(* ------------------------------------------------------------------ closed form of every record *)
Lemma layout_from_length A np : forall ls s, length (layout_from A np s ls) = length ls.
Proof. induction ls as [|l r IH]; intros s; cbn; [reflexivity|]. now rewrite IH. Qed.

Lemma layout_nth A np : forall ls s i sg,
  nth_error (layout_from A np s ls) i = Some sg ->
  exists l, nth_error ls i = Some l /\
    s_start sg = s + total A np (firstn i ls) /\
    s_stop sg = s + total A np (firstn i ls) + flat_size A np l /\
    s_pad sg = pad_of A np (nbytes l).
Proof.
  induction ls as [|l r IH]; intros s i sg H; cbn [layout_from] in H.
  - destruct i; discriminate.
  - destruct i as [|i]; cbn [nth_error] in H.
    + injection H as <-. exists l. cbn. repeat split; lia.
    + destruct (IH _ _ _ H) as (l' & H1 & H2 & H3 & H4). exists l'. cbn [nth_error firstn]. rewrite total_cons.
      repeat split; try assumption; lia.
Qed.

Lemma layout_nth_inv A np : forall ls s i l,
  nth_error ls i = Some l -> exists sg, nth_error (layout_from A np s ls) i = Some sg.
Proof.
  intros ls s i l H.
  destruct (nth_error (layout_from A np s ls) i) eqn:E; [eauto|].
  apply nth_error_None in E. rewrite layout_from_length in E.
  assert (i < length ls) by (apply nth_error_Some; congruence). lia.
Qed.

(* ------------------------------------------------------------------ consecutive, disjoint, covering *)
Theorem layout_consecutive A np ls s : forall i a b,
  nth_error (layout_from A np s ls) i = Some a -> nth_error (layout_from A np s ls) (S i) = Some b ->
  s_stop a = s_start b.
Proof.
  intros i a b Ha Hb.
  destruct (layout_nth _ _ _ _ _ _ Ha) as (la & H1 & H2 & H3 & _).
  destruct (layout_nth _ _ _ _ _ _ Hb) as (lb & H4 & H5 & _).
  rewrite H3, H5, (total_firstn_S _ _ _ _ _ H1). lia.
Qed.

Theorem layout_bounds A np ls s : forall i a,
  nth_error (layout_from A np s ls) i = Some a -> s <= s_start a /\ s_start a <= s_stop a /\ s_stop a <= s + total A np ls.
Proof.
  intros i a Ha. destruct (layout_nth _ _ _ _ _ _ Ha) as (la & H1 & H2 & H3 & _).
  pose proof (total_firstn_S A np _ _ _ H1) as E. pose proof (total_firstn_le A np ls (S i)). lia.
Qed.

Theorem layout_disjoint A np ls s : forall i j a b, i < j ->
  nth_error (layout_from A np s ls) i = Some a -> nth_error (layout_from A np s ls) j = Some b ->
  s_stop a <= s_start b.
Proof.
  intros i j a b Hij Ha Hb.
  destruct (layout_nth _ _ _ _ _ _ Ha) as (la & H1 & H2 & H3 & _).
  destruct (layout_nth _ _ _ _ _ _ Hb) as (lb & H4 & H5 & _).
  pose proof (total_firstn_S A np _ _ _ H1) as E.
  pose proof (total_firstn_mono A np ls (S i) j ltac:(lia)). lia.
Qed.

Theorem layout_cover A np : forall ls s x, s <= x < s + total A np ls ->
  exists i sg, nth_error (layout_from A np s ls) i = Some sg /\ s_start sg <= x < s_stop sg.
Proof.
  induction ls as [|l r IH]; intros s x Hx.
  - cbn in Hx. lia.
  - rewrite total_cons in Hx. cbn [layout_from].
    destruct (Nat.lt_ge_cases x (s + flat_size A np l)) as [H|H].
    + exists 0. eexists. split; [reflexivity|]. cbn. lia.
    + destruct (IH (s + flat_size A np l) x ltac:(lia)) as (i & sg & H1 & H2).
      exists (S i), sg. split; [exact H1|exact H2].
Qed.

Theorem layout_first A np ls s a : nth_error (layout_from A np s ls) 0 = Some a -> s_start a = s.
Proof. destruct ls; cbn; [discriminate|]. now intros [= <-]. Qed.

Theorem layout_last A np ls s a : nth_error (layout_from A np s ls) (length ls - 1) = Some a -> s_stop a = s + total A np ls.
Proof.
  intros Ha. destruct (layout_nth _ _ _ _ _ _ Ha) as (la & H1 & H2 & H3 & _).
  assert (length ls <> 0) by (destruct ls; [destruct (0 - 1); discriminate|cbn; lia]).
  pose proof (total_firstn_S A np _ _ _ H1) as E.
  replace (S (length ls - 1)) with (length ls) in E by lia. rewrite firstn_all in E. lia.
Qed.

Theorem layout_disjoint_cover : forall A np (ls : list lspec),
  let L := layout_from A np 0 ls in
  length L = length ls
  /\ (forall a, nth_error L 0 = Some a -> s_start a = 0)
  /\ (forall i a b, nth_error L i = Some a -> nth_error L (S i) = Some b -> s_stop a = s_start b)
  /\ (forall a, nth_error L (length ls - 1) = Some a -> s_stop a = total A np ls)
  /\ (forall i a, nth_error L i = Some a -> s_start a <= s_stop a /\ s_stop a <= total A np ls)
  /\ (forall i j a b, i < j -> nth_error L i = Some a -> nth_error L j = Some b -> s_stop a <= s_start b)
  /\ (forall x, x < total A np ls -> exists i sg, nth_error L i = Some sg /\ s_start sg <= x < s_stop sg).
Proof.
  intros A np ls L. subst L. repeat split.
  - apply layout_from_length.
  - intros a H. now rewrite (layout_first _ _ _ _ _ H).
  - apply layout_consecutive.
  - intros a H. now rewrite (layout_last _ _ _ _ _ H).
  - destruct (layout_bounds _ _ _ _ _ _ H) as (_ & H1 & _). exact H1.
  - destruct (layout_bounds _ _ _ _ _ _ H) as (_ & _ & H1). exact H1.
  - apply layout_disjoint.
  - intros x Hx. apply layout_cover. lia.
Qed.

(* the padding itself: fewer than A bytes, and only as much as needed *)
Lemma pad_lt A np n : 0 < A -> pad_of A np n < A.
Proof.
  intros HA. unfold pad_of. destruct np; [|lia].
  cbv zeta. destruct (n mod A =? 0) eqn:E; [lia|]. apply Nat.eqb_neq in E. lia.
Qed.

Lemma padded_divide A n : 0 < A -> Nat.divide A (n + pad_of A true n).
Proof.
  intros HA. unfold pad_of. cbv zeta.
  pose proof (Nat.div_mod_eq n A) as E. pose proof (Nat.mod_upper_bound n A ltac:(lia)) as U.
  destruct (n mod A =? 0) eqn:Z0.
  - apply Nat.eqb_eq in Z0. exists (n / A). lia.
  - apply Nat.eqb_neq in Z0. exists (n / A + 1). lia.
Qed.

Lemma total_divide A ls : 0 < A -> Nat.divide A (total A true ls).
Proof.
  intros HA. induction ls as [|l r IH]; [exists 0; reflexivity|].
  rewrite total_cons. apply Nat.divide_add_r; [|exact IH]. unfold flat_size. now apply padded_divide.
Qed.

(* ------------------------------------------------------------------ alignment *)
Lemma divide_mod0 e x : 0 < e -> Nat.divide e x -> x mod e = 0.
Proof. intros He [q ->]. now apply Nat.mod_mul; lia. Qed.

(* with padding to A, every record whose element size divides A starts at a multiple of its element size *)
Theorem layout_aligned_partial A ls : 0 < A -> forall i sg l,
  nth_error (layout_from A true 0 ls) i = Some sg -> nth_error ls i = Some l ->
  0 < sp_esz l -> Nat.divide (sp_esz l) A -> s_start sg mod sp_esz l = 0.
Proof.
  intros HA i sg l Hs Hl He Hd.
  destruct (layout_nth _ _ _ _ _ _ Hs) as (l' & H1 & H2 & _). rewrite H2. cbn.
  apply divide_mod0; [exact He|]. eapply Nat.divide_trans; [exact Hd|]. now apply total_divide.
Qed.

(* without padding (a single dtype): every record starts at a multiple of the common element size *)
Lemma total_nopad_divide A e ls : Forall (fun l => sp_esz l = e) ls -> Nat.divide e (total A false ls).
Proof.
  induction 1 as [|l r Hl _ IH]; [exists 0; reflexivity|].
  rewrite total_cons. apply Nat.divide_add_r; [|exact IH].
  unfold flat_size, pad_of, nbytes. rewrite Hl, Nat.add_0_r. exists (numel (sp_shape l)). lia.
Qed.

Theorem layout_aligned_uniform A e ls : 0 < e -> Forall (fun l => sp_esz l = e) ls -> forall i sg,
  nth_error (layout_from A false 0 ls) i = Some sg -> s_start sg mod e = 0.
Proof.
  intros He Hall i sg Hs.
  destruct (layout_nth _ _ _ _ _ _ Hs) as (l' & H1 & H2 & _). rewrite H2. cbn.
  apply divide_mod0; [exact He|]. apply total_nopad_divide.
  apply Forall_forall. intros x Hx. apply (proj1 (Forall_forall _ _) Hall). eapply In_firstn_In. exact Hx.
Qed.

(* fix: D11 -- with the padding unit 16 every supported element size (1, 2, 4, 8, 16) is aligned, for ALL leaf lists *)
Definition supported (e : nat) : bool := (e =? 1) || (e =? 2) || (e =? 4) || (e =? 8) || (e =? 16).

Lemma supported_divides e : supported e = true -> 0 < e /\ Nat.divide e 16.
Proof.
  unfold supported. rewrite !orb_true_iff, !Nat.eqb_eq. intros [[[[->| ->]| ->]| ->]| ->]; (split; [lia|]).
  - exists 16. reflexivity.
  - exists 8. reflexivity.
  - exists 4. reflexivity.
  - exists 2. reflexivity.
  - exists 1. reflexivity.
Qed.

Theorem layout_aligned : forall ls i sg l,
  Forall (fun l => supported (sp_esz l) = true) ls ->
  nth_error (layout true ls) i = Some sg -> nth_error ls i = Some l -> s_start sg mod sp_esz l = 0.
Proof.
  intros ls i sg l Hall Hs Hl.
  assert (Hsup : supported (sp_esz l) = true) by (apply (proj1 (Forall_forall _ _) Hall); eapply nth_error_In; exact Hl).
  destruct (supported_divides _ Hsup) as [He Hd].
  unfold layout in Hs. change align_unit with 16 in Hs.
  now apply (layout_aligned_partial 16 ls ltac:(lia) i sg l).
Qed.

(* ... and the old padding unit 8 was not enough: uint8[8] followed by complex128 *)
Definition aligned_statement (A : nat) : Prop :=
  forall ls i sg l, nth_error (layout_from A true 0 ls) i = Some sg -> nth_error ls i = Some l -> 0 < sp_esz l ->
    s_start sg mod sp_esz l = 0.

Theorem layout_aligned_refuted : ~ aligned_statement 8.
Proof.
  intros H.
  specialize (H [ {| sp_esz := 1; sp_shape := [8] |}; {| sp_esz := 16; sp_shape := [1] |} ] 1
                {| s_start := 8; s_stop := 24; s_pad := 0 |} {| sp_esz := 16; sp_shape := [1] |} eq_refl eq_refl).
  cbn in H. specialize (H ltac:(lia)). discriminate.
Qed.

(* ------------------------------------------------------------------ encode *)
Lemma chunk_length A np l : length (l_bytes l) = nbytes (spec_of l) -> length (chunk A np l) = flat_size A np (spec_of l).
Proof. intros H. unfold chunk, flat_size. rewrite app_length, repeat_length. lia. Qed.

Lemma encode_app A np a b : encode A np (a ++ b) = encode A np a ++ encode A np b.
Proof. induction a as [|x a IH]; cbn [app encode]; [reflexivity|]. now rewrite IH, app_assoc. Qed.

Lemma encode_length A np ls : Forall wf_leaf ls -> length (encode A np ls) = total A np (map spec_of ls).
Proof.
  induction 1 as [|l r [Hl _] _ IH]; [reflexivity|].
  cbn [encode map]. rewrite total_cons, app_length, IH, chunk_length by exact Hl. reflexivity.
Qed.

Lemma nth_error_split_pre {X} (ls : list X) : forall i l, nth_error ls i = Some l ->
  ls = firstn i ls ++ l :: skipn (S i) ls.
Proof.
  induction ls as [|x r IH]; intros [|i] l H; cbn in *; try discriminate.
  - now injection H as ->.
  - f_equal. now apply IH.
Qed.

Lemma slice_chunk A np ls i l : Forall wf_leaf ls -> nth_error ls i = Some l ->
  let start := total A np (firstn i (map spec_of ls)) in
  slice (encode A np ls) start (start + flat_size A np (spec_of l)) = chunk A np l.
Proof.
  intros Hwf Hl start. unfold slice.
  rewrite (nth_error_split_pre _ _ _ Hl) at 1.
  rewrite encode_app. cbn [encode].
  assert (Hpre : length (encode A np (firstn i ls)) = start).
  { rewrite encode_length.
    - subst start. now rewrite firstn_map.
    - apply Forall_forall. intros x Hx. apply (proj1 (Forall_forall _ _) Hwf). eapply In_firstn_In. exact Hx. }
  rewrite skipn_app, Hpre, Nat.sub_diag. rewrite skipn_all2 by lia. cbn [skipn app].
  replace (start + flat_size A np (spec_of l) - start) with (length (chunk A np l)).
  - now rewrite firstn_app, Nat.sub_diag, firstn_all, firstn_O, app_nil_r.
  - rewrite chunk_length; [lia|]. apply (proj1 (Forall_forall _ _) Hwf). eapply nth_error_In. exact Hl.
Qed.

(* ------------------------------------------------------------------ decode . encode *)
Lemma div_ge_numel e k p : 0 < e -> k <= (e * k + p) / e.
Proof.
  intros He. rewrite Nat.mul_comm. rewrite Nat.div_add_l by lia. lia.
Qed.

Theorem decode_encode_leaf A np ls i l sg :
  Forall wf_leaf ls -> nth_error ls i = Some l ->
  nth_error (layout_from A np 0 (map spec_of ls)) i = Some sg ->
  flat_size A np (spec_of l) mod l_esz l = 0 ->
  decode_leaf (encode A np ls) (l_dt l) (l_esz l) (l_shape l) sg
  = if s_start sg mod l_esz l =? 0 then DOk l else DViewErr.
Proof.
  intros Hwf Hl Hs Hsz.
  destruct (layout_nth _ _ _ _ _ _ Hs) as (sp & H1 & H2 & H3 & H4).
  rewrite nth_error_map, Hl in H1. cbn in H1. injection H1 as <-.
  assert (Hw : wf_leaf l) by (apply (proj1 (Forall_forall _ _) Hwf); eapply nth_error_In; exact Hl).
  destruct Hw as [Hlen He].
  unfold decode_leaf.
  pose proof (slice_chunk A np ls i l Hwf Hl) as Hsl. cbv zeta in Hsl.
  cbn [Nat.add] in H2, H3. rewrite H3, H2. rewrite Hsl.
  rewrite chunk_length by exact Hlen.
  unfold view_ok. rewrite Hsz. cbn [Nat.eqb andb].
  replace (0 <? l_esz l) with true by (symmetry; apply Nat.ltb_lt; exact He). cbn [andb].
  assert (Hv : (l_esz l =? 1) || (total A np (firstn i (map spec_of ls)) mod l_esz l =? 0)
               = (total A np (firstn i (map spec_of ls)) mod l_esz l =? 0)).
  { destruct (l_esz l =? 1) eqn:E1; [|reflexivity]. apply Nat.eqb_eq in E1. rewrite E1, Nat.mod_1_r. reflexivity. }
  rewrite Hv.
  destruct (total A np (firstn i (map spec_of ls)) mod l_esz l =? 0); cbn [negb]; [|reflexivity].
  (* number of elements *)
  unfold flat_size, nbytes, spec_of in *. cbn [sp_esz sp_shape] in *.
  set (e := l_esz l) in *. set (k := numel (l_shape l)) in *. set (p := pad_of A np (e * k)) in *.
  assert (Hnel : (if s_pad sg =? 0 then (e * k + p) / e else Nat.min ((e * k + p) / e) k) = k).
  { rewrite H4. fold p. destruct (p =? 0) eqn:Ep.
    - apply Nat.eqb_eq in Ep. rewrite Ep, Nat.add_0_r, Nat.mul_comm. now apply Nat.div_mul; lia.
    - apply Nat.min_r. now apply div_ge_numel. }
  rewrite Hnel, Nat.eqb_refl. cbn [negb].
  unfold chunk. rewrite firstn_app.
  replace (k * e - length (l_bytes l)) with 0 by lia.
  rewrite firstn_O, app_nil_r, firstn_all2 by lia.
  destruct l; reflexivity.
Qed.

(* the size side condition holds for every element size that divides, or is a multiple of, the padding unit *)
Lemma size_ok_pad A l : 0 < A -> 0 < l_esz l -> Nat.divide (l_esz l) A \/ Nat.divide A (l_esz l) ->
  flat_size A true (spec_of l) mod l_esz l = 0.
Proof.
  intros HA He [Hd|Hd].
  - apply divide_mod0; [exact He|]. eapply Nat.divide_trans; [exact Hd|]. unfold flat_size. now apply padded_divide.
  - unfold flat_size, pad_of, nbytes, spec_of. cbn [sp_esz sp_shape]. cbv zeta.
    destruct Hd as [q Hq].
    assert (Hm : (l_esz l * numel (l_shape l)) mod A = 0).
    { rewrite Hq. replace (q * A * numel (l_shape l)) with (q * numel (l_shape l) * A) by lia. now apply Nat.mod_mul; lia. }
    rewrite Hm. cbn [Nat.eqb]. rewrite Nat.add_0_r, Nat.mul_comm. now apply Nat.mod_mul; lia.
Qed.

Lemma size_ok_nopad A l : 0 < l_esz l -> flat_size A false (spec_of l) mod l_esz l = 0.
Proof.
  intros He. unfold flat_size, pad_of, nbytes, spec_of. cbn [sp_esz sp_shape].
  rewrite Nat.add_0_r, Nat.mul_comm. now apply Nat.mod_mul; lia.
Qed.

(* ------------------------------------------------------------------ in-place write through a view = re-encoding *)
Definition set_bytes (l : leaf) (b : list Z) : leaf :=
  {| l_dt := l_dt l; l_esz := l_esz l; l_shape := l_shape l; l_bytes := b |}.

Lemma chunk_set_bytes A np l b : chunk A np (set_bytes l b) = b ++ repeat 0%Z (pad_of A np (nbytes (spec_of l))).
Proof. reflexivity. Qed.

Theorem splice_encode A np pre l post b :
  Forall wf_leaf pre -> length b = length (l_bytes l) ->
  splice (encode A np (pre ++ l :: post)) (total A np (map spec_of pre)) b
  = encode A np (pre ++ set_bytes l b :: post).
Proof.
  intros Hpre Hb. unfold splice.
  rewrite !encode_app. cbn [encode].
  pose proof (encode_length A np pre Hpre) as Hlen. rewrite <- Hlen.
  rewrite firstn_app, Nat.sub_diag, firstn_all, firstn_O, app_nil_r.
  rewrite skipn_app.
  replace (length (encode A np pre) + length b - length (encode A np pre)) with (length b) by lia.
  rewrite skipn_all2 by lia. cbn [app].
  unfold chunk at 1. rewrite <- app_assoc, skipn_app, Hb, skipn_all, Nat.sub_diag. cbn [skipn app].
  rewrite chunk_set_bytes, <- app_assoc. reflexivity.
Qed.

(* ------------------------------------------------------------------ packed numpy records *)
Theorem struct_fields_partial sizes e : Forall (fun s => s = e) sizes -> 0 < e ->
  forallb (fun s => record_size sizes mod s =? 0) sizes = true.
Proof.
  intros Hall He.
  assert (Hd : Nat.divide e (record_size sizes)).
  { clear He. induction Hall as [|s r Hs _ IH]; [exists 0; reflexivity|].
    cbn. apply Nat.divide_add_r; [subst; apply Nat.divide_refl|exact IH]. }
  apply forallb_forall. intros s Hs. rewrite (proj1 (Forall_forall _ _) Hall s Hs).
  apply Nat.eqb_eq. now apply divide_mod0.
Qed.

Theorem struct_fields_refuted : exists sizes, Forall (fun s => 0 < s) sizes /\
  forallb (fun s => record_size sizes mod s =? 0) sizes = false.
Proof. exists [4; 8]. split; [repeat constructor; lia|reflexivity]. Qed.

(* ------------------------------------------------------------------ the same, for a leaf in the middle of a storage *)
Lemma decode_of_slice A np storage l start :
  wf_leaf l -> flat_size A np (spec_of l) mod l_esz l = 0 ->
  slice storage start (start + flat_size A np (spec_of l)) = chunk A np l ->
  decode_leaf storage (l_dt l) (l_esz l) (l_shape l)
    {| s_start := start; s_stop := start + flat_size A np (spec_of l); s_pad := pad_of A np (nbytes (spec_of l)) |}
  = if start mod l_esz l =? 0 then DOk l else DViewErr.
Proof.
  intros [Hlen He] Hsz Hsl. unfold decode_leaf. cbn [s_start s_stop s_pad]. rewrite Hsl.
  rewrite chunk_length by exact Hlen.
  unfold view_ok. rewrite Hsz. cbn [Nat.eqb andb].
  replace (0 <? l_esz l) with true by (symmetry; apply Nat.ltb_lt; exact He). cbn [andb].
  assert (Hv : (l_esz l =? 1) || (start mod l_esz l =? 0) = (start mod l_esz l =? 0)).
  { destruct (l_esz l =? 1) eqn:E1; [|reflexivity]. apply Nat.eqb_eq in E1. rewrite E1, Nat.mod_1_r. reflexivity. }
  rewrite Hv.
  destruct (start mod l_esz l =? 0); cbn [negb]; [|reflexivity].
  unfold flat_size, nbytes, spec_of in *. cbn [sp_esz sp_shape] in *.
  set (e := l_esz l) in *. set (k := numel (l_shape l)) in *. set (p := pad_of A np (e * k)) in *.
  assert (Hnel : (if p =? 0 then (e * k + p) / e else Nat.min ((e * k + p) / e) k) = k).
  { destruct (p =? 0) eqn:Ep.
    - apply Nat.eqb_eq in Ep. rewrite Ep, Nat.add_0_r, Nat.mul_comm. now apply Nat.div_mul; lia.
    - apply Nat.min_r. now apply div_ge_numel. }
  rewrite Hnel, Nat.eqb_refl. cbn [negb].
  unfold chunk. rewrite firstn_app.
  replace (k * e - length (l_bytes l)) with 0 by lia.
  rewrite firstn_O, app_nil_r, firstn_all2 by lia.
  destruct l; reflexivity.
Qed.

Lemma slice_in_context A np pre l post :
  Forall wf_leaf pre -> length (l_bytes l) = nbytes (spec_of l) ->
  slice (encode A np (pre ++ l :: post)) (total A np (map spec_of pre))
        (total A np (map spec_of pre) + flat_size A np (spec_of l)) = chunk A np l.
Proof.
  intros Hpre Hl. unfold slice. rewrite encode_app. cbn [encode].
  rewrite <- (encode_length A np pre Hpre).
  rewrite skipn_app, Nat.sub_diag, skipn_all. cbn [skipn app].
  replace (length (encode A np pre) + flat_size A np (spec_of l) - length (encode A np pre)) with (length (chunk A np l))
    by (rewrite chunk_length by exact Hl; now rewrite Nat.add_comm, Nat.add_sub).
  now rewrite firstn_app, Nat.sub_diag, firstn_all, firstn_O, app_nil_r.
Qed.

Theorem decode_in_context A np pre l post :
  Forall wf_leaf pre -> wf_leaf l -> flat_size A np (spec_of l) mod l_esz l = 0 ->
  decode_leaf (encode A np (pre ++ l :: post)) (l_dt l) (l_esz l) (l_shape l)
    {| s_start := total A np (map spec_of pre); s_stop := total A np (map spec_of pre) + flat_size A np (spec_of l);
       s_pad := pad_of A np (nbytes (spec_of l)) |}
  = if total A np (map spec_of pre) mod l_esz l =? 0 then DOk l else DViewErr.
Proof.
  intros Hpre Hl Hsz. apply decode_of_slice; [exact Hl|exact Hsz|]. apply slice_in_context; [exact Hpre|apply Hl].
Qed.

(* alignment of a run of leaves laid out from [start] *)
Fixpoint aligned_at (A : nat) (np : bool) (start : nat) (ls : list lspec) : bool :=
  match ls with
  | [] => true
  | l :: r => (start mod sp_esz l =? 0) && aligned_at A np (start + flat_size A np l) r
  end.

Lemma aligned_at_app A np : forall a b start,
  aligned_at A np start (a ++ b) = aligned_at A np start a && aligned_at A np (start + total A np a) b.
Proof.
  induction a as [|x a IH]; intros b start; cbn [app aligned_at].
  - cbn. now rewrite Nat.add_0_r.
  - rewrite IH, total_cons, <- andb_assoc, Nat.add_assoc. reflexivity.
Qed.

Lemma aligned_at_partial A ls : 0 < A -> Forall (fun l => 0 < sp_esz l /\ Nat.divide (sp_esz l) A) ls ->
  forall start, Nat.divide A start -> aligned_at A true start ls = true.
Proof.
  intros HA. induction 1 as [|l r [He Hd] _ IH]; intros start Hs; cbn [aligned_at]; [reflexivity|].
  rewrite IH.
  - rewrite andb_true_r. apply Nat.eqb_eq. apply divide_mod0; [exact He|]. eapply Nat.divide_trans; eassumption.
  - apply Nat.divide_add_r; [exact Hs|]. unfold flat_size. now apply padded_divide.
Qed.
