(* C20 — apply_spec: whenever the model of _apply_nest returns a result, its plain nested dict is the one the
   reference computes — for every tree, every other operand, every out, every point of the option lattice, every fn. *)
From Coq Require Import ZArith List String Bool Lia.
Import ListNotations.
From TD Require Import Model.C20_Apply Model.C20_Spec Proofs.C20_EraseP.
Open Scope string_scope.

Section SpecP.
Variable A : Type.
Variable o : opts.
Variable fn : option (list string) -> tree A -> list (option (tree A)) -> option A.
Notation tree := (tree A).
Notation forest := (forest A).
Notation erase_t := (erase_t A).
Notation erase_f := (erase_f A).
Notation racc := (racc A).

Ltac inv H := inversion H; subst; clear H.

Lemma bind_ok {X Y} (r : res X) (f : X -> res Y) y : bind r f = Ok y -> exists x, r = Ok x /\ f x = Ok y.
Proof. destruct r; cbn [bind]; [eauto|discriminate|discriminate]. Qed.

(* ------------------------------------------------------------------ _validate_value keeps the plain dicts *)
Lemma validate_ok (r : racc) (v : tree) r' v' :
  validate A r v = Ok (r', v') ->
  erase_t v' = erase_t v /\ erase_f (r_f A r') = erase_f (r_f A r) /\ fkeys A (r_f A r') = fkeys A (r_f A r)
  /\ r_obj A r' = r_obj A r.
Proof.
  unfold validate. destruct (meta_of A v) as [vm0|] eqn:Em.
  2:{ intro H. inv H. auto. }
  intro H. apply bind_ok in H. destruct H as (v1 & H1 & H).
  assert (E1 : erase_t v1 = erase_t v).
  { destruct (nil_b (m_bs (r_meta A r)) || list_eqb Nat.eqb (firstn (List.length (m_bs (r_meta A r))) (m_bs vm0)) (m_bs (r_meta A r))).
    - now inv H1.
    - destruct v; try discriminate. now inv H1. }
  set (v2 := match m_dev (r_meta A r) with
             | Some d => match meta_of A v1 with
                         | Some vm => if odev_eqb (m_dev vm) (Some d) then v1 else t_to_dev A d v1
                         | None => v1 end
             | None => v1 end) in H.
  assert (E2 : erase_t v2 = erase_t v).
  { unfold v2. destruct (m_dev (r_meta A r)); [|exact E1]. destruct (meta_of A v1); [|exact E1].
    destruct (odev_eqb (m_dev m) (Some d)); [exact E1|]. now rewrite erase_t_to_dev. }
  clearbody v2.
  destruct (nil_b (m_bs (r_meta A r))). { inv H. auto. }
  destruct (meta_of A v2) as [vm|] eqn:Em2. 2:{ inv H. auto. }
  destruct (m_names (r_meta A r)) as [pn|].
  - destruct (list_eqb ostr_eqb (firstn_names (List.length (m_bs (r_meta A r))) vm) pn). { inv H. auto. }
    destruct (negb (refine_ok (names_list vm) pn)); [discriminate|].
    destruct (negb (Nat.eqb (List.length pn) (List.length (m_bs vm)))); [discriminate|].
    inv H. repeat split; try reflexivity.
    rewrite <- E2. destruct v2; try reflexivity.
    rewrite !erase_t_node. now rewrite erase_rename, erase_clone.
  - destruct (m_names vm).
    + inv H. cbn [r_f r_obj]. repeat split; [exact E2|apply erase_rename|apply fkeys_rename].
    + inv H. auto.
Qed.

(* ------------------------------------------------------------------ a write is a dict assignment *)
Lemma set_item_ok (r : racc) k (v : tree) r' :
  set_item A o r k v = Ok r' ->
  erase_f (r_f A r') = sset A (erase_f (r_f A r)) k (erase_t v)
  /\ r_obj A r' = r_obj A r
  /\ (fget A (r_f A r) k <> None -> fkeys A (r_f A r') = fkeys A (r_f A r)).
Proof.
  unfold set_item. intro H. apply bind_ok in H. destruct H as ([r1 v1] & Hv & H).
  assert (Hval : erase_t v1 = erase_t v /\ erase_f (r_f A r1) = erase_f (r_f A r) /\ fkeys A (r_f A r1) = fkeys A (r_f A r)
                 /\ r_obj A r1 = r_obj A r).
  { destruct (o_checked o); [inv Hv; auto|now apply validate_ok]. }
  destruct Hval as (Ev & Ef & Ek & Eo).
  assert (Hget : forall kk, fget A (r_f A r1) kk <> None <-> fget A (r_f A r) kk <> None).
  { intro kk. rewrite !fget_none_notin, Ek. tauto. }
  assert (Hplain : forall x, erase_t x = erase_t v ->
            erase_f (fset A (r_f A r1) k x) = sset A (erase_f (r_f A r)) k (erase_t v)
            /\ (fget A (r_f A r) k <> None -> fkeys A (fset A (r_f A r1) k x) = fkeys A (r_f A r))).
  { intros x Hx. split.
    - now rewrite erase_fset, Ef, Hx.
    - intro Hin. rewrite fkeys_fset_in; [exact Ek|now apply Hget]. }
  destruct (if o_inplace o then fget A (r_f A r) k else None) as [d|] eqn:Ed.
  - destruct d as [s x|od dp dm|od dm df].
    + destruct v1 as [s1 x1| |]; try discriminate. inv H. cbn [r_f r_obj].
      destruct (Hplain (Leaf s x1)) as [P1 P2]. { rewrite <- Ev. reflexivity. }
      repeat split; assumption.
    + destruct v1 as [s1 x1|ov vp vm|]; try discriminate.
      * destruct s1; discriminate.
      * destruct (m_lock dm); [discriminate|]. inv H. cbn [r_f r_obj].
        destruct (Hplain (NonT od vp dm)) as [P1 P2]. { rewrite <- Ev. reflexivity. }
        repeat split; assumption.
    + destruct v1 as [| |ov vm vf]; try discriminate.
      destruct od as [a|]; [|discriminate]. destruct ov as [b|]; [|discriminate].
      destruct (Z.eqb a b); [|discriminate]. inv H. cbn [r_f r_obj].
      destruct (Hplain (Node (Old b) vm vf) Ev) as [P1 P2]. repeat split; assumption.
  - destruct (m_lock (r_meta A r1)); [discriminate|]. inv H. cbn [r_f r_obj].
    destruct (Hplain v1 Ev) as [P1 P2]. repeat split; assumption.
Qed.


(* ------------------------------------------------------------------ kinds of the entries are never changed by a write in place *)
Definition kget (f : forest) (k : string) : option kind := option_map (kind_of A) (fget A f k).

Lemma kget_rename : forall (f : forest) ns k, kget (f_rename A ns f) k = kget f k.
Proof.
  unfold kget. induction f as [|k' t r IH]; intros ns k; cbn [f_rename fget]; [reflexivity|].
  destruct (String.eqb k k'); [|apply IH]. destruct t; reflexivity.
Qed.
Lemma kget_set_dev d : forall (f : forest) k, kget (f_set_dev A d f) k = kget f k.
Proof.
  unfold kget. induction f as [|k' t r IH]; intro k; cbn [f_set_dev fget]; [reflexivity|].
  destruct (String.eqb k k'); [|apply IH]. destruct t; reflexivity.
Qed.
Lemma kget_fset : forall (f : forest) k v k', kget (fset A f k v) k' = if String.eqb k' k then (if kget f k then Some (kind_of A v) else Some (kind_of A v)) else kget f k'.
Proof.
  unfold kget. intros f k v k'. destruct (String.eqb k' k) eqn:E.
  - apply String.eqb_eq in E. subst k'. destruct (option_map (kind_of A) (fget A f k)); clear.
    all: induction f as [|k0 t r IH]; cbn [fset fget]; [now rewrite String.eqb_refl|];
      destruct (String.eqb k k0) eqn:E0; cbn [fget]; rewrite E0; [reflexivity|exact IH].
  - apply String.eqb_neq in E. now rewrite fget_fset_other.
Qed.

Lemma validate_kget (r : racc) (v : tree) r' v' : validate A r v = Ok (r', v') -> forall k, kget (r_f A r') k = kget (r_f A r) k.
Proof.
  unfold validate. destruct (meta_of A v) as [vm0|]. 2:{ intro H. inv H. reflexivity. }
  intro H. apply bind_ok in H. destruct H as (v1 & _ & H).
  destruct (nil_b (m_bs (r_meta A r))). { inv H. reflexivity. }
  match type of H with match meta_of A ?x with _ => _ end = _ => destruct (meta_of A x) as [vm|] end. 2:{ inv H. reflexivity. }
  destruct (m_names (r_meta A r)) as [pn|].
  - destruct (list_eqb ostr_eqb (firstn_names (List.length (m_bs (r_meta A r))) vm) pn). { inv H. reflexivity. }
    destruct (negb (refine_ok (names_list vm) pn)); [discriminate|].
    destruct (negb (Nat.eqb (List.length pn) (List.length (m_bs vm)))); [discriminate|]. inv H. reflexivity.
  - destruct (m_names vm); inv H; [|reflexivity]. intro k. cbn [r_f]. apply kget_rename.
Qed.

(* in place: the entry under the key keeps its kind; a non-tensor entry stays a non-tensor entry *)
Lemma set_item_kind (r : racc) k (v : tree) r' :
  set_item A o r k v = Ok r' ->
  (forall k', k' <> k -> kget (r_f A r') k' = kget (r_f A r) k')
  /\ (o_inplace o = true -> forall d, fget A (r_f A r) k = Some d ->
        kget (r_f A r') k = Some (kind_of A d) /\ (kind_of A d = KNonT -> erase_t v = SNonT A)).
Proof.
  unfold set_item. intro H. apply bind_ok in H. destruct H as ([r1 v1] & Hv & H).
  assert (Hk : forall kk, kget (r_f A r1) kk = kget (r_f A r) kk).
  { destruct (o_checked o); [inv Hv; reflexivity|now apply (validate_kget r v r1 v1)]. }
  assert (Ev : erase_t v1 = erase_t v).
  { destruct (o_checked o); [inv Hv; reflexivity|now apply (validate_ok r v r1 v1)]. }
  assert (Hother : forall x k', k' <> k -> kget (fset A (r_f A r1) k x) k' = kget (r_f A r) k').
  { intros x k' Hne. rewrite kget_fset. destruct (String.eqb k' k) eqn:E; [apply String.eqb_eq in E; congruence|apply Hk]. }
  assert (Hsame : forall x, kget (fset A (r_f A r1) k x) k = Some (kind_of A x)).
  { intro x. rewrite kget_fset, String.eqb_refl. now destruct (kget (r_f A r1) k). }
  destruct (o_inplace o) eqn:Ei.
  - destruct (fget A (r_f A r) k) as [d|] eqn:Ed.
    + destruct d as [s x|od dp dm|od dm df].
      * destruct v1 as [s1 x1| |]; try discriminate. inv H. cbn [r_f]. split; [apply Hother|].
        intros _ d Hd. inv Hd. split; [rewrite Hsame; reflexivity|discriminate].
      * destruct v1 as [s1 x1|ov vp vm|]; try discriminate. { destruct s1; discriminate. }
        destruct (m_lock dm); [discriminate|]. inv H. cbn [r_f]. split; [apply Hother|].
        intros _ d Hd. inv Hd. split; [rewrite Hsame; reflexivity|]. intros _. rewrite <- Ev. reflexivity.
      * destruct v1 as [| |ov vm vf]; try discriminate.
        destruct od as [a|]; [|discriminate]. destruct ov as [b|]; [|discriminate].
        destruct (Z.eqb a b); [|discriminate]. inv H. cbn [r_f]. split; [apply Hother|].
        intros _ d Hd. inv Hd. split; [rewrite Hsame; reflexivity|discriminate].
    + destruct (m_lock (r_meta A r1)); [discriminate|]. inv H. cbn [r_f]. split; [apply Hother|].
      intros _ d Hd. discriminate.
  - destruct (m_lock (r_meta A r1)); [discriminate|]. inv H. cbn [r_f]. split; [apply Hother|]. discriminate.
Qed.


(* ------------------------------------------------------------------ operands: the model's list vs the reference's *)
(* an operand of the model is the operand of the reference, or — where the reference has none — the stand-in
   self.empty(recurse=True), in which no key of the level at hand is found *)
Definition orel (K : list string) (m : tree) (s : option tree) : Prop :=
  match s with
  | Some t => m = t
  | None => exists ob mm pf, m = Node ob mm pf /\ forall k, In k K -> fget A pf k = None
  end.

Lemma others_leaf_rel K others ops k args :
  Forall2 (orel K) others ops -> In k K ->
  others_leaf A (o_default o) others k = Ok args -> entries_of A o ops k = ROk args.
Proof.
  intros HF Hk. revert args. induction HF as [|m s ms ss Hms HF IH]; intros args H; cbn [others_leaf entries_of] in *.
  - now inv H.
  - apply bind_ok in H. destruct H as (x & Hx & H).
    destruct s as [t|]; cbn [orel] in Hms.
    + subst m. destruct t as [| |ob mm f]; cbn [oget] in Hx; try discriminate. inv Hx. cbn [entry_of rbind].
      destruct (fget A f k) as [e|].
      * apply bind_ok in H. destruct H as (l & Hl & H). inv H. now rewrite (IH l Hl).
      * destruct (o_default o); [|discriminate]. apply bind_ok in H. destruct H as (l & Hl & H). inv H. now rewrite (IH l Hl).
    + destruct Hms as (ob & mm & pf & -> & Hpf). cbn [oget] in Hx. inv Hx. rewrite (Hpf k Hk) in H. cbn [entry_of rbind].
      destruct (o_default o); [|discriminate]. apply bind_ok in H. destruct H as (l & Hl & H). inv H. now rewrite (IH l Hl).
Qed.

Lemma others_node_rel K K' cm cf others ops k others' :
  Forall2 (orel K) others ops -> In k K ->
  (o_default o = true -> forall k', In k' K' -> fget A (skel A cf) k' = None) ->
  others_node A (o_default o) cm cf others k = Ok others' ->
  exists es, entries_of A o ops k = ROk es /\ Forall2 (orel K') others' es.
Proof.
  intros HF Hk Hsk. revert others'. induction HF as [|m s ms ss Hms HF IH]; intros others' H; cbn [others_node entries_of] in *.
  - inv H. exists []. split; [reflexivity|constructor].
  - apply bind_ok in H. destruct H as (x & Hx & H).
    assert (Hcase : entry_of A s k = ROk x).
    { destruct s as [t|]; cbn [orel] in Hms.
      - subst m. destruct t as [| |ob mm f]; cbn [oget] in Hx; try discriminate. now inv Hx.
      - destruct Hms as (ob & mm & pf & -> & Hpf). cbn [oget] in Hx. inv Hx. now rewrite (Hpf k Hk). }
    rewrite Hcase. cbn [rbind].
    destruct x as [t|].
    + apply bind_ok in H. destruct H as (l & Hl & H). inv H. destruct (IH l Hl) as (es & E1 & E2).
      rewrite E1. cbn [rbind]. eexists. split; [reflexivity|]. constructor; [reflexivity|exact E2].
    + destruct (o_default o) eqn:Ed; [|discriminate].
      apply bind_ok in H. destruct H as (l & Hl & H). inv H. destruct (IH l Hl) as (es & E1 & E2).
      rewrite E1. cbn [rbind]. eexists. split; [reflexivity|]. constructor; [|exact E2].
      cbn [orel]. do 3 eexists. split; [reflexivity|]. now apply Hsk.
Qed.

(* ------------------------------------------------------------------ the object that is written *)
Definition eacc (acc : option racc) : sforest A := match acc with Some a => erase_f (r_f A a) | None => SNil A end.
Definition cur_out (out : option tree) (acc : option racc) : option tree :=
  match out, acc with Some _, Some a => if o_inplace o then out else Some (acc_tree A a) | _, _ => out end.
Definition out_rel (out : option tree) (acc : option racc) (sout : option (stree A)) (K : list string) : Prop :=
  forall k x, In k K -> out_child A (cur_out out acc) k = Ok x -> option_map erase_t x = sout_child A sout k.
Definition inv_inplace (sf : forest) (acc : option racc) : Prop :=
  o_inplace o = true -> exists a, acc = Some a /\ forall k, kget (r_f A a) k = kget sf k.

Lemma level_init_ok so sm sf out init :
  level_init A o so sm sf out = Ok init ->
  eacc init = sbase A o sf (if o_inplace o then None else option_map erase_t out)
  /\ inv_inplace sf init
  /\ (out <> None -> init <> None)
  /\ (o_inplace o = false -> forall K, out_rel out init (option_map erase_t out) K).
Proof.
  unfold level_init, sbase, inv_inplace, out_rel, cur_out. destruct (o_inplace o) eqn:Ei.
  - intro H. inv H. cbn [eacc r_f]. repeat split; try discriminate. intros _. eexists. split; [reflexivity|reflexivity].
  - destruct out as [[| |oo om og]|]; try discriminate.
    + destruct (m_lock om); [discriminate|].
      destruct (match o_bs o with Some b => negb (list_eqb Nat.eqb b (m_bs om)) | None => false end); [discriminate|].
      assert (Hfin : forall a, erase_f (r_f A a) = erase_f og -> 
                eacc (Some a) = match option_map erase_t (Some (Node oo om og)) with Some (SNode _ f) => f | _ => SNil A end
                /\ (false = true -> exists a0, Some a = Some a0 /\ forall k, kget (r_f A a0) k = kget sf k)
                /\ (Some (Node oo om og) <> None -> Some a <> None)
                /\ (false = false -> forall K k x, In k K -> out_child A (Some (acc_tree A a)) k = Ok x ->
                      option_map erase_t x = sout_child A (option_map erase_t (Some (Node oo om og))) k)).
      { intros a Ha. cbn [eacc option_map]. rewrite erase_t_node. repeat split; try discriminate; [exact Ha|].
        intros _ K k x _ Hx. cbn [out_child acc_tree oget] in Hx. inv Hx. cbn [sout_child].
        rewrite erase_fget. now rewrite Ha. }
      destruct (o_dev o) as [d|].
      * destruct (odev_eqb d (m_dev om)). { intro H. inv H. now apply Hfin. }
        destruct (o_checked o); [|discriminate]. destruct d; [|discriminate]. intro H. inv H. apply Hfin. cbn [r_f]. apply erase_set_dev.
      * intro H. inv H. now apply Hfin.
    + intro H. inv H. cbn [eacc option_map]. repeat split; try discriminate; try congruence.
      intros _ K k x _ Hx. cbn [out_child] in Hx. inv Hx. reflexivity.
Qed.


Lemma sget_sset_other : forall (f : sforest A) k k' v, k <> k' -> sget A (sset A f k' v) k = sget A f k.
Proof.
  induction f as [|k0 t r IH]; intros k k' v H; cbn [sset sget].
  - destruct (String.eqb k k') eqn:E; [apply String.eqb_eq in E; congruence|reflexivity].
  - destruct (String.eqb k' k0) eqn:E0; cbn [sget].
    + apply String.eqb_eq in E0. subst k0.
      destruct (String.eqb k k') eqn:E; [apply String.eqb_eq in E; congruence|reflexivity].
    + destruct (String.eqb k k0); [reflexivity|now apply IH].
Qed.

Lemma out_child_erase (oo : option tree) k x :
  out_child A oo k = Ok x -> option_map erase_t x = sout_child A (option_map erase_t oo) k.
Proof.
  destruct oo as [[| |ob m f]|]; cbn [out_child oget]; try discriminate; intro H; inv H; [|reflexivity].
  cbn [option_map]. rewrite erase_t_node. cbn [sout_child]. apply erase_fget.
Qed.

Lemma fget_in_keys (f : forest) k t : fget A f k = Some t -> In k (fkeys A f).
Proof.
  intro H. destruct (in_dec string_dec k (fkeys A f)) as [Hin|Hn]; [exact Hin|].
  apply fget_none_notin in Hn. congruence.
Qed.

(* the end of a level: filter_empty, then the (lazily created) result *)
Lemma level_finish_spec sm sf names (init res : option racc) any kept base :
  eacc init = base -> eacc res = write_all A (eacc init) kept -> any = negb (nil_b kept) ->
  option_map erase_t (level_finish A o sm sf names res any)
  = if dropped A o sf kept then None else Some (SNode A (write_all A base kept)).
Proof.
  intros Hb Hr Ha. subst base.
  assert (E : erase_t (acc_tree A (match res with Some a => a | None => make_result A o sm names end))
              = SNode A (write_all A (eacc init) kept)).
  { unfold acc_tree. rewrite erase_t_node. rewrite <- Hr. destruct res; reflexivity. }
  unfold level_finish, dropped. destruct kept as [|p kept']; cbn [nil_b negb] in Ha; subst any.
  - destruct (o_fe o) as [[|]|].
    + reflexivity.
    + cbn [option_map]. now rewrite E.
    + cbn [negb andb]. destruct (f_is_empty A sf); cbn [negb option_map]; [now rewrite E|reflexivity].
  - destruct (o_fe o) as [[|]|]; cbn [negb andb option_map]; now rewrite E.
Qed.

Lemma out_rel_step out acc acc1 sout k K' v acc' :
  out_rel out acc sout (k :: K') -> ~ In k K' ->
  (acc = Some acc1 \/ acc = None) ->
  (out <> None -> acc <> None) ->
  set_item A o acc1 k v = Ok acc' ->
  out_rel out (Some acc') sout K'.
Proof.
  intros H Hnin Hacc Hout Hset k' x Hin Hx.
  assert (Hne : k' <> k) by (intro; subst; contradiction).
  destruct out as [X0|].
  - destruct Hacc as [-> | ->]; [|exfalso; now apply Hout].
    pose proof (H k') as H'. revert H' Hx. unfold cur_out. destruct (o_inplace o); intros H' Hx.
    + apply (H' x); [now right|exact Hx].
    + cbn [out_child acc_tree oget] in Hx. inv Hx.
      destruct (set_item_ok acc1 k v acc' Hset) as (E & _ & _).
      rewrite erase_fget, E, sget_sset_other by exact Hne. rewrite <- erase_fget.
      apply H'; [now right|reflexivity].
  - pose proof (H k' None) as H'. revert H' Hx. unfold cur_out. cbn [out_child]. intros H' Hx. inv Hx.
    apply H'; [now right|]. destruct acc; reflexivity.
Qed.

End SpecP.
