(* C20 — apply_spec: whenever the model of _apply_nest returns a result, its plain nested dict is the one the
   reference computes — for every tree, every other operand, every out, every point of the option lattice, every fn. *)
From Coq Require Import ZArith List String Bool Lia.
Import ListNotations.
From TD Require Import Model.C20_Apply Model.C20_Spec Proofs.C20_EraseP.
Open Scope string_scope.

Section SpecP.
Variable A : Type.
Variable o : opts.
Variable fn : option (list string) -> tree A -> list (option (tree A)) -> option A.
Notation tree := (tree A).
Notation forest := (forest A).
Notation erase_t := (erase_t A).
Notation erase_f := (erase_f A).
Notation racc := (racc A).

Ltac inv H := inversion H; subst; clear H.

Lemma bind_ok {X Y} (r : res X) (f : X -> res Y) y : bind r f = Ok y -> exists x, r = Ok x /\ f x = Ok y.
Proof. destruct r; cbn [bind]; [eauto|discriminate|discriminate]. Qed.

(* ------------------------------------------------------------------ _validate_value keeps the plain dicts *)
Lemma validate_ok (r : racc) (v : tree) r' v' :
  validate A r v = Ok (r', v') ->
  erase_t v' = erase_t v /\ erase_f (r_f A r') = erase_f (r_f A r) /\ fkeys A (r_f A r') = fkeys A (r_f A r)
  /\ r_obj A r' = r_obj A r.
Proof.
  unfold validate. destruct (meta_of A v) as [vm0|] eqn:Em.
  2:{ intro H. inv H. auto. }
  intro H. apply bind_ok in H. destruct H as (v1 & H1 & H).
  assert (E1 : erase_t v1 = erase_t v).
  { destruct (nil_b (m_bs (r_meta A r)) || list_eqb Nat.eqb (firstn (List.length (m_bs (r_meta A r))) (m_bs vm0)) (m_bs (r_meta A r))).
    - now inv H1.
    - destruct v; try discriminate. now inv H1. }
  set (v2 := match m_dev (r_meta A r) with
             | Some d => match meta_of A v1 with
                         | Some vm => if odev_eqb (m_dev vm) (Some d) then v1 else t_to_dev A d v1
                         | None => v1 end
             | None => v1 end) in H.
  assert (E2 : erase_t v2 = erase_t v).
  { unfold v2. destruct (m_dev (r_meta A r)); [|exact E1]. destruct (meta_of A v1); [|exact E1].
    destruct (odev_eqb (m_dev m) (Some d)); [exact E1|]. now rewrite erase_t_to_dev. }
  clearbody v2.
  destruct (nil_b (m_bs (r_meta A r))). { inv H. auto. }
  destruct (meta_of A v2) as [vm|] eqn:Em2. 2:{ inv H. auto. }
  destruct (m_names (r_meta A r)) as [pn|].
  - destruct (list_eqb ostr_eqb (firstn_names (List.length (m_bs (r_meta A r))) vm) pn). { inv H. auto. }
    destruct (negb (refine_ok (names_list vm) pn)); [discriminate|].
    destruct (negb (Nat.eqb (List.length pn) (List.length (m_bs vm)))); [discriminate|].
    inv H. repeat split; try reflexivity.
    rewrite <- E2. destruct v2; try reflexivity.
    rewrite !erase_t_node. now rewrite erase_rename, erase_clone.
  - destruct (m_names vm).
    + inv H. cbn [r_f r_obj]. repeat split; [exact E2|apply erase_rename|apply fkeys_rename].
    + inv H. auto.
Qed.

(* ------------------------------------------------------------------ a write is a dict assignment *)
Lemma set_item_ok (r : racc) k (v : tree) r' :
  set_item A o r k v = Ok r' ->
  erase_f (r_f A r') = sset A (erase_f (r_f A r)) k (erase_t v)
  /\ r_obj A r' = r_obj A r
  /\ (fget A (r_f A r) k <> None -> fkeys A (r_f A r') = fkeys A (r_f A r)).
Proof.
  unfold set_item. intro H. apply bind_ok in H. destruct H as ([r1 v1] & Hv & H).
  assert (Hval : erase_t v1 = erase_t v /\ erase_f (r_f A r1) = erase_f (r_f A r) /\ fkeys A (r_f A r1) = fkeys A (r_f A r)
                 /\ r_obj A r1 = r_obj A r).
  { destruct (o_checked o); [inv Hv; auto|now apply validate_ok]. }
  destruct Hval as (Ev & Ef & Ek & Eo).
  assert (Hget : forall kk, fget A (r_f A r1) kk <> None <-> fget A (r_f A r) kk <> None).
  { intro kk. rewrite !fget_none_notin, Ek. tauto. }
  assert (Hplain : forall x, erase_t x = erase_t v ->
            erase_f (fset A (r_f A r1) k x) = sset A (erase_f (r_f A r)) k (erase_t v)
            /\ (fget A (r_f A r) k <> None -> fkeys A (fset A (r_f A r1) k x) = fkeys A (r_f A r))).
  { intros x Hx. split.
    - now rewrite erase_fset, Ef, Hx.
    - intro Hin. rewrite fkeys_fset_in; [exact Ek|now apply Hget]. }
  destruct (if o_inplace o then fget A (r_f A r) k else None) as [d|] eqn:Ed.
  - destruct d as [s x|od dp dm|od dm df].
    + destruct v1 as [s1 x1| |]; try discriminate. inv H. cbn [r_f r_obj].
      destruct (Hplain (Leaf s x1)) as [P1 P2]. { rewrite <- Ev. reflexivity. }
      repeat split; assumption.
    + destruct v1 as [s1 x1|ov vp vm|]; try discriminate.
      * destruct s1; discriminate.
      * assert (Hr : r' = mkAcc A (r_obj A r1) (r_meta A r1) (fset A (r_f A r1) k (NonT od vp dm))).
        { destruct (match ov, od with New, _ => true | Old b, Old a => Z.eqb a b | _, _ => false end); [now inv H|].
          destruct (m_lock dm); [discriminate|now inv H]. }
        subst r'. cbn [r_f r_obj].
        destruct (Hplain (NonT od vp dm)) as [P1 P2]. { rewrite <- Ev. reflexivity. }
        repeat split; assumption.
    + destruct v1 as [| |ov vm vf]; try discriminate.
      destruct od as [a|]; [|discriminate]. destruct ov as [b|]; [|discriminate].
      destruct (Z.eqb a b); [|discriminate]. inv H. cbn [r_f r_obj].
      destruct (Hplain (Node (Old b) vm vf) Ev) as [P1 P2]. repeat split; assumption.
  - destruct (m_lock (r_meta A r1)); [discriminate|]. inv H. cbn [r_f r_obj].
    destruct (Hplain v1 Ev) as [P1 P2]. repeat split; assumption.
Qed.


(* ------------------------------------------------------------------ operands: the model's list vs the reference's *)
(* an operand of the model is the operand of the reference, or — where the reference has none — the empty stand-in
   item.empty(), in which no key is found *)
Definition orel (m : tree) (s : option tree) : Prop :=
  match s with
  | Some t => m = t
  | None => exists ob mm, m = Node ob mm FNil
  end.

Lemma others_leaf_rel others ops k args :
  Forall2 orel others ops ->
  others_leaf A (o_default o) others k = Ok args -> entries_of A o ops k = ROk args.
Proof.
  intros HF. revert args. induction HF as [|m s ms ss Hms HF IH]; intros args H; cbn [others_leaf entries_of] in *.
  - now inv H.
  - apply bind_ok in H. destruct H as (x & Hx & H).
    destruct s as [t|]; cbn [orel] in Hms.
    + subst m. destruct t as [| |ob mm f]; cbn [oget] in Hx; try discriminate. inv Hx. cbn [entry_of rbind].
      destruct (fget A f k) as [e|].
      * apply bind_ok in H. destruct H as (l & Hl & H). inv H. now rewrite (IH l Hl).
      * destruct (o_default o); [|discriminate]. apply bind_ok in H. destruct H as (l & Hl & H). inv H. now rewrite (IH l Hl).
    + destruct Hms as (ob & mm & ->). cbn [oget fget] in Hx. inv Hx. cbn [entry_of rbind].
      destruct (o_default o); [|discriminate]. apply bind_ok in H. destruct H as (l & Hl & H). inv H. now rewrite (IH l Hl).
Qed.

Lemma others_node_rel sub others ops k others' :
  Forall2 orel others ops ->
  others_node A (o_default o) sub others k = Ok others' ->
  exists es, entries_of A o ops k = ROk es /\ (orel sub None -> Forall2 orel others' es).
Proof.
  intros HF. revert others'. induction HF as [|m s ms ss Hms HF IH]; intros others' H; cbn [others_node entries_of] in *.
  - inv H. exists []. split; [reflexivity|constructor].
  - apply bind_ok in H. destruct H as (x & Hx & H).
    assert (Hcase : entry_of A s k = ROk x).
    { destruct s as [t|]; cbn [orel] in Hms.
      - subst m. destruct t as [| |ob mm f]; cbn [oget] in Hx; try discriminate. now inv Hx.
      - destruct Hms as (ob & mm & ->). cbn [oget fget] in Hx. now inv Hx. }
    rewrite Hcase. cbn [rbind].
    destruct x as [t|].
    + apply bind_ok in H. destruct H as (l & Hl & H). inv H. destruct (IH l Hl) as (es & E1 & E2).
      rewrite E1. cbn [rbind]. eexists. split; [reflexivity|]. intro Hs. constructor; [reflexivity|now apply E2].
    + destruct (o_default o) eqn:Ed; [|discriminate].
      apply bind_ok in H. destruct H as (l & Hl & H). inv H. destruct (IH l Hl) as (es & E1 & E2).
      rewrite E1. cbn [rbind]. eexists. split; [reflexivity|]. intro Hs. constructor; [exact Hs|now apply E2].
Qed.

(* ------------------------------------------------------------------ the object that is written *)
Definition eacc (acc : option racc) : sforest A := match acc with Some a => erase_f (r_f A a) | None => SNil A end.
Definition cur_out (out : option tree) (acc : option racc) : option tree :=
  match out, acc with Some _, Some a => if o_inplace o then out else Some (acc_tree A a) | _, _ => out end.
Definition out_rel (out : option tree) (acc : option racc) (sout : option (stree A)) (K : list string) : Prop :=
  forall k x, In k K -> out_child A (cur_out out acc) k = Ok x -> option_map erase_t x = sout_child A sout k.

Lemma level_init_ok so sm sf out init :
  level_init A o so sm sf out = Ok init ->
  eacc init = sbase A o sf (if o_inplace o then None else option_map erase_t out)
  /\ (out <> None -> init <> None)
  /\ (o_inplace o = false -> forall K, out_rel out init (option_map erase_t out) K).
Proof.
  unfold level_init, sbase, out_rel, cur_out. destruct (o_inplace o) eqn:Ei.
  - intro H. inv H. cbn [eacc r_f]. repeat split; try discriminate.
  - destruct out as [[| |oo om og]|]; try discriminate.
    + destruct (m_lock om); [discriminate|].
      destruct (match o_bs o with Some b => negb (list_eqb Nat.eqb b (m_bs om)) | None => false end); [discriminate|].
      assert (Hfin : forall a, erase_f (r_f A a) = erase_f og ->
                eacc (Some a) = match option_map erase_t (Some (Node oo om og)) with Some (SNode _ f) => f | _ => SNil A end
                /\ (Some (Node oo om og) <> None -> Some a <> None)
                /\ (false = false -> forall K k x, In k K -> out_child A (Some (acc_tree A a)) k = Ok x ->
                      option_map erase_t x = sout_child A (option_map erase_t (Some (Node oo om og))) k)).
      { intros a Ha. cbn [eacc option_map]. rewrite erase_t_node. repeat split; try discriminate; [exact Ha|].
        intros _ K k x _ Hx. cbn [out_child acc_tree oget] in Hx. inv Hx. cbn [sout_child].
        rewrite erase_fget. now rewrite Ha. }
      destruct (o_dev o) as [d|].
      * destruct (odev_eqb d (m_dev om)). { intro H. inv H. now apply Hfin. }
        destruct (o_checked o); [|discriminate]. destruct d; [|discriminate]. intro H. inv H. apply Hfin. cbn [r_f]. apply erase_set_dev.
      * intro H. inv H. now apply Hfin.
    + intro H. inv H. cbn [eacc option_map]. repeat split; try discriminate; try congruence.
      intros _ K k x _ Hx. cbn [out_child] in Hx. inv Hx. reflexivity.
Qed.

Lemma sget_sset_other : forall (f : sforest A) k k' v, k <> k' -> sget A (sset A f k' v) k = sget A f k.
Proof.
  induction f as [|k0 t r IH]; intros k k' v H; cbn [sset sget].
  - destruct (String.eqb k k') eqn:E; [apply String.eqb_eq in E; congruence|reflexivity].
  - destruct (String.eqb k' k0) eqn:E0; cbn [sget].
    + apply String.eqb_eq in E0. subst k0.
      destruct (String.eqb k k') eqn:E; [apply String.eqb_eq in E; congruence|reflexivity].
    + destruct (String.eqb k k0); [reflexivity|now apply IH].
Qed.

Lemma out_child_erase (oo : option tree) k x :
  out_child A oo k = Ok x -> option_map erase_t x = sout_child A (option_map erase_t oo) k.
Proof.
  destruct oo as [[| |ob m f]|]; cbn [out_child oget]; try discriminate; intro H; inv H; [|reflexivity].
  cbn [option_map]. rewrite erase_t_node. cbn [sout_child]. apply erase_fget.
Qed.

(* the end of a level: filter_empty, then the (lazily created) result *)
Lemma level_finish_spec sm sf names (init res : option racc) any kept base :
  eacc init = base -> eacc res = write_all A (eacc init) kept -> any = negb (nil_b kept) ->
  option_map erase_t (level_finish A o sm sf names res any)
  = if dropped A o sf kept then None else Some (SNode A (write_all A base kept)).
Proof.
  intros Hb Hr Ha. subst base.
  assert (E : erase_t (acc_tree A (match res with Some a => a | None => make_result A o sm names end))
              = SNode A (write_all A (eacc init) kept)).
  { unfold acc_tree. rewrite erase_t_node. rewrite <- Hr. destruct res; reflexivity. }
  unfold level_finish, dropped. destruct kept as [|p kept']; cbn [nil_b negb] in Ha; subst any.
  - destruct (o_fe o) as [[|]|].
    + reflexivity.
    + cbn [option_map]. now rewrite E.
    + cbn [negb andb]. destruct (f_is_empty A sf); cbn [negb option_map]; [now rewrite E|reflexivity].
  - destruct (o_fe o) as [[|]|]; cbn [negb andb option_map]; now rewrite E.
Qed.

Lemma out_rel_step out acc acc1 sout k K' v acc' :
  out_rel out acc sout (k :: K') -> ~ In k K' ->
  (acc = Some acc1 \/ acc = None) ->
  (out <> None -> acc <> None) ->
  set_item A o acc1 k v = Ok acc' ->
  out_rel out (Some acc') sout K'.
Proof.
  intros H Hnin Hacc Hout Hset k' x Hin Hx.
  assert (Hne : k' <> k) by (intro; subst; contradiction).
  destruct out as [X0|].
  - destruct Hacc as [-> | ->]; [|exfalso; now apply Hout].
    pose proof (H k') as H'. revert H' Hx. unfold cur_out. destruct (o_inplace o); intros H' Hx.
    + apply (H' x); [now right|exact Hx].
    + cbn [out_child acc_tree oget] in Hx. inv Hx.
      destruct (set_item_ok acc1 k v acc' Hset) as (E & _ & _).
      rewrite erase_fget, E, sget_sset_other by exact Hne. rewrite <- erase_fget.
      apply H'; [now right|reflexivity].
  - pose proof (H k' None) as H'. revert H' Hx. unfold cur_out. cbn [out_child]. intros H' Hx. inv Hx.
    apply H'; [now right|]. destruct acc; reflexivity.
Qed.

(* ------------------------------------------------------------------ the loop over the items of one level *)
Definition P_items (items : forest) : Prop :=
  forall con prefix sm sf others ops out sout names acc any res any',
    nodup_str (fkeys A items) = true -> wf_sub A items = true ->
    Forall2 orel others ops ->
    out_rel out acc sout (fkeys A items) ->
    (out <> None -> acc <> None) ->
    apply_items A o fn con prefix sm sf others out names items acc any = Ok (res, any') ->
    exists kept,
      ref_items A o fn con prefix ops sout items = ROk kept
      /\ eacc res = write_all A (eacc acc) kept
      /\ any' = (any || negb (nil_b kept))
      /\ (acc <> None -> res <> None).

Lemma P_nil : P_items FNil.
Proof.
  intros con prefix sm sf others ops out sout names acc any res any' _ _ _ _ _ H.
  cbn [apply_items] in H. inv H. exists []. cbn [ref_items write_all nil_b negb]. rewrite orb_false_r. auto.
Qed.

Lemma P_cons k item rest :
  match item with Node _ _ g => P_items g | _ => True end -> P_items rest -> P_items (FCons k item rest).
Proof.
  intros IHt IHr con prefix sm sf others ops out sout names acc any res any' Hnd Hwf HF Hout Hoa H.
  cbn [fkeys nodup_str] in Hnd. apply andb_true_iff in Hnd. destruct Hnd as [Hnk Hnd]. apply negb_true_iff in Hnk.
  assert (Hnin : ~ In k (fkeys A rest)). { intro Hi. apply (mem_str_in) in Hi. congruence. }
  assert (Hout' : out_rel out acc sout (fkeys A rest)).
  { intros k' x Hk'. apply Hout. now right. }
  cbn [wf_sub] in Hwf. apply andb_true_iff in Hwf. destruct Hwf as [Hwfi Hwfr].
  set (acc1 := match acc with Some a => a | None => make_result A o sm names end).
  assert (Hacc1 : acc = Some acc1 \/ acc = None). { unfold acc1. destruct acc; auto. }
  assert (Eacc1 : eacc (Some acc1) = eacc acc). { unfold acc1. destruct acc; reflexivity. }
  (* the continuation, once the contribution of the item is known *)
  assert (Hcont : forall (t : option tree) (rs : option (stree A)),
            option_map erase_t t = rs ->
            (match t with
             | Some v => bind (set_item A o acc1 k v) (fun acc' =>
                         apply_items A o fn con prefix sm sf others out names rest (Some acc') true)
             | None => apply_items A o fn con prefix sm sf others out names rest acc any
             end) = Ok (res, any') ->
            exists kept,
              rbind (ROk rs) (fun v => rbind (ref_items A o fn con prefix ops sout rest) (fun kept =>
                 ROk (match v with Some x => (k, x) :: kept | None => kept end))) = ROk kept
              /\ eacc res = write_all A (eacc acc) kept
              /\ any' = (any || negb (nil_b kept))
              /\ (acc <> None -> res <> None)).
  { intros t rs Hc Hrun. cbn [rbind]. subst rs. destruct t as [v|]; cbn [option_map].
    - apply bind_ok in Hrun. destruct Hrun as (acc' & Hset & Hrun).
      destruct (set_item_ok acc1 k v acc' Hset) as (E & _ & _).
      assert (Hout2 : out_rel out (Some acc') sout (fkeys A rest)).
      { apply (out_rel_step out acc acc1 sout k (fkeys A rest) v acc'); assumption. }
      assert (Hoa2 : out <> None -> Some acc' <> None) by discriminate.
      destruct (IHr con prefix sm sf others ops out sout names (Some acc') true res any' Hnd Hwfr HF Hout2 Hoa2 Hrun)
        as (kept & R1 & R2 & R3 & R5).
      rewrite R1. cbn [rbind]. eexists. split; [reflexivity|]. cbn [write_all nil_b negb].
      rewrite R2. cbn [eacc]. rewrite E. change (erase_f (r_f A acc1)) with (eacc (Some acc1)). rewrite Eacc1.
      repeat split.
      + rewrite orb_true_r. exact R3.
      + intros _. apply R5. discriminate.
    - destruct (IHr con prefix sm sf others ops out sout names acc any res any' Hnd Hwfr HF Hout' Hoa Hrun)
        as (kept & R1 & R2 & R3 & R5).
      rewrite R1. cbn [rbind]. eexists. split; [reflexivity|]. auto. }
  cbn [apply_items] in H. cbn [ref_items].
  apply bind_ok in H. destruct H as (t & Htr & Hrun).
  destruct (negb con && negb (o_is_leaf o (kind_of A item))) eqn:Edisp.
  - (* nested dispatch *)
    apply andb_true_iff in Edisp. destruct Edisp as [Ec El]. apply negb_true_iff in Ec, El. rewrite Ec, El. cbn [orb].
    apply bind_ok in Htr. destruct Htr as (others' & Hon & Htr).
    apply bind_ok in Htr. destruct Htr as (out_k & Hok & Htr).
    assert (Hok' : option_map erase_t out_k = sout_child A sout k).
    { apply (Hout k out_k); [now left|]. exact Hok. }
    destruct (others_node_rel (stand_in A item) others ops k others' HF Hon) as (es & Ees & HF').
    rewrite Ees. cbn [rbind].
    destruct item as [s v|io d im|io im g].
    + discriminate.
    + (* a non-tensor entry *)
      inv Htr.
      pose proof (Hcont (Some (nont_apply A o d im out_k)) (Some (SNonT A)) eq_refl Hrun) as HC. cbn [rbind] in HC. exact HC.
    + (* a nested tensordict *)
      cbn [wf_sub] in Hwfi. apply andb_true_iff in Hwfi. destruct Hwfi as [Hndg Hwfg].
      assert (HFg : Forall2 orel others' es). { apply HF'. cbn [stand_in orel]. eauto. }
      apply bind_ok in Htr. destruct Htr as (init & Hinit & Htr).
      apply bind_ok in Htr. destruct Htr as ([resn anyn] & Hnest & Htr). cbn [fst snd] in Htr. inv Htr.
      destruct (level_init_ok io im g out_k init Hinit) as (Ebase & Hoan & Houtn).
      assert (Houtrel : out_rel out_k init (sout_child A sout k) (fkeys A g)).
      { destruct (o_inplace o) eqn:Ei.
        - intros k' x _ Hx. rewrite <- Hok'. apply out_child_erase.
          unfold cur_out in Hx. rewrite Ei in Hx. destruct out_k; [destruct init|]; exact Hx.
        - rewrite <- Hok'. now apply Houtn. }
      destruct (IHt false (prefix ++ [k])%list im g others' es out_k (sout_child A sout k) None init false resn anyn)
        as (keptn & N1 & N2 & N3 & _); try assumption.
      rewrite N1. cbn [rbind].
      pose proof (level_finish_spec im g None init resn anyn keptn _ Ebase N2 N3) as Hfin.
      rewrite Hok' in Hfin.
      pose proof (Hcont _ _ Hfin Hrun) as HC. cbn [rbind] in HC. exact HC.
  - (* fn is called on the item *)
    assert (Ecl : con || o_is_leaf o (kind_of A item) = true).
    { destruct con; [reflexivity|]. cbn [negb andb] in Edisp. apply negb_false_iff in Edisp. exact Edisp. }
    rewrite Ecl.
    apply bind_ok in Htr. destruct Htr as (args & Hol & Htr). inv Htr.
    rewrite (others_leaf_rel others ops k args HF Hol). cbn [rbind].
    assert (Hrel : option_map erase_t (option_map (fun a => Leaf New (VNew a)) (fn (keyarg o prefix k) item args))
                   = option_map (fun a => SLeaf A (SNew A a)) (fn (keyarg o prefix k) item args)).
    { destruct (fn (keyarg o prefix k) item args); reflexivity. }
    pose proof (Hcont _ _ Hrel Hrun) as HC. cbn [rbind] in HC. exact HC.
Qed.

Theorem items_spec : forall items, P_items items.
Proof.
  apply (forest_mind A (fun t => match t with Node _ _ g => P_items g | _ => True end) P_items).
  - intros; exact I.
  - intros; exact I.
  - intros _ _ f IH. exact IH.
  - exact P_nil.
  - intros k t IHt r IHr. now apply P_cons.
Qed.

Lemma orel_refl (l : list tree) : Forall2 orel l (map Some l).
Proof. induction l; cbn [map]; constructor; [reflexivity|assumption]. Qed.

(* apply_spec: for every tree that is a dict (no key twice), every list of other operands, every out=, every point of
   the option lattice and every function: if the call returns, it returns what the reference says (None included). *)
Theorem apply_spec : forall con propagate so sm sf others out names r,
  wf_keys A sf = true ->
  front A o fn con propagate (Node so sm sf) others out names = Ok r ->
  ref_apply A o fn con (Node so sm sf) others out = ROk (option_map erase_t r).
Proof.
  intros con propagate so sm sf others out names r Hwf H.
  unfold wf_keys in Hwf. apply andb_true_iff in Hwf. destruct Hwf as [Hnd Hwf].
  cbn [front] in H. apply bind_ok in H. destruct H as (r0 & Hnest & H).
  unfold apply_nest in Hnest. apply bind_ok in Hnest. destruct Hnest as (init & Hinit & Hnest).
  apply bind_ok in Hnest. destruct Hnest as ([res any'] & Hitems & Hfin). cbn [fst snd] in Hfin.
  destruct (level_init_ok so sm sf out init Hinit) as (Ebase & Hoa & Hout).
  assert (Houtrel : out_rel out init (option_map erase_t out) (fkeys A sf)).
  { destruct (o_inplace o) eqn:Ei.
    - intros k x _ Hx. apply out_child_erase. unfold cur_out in Hx. rewrite Ei in Hx. destruct out; [destruct init|]; exact Hx.
    - now apply Hout. }
  destruct (items_spec sf con [] sm sf others (map Some others) out (option_map erase_t out) names init false res any')
    as (kept & R1 & R2 & R3 & _); try assumption.
  - apply orel_refl.
  - cbn [ref_apply]. rewrite R1. cbn [rbind]. cbn [orb] in R3.
    pose proof (level_finish_spec sm sf names init res any' kept _ Ebase R2 R3) as Hf.
    injection Hfin as Hfin. injection H as H. subst r r0.
    assert (E : forall x : option tree, option_map erase_t (option_map (t_lock A) x) = option_map erase_t x).
    { intros [x|]; cbn [option_map]; [now rewrite erase_t_lock|reflexivity]. }
    destruct (propagate && negb (o_inplace o) && m_lock sm); [rewrite E|]; now rewrite Hf.
Qed.

End SpecP.
