(* C05 — calls routed through a lazy stack to its members: invariant, locked_frozen, refusal at the stack / by the first member. *)
From Coq Require Import List String Bool Arith PeanoNat Lia.
Import ListNotations.
From TD Require Import Model.C05_Heap Model.C05_Lock Model.C05_LazyCall Spec.C05_LockSpec
  Proofs.C05_HeapP Proofs.C05_LockP Proofs.C05_InvP Proofs.C05_StepP Proofs.C05_FrozenP.

Set Default Timeout 120.

(* what every routed call guarantees between the state before and any state it reaches (also when it raises half way) *)
Definition okrel (s s' : st) : Prop :=
  (Inv s -> Inv s') /\ locked_kept (hp s) (hp s') /\ (forall x, live s' x = true -> live s x = true).

Lemma okrel_refl : forall s, okrel s s.
Proof. intros s. split; [auto|]. split; [apply locked_kept_refl|auto]. Qed.

Lemma okrel_trans : forall a b c, okrel a b -> okrel b c -> okrel a c.
Proof.
  intros a b c (A1 & K1 & L1) (A2 & K2 & L2). split; [auto|]. split; [eapply locked_kept_trans; eassumption|auto].
Qed.

Lemma member_op_guarded : forall c m, ~ unguarded (member_op c m) /\ (forall n, member_op c m <> OUnlock n).
Proof. intros c m. destruct c; cbn; split; try tauto; intros; discriminate. Qed.

Lemma step_okrel : forall fuel s c m s' out, step fuel s (member_op c m) = Some (s', out) -> okrel s s'.
Proof.
  intros fuel s c m s' out H. destruct (member_op_guarded c m) as [NU NUn].
  destruct (step_locked_kept _ _ _ _ _ H NU NUn) as [K L].
  split; [intros HI; eapply step_inv; eassumption|]. split; assumption.
Qed.

Lemma each_okrel : forall f, (forall s m s' o, f s m = Some (s', o) -> okrel s s') ->
  forall ms s s' out, each f s ms = Some (s', out) -> okrel s s'.
Proof.
  intros f Hf. induction ms as [|m ms IH]; intros s s' out H; cbn [each] in H.
  - inversion H. subst. apply okrel_refl.
  - destruct (f s m) as [[s1 o]|] eqn:E; [|discriminate]. pose proof (Hf _ _ _ _ E) as R1.
    destruct o as [|e|]; cbn [each] in H.
    + eapply okrel_trans; [exact R1|eapply IH; exact H].
    + inversion H. subst. exact R1.
    + inversion H. subst. exact R1.
Qed.

Lemma del_each_okrel : forall f, (forall s m s' o, f s m = Some (s', o) -> okrel s s') ->
  forall ms s seen d s' out, del_each f s ms seen d = Some (s', out) -> okrel s s'.
Proof.
  intros f Hf. induction ms as [|m ms IH]; intros s seen d s' out H; cbn [del_each] in H.
  - inversion H. subst. apply okrel_refl.
  - destruct (memb m seen); [eapply IH; exact H|].
    destruct (f s m) as [[s1 o]|] eqn:E; [|discriminate]. pose proof (Hf _ _ _ _ E) as R1.
    destruct o as [|e|]; cbn [del_each] in H.
    + eapply okrel_trans; [exact R1|eapply IH; exact H].
    + destruct e; cbn [del_each] in H; try (inversion H; subst; exact R1).
      eapply okrel_trans; [exact R1|eapply IH; exact H].
    + inversion H. subst. exact R1.
Qed.

Lemma lroute_okrel : forall fuel c s n s' out, lroute fuel c s n = Some (s', out) -> okrel s s'.
Proof.
  induction fuel as [|f IH]; intros c s n s' out H; cbn [lroute] in H; [discriminate|].
  destruct (lookup (hp s) n) as [nd|]; [|inversion H; subst; apply okrel_refl].
  destruct (nk nd).
  - eapply step_okrel; exact H.
  - destruct (node_children nd) as [|m0 ms]; [inversion H; subst; apply okrel_refl|].
    match type of H with match ?g with _ => _ end = _ => destruct g as [[|]|] end;
      [inversion H; subst; apply okrel_refl| |discriminate].
    destruct c; cbn [lroute] in H;
      [eapply each_okrel|eapply del_each_okrel|eapply each_okrel|eapply each_okrel|eapply each_okrel|eapply each_okrel];
      try exact H; intros; eapply IH; eassumption.
Qed.

Lemma lstep_okrel : forall fuel s l c s' out, lstep fuel s (LCall l c) = Some (s', out) -> okrel s s'.
Proof.
  intros fuel s l c s' out H. cbn [lstep] in H.
  destruct (is_lazy s l); cbn [negb] in H; [|inversion H; subst; apply okrel_refl].
  eapply lroute_okrel; exact H.
Qed.

(* ---- the lock-graph invariant is kept by every call, routed ones included ---------------------------------------------- *)
Theorem lstep_inv : forall fuel s o s' out, Inv s -> lstep fuel s o = Some (s', out) -> Inv s'.
Proof.
  intros fuel s o s' out HI H. destruct o as [o|l c].
  - cbn [lstep] in H. eapply step_inv; eassumption.
  - destruct (lstep_okrel _ _ _ _ _ _ H) as [A _]. exact (A HI).
Qed.

Theorem lrun_inv : forall ff ops s s' outs, Inv s -> lrun ff s ops = Some (s', outs) -> Inv s'.
Proof.
  intros ff. induction ops as [|o ops IH]; intros s s' outs HI H; cbn in H.
  - inversion H. subst. exact HI.
  - destruct (lstep (ff s) s o) as [[s1 out]|] eqn:St; [|discriminate].
    destruct (lrun ff s1 ops) as [[s2 outs2]|] eqn:R; [|discriminate]. inversion H. subst.
    eapply IH; [|exact R]. eapply lstep_inv; eassumption.
Qed.

Theorem linvariant_reachable : forall ff ops s' outs, lrun ff init ops = Some (s', outs) -> Inv s'.
Proof. intros ff ops s' outs H. eapply lrun_inv; [apply Inv_init|exact H]. Qed.

(* ---- locked_frozen for histories that include the routed calls ----------------------------------------------------------- *)
Theorem lstep_locked_frozen : forall fuel s o s' out r,
  Inv s -> lstep fuel s o = Some (s', out) -> ~ lunguarded o ->
  flag_true (hp s) r = true -> live s r = true ->
  tree_unchanged (hp s) (hp s') r /\
  (tree_locked (hp s') r \/ (exists n, o = LBase (OUnlock n) /\ out = Done /\ flag_true (hp s') r = false)).
Proof.
  intros fuel s o s' out r HI H NU Fr Lr. destruct o as [o|l c].
  - cbn [lstep] in H.
    assert (NU' : ~ unguarded o) by (intro U; apply NU; destruct o; exact U).
    destruct (locked_frozen_step _ _ _ _ _ r HI H NU' Fr Lr) as [TU [TL|(n & E & Hd & Hf)]].
    + split; [exact TU|left; exact TL].
    + split; [exact TU|right; exists n; subst o; auto].
  - destruct (tree_locked_of_root s r HI Fr Lr) as [TL _].
    destruct (lstep_okrel _ _ _ _ _ _ H) as (_ & K & _).
    destruct (kept_tree _ _ r K TL) as (TU & TL' & _). split; [exact TU|left; exact TL'].
Qed.

Fixpoint lstays_locked (ff : st -> nat) (s : st) (ops : list lop) (r : nat) : Prop :=
  match ops with
  | [] => True
  | o :: rest => match lstep (ff s) s o with
                 | None => True
                 | Some (s1, _) => flag_true (hp s1) r = true /\ live s1 r = true /\ lstays_locked ff s1 rest r
                 end
  end.

Theorem lfrozen_run : forall ff ops s s' outs r,
  Inv s -> Forall (fun o => ~ lunguarded o) ops -> lrun ff s ops = Some (s', outs) ->
  flag_true (hp s) r = true -> live s r = true -> lstays_locked ff s ops r ->
  tree_unchanged (hp s) (hp s') r /\ tree_locked (hp s') r.
Proof.
  intros ff. induction ops as [|o ops IH]; intros s s' outs r HI NU H Fr Lr SL; cbn in H.
  - inversion H. subst. split; [intros x _; apply same_struct_refl|]. apply (tree_locked_of_root s' r HI Fr Lr).
  - cbn in SL. destruct (lstep (ff s) s o) as [[s1 out]|] eqn:St; [|discriminate].
    destruct (lrun ff s1 ops) as [[s2 outs2]|] eqn:R; [|discriminate]. inversion H. subst s2 outs. clear H.
    inversion NU as [|? ? N1 N2]. subst. destruct SL as (F1 & L1 & SL1).
    destruct (lstep_locked_frozen _ _ _ _ _ r HI St N1 Fr Lr) as (TU1 & _).
    destruct (IH s1 s' outs2 r (lstep_inv _ _ _ _ _ HI St) N2 R F1 L1 SL1) as [TU2 TL2].
    split; [eapply tree_unchanged_trans; eassumption|exact TL2].
Qed.

(* a routed call never touches a locked node, and a node locked before is locked after -- whatever the outcome (the routed calls
   contain no unlock_): in particular a call that raises half way has changed unlocked members only *)
Theorem routed_call_keeps_locked : forall fuel s l c s' out,
  lstep fuel s (LCall l c) = Some (s', out) ->
  forall x a, flag_true (hp s) x = true -> lookup (hp s) x = Some a ->
    exists b, lookup (hp s') x = Some b /\ nk b = nk a /\ ents b = ents a /\ flg b = FTrue.
Proof.
  intros fuel s l c s' out H x a F La. destruct (lstep_okrel _ _ _ _ _ _ H) as (_ & K & _).
  pose proof (K x F) as Kx. unfold node_kept in Kx. rewrite La in Kx.
  destruct (lookup (hp s') x) as [b|]; [|contradiction]. destruct Kx as (Hk & He & _ & Hf).
  exists b. split; [reflexivity|]. split; [auto|]. split; [auto|]. apply Hf.
  unfold flag_true in F. rewrite La in F. destruct (flg a); cbn in F; congruence.
Qed.

(* ---- refusal ---------------------------------------------------------------------------------------------------------------- *)
(* n is locked all the way down: its tree is flagged (locked through n or through an ancestor), or n is a lazy stack -- whatever its
   own flag says -- whose members all are (each locked on its own: the derived state of the stack) *)
Inductive locked_below (h : heap) : nat -> Prop :=
| LB_tree n : tree_locked h n -> locked_below h n
| LB_members n nd : lookup h n = Some nd -> nk nd = KLazy ->
    (forall c, In c (node_children nd) -> locked_below h c) -> locked_below h n.

Lemma locked_below_inv : forall h n, locked_below h n ->
  tree_locked h n \/ exists nd, lookup h n = Some nd /\ nk nd = KLazy /\ forall c, In c (node_children nd) -> locked_below h c.
Proof. intros h n H. destruct H; [left; assumption|right; eauto]. Qed.

(* the call as it lands on a flagged TensorDict (issued on that member's own handle, or routed to it): refused, nothing changes *)
Lemma member_op_refused : forall fuel s c m s' out, flag_true (hp s) m = true ->
  step fuel s (member_op c m) = Some (s', out) -> s' = s /\ (out = Raised ELock \/ out = Invalid).
Proof.
  intros fuel s c m s' out F H. destruct c; cbn [member_op step] in H.
  all: unfold td_flag in H; rewrite ?F in H; destruct (is_td s m); cbn in H; rewrite ?F in H; cbn in H; inversion H; subst; auto.
Qed.

Theorem locked_stack_refuses : forall fuel c s n s' out,
  locked_below (hp s) n -> lroute fuel c s n = Some (s', out) -> s' = s /\ (out = Raised ELock \/ out = Invalid).
Proof.
  induction fuel as [|f IH]; intros c s n s' out LB H; cbn [lroute] in H; [discriminate|].
  destruct (lookup (hp s) n) as [nd|] eqn:Ln; [|inversion H; subst; auto].
  destruct (nk nd) eqn:Kn.
  - assert (F : flag_true (hp s) n = true).
    { destruct (locked_below_inv _ _ LB) as [TL|(nd' & Ln' & Kn' & _)]; [apply TL; constructor|].
      rewrite Ln in Ln'. inversion Ln'. subst nd'. congruence. }
    eapply member_op_refused; eassumption.
  - destruct (node_children nd) as [|m0 ms] eqn:Cn; [inversion H; subst; auto|].
    assert (LB0 : locked_below (hp s) m0).
    { destruct (locked_below_inv _ _ LB) as [TL|(nd' & Ln' & Kn' & Hc)].
      - apply LB_tree. intros x Rx. apply TL. econstructor; [|exact Rx]. unfold child, children. rewrite Ln, Cn. left. reflexivity.
      - rewrite Ln in Ln'. inversion Ln'. subst nd'. apply Hc. rewrite Cn. left. reflexivity. }
    match type of H with match ?g with _ => _ end = _ => destruct g as [[|]|] end; [inversion H; subst; auto| |discriminate].
    destruct c; cbn [each del_each memb existsb] in H.
    all: destruct (lroute f _ s m0) as [[s1 o]|] eqn:E; [|discriminate].
    all: destruct (IH _ _ _ _ _ LB0 E) as [-> [-> | ->]]; cbn in H; inversion H; subst; auto.
Qed.

(* a stack locked through lock_ (its own or an ancestor's) refuses every structural call; nothing changes *)
Theorem flagged_stack_refuses : forall fuel c s l s' out,
  Inv s -> flag_true (hp s) l = true -> live s l = true -> lstep fuel s (LCall l c) = Some (s', out) ->
  s' = s /\ (out = Raised ELock \/ out = Invalid).
Proof.
  intros fuel c s l s' out HI F L H. cbn [lstep] in H.
  destruct (is_lazy s l); cbn [negb] in H; [|inversion H; subst; auto].
  eapply locked_stack_refuses; [|exact H]. apply LB_tree. apply (tree_locked_of_root s l HI F L).
Qed.

(* a stack that was never locked itself but whose members are all locked (derived is_locked) refuses them as well: at the stack
   (del_, exclude, update) or at its first member (set, rename_key_, select) *)
Theorem member_locked_stack_refuses : forall fuel c s l nd s' out,
  Inv s -> lookup (hp s) l = Some nd -> nk nd = KLazy ->
  (forall m, In m (node_children nd) -> flag_true (hp s) m = true /\ live s m = true) ->
  lstep fuel s (LCall l c) = Some (s', out) -> s' = s /\ (out = Raised ELock \/ out = Invalid).
Proof.
  intros fuel c s l nd s' out HI Ll Kl Hm H. cbn [lstep] in H.
  destruct (is_lazy s l); cbn [negb] in H; [|inversion H; subst; auto].
  eapply locked_stack_refuses; [|exact H]. eapply LB_members; [exact Ll|exact Kl|].
  intros m Hin. destruct (Hm m Hin) as [F L]. apply LB_tree. apply (tree_locked_of_root s m HI F L).
Qed.

(* after lock_ on the stack, the same calls issued on a member's own handle are refused by the member's flag *)
Theorem locked_stack_member_handle_refuses : forall fuel s l s' m c fuel2 s2 out,
  Inv s -> exists_live s l = true -> step fuel s (OLock l) = Some (s', Done) -> child (hp s') l m ->
  step fuel2 s' (member_op c m) = Some (s2, out) -> s2 = s' /\ (out = Raised ELock \/ out = Invalid).
Proof.
  intros fuel s l s' m c fuel2 s2 out HI E Hl Hc H.
  destruct (lock_covers_tree _ _ _ _ HI E Hl) as [TL _].
  eapply member_op_refused; [|exact H]. apply TL. econstructor; [exact Hc|constructor].
Qed.

(* ---- witnesses ---------------------------------------------------------------------------------------------------------------- *)
Open Scope string_scope.
Definition lstate_after (s : st) (ops : list lop) : st := match lrun auto_fuel s ops with Some (s', _) => s' | None => s end.

(* stack 2 = [0, 1], member 1 locked on its own: the derived state of the stack is "unlocked", set() reaches member 0, which accepts,
   then member 1, which refuses: the call raises after a partial effect -- on the unlocked member only *)
Definition partial_state : st := lstate_after init [LBase ONewTd; LBase ONewTd; LBase (OLock 1); LBase (ONewLazy [0; 1])].
Lemma partial_effect :
  match lstep 8 partial_state (LCall 2 (LSet "a")) with
  | Some (s', out) => out = Raised ELock /\ option_map ents (lookup (hp s') 0) = Some [("a", RLeaf 3)]
                      /\ option_map ents (lookup (hp s') 1) = Some [] /\ flag_true (hp s') 1 = true
  | None => False
  end.
Proof. vm_compute. repeat split. Qed.

(* the same stack after lock_: refused with nothing changed; and on the member handle *)
Definition locked_stack_state : st :=
  lstate_after init [LBase ONewTd; LBase ONewTd; LBase (OSet 0 "k" VLeaf); LBase (OSet 1 "k" VLeaf); LBase (ONewLazy [0; 1]); LBase (OLock 4)].
Definition witness_calls : list lcall :=
  [LSet "x"; LSet "k"; LDel "k"; LRename "k" "w" false; LSelect ["k"]; LSelect []; LExclude ["k"]; LUpdate "x"].
Lemma locked_stack_witness :
  map (fun c => lstep 9 locked_stack_state (LCall 4 c)) witness_calls = map (fun _ => Some (locked_stack_state, Raised ELock)) witness_calls
  /\ map (fun c => step 9 locked_stack_state (member_op c 0)) witness_calls = map (fun _ => Some (locked_stack_state, Raised ELock)) witness_calls
  /\ flag_true (hp locked_stack_state) 4 = true /\ live locked_stack_state 4 = true /\ child (hp locked_stack_state) 4 0.
Proof. vm_compute. repeat split; auto. Qed.
