(* C04 — shared preliminaries: abstraction of spelled keys, filter_empty_. *)
From Coq Require Import ZArith List String Bool Lia.
Import ListNotations.
From TD Require Import Model.Keys Proofs.KeysP Model.C04_Tree Model.C04_Ops Spec.C04_NestedDict
     Proofs.C04_AssocP Proofs.C04_CoreP.
Open Scope string_scope.
Open Scope list_scope.

(* ---- abstraction of operations: a well-formed spelling denotes its in-order strings ---- *)
Definition kp (k : pykey) : option path := if wfb k then Some (strings k) else None.

Fixpoint traverse {A B} (f : A -> option B) (l : list A) : option (list B) :=
  match l with
  | [] => Some []
  | x :: r => match f x, traverse f r with Some a, Some b => Some (a :: b) | _, _ => None end
  end.


Lemma kp_some k p : kp k = Some p -> wfb k = true /\ strings k = p /\ cpp_unravel_to_tuple k = p /\ p <> [].
Proof.
  unfold kp. destruct (wfb k) eqn:W; [|discriminate]. intros E; injection E as <-.
  destruct (wf_key_tuple k W). auto.
Qed.


(* ---- filter_empty_ ---- *)
Lemma prune_abs : forall v, abs (prune v) = nd_prune (abs v).
Proof.
  induction v as [k z|es IH] using tree_ind2; [destruct k; reflexivity|].
  rewrite abs_Node. cbn [prune nd_prune]. rewrite abs_Node. f_equal.
  induction IH as [|[k w] r Hw Hr IHr]; [reflexivity|]. cbn [absE]. cbn in Hw.
  destruct w as [lk z|sub].
  - cbn [is_nodeb andb]. destruct lk; cbn [abs absE]; f_equal; exact IHr.
  - cbn [is_nodeb andb]. rewrite abs_Node. rewrite <- abs_Node, has_leaf_abs.
    destruct (has_leaf (Node sub)); cbn [negb]; [|exact IHr].
    cbn [absE]. rewrite Hw, abs_Node. f_equal. exact IHr.
Qed.

Lemma filter_empty_abs es : absE (filter_empty es) = nd_filter_empty (absE es).
Proof.
  unfold filter_empty, nd_filter_empty. pose proof (prune_abs (Node es)) as P. rewrite abs_Node in P.
  destruct (prune (Node es)) as [k z|es'] eqn:E; [cbn in E; discriminate|]. rewrite abs_Node in P. rewrite <- P. reflexivity.
Qed.


Lemma prune_keys_incl : forall es x,
  In x (map fst ((fix go (es : ents) : ents :=
           match es with
           | [] => []
           | (k, w) :: r => if is_nodeb w && negb (has_leaf w) then go r else (k, prune w) :: go r
           end) es)) -> In x (map fst es).
Proof.
  induction es as [|[k w] r IH]; intros x; [tauto|]. destruct (is_nodeb w && negb (has_leaf w)); cbn.
  - intros I. right. now apply IH.
  - intros [E|I]; [now left|right; now apply IH].
Qed.

Lemma prune_wf : forall v, wf v -> wf (prune v).
Proof.
  induction v as [k z|es IH] using tree_ind2; intros W; [exact W|].
  inversion W as [|es0 ND F]; subst. cbn [prune]. constructor.
  - clear IH F W. induction es as [|[k w] r IHr]; [constructor|]. inversion ND; subst.
    destruct (is_nodeb w && negb (has_leaf w)); [now apply IHr|]. cbn. constructor; [|now apply IHr].
    intros I. apply prune_keys_incl in I. contradiction.
  - clear ND W. induction IH as [|[k w] r Hw Hr IHr]; [constructor|]. inversion F; subst.
    destruct (is_nodeb w && negb (has_leaf w)); [now apply IHr|]. constructor; [cbn in *; now apply Hw|now apply IHr].
Qed.

Lemma filter_empty_wf es : wfE es -> wfE (filter_empty es).
Proof.
  intros W. unfold filter_empty. pose proof (prune_wf (Node es) W) as P.
  destruct (prune (Node es)) as [k z|es'] eqn:E; [exact W|exact P].
Qed.

