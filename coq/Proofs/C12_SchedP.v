From Coq Require Import ZArith List String Bool Lia Arith Permutation.
Import ListNotations.
From TD Require Import Model.C12_Sched.
Open Scope nat_scope.

Scheme tree_mind := Induction for tree Sort Prop
  with forest_mind := Induction for forest Sort Prop.

(* ------------------------------------------------------------------ the completion log *)
Lemma log_get_run fn tasks : forall pi id,
  log_get (run_tasks fn tasks pi) id =
  match nth_error tasks id with
  | Some t => if existsb (Nat.eqb id) pi then Some (exec fn t) else None
  | None => None
  end.
Proof.
  induction pi as [|j pi IH]; intro id; cbn [run_tasks flat_map existsb].
  - cbn. now destruct (nth_error tasks id).
  - fold (run_tasks fn tasks pi).
    destruct (nth_error tasks j) as [tj|] eqn:Ej; cbn [app log_get].
    + destruct (Nat.eqb j id) eqn:E.
      * apply Nat.eqb_eq in E. subst j. rewrite Ej, Nat.eqb_refl. reflexivity.
      * rewrite IH. rewrite Nat.eqb_sym, E. reflexivity.
    + rewrite IH. destruct (Nat.eqb id j) eqn:E; [|reflexivity].
      apply Nat.eqb_eq in E. subst j. rewrite Ej. reflexivity.
Qed.

Lemma existsb_eqb_in id pi : existsb (Nat.eqb id) pi = true <-> In id pi.
Proof.
  rewrite existsb_exists. split.
  - intros (x & Hin & E). apply Nat.eqb_eq in E. now subst.
  - intro H. exists id. split; [assumption|apply Nat.eqb_refl].
Qed.

(* two completion orders with the same set of completed tasks give the same log contents *)
Lemma log_get_same fn tasks pi1 pi2 :
  (forall id, In id pi1 <-> In id pi2) ->
  forall id, log_get (run_tasks fn tasks pi1) id = log_get (run_tasks fn tasks pi2) id.
Proof.
  intros H id. rewrite !log_get_run. destruct (nth_error tasks id); [|reflexivity].
  destruct (existsb (Nat.eqb id) pi1) eqn:E1, (existsb (Nat.eqb id) pi2) eqn:E2; try reflexivity.
  - apply existsb_eqb_in, H, existsb_eqb_in in E1. congruence.
  - apply existsb_eqb_in, H, existsb_eqb_in in E2. congruence.
Qed.

(* the rebuild looks at the log only through log_get *)
Lemma rebuild_ext o l1 l2 :
  (forall id, log_get l1 id = log_get l2 id) ->
  forall items out lfs st any, rebuild_items o l1 out items lfs st any = rebuild_items o l2 out items lfs st any.
Proof.
  intro H.
  apply (forest_mind
           (fun t => match t with Leaf _ _ => True | Node g => forall out lfs st any, rebuild_items o l1 out g lfs st any = rebuild_items o l2 out g lfs st any end)
           (fun f => forall out lfs st any, rebuild_items o l1 out f lfs st any = rebuild_items o l2 out f lfs st any)).
  - intros; exact I.
  - intros f IH. exact IH.
  - intros out lfs st any. destruct lfs; reflexivity.
  - intros k t IHt rest IHr out lfs st any. cbn [rebuild_items].
    destruct lfs as [|l lrest]; [reflexivity|].
    destruct l as [id|sub].
    + rewrite H. destruct (log_get l2 id) as [[v|]|]; [apply IHr|apply IHr|reflexivity].
    + destruct t as [v|g]; [reflexivity|]. rewrite IHt.
      destruct (rebuild_items o l2 _ g sub _ false) as [[st' a']|]; cbn [rbbind]; [|reflexivity].
      destruct (finish_rebuild o g (fst (st', a')) (snd (st', a'))); apply IHr.
Qed.

Theorem mt_apply_same_completed fn o d con self others out pi1 pi2 :
  (forall id, In id pi1 <-> In id pi2) ->
  mt_apply fn o d con self others out pi1 = mt_apply fn o d con self others out pi2.
Proof.
  intro H. unfold mt_apply.
  destruct (flat_items o d con [] self others self 0) as [[tasks lfs]|e]; [|reflexivity].
  rewrite (rebuild_ext o _ _ (log_get_same fn tasks pi1 pi2 H)). reflexivity.
Qed.

Theorem mt_apply_order_free fn o d con self others out pi1 pi2 :
  Permutation pi1 pi2 ->
  mt_apply fn o d con self others out pi1 = mt_apply fn o d con self others out pi2.
Proof.
  intro P. apply mt_apply_same_completed. intro id. split; apply Permutation_in; [assumption|now apply Permutation_sym].
Qed.

(* ------------------------------------------------------------------ multithreaded = single-threaded, all options *)
Section Fusion.
Variable fn : userfn.
Variable o : opts.

Lemma finish_agree self res any : finish_apply o self res any = finish_rebuild o self (unopt res) any.
Proof. unfold finish_apply, finish_rebuild, unopt. destruct (o_fe o) as [[|]|]; reflexivity. Qed.

Definition log_ok (log : list (nat * option tree)) (base : nat) (tasks : list task) : Prop :=
  forall i t, nth_error tasks i = Some t -> log_get log (base + i) = Some (exec fn t).

Lemma log_ok_app log base t1 t2 : log_ok log base (t1 ++ t2) -> log_ok log base t1 /\ log_ok log (base + List.length t1) t2.
Proof.
  intro H. split; intros i t Hi.
  - apply H. rewrite nth_error_app1; [assumption|]. apply nth_error_Some. congruence.
  - rewrite <- Nat.add_assoc. apply H. rewrite nth_error_app2 by lia. now replace (List.length t1 + i - List.length t1) with i by lia.
Qed.

Definition fusion_at (items : forest) : Prop :=
  forall d con prefix self others out base res any,
  match flat_items o d con prefix self others items base with
  | ARaised e => apply_items fn o d con prefix self others out items res any = ARaised e
  | AOk (tasks, lfs) =>
      forall log, log_ok log base tasks ->
      exists res' any', apply_items fn o d con prefix self others out items res any = AOk (res', any')
                        /\ rebuild_items o log out items lfs (unopt res) any = RbOk (unopt res', any')
  end.

Lemma fusion : forall items, fusion_at items.
Proof.
  apply (forest_mind (fun t => match t with Leaf _ _ => True | Node g => fusion_at g end) fusion_at).
  - intros; exact I.
  - intros f IH; exact IH.
  - intros d con prefix self others out base res any. cbn [flat_items]. intros log _. exists res, any. split; reflexivity.
  - intros k t IHt rest IHr d con prefix self others out base res any.
    cbn [flat_items apply_items].
    (* the task case, shared by leaves and by call_on_nested nodes *)
    assert (Htask :
      match abind (abind (others_leaf d others k) (fun ov => AOk ([{| tk_key := keyarg o prefix k; tk_item := t; tk_others := ov |}], LFut base)))
                  (fun h => abind (flat_items o d con prefix self others rest (base + List.length (fst h)))
                                  (fun r => AOk ((fst h ++ fst r)%list, snd h :: snd r))) with
      | ARaised e =>
          abind (abind (others_leaf d others k) (fun ov => AOk (fn (keyarg o prefix k) t ov)))
                (fun t0 => match t0 with
                           | Some v => apply_items fn o d con prefix self others out rest (set_result o res k v) true
                           | None => apply_items fn o d con prefix self others out rest res any end) = ARaised e
      | AOk (tasks, lfs) =>
          forall log, log_ok log base tasks ->
          exists res' any',
            abind (abind (others_leaf d others k) (fun ov => AOk (fn (keyarg o prefix k) t ov)))
                (fun t0 => match t0 with
                           | Some v => apply_items fn o d con prefix self others out rest (set_result o res k v) true
                           | None => apply_items fn o d con prefix self others out rest res any end) = AOk (res', any')
            /\ rebuild_items o log out (FCons k t rest) lfs (unopt res) any = RbOk (unopt res', any')
      end).
    { destruct (others_leaf d others k) as [ov|e]; cbn [abind fst snd List.length]; [|reflexivity].
      destruct (fn (keyarg o prefix k) t ov) as [v|] eqn:Efn.
      - specialize (IHr d con prefix self others out (base + 1) (set_result o res k v) true).
        destruct (flat_items o d con prefix self others rest (base + 1)) as [[tr lr]|e]; cbn [abind fst snd]; [|exact IHr].
        intros log Hlog. apply (log_ok_app log base [_] tr) in Hlog. destruct Hlog as [H1 H2]. cbn [List.length] in H2.
        destruct (IHr log H2) as (res' & any' & Ha & Hb). exists res', any'. split; [exact Ha|].
        cbn [rebuild_items]. specialize (H1 0 _ eq_refl). rewrite Nat.add_0_r in H1. rewrite H1.
        unfold exec. cbn [tk_key tk_item tk_others]. rewrite Efn. exact Hb.
      - specialize (IHr d con prefix self others out (base + 1) res any).
        destruct (flat_items o d con prefix self others rest (base + 1)) as [[tr lr]|e]; cbn [abind fst snd]; [|exact IHr].
        intros log Hlog. apply (log_ok_app log base [_] tr) in Hlog. destruct Hlog as [H1 H2]. cbn [List.length] in H2.
        destruct (IHr log H2) as (res' & any' & Ha & Hb). exists res', any'. split; [exact Ha|].
        cbn [rebuild_items]. specialize (H1 0 _ eq_refl). rewrite Nat.add_0_r in H1. rewrite H1.
        unfold exec. cbn [tk_key tk_item tk_others]. rewrite Efn. exact Hb. }
    destruct t as [v|g]; [exact Htask|]. destruct con; [exact Htask|]. clear Htask.
    (* a nested tensordict *)
    destruct (others_node d self others k) as [others'|e]; cbn [abind]; [|reflexivity].
    specialize (IHt d false (prefix ++ [k])%list g others' (out_child out k) base
                    (if o_inplace o then Some g else out_child out k) false).
    destruct (flat_items o d false (prefix ++ [k]) g others' g base) as [[tg lg]|e]; cbn [abind fst snd].
    2:{ rewrite IHt. reflexivity. }
    assert (Hinit : unopt (if o_inplace o then Some g else out_child out k) = (if o_inplace o then g else unopt (out_child out k)))
      by (destruct (o_inplace o); reflexivity).
    destruct (flat_items o d false prefix self others rest (base + List.length tg)) as [[tr lr]|e] eqn:Er; cbn [abind fst snd].
    + intros log Hlog. apply log_ok_app in Hlog. destruct Hlog as [H1 H2].
      destruct (IHt log H1) as (rg & ag & Hag & Hbg). rewrite Hag. cbn [abind fst snd].
      cbn [rebuild_items]. rewrite <- Hinit, Hbg. cbn [rbbind fst snd].
      rewrite finish_agree.
      destruct (finish_rebuild o g (unopt rg) ag) as [st'|]; cbn [option_map].
      * specialize (IHr d false prefix self others out (base + List.length tg) (set_result o res k (Node st')) true).
        rewrite Er in IHr. destruct (IHr log H2) as (res' & any' & Ha & Hb). exists res', any'. split; assumption.
      * specialize (IHr d false prefix self others out (base + List.length tg) res any).
        rewrite Er in IHr. destruct (IHr log H2) as (res' & any' & Ha & Hb). exists res', any'. split; assumption.
    + (* the rest raises: the single-threaded form raises the same error, after the nested level *)
      set (log0 := run_tasks fn (repeat {| tk_key := None; tk_item := Leaf 0 0; tk_others := [] |} base ++ tg) (seq 0 (base + List.length tg))).
      assert (H1 : log_ok log0 base tg).
      { intros i t Hi. unfold log0. rewrite log_get_run.
        rewrite nth_error_app2 by (rewrite repeat_length; lia). rewrite repeat_length.
        replace (base + i - base) with i by lia. rewrite Hi.
        assert (In (base + i) (seq 0 (base + List.length tg))).
        { apply in_seq. assert (i < List.length tg) by (apply nth_error_Some; congruence). lia. }
        apply existsb_eqb_in in H. rewrite H. reflexivity. }
      destruct (IHt log0 H1) as (rg & ag & Hag & _). rewrite Hag. cbn [abind fst snd].
      destruct (option_map Node (finish_apply o g rg ag)).
      * specialize (IHr d false prefix self others out (base + List.length tg) (set_result o res k t) true). now rewrite Er in IHr.
      * specialize (IHr d false prefix self others out (base + List.length tg) res any). now rewrite Er in IHr.
Qed.
End Fusion.

(* every task completes: all ids below the number of submitted tasks occur in the completion order *)
Theorem mt_eq_st : forall fn o d con self others out pi,
  (forall tasks lfs, flat_items o d con [] self others self 0 = AOk (tasks, lfs) ->
                     forall id, id < List.length tasks -> In id pi) ->
  mt_apply fn o d con self others out pi = st_apply fn o d con self others out.
Proof.
  intros fn o d con self others out pi Hall. unfold mt_apply, st_apply, apply_level.
  pose proof (fusion fn o self d con [] self others out 0 (if o_inplace o then Some self else out) false) as F.
  destruct (flat_items o d con [] self others self 0) as [[tasks lfs]|e]; cbn [abind].
  2:{ rewrite F. reflexivity. }
  specialize (Hall tasks lfs eq_refl).
  destruct (F (run_tasks fn tasks pi)) as (res' & any' & Ha & Hb).
  { intros i t Hi. cbn [Nat.add]. rewrite log_get_run, Hi.
    assert (Hin : In i pi) by (apply Hall; apply nth_error_Some; congruence).
    apply existsb_eqb_in in Hin. rewrite Hin. reflexivity. }
  rewrite Ha. cbn [abind fst snd].
  assert (Hinit : unopt (if o_inplace o then Some self else out) = (if o_inplace o then self else unopt out)) by (destruct (o_inplace o); reflexivity).
  rewrite <- Hinit, Hb. cbn [fst snd]. now rewrite finish_agree.
Qed.

(* number of tasks submitted by the flat phase *)
Lemma flat_length o : forall items d con prefix self others base tasks lfs,
  flat_items o d con prefix self others items base = AOk (tasks, lfs) -> List.length tasks = ntasks con items.
Proof.
  apply (forest_mind
           (fun t => match t with Leaf _ _ => True | Node g =>
              forall d con prefix self others base tasks lfs,
                flat_items o d con prefix self others g base = AOk (tasks, lfs) -> List.length tasks = ntasks con g end)
           (fun items => forall d con prefix self others base tasks lfs,
                flat_items o d con prefix self others items base = AOk (tasks, lfs) -> List.length tasks = ntasks con items)).
  - intros; exact I.
  - intros f IH; exact IH.
  - intros d con prefix self others base tasks lfs H. cbn in H. injection H as <- <-. reflexivity.
  - intros k t IHt rest IHr d con prefix self others base tasks lfs. cbn [flat_items ntasks].
    assert (Htask : forall X,
      abind (abind (others_leaf d others k) (fun ov => AOk ([X ov], LFut base)))
            (fun h => abind (flat_items o d con prefix self others rest (base + List.length (fst h)))
                            (fun r => AOk ((fst h ++ fst r)%list, snd h :: snd r))) = AOk (tasks, lfs) ->
      List.length tasks = 1 + ntasks con rest).
    { intros X. destruct (others_leaf d others k); cbn [abind fst snd]; [|discriminate].
      destruct (flat_items o d con prefix self others rest _) as [[tr lr]|] eqn:E; cbn [abind fst snd]; [|discriminate].
      intro H. injection H as <- <-. cbn [app List.length]. rewrite (IHr _ _ _ _ _ _ _ _ E). reflexivity. }
    destruct t as [v|g]; [apply Htask|]. destruct con; [apply Htask|]. clear Htask.
    destruct (others_node d self others k); cbn [abind]; [|discriminate].
    destruct (flat_items o d false _ g _ g base) as [[tg lg]|] eqn:Eg; cbn [abind fst snd]; [|discriminate].
    destruct (flat_items o d false prefix self others rest _) as [[tr lr]|] eqn:E; cbn [abind fst snd]; [|discriminate].
    intro H. injection H as <- <-. rewrite app_length, (IHt _ _ _ _ _ _ _ _ Eg), (IHr _ _ _ _ _ _ _ _ E). reflexivity.
Qed.

Theorem mt_eq_st_all_complete : forall fn o d con self others out pi,
  (forall id, id < ntasks con self -> In id pi) ->
  mt_apply fn o d con self others out pi = st_apply fn o d con self others out.
Proof.
  intros fn o d con self others out pi Hall. apply mt_eq_st.
  intros tasks lfs Hf id Hid. apply Hall. now rewrite <- (flat_length _ _ _ _ _ _ _ _ _ _ Hf).
Qed.

Open Scope string_scope.
Definition inc_fn : userfn := fun _ item _ => match item with Leaf _ v => Some (Leaf 0 (v + 1)%Z) | Node _ => None end.
Definition none_fn : userfn := fun _ _ _ => None.
Definition ex_self : forest := FCons "a" (Leaf 1 1) (FCons "n" (Node (FCons "c" (Leaf 2 2) FNil)) FNil).
Definition ex_opts (fe : option bool) : opts := {| o_named := false; o_nested_keys := false; o_inplace := false; o_fe := fe |}.

Lemma path_eqb_eq a b : path_eqb a b = true <-> a = b.
Proof. unfold path_eqb. destruct (list_eq_dec string_dec a b); split; congruence. Qed.
Lemma path_eqb_refl a : path_eqb a a = true.
Proof. now apply path_eqb_eq. Qed.

(* ------------------------------------------------------------------ memmap writers *)
Lemma aget_aset d p v q : aget (aset d p v) q = if path_eqb q p then Some v else aget d q.
Proof.
  induction d as [|[r w] d IH]; cbn [aset aget].
  - reflexivity.
  - destruct (path_eqb p r) eqn:E; cbn [aget].
    + apply path_eqb_eq in E. subst r. destruct (path_eqb q p); reflexivity.
    + rewrite IH. destruct (path_eqb q r) eqn:E2; [|reflexivity].
      apply path_eqb_eq in E2. subst r. destruct (path_eqb q p) eqn:E3; [|reflexivity].
      apply path_eqb_eq in E3. subst q. rewrite path_eqb_refl in E. discriminate.
Qed.

Lemma aget_run_notin : forall ops d q, ~ In q (map fst ops) -> aget (run_writes ops d) q = aget d q.
Proof.
  induction ops as [|[p v] ops IH]; intros d q Hn; [reflexivity|].
  cbn [run_writes fold_left fst snd]. fold (run_writes ops (aset d p v)).
  rewrite IH by (intro H; apply Hn; now right). rewrite aget_aset.
  destruct (path_eqb q p) eqn:E; [|reflexivity]. apply path_eqb_eq in E. subst. exfalso. apply Hn. now left.
Qed.

Lemma aget_run_in : forall ops d q v, NoDup (map fst ops) -> In (q, v) ops -> aget (run_writes ops d) q = Some v.
Proof.
  induction ops as [|[p w] ops IH]; intros d q v Hnd Hin; [contradiction|].
  cbn [map fst] in Hnd. inversion Hnd as [|? ? Hnotin Hnd']; subst.
  cbn [run_writes fold_left fst snd]. fold (run_writes ops (aset d p w)).
  destruct Hin as [Heq|Hin].
  - injection Heq as -> ->. rewrite aget_run_notin by assumption. rewrite aget_aset, path_eqb_refl. reflexivity.
  - apply IH; assumption.
Qed.

(* every completion order of the writer tasks leaves the same value under every key *)
Theorem writers_order_free : forall ops1 ops2 d0,
  Permutation ops1 ops2 -> NoDup (map fst ops1) ->
  forall q, aget (run_writes ops1 d0) q = aget (run_writes ops2 d0) q.
Proof.
  intros ops1 ops2 d0 P Hnd q.
  assert (Hnd2 : NoDup (map fst ops2)) by (eapply Permutation_NoDup; [apply Permutation_map; exact P|exact Hnd]).
  destruct (in_dec (list_eq_dec string_dec) q (map fst ops1)) as [Hin|Hnin].
  - apply in_map_iff in Hin. destruct Hin as ([q' v] & Hq & Hin). cbn in Hq. subst q'.
    rewrite (aget_run_in ops1 d0 q v Hnd Hin).
    rewrite (aget_run_in ops2 d0 q v Hnd2 (Permutation_in _ P Hin)). reflexivity.
  - rewrite aget_run_notin by assumption. rewrite aget_run_notin; [reflexivity|].
    intro H. apply Hnin. eapply Permutation_in; [apply Permutation_sym, Permutation_map; exact P|exact H].
Qed.

(* in place (memmap_): the keys exist already, so their order is the single-threaded one too *)
Lemma keys_aset_in d p v : In p (map fst d) -> map fst (aset d p v) = map fst d.
Proof.
  induction d as [|[r w] d IH]; cbn [aset map fst In]; [contradiction|].
  intros [->|Hin].
  - now rewrite path_eqb_refl.
  - destruct (path_eqb p r); cbn [map fst]; [reflexivity|]. now rewrite IH.
Qed.

Theorem writers_inplace_key_order : forall ops d0,
  (forall p, In p (map fst ops) -> In p (map fst d0)) -> map fst (run_writes ops d0) = map fst d0.
Proof.
  induction ops as [|[p v] ops IH]; intros d0 H; [reflexivity|].
  cbn [run_writes fold_left fst snd]. fold (run_writes ops (aset d0 p v)).
  rewrite IH.
  - apply keys_aset_in. apply H. now left.
  - intros q Hq. rewrite keys_aset_in by (apply H; now left). apply H. now right.
Qed.

(* out of place (memmap / memmap_like): the destination starts empty and the KEY ORDER follows the completion order *)
Theorem writers_fresh_key_order_refuted :
  exists ops1 ops2, Permutation ops1 ops2 /\ NoDup (map fst ops1) /\
                    map fst (run_writes ops1 []) <> map fst (run_writes ops2 []).
Proof.
  exists [(["a"], 1%Z); (["b"], 2%Z)], [(["b"], 2%Z); (["a"], 1%Z)]. split; [apply perm_swap|]. split.
  - repeat constructor; cbn; intuition congruence.
  - vm_compute. discriminate.
Qed.
