(* C13 — the variants of to_module beyond the plain swap: inplace=True (every slot keeps its object), swap_dest=
   (the outgoing values land in the destination under the same keys), programs mixing plain / swap_dest / in-place
   blocks. *)
From Coq Require Import ZArith List String Bool Lia.
Import ListNotations.
From TD Require Import Model.C13_Swap Model.C13_Scope Proofs.C13_SwapP.
Open Scope string_scope.
Open Scope list_scope.

(* ------------------------------------------------------------------ inplace=True: every slot keeps its object *)
Definition inpl (cfg : tmcfg) : Prop := c_usd cfg = false /\ c_inplace cfg = Some true.

Lemma sloteq_wf n n' : sloteq n n' -> wf_node n' -> wf_node n.
Proof. intros (A & B & C) H k. rewrite A, C. apply H. Qed.

Lemma all_sloteq_wf st1 st : all_sloteq st1 st -> wf_heap (t_heap st) -> wf_heap (t_heap st1).
Proof.
  intros H Hw c n Hn. specialize (H c). unfold hg in H. rewrite Hn in H.
  destruct (h_get (t_heap st) c) as [n'|] eqn:E; cbn in H; [|tauto]. eapply sloteq_wf; eauto.
Qed.

Lemma all_sloteq_trans a b c : all_sloteq a b -> all_sloteq b c -> all_sloteq a c.
Proof. intros H1 H2 x. eapply osloteq_trans; [apply H1|apply H2]. Qed.

Lemma copy_into_heap st a b : t_heap (copy_into st a b) = t_heap st.
Proof. unfold copy_into. destruct (val_of st b); reflexivity. Qed.

Lemma std_heap_same f1 f2 n k x ip st :
  let '(n', out, st') := set_tensor_dict_gen f1 f2 n k x ip st in t_heap st' = t_heap st.
Proof.
  unfold set_tensor_dict_gen, fresh_clone, save_clone. cbv zeta.
  repeat (match goal with
          | |- context [match d_get ?d ?k with _ => _ end] => destruct (d_get d k)
          | |- context [match z_get ?d ?k with _ => _ end] => destruct (z_get d k)
          | |- context [match val_of ?a ?b with _ => _ end] => destruct (val_of a b)
          | |- context [match ?o with Some _ => _ | None => _ end] => is_var o; destruct o
          | |- context [if ?b then _ else _] => is_var b; destruct b
          | |- context [if is_param ?o then _ else _] => destruct (is_param o)
          end; cbn [andb fst snd]); rewrite ?copy_into_heap; try reflexivity.
Qed.

Lemma leaf_step_inplace cfg m k x st st' out :
  inpl cfg -> wf_heap (t_heap st) -> leaf_step cfg m k x st = (st', inl out) -> all_sloteq st' st.
Proof.
  intros (Husd & Hinp) Hwf Hl. unfold leaf_step in Hl. rewrite Hinp, Husd in Hl.
  destruct (h_get (t_heap st) m) as [node|] eqn:En; [|discriminate].
  destruct (m_custom node) eqn:Ecu; [discriminate|].
  pose proof (std_slot_inplace node k x st) as Hs.
  destruct (set_tensor_dict node k x true st) as [[node' o] st2] eqn:Es.
  destruct o as [o|]; [|discriminate]. inversion Hl; subst st' out. clear Hl.
  pose proof (Hwf m node En k) as Hk. unfold wfc in Hk. rewrite Ecu in Hk.
  destruct (Hs Hk ltac:(discriminate)) as (S1 & S2 & S3 & S4).
  intros c. unfold hg. cbn [st_heap t_heap]. destruct (Z.eq_dec c m) as [->|Hne].
  - rewrite h_get_set_same, En. cbn. repeat split; auto. intros k'. destruct (string_dec k' k) as [->|Hk']; auto.
  - rewrite h_get_set_other by exact Hne.
    assert (Hh : t_heap st2 = t_heap st).
    { pose proof (std_heap_same fixed_D131 fixed_D134 node k x true st) as HH. unfold set_tensor_dict in Es. rewrite Es in HH. exact HH. }
    rewrite Hh. apply osloteq_refl.
Qed.

Definition I_stmt (t : ptd) : Prop :=
  forall cfg, inpl cfg -> forall m st memo st1 memo1 sw,
    to_mod cfg t m st memo = TmOk st1 memo1 sw -> wf_heap (t_heap st) -> all_sloteq st1 st.

Lemma IL : forall l,
  Forall (fun e : string * pent => match snd e with PSub t => I_stmt t | PLeaf _ => True end) l ->
  forall cfg, inpl cfg -> forall m cu subs st memo acc st1 memo1 acc1,
    tm_go (to_mod cfg) cfg m cu subs true l st memo acc = (st1, memo1, acc1, None) ->
    wf_heap (t_heap st) -> all_sloteq st1 st.
Proof.
  induction l as [|e r IH]; [|destruct e as [k pe]; destruct pe as [o|t']; [destruct o as [x|]|]];
    intros HF cfg Hi m cu subs st memo acc st1 memo1 acc1 Hgo Hwf; pose proof Hi as (Husd & Hinp).
  - rewrite tm_go_nil in Hgo. inversion Hgo; subst. apply all_sloteq_refl.
  - rewrite tm_go_leaf, Husd in Hgo. cbn [andb] in Hgo.
    destruct (leaf_step cfg m k x st) as [st' [out|e]] eqn:El; [|discriminate].
    pose proof (leaf_step_inplace cfg m k x st st' out Hi Hwf El) as H1.
    eapply all_sloteq_trans; [|exact H1].
    eapply (IH (Forall_inv_tail HF) cfg Hi); [exact Hgo|]. eapply all_sloteq_wf; eauto.
  - rewrite tm_go_none, Husd in Hgo. destruct cu; [discriminate|]. destruct (d_mem subs k); discriminate.
  - rewrite tm_go_sub, Husd in Hgo. cbn [andb] in Hgo.
    destruct (d_get subs k) as [[child|]|]; try discriminate.
    destruct (z_get memo child) as [swc|].
    + eapply (IH (Forall_inv_tail HF) cfg Hi); eauto.
    + destruct (to_mod cfg t' child st memo) as [st' memo' s|] eqn:Et; [|discriminate].
      pose proof (Forall_inv HF) as HS. cbn in HS.
      pose proof (HS cfg Hi child st memo st' memo' s Et Hwf) as H1.
      eapply all_sloteq_trans; [|exact H1].
      eapply (IH (Forall_inv_tail HF) cfg Hi); [exact Hgo|]. eapply all_sloteq_wf; eauto.
Qed.

Theorem I_all : forall t, I_stmt t.
Proof.
  induction t as [ents HF] using ptd_ind2.
  intros cfg Hi m st memo st1 memo1 sw Htm Hwf. pose proof Hi as (Husd & Hinp).
  cbn [to_mod] in Htm. destruct (h_get (t_heap st) m) as [n0|]; [|discriminate].
  rewrite Husd in Htm. cbn [andb] in Htm.
  match type of Htm with context [tm_go ?a ?b ?c ?d ?e ?f ?g ?h ?i ?j] =>
    destruct (tm_go a b c d e f g h i j) as [[[st2 memo2] acc2] [e0|]] eqn:Eg end; [discriminate|].
  inversion Htm; subst. eapply IL; eauto.
Qed.

(* ------------------------------------------------------------------ programs mixing plain, swap_dest and in-place blocks *)
Definition inplace_ok (b : block) : Prop := b_usd b = false /\ b_inplace b = Some true /\ b_manual b = false.
Definition block_ok2 (h : heap) (b : block) : Prop := block_ok h b \/ inplace_ok b.

Lemma inplace_ok_inpl b rs : inplace_ok b -> inpl (cfg_of b rs).
Proof. intros (H1 & H2 & _). split; assumption. Qed.

Lemma all_sloteq_mono st1 st : all_sloteq st1 st -> mono_heap (t_heap st) (t_heap st1).
Proof.
  intros H c n1 Hn1. specialize (H c). unfold hg in H. rewrite Hn1 in H.
  destruct (h_get (t_heap st) c) as [n|]; cbn in H; [|tauto]. destruct H as (A & B & C).
  exists n. repeat split; auto. intros k. rewrite C. apply mono3_refl.
Qed.

Lemma block_ok2_mono h h1 b : block_ok2 h b -> mono_heap h h1 -> block_ok2 h1 b.
Proof. intros [H|H] Hm; [left; eapply block_ok_mono; eauto|right; exact H]. Qed.

(* a normal run of any nesting of plain / swap_dest / in-place blocks: when the outermost block has been left every
   module holds, under every name, the object it held before (in the same dict) *)
Theorem restore_normal_mixed : forall fixed x bs lvl st st' evs oc,
  run_blocks_gen fixed x bs lvl st = (st', evs, oc) ->
  x_kind x = XNone -> Forall (fun e => ev_out e = OOk) evs ->
  Forall (block_ok2 (t_heap st)) bs -> wf_heap (t_heap st) ->
  all_sloteq st' st /\ oc = OOk.
Proof.
  intros fixed x bs. induction bs as [|b rest IH]; intros lvl st st' evs oc Hrun Hx Hev Hok Hwf.
  - cbn in Hrun. inversion Hrun; subst. split; [apply all_sloteq_refl|reflexivity].
  - cbn [run_blocks_gen] in Hrun.
    pose proof (Forall_inv Hok) as Hb. pose proof (Forall_inv_tail Hok) as Hrest.
    destruct (to_module (cfg_of b true) (b_params b) (b_target b) st) as [st1 memo1 swap0|st1 e] eqn:Et.
    2:{ inversion Hrun; subst. inversion Hev as [|? ? He _]; subst. cbn in He. discriminate. }
    destruct Hb as [Hb|Hb].
    + (* plain / swap_dest block *)
      destruct (sd_enter b st st1 memo1 swap0 Hb Et) as [Hq|(eq & Hq)]; rewrite Hq in Hrun.
      2:{ inversion Hrun; subst. inversion Hev as [|? ? He _]; subst. cbn in He. discriminate. }
      pose proof Hb as (_ & _ & Hman & _). rewrite Hman in Hrun.
      destruct (run_blocks_gen fixed x rest (S lvl) st1) as [[st2 evs_i] oc_i] eqn:Er.
      destruct (enter_facts b st st1 memo1 swap0 Hb Et) as (P1 & _).
      destruct P1 as (B1 & B2 & B3 & B4 & B5 & B6 & B7 & B8).
      destruct (exit_block_gen fixed b swap0 (match oc_i with OOk => body_raise x lvl | ORaise _ => oc_i end) st2)
        as [st3 oc'] eqn:Ex.
      inversion Hrun; subst st' evs oc. clear Hrun.
      inversion Hev as [|? ? _ Hev']; subst. apply Forall_app in Hev'. destruct Hev' as (Hev_i & Hev_x).
      destruct (IH (S lvl) st1 st2 evs_i oc_i Er Hx Hev_i) as (I1 & I3).
      { eapply Forall_impl; [|exact Hrest]. intros b' Hb'. eapply block_ok2_mono; eauto. }
      { now apply B7. }
      subst oc_i. unfold body_raise in Ex. rewrite Hx in Ex. cbn in Ex.
      destruct (block_restore b st st1 memo1 swap0 st2 Hb Hwf Et I1) as (st3' & r & Hr & Hall & Hv).
      rewrite Hr in Ex. inversion Ex; subst st3' r.
      inversion Hev_x as [|? ? Ho _]; subst. cbn in Ho. split; [exact Hall|exact Ho].
    + (* in-place block *)
      pose proof (I_all (b_params b) (cfg_of b true) (inplace_ok_inpl b true Hb) (b_target b) (clear_saved st) [] st1 memo1 swap0 Et Hwf) as H1.
      change (all_sloteq st1 st) in H1.
      destruct (if b_swap_dest b then quick_set swap0 (PTD []) else QOk swap0) as [swap|eq].
      2:{ inversion Hrun; subst. inversion Hev as [|? ? He _]; subst. cbn in He. discriminate. }
      pose proof Hb as (_ & _ & Hman). rewrite Hman in Hrun.
      destruct (run_blocks_gen fixed x rest (S lvl) st1) as [[st2 evs_i] oc_i] eqn:Er.
      destruct (exit_block_gen fixed b swap (match oc_i with OOk => body_raise x lvl | ORaise _ => oc_i end) st2)
        as [st3 oc'] eqn:Ex.
      inversion Hrun; subst st' evs oc. clear Hrun.
      inversion Hev as [|? ? _ Hev']; subst. apply Forall_app in Hev'. destruct Hev' as (Hev_i & Hev_x).
      assert (Hwf1 : wf_heap (t_heap st1)) by (eapply all_sloteq_wf; eauto).
      destruct (IH (S lvl) st1 st2 evs_i oc_i Er Hx Hev_i) as (I1 & I3).
      { eapply Forall_impl; [|exact Hrest]. intros b' Hb'. eapply block_ok2_mono; [exact Hb'|]. now apply all_sloteq_mono. }
      { exact Hwf1. }
      subst oc_i. unfold body_raise in Ex. rewrite Hx in Ex. cbn in Ex.
      inversion Hev_x as [|? ? Ho _]; subst. cbn in Ho. subst oc'.
      assert (Hwf2 : wf_heap (t_heap st2)) by (eapply all_sloteq_wf; eauto).
      unfold reverse_to_module, fixed_D133 in Ex. rewrite andb_false_r in Ex.
      destruct (to_module (cfg_of b true) swap (b_target b) st2) as [st3' m3 sw3|st3' e3] eqn:Et2.
      2:{ inversion Ex. }
      pose proof (I_all swap (cfg_of b true) (inplace_ok_inpl b true Hb) (b_target b) (clear_saved st2) [] st3' m3 sw3 Et2 Hwf2) as H3.
      change (all_sloteq st3' st2) in H3.
      assert (st3 = st3').
      { destruct (b_live b); [destruct (quick_set sw3 (b_params b))|]; now inversion Ex. }
      subst st3'. split; [|reflexivity].
      eapply all_sloteq_trans; [exact H3|]. eapply all_sloteq_trans; [exact I1|exact H1].
Qed.

(* ------------------------------------------------------------------ swap_dest *)
(* the values leaving the module land in the (empty) swap_dest under the same keys: the filled destination is the swap *)
Theorem swap_dest_receives b st st1 memo1 swap0 d :
  block_ok (t_heap st) b ->
  to_module (cfg_of b true) (b_params b) (b_target b) st = TmOk st1 memo1 swap0 ->
  quick_set swap0 (PTD []) = QOk d -> d = swap0.
Proof.
  intros Hb Ht Eq. pose proof Hb as (H1 & H2 & H4 & H5 & H6). unfold to_module in Ht.
  destruct (b_params b) as [ents] eqn:Ep.
  destruct (to_mod_keys _ _ _ _ _ _ _ _ (block_ok_simple _ _ Hb) Ht H5) as (swl & -> & Hk).
  rewrite keys_nodup_PTD in H5. destruct H5 as (Hnd & _). rewrite <- Hk in Hnd.
  now destruct (quick_set_empty swl d Eq Hnd) as (-> & _).
Qed.

(* ... and only a flat swap gets there: with a sub-module entry _quick_set raises KeyError after the module has been
   swapped (the call raises, the block is not entered, the module stays swapped) *)
Lemma ex_swap_dest_nested :
  let b := mkBlock 0 None false true false true ex_td1 in
  block_ok (t_heap ex_st) b /\
  match run_blocks (mkExc XNone 0 false) [b] 0 ex_st with
  | (st', [e], oc) => ev_kind e = EvEnter /\ ev_out e = ORaise EKeyError /\ ~ all_sloteq st' ex_st
  | _ => False
  end.
Proof.
  split; [apply block_okb_ok; vm_compute; reflexivity|].
  vm_compute run_blocks. split; [reflexivity|]. split; [reflexivity|].
  intros H. specialize (H 0%Z). vm_compute in H. destruct H as (_ & _ & H). specialize (H "w"). vm_compute in H. discriminate.
Qed.

(* ------------------------------------------------------------------ non-vacuity *)
(* an in-place block on the root nested inside a plain block, and a swap_dest block on the leaf module 1 *)
Definition ex_b7 := mkBlock 0 (Some true) false false false true
  (PTD [("w", PLeaf (Some (oT 11))); ("r", PLeaf (Some (oT 12))); ("a", PSub (PTD [("w", PLeaf (Some (oT 13)))]))]).
Definition ex_b8 := mkBlock 1 None false true false true (PTD [("w", PLeaf (Some (oP 14)))]).
Lemma ex_mixed_hyps : Forall (block_ok2 (t_heap ex_st)) [ex_b1; ex_b7; ex_b8] /\ wf_heap (t_heap ex_st).
Proof.
  split; [|apply wf_heapb_ok; vm_compute; reflexivity].
  constructor; [left; apply block_okb_ok; vm_compute; reflexivity|].
  constructor; [right; repeat split|].
  constructor; [left; apply block_okb_ok; vm_compute; reflexivity|constructor].
Qed.
Lemma ex_mixed_run :
  let '(st', evs, oc) := run_blocks (mkExc XNone 0 false) [ex_b1; ex_b7; ex_b8] 0 ex_st in
  Forall (fun e => ev_out e = OOk) evs /\ List.length evs = 6%nat /\ oc = OOk.
Proof. vm_compute. split; [repeat constructor|split; reflexivity]. Qed.
Lemma ex_inplace_call :
  inpl (cfg_of ex_b7 true) /\
  exists st1 memo1 sw, to_module (cfg_of ex_b7 true) (b_params ex_b7) 0 ex_st = TmOk st1 memo1 sw
    /\ z_get (t_vals st1) 1%Z = Some 1%Z /\ z_get (t_vals ex_st) 1%Z = Some 10%Z.
Proof. split; [split; reflexivity|]. vm_compute. eexists _, _, _. repeat split. Qed.
