(* C07 — frame theorems of the operations, by class. *)
From Coq Require Import ZArith List String Bool Arith PeanoNat Lia.
Import ListNotations.
From TD Require Import Model.C07_Heap Model.C07_Alias Spec.C07_AliasSpec Proofs.C07_HeapP.
Local Open Scope list_scope.

Ltac destr_match :=
  match goal with
  | |- context [match ?x with _ => _ end] => destruct x eqn:?
  | |- context [if ?x then _ else _] => destruct x eqn:?
  end.

(* ------------------------------------------------------------------ in-place writes *)
Lemma write_c_frame : forall chk h v vals h' o, write_c chk h v vals = (h', o) -> inplace_frame h h'.
Proof.
  unfold write_c. intros [|] h v vals h' o H.
  - eapply write_frame; eauto.
  - destruct (negb (Nat.eqb (List.length vals) (List.length (vcells v)))); inversion H; subst; [apply frame_refl|].
    apply set_stor_frame. apply wr_cells_length.
Qed.

Lemma write_list_frame : forall chk l h h' o, write_list chk h l = (h', o) -> inplace_frame h h'.
Proof.
  induction l as [|[v s] l IH]; intros h h' o H; cbn in H.
  - inversion H; subst. apply frame_refl.
  - destruct (write_c chk h v (wvals h v s)) as [h1 [|e]] eqn:E.
    + eapply frame_trans; [eapply write_c_frame; eauto|eapply IH; eauto].
    + inversion H; subst. eapply write_c_frame; eauto.
Qed.

Lemma update_u_frame : forall h d s h' o, update_u h d s = (h', o) -> inplace_frame h h'.
Proof.
  unfold update_u. intros h d s h' o H.
  destruct (leaves_of h d); [|inversion H; subst; apply frame_refl].
  destruct (leaves_of h s); [|inversion H; subst; apply frame_refl].
  destruct (pair_inter l l0) eqn:E.
  - destruct l0; inversion H; subst; apply frame_refl.
  - eapply write_list_frame; eauto.
Qed.

(* only the storages named by the written views can change *)
Lemma only_refl : forall l h, only_storages l h h.
Proof. intros l h s _. reflexivity. Qed.

Lemma only_trans : forall l a b c, only_storages l a b -> only_storages l b c -> only_storages l a c.
Proof. intros l a b c H1 H2 s Hs. rewrite H2, H1; auto. Qed.

Lemma only_mono : forall l l' a b, incl l l' -> only_storages l a b -> only_storages l' a b.
Proof. intros l l' a b Hi H s Hs. apply H. intro; apply Hs; auto. Qed.

Lemma set_stor_only : forall h s c, only_storages [s] h (set_stor h s c).
Proof.
  intros h s c s' Hs. unfold get_stor, set_stor. cbn. apply nth_upd_nth_other. intro E. apply Hs. now left.
Qed.

Lemma write_c_only : forall chk h v vals h' o, write_c chk h v vals = (h', o) -> only_storages [vsid v] h h'.
Proof.
  unfold write_c, write. intros [|] h v vals h' o H.
  - destruct (negb (nodupb (vcells v))); [inversion H; subst; apply only_refl|].
    destruct (negb (Nat.eqb (List.length vals) (List.length (vcells v)))); inversion H; subst; [apply only_refl|apply set_stor_only].
  - destruct (negb (Nat.eqb (List.length vals) (List.length (vcells v)))); inversion H; subst; [apply only_refl|apply set_stor_only].
Qed.

Lemma write_list_only : forall chk l h h' o,
  write_list chk h l = (h', o) -> only_storages (map (fun vs => vsid (fst vs)) l) h h'.
Proof.
  induction l as [|[v s] l IH]; intros h h' o H; cbn in H.
  - inversion H; subst. apply only_refl.
  - destruct (write_c chk h v (wvals h v s)) as [h1 [|e]] eqn:E.
    + eapply only_trans.
      * eapply only_mono; [|eapply write_c_only; eauto]. intros x [Hx|[]]. left. exact Hx.
      * eapply only_mono; [|eapply IH; eauto]. intros x Hx. right. exact Hx.
    + inversion H; subst. eapply only_mono; [|eapply write_c_only; eauto]. intros x [Hx|[]]. left. exact Hx.
Qed.

(* ------------------------------------------------------------------ set_ *)
Lemma set_str_true_frame : forall upd h n k val h' o,
  set_str upd h n k val ITrue = (h', o) -> inplace_frame h h'.
Proof.
  unfold set_str. intros upd h n k val h' o H.
  destruct (get_node h n); [|inversion H; subst; apply frame_refl].
  destruct (ents_has (nents n0) k); [|inversion H; subst; apply frame_refl].
  destruct (ents_get (nents n0) k) as [[d|d]|]; destruct val as [v|v];
    try (inversion H; subst; apply frame_refl).
  - destruct (view_eqb d v); [inversion H; subst; apply frame_refl|eapply write_c_frame; eauto].
  - eapply update_u_frame; eauto.
Qed.

Lemma set_tuple_true_frame : forall upd p h n val h' o,
  set_tuple upd h n p val ITrue = (h', o) -> inplace_frame h h'.
Proof.
  induction p as [|k p IH]; intros h n val h' o H.
  - cbn in H. inversion H; subst. apply frame_refl.
  - destruct p as [|k2 p2].
    + cbn in H. eapply set_str_true_frame; eauto.
    + cbn [set_tuple] in H.
      destruct (get_node h n); [|inversion H; subst; apply frame_refl].
      destruct (ents_get (nents n0) k) as [[d|m]|].
      * inversion H; subst. apply frame_refl.
      * eapply IH; eauto.
      * (* the repaired branch: a missing intermediate node is a missing key *)
        unfold fixed_D75, is_true in H. cbn [andb] in H. inversion H; subst. apply frame_refl.
Qed.

(* ------------------------------------------------------------------ the in-place class *)
Local Arguments write_c : simpl never.
Local Arguments write_list : simpl never.
Local Arguments update_u : simpl never.
Local Arguments write : simpl never.

Ltac frame_solve :=
  repeat destr_match; cbn; (split; [|reflexivity]); try apply frame_refl;
  match goal with
  | |- inplace_frame _ (fst ?x) =>
      let E := fresh "E" in destruct x eqn:E; cbn;
      first [eapply update_u_frame; eassumption | eapply write_c_frame; eassumption | eapply write_list_frame; eassumption
            | eapply set_tuple_true_frame; eassumption]
  end.

Lemma step_inplace_frame : forall s i,
  classify i = CInplace ->
  inplace_frame (hp s) (hp (fst (step s i))) /\ regs (fst (step s i)) = regs s.
Proof.
  intros s i Hc. destruct i; cbn in Hc; try discriminate; try (destruct inpl; discriminate);
    unfold step, reg; cbv zeta.
  1: { (* ISetU *)
    destruct (nth_error (regs s) r) as [[v0|n]|]; try (split; [apply frame_refl|reflexivity]).
    destruct (nth_error (regs s) v) as [val|]; [|split; [apply frame_refl|reflexivity]].
    split; [|reflexivity]. destruct (set_tuple upd_best (hp s) n p val ITrue) as [h' o] eqn:E.
    cbn [fst snd hp with_h]. eapply set_tuple_true_frame; eauto. }
  all: frame_solve.
Qed.

(* ------------------------------------------------------------------ allocation only appends *)
Definition heap_ext (h h' : heap) : Prop := stor_ext h h' /\ exists e, hnodes h' = hnodes h ++ e.

Lemma heap_ext_refl : forall h, heap_ext h h.
Proof. intro h. split; [apply stor_ext_refl|exists []; now rewrite app_nil_r]. Qed.

Lemma heap_ext_trans : forall a b c, heap_ext a b -> heap_ext b c -> heap_ext a c.
Proof.
  intros a b c [S1 [e1 N1]] [S2 [e2 N2]]. split; [eapply stor_ext_trans; eauto|].
  exists (e1 ++ e2). now rewrite N2, N1, app_assoc.
Qed.

Lemma alloc_node_ext : forall h nd, heap_ext h (fst (alloc_node h nd)).
Proof. intros. split; cbn; [apply stor_ext_same; reflexivity|now exists [nd]]. Qed.

Definition lf_ok (leaff : path -> heap -> view -> heap * view) : Prop :=
  forall p h v, stor_ext h (fst (leaff p h v)) /\ hnodes (fst (leaff p h v)) = hnodes h.

Lemma lf_ok_ext : forall leaff, lf_ok leaff -> forall p h v, heap_ext h (fst (leaff p h v)).
Proof. intros leaff H p h v. destruct (H p h v) as [S N]. split; auto. exists []. now rewrite app_nil_r. Qed.

Lemma map_ents_ext : forall rec,
  (forall h r p h' r', rec h r p = Some (h', r') -> heap_ext h h') ->
  forall fe pre es h0 h1 es1, map_ents rec fe pre h0 es = Some (h1, es1) -> heap_ext h0 h1.
Proof.
  intros rec Hrec fe pre. induction es as [|[k r'] t IH]; intros h0 h1 es1 H; cbn in H.
  - inversion H; subst. apply heap_ext_refl.
  - destruct (rec h0 r' (pre ++ [k])) as [[ha ra]|] eqn:E; [|discriminate].
    destruct (map_ents rec fe pre ha t) as [[hb tb]|] eqn:E2; [|discriminate].
    inversion H; subst. eapply heap_ext_trans; [eapply Hrec; eauto|eapply IH; eauto].
Qed.

Lemma map_tree_ext : forall leaff, lf_ok leaff ->
  forall fuel lk ln fe h r pre h' r', map_tree fuel lk ln fe leaff h r pre = Some (h', r') -> heap_ext h h'.
Proof.
  intros leaff Hl. induction fuel as [|f IH]; intros lk ln fe h r pre h' r' H; [discriminate|].
  cbn [map_tree] in H. destruct r as [v|n].
  - destruct (leaff pre h v) as [h1 v1] eqn:E. inversion H; subst.
    pose proof (lf_ok_ext _ Hl pre h v) as X. now rewrite E in X.
  - destruct (get_node h n) as [nd|]; [|discriminate].
    destruct (map_ents (map_tree f lk ln fe leaff) fe pre h (nents nd)) as [[h1 es1]|] eqn:E; [|discriminate].
    cbn in H. inversion H; subst.
    eapply heap_ext_trans; [eapply map_ents_ext; [|exact E]; intros; eapply IH; eauto|].
    apply (alloc_node_ext h1 (mkNode es1 (lk || (ln && nlock nd)))).
Qed.

Lemma lf_same_ok : lf_ok lf_same.
Proof. intros p h v. cbn. split; [apply stor_ext_refl|reflexivity]. Qed.
Lemma lf_sub_ok : forall nb b, lf_ok (lf_sub nb b).
Proof. intros nb b p h v. cbn. split; [apply stor_ext_refl|reflexivity]. Qed.
Lemma lf_copy_ok : lf_ok lf_copy.
Proof. intros p h v. apply fresh_like_ext. Qed.
Lemma lf_gather_ok : forall nb b, lf_ok (lf_gather nb b).
Proof. intros nb b p h v. apply fresh_leaf_ext. Qed.
Lemma lf_un_ok : forall f, lf_ok (lf_un f).
Proof. intros f p h v. apply fresh_like_ext. Qed.
Lemma lf_contig_ok : lf_ok lf_contig.
Proof.
  intros p h v. unfold lf_contig. destruct (contiguousb v); [split; [apply stor_ext_refl|reflexivity]|apply fresh_leaf_ext].
Qed.
Lemma lf_bin_ok : forall f lo, lf_ok (lf_bin f lo).
Proof. intros f lo p h v. unfold lf_bin. destruct (assoc_path lo p); apply fresh_like_ext. Qed.

(* ------------------------------------------------------------------ rebinding never touches a storage *)
Lemma bind_stor : forall h n k r h' o, bind h n k r = (h', o) -> hstor h' = hstor h.
Proof.
  unfold bind. intros h n k r h' o H. destruct (get_node h n); [|now inversion H].
  destruct (nlock n0); inversion H; reflexivity.
Qed.

Lemma set_str_false_stor : forall upd h n k val h' o, set_str upd h n k val IFalse = (h', o) -> hstor h' = hstor h.
Proof.
  unfold set_str. intros upd h n k val h' o H. destruct (get_node h n) eqn:E; [|now inversion H].
  eapply bind_stor; eauto.
Qed.

Lemma set_tuple_false_stor : forall upd p h n val h' o, set_tuple upd h n p val IFalse = (h', o) -> hstor h' = hstor h.
Proof.
  induction p as [|k p IH]; intros h n val h' o H.
  - cbn in H. now inversion H.
  - destruct p as [|k2 p2].
    + cbn in H. eapply set_str_false_stor; eauto.
    + cbn [set_tuple] in H.
      destruct (get_node h n); [|now inversion H].
      destruct (ents_get (nents n0) k) as [[d|m]|].
      * now inversion H.
      * eapply IH; eauto.
      * unfold fixed_D75, is_true in H. cbn [andb] in H. unfold alloc_node in H. cbv beta iota zeta in H.
        destruct (bind _ n k _) as [h2 [|e]] eqn:Eb.
        -- apply bind_stor in Eb. cbn [hstor] in Eb. rewrite <- Eb.
           exact (IH h2 (List.length (hnodes h)) val h' o H).
        -- inversion H; subst. apply bind_stor in Eb. exact Eb.
Qed.

Lemma fold_out_rel : forall {A} (stepf : heap -> A -> heap * outcome) (R : heap -> heap -> Prop),
  (forall h, R h h) -> (forall a b c, R a b -> R b c -> R a c) ->
  (forall h x h' o, stepf h x = (h', o) -> R h h') ->
  forall l h h' o, fold_out stepf h l = (h', o) -> R h h'.
Proof.
  intros A stepf R Hr Ht Hs. induction l as [|x l IH]; intros h h' o H; cbn in H.
  - inversion H; subst. apply Hr.
  - destruct (stepf h x) as [h1 [|e]] eqn:E.
    + eapply Ht; [eapply Hs; eauto|eapply IH; eauto].
    + inversion H; subst. eapply Hs; eauto.
Qed.

Lemma deep_clone_ext : forall fuel h r h' r', deep_clone fuel h r = Some (h', r') -> stor_ext h h'.
Proof. unfold deep_clone. intros. eapply map_tree_ext in H; [apply H|apply lf_copy_ok]. Qed.

Lemma update_n_false_ext : forall fuel clone h d s h' o, update_n fuel clone false h d s = (h', o) -> stor_ext h h'.
Proof.
  induction fuel as [|f IH]; intros clone h d s h' o H; cbn [update_n] in H.
  - inversion H; subst. apply stor_ext_refl.
  - destruct (get_node h d); [|inversion H; subst; apply stor_ext_refl].
    destruct (get_node h s); [|inversion H; subst; apply stor_ext_refl].
    destruct (nlock n && negb false); [inversion H; subst; apply stor_ext_refl|].
    destruct (Nat.eqb d s); [inversion H; subst; apply stor_ext_refl|].
    eapply (fold_out_rel _ stor_ext stor_ext_refl stor_ext_trans); [|exact H].
    intros h0 [k v] h1 o1 Hu. unfold upd_entry in Hu.
    destruct clone.
    + destruct (deep_clone (fuel_of h0) h0 v) as [[ha va]|] eqn:Ec; [|inversion Hu; subst; apply stor_ext_refl].
      apply deep_clone_ext in Ec. eapply stor_ext_trans; [exact Ec|].
      destruct (match get_node ha d with Some nd1 => ents_get (nents nd1) k | None => None end) as [[t|t]|];
        destruct va as [sv|sv]; try (apply stor_ext_same; eapply set_str_false_stor; exact Hu).
      eapply IH; eauto.
    + destruct (match get_node h0 d with Some nd1 => ents_get (nents nd1) k | None => None end) as [[t|t]|];
        destruct v as [sv|sv]; try (apply stor_ext_same; eapply set_str_false_stor; exact Hu).
      eapply IH; eauto.
Qed.

Lemma fold_set_node_stor : forall (b : bool) ns h,
  hstor (fold_left (fun h0 n => match get_node h0 n with
                                | Some nd => set_node h0 n (mkNode (nents nd) b) | None => h0 end) ns h) = hstor h.
Proof.
  intros b. induction ns as [|n ns IH]; intro h; cbn; auto.
  rewrite IH. destruct (get_node h n); reflexivity.
Qed.

(* ------------------------------------------------------------------ every class but the in-place ones: no cell written *)
Local Arguments update_n : simpl never.
Local Arguments set_tuple : simpl never.
Local Arguments map_tree : simpl never.
Local Arguments fuel_of : simpl never.

Definition writes_possible (i : instr) : bool :=
  match classify i with CInplace | CBest => true | _ => false end.

Ltac pure_solve :=
  repeat destr_match;
  repeat match goal with H : alloc_node _ _ = (_, _) |- _ => unfold alloc_node in H; inversion H; subst; clear H end;
  cbn; try apply stor_ext_refl; try (apply stor_ext_same; reflexivity);
  try (match goal with
       | H : map_tree _ _ _ _ _ _ _ _ = Some (_, _) |- _ =>
           eapply map_tree_ext in H;
           [apply H|first [apply lf_same_ok|apply lf_sub_ok|apply lf_copy_ok|apply lf_gather_ok|apply lf_un_ok
                          |apply lf_contig_ok|apply lf_bin_ok]]
       end).

Lemma step_pure : forall s i, writes_possible i = false -> stor_ext (hp s) (hp (fst (step s i))).
Proof.
  intros s i Hw. destruct i; unfold writes_possible in Hw; cbn in Hw; try discriminate;
    try (destruct inpl; try discriminate); unfold step, reg; cbv zeta.
  - (* INewT *) cbn. now exists [content].
  - (* INewTD *) pure_solve.
  - (* IGet *) pure_solve.
  - (* ISet IFalse *)
    repeat destr_match; cbn; try apply stor_ext_refl.
    match goal with |- stor_ext _ (fst ?x) => destruct x eqn:E end. cbn.
    apply stor_ext_same. eapply set_tuple_false_stor; eauto.
  - (* IUpdate false *)
    repeat destr_match; cbn; try apply stor_ext_refl.
    match goal with |- stor_ext _ (fst ?x) => destruct x eqn:E end. cbn.
    eapply update_n_false_ext; eauto.
  - (* IDel *) pure_solve.
  - (* ILock *)
    repeat destr_match; cbn; try apply stor_ext_refl. apply stor_ext_same. apply fold_set_node_stor.
  - (* IViewB *) pure_solve.
  - (* ISelect *) pure_solve.
  - (* IExclude *) pure_solve.
  - (* IShallow *) pure_solve.
  - (* IFlatten *) pure_solve.
  - (* IClone *) pure_solve.
  - (* IGather *) pure_solve.
  - (* IUnary *) pure_solve.
  - (* IBinary *) pure_solve.
  - (* IContig *) pure_solve.
Qed.

(* ------------------------------------------------------------------ histories *)
Lemma run_pure : forall prog s,
  forallb (fun i => negb (writes_possible i)) prog = true -> stor_ext (hp s) (hp (run s prog)).
Proof.
  induction prog as [|i t IH]; intros s H; cbn in *.
  - apply stor_ext_refl.
  - apply andb_true_iff in H. destruct H as [H1 H2]. apply negb_true_iff in H1.
    eapply stor_ext_trans; [apply step_pure; exact H1|apply IH; exact H2].
Qed.

Lemma run_inplace : forall prog s,
  forallb (fun i => match classify i with CInplace => true | _ => false end) prog = true ->
  inplace_frame (hp s) (hp (run s prog)) /\ regs (run s prog) = regs s.
Proof.
  induction prog as [|i t IH]; intros s H; cbn in *.
  - split; [apply frame_refl|reflexivity].
  - apply andb_true_iff in H. destruct H as [H1 H2].
    destruct (classify i) eqn:Ec; try discriminate.
    destruct (step_inplace_frame s i Ec) as [F R]. destruct (IH (fst (step s i)) H2) as [F2 R2].
    split; [eapply frame_trans; eauto|congruence].
Qed.

(* ------------------------------------------------------------------ D75 (repaired): set_ below a missing node raises *)
Definition d75_state : st :=
  mkSt (mkHeap [[1%Z; 2%Z]] [mkNode [("a"%string, RLeaf (mkView 0 [0; 1]))] false]) [RLeaf (mkView 0 [0; 1]); RNode 0].

Lemma setu_missing_node_raises :
  step d75_state (ISetU 1 ["x"%string; "q"%string] 0) = (d75_state, Raised EKey).
Proof. vm_compute. reflexivity. Qed.

(* ------------------------------------------------------------------ footprint of the whole-tree in-place operations *)
Definition leaf_sids (ls : list (path * view)) : list nat := map (fun pv => vsid (snd pv)) ls.

Lemma pair_all_fst : forall ls lo prs, pair_all ls lo = Some prs -> map (fun vo => vsid (fst vo)) prs = leaf_sids ls.
Proof.
  induction ls as [|[p v] t IH]; intros lo prs H; cbn in H.
  - inversion H; subst. reflexivity.
  - destruct (assoc_path lo p); [|discriminate]. destruct (pair_all t lo) eqn:E; [|discriminate].
    inversion H; subst. cbn. f_equal. eapply IH; eauto.
Qed.

Lemma pair_inter_fst : forall ls lo, incl (map (fun vo => vsid (fst vo)) (pair_inter ls lo)) (leaf_sids ls).
Proof.
  induction ls as [|[p v] t IH]; intros lo x Hx; cbn in *; auto.
  destruct (assoc_path lo p); cbn in Hx.
  - destruct Hx as [Hx|Hx]; [now left|right; eapply IH; eauto].
  - right. eapply IH; eauto.
Qed.

Definition whole_tree_inplace (i : instr) : option nat :=
  match i with
  | IUpdU r _ | ISetItemSc r _ _ _ | IConstU r _ | IUnaryU r _ | IBinaryU r _ _ => Some r
  | _ => None
  end.

(* only storages behind the receiver's own entries can change *)
Lemma step_inplace_footprint : forall s i r d ls,
  whole_tree_inplace i = Some r -> reg s r = Some d -> leaves_of (hp s) d = Some ls ->
  only_storages (leaf_sids ls) (hp s) (hp (fst (step s i))).
Proof.
  intros s i r d ls Hw Hr Hl. destruct i; cbn in Hw; try discriminate; inversion Hw; subst; unfold step; cbv zeta; rewrite Hr.
  - (* IUpdU *)
    destruct (reg s src) as [o|]; [|apply only_refl]. cbn. unfold update_u. rewrite Hl.
    destruct (leaves_of (hp s) o) as [lo|]; [|apply only_refl].
    destruct (pair_inter ls lo) eqn:E.
    + destruct lo; apply only_refl.
    + rewrite <- E.
      match goal with |- only_storages _ _ (fst ?x) => destruct x eqn:Ew end. cbn.
      eapply only_mono; [|eapply write_list_only; exact Ew]. rewrite map_map. cbn. apply pair_inter_fst.
  - (* ISetItemSc *)
    rewrite Hl. cbn.
    match goal with |- only_storages _ _ (fst ?x) => destruct x eqn:Ew end. cbn.
    eapply only_mono; [|eapply write_list_only; exact Ew]. rewrite map_map. cbn. apply incl_refl.
  - (* IConstU *)
    rewrite Hl. cbn.
    match goal with |- only_storages _ _ (fst ?x) => destruct x eqn:Ew end. cbn.
    eapply only_mono; [|eapply write_list_only; exact Ew]. rewrite map_map. cbn. apply incl_refl.
  - (* IUnaryU *)
    rewrite Hl. cbn.
    match goal with |- only_storages _ _ (fst ?x) => destruct x eqn:Ew end. cbn.
    eapply only_mono; [|eapply write_list_only; exact Ew]. rewrite map_map. cbn. apply incl_refl.
  - (* IBinaryU *)
    destruct (reg s src) as [o|]; [|apply only_refl]. rewrite Hl.
    destruct (leaves_of (hp s) o) as [lo|]; [|apply only_refl].
    destruct (pair_all ls lo) as [prs|] eqn:E; [|apply only_refl]. cbn.
    match goal with |- only_storages _ _ (fst ?x) => destruct x eqn:Ew end. cbn.
    eapply only_mono; [|eapply write_list_only; exact Ew]. rewrite map_map. cbn.
    rewrite (pair_all_fst _ _ _ E). apply incl_refl.
Qed.
