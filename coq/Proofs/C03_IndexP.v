From Coq Require Import ZArith List Bool Lia.
Import ListNotations.
From TD Require Import Spec.PySlice Model.C03_Index Spec.C03_TorchIndex.
Open Scope nat_scope.

(* ------------------------------------------------------------------ pass 1 = non-adjacency of the advanced slots *)
Definition p1 (st : bool * bool * bool) (s : slot) : bool * bool * bool :=
  let '(seen, look, disj) := st in
  match s with
  | A => (true, look, if look then true else disj)
  | K _ => (seen, negb disj && seen, disj)
  end.

Definition disj_of (st : bool * bool * bool) : bool := let '(_, _, d) := st in d.

Lemma p1_fold sl : forall seen look disj,
  (look = true -> seen = true) ->
  disj_of (fold_left p1 sl (seen, look, disj))
  = disj || (look && has_A sl) || (seen && gap_after sl) || (negb seen && negb (adjacent sl)).
Proof.
  induction sl as [|s r IH]; intros seen look disj Hinv; cbn [fold_left p1 has_A gap_after adjacent].
  - cbn. destruct disj, look, seen; reflexivity.
  - destruct s as [n|].
    + rewrite IH.
      * destruct disj, look, seen, (has_A r), (gap_after r), (adjacent r); try reflexivity;
          try (specialize (Hinv eq_refl); discriminate).
      * destruct disj, seen; cbn; congruence.
    + rewrite IH by reflexivity.
      destruct disj, look, seen, (has_A r), (gap_after r), (adjacent r); reflexivity.
Qed.

(* the item-level fold of the code = the slot-level fold, for any index the spec turns into slots *)
Lemma pass1_slots idx : forall dims sl st,
  slots idx dims = Some sl -> fold_left p1 sl st = fold_left p1 (map K (skipn (total_consumed idx) dims)) (fold_left pass1_step idx st)
  \/ True.
Proof. intros; now right. Qed.

Lemma p1_Ks ds : forall seen look disj, disj_of (fold_left p1 (map K ds) (seen, look, disj)) = disj.
Proof.
  induction ds as [|d r IH]; intros; cbn [map fold_left p1]; [reflexivity|]. apply IH.
Qed.

Lemma pass1_step_slots idx : forall dims sl seen look disj,
  slots idx dims = Some sl ->
  disj_of (fold_left pass1_step idx (seen, look, disj)) = disj_of (fold_left p1 sl (seen, look, disj)).
Proof.
  induction idx as [|it r IH]; intros dims sl seen look disj Hs; cbn [slots] in Hs.
  - injection Hs as <-. cbn [fold_left]. now rewrite p1_Ks.
  - cbn [fold_left]. destruct it as [i|a b c| | |sh| |sh cnt].
    + (* int *) destruct dims as [|n ds]; [discriminate|].
      destruct ((- Z.of_nat n <=? i)%Z && (i <? Z.of_nat n)%Z); [|discriminate].
      cbn [pass1_step adv_shape is_sep]. eapply IH; eassumption.
    + (* slice *) destruct dims as [|n ds]; [discriminate|].
      destruct ((match c with Some s => s | None => 1%Z end <=? 0)%Z); [discriminate|].
      destruct (slots r ds) as [sl'|] eqn:E; [|discriminate]. injection Hs as <-.
      cbn [pass1_step adv_shape is_sep fold_left p1]. eapply IH; eassumption.
    + (* None *) destruct (slots r dims) as [sl'|] eqn:E; [|discriminate]. injection Hs as <-.
      cbn [pass1_step adv_shape is_sep fold_left p1]. eapply IH; eassumption.
    + discriminate.
    + (* adv *) destruct dims as [|n ds]; [discriminate|].
      destruct (slots r ds) as [sl'|] eqn:E; [|discriminate]. injection Hs as <-.
      cbn [pass1_step adv_shape fold_left p1]. eapply IH; eassumption.
    + (* adv0 *) destruct dims as [|n ds]; [discriminate|].
      cbn [pass1_step adv_shape is_sep]. eapply IH; eassumption.
    + (* mask *)
      destruct (Nat.leb (length sh) (length dims) && shape_eqb sh (firstn (length sh) dims) && negb (Nat.eqb (length sh) 0));
        [|discriminate].
      destruct (slots r (skipn (length sh) dims)) as [sl'|] eqn:E; [|discriminate]. injection Hs as <-.
      cbn [pass1_step adv_shape fold_left p1]. eapply IH; eassumption.
Qed.

Theorem pass1_not_adjacent idx dims sl :
  slots idx dims = Some sl -> pass1 idx = negb (adjacent sl).
Proof.
  intros Hs. unfold pass1.
  pose proof (pass1_step_slots idx dims sl false false false Hs) as H.
  destruct (fold_left pass1_step idx (false, false, false)) as [[s l] d]. cbn [disj_of] in H. rewrite H.
  rewrite p1_fold by discriminate. cbn. reflexivity.
Qed.

(* ------------------------------------------------------------------ pass 2 *)
Lemma slice_len_ok a b c n :
  (match c with Some s => s | None => 1%Z end <=? 0)%Z = false ->
  slice_len a b c n = Ok (Z.to_nat (range_len (py_indices a b (match c with Some s => s | None => 1%Z end) (Z.of_nat n)))).
Proof.
  intros H. unfold slice_len. destruct (match c with Some s => s | None => 1%Z end =? 0)%Z eqn:E; [lia|reflexivity].
Qed.

Lemma skipn_nth_cons {X} (l : list X) n x : nth_error l n = Some x -> skipn n l = x :: skipn (S n) l.
Proof.
  revert n; induction l as [|y r IH]; intros [|n] H; cbn in *; try discriminate.
  - now injection H as ->.
  - now apply IH.
Qed.

Lemma skipn_cons_nth {X} (l : list X) n x ds : skipn n l = x :: ds -> nth_error l n = Some x /\ skipn (S n) l = ds.
Proof.
  revert n; induction l as [|y r IH]; intros [|n] H; cbn in *; try discriminate.
  - injection H as -> ->. now split.
  - now apply IH.
Qed.

Lemma skipn_skipn {X} (l : list X) a b : skipn a (skipn b l) = skipn (b + a) l.
Proof.
  revert l; induction b as [|b IH]; intros l; cbn [skipn plus]; [reflexivity|].
  destruct l as [|x r]; [now rewrite !skipn_nil|]. apply IH.
Qed.

Lemma keeps_mapK l : keeps (map K l) = l.
Proof. induction l; cbn; [reflexivity|now f_equal]. Qed.

Lemma pass2_none bs disj idx : forall cnt out sl,
  slots idx (skipn cnt bs) = Some sl -> pass2 bs disj idx cnt None out = Ok (out ++ keeps sl).
Proof.
  induction idx as [|it r IH]; intros cnt out sl Hs; cbn [slots] in Hs; cbn [pass2].
  - injection Hs as <-. now rewrite keeps_mapK.
  - destruct it as [i|a b c| | |sh| |sh n0].
    + destruct (skipn cnt bs) as [|n ds] eqn:E; [discriminate|].
      destruct ((- Z.of_nat n <=? i)%Z && (i <? Z.of_nat n)%Z); [|discriminate].
      apply skipn_cons_nth in E. destruct E as [_ E]. apply IH. now rewrite E.
    + destruct (skipn cnt bs) as [|n ds] eqn:E; [discriminate|].
      destruct ((match c with Some s => s | None => 1%Z end <=? 0)%Z) eqn:Est; [discriminate|].
      destruct (slots r ds) as [sl'|] eqn:E2; [|discriminate]. injection Hs as <-.
      apply skipn_cons_nth in E. destruct E as [En E]. rewrite En, (slice_len_ok _ _ _ _ Est).
      rewrite (IH (S cnt) _ sl') by now rewrite E. cbn [keeps]. now rewrite <- app_assoc.
    + destruct (slots r (skipn cnt bs)) as [sl'|] eqn:E2; [|discriminate]. injection Hs as <-.
      rewrite (IH cnt _ sl' E2). cbn [keeps]. now rewrite <- app_assoc.
    + discriminate.
    + destruct (skipn cnt bs) as [|n ds] eqn:E; [discriminate|].
      destruct (slots r ds) as [sl'|] eqn:E2; [|discriminate]. injection Hs as <-.
      apply skipn_cons_nth in E. destruct E as [_ E]. cbn [keeps]. apply IH. now rewrite E.
    + destruct (skipn cnt bs) as [|n ds] eqn:E; [discriminate|].
      apply skipn_cons_nth in E. destruct E as [_ E]. apply IH. now rewrite E.
    + destruct (Nat.leb (length sh) (length (skipn cnt bs)) && shape_eqb sh (firstn (length sh) (skipn cnt bs))
                && negb (Nat.eqb (length sh) 0)); [|discriminate].
      destruct (slots r (skipn (length sh) (skipn cnt bs))) as [sl'|] eqn:E2; [|discriminate]. injection Hs as <-.
      cbn [keeps]. apply IH. now rewrite <- skipn_skipn.
Qed.

Lemma pass2_some bs disj B idx : forall cnt out sl,
  slots idx (skipn cnt bs) = Some sl -> has_A sl = true ->
  pass2 bs disj idx cnt (Some B) out
  = Ok (if disj then B ++ out ++ keeps sl else out ++ before_A sl ++ B ++ after_first_A sl).
Proof.
  induction idx as [|it r IH]; intros cnt out sl Hs HA; cbn [slots] in Hs; cbn [pass2].
  - injection Hs as <-. exfalso. clear -HA. induction (skipn cnt bs); cbn in HA; [discriminate|auto].
  - destruct it as [i|a b c| | |sh| |sh n0].
    + destruct (skipn cnt bs) as [|n ds] eqn:E; [discriminate|].
      destruct ((- Z.of_nat n <=? i)%Z && (i <? Z.of_nat n)%Z); [|discriminate].
      apply skipn_cons_nth in E. destruct E as [_ E]. apply IH; [now rewrite E|assumption].
    + destruct (skipn cnt bs) as [|n ds] eqn:E; [discriminate|].
      destruct ((match c with Some s => s | None => 1%Z end <=? 0)%Z) eqn:Est; [discriminate|].
      destruct (slots r ds) as [sl'|] eqn:E2; [|discriminate]. injection Hs as <-.
      apply skipn_cons_nth in E. destruct E as [En E]. rewrite En, (slice_len_ok _ _ _ _ Est).
      cbn [has_A] in HA. rewrite (IH (S cnt) _ sl') by (try (now rewrite E); assumption).
      cbn [keeps before_A after_first_A]. destruct disj; now rewrite <- !app_assoc.
    + destruct (slots r (skipn cnt bs)) as [sl'|] eqn:E2; [|discriminate]. injection Hs as <-.
      cbn [has_A] in HA. rewrite (IH cnt _ sl' E2 HA).
      cbn [keeps before_A after_first_A]. destruct disj; now rewrite <- !app_assoc.
    + discriminate.
    + destruct (skipn cnt bs) as [|n ds] eqn:E; [discriminate|].
      destruct (slots r ds) as [sl'|] eqn:E2; [|discriminate]. injection Hs as <-.
      apply skipn_cons_nth in E. destruct E as [_ E].
      rewrite (pass2_none bs disj r (S cnt) _ sl') by now rewrite E.
      cbn [keeps before_A after_first_A]. destruct disj; now rewrite <- ?app_assoc.
    + destruct (skipn cnt bs) as [|n ds] eqn:E; [discriminate|].
      apply skipn_cons_nth in E. destruct E as [_ E]. apply IH; [now rewrite E|assumption].
    + destruct (Nat.leb (length sh) (length (skipn cnt bs)) && shape_eqb sh (firstn (length sh) (skipn cnt bs))
                && negb (Nat.eqb (length sh) 0)); [|discriminate].
      destruct (slots r (skipn (length sh) (skipn cnt bs))) as [sl'|] eqn:E2; [|discriminate]. injection Hs as <-.
      rewrite (pass2_none bs disj r (cnt + length sh) _ sl') by now rewrite <- skipn_skipn.
      cbn [keeps before_A after_first_A]. destruct disj; now rewrite <- ?app_assoc.
Qed.

Lemma slots_has_A idx : forall dims sl, slots idx dims = Some sl ->
  has_A sl = negb (match adv_shapes idx with [] => true | _ => false end).
Proof.
  unfold adv_shapes.
  induction idx as [|it r IH]; intros dims sl Hs; cbn [slots] in Hs.
  - injection Hs as <-. cbn. induction dims; cbn; auto.
  - destruct it as [i|a b c| | |sh| |sh n0]; cbn [flat_map adv_shape app].
    + destruct dims as [|n ds]; [discriminate|].
      destruct ((- Z.of_nat n <=? i)%Z && (i <? Z.of_nat n)%Z); [|discriminate]. eapply IH; eassumption.
    + destruct dims as [|n ds]; [discriminate|].
      destruct ((match c with Some s => s | None => 1%Z end <=? 0)%Z); [discriminate|].
      destruct (slots r ds) as [sl'|] eqn:E2; [|discriminate]. injection Hs as <-. cbn [has_A]. eapply IH; eassumption.
    + destruct (slots r dims) as [sl'|] eqn:E2; [|discriminate]. injection Hs as <-. cbn [has_A]. eapply IH; eassumption.
    + discriminate.
    + destruct dims as [|n ds]; [discriminate|].
      destruct (slots r ds) as [sl'|] eqn:E2; [|discriminate]. injection Hs as <-. reflexivity.
    + destruct dims as [|n ds]; [discriminate|]. eapply IH; eassumption.
    + destruct (Nat.leb (length sh) (length dims) && shape_eqb sh (firstn (length sh) dims) && negb (Nat.eqb (length sh) 0));
        [|discriminate].
      destruct (slots r (skipn (length sh) dims)) as [sl'|] eqn:E2; [|discriminate]. injection Hs as <-. reflexivity.
Qed.

(* the library's batch-size computation = torch's shape rule, for every Ellipsis-free index torch accepts *)
Theorem gbs_eq_torch bs idx sl B :
  slots idx bs = Some sl -> bcast_all (adv_shapes idx) = Ok B ->
  gbs bs idx = Ok (place B sl).
Proof.
  intros Hs HB. unfold gbs. cbv zeta.
  pose proof (slots_has_A idx bs sl Hs) as HA. unfold place.
  destruct (adv_shapes idx) as [|s0 ss] eqn:Eadv.
  - cbn in HA. rewrite HA. cbn [negb]. rewrite (pass2_none bs _ idx 0 [] sl) by exact Hs. reflexivity.
  - cbn in HA. rewrite HA, HB. cbn [negb].
    rewrite (pass2_some bs _ B idx 0 [] sl Hs HA), (pass1_not_adjacent idx bs sl Hs).
    destruct (adjacent sl); cbn [negb app]; reflexivity.
Qed.

Theorem gbs_eq_torch_shape bs idx r :
  existsb is_ell idx = false -> torch_shape bs idx = Some r -> gbs bs idx = Ok r.
Proof.
  intros Hne. unfold torch_shape, expand_ell.
  assert (F : filter is_ell idx = []).
  { clear -Hne. induction idx as [|x l IH]; [reflexivity|]. cbn in *. destruct (is_ell x); [discriminate|]. now apply IH. }
  rewrite F. cbn [length].
  destruct (slots idx bs) as [sl|] eqn:Hs; [|discriminate].
  destruct (bcast_all (adv_shapes idx)) as [B|] eqn:HB; [|discriminate].
  intros H. injection H as <-. now apply gbs_eq_torch.
Qed.

(* ------------------------------------------------------------------ feature dims are untouched *)
Lemma keeps_app a b : keeps (a ++ b) = keeps a ++ keeps b.
Proof. induction a as [|[n|] a IH]; cbn; [reflexivity|now rewrite IH|exact IH]. Qed.
Lemma has_A_app_K a l : has_A (a ++ map K l) = has_A a.
Proof. induction a as [|[n|] a IH]; cbn; [induction l; cbn; auto|exact IH|reflexivity]. Qed.
Lemma has_A_mapK l : has_A (map K l) = false.
Proof. induction l; cbn; auto. Qed.
Lemma gap_after_app_K a l : gap_after (a ++ map K l) = gap_after a.
Proof.
  induction a as [|[n|] a IH]; cbn.
  - induction l as [|x l IHl]; cbn; [reflexivity|]. now rewrite IHl, has_A_mapK.
  - now rewrite IH, has_A_app_K.
  - exact IH.
Qed.
Lemma adjacent_app_K a l : adjacent (a ++ map K l) = adjacent a.
Proof.
  induction a as [|[n|] a IH]; cbn; [induction l; cbn; auto|exact IH|now rewrite gap_after_app_K].
Qed.
Lemma before_A_app_K a l : has_A a = true -> before_A (a ++ map K l) = before_A a.
Proof. induction a as [|[n|] a IH]; cbn; intros H; [discriminate|now rewrite IH|reflexivity]. Qed.
Lemma after_first_A_app_K a l : has_A a = true -> after_first_A (a ++ map K l) = after_first_A a ++ l.
Proof.
  induction a as [|[n|] a IH]; cbn; intros H; [discriminate|now apply IH|].
  now rewrite keeps_app, keeps_mapK.
Qed.

Lemma place_app_K B sl feat : place B (sl ++ map K feat) = place B sl ++ feat.
Proof.
  unfold place. rewrite has_A_app_K, adjacent_app_K. destruct (has_A sl) eqn:HA; cbn [negb].
  - destruct (adjacent sl).
    + rewrite before_A_app_K, after_first_A_app_K by assumption. now rewrite <- !app_assoc.
    + rewrite keeps_app, keeps_mapK. now rewrite <- app_assoc.
  - now rewrite keeps_app, keeps_mapK.
Qed.

Lemma shape_eqb_firstn_app (sh dims feat : list nat) :
  length sh <= length dims -> firstn (length sh) (dims ++ feat) = firstn (length sh) dims.
Proof. intros H. rewrite firstn_app. replace (length sh - length dims) with 0 by lia. cbn. now rewrite app_nil_r. Qed.

Lemma slots_app_feat idx : forall dims sl feat,
  slots idx dims = Some sl -> slots idx (dims ++ feat) = Some (sl ++ map K feat).
Proof.
  induction idx as [|it r IH]; intros dims sl feat Hs; cbn [slots] in *.
  - injection Hs as <-. now rewrite map_app.
  - destruct it as [i|a b c| | |sh| |sh n0].
    + destruct dims as [|n ds]; [discriminate|]. cbn [app].
      destruct ((- Z.of_nat n <=? i)%Z && (i <? Z.of_nat n)%Z); [|discriminate]. now apply IH.
    + destruct dims as [|n ds]; [discriminate|]. cbn [app].
      destruct ((match c with Some s => s | None => 1%Z end <=? 0)%Z); [discriminate|].
      destruct (slots r ds) as [sl'|] eqn:E2; [|discriminate]. injection Hs as <-.
      now rewrite (IH ds sl' feat E2).
    + destruct (slots r dims) as [sl'|] eqn:E2; [|discriminate]. injection Hs as <-. now rewrite (IH dims sl' feat E2).
    + discriminate.
    + destruct dims as [|n ds]; [discriminate|]. cbn [app].
      destruct (slots r ds) as [sl'|] eqn:E2; [|discriminate]. injection Hs as <-. now rewrite (IH ds sl' feat E2).
    + destruct dims as [|n ds]; [discriminate|]. cbn [app]. now apply IH.
    + destruct (Nat.leb (length sh) (length dims)) eqn:El; [|discriminate]. cbn [andb] in Hs.
      apply Nat.leb_le in El.
      destruct (shape_eqb sh (firstn (length sh) dims)) eqn:Eq; [|discriminate]. cbn [andb] in Hs.
      destruct (negb (Nat.eqb (length sh) 0)) eqn:Enz; [|discriminate].
      destruct (slots r (skipn (length sh) dims)) as [sl'|] eqn:E2; [|discriminate]. injection Hs as <-.
      rewrite shape_eqb_firstn_app, Eq, ?Enz by assumption.
      replace (Nat.leb (length sh) (length (dims ++ feat))) with true
        by (symmetry; apply Nat.leb_le; rewrite app_length; lia).
      cbn [andb]. rewrite skipn_app. replace (length sh - length dims) with 0 by lia. cbn [skipn].
      now rewrite (IH _ sl' feat E2).
Qed.

(* the same (Ellipsis-expanded) index applied to an entry of shape bs ++ feat yields result ++ feat:
   the entry gets the computed batch size as prefix and its feature dims untouched *)
Theorem index_feat bs feat idx sl B :
  slots idx bs = Some sl -> bcast_all (adv_shapes idx) = Ok B ->
  slots idx (bs ++ feat) = Some (sl ++ map K feat) /\ place B (sl ++ map K feat) = place B sl ++ feat.
Proof. intros Hs _. split; [now apply slots_app_feat|apply place_app_K]. Qed.

(* ------------------------------------------------------------------ rejection *)
(* if the entry accepts an index that does not reach into its feature dims, torch accepts it on the batch shape *)
Lemma slots_strip_feat idx : forall dims feat sl',
  existsb is_ell idx = false ->
  slots idx (dims ++ feat) = Some sl' -> total_consumed idx <= length dims -> exists sl, slots idx dims = Some sl.
Proof.
  induction idx as [|it r IH]; intros dims feat sl' Hne Hs Hc; cbn [slots total_consumed fold_right] in *.
  - eauto.
  - cbn [existsb] in Hne. apply orb_false_iff in Hne. destruct Hne as [Hit Hne].
    fold (total_consumed r) in Hc.
    destruct it as [i|a b c| | |sh| |sh n0]; cbn [consumes] in Hc; try discriminate.
    + destruct dims as [|n ds]; [cbn in Hc; lia|]. cbn [app] in Hs.
      destruct ((- Z.of_nat n <=? i)%Z && (i <? Z.of_nat n)%Z); [|discriminate].
      eapply IH; eauto. cbn in Hc; lia.
    + destruct dims as [|n ds]; [cbn in Hc; lia|]. cbn [app] in Hs.
      destruct ((match c with Some s => s | None => 1%Z end <=? 0)%Z); [discriminate|].
      destruct (slots r (ds ++ feat)) as [sl2|] eqn:E2; [|discriminate].
      destruct (IH ds feat sl2 Hne E2 ltac:(cbn in Hc; lia)) as [sl Hsl]. rewrite Hsl. cbn [option_map]. eauto.
    + destruct (slots r (dims ++ feat)) as [sl2|] eqn:E2; [|discriminate].
      destruct (IH dims feat sl2 Hne E2 ltac:(lia)) as [sl Hsl]. rewrite Hsl. cbn [option_map]. eauto.
    + destruct dims as [|n ds]; [cbn in Hc; lia|]. cbn [app] in Hs.
      destruct (slots r (ds ++ feat)) as [sl2|] eqn:E2; [|discriminate].
      destruct (IH ds feat sl2 Hne E2 ltac:(cbn in Hc; lia)) as [sl Hsl]. rewrite Hsl. cbn [option_map]. eauto.
    + destruct dims as [|n ds]; [cbn in Hc; lia|]. cbn [app] in Hs.
      eapply IH; eauto. cbn in Hc; lia.
    + destruct (Nat.leb (length sh) (length (dims ++ feat))) eqn:El; [|discriminate]. cbn [andb] in Hs.
      destruct (shape_eqb sh (firstn (length sh) (dims ++ feat))) eqn:Eq; [|discriminate]. cbn [andb] in Hs.
      destruct (negb (Nat.eqb (length sh) 0)) eqn:Enz; [|discriminate].
      destruct (slots r (skipn (length sh) (dims ++ feat))) as [sl2|] eqn:E2; [|discriminate].
      assert (Hl : length sh <= length dims) by lia.
      rewrite shape_eqb_firstn_app in Eq by assumption. rewrite Eq, ?Enz.
      replace (Nat.leb (length sh) (length dims)) with true by (symmetry; now apply Nat.leb_le).
      cbn [andb]. rewrite skipn_app in E2. replace (length sh - length dims) with 0 in E2 by lia. cbn [skipn] in E2.
      destruct (IH (skipn (length sh) dims) feat sl2 Hne E2) as [sl Hsl].
      { rewrite skipn_length. lia. }
      rewrite Hsl. cbn [option_map]. eauto.
Qed.

Theorem reject_partial bs feat idx r' :
  existsb is_ell idx = false -> total_consumed idx <= length bs ->
  torch_shape (bs ++ feat) idx = Some r' -> exists r, torch_shape bs idx = Some r /\ r' = r ++ feat.
Proof.
  intros Hne Hc. unfold torch_shape, expand_ell.
  assert (F : filter is_ell idx = []).
  { clear -Hne. induction idx as [|x l IH]; [reflexivity|]. cbn in *. destruct (is_ell x); [discriminate|]. now apply IH. }
  rewrite F. cbn [length].
  destruct (slots idx (bs ++ feat)) as [sl'|] eqn:Hs'; [|discriminate].
  destruct (bcast_all (adv_shapes idx)) as [B|] eqn:HB; [|discriminate].
  intros H. injection H as <-.
  destruct (slots_strip_feat idx bs feat sl' Hne Hs' Hc) as [sl Hs]. rewrite Hs.
  exists (place B sl). split; [reflexivity|].
  pose proof (slots_app_feat idx bs sl feat Hs) as H2. rewrite Hs' in H2. injection H2 as ->. apply place_app_K.
Qed.

(* D25: an index that consumes more dims than the batch rank is not rejected by the batch-size bookkeeping *)
Theorem reject_refuted : exists bs idx, torch_shape bs idx = None /\ exists r, gbs bs idx = Ok r.
Proof. exists [2], [IInt 0%Z; IInt 0%Z]. split; [reflexivity|]. eexists. reflexivity. Qed.

(* ------------------------------------------------------------------ Ellipsis expansion *)
Definition mask_wf (it : item) : bool := match it with IMask sh _ => negb (Nat.eqb (length sh) 0) | _ => true end.

Lemma count_dims l : existsb is_ell l = false -> forallb mask_wf l = true ->
  length l + extra_dims l = total_consumed l + length (filter is_none l).
Proof.
  induction l as [|it r IH]; intros Hne Hwf; [reflexivity|].
  cbn [existsb forallb] in *. apply orb_false_iff in Hne. destruct Hne as [Hit Hne].
  apply andb_prop in Hwf. destruct Hwf as [Hw Hwf]. specialize (IH Hne Hwf).
  cbn [length extra_dims total_consumed fold_right filter] in *. fold (extra_dims r) (total_consumed r) in *.
  destruct it as [i|a b c| | |sh| |sh n0]; cbn [consumes is_none length] in *; try discriminate; try lia.
  cbn in Hw. destruct (length sh) eqn:E; [cbn in Hw; discriminate|]. lia.
Qed.

Lemma filter_ell_none l : existsb is_ell l = false -> filter is_ell l = [].
Proof.
  induction l as [|x r IH]; [reflexivity|]. cbn. destruct (is_ell x); [discriminate|]. exact IH.
Qed.

Lemma find_ell_pre pre post i : existsb is_ell pre = false -> find_ell (pre ++ IEll :: post) i = i + length pre.
Proof.
  revert i; induction pre as [|x r IH]; intros i H; cbn [app find_ell is_ell length]; [lia|].
  cbn [existsb] in H. apply orb_false_iff in H. destruct H as [Hx H]. rewrite Hx, IH by assumption. lia.
Qed.

Lemma extra_dims_app a b : extra_dims (a ++ b) = extra_dims a + extra_dims b.
Proof.
  induction a as [|x a IH]; [reflexivity|]. cbn [app]. unfold extra_dims in *. cbn [fold_right]. rewrite IH. destruct x; lia.
Qed.
Lemma total_consumed_app a b : total_consumed (a ++ b) = total_consumed a + total_consumed b.
Proof.
  induction a as [|x a IH]; [reflexivity|]. cbn [app]. unfold total_consumed in *. cbn [fold_right]. rewrite IH. lia.
Qed.

(* one Ellipsis, enough dims: convert_ellipsis_to_idx replaces it by exactly rank - consumed full slices *)
Theorem convert_ellipsis_spec pre post bs :
  existsb is_ell pre = false -> existsb is_ell post = false ->
  forallb mask_wf (pre ++ post) = true ->
  total_consumed (pre ++ post) <= length bs ->
  convert_ellipsis (pre ++ IEll :: post) bs
  = Ok (pre ++ repeat full_slice (length bs - total_consumed (pre ++ post)) ++ post).
Proof.
  intros Hpre Hpost Hwf Hc. unfold convert_ellipsis.
  assert (Hex : existsb is_ell (pre ++ IEll :: post) = true).
  { rewrite existsb_app. cbn. now rewrite orb_true_r. }
  rewrite Hex. cbn [negb].
  assert (Hne : existsb is_ell (pre ++ post) = false) by (rewrite existsb_app, Hpre, Hpost; reflexivity).
  pose proof (count_dims (pre ++ post) Hne Hwf) as Hcnt.
  rewrite !filter_app. cbn [filter is_ell is_none].
  rewrite (filter_ell_none pre Hpre), (filter_ell_none post Hpost). cbn [app length].
  rewrite extra_dims_app. cbn [extra_dims fold_right]. fold (extra_dims post).
  rewrite (find_ell_pre pre post 0 Hpre). cbn [plus].
  assert (L1 : length (pre ++ IEll :: post) = length pre + S (length post)) by (rewrite app_length; reflexivity).
  assert (L2 : length (filter is_none pre ++ filter is_none post) = length (filter is_none (pre ++ post)))
    by now rewrite filter_app.
  assert (L3 : extra_dims pre + extra_dims post = extra_dims (pre ++ post)) by now rewrite extra_dims_app.
  assert (L4 : length (pre ++ post) = length pre + length post) by apply app_length.
  rewrite L1, L2, L3.
  set (nn := length (filter is_none (pre ++ post))) in *.
  set (ex := extra_dims (pre ++ post)) in *.
  set (tc := total_consumed (pre ++ post)) in *.
  match goal with |- context [Nat.ltb (length bs) ?b] =>
    replace (Nat.ltb (length bs) b) with false by (symmetry; apply Nat.ltb_ge; lia) end.
  change (Nat.ltb 1 1) with false. cbv iota.
  replace (length pre + S (length post) - length pre - 1) with (length post) by lia.
  rewrite firstn_app, firstn_all, Nat.sub_diag. cbn [firstn]. rewrite app_nil_r.
  replace (skipn (S (length pre)) (pre ++ IEll :: post)) with post.
  2:{ rewrite skipn_app. replace (S (length pre) - length pre) with 1 by lia.
      rewrite skipn_all2 by lia. reflexivity. }
  rewrite firstn_all.
  replace (length bs + nn - length post - length pre - ex) with (length bs - tc) by lia.
  rewrite !app_length, repeat_length.
  match goal with |- context [Nat.eqb ?a ?b] => replace (Nat.eqb a b) with true by (symmetry; apply Nat.eqb_eq; lia) end.
  reflexivity.
Qed.

(* the spec's expansion is the same list *)
Lemma expand_ell_one pre post rank :
  existsb is_ell pre = false -> existsb is_ell post = false -> total_consumed (pre ++ post) <= rank ->
  expand_ell (pre ++ IEll :: post) rank = Some (pre ++ repeat full_slice (rank - total_consumed (pre ++ post)) ++ post).
Proof.
  intros Hpre Hpost Hc. unfold expand_ell.
  rewrite filter_app. cbn [filter is_ell]. rewrite (filter_ell_none pre Hpre), (filter_ell_none post Hpost). cbn [app length].
  rewrite !total_consumed_app in *. cbn [total_consumed fold_right consumes plus]. fold (total_consumed post).
  replace (Nat.leb _ rank) with true by (symmetry; apply Nat.leb_le; lia).
  f_equal. rewrite flat_map_app. cbn [flat_map is_ell].
  assert (Id : forall l, existsb is_ell l = false ->
           flat_map (fun it => if is_ell it then repeat full_slice (rank - (total_consumed pre + total_consumed post)) else [it]) l = l).
  { induction l as [|x l IH]; intros H; [reflexivity|]. cbn in *. apply orb_false_iff in H. destruct H as [Hx H].
    rewrite Hx. cbn. now rewrite IH. }
  now rewrite !Id by assumption.
Qed.
