(* _get_names_idx for EVERY index: the names kept are the labels of torch's own placement ([place]) applied to the
   labelled slots of the index — kept dims labelled with the source dim they slice (None for inserted dims), the broadcast
   block labelled with the dim of the lone integer index array, or None when several advanced items / a mask share it. *)
From Coq Require Import ZArith List Bool Lia.
Import ListNotations.
From TD Require Import Spec.PySlice Model.C03_Index Spec.C03_TorchIndex Spec.C03_TorchSel Model.C03_Names
  Proofs.C03_IndexP Proofs.C03_SelP Proofs.C03_NamesP.
Open Scope nat_scope.

(* labels as numbers so that the spec's own [place] can be used on them: 0 = no name, S i = source dim i *)
Definition code (o : option nat) : nat := match o with None => 0 | Some i => S i end.

(* the slots of an index, labelled: K (label) for kept dims, A for advanced items; cursor c = next source dim *)
Fixpoint lslots (idx : list item) (c : nat) : list slot :=
  match idx with
  | [] => []
  | INone :: r => K 0 :: lslots r c
  | ISl _ _ _ :: r | IEll :: r => K (S c) :: lslots r (S c)
  | IAdv _ :: r => A :: lslots r (S c)
  | IMask sh _ :: r => A :: lslots r (c + length sh)
  | _ :: r => lslots r (S c)
  end.

(* the label of the broadcast block: the dim of the advanced item when it is the only one and an integer array *)
Fixpoint first_adv_src (idx : list item) (c : nat) : option nat :=
  match idx with
  | [] => None
  | IAdv _ :: r => if Nat.eqb (nadv r) 0 then Some c else None
  | IMask _ _ :: _ => None
  | INone :: r => first_adv_src r c
  | _ :: r => first_adv_src r (S c)
  end.

Lemma keeps_lslots idx : forall c, keeps (lslots idx c) = map code (origins idx c).
Proof.
  induction idx as [|it r IH]; intros c; [reflexivity|].
  destruct it; cbn [lslots origins keeps map code]; now rewrite ?IH.
Qed.

Lemma has_A_lslots idx : forall c, has_A (lslots idx c) = Nat.ltb 0 (nadv idx).
Proof.
  unfold nadv. induction idx as [|it r IH]; intros c; [reflexivity|].
  destruct it; cbn [lslots has_A filter is_adv length]; rewrite ?IH; reflexivity.
Qed.

(* the loop's "a separator was seen after an advanced item, then another advanced item" *)
Fixpoint gapS (sep : bool) (idx : list item) : bool :=
  match idx with
  | [] => false
  | INone :: r | ISl _ _ _ :: r | IEll :: r => gapS true r
  | IAdv _ :: r | IMask _ _ :: r => sep || gapS sep r
  | _ :: r => gapS sep r
  end.

Lemma gapS_true idx : gapS true idx = Nat.ltb 0 (nadv idx).
Proof.
  unfold nadv. induction idx as [|it r IH]; [reflexivity|].
  destruct it; cbn [gapS filter is_adv length orb]; try exact IH; reflexivity.
Qed.

Lemma gap_after_noA l : has_A l = false -> gap_after l = false.
Proof. induction l as [|[n|] l IH]; cbn; intros H; [reflexivity| |discriminate]. now rewrite H, IH. Qed.

Lemma gapS_false idx : forall c, gapS false idx = gap_after (lslots idx c).
Proof.
  induction idx as [|it r IH]; intros c; [reflexivity|].
  destruct it; cbn [gapS lslots gap_after orb]; try apply IH.
  - rewrite gapS_true, <- (has_A_lslots r (S c)).
    destruct (has_A (lslots r (S c))) eqn:E; [reflexivity|]. symmetry. now apply gap_after_noA.
  - rewrite gapS_true, <- (has_A_lslots r c).
    destruct (has_A (lslots r c)) eqn:E; [reflexivity|]. symmetry. now apply gap_after_noA.
  - rewrite gapS_true, <- (has_A_lslots r (S c)).
    destruct (has_A (lslots r (S c))) eqn:E; [reflexivity|]. symmetry. now apply gap_after_noA.
Qed.

(* phase 3: the loop once an advanced item has been seen *)
Lemma names_loop_after idx : forall count take advpos advsrc advndim m sep disj,
  names_loop idx count take advpos advsrc advndim (S m) sep disj
  = let o := take ++ origins idx count in
    let block := repeat (if Nat.eqb (nadv idx) 0 then advsrc else None) (Nat.max advndim (advnd idx)) in
    if disj || gapS sep idx then block ++ o else firstn advpos o ++ block ++ skipn advpos o.
Proof.
  unfold nadv.
  induction idx as [|it r IH]; intros count take advpos advsrc advndim m sep disj; cbn [names_loop origins gapS advnd filter].
  - cbn [length Nat.eqb]. rewrite app_nil_r, Nat.max_0_r, orb_false_r. reflexivity.
  - destruct it as [i|a b c| | |sh| |sh n0]; cbn [is_adv length Nat.eqb]; rewrite IH; cbv zeta;
      rewrite <- ?app_assoc; cbn [app]; rewrite ?orb_assoc; try reflexivity.
    + rewrite Nat.max_assoc. destruct (Nat.eqb (length (filter is_adv r)) 0); reflexivity.
    + rewrite Nat.max_assoc. destruct (Nat.eqb (length (filter is_adv r)) 0); reflexivity.
Qed.

Lemma map_repeat {X Y} (f : X -> Y) x n : map f (repeat x n) = repeat (f x) n.
Proof. induction n; cbn; [reflexivity|now f_equal]. Qed.

(* the whole loop from its initial state, against the pieces of [place] on the labelled slots *)
Lemma names_loop_place idx : forall c take ap,
  existsb is_ell idx = false ->
  map code (names_loop idx c take ap None 0 0 false false)
  = if Nat.ltb 0 (nadv idx)
    then (if adjacent (lslots idx c)
          then map code take ++ before_A (lslots idx c) ++ repeat (code (first_adv_src idx c)) (advnd idx)
                 ++ after_first_A (lslots idx c)
          else repeat (code (first_adv_src idx c)) (advnd idx) ++ map code take ++ keeps (lslots idx c))
    else map code take ++ keeps (lslots idx c).
Proof.
  induction idx as [|it r IH]; intros c take ap He.
  - cbn. now rewrite app_nil_r.
  - cbn [existsb] in He. apply orb_false_iff in He. destruct He as [He1 He].
    destruct it as [i|a b cc| | |sh| |sh n0]; try discriminate.
    + (* int *) cbn [names_loop lslots first_adv_src advnd]. rewrite (IH (S c) take ap He).
      unfold nadv. cbn [filter is_adv]. reflexivity.
    + (* slice *) cbn [names_loop lslots first_adv_src advnd]. change (Nat.ltb 0 0) with false.
      rewrite (IH (S c) (take ++ [Some c]) ap He). unfold nadv. cbn [filter is_adv].
      cbn [adjacent before_A after_first_A keeps]. rewrite map_app. cbn [map code].
      destruct (Nat.ltb 0 (length (filter is_adv r))); [destruct (adjacent (lslots r (S c)))|]; rewrite <- ?app_assoc; reflexivity.
    + (* None *) cbn [names_loop lslots first_adv_src advnd]. change (Nat.ltb 0 0) with false.
      rewrite (IH c (take ++ [None]) ap He). unfold nadv. cbn [filter is_adv].
      cbn [adjacent before_A after_first_A keeps]. rewrite map_app. cbn [map code].
      destruct (Nat.ltb 0 (length (filter is_adv r))); [destruct (adjacent (lslots r c))|]; rewrite <- ?app_assoc; reflexivity.
    + (* integer array *) cbn [names_loop lslots first_adv_src advnd Nat.eqb].
      rewrite names_loop_after. cbv zeta. cbn [orb]. rewrite (gapS_false r (S c)).
      unfold nadv at 3. cbn [filter is_adv length]. change (Nat.ltb 0 (S ?n)) with true. cbv iota.
      cbn [adjacent before_A after_first_A keeps app]. rewrite Nat.max_0_l, keeps_lslots.
      destruct (gap_after (lslots r (S c))); cbn [negb].
      * rewrite !map_app, map_repeat. destruct (Nat.eqb (nadv r) 0); reflexivity.
      * rewrite firstn_app, firstn_all, Nat.sub_diag. cbn [firstn]. rewrite app_nil_r.
        rewrite skipn_app, skipn_all, Nat.sub_diag. cbn [skipn app].
        rewrite !map_app, map_repeat. destruct (Nat.eqb (nadv r) 0); reflexivity.
    + (* 0-dim integer tensor *) cbn [names_loop lslots first_adv_src advnd]. rewrite (IH (S c) take ap He).
      unfold nadv. cbn [filter is_adv]. reflexivity.
    + (* mask *) cbn [names_loop lslots first_adv_src advnd Nat.eqb].
      rewrite names_loop_after. cbv zeta. cbn [orb]. rewrite (gapS_false r (c + length sh)).
      unfold nadv. cbn [filter is_adv length]. change (Nat.ltb 0 (S ?n)) with true. cbv iota.
      cbn [adjacent before_A after_first_A keeps app]. rewrite Nat.max_0_l, keeps_lslots.
      assert (Hn : (if Nat.eqb (length (filter is_adv r)) 0 then @None nat else None) = None)
        by (destruct (Nat.eqb (length (filter is_adv r)) 0); reflexivity).
      rewrite Hn.
      destruct (gap_after (lslots r (c + length sh))); cbn [negb].
      * rewrite !map_app, map_repeat. reflexivity.
      * rewrite firstn_app, firstn_all, Nat.sub_diag. cbn [firstn]. rewrite app_nil_r.
        rewrite skipn_app, skipn_all, Nat.sub_diag. cbn [skipn app].
        rewrite !map_app, map_repeat. reflexivity.
Qed.

(* trailing full slices add kept dims only *)
Lemma lslots_app_gen a b : forall c c', existsb is_ell a = false -> c' = c + total_consumed a ->
  lslots (a ++ b) c = lslots a c ++ lslots b c'.
Proof.
  induction a as [|it a IH]; intros c c' He Hc; cbn [app lslots total_consumed fold_right existsb] in *.
  - subst c'. now rewrite Nat.add_0_r.
  - fold (total_consumed a) in Hc. apply orb_false_iff in He. destruct He as [He1 He].
    destruct it as [i|x y z| | |sh| |sh n0]; cbn [consumes is_ell] in *; try discriminate;
      cbn [app]; try f_equal; apply IH; try assumption; lia.
Qed.
Lemma lslots_app a b c : existsb is_ell a = false -> lslots (a ++ b) c = lslots a c ++ lslots b (c + total_consumed a).
Proof. intros H. now apply lslots_app_gen. Qed.
Lemma lslots_full k : forall c, lslots (repeat full_slice k) c = map K (map S (seq c k)).
Proof. induction k as [|k IH]; intros c; cbn; [reflexivity|]. now rewrite IH. Qed.
Lemma first_adv_src_app a b : forall c, nadv b = 0 -> first_adv_src (a ++ b) c = first_adv_src a c.
Proof.
  induction a as [|it a IH]; intros c Hb; cbn [app].
  - revert c. induction b as [|x b IHb]; intros c; [reflexivity|].
    unfold nadv in Hb. destruct x; cbn [filter is_adv length] in Hb; try discriminate; cbn [first_adv_src]; now apply IHb.
  - destruct it; cbn [first_adv_src]; rewrite ?(IH _ Hb); try reflexivity. now rewrite nadv_app, Hb, Nat.add_0_r.
Qed.

(* THE names of an indexed result, for every index torch accepts on the batch shape: torch's placement of the labels *)
Theorem names_take_place bs idx sl :
  slots idx bs = Some sl ->
  exists tk, names_take bs idx = Ok tk /\
    map code tk = place (repeat (code (first_adv_src idx 0)) (advnd idx))
                        (lslots idx 0 ++ map K (map S (seq (total_consumed idx) (length bs - total_consumed idx)))).
Proof.
  intros Hs. unfold names_take. rewrite (names_prepare_ok bs idx sl Hs). eexists; split; [reflexivity|].
  pose proof (slots_no_ell _ _ _ Hs) as He.
  set (k := length bs - total_consumed idx).
  assert (He' : existsb is_ell (idx ++ repeat full_slice k) = false).
  { rewrite existsb_app, He. clear. induction k; cbn; auto. }
  destruct (counts_full k) as (C1 & C2 & C3).
  rewrite (names_loop_place _ 0 [] 0 He'). cbn [map app].
  rewrite nadv_app, C2, Nat.add_0_r, advnd_app, C3, Nat.max_0_r, (first_adv_src_app idx _ 0 C2).
  rewrite (lslots_app idx _ 0 He), lslots_full. cbn [plus].
  unfold place. rewrite has_A_app_K, has_A_lslots.
  destruct (Nat.ltb 0 (nadv idx)); reflexivity.
Qed.

(* ------------------------------------------------------------------ the labelled slots have the skeleton of torch's slots *)
Definition unlabel (s : slot) : slot := match s with K _ => K 0 | A => A end.

Lemma unlabel_mapK l : map unlabel (map K l) = repeat (K 0) (length l).
Proof. induction l; cbn; [reflexivity|now f_equal]. Qed.

Lemma slots_skeleton idx : forall dims sl c, slots idx dims = Some sl ->
  map unlabel sl = map unlabel (lslots idx c) ++ repeat (K 0) (length dims - total_consumed idx).
Proof.
  induction idx as [|it r IH]; intros dims sl c Hs; cbn [slots] in Hs.
  - injection Hs as <-. cbn. now rewrite Nat.sub_0_r, unlabel_mapK.
  - cbn [total_consumed fold_right lslots]. fold (total_consumed r).
    destruct it as [i|a b cc| | |sh| |sh n0]; cbn [consumes]; try discriminate.
    + destruct dims as [|n ds]; [discriminate|].
      destruct ((- Z.of_nat n <=? i)%Z && (i <? Z.of_nat n)%Z); [|discriminate].
      rewrite (IH ds sl (S c) Hs). cbn [length]. reflexivity.
    + destruct dims as [|n ds]; [discriminate|].
      destruct ((match cc with Some s => s | None => 1%Z end <=? 0)%Z); [discriminate|].
      destruct (slots r ds) as [sl'|] eqn:E; [|discriminate]. injection Hs as <-.
      cbn [map unlabel app]. rewrite (IH ds sl' (S c) E). cbn [length]. reflexivity.
    + destruct (slots r dims) as [sl'|] eqn:E; [|discriminate]. injection Hs as <-.
      cbn [map unlabel app]. rewrite (IH dims sl' c E). reflexivity.
    + destruct dims as [|n ds]; [discriminate|].
      destruct (slots r ds) as [sl'|] eqn:E; [|discriminate]. injection Hs as <-.
      cbn [map unlabel app]. rewrite (IH ds sl' (S c) E). cbn [length]. reflexivity.
    + destruct dims as [|n ds]; [discriminate|]. rewrite (IH ds sl (S c) Hs). cbn [length]. reflexivity.
    + destruct (Nat.leb (length sh) (length dims)) eqn:El; [|discriminate]. cbn [andb] in Hs.
      destruct (shape_eqb sh (firstn (length sh) dims)); [|discriminate]. cbn [andb] in Hs.
      destruct (negb (Nat.eqb (length sh) 0)); [|discriminate].
      destruct (slots r (skipn (length sh) dims)) as [sl'|] eqn:E; [|discriminate]. injection Hs as <-.
      cbn [map unlabel app]. rewrite (IH _ sl' (c + length sh) E). rewrite skipn_length.
      replace (length dims - length sh - total_consumed r) with (length dims - (length sh + total_consumed r)) by lia.
      reflexivity.
Qed.

Lemma has_A_unlabel l : has_A (map unlabel l) = has_A l.
Proof. induction l as [|[n|] l IH]; cbn; auto. Qed.
Lemma gap_after_unlabel l : gap_after (map unlabel l) = gap_after l.
Proof. induction l as [|[n|] l IH]; cbn; [reflexivity| |exact IH]. now rewrite has_A_unlabel, IH. Qed.
Lemma adjacent_unlabel l : adjacent (map unlabel l) = adjacent l.
Proof. induction l as [|[n|] l IH]; cbn; [reflexivity|exact IH|]. now rewrite gap_after_unlabel. Qed.
Lemma before_A_unlabel l : length (before_A (map unlabel l)) = length (before_A l).
Proof. induction l as [|[n|] l IH]; cbn; auto. Qed.
Lemma keeps_unlabel l : length (keeps (map unlabel l)) = length (keeps l).
Proof. induction l as [|[n|] l IH]; cbn; auto. Qed.

(* the labelled slots used by names_take_place lie on the slots torch's shape rule uses: same advanced positions, same
   number of kept dims before / after — so the block of names sits exactly where the broadcast dims sit in the shape *)
Theorem names_skeleton bs idx sl :
  slots idx bs = Some sl ->
  let lsl := lslots idx 0 ++ map K (map S (seq (total_consumed idx) (length bs - total_consumed idx))) in
  map unlabel lsl = map unlabel sl /\ has_A lsl = has_A sl /\ adjacent lsl = adjacent sl
  /\ length (before_A lsl) = length (before_A sl) /\ length (keeps lsl) = length (keeps sl).
Proof.
  intros Hs lsl.
  assert (E : map unlabel lsl = map unlabel sl).
  { unfold lsl. rewrite map_app, unlabel_mapK, map_length, seq_length. symmetry. now apply slots_skeleton. }
  split; [exact E|].
  rewrite <- (has_A_unlabel lsl), <- (adjacent_unlabel lsl), <- (before_A_unlabel lsl), <- (keeps_unlabel lsl), E.
  rewrite has_A_unlabel, adjacent_unlabel, before_A_unlabel, keeps_unlabel. auto.
Qed.
