(* C02 proofs, part 4: the operations with several results — unbind, split (list / int), chunk.
   Each result is the input tree with the batch prefix replaced (rel), one result per shape torch returns. *)
From Coq Require Import ZArith List Bool Lia ZifyBool String.
Import ListNotations.
From TD Require Import Spec.PySlice Spec.C02_TorchShape Model.C02_ShapeOps Proofs.C02_FrameP Proofs.C02_OpsP.
Open Scope Z_scope.
Ltac Zify.zify_post_hook ::= Z.to_euclidean_division_equations.

(* ------------------------------------------------------------------ unbind *)
Definition pick (j : nat) (per : list (string * list tree)) : list (string * tree) :=
  map (fun p => (fst p, nth j (snd p) (Leaf []))) per.

Lemma nth_of_each_pick j per : Forall (fun p => (j < List.length (snd p))%nat) per -> nth_of_each j per = Some (pick j per).
Proof.
  induction per as [|[k xs] per IH]; intros H; [reflexivity|]. cbn [nth_of_each pick map fst snd].
  pose proof (Forall_inv H) as Hj. cbn [snd] in Hj. pose proof (Forall_inv_tail H) as Hr.
  destruct (nth_error xs j) as [x|] eqn:E; [|apply nth_error_None in E; lia].
  rewrite (IH Hr). unfold pick. rewrite (nth_error_nth _ _ _ E). reflexivity.
Qed.

Lemma assemble_go count bsN nm' per : Forall (fun p => List.length (snd p) = count) per ->
  forall k i, (i + k = count)%nat ->
  (fix go (i k : nat) : out (list tree) :=
     match k with
     | O => Done []
     | S k' => match nth_of_each i per with
               | Some ents => let* r := go (S i) k' in Done (Node bsN nm' ents :: r)
               | None => Raised EValue
               end
     end) i k = Done (map (fun j => Node bsN nm' (pick j per)) (seq i k)).
Proof.
  intros HF. induction k as [|k IH]; intros i Hik; [reflexivity|].
  rewrite nth_of_each_pick.
  2:{ rewrite Forall_forall in *. intros p Hp. rewrite (HF p Hp). lia. }
  rewrite IH by lia. reflexivity.
Qed.

Lemma assemble_spec count bsN nm' per : Forall (fun p => List.length (snd p) = count) per ->
  assemble count bsN nm' per = Done (map (fun j => Node bsN nm' (pick j per)) (seq 0 count)).
Proof.
  intros HF. unfold assemble.
  assert (Hb : forallb (fun p => Nat.eqb (List.length (snd p)) count) per = true).
  { apply forallb_forall. intros p Hp. rewrite Forall_forall in HF. rewrite (HF p Hp). apply Nat.eqb_refl. }
  rewrite Hb. cbn [negb]. apply (assemble_go count bsN nm' per HF count 0%nat). reflexivity.
Qed.

Lemma unbind_names_wf nm i (b : list Z) : (i < List.length b)%nat -> names_wf nm b ->
  names_wf (if has_names nm then (let l := remove_nth i (names_list nm (List.length b)) in if all_none l then None else Some l) else None)
           (remove_nth i b).
Proof.
  intros Hi Hw. destruct nm as [l|]; cbn [has_names]; [|exact I]. cbn [names_list]. cbv zeta.
  destruct (all_none (remove_nth i l)); [exact I|]. cbn in *. rewrite !remove_nth_length; lia.
Qed.

Theorem unbind_lifts : forall t i bs tl,
  wf t -> top_shape t = bs ++ tl -> (i < List.length bs)%nat ->
  exists ts, unbind_at t i = Done ts /\ List.length ts = Z.to_nat (nthZ bs i) /\
             Forall (fun t' => rel bs (remove_nth i bs) t t' /\ wf t') ts.
Proof.
  induction t as [sh|b nm ents IH] using tree_ind'; intros i bs tl Hw Ht Hi; cbn in Ht; subst.
  - inversion Hw as [? Hn|]; subst. cbn [unbind_at]. unfold t_unbind.
    apply nonneg_app in Hn. destruct Hn as [Hn1 Hn2].
    destruct (bs ++ tl) eqn:E; [destruct bs; cbn in *; [lia|discriminate]|]. rewrite <- E.
    rewrite wrap_dim_nat by (rewrite app_length; lia). cbn [bind lift bindo].
    rewrite nthZ_app_l, remove_nth_app_l by lia.
    eexists. split; [reflexivity|]. split; [rewrite map_length, repeat_length; reflexivity|].
    rewrite Forall_forall. intros t' Hin. apply in_map_iff in Hin. destruct Hin as [s [<- Hs]]. apply repeat_spec in Hs. subst s.
    split; [constructor|]. constructor. apply nonneg_app. split; [apply nonneg_remove|]; assumption.
  - inversion Hw as [|? ? ? Hnn Hnm HF]; subst. cbn [unbind_at]. rewrite app_length.
    destruct (List.length bs + List.length tl <=? i)%nat eqn:E; [apply Nat.leb_le in E; lia|].
    rewrite <- app_length. set (count := Z.to_nat (nthZ (bs ++ tl) i)).
    assert (Hper : exists per,
      (fix go (l : list (string * tree)) : out (list (string * list tree)) :=
         match l with
         | [] => Done []
         | (k, c) :: r => let* cs := unbind_at c i in let* r' := go r in Done ((k, cs) :: r')
         end) ents = Done per /\
      Forall2 (fun e p => fst e = fst p /\ List.length (snd p) = count /\
                          Forall (fun c' => rel (bs ++ tl) (remove_nth i (bs ++ tl)) (snd e) c' /\ wf c') (snd p)) ents per).
    { clear Hw. induction ents as [|[k c] l IHl].
      - exists []. split; [reflexivity|constructor].
      - pose proof (Forall_inv IH) as IHc. pose proof (Forall_inv_tail IH) as IHr.
        pose proof (Forall_inv HF) as [Hwc [tl2 Hcs]]. pose proof (Forall_inv_tail HF) as HFr. cbn [snd] in *.
        destruct (IHc i (bs ++ tl) tl2 Hwc Hcs ltac:(rewrite app_length; lia)) as [cs [Hcs' [Hlen Hall]]].
        destruct (IHl IHr HFr) as [per [Hper HF2]].
        exists ((k, cs) :: per). rewrite Hcs'. cbn [bindo]. rewrite Hper. cbn [bindo]. split; [reflexivity|].
        constructor; [|exact HF2]. cbn [fst snd]. split; [reflexivity|]. split; [exact Hlen|exact Hall]. }
    destruct Hper as [per [Hper HF2]]. rewrite Hper. cbn [bindo].
    assert (Hlens : Forall (fun p => List.length (snd p) = count) per).
    { clear - HF2. induction HF2 as [|e p l l' [_ [Hl _]] _ IHF]; constructor; assumption. }
    rewrite (assemble_spec count _ _ per Hlens).
    eexists. split; [reflexivity|]. split.
    + rewrite map_length, seq_length. unfold count. rewrite nthZ_app_l by lia. reflexivity.
    + rewrite Forall_forall. intros t' Hin. apply in_map_iff in Hin. destruct Hin as [j [<- Hj]]. apply in_seq in Hj.
      rewrite remove_nth_app_l by lia.
      assert (Hrel : Forall2 (fun e e' => fst e = fst e' /\ rel bs (remove_nth i bs) (snd e) (snd e')) ents (pick j per) /\
                     Forall (fun e => wf (snd e) /\ exists tl2, top_shape (snd e) = (remove_nth i bs ++ tl) ++ tl2) (pick j per)).
      { clear - HF2 Hj Hi. rewrite remove_nth_app_l in HF2 by lia.
        induction HF2 as [|e p l l' [Hk [Hl Hall]] _ IHF]; [split; constructor|].
        destruct IHF as [I1 I2]. cbn [pick map].
        assert (Hin : In (nth j (snd p) (Leaf [])) (snd p)) by (apply nth_In; lia).
        rewrite Forall_forall in Hall. destruct (Hall _ Hin) as [Hr Hw'].
        split; constructor; try assumption; cbn [fst snd].
        - split; [exact Hk|]. eapply rel_weaken. exact Hr.
        - split; [exact Hw'|]. destruct (rel_top _ _ _ _ Hr) as [tl3 [_ E2]]. exists tl3. exact E2. }
      destruct Hrel as [Hr1 Hr2]. split.
      * constructor. exact Hr1.
      * constructor; [| |exact Hr2].
        -- apply nonneg_app in Hnn. apply nonneg_app. split; [apply nonneg_remove|]; tauto.
        -- rewrite <- remove_nth_app_l by lia. apply unbind_names_wf; [rewrite app_length; lia|exact Hnm].
Qed.

(* the call as the user makes it: any dim torch accepts *)
Theorem unbind_acts_on_batch_dims : forall t d shapes,
  wf t -> is_node t -> t_unbind (top_shape t) d = Ok shapes ->
  exists ts, td_unbind t d = Done ts /\
             Forall2 (fun s t' => top_shape t' = s /\ rel (top_shape t) s t t' /\ wf t') shapes ts.
Proof.
  intros t d shapes Hw Hn Ht. destruct t as [sh|bs nm ents]; [contradiction|]. cbn [top_shape] in *.
  unfold t_unbind in Ht. destruct bs as [|b0 bs0] eqn:Eb; [discriminate|]. rewrite <- Eb in *.
  destruct (wrap_dim d (List.length bs)) as [i|] eqn:Ei; [|discriminate]. cbn [bind] in Ht. injection Ht as <-.
  pose proof (wrap_dim_ok _ _ _ Ei) as [Hi _].
  cbn [td_unbind]. rewrite (correct_neg_dim_wrap _ _ _ Ei). cbn [bindo].
  destruct (unbind_lifts (Node bs nm ents) i bs [] Hw ltac:(cbn; rewrite app_nil_r; reflexivity) Hi) as [ts [Hu [Hl HF]]].
  exists ts. split; [exact Hu|].
  clear Hu. revert Hl HF. generalize (Z.to_nat (nthZ bs i)) as n. intros n. revert ts.
  induction n as [|n IHn]; intros ts Hl HF; destruct ts as [|t' ts]; cbn in Hl; try discriminate; [constructor|].
  cbn [repeat]. constructor.
  - pose proof (Forall_inv HF) as [Hr Hw']. split; [|split; assumption].
    destruct (rel_top _ _ _ _ Hr) as [tl [E1 E2]]. cbn [top_shape] in E1.
    rewrite <- (app_nil_r bs) in E1 at 1. apply app_inv_head in E1. subst tl. rewrite app_nil_r in E2. exact E2.
  - apply IHn; [lia|exact (Forall_inv_tail HF)].
Qed.

(* ------------------------------------------------------------------ slices: split *)
Lemma range_len_slice a b n : 0 <= a -> a <= b -> b <= n -> range_len (py_indices (Some a) (Some b) 1 n) = b - a.
Proof.
  intros Ha Hab Hb. unfold py_indices, adjust, range_len.
  destruct (a <? 0) eqn:E1; [lia|]. destruct (b <? 0) eqn:E2; [lia|].
  destruct (a >=? n) eqn:E3; destruct (b >=? n) eqn:E4; cbn [Z.ltb Z.gtb Z.compare];
    repeat match goal with |- context [if 1 <? 0 then _ else _] => change (1 <? 0) with false; cbv iota end;
    change (1 >? 0) with true; cbv iota.
  - destruct (n <? n) eqn:E5; lia.
  - lia.
  - destruct (a <? n) eqn:E5; [|lia]. rewrite Z.div_1_r. lia.
  - destruct (a <? b) eqn:E5; [rewrite Z.div_1_r; lia|lia].
Qed.

Definition nm_ok (o : option dimnames) (b : list Z) : Prop :=
  match o with Some nm => names_wf nm b | None => True end.

Lemma slice_tree_rel : forall t i a b bs tl nmo,
  wf t -> top_shape t = bs ++ tl -> (i < List.length bs)%nat -> 0 <= a -> a <= b -> b <= nthZ bs i ->
  nm_ok nmo (set_nth i (b - a) bs ++ tl) ->
  let t' := slice_tree t i a b (set_nth i (b - a) bs ++ tl) nmo in
  rel bs (set_nth i (b - a) bs) t t' /\ wf t'.
Proof.
  induction t as [sh|b0 nm ents IH] using tree_ind'; intros i a b bs tl nmo Hw Ht Hi Ha Hab Hb Hnm; cbn in Ht; subst; cbv zeta.
  - inversion Hw as [? Hn|]; subst. cbn [slice_tree]. rewrite nthZ_app_l by lia. rewrite range_len_slice by lia.
    rewrite set_nth_app_l by lia. split; [constructor|]. constructor.
    apply nonneg_app in Hn. apply nonneg_app. split; [apply nonneg_set; [lia|tauto]|tauto].
  - inversion Hw as [|? ? ? Hnn Hnm0 HF]; subst. cbn [slice_tree].
    set (bs' := set_nth i (b - a) bs) in *.
    assert (Hch : Forall2 (fun e e' => fst e = fst e' /\ rel bs bs' (snd e) (snd e'))
                    ents
                    ((fix go (l : list (string * tree)) : list (string * tree) :=
                        match l with
                        | [] => []
                        | (k, c) :: r => (k, slice_tree c i a b ((bs' ++ tl) ++ skipn (List.length (bs ++ tl)) (top_shape c)) None) :: go r
                        end) ents) /\
                  Forall (fun e => wf (snd e) /\ exists tl2, top_shape (snd e) = (bs' ++ tl) ++ tl2)
                    ((fix go (l : list (string * tree)) : list (string * tree) :=
                        match l with
                        | [] => []
                        | (k, c) :: r => (k, slice_tree c i a b ((bs' ++ tl) ++ skipn (List.length (bs ++ tl)) (top_shape c)) None) :: go r
                        end) ents)).
    { clear Hw. induction ents as [|[k c] l IHl]; [split; constructor|].
      pose proof (Forall_inv IH) as IHc. pose proof (Forall_inv_tail IH) as IHr.
      pose proof (Forall_inv HF) as [Hwc [tl2 Hcs]]. pose proof (Forall_inv_tail HF) as HFr. cbn [snd] in *.
      destruct (IHl IHr HFr) as [I1 I2].
      rewrite Hcs, skipn_app_exact.
      assert (Hset : set_nth i (b - a) (bs ++ tl) = bs' ++ tl) by (unfold bs'; apply set_nth_app_l; lia).
      destruct (IHc i a b (bs ++ tl) tl2 None Hwc Hcs ltac:(rewrite app_length; lia) Ha Hab
                    ltac:(rewrite nthZ_app_l by lia; exact Hb) I) as [Hr Hw'].
      rewrite Hset in Hr, Hw'.
      split; constructor; try assumption; cbn [fst snd].
      - split; [reflexivity|]. eapply rel_weaken. exact Hr.
      - split; [exact Hw'|]. destruct (rel_top _ _ _ _ Hr) as [tl3 [_ E2]]. exists tl3. exact E2. }
    destruct Hch as [H1 H2]. split.
    + constructor. exact H1.
    + constructor; [| |exact H2].
      * apply nonneg_app in Hnn. apply nonneg_app. split; [apply nonneg_set; [lia|tauto]|tauto].
      * destruct nmo as [x|]; [exact Hnm|]. cbn in *. destruct nm as [l|]; [|exact I]. cbn in *.
        rewrite Hnm0. unfold bs'. rewrite !app_length, set_nth_length by lia. reflexivity.
Qed.

(* consecutive segments starting at s with the given lengths *)
Fixpoint segs_of (s : Z) (l : list Z) : list (Z * Z) :=
  match l with [] => [] | x :: r => (s, s + x) :: segs_of (s + x) r end.

Lemma split_list_loop_legal l s max : nonneg l -> s + sumZ l <= max ->
  split_list_loop l s max = (segs_of s l, s + sumZ l).
Proof.
  revert s. induction l as [|x l IH]; intros s Hn Hs; cbn [split_list_loop segs_of sumZ fold_right].
  - f_equal. lia.
  - apply nonneg_cons in Hn. destruct Hn as [Hx Hn]. unfold sumZ in Hs. cbn [fold_right] in Hs. fold (sumZ l) in *.
    assert (Hl : 0 <= sumZ l) by (clear - Hn; unfold sumZ; induction l as [|y l IH]; cbn; [lia|];
                                  apply nonneg_cons in Hn; destruct Hn as [Hy Hn]; specialize (IH Hn); lia).
    rewrite Z.min_r by lia. rewrite IH by (try assumption; lia). f_equal. lia.
Qed.

Lemma sumZ_nonneg l : nonneg l -> 0 <= sumZ l.
Proof. unfold sumZ. induction l as [|y l IH]; cbn; intros Hn; [lia|]. apply nonneg_cons in Hn. destruct Hn as [Hy Hn]. specialize (IH Hn). lia. Qed.

Lemma segs_of_bounds s l max : nonneg l -> 0 <= s -> s + sumZ l <= max ->
  Forall2 (fun x seg => 0 <= fst seg /\ fst seg <= snd seg /\ snd seg <= max /\ snd seg - fst seg = x) l (segs_of s l).
Proof.
  revert s. induction l as [|x l IH]; intros s Hn Hs Hm; cbn [segs_of]; [constructor|].
  apply nonneg_cons in Hn. destruct Hn as [Hx Hn]. cbn [sumZ fold_right] in Hm. fold (sumZ l) in Hm.
  pose proof (sumZ_nonneg l Hn). constructor; [cbn; lia|]. apply IH; [assumption|lia|lia].
Qed.

(* split with a list of sizes torch accepts (non-negative, summing to the size of the dim; not empty) *)
Theorem split_list_acts_on_batch_dims : forall t l d shapes,
  wf t -> is_node t -> l <> [] -> t_split_list (top_shape t) l d = Ok shapes ->
  exists ts, td_split t (inr l) d = Done ts /\
             Forall2 (fun s t' => top_shape t' = s /\ rel (top_shape t) s t t' /\ wf t') shapes ts.
Proof.
  intros t l d shapes Hw Hn Hne Ht. destruct t as [sh|bs nm ents]; [contradiction|]. cbn [top_shape] in *.
  unfold t_split_list in Ht. destruct bs as [|b0 bs0] eqn:Eb; [discriminate|]. rewrite <- Eb in *.
  destruct (wrap_dim d (List.length bs)) as [i|] eqn:Ei; [|discriminate]. cbn [bind] in Ht.
  destruct (forallb (fun x => 0 <=? x) l && (sumZ l =? nthZ bs i)) eqn:E; [|discriminate]. injection Ht as <-.
  apply andb_true_iff in E. destruct E as [E1 E2]. apply forallb_nonneg in E1. apply Z.eqb_eq in E2.
  pose proof (wrap_dim_ok _ _ _ Ei) as [Hi _].
  cbn [td_split]. rewrite (correct_neg_dim_wrap _ _ _ Ei). cbn [bindo].
  destruct l as [|x r]; [congruence|]. cbn [split_list_segments]. change fixed_D4 with true. cbn [andb]. cbv iota.
  assert (Hfb : forallb (fun y => 0 <=? y) (x :: r) = true) by (apply forallb_nonneg; exact E1).
  rewrite Hfb. cbn [negb].
  pose proof E1 as Hnn. apply nonneg_cons in Hnn. destruct Hnn as [Hx Hr].
  cbn [sumZ fold_right] in E2. fold (sumZ r) in E2.
  rewrite Z.min_r by (pose proof (sumZ_nonneg r Hr); lia).
  rewrite split_list_loop_legal by (try assumption; lia).
  destruct (x + sumZ r <? nthZ bs i) eqn:E3; [lia|]. cbn [bindo].
  eexists. split; [reflexivity|].
  assert (Hsegs : Forall2 (fun y seg => 0 <= fst seg /\ fst seg <= snd seg /\ snd seg <= nthZ bs i /\ snd seg - fst seg = y)
                    (x :: r) ((0, x) :: segs_of x r)).
  { constructor; [cbn; pose proof (sumZ_nonneg r Hr); lia|]. apply segs_of_bounds; [assumption|lia|lia]. }
  clear E3. revert Hsegs. generalize ((0, x) :: segs_of x r) as segs. generalize (x :: r) as ls. clear - Hw Hi.
  intros ls segs HF. induction HF as [|y seg ls' segs' [H0 [H1 [H2 H3]]] _ IHF]; cbn [map]; constructor; [|exact IHF].
  destruct seg as [a b]. cbn [fst snd] in *. subst y.
  pose proof (slice_tree_rel (Node bs nm ents) i a b bs [] (if has_names nm then Some nm else Some None) Hw
                ltac:(cbn; rewrite app_nil_r; reflexivity) Hi H0 H1 H2) as Hs.
  rewrite app_nil_r in Hs. cbv zeta in Hs.
  destruct Hs as [Hr Hw'].
  { inversion Hw as [|? ? ? _ Hnm _]; subst. destruct nm as [ln|]; cbn in *; [|exact I]. rewrite set_nth_length by lia. exact Hnm. }
  split; [reflexivity|]. split; assumption.
Qed.

(* ------------------------------------------------------------------ split(int) / chunk *)
Definition seg_ok (max : Z) (x : Z) (seg : Z * Z) : Prop :=
  0 <= fst seg /\ fst seg <= snd seg /\ snd seg <= max /\ snd seg - fst seg = x.

Lemma split_int_loop_pieces max k : 0 < k -> forall fuel s, 0 <= s -> s <= max -> (Z.to_nat (max - s) <= fuel)%nat ->
  Forall2 (seg_ok max) (pieces fuel (max - s) k) ((s, Z.min max (s + k)) :: split_int_loop fuel (Z.min max (s + k)) max k).
Proof.
  intros Hk. induction fuel as [|f IH]; intros s Hs Hm Hf.
  - assert (max - s = 0) by lia. cbn [pieces split_int_loop]. constructor; [|constructor]. unfold seg_ok. cbn. lia.
  - cbn [pieces split_int_loop]. destruct (max - s <=? k) eqn:E.
    + rewrite Z.min_l by lia. rewrite Z.ltb_irrefl. constructor; [|constructor]. unfold seg_ok. cbn. lia.
    + rewrite Z.min_r by lia. destruct (s + k <? max) eqn:E2; [|lia]. constructor; [unfold seg_ok; cbn; lia|].
      replace (max - s - k) with (max - (s + k)) by lia. apply IH; lia.
Qed.

Lemma segs_to_trees t bs nm ents i xs segs :
  t = Node bs nm ents -> wf t -> (i < List.length bs)%nat ->
  Forall2 (seg_ok (nthZ bs i)) xs segs ->
  Forall2 (fun s t' => top_shape t' = s /\ rel bs s t t' /\ wf t')
    (map (fun x => set_nth i x bs) xs)
    (map (fun seg => slice_tree t i (fst seg) (snd seg) (set_nth i (snd seg - fst seg) bs)
                                (if has_names nm then Some nm else Some None)) segs).
Proof.
  intros -> Hw Hi HF. induction HF as [|y seg ls' segs' [H0 [H1 [H2 H3]]] _ IHF]; cbn [map]; constructor; [|exact IHF].
  destruct seg as [a b]. cbn [fst snd] in *. subst y.
  pose proof (slice_tree_rel (Node bs nm ents) i a b bs [] (if has_names nm then Some nm else Some None) Hw
                ltac:(cbn; rewrite app_nil_r; reflexivity) Hi H0 H1 H2) as Hs.
  rewrite app_nil_r in Hs. cbv zeta in Hs.
  destruct Hs as [Hr Hw'].
  { inversion Hw as [|? ? ? _ Hnm _]; subst. destruct nm as [ln|]; cbn in *; [|exact I]. rewrite set_nth_length by lia. exact Hnm. }
  split; [reflexivity|]. split; assumption.
Qed.

Theorem split_int_acts_on_batch_dims : forall t k d shapes,
  wf t -> is_node t -> t_split_int (top_shape t) k d = Ok shapes ->
  exists ts, td_split t (inl k) d = Done ts /\
             Forall2 (fun s t' => top_shape t' = s /\ rel (top_shape t) s t t' /\ wf t') shapes ts.
Proof.
  intros t k d shapes Hw Hn Ht. destruct t as [sh|bs nm ents]; [contradiction|]. cbn [top_shape] in *.
  unfold t_split_int in Ht. destruct bs as [|b0 bs0] eqn:Eb; [discriminate|]. rewrite <- Eb in *.
  destruct (wrap_dim d (List.length bs)) as [i|] eqn:Ei; [|discriminate]. cbn [bind] in Ht.
  pose proof (wrap_dim_ok _ _ _ Ei) as [Hi _].
  assert (Hsz : 0 <= nthZ bs i) by (inversion Hw; subst; apply nonneg_nth; assumption).
  cbn [td_split]. rewrite (correct_neg_dim_wrap _ _ _ Ei). cbn [bindo]. unfold split_int_segments.
  destruct (k <? 0) eqn:E0; [discriminate|]. destruct (k =? 0) eqn:E1.
  - destruct (nthZ bs i =? 0) eqn:E2; [|discriminate]. injection Ht as <-.
    destruct (0 <? k) eqn:E3; [lia|]. change fixed_D4 with true. cbv iota. rewrite ?E1, ?E2. cbn [andb bindo map].
    eexists. split; [reflexivity|].
    pose proof (segs_to_trees (Node bs nm ents) bs nm ents i [0] [(0, 0)] eq_refl Hw Hi) as HS.
    cbn [map fst snd] in HS. replace (set_nth i 0 bs) with bs in HS at 1; [apply HS|].
    + constructor; [|constructor]. unfold seg_ok. cbn. lia.
    + apply (list_ext_nth _ _ 0); [rewrite set_nth_length; lia|]. intros j Hj.
      rewrite set_nth_nth_default by lia. destruct (Nat.eqb j i) eqn:E4; [|reflexivity].
      apply Nat.eqb_eq in E4. subst. unfold nthZ in E2. lia.
  - injection Ht as <-. destruct (0 <? k) eqn:E3; [|lia]. cbn [bindo].
    eexists. split; [reflexivity|].
    apply (segs_to_trees (Node bs nm ents) bs nm ents i _ _ eq_refl Hw Hi).
    pose proof (split_int_loop_pieces (nthZ bs i) k ltac:(lia) (Z.to_nat (nthZ bs i)) 0 ltac:(lia) Hsz ltac:(lia)) as HP.
    rewrite Z.sub_0_r, Z.add_0_l in HP. exact HP.
Qed.

Lemma py_ceil_div sz c : 0 < c -> - (sz / - c) = cdiv sz c.
Proof. intros Hc. unfold cdiv. nia. Qed.

Lemma set_nth_same (bs : list Z) i : (i < List.length bs)%nat -> set_nth i (nthZ bs i) bs = bs.
Proof.
  intros Hi. apply (list_ext_nth _ _ 0); [rewrite set_nth_length; lia|]. intros j Hj.
  rewrite set_nth_nth_default by lia. destruct (Nat.eqb j i) eqn:E4; [|reflexivity]. apply Nat.eqb_eq in E4. subst. reflexivity.
Qed.

Lemma map_repeat' {A B} (f : A -> B) x n : map f (repeat x n) = repeat (f x) n.
Proof. induction n as [|n IH]; cbn; [reflexivity|]. f_equal. exact IH. Qed.

Lemma sumZ_repeat0 n : sumZ (repeat 0 n) = 0.
Proof. unfold sumZ. induction n as [|n IH]; cbn; [reflexivity|]. exact IH. Qed.

Lemma nonneg_repeat0 n : nonneg (repeat 0 n).
Proof. unfold nonneg. rewrite Forall_forall. intros x Hx. apply repeat_spec in Hx. lia. Qed.

(* chunk, every dim torch accepts, every number of chunks >= 1 -- a dim of size 0 included (after fixes/C02/C02-e) *)
Theorem chunk_acts_on_batch_dims : forall t c d shapes,
  wf t -> is_node t -> t_chunk (top_shape t) c d = Ok shapes ->
  exists ts, td_chunk t c d = Done ts /\
             Forall2 (fun s t' => top_shape t' = s /\ rel (top_shape t) s t t' /\ wf t') shapes ts.
Proof.
  intros t c d shapes Hw Hn Ht. destruct t as [sh|bs nm ents]; [contradiction|]. cbn [top_shape] in *.
  unfold t_chunk in Ht. destruct bs as [|b0 bs0] eqn:Eb; [discriminate|]. rewrite <- Eb in *.
  destruct (wrap_dim d (List.length bs)) as [i|] eqn:Hi; [|discriminate]. cbn [bind] in Ht.
  destruct (c <=? 0) eqn:E0; [discriminate|].
  pose proof (wrap_dim_ok _ _ _ Hi) as [Hi1 Hi2].
  assert (Hsz : 0 <= nthZ bs i) by (inversion Hw; subst; apply nonneg_nth; assumption).
  cbn [td_chunk]. destruct (c <? 1) eqn:E2; [lia|]. unfold len.
  destruct ((d <? - Z.of_nat (List.length bs)) || (Z.of_nat (List.length bs) <=? d)) eqn:E3.
  { unfold wrap_dim in Hi. rewrite E3 in Hi. discriminate. }
  assert (Hpos' : py_pos bs d = i).
  { unfold py_pos, len. destruct (d <? 0) eqn:E4; lia. }
  rewrite Hpos', py_ceil_div by lia. change fixed_C02e with true. cbn [andb].
  destruct (nthZ bs i =? 0) eqn:E1.
  - (* a dim of size 0: `chunks` empty chunks *)
    injection Ht as <-. assert (Hz : nthZ bs i = 0) by lia.
    assert (Hk : cdiv (nthZ bs i) c =? 0 = true) by (rewrite Hz; unfold cdiv; apply Z.eqb_eq; nia).
    rewrite Hk.
    assert (Hl : repeat 0 (Z.to_nat c) <> []) by (destruct (Z.to_nat c) eqn:Ec; [lia|discriminate]).
    destruct (split_list_acts_on_batch_dims (Node bs nm ents) (repeat 0 (Z.to_nat c)) d
                (map (fun x => set_nth i x bs) (repeat 0 (Z.to_nat c))) Hw I Hl) as [ts [Hs HF]].
    { cbn [top_shape]. unfold t_split_list. rewrite Eb. rewrite <- Eb. rewrite Hi. cbn [bind].
      assert (Hfb : forallb (fun x => 0 <=? x) (repeat 0 (Z.to_nat c)) = true) by (apply forallb_nonneg, nonneg_repeat0).
      rewrite Hfb, sumZ_repeat0, Hz. reflexivity. }
    exists ts. split; [exact Hs|]. cbn [top_shape] in HF.
    assert (Heq : map (fun x => set_nth i x bs) (repeat 0 (Z.to_nat c)) = @repeat shape bs (Z.to_nat c)).
    { rewrite map_repeat'. f_equal. rewrite <- Hz. apply set_nth_same. exact Hi1. }
    rewrite <- Heq. exact HF.
  - assert (Hcd : 0 < cdiv (nthZ bs i) c) by (unfold cdiv; nia).
    destruct (cdiv (nthZ bs i) c =? 0) eqn:E6; [lia|].
    apply (split_int_acts_on_batch_dims (Node bs nm ents) (cdiv (nthZ bs i) c) d shapes Hw I).
    cbn [top_shape]. unfold t_split_int. rewrite Eb. rewrite <- Eb. rewrite Hi. cbn [bind].
    destruct (cdiv (nthZ bs i) c <? 0) eqn:E5; [lia|]. rewrite E6. exact Ht.
Qed.

(* ------------------------------------------------------------------ masked_select with a mask of the batch shape *)
Lemma is_prefix_app a b : is_prefix a (a ++ b) = true.
Proof. induction a as [|x a IH]; [reflexivity|]. cbn. rewrite Z.eqb_refl. exact IH. Qed.

Lemma mask_index_lifts : forall t bs tl cnt,
  wf t -> top_shape t = bs ++ tl -> 0 <= cnt ->
  exists t', mask_index t bs cnt = Done t' /\ rel bs [cnt] t t'.
Proof.
  induction t as [sh|b nm ents IH] using tree_ind'; intros bs tl cnt Hw Ht Hc; cbn in Ht; subst; cbn [mask_index].
  - rewrite is_prefix_app, skipn_app_exact. eexists. split; [reflexivity|]. apply (rel_leaf bs [cnt] tl).
  - rewrite is_prefix_app. cbn [negb]. inversion Hw as [|? ? ? Hnn Hnm HF]; subst.
    assert (Hents : exists ents',
      (fix go (l : list (string * tree)) : out (list (string * tree)) :=
         match l with
         | [] => Done []
         | (key, c) :: r => let* c' := mask_index c bs cnt in let* r' := go r in Done ((key, c') :: r')
         end) ents = Done ents' /\
      Forall2 (fun e e' => fst e = fst e' /\ rel bs [cnt] (snd e) (snd e')) ents ents').
    { clear Hw. induction ents as [|[k c] l IHl]; [exists []; split; [reflexivity|constructor]|].
      pose proof (Forall_inv IH) as IHc. pose proof (Forall_inv_tail IH) as IHr.
      pose proof (Forall_inv HF) as [Hwc [tl2 Hcs]]. pose proof (Forall_inv_tail HF) as HFr. cbn [snd] in *.
      destruct (IHc bs (tl ++ tl2) cnt Hwc ltac:(rewrite Hcs, app_assoc; reflexivity) Hc) as [c' [Hc' Hr']].
      destruct (IHl IHr HFr) as [l' [Hl' HF2]]. rewrite Hc'. cbn [bindo]. rewrite Hl'. cbn [bindo].
      exists ((k, c') :: l'). split; [reflexivity|]. constructor; [|exact HF2]. split; [reflexivity|exact Hr']. }
    destruct Hents as [ents' [He HF2]]. rewrite He. cbn [bindo]. rewrite skipn_app_exact.
    eexists. split; [reflexivity|]. apply (rel_node bs [cnt] tl). exact HF2.
Qed.

Lemma squeeze_mask_same bs : squeeze_mask (List.length bs) bs (List.length bs) = bs.
Proof. destruct bs as [|x bs]; [reflexivity|]. cbn [List.length squeeze_mask]. rewrite Nat.ltb_irrefl. reflexivity. Qed.

(* masked_select by a mask of the batch shape with cnt True entries: torch's shape is [cnt]; every entry bs ++ feat
   becomes [cnt] ++ feat, nested nodes alike *)
Theorem masked_select_acts_on_batch_dims : forall t cnt,
  wf t -> is_node t -> 0 <= cnt ->
  t_masked_select (top_shape t) (top_shape t) cnt = Ok [cnt] /\
  exists t', td_masked_select t (top_shape t) cnt = Done t' /\ top_shape t' = [cnt] /\ rel (top_shape t) [cnt] t t'.
Proof.
  intros t cnt Hw Hn Hc. destruct t as [sh|bs nm ents]; [contradiction|]. cbn [top_shape]. split.
  { unfold t_masked_select, broadcastable. assert (H : forall l, broadcastable_rev l l = true)
      by (induction l as [|x l IH]; [reflexivity|]; cbn; rewrite Z.eqb_refl; exact IH). rewrite H. reflexivity. }
  cbn [td_masked_select]. rewrite squeeze_mask_same. inversion Hw as [|? ? ? Hnn Hnm HF]; subst.
  assert (Hents : exists ents',
    (fix go (l : list (string * tree)) : out (list (string * tree)) :=
       match l with
       | [] => Done []
       | (key, c) :: r => let* c' := mask_index c bs cnt in let* r' := go r in Done ((key, c') :: r')
       end) ents = Done ents' /\
    Forall2 (fun e e' => fst e = fst e' /\ rel bs [cnt] (snd e) (snd e')) ents ents').
  { clear Hw Hn. induction ents as [|[k c] l IHl]; [exists []; split; [reflexivity|constructor]|].
    pose proof (Forall_inv HF) as [Hwc [tl2 Hcs]]. pose proof (Forall_inv_tail HF) as HFr. cbn [snd] in *.
    destruct (mask_index_lifts c bs tl2 cnt Hwc Hcs Hc) as [c' [Hc' Hr']].
    destruct (IHl HFr) as [l' [Hl' HF2]]. rewrite Hc'. cbn [bindo]. rewrite Hl'. cbn [bindo].
    exists ((k, c') :: l'). split; [reflexivity|]. constructor; [|exact HF2]. split; [reflexivity|exact Hr']. }
  destruct Hents as [ents' [He HF2]]. rewrite He. cbn [bindo].
  assert (Hfrom : py_from bs (len bs) = []).
  { unfold len. rewrite py_from_in by lia. apply skipn_all. }
  rewrite Hfrom.
  assert (Hchk : forallb (fun e => is_prefix [cnt] (top_shape (snd e))) ents' = true).
  { apply forallb_forall. intros e He'. clear - HF2 He'. induction HF2 as [|x y l l' [_ Hr] _ IHF]; [destruct He'|].
    destruct He' as [<-|Hin]; [|exact (IHF Hin)]. destruct (rel_top _ _ _ _ Hr) as [tl [_ E2]]. rewrite E2. cbn. rewrite Z.eqb_refl. reflexivity. }
  rewrite Hchk. eexists. split; [reflexivity|]. split; [reflexivity|].
  pose proof (rel_node bs [cnt] [] nm None ents ents' HF2) as HR. rewrite !app_nil_r in HR. exact HR.
Qed.

(* ------------------------------------------------------------------ chains of calls: repeat_interleave on a rank-0 batch *)
Lemma rel_trans a b c : forall t t1 t2, rel a b t t1 -> rel b c t1 t2 -> rel a c t t2.
Proof.
  induction t as [sh|bs nm ents IH] using tree_ind'; intros t1 t2 H1 H2.
  - inversion H1 as [tl|]; subst. inversion H2 as [tl' Heq|]; subst. apply app_inv_head in Heq. subst. constructor.
  - inversion H1 as [|tl nm0 nm1 e0 e1 HF1]; subst. inversion H2 as [|tl' nm2 nm3 e2 e3 HF2 Heq]; subst.
    apply app_inv_head in Heq. subst tl'. constructor.
    clear H1 H2. revert e3 HF2. induction HF1 as [|x y l l' [Hk Hr] _ IHF]; intros e3 HF2; inversion HF2 as [|y' z l2 l3 [Hk2 Hr2] HF2']; subst; constructor.
    + split; [congruence|]. exact (Forall_inv IH _ _ Hr Hr2).
    + apply IHF; [exact (Forall_inv_tail IH)|exact HF2'].
Qed.

(* tensordict's extension: a rank-0 batch is repeated as a batch of one element (torch on the unsqueezed proxy gives [r]) *)
Theorem repeat_interleave_rank0 : forall t r d,
  wf t -> is_node t -> top_shape t = [] -> 0 <= r -> (d = None \/ d = Some 0 \/ d = Some (-1)) ->
  exists t', td_repeat_interleave t r d = Done t' /\ top_shape t' = [r] /\ rel [] [r] t t' /\ wf t'.
Proof.
  intros t r d Hw Hn Ht Hr Hd. destruct t as [sh|bs nm ents]; [contradiction|]. cbn [top_shape] in Ht. subst bs.
  cbn [td_repeat_interleave].
  destruct (shape_ops_act_on_batch_dims (Node [] nm ents) (OUnsqueeze 0) [1] Hw I eq_refl) as [t1 [H1 [R1 W1]]].
  rewrite H1. cbn [bindo]. cbn [top_shape] in R1.
  assert (Ht1 : top_shape t1 = [1]).
  { destruct (rel_top _ _ _ _ R1) as [tl [E1 E2]]. cbn in E1. subst tl. exact E2. }
  set (dd := match d with Some d0 => d0 | None => 0 end).
  assert (Hts : torch_shape (ORepInt r dd) [1] = Ok [r]).
  { cbn [torch_shape]. unfold t_repeat_interleave. destruct (r <? 0) eqn:E; [lia|].
    replace [r] with [1 * r] by (f_equal; lia).
    destruct Hd as [->|[->| ->]]; reflexivity. }
  destruct (shape_ops_act_on_batch_dims t1 (ORepInt r dd) [r] W1 ltac:(rewrite Ht1; discriminate) ltac:(rewrite Ht1; exact Hts))
    as [t2 [H2 [R2 W2]]].
  rewrite H2. exists t2. rewrite Ht1 in R2. split; [reflexivity|]. split; [|split; [eapply rel_trans; eassumption|exact W2]].
  destruct (rel_top _ _ _ _ R2) as [tl [E1 E2]]. rewrite Ht1 in E1. change [1] with ([1] ++ []) in E1 at 1.
  apply app_inv_head in E1. subst tl. exact E2.
Qed.
