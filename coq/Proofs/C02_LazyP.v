(* C02 proofs, part 14: lazy stacks.  On top of C08's transcription of LazyStackedTensorDict._permute
   (Model/C08_Lazy.lz_permute: new stack dim = the position of the old stack dim in dims, members permuted by the
   remaining dims shifted over the stack dim) the C02 statement: for EVERY rank, EVERY stack dim and EVERY permutation
   torch accepts for the derived batch size (the members' batch size with the member count inserted at the stack dim),
   the result's derived batch size is torch's shape for that batch size -- and its stack dim is where torch put the
   member count.  (C08 states lazy == dense for transpose and unsqueeze; permute had no theorem.) *)
From Coq Require Import ZArith List Bool Lia ZifyBool.
Import ListNotations.
From TD Require Import Spec.PySlice Spec.C08_Dense Model.C08_Lazy Proofs.C08_CoordP Proofs.C08_ShapeP.
From TD Require Spec.C02_TorchShape.
Open Scope Z_scope.

Module T := Spec.C02_TorchShape.

(* ------------------------------------------------------------------ lists of dims *)
Lemma index_of_split d : forall l k j, index_of d l k = Some j ->
  exists pre post, l = pre ++ d :: post /\ ~ In d pre /\ j = (k + List.length pre)%nat.
Proof.
  induction l as [|x l IH]; intros k j H; cbn [index_of] in H; [discriminate|].
  destruct (Nat.eqb x d) eqn:E.
  - apply Nat.eqb_eq in E. subst. injection H as <-. exists [], l. cbn. split; [reflexivity|]. split; [tauto|lia].
  - apply Nat.eqb_neq in E. destruct (IH _ _ H) as [pre [post [-> [Hn ->]]]]. exists (x :: pre), post.
    split; [reflexivity|]. split; [intros [C|C]; [congruence|tauto]|]. cbn [List.length]. lia.
Qed.

Lemma index_of_in d : forall l k, In d l -> exists j, index_of d l k = Some j.
Proof.
  induction l as [|x l IH]; intros k H; [contradiction|]. cbn [index_of]. destruct (Nat.eqb x d) eqn:E; [eauto|].
  apply Nat.eqb_neq in E. destruct H as [H|H]; [congruence|]. apply IH. exact H.
Qed.

Lemma nodupb_NoDup l : T.nodupb l = true -> NoDup l.
Proof.
  induction l as [|x l IH]; cbn [T.nodupb]; intros H; [constructor|].
  apply andb_true_iff in H. destruct H as [H1 H2]. constructor; [|apply IH; exact H2].
  intros Hin. apply negb_true_iff in H1. assert (Hx : existsb (Nat.eqb x) l = true) by (apply existsb_exists; exists x; split; [exact Hin|apply Nat.eqb_refl]).
  congruence.
Qed.

(* a duplicate-free list of m dims below m holds every dim below m *)
Lemma perm_all_in p m : T.nodupb p = true -> Forall (fun i => (i < m)%nat) p -> List.length p = m ->
  forall d, (d < m)%nat -> In d p.
Proof.
  intros Hn Hr Hl d Hd.
  assert (Hincl : incl (seq 0 m) p).
  { apply NoDup_length_incl; [apply nodupb_NoDup; exact Hn|rewrite seq_length; lia|].
    intros x Hx. rewrite Forall_forall in Hr. apply in_seq. specialize (Hr x Hx). lia. }
  apply Hincl. apply in_seq. lia.
Qed.

Lemma mapM_wrap_c08 dims m p : T.mapM (fun d => T.wrap_dim d m) dims = T.Ok p ->
  let ds := map (fun d => if d <? 0 then d + Z.of_nat m else d) dims in
  forallb (fun d => in_dim d (Z.of_nat m)) ds = true /\ map Z.to_nat ds = p /\ Forall (fun i => (i < m)%nat) p /\
  List.length p = List.length dims.
Proof.
  revert p. induction dims as [|d dims IH]; intros p H; cbn [T.mapM] in H.
  - injection H as <-. cbn. auto.
  - destruct (T.wrap_dim d m) as [i|] eqn:E; [|discriminate]. cbn [T.bind] in H.
    destruct (T.mapM _ dims) as [p0|] eqn:E2; [|discriminate]. cbn [T.bind] in H. injection H as <-.
    destruct (IH _ eq_refl) as [H1 [H2 [H3 H4]]]. cbv zeta in *. cbn [map forallb List.length].
    unfold T.wrap_dim in E. destruct ((d <? - Z.of_nat m) || (Z.of_nat m <=? d)) eqn:Eb; [discriminate|]. injection E as <-.
    rewrite H1, H2, H4. unfold in_dim. split; [|split; [|split; [constructor; [|exact H3]|reflexivity]]].
    + destruct (d <? 0) eqn:E3; rewrite andb_true_r; lia.
    + f_equal; destruct (d <? 0) eqn:E3; lia.
    + destruct (d <? 0) eqn:E3; lia.
Qed.

Definition dec (sd d : nat) : nat := if (d <? sd)%nat then d else (d - 1)%nat.

Lemma filter_notin sd l : ~ In sd l -> filter (fun d => negb (Nat.eqb d sd)) l = l.
Proof.
  induction l as [|x l IH]; intros H; [reflexivity|]. cbn [filter]. destruct (Nat.eqb x sd) eqn:E.
  - apply Nat.eqb_eq in E. subst. exfalso. apply H. left. reflexivity.
  - cbn [negb]. rewrite IH; [reflexivity|]. intros C. apply H. right. exact C.
Qed.

Lemma nth_insert_at_other (l : list Z) sd x e : (sd <= List.length l)%nat -> e <> sd ->
  nth e (insert_at sd x l) 0 = nth (dec sd e) l 0.
Proof.
  intros Hs Hne. unfold insert_at, dec. destruct (e <? sd)%nat eqn:E.
  - apply Nat.ltb_lt in E. rewrite app_nth1 by (rewrite firstn_length; lia).
    rewrite <- (firstn_skipn sd l) at 2. rewrite app_nth1 by (rewrite firstn_length; lia). reflexivity.
  - apply Nat.ltb_ge in E. rewrite app_nth2 by (rewrite firstn_length; lia). rewrite firstn_length, Nat.min_l by lia.
    replace (e - sd)%nat with (S (e - sd - 1)) by lia. cbn [nth].
    rewrite <- (firstn_skipn sd l) at 2. rewrite app_nth2 by (rewrite firstn_length; lia). rewrite firstn_length, Nat.min_l by lia.
    f_equal. lia.
Qed.

Lemma nth_insert_at_same (l : list Z) sd x : (sd <= List.length l)%nat -> nth sd (insert_at sd x l) 0 = x.
Proof.
  intros Hs. unfold insert_at. rewrite app_nth2 by (rewrite firstn_length; lia). rewrite firstn_length, Nat.min_l by lia.
  rewrite Nat.sub_diag. reflexivity.
Qed.

Lemma insert_at_app {A} (a b : list A) x : insert_at (List.length a) x (a ++ b) = a ++ x :: b.
Proof.
  unfold insert_at. rewrite firstn_app, firstn_all, Nat.sub_diag. cbn [firstn]. rewrite app_nil_r.
  rewrite skipn_app, skipn_all, Nat.sub_diag. reflexivity.
Qed.

(* ------------------------------------------------------------------ the theorem *)
Theorem lazy_permute_batch_size : forall sd bs0 parts bs dims bs' fuel,
  parts <> [] -> Forall (fun p => shape_of p = Some bs) parts -> Forall (fun p => is_stack p = false) parts ->
  (sd <= List.length bs)%nat ->
  T.t_permute (insert_at sd (lenZ parts) bs) dims = T.Ok bs' ->
  exists nsd ms, lz_permute (S fuel) (Stack sd bs0 parts) dims = Ok (Stack nsd bs0 ms) /\
                 shape_of (Stack nsd bs0 ms) = Some bs' /\ lenZ ms = lenZ parts /\
                 nth_error bs' nsd = Some (lenZ parts) /\
                 nth_error (map (fun d => if d <? 0 then d + Z.of_nat (S (List.length bs)) else d) dims) nsd = Some (Z.of_nat sd).
Proof.
  intros sd bs0 parts bs dims bs' fuel Hne Hsh Hflat Hsd Ht.
  set (N := lenZ parts) in *. set (shape := insert_at sd N bs) in *.
  assert (Hshape : shape_of (Stack sd bs0 parts) = Some shape) by (apply shape_of_stack; assumption).
  assert (Hrank : List.length shape = S (List.length bs)).
  { unfold shape, insert_at. rewrite app_length. cbn [List.length]. rewrite firstn_length, skipn_length. lia. }
  unfold T.t_permute in Ht. destruct (Nat.eqb (List.length dims) (List.length shape)) eqn:El; [|discriminate].
  apply Nat.eqb_eq in El. cbn [negb] in Ht.
  destruct (T.mapM (fun d => T.wrap_dim d (List.length shape)) dims) as [p|] eqn:Em; [|discriminate]. cbn [T.bind] in Ht.
  destruct (T.nodupb p) eqn:Hnd; [|discriminate]. injection Ht as <-.
  destruct (mapM_wrap_c08 _ _ _ Em) as [Hin [Hp [Hlt Hlp]]]. cbv zeta in Hin, Hp.
  assert (Hall : forall d, (d < List.length shape)%nat -> In d p) by (apply perm_all_in; [exact Hnd|exact Hlt|lia]).
  (* C08's is_perm *)
  assert (Hisp : is_perm p = true).
  { unfold is_perm. apply forallb_forall. intros d Hd. apply in_seq in Hd.
    destruct (index_of_in d p 0 (Hall d ltac:(lia))) as [j ->]. reflexivity. }
  destruct (index_of_in sd p 0 (Hall sd ltac:(lia))) as [nsd Hnsd].
  destruct (index_of_split _ _ _ _ Hnsd) as [pre [post [Ep [Hnpre Ensd]]]]. cbn in Ensd. subst nsd.
  assert (Hnpost : ~ In sd post).
  { apply nodupb_NoDup in Hnd. rewrite Ep in Hnd. apply NoDup_remove_2 in Hnd. intros C. apply Hnd. apply in_or_app. right. exact C. }
  set (mdims := map (dec sd) pre ++ map (dec sd) post).
  assert (Hmd : map (fun d => if (d <? sd)%nat then d else (d - 1)%nat) (filter (fun d => negb (Nat.eqb d sd)) p) = mdims).
  { rewrite Ep, filter_app. cbn [filter]. rewrite Nat.eqb_refl. cbn [negb]. rewrite !filter_notin by assumption.
    rewrite map_app. reflexivity. }
  assert (Hlen : (List.length pre + List.length post = List.length bs)%nat).
  { assert (E : List.length p = S (List.length bs)) by lia. rewrite Ep, app_length in E. cbn [List.length] in E. lia. }
  assert (Hmdl : List.length mdims = List.length bs) by (unfold mdims; rewrite app_length, !map_length; lia).
  assert (Hothers : forall e, In e pre \/ In e post -> e <> sd /\ (e < S (List.length bs))%nat).
  { intros e He. split; [intros ->; tauto|]. rewrite Forall_forall in Hlt. rewrite <- Hrank. apply Hlt. rewrite Ep.
    apply in_or_app. destruct He; [left; assumption|right; right; assumption]. }
  assert (Hmd_lt : forall x, In x mdims -> (x < List.length bs)%nat).
  { intros x Hx. unfold mdims in Hx. apply in_app_or in Hx.
    assert (He : exists e, x = dec sd e /\ (In e pre \/ In e post)).
    { destruct Hx as [Hx|Hx]; apply in_map_iff in Hx; destruct Hx as [e [<- He]]; eauto. }
    destruct He as [e [-> He]]. destruct (Hothers e He) as [H1 H2]. unfold dec. destruct (e <? sd)%nat eqn:E; lia. }
  assert (Hmd_all : forall d, (d < List.length bs)%nat -> In d mdims).
  { intros d Hd. set (e := if (d <? sd)%nat then d else S d).
    assert (He : (e < List.length shape)%nat /\ e <> sd /\ dec sd e = d).
    { unfold e, dec. destruct (d <? sd)%nat eqn:E; [rewrite E; lia|].
      destruct (S d <? sd)%nat eqn:E2; lia. }
    destruct He as [He1 [He2 He3]]. pose proof (Hall e He1) as Hine. rewrite Ep in Hine. apply in_app_or in Hine.
    unfold mdims. apply in_or_app. rewrite <- He3.
    destruct Hine as [Hi|[Hi|Hi]]; [left; apply in_map; exact Hi|congruence|right; apply in_map; exact Hi]. }
  assert (Hisp_m : is_perm mdims = true).
  { unfold is_perm. apply forallb_forall. intros d Hd. apply in_seq in Hd.
    destruct (index_of_in d mdims 0 (Hmd_all d ltac:(lia))) as [j ->]. reflexivity. }
  set (bsm := map (fun d => nth d bs 0) mdims).
  assert (Hps : perm_shape mdims bs = Some bsm).
  { unfold perm_shape. rewrite Hmdl, Nat.eqb_refl, Hisp_m. cbn [andb]. apply all_some_map.
    intros x Hx. apply nth_error_nth'. apply Hmd_lt. exact Hx. }
  (* the call *)
  cbn [lz_permute]. rewrite Hshape. rewrite Hrank in *.
  rewrite map_length, El, Nat.eqb_refl. cbn [negb orb]. rewrite Hin. cbn [negb]. rewrite Hp, Hisp. cbn [negb].
  rewrite Hnsd, Hmd.
  rewrite (rmap_map_ok _ (fun m => Perm mdims m)).
  2:{ intros m Hm. rewrite Forall_forall in Hflat. rewrite (Hflat m Hm). reflexivity. }
  cbn [rbind]. exists (List.length pre), (map (fun m => Perm mdims m) parts). split; [reflexivity|].
  assert (Hlm : lenZ (map (fun m => Perm mdims m) parts) = N) by (unfold lenZ, N; rewrite map_length; reflexivity).
  assert (Hfinal : insert_at (List.length pre) N bsm = map (T.nthZ shape) p).
  { unfold bsm, mdims. rewrite map_app, !map_map.
    rewrite <- (map_length (fun x => nth (dec sd x) bs 0) pre). rewrite insert_at_app. rewrite Ep, map_app. cbn [map].
    f_equal; [|f_equal].
    - apply map_ext_in. intros e He. unfold T.nthZ, shape. rewrite nth_insert_at_other; [reflexivity|exact Hsd|].
      apply (Hothers e). left. exact He.
    - unfold T.nthZ, shape. rewrite nth_insert_at_same by exact Hsd. reflexivity.
    - apply map_ext_in. intros e He. unfold T.nthZ, shape. rewrite nth_insert_at_other; [reflexivity|exact Hsd|].
      apply (Hothers e). right. exact He. }
  split.
  - rewrite (shape_of_stack _ _ _ bsm).
    + rewrite Hlm, Hfinal. reflexivity.
    + destruct parts; [congruence|discriminate].
    + apply Forall_forall. intros x Hx. apply in_map_iff in Hx. destruct Hx as [m [<- Hm]]. cbn [shape_of].
      rewrite Forall_forall in Hsh. rewrite (Hsh m Hm). cbn [opt_bind]. exact Hps.
    + unfold bsm. rewrite map_length, Hmdl. lia.
  - split; [exact Hlm|]. split.
    + rewrite Ep, map_app. cbn [map]. rewrite nth_error_app2 by (rewrite map_length; lia). rewrite map_length, Nat.sub_diag. cbn [nth_error].
      unfold T.nthZ, shape. rewrite nth_insert_at_same by exact Hsd. reflexivity.
    + assert (Hds : nth_error p (List.length pre) = Some sd).
      { rewrite Ep, nth_error_app2 by lia. rewrite Nat.sub_diag. reflexivity. }
      rewrite <- Hp in Hds. rewrite nth_error_map in Hds.
      destruct (nth_error (map (fun d => if d <? 0 then d + Z.of_nat (S (List.length bs)) else d) dims) (List.length pre)) as [z|] eqn:Ez; [|discriminate].
      cbn [option_map] in Hds. injection Hds as Hz. f_equal.
      assert (Hzin : in_dim z (Z.of_nat (S (List.length bs))) = true).
      { rewrite forallb_forall in Hin. apply Hin. eapply nth_error_In. exact Ez. }
      unfold in_dim in Hzin. lia.
Qed.
