From Coq Require Import List String Bool Lia.
Import ListNotations.
From TD Require Import Model.Keys.

(* a strong induction principle for pykey (nested list) *)
Section pykey_ind2.
  Variable P : pykey -> Prop.
  Hypothesis HS : forall s, P (KS s).
  Hypothesis HB : P KBad.
  Hypothesis HT : forall l, Forall P l -> P (KT l).
  Fixpoint pykey_ind2 (k : pykey) : P k :=
    match k with
    | KS s => HS s
    | KBad => HB
    | KT l => HT l ((fix go (l : list pykey) : Forall P l :=
                       match l with [] => Forall_nil _ | x :: r => Forall_cons _ (pykey_ind2 x) (go r) end) l)
    end.
End pykey_ind2.

Definition cpp_go :=
  fix go (l : list pykey) : option (list string) :=
    match l with
    | [] => Some []
    | KS s :: r => option_map (cons s) (go r)
    | x :: r =>
        let sub := cpp_unravel_to_tuple x in
        if is_nil sub then None else option_map (app sub) (go r)
    end.

Lemma cpp_KT l : cpp_unravel_to_tuple (KT l) = match cpp_go l with Some r => r | None => [] end.
Proof. reflexivity. Qed.

Definition py_loop :=
  fix loop (acc : list string) (l : list pykey) : list string :=
    match l with
    | [] => acc
    | KS s :: r => loop (acc ++ [s]) r
    | x :: r =>
        let sub := py_unravel_to_tuple x in
        if is_nil sub then [] else loop (acc ++ sub) r
    end.

Lemma py_KT l : py_unravel_to_tuple (KT l) = py_loop [] l.
Proof. reflexivity. Qed.

Lemma is_nil_true {A} (l : list A) : is_nil l = true <-> l = [].
Proof. destruct l; simpl; split; congruence. Qed.

(* characterisation of the native function by the spec vocabulary *)
Lemma cpp_go_spec l :
  Forall (fun k => (wfb k = true -> cpp_unravel_to_tuple k = strings k /\ strings k <> [])
                   /\ (wfb k = false -> cpp_unravel_to_tuple k = [])) l ->
  cpp_go l = if forallb wfb l then Some (flat_map strings l) else None.
Proof.
  induction 1 as [|x r [Hw Hn] Hr IH]; [reflexivity|].
  cbn [forallb flat_map]. destruct x as [s|l0|].
  - cbn [cpp_go wfb andb]. rewrite IH. destruct (forallb wfb r); reflexivity.
  - change (cpp_go (KT l0 :: r)) with
      (let sub := cpp_unravel_to_tuple (KT l0) in if is_nil sub then None else option_map (app sub) (cpp_go r)).
    cbv zeta. destruct (wfb (KT l0)) eqn:E.
    + destruct (Hw eq_refl) as [H1 H2]. rewrite H1.
      destruct (strings (KT l0)) eqn:E2; [congruence|]. cbn [is_nil andb]. rewrite IH.
      destruct (forallb wfb r); reflexivity.
    + rewrite (Hn eq_refl). reflexivity.
  - reflexivity.
Qed.

Lemma flat_map_nonempty (l : list pykey) :
  l <> [] -> Forall (fun k => strings k <> []) l -> flat_map strings l <> [].
Proof.
  destruct l as [|x r]; [congruence|]. intros _ H. inversion H; subst. cbn.
  destruct (strings x); [congruence|]. discriminate.
Qed.

Theorem cpp_unravel_spec k :
  (wfb k = true -> cpp_unravel_to_tuple k = strings k /\ strings k <> [])
  /\ (wfb k = false -> cpp_unravel_to_tuple k = []).
Proof.
  induction k as [s| |l IH] using pykey_ind2.
  - split; [split; [reflexivity|discriminate]|discriminate].
  - split; [discriminate|reflexivity].
  - rewrite cpp_KT, (cpp_go_spec l IH). cbn [wfb strings]. split; intros Hw.
    + apply andb_prop in Hw. destruct Hw as [Hne Hall]. rewrite Hall. split; [reflexivity|].
      apply flat_map_nonempty.
      * destruct l; [discriminate|congruence].
      * rewrite forallb_forall in Hall. rewrite Forall_forall in *. intros x Hx.
        destruct (IH x Hx) as [H1 _]. apply H1. apply Hall; assumption.
    + destruct l as [|x r]; [reflexivity|]. cbn [is_nil negb andb] in Hw. rewrite Hw. reflexivity.
Qed.

(* accumulator form = option form *)
Lemma py_loop_cpp_go l : Forall (fun k => py_unravel_to_tuple k = cpp_unravel_to_tuple k) l ->
  forall acc, py_loop acc l = match cpp_go l with Some r => acc ++ r | None => [] end.
Proof.
  induction 1 as [|x r Hx Hr IH]; intros acc.
  - cbn. now rewrite app_nil_r.
  - destruct x as [s|l0|].
    + cbn [py_loop cpp_go]. rewrite IH. destruct (cpp_go r); cbn; [now rewrite <- app_assoc|reflexivity].
    + change (py_loop acc (KT l0 :: r)) with
        (let sub := py_unravel_to_tuple (KT l0) in if is_nil sub then [] else py_loop (acc ++ sub) r).
      change (cpp_go (KT l0 :: r)) with
        (let sub := cpp_unravel_to_tuple (KT l0) in if is_nil sub then None else option_map (app sub) (cpp_go r)).
      cbv zeta. rewrite Hx. destruct (is_nil (cpp_unravel_to_tuple (KT l0))); [reflexivity|].
      rewrite IH. destruct (cpp_go r); cbn; [now rewrite <- app_assoc|reflexivity].
    + reflexivity.
Qed.

Theorem unravel_to_tuple_dual k : py_unravel_to_tuple k = cpp_unravel_to_tuple k.
Proof.
  induction k as [s| |l IH] using pykey_ind2; try reflexivity.
  rewrite py_KT, cpp_KT, (py_loop_cpp_go l IH). destruct (cpp_go l); reflexivity.
Qed.

Lemma fold_left_app_flat {A B} (f : A -> list B) l : forall acc,
  fold_left (fun acc x => acc ++ f x) l acc = acc ++ flat_map f l.
Proof.
  induction l as [|x r IH]; intros acc; cbn; [now rewrite app_nil_r|]. rewrite IH. now rewrite app_assoc.
Qed.

Lemma py_fold_flat l : forall acc,
  fold_left (fun acc x => match x with KS s => acc ++ [s] | _ => acc ++ py_unravel_to_tuple x end) l acc
  = acc ++ flat_map (fun x => match x with KS s => [s] | _ => cpp_unravel_to_tuple x end) l.
Proof.
  induction l as [|x r IH]; intros acc; cbn [fold_left flat_map]; [now rewrite app_nil_r|].
  rewrite IH, app_assoc. f_equal. destruct x; try reflexivity; now rewrite unravel_to_tuple_dual.
Qed.

Theorem unravel_key_dual k : py_unravel_key k = cpp_unravel_key k.
Proof.
  destruct k as [s|l|]; try reflexivity. unfold py_unravel_key, cpp_unravel_key.
  now rewrite py_fold_flat.
Qed.

Theorem unravel_key_list_dual ks : py_unravel_key_list ks = cpp_unravel_key_list ks.
Proof.
  unfold py_unravel_key_list, cpp_unravel_key_list. f_equal. apply map_ext. exact unravel_key_dual.
Qed.

(* every spelling of a well-formed nested key denotes the same entry *)
Theorem unravel_spelling k1 k2 :
  wfb k1 = true -> wfb k2 = true -> strings k1 = strings k2 ->
  cpp_unravel_to_tuple k1 = cpp_unravel_to_tuple k2 /\ cpp_unravel_key k1 = cpp_unravel_key k2.
Proof.
  intros W1 W2 E.
  destruct (cpp_unravel_spec k1) as [A1 _], (cpp_unravel_spec k2) as [A2 _].
  destruct (A1 W1) as [B1 _], (A2 W2) as [B2 _]. split; [congruence|].
  assert (K : forall k, wfb k = true -> cpp_unravel_key k = match strings k with [s] => RStr s | l => RTup l end).
  { intros k W. destruct k as [s|l|]; [reflexivity| |discriminate].
    unfold cpp_unravel_key. cbn [strings].
    assert (F : flat_map (fun x => match x with KS s => [s] | _ => cpp_unravel_to_tuple x end) l = flat_map strings l).
    { cbn [wfb] in W. apply andb_prop in W. destruct W as [_ W]. rewrite forallb_forall in W.
      apply flat_map_ext_in || idtac.
      induction l as [|x r IH]; [reflexivity|]. cbn [flat_map]. rewrite IH by (intros y Hy; apply W; now right).
      f_equal. destruct x as [s|l0|]; [reflexivity| |reflexivity].
      destruct (cpp_unravel_spec (KT l0)) as [C _]. apply C. apply W. now left. }
    rewrite F. destruct (flat_map strings l) as [|a [|b t]]; reflexivity. }
  rewrite (K k1 W1), (K k2 W2), E. reflexivity.
Qed.
