(* C06 — what a memoised method's result depends on: the view of its node.  Frame lemmas. *)
From Coq Require Import ZArith List String Bool Arith Lia.
Import ListNotations.
From TD Require Import Model.C06_Cache Proofs.C06_PathP.
Open Scope string_scope.
Open Scope list_scope.

Definition skel (s : state) : list (path * ninfo) := map (fun n => (n_path n, info n)) (nodes s).
Definition all_td (s : state) : Prop := forall n, In n (nodes s) -> n_kind n = NTD.

Lemma flat_map_map : forall {A B C} (f : A -> B) (g : B -> list C) l, flat_map g (map f l) = flat_map (fun x => g (f x)) l.
Proof. intros. induction l; cbn; [reflexivity|]. now rewrite IHl. Qed.

Lemma nodes_under_skel : forall s p,
  nodes_under s p = flat_map (fun pi => match strip p (fst pi) with Some r => [(r, snd pi)] | None => [] end) (skel s).
Proof. intros. unfold nodes_under, skel. now rewrite flat_map_map. Qed.

Lemma has_lazy_td : forall s p, all_td s -> has_lazy (nodes_under s p) = false.
Proof.
  intros s p H. unfold has_lazy. apply not_true_is_false. intros E. apply existsb_exists in E. destruct E as [[r i] [Hin E]].
  unfold nodes_under in Hin. apply in_flat_map in Hin. destruct Hin as [n [Hn Hx]].
  destruct (strip p (n_path n)); [|contradiction]. destruct Hx as [Hx|[]]. inversion Hx; subst. cbn in E.
  rewrite (H n Hn) in E. discriminate.
Qed.

Lemma view_eq : forall s s' p,
  skel s' = skel s -> leaves s' = leaves s -> (all_td s \/ store s' = store s) -> view_of s' p = view_of s p.
Proof.
  intros s s' p Hs Hl Hst. unfold view_of.
  assert (N : nodes_under s' p = nodes_under s p) by (rewrite !nodes_under_skel; now rewrite Hs).
  assert (L : leaves_under s' p = leaves_under s p) by (unfold leaves_under; now rewrite Hl).
  rewrite N, L. f_equal. destruct Hst as [Htd|Hst]; [now rewrite (has_lazy_td s p Htd)|now rewrite Hst].
Qed.

(* node updates that keep path, identity, kind and metadata keep every view *)
Lemma skel_upd : forall s f, (forall n, n_path (f n) = n_path n /\ info (f n) = info n) -> skel (upd_nodes s f) = skel s.
Proof.
  intros s f H. unfold skel, upd_nodes. cbn. rewrite map_map. apply map_ext. intros n. destruct (H n) as [-> ->]. reflexivity.
Qed.

Lemma view_upd : forall s f p, (forall n, n_path (f n) = n_path n /\ info (f n) = info n) -> view_of (upd_nodes s f) p = view_of s p.
Proof. intros. apply view_eq; [now apply skel_upd|reflexivity|now right]. Qed.

Lemma flat_map_filter_irrelevant : forall {A B} (g : A -> list B) (keep : A -> bool) l,
  (forall x, keep x = false -> g x = []) -> flat_map g l = flat_map g (filter keep l).
Proof.
  intros A B g keep l H. induction l as [|x l IH]; cbn; [reflexivity|].
  destruct (keep x) eqn:E; cbn; [now rewrite IH|]. now rewrite (H x E).
Qed.

(* a view of node x does not depend on anything at or below a path p that is incomparable with x *)
Lemma view_irrelevant : forall s s' x p,
  is_prefix x p = false -> is_prefix p x = false ->
  filter (fun pi => negb (is_prefix p (fst pi))) (skel s') = filter (fun pi => negb (is_prefix p (fst pi))) (skel s) ->
  filter (fun ql => negb (is_prefix p (fst ql))) (leaves s') = filter (fun ql => negb (is_prefix p (fst ql))) (leaves s) ->
  all_td s -> all_td s' -> view_of s' x = view_of s x.
Proof.
  intros s s' x p H1 H2 Hs Hl Htd Htd'. unfold view_of.
  assert (N : nodes_under s' x = nodes_under s x).
  { rewrite !nodes_under_skel.
    rewrite (flat_map_filter_irrelevant _ (fun pi => negb (is_prefix p (fst pi))) (skel s')).
    - rewrite (flat_map_filter_irrelevant _ (fun pi => negb (is_prefix p (fst pi))) (skel s)).
      + now rewrite Hs.
      + intros pi E. apply negb_false_iff in E. now rewrite (strip_none_incomparable x p (fst pi) H1 H2 E).
    - intros pi E. apply negb_false_iff in E. now rewrite (strip_none_incomparable x p (fst pi) H1 H2 E). }
  assert (L : leaves_under s' x = leaves_under s x).
  { unfold leaves_under.
    rewrite (flat_map_filter_irrelevant _ (fun ql => negb (is_prefix p (fst ql))) (leaves s')).
    - rewrite (flat_map_filter_irrelevant _ (fun ql => negb (is_prefix p (fst ql))) (leaves s)).
      + now rewrite Hl.
      + intros ql E. apply negb_false_iff in E. now rewrite (strip_none_incomparable x p (fst ql) H1 H2 E).
    - intros ql E. apply negb_false_iff in E. now rewrite (strip_none_incomparable x p (fst ql) H1 H2 E). }
  rewrite N, L. now rewrite (has_lazy_td s x Htd).
Qed.

Lemma filter_filter : forall {A} (f g : A -> bool) l, filter f (filter g l) = filter (fun x => f x && g x) l.
Proof.
  intros A f g l. induction l as [|x l IH]; cbn; [reflexivity|].
  destruct (g x) eqn:G; cbn; [destruct (f x); cbn; now rewrite IH|]. rewrite andb_false_r. assumption.
Qed.

Lemma filter_ext_in' : forall {A} (f g : A -> bool) l, (forall x, In x l -> f x = g x) -> filter f l = filter g l.
Proof. intros. now apply filter_ext_in. Qed.

Lemma filter_all_false : forall {A} (f : A -> bool) l, (forall x, In x l -> f x = false) -> filter f l = [].
Proof.
  intros A f l H. induction l as [|x l IH]; cbn; [reflexivity|]. rewrite (H x (or_introl eq_refl)). apply IH. intros y Hy. apply H. now right.
Qed.

Lemma filter_app' : forall {A} (f : A -> bool) l m, filter f (l ++ m) = filter f l ++ filter f m.
Proof. intros. apply filter_app. Qed.

Lemma filter_map_cond : forall {A} (keep : A -> bool) (c : A -> bool) (h : A -> A) l,
  (forall x, c x = true -> keep x = false /\ keep (h x) = false) ->
  filter keep (map (fun x => if c x then h x else x) l) = filter keep l.
Proof.
  intros A keep c h l H. induction l as [|x l IH]; cbn; [reflexivity|].
  destruct (c x) eqn:C.
  - destruct (H x C) as [K1 K2]. rewrite K1, K2. assumption.
  - destruct (keep x); now rewrite IH.
Qed.
