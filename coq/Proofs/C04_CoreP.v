(* C04 — the elementary operations of the model (get / set / del / pop / setdefault / clear / membership of entries)
   refine the plain nested dict; well-formedness is preserved. *)
From Coq Require Import ZArith List String Bool Lia.
Import ListNotations.
From TD Require Import Model.Keys Proofs.KeysP Model.C04_Tree Model.C04_Ops Spec.C04_NestedDict Proofs.C04_AssocP.
Open Scope string_scope.
Open Scope list_scope.


(* ---- unfolding equations (so that proofs never reduce under the recursive calls) ---- *)
Lemma set_tuple_1 k v es : set_tuple [k] v es = Ok (aset k v es).
Proof. reflexivity. Qed.
Lemma set_tuple_2 k k2 r2 v es : set_tuple (k :: k2 :: r2) v es =
  match aget k es with
  | None => match set_tuple (k2 :: r2) v [] with Ok sub => Ok (aset k (Node sub) es) | Raise e => Raise e end
  | Some (Node sub) => match set_tuple (k2 :: r2) v sub with Ok sub' => Ok (aset k (Node sub') es) | Raise e => Raise e end
  | Some (Leaf LT _) => Raise EKey
  | Some (Leaf LS _) => Raise EUnmodelled
  end.
Proof. reflexivity. Qed.
Lemma nd_set_1 k v d : nd_set [k] v d = Some (d_put k v d).
Proof. reflexivity. Qed.
Lemma nd_set_2 k k2 r2 v d : nd_set (k :: k2 :: r2) v d =
  match d_get k d with
  | None => option_map (fun s => d_put k (ND s) d) (nd_set (k2 :: r2) v [])
  | Some (ND sub) => option_map (fun s => d_put k (ND s) d) (nd_set (k2 :: r2) v sub)
  | Some _ => None
  end.
Proof. reflexivity. Qed.
Lemma del_tuple_1 k es : del_tuple [k] es = if amem k es then Ok (adel k es) else Raise EKey.
Proof. reflexivity. Qed.
Lemma del_tuple_2 k k2 r2 es : del_tuple (k :: k2 :: r2) es =
  match aget k es with
  | None => Raise EKey
  | Some (Node sub) => match del_tuple (k2 :: r2) sub with Ok sub' => Ok (aset k (Node sub') es) | Raise e => Raise e end
  | Some (Leaf LT _) => Raise EOther
  | Some (Leaf LS _) => Raise EUnmodelled
  end.
Proof. reflexivity. Qed.
Lemma nd_del_1 k d : nd_del [k] d = match d_get k d with Some _ => Some (d_rem k d) | None => None end.
Proof. reflexivity. Qed.
Lemma nd_del_2 k k2 r2 d : nd_del (k :: k2 :: r2) d =
  match d_get k d with
  | Some (ND sub) => option_map (fun s => d_put k (ND s) d) (nd_del (k2 :: r2) sub)
  | _ => None
  end.
Proof. reflexivity. Qed.
Lemma get_tuple_1 k es d : get_tuple [k] es d =
  match aget k es with None => if d then GDef else GRaise EKey | Some v => GVal v end.
Proof. reflexivity. Qed.
Lemma get_tuple_2 k k2 r2 es d : get_tuple (k :: k2 :: r2) es d =
  match aget k es with
  | None => if d then GDef else GRaise EKey
  | Some (Node sub) => get_tuple (k2 :: r2) sub d
  | Some (Leaf LT _) => GRaise EOther
  | Some (Leaf LS _) => GRaise EUnmodelled
  end.
Proof. cbn [get_tuple]. destruct (aget k es) as [[[|] z|sub]|]; reflexivity. Qed.
Lemma nd_find_1 k d : nd_find [k] d = match d_get k d with None => Missing | Some v => Found v end.
Proof. reflexivity. Qed.
Lemma nd_find_2 k k2 r2 d : nd_find (k :: k2 :: r2) d =
  match d_get k d with
  | None => Missing
  | Some (ND sub) => nd_find (k2 :: r2) sub
  | Some _ => ThroughLeaf
  end.
Proof. cbn [nd_find]. destruct (d_get k d) as [[z|z|sub]|]; reflexivity. Qed.

(* ---------------------------------------------------------------- set ---- *)
Lemma set_tuple_refines : forall p v es,
  match set_tuple p v es with
  | Ok es' => nd_set p (abs v) (absE es) = Some (absE es')
  | Raise _ => nd_set p (abs v) (absE es) = None
  end.
Proof.
  induction p as [|k rest IH]; intros v es; [reflexivity|].
  destruct rest as [|k2 r2].
  - rewrite set_tuple_1, nd_set_1. now rewrite d_put_abs.
  - rewrite set_tuple_2, nd_set_2, d_get_abs.
    destruct (aget k es) as [[[|] z|sub]|]; cbn [option_map]; try reflexivity.
    + specialize (IH v sub). rewrite abs_Node. destruct (set_tuple (k2 :: r2) v sub) as [sub'|e]; rewrite IH.
      * cbn [option_map]. now rewrite d_put_abs_node.
      * reflexivity.
    + specialize (IH v []). change (absE []) with (@nil (string * nd)) in IH.
      destruct (set_tuple (k2 :: r2) v []) as [sub'|e]; rewrite IH.
      * cbn [option_map]. now rewrite d_put_abs_node.
      * reflexivity.
Qed.

Lemma set_tuple_nil_ok : forall p v, p <> [] -> exists es', set_tuple p v [] = Ok es'.
Proof.
  induction p as [|k rest IH]; intros v N; [congruence|].
  destruct rest as [|k2 r2]; [eexists; reflexivity|].
  rewrite set_tuple_2. cbn [aget]. destruct (IH v) as [s E]; [discriminate|]. rewrite E. eexists; reflexivity.
Qed.

Lemma set_tuple_wf : forall p v es es', wfE es -> wf v -> set_tuple p v es = Ok es' -> wfE es'.
Proof.
  induction p as [|k rest IH]; intros v es es' W Wv E; [discriminate|].
  destruct rest as [|k2 r2].
  - rewrite set_tuple_1 in E. injection E as E. subst. now apply wfE_aset.
  - rewrite set_tuple_2 in E. destruct (aget k es) as [[[|] z|sub]|] eqn:G; try discriminate.
    + destruct (set_tuple (k2 :: r2) v sub) as [sub'|e] eqn:S; [|discriminate]. injection E as E. subst.
      apply wfE_aset; [assumption|]. apply (IH v sub sub'); [exact (wfE_sub _ _ _ W G)|assumption|assumption].
    + destruct (set_tuple (k2 :: r2) v []) as [sub'|e] eqn:S; [|discriminate]. injection E as E. subst.
      apply wfE_aset; [assumption|]. apply (IH v [] sub'); [exact wfE_nil|assumption|assumption].
Qed.

(* ---------------------------------------------------------------- del ---- *)
Lemma del_tuple_refines : forall p es,
  match del_tuple p es with
  | Ok es' => nd_del p (absE es) = Some (absE es')
  | Raise _ => nd_del p (absE es) = None
  end.
Proof.
  induction p as [|k rest IH]; intros es; [reflexivity|].
  destruct rest as [|k2 r2].
  - rewrite del_tuple_1, nd_del_1, d_get_abs. unfold amem. destruct (aget k es); cbn [option_map]; [|reflexivity].
    now rewrite d_rem_abs.
  - rewrite del_tuple_2, nd_del_2, d_get_abs.
    destruct (aget k es) as [[[|] z|sub]|]; cbn [option_map]; try reflexivity.
    specialize (IH sub). rewrite abs_Node. destruct (del_tuple (k2 :: r2) sub) as [sub'|e]; rewrite IH; [|reflexivity].
    cbn [option_map]. now rewrite d_put_abs_node.
Qed.

Lemma del_tuple_wf : forall p es es', wfE es -> del_tuple p es = Ok es' -> wfE es'.
Proof.
  induction p as [|k rest IH]; intros es es' W E; [discriminate|].
  destruct rest as [|k2 r2].
  - rewrite del_tuple_1 in E. destruct (amem k es); [|discriminate]. injection E as E. subst. now apply wfE_adel.
  - rewrite del_tuple_2 in E. destruct (aget k es) as [[[|] z|sub]|] eqn:G; try discriminate.
    destruct (del_tuple (k2 :: r2) sub) as [sub'|e] eqn:S; [|discriminate]. injection E as E. subst.
    apply wfE_aset; [assumption|]. apply (IH sub sub'); [exact (wfE_sub _ _ _ W G)|assumption].
Qed.

(* ---------------------------------------------------------------- get ---- *)
Lemma get_tuple_refines : forall p es d, p <> [] ->
  match get_tuple p es d with
  | GVal v => nd_find p (absE es) = Found (abs v)
  | GDef => nd_find p (absE es) = Missing /\ d = true
  | GRaise e => (nd_find p (absE es) = Missing /\ d = false /\ e = EKey)
                \/ (nd_find p (absE es) = ThroughLeaf /\ e <> EKey)
  end.
Proof.
  induction p as [|k rest IH]; intros es d N; [congruence|].
  destruct rest as [|k2 r2].
  - rewrite get_tuple_1, nd_find_1, d_get_abs. destruct (aget k es) as [v|]; cbn [option_map]; [reflexivity|].
    destruct d; [now split|left; now repeat split].
  - rewrite get_tuple_2, nd_find_2, d_get_abs. destruct (aget k es) as [[[|] z|sub]|]; cbn [option_map].
    + right. split; [reflexivity|discriminate].
    + right. split; [reflexivity|discriminate].
    + rewrite abs_Node. apply IH. discriminate.
    + destruct d; [now split|left; now repeat split].
Qed.

(* what is found can be deleted, and only that *)
Lemma nd_del_find : forall p d, p <> [] ->
  match nd_find p d with
  | Found _ => exists d', nd_del p d = Some d'
  | _ => nd_del p d = None
  end.
Proof.
  induction p as [|k rest IH]; intros d N; [congruence|].
  destruct rest as [|k2 r2].
  - rewrite nd_find_1, nd_del_1. destruct (d_get k d); [eexists; reflexivity|reflexivity].
  - rewrite nd_find_2, nd_del_2. destruct (d_get k d) as [[z|z|sub]|]; try reflexivity.
    specialize (IH sub). destruct (nd_find (k2 :: r2) sub).
    + destruct IH as [d' E]; [discriminate|]. rewrite E. eexists; reflexivity.
    + rewrite IH; [reflexivity|discriminate].
    + rewrite IH; [reflexivity|discriminate].
Qed.

(* the error class of del_ on a key that get did not find is KeyError *)
Lemma get_def_del_key : forall p es d, get_tuple p es d = GDef -> del_tuple p es = Raise EKey.
Proof.
  induction p as [|k rest IH]; intros es d E; [discriminate|].
  destruct rest as [|k2 r2].
  - rewrite get_tuple_1 in E. rewrite del_tuple_1. unfold amem. destruct (aget k es); [discriminate|reflexivity].
  - rewrite get_tuple_2 in E. rewrite del_tuple_2. destruct (aget k es) as [[[|] z|sub]|]; try discriminate; [|reflexivity].
    rewrite (IH sub d E). reflexivity.
Qed.

(* ---------------------------------------------------------------- pop ---- *)
Lemma pop_path_refines : forall p hd es, p <> [] ->
  match pop_path p hd es with
  | (es', Ok (PVal v)) => nd_pop p hd (absE es) = Some (absE es', Some (abs v))
  | (es', Ok PDefault) => nd_pop p hd (absE es) = Some (absE es', None) /\ es' = es
  | (es', Raise _) => nd_pop p hd (absE es) = None /\ es' = es
  end.
Proof.
  intros p hd es N. destruct p as [|k rest]; [congruence|]. unfold pop_path, nd_pop.
  pose proof (get_tuple_refines (k :: rest) es hd N) as G.
  pose proof (del_tuple_refines (k :: rest) es) as D.
  pose proof (nd_del_find (k :: rest) (absE es) N) as F.
  destruct (get_tuple (k :: rest) es hd) as [v|  |e] eqn:EG.
  - rewrite G in *. destruct F as [d' F]. destruct (del_tuple (k :: rest) es) as [es'|e]; [|congruence].
    rewrite D. reflexivity.
  - destruct G as [G ->]. rewrite G in *. rewrite (get_def_del_key _ _ _ EG). now split.
  - destruct G as [[G [-> ->]]|[G Ne]]; rewrite G.
    + now split.
    + destruct e; try congruence; now split.
Qed.

Lemma pop_path_wf : forall p hd es es' r, wfE es -> pop_path p hd es = (es', r) -> wfE es'.
Proof.
  intros p hd es es' r W E. unfold pop_path in E. destruct p as [|k rest]; [injection E as E _; now subst|].
  destruct (get_tuple (k :: rest) es hd) as [v| |e].
  - destruct (del_tuple (k :: rest) es) as [es2|e] eqn:D.
    + injection E as E _. subst. exact (del_tuple_wf _ _ _ W D).
    + destruct e; injection E as E _; now subst.
  - destruct (del_tuple (k :: rest) es) as [es2|e] eqn:D.
    + injection E as E _. subst. exact (del_tuple_wf _ _ _ W D).
    + destruct e; injection E as E _; now subst.
  - destruct e; injection E as E _; now subst.
Qed.

(* ---------------------------------------------------------------- presence of an entry ---- *)
Lemma nd_find_snoc : forall mid l d, mid <> [] ->
  nd_find (mid ++ [l]) d =
  match nd_find mid d with
  | Found (ND s) => nd_find [l] s
  | Found _ => ThroughLeaf
  | Missing => Missing
  | ThroughLeaf => ThroughLeaf
  end.
Proof.
  induction mid as [|k rest IH]; intros l d N; [congruence|].
  destruct rest as [|k2 r2].
  - cbn [app]. rewrite nd_find_2, nd_find_1. destruct (d_get k d) as [[z|z|sub]|]; reflexivity.
  - change ((k :: k2 :: r2) ++ [l]) with (k :: k2 :: (r2 ++ [l])). rewrite !nd_find_2.
    destruct (d_get k d) as [[z|z|sub]|]; try reflexivity.
    change (k2 :: r2 ++ [l]) with ((k2 :: r2) ++ [l]). apply IH. discriminate.
Qed.

Definition foundb (f : found) : bool := match f with Found _ => true | _ => false end.

Lemma vcp_1 k es : view_contains_path true [k] es = Ok (amem k es).
Proof. reflexivity. Qed.
Lemma vcp_2 k k1 es : view_contains_path true [k; k1] es =
  match aget k es with
  | None => Ok false | Some (Leaf LT _) => Ok false | Some (Leaf LS _) => Raise EUnmodelled
  | Some (Node sub) => Ok (amem k1 sub)
  end.
Proof. reflexivity. Qed.
Lemma vcp_3 k k1 k2 r2 es : view_contains_path true (k :: k1 :: k2 :: r2) es =
  match aget k es with
  | None => Ok false | Some (Leaf LT _) => Ok false | Some (Leaf LS _) => Raise EUnmodelled
  | Some (Node sub) =>
      match get_tuple (removelast (k1 :: k2 :: r2)) sub true with
      | GDef => Ok false
      | GVal (Node s2) => Ok (amem (last (k1 :: k2 :: r2) "") s2)
      | GVal (Leaf LT _) => Ok false
      | GVal (Leaf LS _) => Raise EUnmodelled
      | GRaise e => Raise e
      end
  end.
Proof. reflexivity. Qed.

Lemma view_contains_refines : forall p es, p <> [] ->
  match view_contains_path true p es with
  | Ok b => b = foundb (nd_find p (absE es))
  | Raise _ => nd_find p (absE es) = ThroughLeaf
  end.
Proof.
  intros p es N. destruct p as [|k rest]; [congruence|]. destruct rest as [|k1 r1].
  - rewrite vcp_1, nd_find_1, d_get_abs. unfold amem. destruct (aget k es); reflexivity.
  - destruct r1 as [|k2 r2].
    + rewrite vcp_2, nd_find_2, d_get_abs.
      destruct (aget k es) as [[[|] z|sub]|]; cbn [option_map]; try reflexivity.
      rewrite abs_Node, nd_find_1, d_get_abs. unfold amem. destruct (aget k1 sub); reflexivity.
    + rewrite vcp_3, nd_find_2, d_get_abs.
      destruct (aget k es) as [[[|] z|sub]|]; cbn [option_map]; try reflexivity.
      rewrite abs_Node.
      assert (NE : k1 :: k2 :: r2 <> []) by discriminate.
      assert (NM : removelast (k1 :: k2 :: r2) <> []) by (cbn; destruct r2; discriminate).
      replace (nd_find (k1 :: k2 :: r2) (absE sub))
        with (nd_find (removelast (k1 :: k2 :: r2) ++ [last (k1 :: k2 :: r2) ""]) (absE sub))
        by (now rewrite <- app_removelast_last).
      rewrite (nd_find_snoc _ _ _ NM).
      pose proof (get_tuple_refines (removelast (k1 :: k2 :: r2)) sub true NM) as G.
      destruct (get_tuple (removelast (k1 :: k2 :: r2)) sub true) as [[[|] z|s2]| |e].
      * rewrite G. reflexivity.
      * rewrite G. reflexivity.
      * rewrite G, abs_Node, nd_find_1, d_get_abs. unfold amem. destruct (aget _ s2); reflexivity.
      * destruct G as [G _]. rewrite G. reflexivity.
      * destruct G as [[_ [D _]]|[G _]]; [discriminate|]. rewrite G. reflexivity.
Qed.

(* ---------------------------------------------------------------- keys: well-formed spellings ---- *)
Lemma wf_key_tuple k : wfb k = true -> cpp_unravel_to_tuple k = strings k /\ strings k <> [].
Proof. intros W. destruct (cpp_unravel_spec k) as [A _]. exact (A W). Qed.

Lemma path_keyres_path p : keyres_path (path_keyres p) = p.
Proof. destruct p as [|a [|b r]]; reflexivity. Qed.

Lemma wf_key_keyres k : wfb k = true -> cpp_unravel_key k = path_keyres (strings k).
Proof.
  intros W. destruct k as [s|l|]; [reflexivity| |discriminate].
  unfold cpp_unravel_key. cbn [strings].
  assert (F : flat_map (fun x => match x with KS s => [s] | _ => cpp_unravel_to_tuple x end) l = flat_map strings l).
  { cbn [wfb] in W. apply andb_prop in W. destruct W as [_ W]. rewrite forallb_forall in W.
    induction l as [|x r IH]; [reflexivity|]. cbn [flat_map]. rewrite IH by (intros y Hy; apply W; now right).
    f_equal. destruct x as [s|l0|]; [reflexivity| |reflexivity].
    apply wf_key_tuple. apply W. now left. }
  rewrite F. unfold path_keyres. destruct (flat_map strings l) as [|a [|b t]]; reflexivity.
Qed.

(* ---------------------------------------------------------------- setdefault ---- *)
Lemma get_after_set : forall p v es es' d, set_tuple p v es = Ok es' -> get_tuple p es' d = GVal v.
Proof.
  induction p as [|k rest IH]; intros v es es' d S; [discriminate|].
  destruct rest as [|k2 r2].
  - rewrite set_tuple_1 in S. injection S as S. subst. rewrite get_tuple_1, aget_aset_eq. reflexivity.
  - rewrite set_tuple_2 in S. rewrite get_tuple_2.
    destruct (aget k es) as [[[|] z|sub]|]; try discriminate.
    + destruct (set_tuple (k2 :: r2) v sub) as [sub'|e] eqn:S2; [|discriminate]. injection S as S. subst.
      rewrite aget_aset_eq. exact (IH _ _ _ d S2).
    + destruct (set_tuple (k2 :: r2) v []) as [sub'|e] eqn:S2; [|discriminate]. injection S as S. subst.
      rewrite aget_aset_eq. exact (IH _ _ _ d S2).
Qed.

Lemma nd_set_through_leaf : forall p v d, nd_find p d = ThroughLeaf -> nd_set p v d = None.
Proof.
  induction p as [|k rest IH]; intros v d F; [discriminate|].
  destruct rest as [|k2 r2].
  - rewrite nd_find_1 in F. destruct (d_get k d); discriminate.
  - rewrite nd_find_2 in F. rewrite nd_set_2. destruct (d_get k d) as [[z|z|sub]|]; try reflexivity; [|discriminate].
    now rewrite (IH v sub F).
Qed.

Lemma setdefault_refines k v es : wfb k = true ->
  match setdefault k v es with
  | (es', Ok (Some w)) => nd_setdefault (strings k) (abs v) (absE es) = Some (absE es', abs w)
  | (es', Ok None) => False
  | (es', Raise _) => nd_setdefault (strings k) (abs v) (absE es) = None /\ es' = es
  end.
Proof.
  intros W. destruct (wf_key_tuple k W) as [U N].
  assert (P : (if is_tuple k then view_contains true k es else skeys_contains k es) = view_contains_path true (strings k) es).
  { destruct k as [s|l|]; [reflexivity| |discriminate]. cbn [is_tuple]. unfold view_contains. now rewrite U. }
  assert (GE : forall es0, get k es0 = get_tuple (strings k) es0 true).
  { intros es0. unfold get. rewrite U. destruct (strings k); [congruence|reflexivity]. }
  unfold setdefault, nd_setdefault, set_. rewrite P, U.
  pose proof (view_contains_refines (strings k) es N) as C.
  destruct (view_contains_path true (strings k) es) as [b|e].
  - subst b. pose proof (get_tuple_refines (strings k) es true N) as G.
    destruct (nd_find (strings k) (absE es)) as [w| |] eqn:F; cbn [foundb].
    + rewrite GE. destruct (get_tuple (strings k) es true) as [w'| |e].
      * congruence.
      * destruct G; congruence.
      * destruct G as [[G _]|[G _]]; congruence.
    + pose proof (set_tuple_refines (strings k) v es) as S.
      destruct (set_tuple (strings k) v es) as [es'|e] eqn:ST; rewrite S; [|now split].
      rewrite GE, (get_after_set _ _ _ _ true ST). reflexivity.
    + pose proof (set_tuple_refines (strings k) v es) as S.
      rewrite (nd_set_through_leaf _ (abs v) _ F) in S.
      destruct (set_tuple (strings k) v es) as [es'|e]; [discriminate|now split].
  - rewrite C. now split.
Qed.
