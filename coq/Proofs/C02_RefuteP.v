(* C02 proofs, part 3: the recorded defects are facts about the faithful model: concrete witnesses, by computation.
   Each witness is the `repro` of the corresponding entry of findings.d/C02.json (replayed against /repo by the harness). *)
From Coq Require Import ZArith List Bool String.
Import ListNotations.
From TD Require Import Spec.PySlice Spec.C02_TorchShape Model.C02_ShapeOps Proofs.C02_FrameP.
Local Open Scope string_scope.
Open Scope Z_scope.

Definition td1 (bs : list Z) (feat : list Z) : tree := Node bs None [("a", Leaf (bs ++ feat))].
Definition named (bs : list Z) (nm : list (option string)) (feat : list Z) : tree := Node bs (Some nm) [("a", Leaf (bs ++ feat))].

(* boolean coherence of a result: every entry's shape starts with the batch size of its node, sizes >= 0 *)
Fixpoint cohb (t : tree) : bool :=
  match t with
  | Leaf sh => forallb (fun x => 0 <=? x) sh
  | Node bs _ ents =>
      forallb (fun x => 0 <=? x) bs &&
      (fix go (l : list (string * tree)) : bool :=
         match l with [] => true | (_, c) :: r => prefixb bs (top_shape c) && cohb c && go r end) ents
  end.

(* D4: split(list) is not validated: torch rejects [5] for a dim of size 3, the model (as the code) returns a
   tensordict of batch size [5] around an entry of shape [3;2] *)
Lemma D4_split_list_accepts_illegal :
  t_split_list [3] [5] 0 = Reject /\
  td_split (td1 [3] [2]) (inr [5]) 0 = Done [Node [5] None [("a", Leaf [3; 2])]] /\
  cohb (Node [5] None [("a", Leaf [3; 2])]) = false.
Proof. vm_compute. auto. Qed.

Lemma D4_split_list_truncates :
  t_split_list [3] [2; 2] 0 = Reject /\
  td_split (td1 [3] []) (inr [2; 2]) 0 = Done [td1 [2] []; td1 [1] []].
Proof. vm_compute. auto. Qed.

Lemma D4_split_negative_size :
  t_split_list [3] [4; -1] 0 = Reject /\
  exists t1 t2, td_split (td1 [3] []) (inr [4; -1]) 0 = Done [t1; t2] /\ top_shape t2 = [-1].
Proof. split; [reflexivity|]. eexists. eexists. split; vm_compute; reflexivity. Qed.

(* D4: split(0) on a non-empty dim, and any negative split size, never return *)
Lemma D4_split_zero_diverges :
  t_split_int [2] 0 0 = Reject /\ td_split (td1 [2] []) (inl 0) 0 = Diverges /\
  t_split_int [2] (-1) 0 = Reject /\ td_split (td1 [2] []) (inl (-1)) 0 = Diverges.
Proof. vm_compute. auto. Qed.

(* D5: squeeze() on a named tensordict whose batch dims are all 1 raises (torch: shape []) *)
Lemma D5_squeeze_all_named_raises :
  t_squeeze_all [1; 1] = Ok [] /\
  apply (named [1; 1] [Some "x"; Some "y"] [2]) (OSqueeze None) = Raised EValue.
Proof. vm_compute. auto. Qed.

(* D5-view: same call, unnamed, an entry without feature dims: tensor.view() without arguments *)
Lemma D5_squeeze_all_featureless_raises :
  t_squeeze_all [1; 1] = Ok [] /\ apply (td1 [1; 1] []) (OSqueeze None) = Raised EType.
Proof. vm_compute. auto. Qed.

(* C02-a: squeeze() erases the names of nested nodes *)
Lemma C02a_squeeze_all_nested_names :
  apply (Node [1; 2] (Some [Some "x"; Some "y"]) [("n", Node [1; 2] (Some [Some "x"; Some "y"]) [("x", Leaf [1; 2])])])
        (OSqueeze None)
  = Done (Node [2] (Some [Some "y"]) [("n", Node [2] None [("x", Leaf [2])])]).
Proof. vm_compute. reflexivity. Qed.

(* D22 / S9: stack along a dim past the batch rank; C02-b: below -(rank+1); the result is incoherent *)
Lemma D22_stack_dim_past_rank :
  t_stack [[3]; [3]] 2 = Reject /\
  td_stack [td1 [3] [4]; td1 [3] [4]] 2 = Done (Node [3; 2] None [("a", Leaf [3; 4; 2])]) /\
  cohb (Node [3; 2] None [("a", Leaf [3; 4; 2])]) = false.
Proof. vm_compute. auto. Qed.

Lemma C02b_stack_dim_below_range :
  t_stack [[3; 4]; [3; 4]] (-4) = Reject /\
  td_stack [td1 [3; 4] []; td1 [3; 4] []] (-4) = Done (Node [3; 2; 4] None [("a", Leaf [3; 4; 2])]).
Proof. vm_compute. auto. Qed.

Lemma C02c_cat_dim_below_range :
  t_cat [[3; 4]; [3; 4]] (-3) = Reject /\
  td_cat [td1 [3; 4] []; td1 [3; 4] []] (-3) = Done (Node [3; 8] None [("a", Leaf [3; 8])]).
Proof. vm_compute. auto. Qed.

(* S5: flatten past the batch dims; C02-d: repeat_interleave along a feature dim *)
Lemma S5_flatten_past_batch_dims :
  t_flatten [2] 0 1 = Reject /\
  apply (td1 [2] [3; 4]) (OFlatten 0 1) = Done (Node [2] None [("a", Leaf [6; 4])]) /\
  cohb (Node [2] None [("a", Leaf [6; 4])]) = false.
Proof. vm_compute. auto. Qed.

Lemma C02d_repeat_interleave_feature_dim :
  t_repeat_interleave [2] 2 (Some 1) = Reject /\
  td_repeat_interleave (td1 [2] [3]) 2 (Some 1) = Done (Node [2] None [("a", Leaf [2; 6])]).
Proof. vm_compute. auto. Qed.

(* C02-e: chunk on a size-0 dim gives one piece, torch gives `chunks` pieces *)
Lemma C02e_chunk_empty_dim :
  t_chunk [0; 2] 3 0 = Ok [[0; 2]; [0; 2]; [0; 2]] /\
  td_chunk (td1 [0; 2] []) 3 0 = Done [td1 [0; 2] []].
Proof. vm_compute. auto. Qed.

(* C02-f / C02-g: -1 is copied into the batch size *)
Lemma C02f_expand_minus_one :
  t_expand [1; 2] [-1; 2] = Ok [1; 2] /\
  apply (td1 [1; 2] []) (OExpand [-1; 2]) = Done (Node [-1; 2] None [("a", Leaf [1; 2])]).
Proof. vm_compute. auto. Qed.

Lemma C02g_unflatten_minus_one :
  t_unflatten [6] 0 [2; -1] = Ok [2; 3] /\
  apply (td1 [6] []) (OUnflatten 0 [2; -1]) = Done (Node [2; -1] None [("a", Leaf [2; 3])]).
Proof. vm_compute. auto. Qed.

(* C02-h: numel() of an empty batch is 1 *)
Lemma C02h_view_infer_empty_batch :
  t_view [3; 0] [3; -1] = Ok [3; 0] /\ apply (td1 [3; 0] []) (OView [3; -1]) = Raised EAssert /\
  apply (Node [2; 0] None []) (OReshape [-1]) = Done (Node [1] None []).
Proof. vm_compute. auto. Qed.

(* C02-i/j: gather with an index whose shape is not the batch shape off the gather dim *)
Lemma C02i_gather_lower_rank_index :
  t_gather [2; 2; 2] (-1) [2; 2] = Reject /\
  gather_at (td1 [2; 2; 2] []) (-1) [2; 2] = Done (Node [2; 2] None [("a", Leaf [2; 2; 1])]).
Proof. vm_compute. auto. Qed.

Lemma C02j_gather_size_one_index :
  t_gather [3; 4] 1 [1; 2] = Ok [1; 2] /\
  gather_at (td1 [3; 4] []) 1 [1; 2] = Done (Node [1; 2] None [("a", Leaf [3; 2])]) /\
  cohb (Node [1; 2] None [("a", Leaf [3; 2])]) = false.
Proof. vm_compute. auto. Qed.

(* C02-k: a prefix permutation (tensordict's extension of permute) on a named tensordict: 2 names for 3 dims *)
Lemma C02k_prefix_permutation_names :
  apply (named [2; 3; 4] [Some "x"; Some "y"; Some "z"] []) (OPermute [1; 0])
  = Done (Node [3; 2; 4] (Some [Some "y"; Some "x"]) [("a", Leaf [3; 2; 4])]).
Proof. vm_compute. reflexivity. Qed.

(* C02-l: without entries nothing validates the arguments *)
Lemma C02l_leafless_accepts :
  t_view [3; 3] [3] = Reject /\ apply (Node [3; 3] None []) (OView [3]) = Done (Node [3] None []).
Proof. vm_compute. auto. Qed.

(* C02-m: repeat() on a rank-0 tensordict with a feature-less entry *)
Lemma C02m_repeat_rank0 :
  t_repeat [] [] = Ok [] /\ apply (td1 [] []) (ORepeat []) = Raised EType.
Proof. vm_compute. auto. Qed.
