(* C02 proofs, part 3: concrete witnesses, by computation.
   (a) the findings that REMAIN after the repairs of fixes/C02/*.diff are facts about the faithful model;
   (b) the former counterexamples (the `repro` of each repaired finding, fixes/C02/fixed.json) now satisfy the property
       in the model -- a regression guard: if a repair is lost, the correspondence run reports the model mismatch. *)
From Coq Require Import ZArith List Bool String.
Import ListNotations.
From TD Require Import Spec.PySlice Spec.C02_TorchShape Model.C02_ShapeOps Proofs.C02_FrameP.
Local Open Scope string_scope.
Open Scope Z_scope.

Definition td1 (bs : list Z) (feat : list Z) : tree := Node bs None [("a", Leaf (bs ++ feat))].
Definition named (bs : list Z) (nm : list (option string)) (feat : list Z) : tree := Node bs (Some nm) [("a", Leaf (bs ++ feat))].

(* boolean coherence of a result: every entry's shape starts with the batch size of its node, sizes >= 0 *)
Fixpoint cohb (t : tree) : bool :=
  match t with
  | Leaf sh => forallb (fun x => 0 <=? x) sh
  | Node bs _ ents =>
      forallb (fun x => 0 <=? x) bs &&
      (fix go (l : list (string * tree)) : bool :=
         match l with [] => true | (_, c) :: r => prefixb bs (top_shape c) && cohb c && go r end) ents
  end.

(* ------------------------------------------------------------------ (a) remaining findings *)
(* D4 (reduced): a list of sizes that sums beyond the dim is truncated, not rejected (torch raises); the result is
   now coherent.  Kept because test_split_lazy splits a dim of size 2 with [3, 3]. *)
Lemma D4_split_list_truncates :
  t_split_list [3] [5] 0 = Reject /\
  td_split (td1 [3] [2]) (inr [5]) 0 = Done [td1 [3] [2]] /\
  t_split_list [3] [2; 2] 0 = Reject /\
  td_split (td1 [3] []) (inr [2; 2]) 0 = Done [td1 [2] []; td1 [1] []].
Proof. vm_compute. auto. Qed.

(* C02-l: without entries nothing validates the arguments (same root as C03's D3) *)
Lemma C02l_leafless_accepts :
  t_view [3; 3] [3] = Reject /\ apply (Node [3; 3] None []) (OView [3]) = Done (Node [3] None []).
Proof. vm_compute. auto. Qed.

(* ------------------------------------------------------------------ (b) repaired: the former counterexamples *)
Lemma D4_repaired :
  td_split (td1 [3] []) (inr [4; -1]) 0 = Raised ERuntime /\
  td_split (td1 [2] []) (inl 0) 0 = Raised ERuntime /\ td_split (td1 [2] []) (inl (-1)) 0 = Raised ERuntime /\
  cohb (td1 [3] [2]) = true.
Proof. vm_compute. auto. Qed.

Lemma D5_repaired :
  t_squeeze_all [1; 1] = Ok [] /\
  apply (named [1; 1] [Some "x"; Some "y"] [2]) (OSqueeze None) = Done (Node [] None [("a", Leaf [2])]) /\
  apply (td1 [1; 1] []) (OSqueeze None) = Done (Node [] None [("a", Leaf [])]).
Proof. vm_compute. auto. Qed.

Lemma C02a_repaired :
  apply (Node [1; 2] (Some [Some "x"; Some "y"]) [("n", Node [1; 2] (Some [Some "x"; Some "y"]) [("x", Leaf [1; 2])])])
        (OSqueeze None)
  = Done (Node [2] (Some [Some "y"]) [("n", Node [2] (Some [Some "y"]) [("x", Leaf [2])])]).
Proof. vm_compute. reflexivity. Qed.

Lemma D22_C02b_C02c_repaired :
  t_stack [[3]; [3]] 2 = Reject /\ td_stack [td1 [3] [4]; td1 [3] [4]] 2 = Raised EIndex /\
  t_stack [[3; 4]; [3; 4]] (-4) = Reject /\ td_stack [td1 [3; 4] []; td1 [3; 4] []] (-4) = Raised EIndex /\
  t_cat [[3; 4]; [3; 4]] (-3) = Reject /\ td_cat [td1 [3; 4] []; td1 [3; 4] []] (-3) = Raised ERuntime.
Proof. vm_compute. repeat split; reflexivity. Qed.

Lemma S5_C02d_repaired :
  t_flatten [2] 0 1 = Reject /\ apply (td1 [2] [3; 4]) (OFlatten 0 1) = Raised EIndex /\
  t_repeat_interleave [2] 2 (Some 1) = Reject /\ td_repeat_interleave (td1 [2] [3]) 2 (Some 1) = Raised EValue.
Proof. vm_compute. auto. Qed.

Lemma C02e_repaired :
  t_chunk [0; 2] 3 0 = Ok [[0; 2]; [0; 2]; [0; 2]] /\
  td_chunk (td1 [0; 2] []) 3 0 = Done [td1 [0; 2] []; td1 [0; 2] []; td1 [0; 2] []].
Proof. vm_compute. auto. Qed.

Lemma C02f_C02g_repaired :
  t_expand [1; 2] [-1; 2] = Ok [1; 2] /\ apply (td1 [1; 2] []) (OExpand [-1; 2]) = Done (td1 [1; 2] []) /\
  t_unflatten [6] 0 [2; -1] = Ok [2; 3] /\ apply (td1 [6] []) (OUnflatten 0 [2; -1]) = Done (td1 [2; 3] []).
Proof. vm_compute. auto. Qed.

Lemma C02h_repaired :
  t_view [3; 0] [3; -1] = Ok [3; 0] /\ apply (td1 [3; 0] []) (OView [3; -1]) = Done (td1 [3; 0] []) /\
  apply (Node [2; 0] None []) (OReshape [-1]) = Done (Node [0] None []).
Proof. vm_compute. auto. Qed.

Lemma C02ij_repaired :
  t_gather [2; 2; 2] (-1) [2; 2] = Reject /\ gather_at (td1 [2; 2; 2] []) (-1) [2; 2] = Raised ERuntime /\
  t_gather [3; 4] 1 [1; 2] = Ok [1; 2] /\ gather_at (td1 [3; 4] []) 1 [1; 2] = Done (td1 [1; 2] []).
Proof. vm_compute. auto. Qed.

Lemma C02k_repaired :
  apply (named [2; 3; 4] [Some "x"; Some "y"; Some "z"] []) (OPermute [1; 0])
  = Done (Node [3; 2; 4] (Some [Some "y"; Some "x"; Some "z"]) [("a", Leaf [3; 2; 4])]).
Proof. vm_compute. reflexivity. Qed.

Lemma C02m_repaired :
  t_repeat [] [] = Ok [] /\ apply (td1 [] []) (ORepeat []) = Done (td1 [] []).
Proof. vm_compute. auto. Qed.
