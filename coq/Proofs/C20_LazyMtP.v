(* C20 — lazy stacks in a thread pool: LazyStackedTensorDict._multithread_apply_flat / _multithread_rebuild return what
   _apply_nest returns, for every completion order. *)
From Coq Require Import ZArith List String Bool Lia Arith.
Import ListNotations.
From TD Require Import Model.C20_Apply Model.C20_Sched Model.C20_Lazy Proofs.C20_SchedP Proofs.C20_LazyP.
Open Scope string_scope.

Ltac inv H := inversion H; subst; clear H.

Lemma of_res_bind {X Y} (x : res X) (f : X -> res Y) : of_res (bind x f) = mbind (of_res x) (fun y => of_res (f y)).
Proof. destruct x; reflexivity. Qed.

Section MemberFusion.
Variable A : Type.
Variable o : opts.
Variable fn : option (list string) -> tree A -> list (option (tree A)) -> option A.

(* one tensordict, its tasks anywhere in the shared flat list *)
Lemma member_fusion con so sm sf oth out base tasks lfs log :
  flat_items A o (o_default o) con [] sm sf oth sf base = Ok (tasks, lfs) ->
  log_ok A fn log base tasks ->
  mbind (of_res (rebuild_init A o so sm sf out None)) (fun init =>
  mbind (rebuild_items A o log out sf sf lfs init false) (fun ra =>
  MOk (level_finish A o sm sf None (Some (fst ra)) (snd ra))))
  = of_res (apply_nest A o fn con [] so sm sf oth out None).
Proof.
  intros Hfl Hlog. unfold apply_nest, rebuild_init.
  destruct (level_init A o so sm sf out) as [init| |] eqn:Einit; [|reflexivity|reflexivity].
  destruct (level_init_props A o so sm sf out init Einit) as (P1 & P2 & P3).
  pose proof (fusion A o fn sf con [] sm sf oth out None base init false P2 P1 (P3 None)) as F.
  rewrite Hfl in F. destruct (F log Hlog) as [S1 _].
  cbn [bind of_res mbind]. fold (unopt A o sm None init).
  destruct (apply_items A o fn con [] sm sf oth out None sf init false) as [[res any']| |]; cbn [same_outcome] in S1;
    rewrite S1; cbn [bind mbind of_res fst snd]; try reflexivity; try (rewrite <- level_finish_unopt; reflexivity).
Qed.
End MemberFusion.

Section LazyMt.
Variable A : Type.
Variable o : opts.
Variable fn : option (list string) -> tree A -> list (option (tree A)) -> option A.
Notation tree := (tree A).
Notation mo := (mo o).

Lemma members_fusion con log : forall members others outs base tasks lfss,
  lz_flat A o con members others base = Ok (tasks, lfss) ->
  log_ok A fn log base tasks ->
  rebuild_members A o log members lfss outs = of_res (lazy_members A mo fn con [] members others outs).
Proof.
  induction members as [|m ms IH]; intros others outs base tasks lfss Hfl Hlog; cbn [lz_flat] in Hfl.
  - cbn [lazy_members]. destruct (forallb (@nil_b tree) others); [|discriminate]. inv Hfl. reflexivity.
  - destruct (heads A others) as [oth0|] eqn:Eh; [|discriminate].
    destruct m as [s v|ob d mm|so sm sf]; try discriminate.
    apply bind_okL in Hfl. destruct Hfl as ([t1 l1] & Hf1 & Hfl). apply bind_okL in Hfl. destruct Hfl as ([t2 l2] & Hf2 & Hfl).
    cbn [fst snd] in *. inv Hfl. apply log_ok_app in Hlog. destruct Hlog as [Hlog1 Hlog2].
    cbn [lazy_members rebuild_members]. rewrite Eh.
    destruct outs as [[|x xs]|].
    + reflexivity.
    + unfold member_rebuild.
      rewrite (member_fusion A mo fn con so sm sf oth0 (Some x) base t1 l1 log Hf1 Hlog1).
      rewrite of_res_bind. destruct (apply_nest A mo fn con [] so sm sf oth0 (Some x) None) as [r0| |]; cbn [of_res mbind]; try reflexivity.
      cbn [option_map tl].
      rewrite (IH (map (@tl tree) others) (Some xs) _ _ _ Hf2 Hlog2).
      rewrite of_res_bind. destruct (lazy_members A mo fn con [] ms (map (@tl tree) others) (Some xs)); reflexivity.
    + unfold member_rebuild.
      rewrite (member_fusion A mo fn con so sm sf oth0 None base t1 l1 log Hf1 Hlog1).
      rewrite of_res_bind. destruct (apply_nest A mo fn con [] so sm sf oth0 None None) as [r0| |]; cbn [of_res mbind]; try reflexivity.
      cbn [option_map].
      rewrite (IH (map (@tl tree) others) None _ _ _ Hf2 Hlog2).
      rewrite of_res_bind. destruct (lazy_members A mo fn con [] ms (map (@tl tree) others) None); reflexivity.
Qed.


(* the two forms agree on the result and on the exception class, except that the failure to re-stack a mix of None and
   results is a RuntimeError in the single-threaded form and the constructor's own AttributeError / TypeError in the pool *)
Definition agree {X} (st : res X) (mt : mres X) : Prop :=
  match st with
  | Raised ERuntime => mt = MRaised ERuntime \/ mt = MRaised EAttr \/ mt = MRaised EType
  | r => mt = of_res r
  end.
Lemma agree_refl {X} (r : res X) : agree r (of_res r).
Proof. destruct r as [x|e|]; [reflexivity| |reflexivity]. destruct e; cbn; auto. Qed.

Lemma fe_false_some con : forall members others outs rs,
  o_fe o = Some false ->
  lazy_members A mo fn con [] members others outs = Ok rs ->
  forallb is_none (map snd rs) = true -> members = [].
Proof.
  intros members others outs rs Hfe Hrs Hall.
  destruct (lazy_members_nth A mo fn _ _ _ _ _ _ Hrs) as [Hlen Hnth].
  destruct rs as [|[m r] rs']. { destruct members; [reflexivity|discriminate]. }
  exfalso. destruct (Hnth 0 m r eq_refl) as (_ & so & sm & sf & oth & _ & _ & _ & Ha).
  cbn [map snd forallb] in Hall. apply andb_true_iff in Hall. destruct Hall as [Hn _].
  apply (apply_nest_fe_false A mo fn) in Ha; [|exact Hfe]. destruct r; [discriminate|now apply Ha].
Qed.

Lemma stack_results_some : forall rets : list (option tree), existsb is_none rets = false ->
  stack_results A rets = Ok (flat_map (fun r => match r with Some t => [t] | None => [] end) rets).
Proof.
  intros rets H. unfold stack_results. destruct rets as [|[t|] l]; cbn [existsb is_none orb] in *; try discriminate; now rewrite ?H.
Qed.
Lemma stack_results_mix : forall rets : list (option tree), existsb is_none rets = true ->
  stack_results A rets = Raised EAttr \/ stack_results A rets = Raised EType.
Proof.
  intros rets H. unfold stack_results. destruct rets as [|[t|] l]; cbn [existsb is_none orb] in *; try discriminate; auto.
  rewrite H. auto.
Qed.

Theorem lazy_mt_nest_agrees : forall con self others out names pi oth tasks lfss,
  o_bs o = None ->
  unbind_all A (l_sd A self) others = Ok oth ->
  lz_flat A o con (l_members A self) oth 0 = Ok (tasks, lfss) ->
  (forall id, id < List.length tasks -> In id pi) ->
  agree (lz_apply_nest A o fn con self others out names) (lz_mt_nest A o fn con self others out names pi).
Proof.
  intros con self others out names pi oth tasks lfss Hbs Hoth Hfl Hpi.
  unfold lz_apply_nest, lz_mt_nest. destruct (l_members A self) as [|m0 mrest] eqn:Em; [reflexivity|].
  rewrite Hbs, Hoth. cbn [of_res mbind]. rewrite Hfl. cbn [of_res mbind fst snd].
  destruct (refuse_inplace o names); [reflexivity|].
  assert (Hlog : log_ok A fn (run_tasks A fn tasks pi) 0 tasks).
  { intros i t Hi. cbn [Nat.add]. rewrite log_get_run, Hi.
    assert (Hin : In i pi) by (apply Hpi; apply nth_error_Some; congruence).
    apply existsb_eqb_in in Hin. now rewrite Hin. }
  assert (Hbody : forall outs, mt_out A out = Ok outs -> out_members A out = outs ->
            agree (bind (Ok oth) (fun oth0 =>
                   bind (lazy_members A mo fn con [] (m0 :: mrest) oth0 (out_members A out)) (fun rs =>
                   let rets := map snd rs in
                   if forallb is_none rets && fe_drops o then Ok (LRNone A)
                   else bind (if o_inplace o then
                                Ok (Some (LRStack A (l_obj A self) (l_sd A self) (l_name A self)
                                            (map (fun mr => match snd mr with Some t => t | None => fst mr end) rs)))
                              else if forallb is_none rets then Ok None
                              else if existsb is_none rets then Raised ERuntime
                              else Ok (Some (LRStack A New (l_sd A self) (l_name A self)
                                               (flat_map (fun r => match r with Some t => [t] | None => [] end) rets))))
                             (finish_names A names))))
                  (mbind (of_res (mt_out A out)) (fun outs0 =>
                   mbind (rebuild_members A o (run_tasks A fn tasks pi) (m0 :: mrest) lfss outs0) (fun rs =>
                   let rets := map snd rs in
                   if fe_drops o && forallb is_none rets then MOk (LRNone A)
                   else mbind (of_res (if o_inplace o then
                                         Ok (LRStack A (l_obj A self) (l_sd A self) (l_name A self)
                                               (map (fun mr => match snd mr with Some t => t | None => fst mr end) rs))
                                       else bind (stack_results A rets) (fun l => Ok (LRStack A New (l_sd A self) (l_name A self) l))))
                              (fun st => of_res (finish_names A names (Some st))))))).
  { intros outs Hmo Hom. rewrite Hmo, Hom. cbn [bind of_res mbind].
    rewrite (members_fusion con _ (m0 :: mrest) oth outs 0 tasks lfss Hfl Hlog).
    destruct (lazy_members A mo fn con [] (m0 :: mrest) oth outs) as [rs|e|] eqn:Hrs; cbn [bind of_res mbind]; [|exact (agree_refl (Raised e))|reflexivity].
    cbn zeta. rewrite (andb_comm (fe_drops o)).
    destruct (forallb is_none (map snd rs)) eqn:Eall; cbn [andb].
    - destruct (fe_drops o) eqn:Efe; [reflexivity|].
      exfalso. assert (Hf : o_fe o = Some false).
      { unfold fe_drops in Efe. destruct (o_fe o) as [[|]|]; try discriminate. reflexivity. }
      pose proof (fe_false_some con _ _ _ _ Hf Hrs Eall). discriminate.
    - destruct (o_inplace o); cbn [bind of_res mbind]; [exact (agree_refl (finish_names A names _))|].
      destruct (existsb is_none (map snd rs)) eqn:Eex.
      + cbn [bind agree]. destruct (stack_results_mix _ Eex) as [E|E]; rewrite E; cbn [bind of_res mbind]; auto.
      + rewrite (stack_results_some _ Eex). cbn [bind of_res mbind]. exact (agree_refl (finish_names A names _)). }
  destruct out as [[tc oms|]|].
  - apply (Hbody (Some oms)); reflexivity.
  - reflexivity.
  - apply (Hbody None); reflexivity.
Qed.

Theorem lazy_mt_equals_st : forall con propagate self others out names pi oth tasks lfss,
  o_bs o = None ->
  unbind_all A (l_sd A self) others = Ok oth ->
  lz_flat A o con (l_members A self) oth 0 = Ok (tasks, lfss) ->
  (forall id, id < List.length tasks -> In id pi) ->
  agree (lz_front A o fn con propagate self others out names) (lz_mt_front A o fn con propagate self others out names pi).
Proof.
  intros con propagate self others out names pi oth tasks lfss Hbs Hoth Hfl Hpi.
  pose proof (lazy_mt_nest_agrees con self others out names pi oth tasks lfss Hbs Hoth Hfl Hpi) as H.
  unfold lz_front, lz_mt_front.
  destruct (lz_apply_nest A o fn con self others out names) as [r|e|]; cbn [agree] in H.
  - rewrite H. reflexivity.
  - destruct e; try (rewrite H; reflexivity). cbn [bind agree]. destruct H as [H|[H|H]]; rewrite H; auto.
  - rewrite H. reflexivity.
Qed.

(* the thread-pool form refuses batch_size= (the single-threaded form hands it to the stacked view or, with out=, ignores it) *)
Theorem lazy_mt_refuses_batch_size : forall con propagate self others out names pi b,
  l_members A self <> [] -> o_bs o = Some b ->
  lz_mt_front A o fn con propagate self others out names pi = MRaised ERuntime.
Proof.
  intros con propagate self others out names pi b Hne Hb. unfold lz_mt_front, lz_mt_nest.
  destruct (l_members A self); [now elim Hne|]. now rewrite Hb.
Qed.

End LazyMt.
