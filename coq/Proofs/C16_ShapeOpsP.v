(* C16: shape operations on a non-tensor entry; from_list / tolist round trip.
   The batch size of a NonTensorData after a shape op is the one C02's model of the code computes for a tensordict without
   entries; C02's theorem [shape_ops_batch_size] says it is torch's shape, for every rank and every argument torch accepts. *)
From Coq Require Import ZArith List Bool Lia.
Import ListNotations.
From TD Require Import Spec.PySlice Spec.C16_ObjArray Model.C16_NonTensor Model.C16_ShapeOps.
From TD Require Spec.C02_TorchShape Model.C02_ShapeOps Proofs.C02_FrameP Proofs.C02_OpsP.
Open Scope nat_scope.

Lemma wf_empty_td sh : C02_FrameP.wf (empty_td sh).
Proof.
  apply C02_FrameP.wfb_wf. unfold empty_td. cbn [C02_FrameP.wfb]. rewrite !andb_true_r.
  unfold zs. induction sh as [|n sh IH]; [reflexivity|]. cbn [map forallb]. rewrite IH, andb_true_r.
  apply Z.leb_le. lia.
Qed.

(* every shape op of C02, every rank, every argument torch accepts (in tensordict's documented domain): a NonTensorData comes
   back as a NonTensorData with the same payload and torch's result shape *)
Lemma shared_op_spec o p sh r :
  C02_OpsP.in_domain o (zs sh) -> C02_OpsP.torch_shape o (zs sh) = C02_TorchShape.Ok r ->
  shape_op o (Shared p sh) = SOk (Shared p (ns r)).
Proof.
  intros Hd Ht.
  destruct (C02_OpsP.shape_ops_batch_size (empty_td sh) o r (wf_empty_td sh) Hd Ht) as [t' [Ha [Hs _]]].
  cbn [shape_op]. unfold shared_op. rewrite Ha, Hs. reflexivity.
Qed.

(* ... hence it denotes the array the op gives: every position of the result holds the object every position of the source
   holds - in particular the one at the source position torch's element map picks *)
Lemma shared_op_denote o p sh r :
  C02_OpsP.in_domain o (zs sh) -> C02_OpsP.torch_shape o (zs sh) = C02_TorchShape.Ok r ->
  exists y, shape_op o (Shared p sh) = SOk y /\ shape y = Some (ns r) /\ wf y = true /\
            forall R I, in_range (ns r) R = true -> in_range sh I = true -> denote y R = denote (Shared p sh) I.
Proof.
  intros Hd Ht. exists (Shared p (ns r)). split; [apply shared_op_spec; assumption|].
  split; [reflexivity|]. split; [reflexivity|]. intros R I HR HI. cbn [denote]. rewrite HR, HI. reflexivity.
Qed.

(* the statement for every entry: false of the code for stacks (finding C16-i) *)
Definition shape_op_full_statement : Prop :=
  forall o x sh r, wf x = true -> shape x = Some sh ->
    C02_OpsP.in_domain o (zs sh) -> C02_OpsP.torch_shape o (zs sh) = C02_TorchShape.Ok r ->
    exists y, shape_op o x = SOk y /\ shape y = Some (ns r).

Definition witness_stack : nt := Stack 0 [Shared 1%Z [3]; Shared 2%Z [3]].

Lemma reshape_stack_refuted :
  wf witness_stack = true /\ shape witness_stack = Some [2; 3] /\
  C02_OpsP.torch_shape (C02_ShapeOps.OReshape [3; 2]%Z) (zs [2; 3]) = C02_TorchShape.Ok [3; 2]%Z /\
  shape_op (C02_ShapeOps.OReshape [3; 2]%Z) witness_stack = SLost [3; 2].
Proof. repeat split; vm_compute; reflexivity. Qed.

Lemma view_stack_refuted :
  wf witness_stack = true /\ shape witness_stack = Some [2; 3] /\
  C02_OpsP.torch_shape (C02_ShapeOps.OView [-1; 2]%Z) (zs [2; 3]) = C02_TorchShape.Ok [3; 2]%Z /\
  shape_op (C02_ShapeOps.OView [-1; 2]%Z) witness_stack = SRaised.
Proof. repeat split; vm_compute; reflexivity. Qed.

Lemma full_statement_refuted : ~ shape_op_full_statement.
Proof.
  intro H. destruct reshape_stack_refuted as (Hw & Hs & Ht & Hl).
  destruct (H (C02_ShapeOps.OReshape [3; 2]%Z) witness_stack [2; 3] [3; 2]%Z Hw Hs I Ht) as [y [Hy _]]. rewrite Hl in Hy. discriminate.
Qed.

(* ---------------- from_list / tolist *)
(* a nested list of uniform depth d without empty levels *)
Fixpoint uniform (d : nat) (t : tree) : Prop :=
  match d, t with
  | 0, Leaf _ => True
  | S d', Node l => l <> [] /\ Forall (uniform d') l
  | _, _ => False
  end.

Definition from_list_members : list tree -> res (list nt) :=
  fix mp (l : list tree) : res (list nt) :=
    match l with
    | [] => Ok []
    | c :: r => rbind (from_list c) (fun y => rbind (mp r) (fun ys => Ok (y :: ys)))
    end.

Lemma from_list_node l : from_list (Node l) = match l with [] => Raised | _ => rbind (from_list_members l) (fun ys => Ok (Stack 0 ys)) end.
Proof. destruct l; reflexivity. Qed.

Definition good (d : nat) (c : tree) (x : nt) : Prop :=
  from_list c = Ok x /\ (exists s, shape x = Some s /\ length s = d) /\ tolist_f (S d) x = Ok c.

Lemma members_good d l :
  Forall (fun c => exists x, good d c x) l ->
  exists ys, from_list_members l = Ok ys /\ length ys = length l /\
             Forall (fun y => exists s, shape y = Some s /\ length s = d) ys /\ rmap (tolist_f (S d)) ys = Ok l.
Proof.
  induction 1 as [|c l [x (Hf & Hs & Ht)] _ IH].
  - exists []. repeat split; constructor.
  - destruct IH as [ys (Hm & Hl & Hsh & Hr)]. exists (x :: ys). cbn [from_list_members]. fold from_list_members.
    rewrite Hf. cbn [rbind]. rewrite Hm. cbn [rbind]. split; [reflexivity|]. split; [cbn; lia|]. split; [constructor; assumption|].
    cbn [rmap]. rewrite Ht. cbn [rbind]. rewrite Hr. reflexivity.
Qed.

Lemma tolist_f_stack0 f l : tolist_f (S f) (Stack 0 l) = rbind (rmap (tolist_f f) l) (fun ts => Ok (Node ts)).
Proof. reflexivity. Qed.

Lemma from_list_good d : forall t, uniform d t -> exists x, good d t x.
Proof.
  induction d as [|d IH]; intros [p|l] Hu; cbn [uniform] in Hu; try contradiction.
  - exists (Shared p []). split; [reflexivity|]. split; [exists []; split; reflexivity|]. reflexivity.
  - destruct Hu as [Hne Hall].
    assert (Hg : Forall (fun c => exists x, good d c x) l).
    { rewrite Forall_forall in *. intros c Hc. apply IH, Hall, Hc. }
    destruct (members_good d l Hg) as [ys (Hm & Hl & Hsh & Hr)].
    exists (Stack 0 ys). unfold good. rewrite from_list_node. destruct l as [|c l]; [congruence|]. rewrite Hm. cbn [rbind].
    split; [reflexivity|].
    destruct ys as [|y ys]; [cbn in Hl; lia|].
    inversion Hsh as [|? ? [s [Hs Hls]] _]; subst.
    split.
    + exists (insert_at 0 (length (y :: ys)) s). cbn [shape]. rewrite Hs. cbn [Nat.leb]. split; [reflexivity|].
      unfold insert_at. cbn [firstn skipn app length]. lia.
    + rewrite tolist_f_stack0, Hr. reflexivity.
Qed.

(* tolist (from_list t) = t, with the batch rank = the depth *)
Lemma from_list_tolist d t : uniform d t -> exists x, from_list t = Ok x /\ rank x = d /\ tolist x = Ok t.
Proof.
  intros Hu. destruct (from_list_good d t Hu) as [x (Hf & [s [Hs Hl]] & Ht)].
  exists x. split; [exact Hf|]. assert (Hr : rank x = d) by (unfold rank; rewrite Hs; exact Hl).
  split; [exact Hr|]. unfold tolist. rewrite Hr. exact Ht.
Qed.

(* to_dict of the entry built from a nested list gives the nested list back (after the repair of D20) *)
Lemma from_list_to_dict d t : uniform (S d) t -> exists x, from_list t = Ok x /\ to_dict x = Ok (GList t).
Proof.
  intros Hu. destruct (from_list_tolist (S d) t Hu) as [x (Hf & _ & Ht)]. exists x. split; [exact Hf|].
  destruct t as [p|l]; [cbn in Hu; contradiction|]. rewrite from_list_node in Hf. destruct l as [|c l]; [discriminate|].
  destruct (from_list_members (c :: l)) as [ys| |]; cbn [rbind] in Hf; try discriminate.
  injection Hf as <-. cbn [to_dict]. unfold fixed_D20. rewrite Ht. reflexivity.
Qed.
