(* C10 — order independence of the writer tasks: lemmas. *)
From Coq Require Import ZArith List String Bool Permutation Lia.
Import ListNotations.
From TD Require Import Model.C10_Meta Model.C10_Sched.
Open Scope string_scope.
Open Scope list_scope.

(* ------------------------------------------------------------------ boolean equalities *)
Lemma path_eqb_eq : forall a b, path_eqb a b = true <-> a = b.
Proof.
  induction a as [|x a IH]; destruct b as [|y b]; cbn; split; intro H; try congruence; try discriminate.
  - apply andb_true_iff in H as [H1 H2]. apply String.eqb_eq in H1. apply IH in H2. congruence.
  - inversion H; subst. apply andb_true_iff; split; [apply String.eqb_refl|now apply IH].
Qed.

Lemma fname_eqb_eq : forall a b, fname_eqb a b = true <-> a = b.
Proof.
  destruct a, b; cbn; split; intro H; try congruence; try discriminate.
  - apply String.eqb_eq in H. congruence.
  - inversion H. apply String.eqb_refl.
Qed.

Lemma floc_eqb_eq : forall a b, floc_eqb a b = true <-> a = b.
Proof.
  intros [p f] [q g]; unfold floc_eqb; cbn; split; intro H.
  - apply andb_true_iff in H as [H1 H2]. apply path_eqb_eq in H1. apply fname_eqb_eq in H2. congruence.
  - inversion H; subst. apply andb_true_iff; split; [now apply path_eqb_eq|now apply fname_eqb_eq].
Qed.

(* ------------------------------------------------------------------ association lists *)
Section MapFacts.
  Context {K V : Type} (eqb : K -> K -> bool).
  Hypothesis eqb_eq : forall a b, eqb a b = true <-> a = b.

  Lemma eqb_refl' : forall a, eqb a a = true.
  Proof. intro a. now apply eqb_eq. Qed.

  Lemma eqb_sym' : forall a b, eqb a b = eqb b a.
  Proof.
    intros a b. destruct (eqb a b) eqn:E1, (eqb b a) eqn:E2; auto.
    - apply eqb_eq in E1. subst. rewrite eqb_refl' in E2. discriminate.
    - apply eqb_eq in E2. subst. rewrite eqb_refl' in E1. discriminate.
  Qed.

  Lemma mget_mset : forall k k0 (v : V) l,
    mget eqb k0 (mset eqb k v l) = if eqb k0 k then Some v else mget eqb k0 l.
  Proof.
    intros k k0 v l. induction l as [|[k' v'] l IH]; cbn.
    - reflexivity.
    - destruct (eqb k k') eqn:E; cbn.
      + apply eqb_eq in E. subst k'. destruct (eqb k0 k); reflexivity.
      + destruct (eqb k0 k') eqn:E2.
        * destruct (eqb k0 k) eqn:E3; auto.
          apply eqb_eq in E2. apply eqb_eq in E3. subst. rewrite eqb_refl' in E. discriminate.
        * apply IH.
  Qed.

  Lemma mget_mdel : forall k k0 (l : list (K * V)),
    mget eqb k0 (mdel eqb k l) = if eqb k0 k then None else mget eqb k0 l.
  Proof.
    intros k k0 l. induction l as [|[k' v'] l IH]; cbn.
    - destruct (eqb k0 k); reflexivity.
    - destruct (eqb k k') eqn:E.
      + rewrite IH. destruct (eqb k0 k) eqn:E2; auto.
        apply eqb_eq in E. subst k'. destruct (eqb k0 k) eqn:E3; [discriminate|reflexivity].
      + cbn. destruct (eqb k0 k') eqn:E2.
        * destruct (eqb k0 k) eqn:E3; auto. apply eqb_eq in E2. apply eqb_eq in E3. subst. rewrite eqb_refl' in E. discriminate.
        * apply IH.
  Qed.

  Lemma mget_fold_mdel : forall k (ks : list K) (l : list (K * V)),
    mget eqb k (fold_left (fun acc n => mdel eqb n acc) ks l) = if existsb (eqb k) ks then None else mget eqb k l.
  Proof.
    intros k ks. induction ks as [|n ks IH]; intro l; cbn [fold_left existsb]; auto.
    rewrite IH, mget_mdel. destruct (eqb k n), (existsb (eqb k) ks); reflexivity.
  Qed.

  (* the last binding of k in a batch of writes *)
  Definition last_write (k : K) (ws : list (K * V)) : option V :=
    fold_left (fun acc w => if eqb k (fst w) then Some (snd w) else acc) ws None.

  Lemma fold_last_acc : forall k (ws : list (K * V)) acc,
    fold_left (fun acc w => if eqb k (fst w) then Some (snd w) else acc) ws acc
    = match last_write k ws with Some v => Some v | None => acc end.
  Proof.
    intros k ws. unfold last_write. induction ws as [|w ws IH]; intro acc; cbn; auto.
    rewrite IH. rewrite (IH (if eqb k (fst w) then Some (snd w) else None)).
    destruct (fold_left _ ws None); auto. destruct (eqb k (fst w)); auto.
  Qed.

  Lemma mget_fold_mset : forall k (ws : list (K * V)) l,
    mget eqb k (fold_left (fun acc w => mset eqb (fst w) (snd w) acc) ws l)
    = match last_write k ws with Some v => Some v | None => mget eqb k l end.
  Proof.
    intros k ws. induction ws as [|w ws IH]; intro l.
    - reflexivity.
    - cbn [fold_left]. rewrite IH. rewrite mget_mset.
      assert (E : last_write k (w :: ws)
                  = match last_write k ws with Some v => Some v | None => if eqb k (fst w) then Some (snd w) else None end).
      { unfold last_write. cbn. apply fold_last_acc. }
      rewrite E. destruct (last_write k ws); auto. destruct (eqb k (fst w)); auto.
  Qed.

  Lemma last_write_in : forall k (ws : list (K * V)) v,
    last_write k ws = Some v -> existsb (eqb k) (map fst ws) = true.
  Proof.
    intros k ws. unfold last_write. induction ws as [|w ws IH] using rev_ind; intros v H; cbn in *.
    - discriminate.
    - rewrite fold_left_app in H. cbn in H. rewrite map_app, existsb_app. cbn.
      destruct (eqb k (fst w)); [now rewrite orb_true_r|]. rewrite (IH v H). reflexivity.
  Qed.
End MapFacts.

(* ------------------------------------------------------------------ what a task writes, as lookups *)
Definition wd (t : task) (k : path) : option minfo :=
  match t with
  | TPopulate p k0 (o, l) =>
      if refused o l then None
      else if path_eqb k (p ++ [k0]) then Some {| mdtype := ldtype l; mshape := lshape l; mfile := true |} else None
  | TWrite _ _ _ => None
  end.

Definition file_writes (t : task) : list (floc * content) :=
  match t with
  | TPopulate p k0 (o, l) =>
      if refused o l || Nat.eqb (numel (lshape l)) 0 then []
      else [((p, FLeaf k0), CCells (ldtype l) (if like o then repeat 0%Z (numel (lshape l)) else lcells l))]
  | TWrite p (Ok files) _ => map (fun fc => ((p, fst fc), snd fc)) files
  | TWrite p (Raised _) _ => []
  end.
Definition wf (t : task) (k : floc) : option content := last_write floc_eqb k (file_writes t).
Definition file_removals (t : task) : list floc :=
  match t with TWrite p (Ok _) rm => map (fun n => (p, n)) rm | _ => [] end.
Definition wr (t : task) (k : floc) : bool := existsb (floc_eqb k) (file_removals t).

Definition wdirs (t : task) (q : path) : bool :=
  match t with TWrite p (Ok _) _ => existsb (path_eqb q) (prefixes p) | _ => false end.

Lemma existsb_mkdirs : forall q p d,
  existsb (path_eqb q) (mkdirs p d) = existsb (path_eqb q) (prefixes p) || existsb (path_eqb q) d.
Proof.
  intros q p d. unfold mkdirs. generalize (prefixes p) as l. intro l. revert d.
  induction l as [|x l IH]; intro d; cbn.
  - reflexivity.
  - rewrite IH. destruct (existsb (path_eqb x) d) eqn:E.
    + destruct (path_eqb q x) eqn:E2; cbn; auto.
      apply path_eqb_eq in E2. subst x. rewrite E. now rewrite orb_true_r.
    + rewrite existsb_app. cbn. rewrite orb_false_r.
      destruct (path_eqb q x), (existsb (path_eqb q) l), (existsb (path_eqb q) d); reflexivity.
Qed.

Lemma run_task_dest : forall t s k,
  mget path_eqb k (dest (run_task t s)) = match wd t k with Some v => Some v | None => mget path_eqb k (dest s) end.
Proof.
  intros [p k0 [o l]|p [files|e] rm] s k; cbn; auto.
  destruct (refused o l); cbn; auto.
  rewrite (mget_mset path_eqb path_eqb_eq). destruct (path_eqb k (p ++ [k0])); reflexivity.
Qed.

Lemma run_task_fs : forall t s k,
  mget floc_eqb k (fs (run_task t s))
  = match wf t k with Some v => Some v | None => if wr t k then None else mget floc_eqb k (fs s) end.
Proof.
  intros [p k0 [o l]|p [files|e] rm] s k; unfold wf, wr; cbn; auto.
  - destruct (refused o l); cbn; auto.
    destruct (Nat.eqb (numel (lshape l)) 0); cbn; auto.
    rewrite (mget_mset floc_eqb floc_eqb_eq). unfold last_write. cbn.
    destruct (floc_eqb k (p, FLeaf k0)); reflexivity.
  - unfold write_files, remove_files.
    replace (fold_left (fun acc fc => mset floc_eqb (p, fst fc) (snd fc) acc) files
               (fold_left (fun acc n => mdel floc_eqb (p, n) acc) rm (fs s)))
      with (fold_left (fun acc w => mset floc_eqb (fst w) (snd w) acc) (map (fun fc => ((p, fst fc), snd fc)) files)
              (fold_left (fun (acc : list (floc * content)) n => mdel floc_eqb n acc) (map (fun n => (p, n)) rm) (fs s))).
    + rewrite (mget_fold_mset floc_eqb floc_eqb_eq). rewrite (mget_fold_mdel floc_eqb floc_eqb_eq). reflexivity.
    + assert (R : forall f : list (floc * content), fold_left (fun acc n => mdel floc_eqb n acc) (map (fun n => (p, n)) rm) f
                            = fold_left (fun acc n => mdel floc_eqb (p, n) acc) rm f).
      { induction rm as [|n rm IH]; intro f; cbn; auto. }
      rewrite R. generalize (fold_left (fun acc n => mdel floc_eqb (p, n) acc) rm (fs s)).
      induction files as [|fc files IH]; intro f; cbn; auto.
Qed.

Lemma run_task_dirs : forall t s q,
  existsb (path_eqb q) (dirs (run_task t s)) = wdirs t q || existsb (path_eqb q) (dirs s).
Proof.
  intros [p k0 [o l]|p [files|e] rm] s q; cbn; auto.
  - destruct (refused o l); reflexivity.
  - apply existsb_mkdirs.
Qed.

(* ------------------------------------------------------------------ state_equiv is an equivalence, tasks respect it *)
Lemma state_equiv_refl : forall s, state_equiv s s.
Proof. intro s; repeat split. Qed.
Lemma state_equiv_sym : forall a b, state_equiv a b -> state_equiv b a.
Proof. intros a b (H1 & H2 & H3); repeat split; intros; symmetry; auto. Qed.
Lemma state_equiv_trans : forall a b c, state_equiv a b -> state_equiv b c -> state_equiv a c.
Proof. intros a b c (H1 & H2 & H3) (G1 & G2 & G3); repeat split; intros; etransitivity; eauto. Qed.

Lemma run_task_equiv : forall t a b, state_equiv a b -> state_equiv (run_task t a) (run_task t b).
Proof.
  intros t a b (H1 & H2 & H3); repeat split; intros.
  - rewrite !run_task_dest, H1. reflexivity.
  - rewrite !run_task_fs, H2. reflexivity.
  - rewrite !run_task_dirs, H3. reflexivity.
Qed.

Lemma run_tasks_equiv : forall ts a b, state_equiv a b -> state_equiv (run_tasks ts a) (run_tasks ts b).
Proof.
  unfold run_tasks. induction ts as [|t ts IH]; intros a b H; cbn; auto.
  apply IH. now apply run_task_equiv.
Qed.

(* ------------------------------------------------------------------ two independent tasks commute *)
Lemma disjointb_spec : forall {A} (eqb : A -> A -> bool) (a b : list A) x,
  disjointb eqb a b = true -> existsb (eqb x) a = true -> (forall u v, eqb u v = true <-> u = v) -> existsb (eqb x) b = false.
Proof.
  intros A eqb a b x Hd Hx Heq. unfold disjointb in Hd. rewrite forallb_forall in Hd.
  apply existsb_exists in Hx as (y & Hy & Hxy). apply Heq in Hxy. subst y.
  specialize (Hd x Hy). now apply negb_true_iff in Hd.
Qed.

Lemma wd_target : forall t k v, wd t k = Some v -> existsb (path_eqb k) (dest_targets t) = true.
Proof.
  intros [p k0 [o l]|p r rm] k v; cbn; try discriminate.
  destruct (refused o l); try discriminate.
  destruct (path_eqb k (p ++ [k0])) eqn:E; try discriminate. intros _. cbn. now rewrite E.
Qed.

Lemma wf_target : forall t k v, wf t k = Some v -> existsb (floc_eqb k) (file_targets t) = true.
Proof.
  intros t k v H. unfold wf in H. apply (last_write_in floc_eqb) in H.
  destruct t as [p k0 [o l]|p [files|e] rm].
  - cbn in *. destruct (refused o l || Nat.eqb (numel (lshape l)) 0); cbn in *; auto.
  - apply existsb_exists in H as (x & Hx & Hkx). cbn [file_writes] in Hx. rewrite map_map in Hx.
    apply existsb_exists. exists x. split; auto. cbn [file_targets]. apply in_or_app. left. exact Hx.
  - discriminate.
Qed.

Lemma wr_target : forall t k, wr t k = true -> existsb (floc_eqb k) (file_targets t) = true.
Proof.
  intros t k H. unfold wr in H. destruct t as [p k0 [o l]|p [files|e] rm]; try discriminate.
  apply existsb_exists in H as (x & Hx & Hkx). apply existsb_exists. exists x. split; auto.
  cbn [file_targets]. apply in_or_app. right. exact Hx.
Qed.

Lemma independent2_wd : forall a b k va vb, independent2 a b = true -> wd a k = Some va -> wd b k = Some vb -> False.
Proof.
  intros a b k va vb H Ha Hb. unfold independent2 in H. apply andb_true_iff in H as [H _].
  apply wd_target in Ha. apply wd_target in Hb.
  rewrite (disjointb_spec path_eqb _ _ k H Ha path_eqb_eq) in Hb. discriminate.
Qed.

(* a task touches a file when it writes or removes it *)
Definition touches (t : task) (k : floc) : bool := match wf t k with Some _ => true | None => wr t k end.

Lemma touches_target : forall t k, touches t k = true -> existsb (floc_eqb k) (file_targets t) = true.
Proof.
  intros t k H. unfold touches in H. destruct (wf t k) eqn:E; [eapply wf_target; eauto|now apply wr_target].
Qed.

Lemma independent2_touch : forall a b k, independent2 a b = true -> touches a k = true -> touches b k = true -> False.
Proof.
  intros a b k H Ha Hb. unfold independent2 in H. apply andb_true_iff in H as [_ H].
  apply touches_target in Ha. apply touches_target in Hb.
  rewrite (disjointb_spec floc_eqb _ _ k H Ha floc_eqb_eq) in Hb. discriminate.
Qed.

Lemma tasks_commute_lemma : forall a b s,
  independent2 a b = true -> state_equiv (run_task b (run_task a s)) (run_task a (run_task b s)).
Proof.
  intros a b s H; repeat split; intros.
  - rewrite !run_task_dest. destruct (wd a k) eqn:Ea, (wd b k) eqn:Eb; auto.
    exfalso. eapply independent2_wd; eauto.
  - rewrite !run_task_fs.
    destruct (touches a k) eqn:Ta, (touches b k) eqn:Tb.
    + exfalso. eapply independent2_touch; eauto.
    + unfold touches in Tb. destruct (wf b k); [discriminate|]. rewrite Tb. reflexivity.
    + unfold touches in Ta. destruct (wf a k); [discriminate|]. rewrite Ta. reflexivity.
    + unfold touches in Ta, Tb. destruct (wf a k); [discriminate|]. destruct (wf b k); [discriminate|]. rewrite Ta, Tb. reflexivity.
  - rewrite !run_task_dirs. destruct (wdirs a p), (wdirs b p), (existsb (path_eqb p) (dirs s)); reflexivity.
Qed.

(* ------------------------------------------------------------------ independence is a property of the set of tasks *)
Lemma disjointb_sym : forall {A} (eqb : A -> A -> bool) (a b : list A),
  (forall u v, eqb u v = true <-> u = v) -> disjointb eqb a b = disjointb eqb b a.
Proof.
  intros A eqb a b Heq.
  assert (G : forall a b, disjointb eqb a b = true -> disjointb eqb b a = true).
  { clear a b. intros a b H. unfold disjointb in *. rewrite forallb_forall in *. intros y Hy.
    apply negb_true_iff. destruct (existsb (eqb y) a) eqn:E; auto.
    apply existsb_exists in E as (x & Hx & Hyx). apply Heq in Hyx. subst x.
    specialize (H y Hx). apply negb_true_iff in H.
    assert (existsb (eqb y) b = true) by (apply existsb_exists; exists y; split; auto; now apply Heq). congruence. }
  destruct (disjointb eqb a b) eqn:E1, (disjointb eqb b a) eqn:E2; auto.
  - apply G in E1. congruence.
  - apply G in E2. congruence.
Qed.

Lemma independent2_sym : forall a b, independent2 a b = independent2 b a.
Proof.
  intros a b. unfold independent2.
  rewrite (disjointb_sym path_eqb _ _ path_eqb_eq), (disjointb_sym floc_eqb _ _ floc_eqb_eq). reflexivity.
Qed.

Lemma independent_cons : forall t ts, independent (t :: ts) = true <-> Forall (fun x => independent2 t x = true) ts /\ independent ts = true.
Proof. intros. cbn. rewrite andb_true_iff, forallb_forall, Forall_forall. reflexivity. Qed.

Lemma independent_perm : forall ts ts', Permutation ts ts' -> independent ts = true -> independent ts' = true.
Proof.
  induction 1; intro Hi; auto.
  - apply independent_cons in Hi as [H1 H2]. apply independent_cons. split; auto.
    eapply Permutation_Forall; eauto.
  - apply independent_cons in Hi as [H1 H2]. apply independent_cons in H2 as [H2 H3].
    inversion H1; subst. apply independent_cons. split.
    + constructor; auto. now rewrite independent2_sym.
    + apply independent_cons. split; auto.
Qed.

(* ------------------------------------------------------------------ every completion order gives the same mapping and directory *)
Lemma any_order_lemma : forall ts ts', Permutation ts ts' -> independent ts = true ->
  forall s, state_equiv (run_tasks ts s) (run_tasks ts' s).
Proof.
  induction 1; intros Hi s.
  - apply state_equiv_refl.
  - unfold run_tasks; cbn. apply independent_cons in Hi as [_ Hi]. apply (IHPermutation Hi).
  - unfold run_tasks; cbn. apply run_tasks_equiv.
    apply independent_cons in Hi as [H1 _]. inversion H1; subst.
    apply tasks_commute_lemma. first [assumption | now rewrite independent2_sym].
  - eapply state_equiv_trans; [apply IHPermutation1; auto|].
    apply IHPermutation2. eapply independent_perm; eauto.
Qed.

(* a failing task is the identity in the pool and an exception inline *)
Lemma strict_ok_is_pool : forall ts s s', run_tasks_strict ts s = Ok s' -> s' = run_tasks ts s.
Proof.
  induction ts as [|t ts IH]; intros s s' H; cbn in *.
  - congruence.
  - destruct (run_task_strict t s) eqn:E; cbn in H; try discriminate.
    apply IH in H. subst s'. unfold run_tasks; cbn. f_equal.
    destruct t as [p k [o l]|p [files|e] rm]; cbn in E.
    + destruct (refused o l) eqn:R; try discriminate. inversion E; subst. cbn. now rewrite R.
    + inversion E. reflexivity.
    + discriminate.
Qed.

(* ------------------------------------------------------------------ what the call returns (S2) *)
Definition res_err {A} (r : res A) : option err := match r with Ok _ => None | Raised e => Some e end.

Lemma strict_task_error : forall t s, res_err (run_task_strict t s) = task_error t.
Proof.
  intros [p k [o l]|p [files|e] rm] s; cbn; auto. destruct (refused o l); reflexivity.
Qed.

Lemma strict_outcome : forall ts s, res_err (run_tasks_strict ts s) = first_error ts.
Proof.
  induction ts as [|t ts IH]; intro s; cbn; auto.
  pose proof (strict_task_error t s) as H. destruct (run_task_strict t s) eqn:E; cbn in H |- *; rewrite <- H; auto.
Qed.

(* with the repair (f.result() after the wait) a pool call raises exactly when the sequential call does, and the same
   exception class — whatever the completion order *)
Lemma pool_call_repaired_lemma : forall o inplace t ts',
  res_err (pool_call_gen true o inplace t ts') = res_err (run_sequential o inplace t).
Proof.
  intros o ip t ts'. unfold pool_call_gen, run_sequential. destruct (has_reserved t); auto.
  rewrite strict_outcome. destruct (first_error (tasks_of o t [])); reflexivity.
Qed.

(* without it the call never raises for a task's sake *)
Lemma pool_call_unrepaired_lemma : forall o inplace t ts',
  has_reserved t = false -> pool_call_gen false o inplace t ts' = Ok (run_pool o inplace t ts').
Proof. intros o ip t ts' H. unfold pool_call_gen. now rewrite H. Qed.
