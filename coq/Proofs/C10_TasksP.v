(* C10 — the tasks `_memmap_` submits are pairwise independent.  Lemmas. *)
From Coq Require Import ZArith List String Bool Permutation Lia.
Import ListNotations.
From TD Require Import Model.C10_Meta Model.C10_Sched Proofs.C10_MetaP Proofs.C10_SchedP.
Open Scope string_scope.
Open Scope list_scope.

(* every task has a tag: its directory and, for a tensor, its key; metadata tasks write no "<key>.memmap" file *)
Definition tag (t : task) : path * option string :=
  match t with TPopulate p k _ => (p, Some k) | TWrite p _ _ => (p, None) end.
Definition meta_only (t : task) : Prop :=
  match t with
  | TWrite _ (Ok files) rm => Forall (fun fc => match fst fc with FLeaf _ => False | _ => True end) files
                              /\ Forall (fun n => match n with FLeaf _ => False | _ => True end) rm
  | _ => True
  end.

Lemma existsb_false_notin : forall {A} (eqb : A -> A -> bool) (x : A) l,
  (forall u v, eqb u v = true <-> u = v) -> ~ In x l -> existsb (eqb x) l = false.
Proof.
  intros A eqb x l Heq Hn. destruct (existsb (eqb x) l) eqn:E; auto.
  apply existsb_exists in E as (y & Hy & Hxy). apply Heq in Hxy. subst. contradiction.
Qed.

Lemma tag_independent : forall a b, meta_only a -> meta_only b -> tag a <> tag b -> independent2 a b = true.
Proof.
  intros a b Ha Hb Hab. unfold independent2. apply andb_true_iff. split.
  - (* destination keys *)
    unfold disjointb. apply forallb_forall. intros x Hx. apply negb_true_iff.
    apply (existsb_false_notin path_eqb _ _ path_eqb_eq). intro Hy.
    destruct a as [p k [o l]|p r], b as [q k' [o' l']|q r']; cbn in *; try contradiction.
    destruct (refused o l); [contradiction|]. destruct (refused o' l'); [contradiction|].
    destruct Hx as [Hx|[]]. destruct Hy as [Hy|[]]. subst x. apply app_inj_tail in Hy as [E1 E2]. subst. now apply Hab.
  - (* files *)
    unfold disjointb. apply forallb_forall. intros x Hx. apply negb_true_iff.
    apply (existsb_false_notin floc_eqb _ _ floc_eqb_eq). intro Hy.
    assert (NL : forall (p : path) (files : list (fname * content)) (rm : list fname) (kk : string),
               Forall (fun fc => match fst fc with FLeaf _ => False | _ => True end) files ->
               Forall (fun n => match n with FLeaf _ => False | _ => True end) rm ->
               In (p, FLeaf kk) (map (fun fc => (p, fst fc)) files ++ map (fun n => (p, n)) rm) -> False).
    { intros p files rm kk F1 F2 Hin. apply in_app_or in Hin as [Hin|Hin].
      - apply in_map_iff in Hin as ([f c] & E & Hin). cbn in E. inversion E; subst.
        rewrite Forall_forall in F1. apply (F1 _ Hin).
      - apply in_map_iff in Hin as (n & E & Hin). inversion E; subst. rewrite Forall_forall in F2. apply (F2 _ Hin). }
    assert (DP : forall (p : path) (files : list (fname * content)) (rm : list fname) (y : floc),
               In y (map (fun fc => (p, fst fc)) files ++ map (fun n => (p, n)) rm) -> fst y = p).
    { intros p files rm y Hin. apply in_app_or in Hin as [Hin|Hin].
      - apply in_map_iff in Hin as (fc & E & _). now subst.
      - apply in_map_iff in Hin as (n & E & _). now subst. }
    destruct a as [p k [o l]|p [fa|ea] rma], b as [q k' [o' l']|q [fb|eb] rmb]; cbn in *; try contradiction.
    + destruct (refused o l || Nat.eqb (numel (lshape l)) 0); [contradiction|].
      destruct (refused o' l' || Nat.eqb (numel (lshape l')) 0); [contradiction|].
      destruct Hx as [Hx|[]]. destruct Hy as [Hy|[]]. subst x. inversion Hy; subst. now apply Hab.
    + destruct (refused o l || Nat.eqb (numel (lshape l)) 0); [contradiction|].
      destruct Hx as [Hx|[]]. subst x. pose proof (DP _ _ _ _ Hy) as E. cbn in E. subst q.
      destruct Hb as [B1 B2]. exact (NL _ _ _ _ B1 B2 Hy).
    + destruct (refused o' l' || Nat.eqb (numel (lshape l')) 0); [contradiction|].
      destruct Hy as [Hy|[]]. subst x. pose proof (DP _ _ _ _ Hx) as E. cbn in E. subst q.
      destruct Ha as [A1 A2]. exact (NL _ _ _ _ A1 A2 Hx).
    + pose proof (DP _ _ _ _ Hx) as E1. pose proof (DP _ _ _ _ Hy) as E2. apply Hab. congruence.
Qed.

Lemma nodup_tags_independent : forall ts, Forall meta_only ts -> NoDup (map tag ts) -> independent ts = true.
Proof.
  induction ts as [|t ts IH]; intros Hm Hnd; cbn; auto.
  inversion Hm; subst. inversion Hnd; subst. apply andb_true_iff. split; auto.
  apply forallb_forall. intros x Hx. apply tag_independent; auto.
  - rewrite Forall_forall in H2. now apply H2.
  - intro E. apply H3. rewrite E. now apply in_map.
Qed.

(* ------------------------------------------------------------------ the loops of tasks_of, named *)
Definition tasks_ents (o : opts) (p : path) := fix go (es : list (string * td)) : list task :=
  match es with
  | [] => []
  | (k, Leaf l) :: r => TPopulate p k (o, l) :: go r
  | (k, c) :: r => tasks_of o c (p ++ [k]) ++ go r
  end.
Definition tasks_members (o : opts) (p : path) := fix go (ms : list td) (i : nat) : list task :=
  match ms with [] => [] | m :: r => tasks_of o m (p ++ [string_of_nat i]) ++ go r (S i) end.

Lemma tasks_of_node : forall o bs ents p,
  tasks_of o (Node bs ents) p = tasks_ents o p ents ++ [TWrite p (Ok [(FMeta, CJson (JObj (node_meta bs ents)))]) []].
Proof. reflexivity. Qed.
Lemma tasks_of_lazy : forall o sd ms p,
  tasks_of o (Lazy sd ms) p
  = TWrite p (Ok [(FMeta, CJson (JObj (lazy_meta sd (List.length ms))))]) [] :: tasks_members o p ms 0.
Proof. reflexivity. Qed.

Definition keys_distinct_ents := fix all (es : list (string * td)) : bool :=
  match es with [] => true | (_, x) :: r => keys_distinct x && all r end.
Definition keys_distinct_list := fix all (l : list td) : bool := match l with [] => true | x :: r => keys_distinct x && all r end.
Lemma keys_distinct_node : forall bs ents, keys_distinct (Node bs ents) = nodupb (map fst ents) && keys_distinct_ents ents.
Proof. reflexivity. Qed.
Lemma keys_distinct_lazy : forall sd ms, keys_distinct (Lazy sd ms) = keys_distinct_list ms.
Proof. reflexivity. Qed.

(* ------------------------------------------------------------------ all tasks of a structure saved at p live at or under p *)
Definition under (p : path) (g : path * option string) : Prop := exists r, fst g = p ++ r.
Definition strictly_under (p : path) (k : string) (g : path * option string) : Prop := exists r, fst g = p ++ k :: r.

Lemma ndata_meta_only : forall p bs pl, meta_only (TWrite p (ndata_files bs pl []) (if is_json_serializable pl then [FOther] else [])).
Proof.
  intros p bs pl. unfold ndata_files. destruct (is_json_serializable pl).
  - destruct (json_of pl); cbn; auto; repeat constructor.
  - cbn. repeat constructor.
Qed.
Lemma nstack_meta_only : forall p n d, meta_only (TWrite p (nstack_files n d []) []).
Proof.
  intros p n d. unfold nstack_files. destruct (is_json_serializable d).
  - destruct (json_of d); cbn; auto; repeat constructor.
  - cbn. repeat constructor.
Qed.

Lemma tc_meta_only : forall p c nt, meta_only (TWrite p (tc_files c nt []) (tc_removes nt)).
Proof.
  intros p c nt. unfold tc_files, tc_removes. destruct (json_fields (ser_fields nt)); cbn; auto.
  destruct (pkl_fields nt); cbn; repeat constructor.
Qed.

Lemma tasks_facts : forall o t p,
  Forall meta_only (tasks_of o t p) /\ Forall (under p) (map tag (tasks_of o t p)).
Proof.
  intros o t. induction t using td_ind'; intro p.
  - split; constructor.
  - rewrite tasks_of_node. split.
    + apply Forall_app. split; [|repeat constructor].
      induction ents as [|[k x] ents IH]; [constructor|]. inversion H; subst. cbn [tasks_ents].
      destruct x; try (apply Forall_app; split; [apply (proj1 (H2 (p ++ [k])))|apply IH; auto]).
      constructor; [exact I|apply IH; auto].
    + rewrite map_app. apply Forall_app. split; [|constructor; [exists []; cbn; now rewrite app_nil_r|constructor]].
      induction ents as [|[k x] ents IH]; [constructor|]. inversion H; subst. cbn [tasks_ents].
      assert (G : Forall (under p) (map tag (tasks_of o x (p ++ [k])))).
      { cbn in H2. destruct (H2 (p ++ [k])) as [_ G]. eapply Forall_impl; [|exact G].
        intros g (r & Hr). exists (k :: r). now rewrite Hr, <- app_assoc. }
      destruct x; try (rewrite map_app; apply Forall_app; split; [exact G|apply IH; auto]).
      cbn. constructor; [exists []; cbn; now rewrite app_nil_r|apply IH; auto].
  - rewrite tasks_of_lazy. split.
    + constructor; [repeat constructor|]. generalize 0. induction ms as [|m ms IH]; intro i; [constructor|].
      inversion H; subst. cbn [tasks_members]. apply Forall_app. split; [apply (proj1 (H2 _))|apply IH; auto].
    + cbn [map]. constructor; [exists []; cbn; now rewrite app_nil_r|]. generalize 0.
      induction ms as [|m ms IH]; intro i; [constructor|]. inversion H; subst. cbn [tasks_members]. rewrite map_app.
      apply Forall_app. split; [|apply IH; auto].
      destruct (H2 (p ++ [string_of_nat i])) as [_ G]. eapply Forall_impl; [|exact G].
      intros g (r & Hr). exists (string_of_nat i :: r). now rewrite Hr, <- app_assoc.
  - cbn [tasks_of]. destruct (IHt (p ++ ["_tensordict"])) as [A B]. split.
    + constructor; [apply tc_meta_only|exact A].
    + cbn [map]. constructor; [exists []; cbn; now rewrite app_nil_r|].
      eapply Forall_impl; [|exact B]. intros g (r & Hr). exists ("_tensordict" :: r). now rewrite Hr, <- app_assoc.
  - cbn [tasks_of]. split; [constructor; [apply ndata_meta_only|constructor]|].
    cbn. constructor; [exists []; cbn; now rewrite app_nil_r|constructor].
  - cbn [tasks_of]. split; [constructor; [apply nstack_meta_only|constructor]|].
    cbn. constructor; [exists []; cbn; now rewrite app_nil_r|constructor].
Qed.

Lemma under_strict : forall o x p k g, In g (map tag (tasks_of o x (p ++ [k]))) -> strictly_under p k g.
Proof.
  intros o x p k g Hin. destruct (tasks_facts o x (p ++ [k])) as [_ G]. rewrite Forall_forall in G.
  destruct (G g Hin) as (r & Hr). exists r. now rewrite Hr, <- app_assoc.
Qed.

Lemma NoDup_app' : forall {A} (l1 l2 : list A), NoDup l1 -> NoDup l2 -> (forall x, In x l1 -> In x l2 -> False) -> NoDup (l1 ++ l2).
Proof.
  induction l1 as [|a l1 IH]; intros l2 H1 H2 Hd; cbn; auto.
  inversion H1; subst. constructor.
  - intro Hin. apply in_app_or in Hin as [Hin|Hin]; [contradiction|]. apply (Hd a); cbn; auto.
  - apply IH; auto. intros x Hx1 Hx2. apply (Hd x); cbn; auto.
Qed.

Lemma strictly_under_distinct : forall p k k' g, k <> k' -> strictly_under p k g -> strictly_under p k' g -> False.
Proof.
  intros p k k' g Hk (r & Hr) (r' & Hr'). rewrite Hr in Hr'. apply app_inv_head in Hr'. inversion Hr'. contradiction.
Qed.

Lemma strictly_under_not_here : forall p k g, strictly_under p k g -> fst g <> p.
Proof.
  intros p k g (r & Hr) E. rewrite E in Hr. rewrite <- (app_nil_r p) in Hr at 1. apply app_inv_head in Hr. discriminate.
Qed.

(* tags of the tasks of the entries of one node *)
Lemma tasks_ents_tags : forall o p ents g, In g (map tag (tasks_ents o p ents)) ->
  exists k, In k (map fst ents) /\ (g = (p, Some k) \/ strictly_under p k g).
Proof.
  intros o p ents. induction ents as [|[k x] ents IH]; intros g Hin; [contradiction|]. cbn [tasks_ents] in Hin.
  assert (Hcoll : In g (map tag (tasks_of o x (p ++ [k]) ++ tasks_ents o p ents)) ->
                  exists k0, In k0 (map fst ((k, x) :: ents)) /\ (g = (p, Some k0) \/ strictly_under p k0 g)).
  { intro Hi. rewrite map_app in Hi. apply in_app_or in Hi as [Hi|Hi].
    - exists k. split; [now left|right; eapply under_strict; eauto].
    - destruct (IH g Hi) as (k0 & A & B). exists k0. split; [now right|auto]. }
  destruct x; try (apply Hcoll; exact Hin).
  cbn in Hin. destruct Hin as [E|Hi].
  - exists k. split; [now left|left; now symmetry].
  - destruct (IH g Hi) as (k0 & A & B). exists k0. split; [now right|auto].
Qed.

Lemma tasks_nodup : forall o t p, keys_distinct t = true -> NoDup (map tag (tasks_of o t p)).
Proof.
  intros o t. induction t using td_ind'; intros p Hk.
  - constructor.
  - rewrite keys_distinct_node in Hk. apply andb_true_iff in Hk as [Hnd Hall]. apply nodupb_NoDup in Hnd.
    rewrite tasks_of_node, map_app. apply NoDup_app'.
    + (* entries *)
      induction ents as [|[k x] ents IH]; [constructor|]. inversion H; subst. inversion Hnd; subst.
      cbn in Hall. apply andb_true_iff in Hall as [Hx Hall]. cbn [tasks_ents].
      assert (Hrest : NoDup (map tag (tasks_ents o p ents))) by (apply IH; auto).
      assert (Hcoll : NoDup (map tag (tasks_of o x (p ++ [k]) ++ tasks_ents o p ents))).
      { rewrite map_app. apply NoDup_app'; [apply H2; exact Hx|exact Hrest|].
        intros g Hg1 Hg2. apply (under_strict o x p k) in Hg1.
        destruct (tasks_ents_tags o p ents g Hg2) as (k0 & Hk0 & [E|Hs]).
        - subst g. apply (strictly_under_not_here _ _ _ Hg1). reflexivity.
        - apply (strictly_under_distinct p k k0 g); auto. intro; subst; contradiction. }
      destruct x; try exact Hcoll.
      cbn [map tag]. constructor; auto. intro Hin.
      destruct (tasks_ents_tags o p ents _ Hin) as (k0 & Hk0 & [E|Hs]).
      * inversion E; subst. contradiction.
      * apply (strictly_under_not_here _ _ _ Hs). reflexivity.
    + repeat constructor. intros [].
    + intros g Hg1 Hg2. cbn in Hg2. destruct Hg2 as [E|[]]. subst g.
      destruct (tasks_ents_tags o p ents _ Hg1) as (k0 & Hk0 & [E|Hs]); [discriminate|].
      apply (strictly_under_not_here _ _ _ Hs). reflexivity.
  - rewrite keys_distinct_lazy in Hk. rewrite tasks_of_lazy. cbn [map tag].
    assert (G : forall i, NoDup (map tag (tasks_members o p ms i))
                /\ (forall g, In g (map tag (tasks_members o p ms i)) -> exists j, i <= j /\ strictly_under p (string_of_nat j) g)).
    { induction ms as [|m ms IH]; intro i; [split; [constructor|intros g []]|].
      inversion H; subst. cbn in Hk. apply andb_true_iff in Hk as [Hm Hk]. cbn [tasks_members].
      destruct (IH H3 Hk (S i)) as [A B]. split.
      - rewrite map_app. apply NoDup_app'; [apply H2; exact Hm|exact A|].
        intros g Hg1 Hg2. apply (under_strict o m p) in Hg1. destruct (B g Hg2) as (j & Hj & Hs).
        apply (strictly_under_distinct p (string_of_nat i) (string_of_nat j) g); auto.
        intro E. apply string_of_nat_inj in E. lia.
      - intros g Hg. rewrite map_app in Hg. apply in_app_or in Hg as [Hg|Hg].
        + exists i. split; auto. eapply under_strict; eauto.
        + destruct (B g Hg) as (j & Hj & Hs). exists j. split; auto. lia. }
    destruct (G 0) as [A B]. constructor; auto. intro Hin. destruct (B _ Hin) as (j & _ & Hs).
    apply (strictly_under_not_here _ _ _ Hs). reflexivity.
  - cbn [tasks_of map tag]. cbn [keys_distinct] in Hk. constructor; [|apply IHt; auto].
    intro Hin. apply (under_strict o t p "_tensordict") in Hin. apply (strictly_under_not_here _ _ _ Hin). reflexivity.
  - cbn. repeat constructor. intros [].
  - cbn. repeat constructor. intros [].
Qed.

Lemma tasks_independent_lemma : forall o t p, keys_distinct t = true -> independent (tasks_of o t p) = true.
Proof.
  intros o t p Hk. apply nodup_tags_independent.
  - apply tasks_facts.
  - now apply tasks_nodup.
Qed.
