(* C16 proofs, part 3: facts about the spec itself (Spec/C16_ObjArray): lengths, compositionality of ix_shape / ix_src over
   concatenated indices, every source position is a position of the source array. *)
From Coq Require Import ZArith List Bool Lia.
Import ListNotations.
From TD Require Import Spec.PySlice Spec.C16_ObjArray Model.C16_NonTensor Proofs.SliceP Proofs.C16_BasicsP.
Open Scope nat_scope.

Definition cons_n (idx : list item) : nat := fold_right (fun it n => consumes it + n) 0 idx.
Definition prod_n (idx : list item) : nat := fold_right (fun it n => produces it + n) 0 idx.

Lemma cons_n_app a b : cons_n (a ++ b) = cons_n a + cons_n b.
Proof. induction a as [|x a IH]; cbn [app cons_n fold_right]; [reflexivity|]. fold (cons_n (a ++ b)) (cons_n a). lia. Qed.
Lemma prod_n_app a b : prod_n (a ++ b) = prod_n a + prod_n b.
Proof. induction a as [|x a IH]; cbn [app prod_n fold_right]; [reflexivity|]. fold (prod_n (a ++ b)) (prod_n a). lia. Qed.
Lemma cons_n_cons it a : cons_n (it :: a) = consumes it + cons_n a.
Proof. reflexivity. Qed.
Lemma prod_n_cons it a : prod_n (it :: a) = produces it + prod_n a.
Proof. reflexivity. Qed.

(* ---------------- firstn / skipn arithmetic *)
Lemma firstn_firstn_add {A} (l : list A) a b : firstn a (firstn (a + b) l) = firstn a l.
Proof. rewrite firstn_firstn. f_equal. lia. Qed.
Lemma skipn_firstn_add {A} (l : list A) a b : skipn a (firstn (a + b) l) = firstn b (skipn a l).
Proof.
  revert l. induction a as [|a IH]; intros l; [reflexivity|]. destruct l as [|x l]; cbn [Nat.add firstn skipn].
  - now rewrite firstn_nil.
  - apply IH.
Qed.
Lemma skipn_skipn_add {A} (l : list A) a b : skipn b (skipn a l) = skipn (a + b) l.
Proof.
  revert l. induction a as [|a IH]; intros l; [reflexivity|]. destruct l as [|x l]; cbn [Nat.add skipn].
  - now rewrite skipn_nil.
  - apply IH.
Qed.

(* ---------------- items *)
Lemma norm_lt i n j : norm i n = Some j -> j < n.
Proof.
  unfold norm. destruct ((0 <=? i) && (i <? Z.of_nat n))%Z eqn:E1.
  - intros H; injection H as <-. lia.
  - destruct ((- Z.of_nat n <=? i) && (i <? 0))%Z eqn:E2; [|discriminate]. intros H; injection H as <-. lia.
Qed.

Lemma sl_nth_lt a b c n k : (0 < step_of c)%Z -> k < sl_len a b c n -> sl_nth a b c n k < n.
Proof.
  intros Hc Hk. unfold sl_nth, sl_len in *.
  pose proof (py_indices_in_bounds a b (step_of c) (Z.of_nat n) (Z.of_nat k)) as H.
  assert (0 <= Z.of_nat n)%Z by lia. assert (step_of c <> 0)%Z by lia.
  specialize (H H0 H1). lia.
Qed.

Lemma item_shape_length it dims o : item_shape it dims = Some o -> length o = produces it /\ length dims = consumes it.
Proof.
  destruct it as [i|a b c| |tsh vals|msh bits]; cbn [item_shape produces consumes].
  - destruct dims as [|n [|? ?]]; try discriminate. destruct (norm i n); [|discriminate]. intros H; injection H as <-. auto.
  - destruct dims as [|n [|? ?]]; try discriminate. destruct (step_of c <=? 0)%Z; [discriminate|]. intros H; injection H as <-. auto.
  - destruct dims; [|discriminate]. intros H; injection H as <-. auto.
  - destruct dims as [|n [|? ?]]; try discriminate.
    destruct (Nat.eqb (length vals) (prod tsh) && vals_ok vals n && negb (Nat.eqb (length tsh) 0)); [|discriminate].
    intros H; injection H as <-. auto.
  - destruct (shape_eqb msh dims && Nat.eqb (length bits) (prod msh) && negb (Nat.eqb (length msh) 0)) eqn:E; [|discriminate].
    intros H; injection H as <-. split; [reflexivity|].
    apply andb_true_iff in E as [E _]. apply andb_true_iff in E as [E _].
    clear -E. revert dims E. induction msh as [|x m IH]; intros [|y d]; cbn [shape_eqb]; try discriminate; [reflexivity|].
    intros E. apply andb_true_iff in E as [_ E]. cbn [length]. now rewrite (IH d E).
Qed.

Lemma shape_eqb_true a : forall b, shape_eqb a b = true -> a = b.
Proof.
  induction a as [|x a IH]; intros [|y b]; cbn [shape_eqb]; try discriminate; [reflexivity|].
  intros E. apply andb_true_iff in E as [E1 E2]. apply Nat.eqb_eq in E1. subst. now rewrite (IH b E2).
Qed.

(* unravel of a flat position below the number of elements is a position of the shape *)
Lemma prod_cons n sh : prod (n :: sh) = n * prod sh.
Proof. reflexivity. Qed.
Lemma unravel_in_range sh : forall k, k < prod sh -> in_range sh (unravel sh k) = true.
Proof.
  induction sh as [|n sh IH]; intros k Hk; cbn [unravel in_range]; [reflexivity|].
  rewrite prod_cons in Hk. assert (Hp : prod sh <> 0) by (intros E; rewrite E in Hk; lia).
  apply andb_true_iff. split.
  - apply Nat.ltb_lt. apply Nat.div_lt_upper_bound; [assumption|]. lia.
  - apply IH. now apply Nat.mod_upper_bound.
Qed.
Lemma unravel_length sh k : length (unravel sh k) = length sh.
Proof. revert k. induction sh as [|n sh IH]; intros k; cbn [unravel length]; [reflexivity|]. now rewrite IH. Qed.

Lemma true_pos_from_lt bits : forall k0 p, In p (true_pos_from k0 bits) -> p < k0 + length bits.
Proof.
  induction bits as [|b r IH]; intros k0 p H; cbn [true_pos_from] in H; [contradiction|].
  cbn [length]. destruct b.
  - destruct H as [<-|H]; [lia|]. specialize (IH (S k0) p H). lia.
  - specialize (IH (S k0) p H). lia.
Qed.

(* an item maps result coordinates to coordinates of the dims it consumes *)
Lemma item_src_in_range it dims r s :
  item_src it dims r = Some s -> in_range dims s = true.
Proof.
  destruct it as [i|a b c| |tsh vals|msh bits]; cbn [item_src].
  - destruct dims as [|n [|? ?]]; try discriminate. destruct r; [|discriminate].
    destruct (norm i n) as [j|] eqn:E; cbn [option_map]; [|discriminate]. intros H; injection H as <-.
    cbn [in_range]. apply norm_lt in E. apply Nat.ltb_lt in E. now rewrite E.
  - destruct dims as [|n [|? ?]]; try discriminate. destruct r as [|k [|? ?]]; try discriminate.
    destruct (step_of c <=? 0)%Z eqn:Ec; [discriminate|]. destruct (k <? sl_len a b c n) eqn:Ek; [|discriminate].
    intros H; injection H as <-. cbn [in_range]. apply Nat.ltb_lt in Ek.
    assert (sl_nth a b c n k < n) by (apply sl_nth_lt; [lia|assumption]).
    apply Nat.ltb_lt in H. now rewrite H.
  - destruct dims; [|discriminate]. destruct r as [|[|?] [|? ?]]; try discriminate. intros H; now injection H as <-.
  - destruct dims as [|n [|? ?]]; try discriminate.
    destruct (Nat.eqb (length vals) (prod tsh) && vals_ok vals n && negb (Nat.eqb (length tsh) 0) && in_range tsh r); [|discriminate].
    destruct (nth_error vals (ravel tsh r)) as [v|]; [|discriminate].
    destruct (norm v n) as [j|] eqn:E; cbn [option_map]; [|discriminate]. intros H; injection H as <-.
    cbn [in_range]. apply norm_lt in E. apply Nat.ltb_lt in E. now rewrite E.
  - destruct (shape_eqb msh dims && Nat.eqb (length bits) (prod msh) && negb (Nat.eqb (length msh) 0)) eqn:E; [|discriminate].
    destruct r as [|k [|? ?]]; try discriminate.
    destruct (nth_error (true_pos bits) k) as [p|] eqn:Ep; cbn [option_map]; [|discriminate]. intros H; injection H as <-.
    apply andb_true_iff in E as [E _]. apply andb_true_iff in E as [E1 E2].
    apply shape_eqb_true in E1. subst dims. apply Nat.eqb_eq in E2.
    apply unravel_in_range. apply nth_error_In in Ep. apply true_pos_from_lt in Ep. lia.
Qed.

Lemma item_src_length it dims r s : item_src it dims r = Some s -> length r = produces it /\ length s = length dims.
Proof.
  intros H.
  destruct it as [i|a b c| |tsh vals|msh bits]; cbn [item_src produces] in *.
  - destruct dims as [|n [|? ?]]; try discriminate. destruct r; [|discriminate].
    destruct (norm i n); cbn [option_map] in H; [|discriminate]. injection H as <-. auto.
  - destruct dims as [|n [|? ?]]; try discriminate. destruct r as [|k [|? ?]]; try discriminate.
    destruct (step_of c <=? 0)%Z; [discriminate|]. destruct (k <? sl_len a b c n); [|discriminate]. injection H as <-. auto.
  - destruct dims; [|discriminate]. destruct r as [|[|?] [|? ?]]; try discriminate. injection H as <-. auto.
  - destruct dims as [|n [|? ?]]; try discriminate.
    destruct (Nat.eqb (length vals) (prod tsh) && vals_ok vals n && negb (Nat.eqb (length tsh) 0) && in_range tsh r) eqn:E; [|discriminate].
    apply andb_true_iff in E as [_ E].
    destruct (nth_error vals (ravel tsh r)) as [v|]; [|discriminate].
    destruct (norm v n); cbn [option_map] in H; [|discriminate]. injection H as <-. split; [|reflexivity].
    clear -E. revert r E. induction tsh as [|x t IH]; intros [|y r]; cbn [in_range]; try discriminate; [reflexivity|].
    intros E. apply andb_true_iff in E as [_ E]. cbn [length]. now rewrite (IH r E).
  - destruct (shape_eqb msh dims && Nat.eqb (length bits) (prod msh) && negb (Nat.eqb (length msh) 0)) eqn:E; [|discriminate].
    destruct r as [|k [|? ?]]; try discriminate.
    destruct (nth_error (true_pos bits) k) as [p|]; cbn [option_map] in H; [|discriminate]. injection H as <-.
    split; [reflexivity|]. rewrite unravel_length.
    apply andb_true_iff in E as [E _]. apply andb_true_iff in E as [E _]. apply shape_eqb_true in E. now subst.
Qed.

(* ---------------- whole indices *)
Lemma ix_shape_length idx : forall sh r,
  ix_shape idx sh = Some r -> cons_n idx <= length sh /\ length r + cons_n idx = length sh + prod_n idx.
Proof.
  induction idx as [|it idx IH]; intros sh r H; cbn [ix_shape] in H.
  - injection H as <-. cbn. lia.
  - destruct (length sh <? consumes it) eqn:El; [discriminate|]. apply Nat.ltb_ge in El.
    destruct (item_shape it (firstn (consumes it) sh)) as [o|] eqn:Eo; cbn [obind] in H; [|discriminate].
    destruct (ix_shape idx (skipn (consumes it) sh)) as [o'|] eqn:Eo'; cbn [obind] in H; [|discriminate].
    injection H as <-. destruct (IH _ _ Eo') as [A B]. rewrite skipn_length in A, B.
    destruct (item_shape_length _ _ _ Eo) as [C _]. rewrite cons_n_cons, prod_n_cons, app_length. lia.
Qed.

Lemma ix_src_length idx : forall sh r s,
  ix_src idx sh r = Some s -> length s = length sh /\ length r + cons_n idx = length sh + prod_n idx /\ in_range sh s = true.
Proof.
  induction idx as [|it idx IH]; intros sh r s H; cbn [ix_src] in H.
  - destruct (in_range sh r) eqn:E; [|discriminate]. injection H as <-.
    pose proof (in_range_length _ _ E). cbn. repeat split; auto; lia.
  - destruct ((length sh <? consumes it) || (length r <? produces it)) eqn:El; [discriminate|].
    apply orb_false_iff in El as [El1 El2]. apply Nat.ltb_ge in El1, El2.
    destruct (item_src it (firstn (consumes it) sh) (firstn (produces it) r)) as [s1|] eqn:E1; cbn [obind] in H; [|discriminate].
    destruct (ix_src idx (skipn (consumes it) sh) (skipn (produces it) r)) as [s2|] eqn:E2; cbn [obind] in H; [|discriminate].
    injection H as <-. destruct (IH _ _ _ E2) as (A & B & C). rewrite !skipn_length in *.
    destruct (item_src_length _ _ _ _ E1) as [D E]. rewrite !firstn_length in *.
    pose proof (item_src_in_range _ _ _ _ E1) as F.
    rewrite cons_n_cons, prod_n_cons, app_length. repeat split; try lia.
    rewrite <- (firstn_skipn (consumes it) sh) at 1. rewrite in_range_app.
    rewrite firstn_length, Nat.min_l by lia.
    assert (Hc : length s1 = consumes it) by lia. rewrite <- Hc in F, C |- *.
    rewrite firstn_app, Nat.sub_diag, firstn_all, skipn_app, Nat.sub_diag, skipn_all. cbn [firstn skipn]. rewrite app_nil_r. cbn [app].
    now rewrite F, C.
Qed.

Lemma obind_assoc3 {A B} (o : option A) (f : A -> option B) : obind o f = match o with Some a => f a | None => None end.
Proof. reflexivity. Qed.

(* compositionality: an index a ++ b acts as a on the dims a consumes and as b on the others *)
Lemma ix_shape_app a : forall b sh,
  ix_shape (a ++ b) sh =
  if length sh <? cons_n a then None
  else obind (ix_shape a (firstn (cons_n a) sh)) (fun o => obind (ix_shape b (skipn (cons_n a) sh)) (fun o' => Some (o ++ o'))).
Proof.
  induction a as [|it a IH]; intros b sh.
  - cbn [app cons_n fold_right firstn skipn ix_shape obind]. destruct (ix_shape b sh); reflexivity.
  - cbn [app ix_shape]. rewrite cons_n_cons.
    destruct (length sh <? consumes it) eqn:E1.
    + apply Nat.ltb_lt in E1. destruct (length sh <? consumes it + cons_n a) eqn:E2; [reflexivity|]. apply Nat.ltb_ge in E2. lia.
    + apply Nat.ltb_ge in E1. rewrite IH, skipn_length.
      destruct (length sh <? consumes it + cons_n a) eqn:E2.
      * apply Nat.ltb_lt in E2. replace (length sh - consumes it <? cons_n a) with true by (symmetry; apply Nat.ltb_lt; lia).
        destruct (item_shape it (firstn (consumes it) sh)); reflexivity.
      * apply Nat.ltb_ge in E2. replace (length sh - consumes it <? cons_n a) with false by (symmetry; apply Nat.ltb_ge; lia).
        rewrite firstn_length, Nat.min_l by lia.
        replace (consumes it + cons_n a <? consumes it) with false by (symmetry; apply Nat.ltb_ge; lia).
        rewrite firstn_firstn_add, skipn_firstn_add, skipn_skipn_add.
        destruct (item_shape it (firstn (consumes it) sh)) as [o1|]; cbn [obind]; [|reflexivity].
        destruct (ix_shape a (firstn (cons_n a) (skipn (consumes it) sh))) as [o2|]; cbn [obind]; [|reflexivity].
        destruct (ix_shape b (skipn (consumes it + cons_n a) sh)) as [o3|]; cbn [obind]; [|reflexivity].
        now rewrite app_assoc.
Qed.

Lemma ix_src_app a : forall b sh r,
  ix_src (a ++ b) sh r =
  if (length sh <? cons_n a) || (length r <? prod_n a) then None
  else obind (ix_src a (firstn (cons_n a) sh) (firstn (prod_n a) r)) (fun s =>
       obind (ix_src b (skipn (cons_n a) sh) (skipn (prod_n a) r)) (fun s' => Some (s ++ s'))).
Proof.
  induction a as [|it a IH]; intros b sh r.
  - cbn [app cons_n prod_n fold_right firstn skipn ix_src obind in_range orb Nat.ltb Nat.leb].
    destruct (ix_src b sh r); reflexivity.
  - cbn [app ix_src]. rewrite cons_n_cons, prod_n_cons.
    destruct ((length sh <? consumes it) || (length r <? produces it)) eqn:E1.
    + apply orb_true_iff in E1.
      replace ((length sh <? consumes it + cons_n a) || (length r <? produces it + prod_n a)) with true; [reflexivity|].
      symmetry. apply orb_true_iff. destruct E1 as [E|E]; apply Nat.ltb_lt in E; [left|right]; apply Nat.ltb_lt; lia.
    + apply orb_false_iff in E1 as [E1 E1']. apply Nat.ltb_ge in E1, E1'. rewrite IH, !skipn_length.
      destruct ((length sh <? consumes it + cons_n a) || (length r <? produces it + prod_n a)) eqn:E2.
      * replace ((length sh - consumes it <? cons_n a) || (length r - produces it <? prod_n a)) with true.
        { destruct (item_src it (firstn (consumes it) sh) (firstn (produces it) r)); reflexivity. }
        symmetry. apply orb_true_iff in E2. apply orb_true_iff.
        destruct E2 as [E|E]; apply Nat.ltb_lt in E; [left|right]; apply Nat.ltb_lt; lia.
      * apply orb_false_iff in E2 as [E2 E2']. apply Nat.ltb_ge in E2, E2'.
        replace ((length sh - consumes it <? cons_n a) || (length r - produces it <? prod_n a)) with false
          by (symmetry; apply orb_false_iff; split; apply Nat.ltb_ge; lia).
        rewrite !firstn_length, !Nat.min_l by lia.
        replace ((consumes it + cons_n a <? consumes it) || (produces it + prod_n a <? produces it)) with false
          by (symmetry; apply orb_false_iff; split; apply Nat.ltb_ge; lia).
        rewrite !firstn_firstn_add, !skipn_firstn_add, !skipn_skipn_add.
        destruct (item_src it (firstn (consumes it) sh) (firstn (produces it) r)) as [s1|]; cbn [obind]; [|reflexivity].
        destruct (ix_src a (firstn (cons_n a) (skipn (consumes it) sh)) (firstn (prod_n a) (skipn (produces it) r))) as [s2|];
          cbn [obind]; [|reflexivity].
        destruct (ix_src b (skipn (consumes it + cons_n a) sh) (skipn (produces it + prod_n a) r)) as [s3|]; cbn [obind]; [|reflexivity].
        now rewrite app_assoc.
Qed.
