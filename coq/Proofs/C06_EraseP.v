(* C06 — TensorDictBase._erase_cache_upwards: erasing the caches of the touched nodes and of their registered lock parents. *)
From Coq Require Import ZArith List String Bool Arith Lia.
Import ListNotations.
From TD Require Import Model.C06_Cache Proofs.C06_PathP Proofs.C06_ViewP Proofs.C06_KeyP Proofs.C06_CacheP.
Open Scope string_scope.
Open Scope list_scope.

Definition erased (s : state) (touched : path -> bool) (x : node) : bool :=
  touched (n_path x) || existsb (fun y => touched (n_path y) && path_mem (n_path x) (n_parents y)) (nodes s).

Lemma erase_touched_eq : forall s T, erase_touched s T = upd_nodes s (fun x => if erased s T x then with_cache x [] else x).
Proof. reflexivity. Qed.

Lemma path_mem_in : forall q l, path_mem q l = true <-> In q l.
Proof.
  intros q l. unfold path_mem. rewrite existsb_exists. split.
  - intros [x [Hx E]]. apply path_eqb_eq in E. now subst.
  - intros H. exists q. split; [assumption|apply path_eqb_refl].
Qed.

Lemma nodes_under_rewrite : forall (l : list node) (f g : node -> node) (x : path) (T : path -> bool),
  (forall y, In y l -> n_path (f y) = n_path y /\ info (f y) = info (g y)) ->
  (forall y, In y l -> T (n_path y) = false -> g y = y) ->
  (forall y, In y l -> T (n_path y) = true -> is_prefix x (n_path y) = false) ->
  flat_map (fun n => match strip x (n_path (f n)) with Some r => [(r, info (f n))] | None => [] end) l
  = flat_map (fun n => match strip x (n_path n) with Some r => [(r, info n)] | None => [] end) l.
Proof.
  intros l f g x T. induction l as [|y l IH]; intros K Hout C; [reflexivity|]. cbn [flat_map].
  rewrite IH; [|intros; apply K; now right|intros; apply Hout; [now right|assumption]|intros; apply C; [now right|assumption]]. f_equal.
  destruct (K y (or_introl eq_refl)) as [Kp Ki]. rewrite Kp.
  destruct (strip x (n_path y)) as [r|] eqn:S; [|reflexivity].
  assert (Ty : T (n_path y) = false).
  { destruct (T (n_path y)) eqn:Ty; [|reflexivity]. assert (X := C y (or_introl eq_refl) Ty). unfold is_prefix in X. rewrite S in X. discriminate. }
  rewrite Ki, (Hout y (or_introl eq_refl) Ty). reflexivity.
Qed.

(* node rewrites that keep everything but the metadata *)
Definition keeps (g : node -> node) (n : node) : Prop :=
  n_path (g n) = n_path n /\ n_uid (g n) = n_uid n /\ n_kind (g n) = n_kind n /\ n_flag (g n) = n_flag n
  /\ n_parents (g n) = n_parents n /\ n_cache (g n) = n_cache n.

(* The repair in general form.  s1 differs from the good state s by a rewrite g of node metadata and by new entry bindings;
   every node that is rewritten, or that owns a rebound entry, is [touched] and locked, hence erases upwards.  Then every
   memoised entry that survives belongs to a node that sees none of the changes. *)
Lemma erase_touched_good : forall U s s1 (g : node -> node) (T : path -> bool),
  Good U s ->
  nodes s1 = map g (nodes s) ->
  (forall n, In n (nodes s) -> keeps g n) ->
  (forall n, In n (nodes s) -> T (n_path n) = false -> g n = n) ->
  (forall n, In n (nodes s) -> flag_locked n = true ->
             (forall y, In y (nodes s) -> T (n_path y) = true -> is_prefix (n_path n) (n_path y) = false) ->
             leaves_under s1 (n_path n) = leaves_under s (n_path n)) ->
  (forall y, In y (nodes s) -> T (n_path y) = true -> flag_locked y = true) ->
  Good U (erase_touched s1 T).
Proof.
  intros U s s1 g T G Hn Hk Hout Hl Hlk. rewrite erase_touched_eq.
  set (f := fun n => if erased s1 T (g n) then with_cache (g n) [] else g n).
  assert (E : nodes (upd_nodes s1 (fun x => if erased s1 T x then with_cache x [] else x)) = map f (nodes s)).
  { unfold upd_nodes. cbn [nodes]. rewrite Hn, map_map. reflexivity. }
  assert (In' : forall n', In n' (nodes (upd_nodes s1 (fun x => if erased s1 T x then with_cache x [] else x))) -> exists n, In n (nodes s) /\ n' = f n).
  { intros n' H. rewrite E in H. apply in_map_iff in H. destruct H as [n [<- H]]. now exists n. }
  assert (K : forall n, In n (nodes s) -> n_path (f n) = n_path n /\ flag_locked (f n) = flag_locked n /\ n_parents (f n) = n_parents n
                        /\ n_flag (f n) = n_flag n /\ n_kind (f n) = n_kind n /\ info (f n) = info (g n)).
  { intros n H. destruct (Hk n H) as [G1 [G2 [G3 [G4 [G5 G6]]]]]. unfold f, flag_locked.
    destruct (erased s1 T (g n)); cbn; rewrite ?G1, ?G3, ?G4, ?G5; repeat split; reflexivity. }
  assert (TD1 : all_td (upd_nodes s1 (fun x => if erased s1 T x then with_cache x [] else x))).
  { intros n' H. destruct (In' n' H) as [n [Hn0 ->]]. destruct (K n Hn0) as [_ [_ [_ [_ [Kk _]]]]]. rewrite Kk. now destruct (g_td U s G n Hn0). }
  (* a locked node that is not erased has no touched node at or below it *)
  assert (Clear : forall n, In n (nodes s) -> flag_locked n = true -> erased s1 T (g n) = false ->
                            forall y, In y (nodes s) -> T (n_path y) = true -> is_prefix (n_path n) (n_path y) = false).
  { intros n Hn0 L Er y Hy Ty. destruct (is_prefix (n_path n) (n_path y)) eqn:P; [|reflexivity]. exfalso.
    unfold erased in Er. apply orb_false_iff in Er. destruct Er as [E1 E2]. destruct (Hk n Hn0) as [Gp _]. rewrite Gp in *.
    destruct (prefix_split _ _ P) as [P'|P'].
    - rewrite P' in E1. congruence.
    - assert (R : In (n_path n) (n_parents y)) by (eapply (g_pc U s G n y); eauto).
      assert (X : existsb (fun y0 => T (n_path y0) && path_mem (n_path n) (n_parents y0)) (nodes s1) = true).
      { apply existsb_exists. exists (g y). split; [rewrite Hn; now apply in_map|].
        destruct (Hk y Hy) as [Yp [_ [_ [_ [Ypa _]]]]]. rewrite Yp, Ypa, Ty. cbn. now apply path_mem_in. }
      congruence. }
  constructor.
  - rewrite E, map_map. erewrite map_ext_in; [apply (g_nodup U s G)|]. intros n H. apply (K n H).
  - intros n' H. destruct (In' n' H) as [n [Hn0 ->]]. destruct (K n Hn0) as [_ [_ [_ [Kf [Kk _]]]]]. rewrite Kf, Kk. now apply (g_td U s G).
  - intros n' x' H H' L P. destruct (In' n' H) as [n [Hn0 ->]], (In' x' H') as [x [Hx0 ->]].
    destruct (K n Hn0) as [Kp [Kl _]], (K x Hx0) as [Kp' [Kl' _]]. rewrite Kl in L. rewrite Kl'. rewrite Kp, Kp' in P. eapply (g_lc U s G n x); eauto.
  - intros n' x' H H' L P. destruct (In' n' H) as [n [Hn0 ->]], (In' x' H') as [x [Hx0 ->]].
    destruct (K n Hn0) as [Kp [Kl _]], (K x Hx0) as [Kp' [_ [Kpa _]]]. rewrite Kl in L. rewrite Kp, Kp' in P. rewrite Kp, Kpa. eapply (g_pc U s G n x); eauto.
  - intros n' H L. destruct (In' n' H) as [n [Hn0 ->]]. destruct (K n Hn0) as [_ [Kl _]]. rewrite Kl in L.
    unfold f. destruct (erased s1 T (g n)); [reflexivity|].
    destruct (Hk n Hn0) as [_ [_ [_ [_ [_ Gc]]]]]. rewrite Gc. now apply (g_ue U s G).
  - intros n' e H He. destruct (In' n' H) as [n [Hn0 ->]]. destruct (Hk n Hn0) as [Gp [_ [_ [_ [_ Gc]]]]].
    unfold f in He |- *. destruct (erased s1 T (g n)) eqn:Er; [contradiction|]. rewrite Gc in He.
    assert (L : flag_locked n = true).
    { destruct (flag_locked n) eqn:L; [reflexivity|]. rewrite (g_ue U s G n Hn0 L) in He. contradiction. }
    assert (C := Clear n Hn0 L Er).
    eapply entry_ok_view; [exact Gp| |apply (g_inv U s G n e Hn0 He)].
    unfold view_of.
    assert (N : nodes_under (upd_nodes s1 (fun x => if erased s1 T x then with_cache x [] else x)) (n_path n) = nodes_under s (n_path n)).
    { unfold nodes_under. rewrite E. rewrite flat_map_map.
      apply (nodes_under_rewrite (nodes s) f g (n_path n) T); auto.
      intros y Hy. destruct (K y Hy) as [Kp [_ [_ [_ [_ Ki]]]]]. now split. }
    assert (Lv : leaves_under (upd_nodes s1 (fun x => if erased s1 T x then with_cache x [] else x)) (n_path n) = leaves_under s (n_path n)).
    { change (leaves_under s1 (n_path n) = leaves_under s (n_path n)). now apply Hl. }
    rewrite N, Lv. now rewrite (has_lazy_td s (n_path n) (good_all_td U s G)).
Qed.

Lemma id_keeps : forall n, keeps (fun x => x) n.
Proof. intros. repeat split. Qed.

(* erasing after a change of the element store only (in-place modification of a stack of non-tensor data) *)
Lemma erase_after_store_good : forall U s st' p0 o,
  Good U s -> find_node s p0 = Some o -> flag_locked o = true ->
  Good U (erase_touched {| nodes := nodes s; leaves := leaves s; store := st' |} (fun x => path_eqb x p0)).
Proof.
  intros U s st' p0 o G F L. destruct (find_node_in s p0 o F) as [Ho Po].
  apply (erase_touched_good U s _ (fun x => x) (fun x => path_eqb x p0)); auto.
  - cbn. now rewrite map_id.
  - intros; apply id_keeps.
  - intros y Hy Ty. apply path_eqb_eq in Ty. assert (y = o) by (apply (nodup_path_inj (nodes s)); auto; [apply (g_nodup U s G)|congruence]). now subst.
Qed.
