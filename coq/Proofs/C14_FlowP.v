(* C14 — lemmas about the dataflow model. *)
From Coq Require Import List String Bool Arith Lia.
Import ListNotations.
From TD Require Import Model.C14_Flow Spec.C14_Fold.

(* ------------------------------------------------------------------ keys and maps *)
Lemma key_eqb_eq : forall a b, key_eqb a b = true <-> a = b.
Proof.
  induction a as [|x a IH]; destruct b as [|y b]; cbn; split; intro H; try congruence; try discriminate.
  - apply andb_true_iff in H as [H1 H2]. apply String.eqb_eq in H1. apply IH in H2. congruence.
  - inversion H; subst. rewrite String.eqb_refl. cbn. now apply IH.
Qed.
Lemma key_eqb_refl : forall a, key_eqb a a = true.
Proof. intro; now apply key_eqb_eq. Qed.
Lemma key_eqb_neq : forall a b, key_eqb a b = false <-> a <> b.
Proof.
  intros a b; split; intro H.
  - intro E. apply key_eqb_eq in E. congruence.
  - destruct (key_eqb a b) eqn:E; [apply key_eqb_eq in E; contradiction|reflexivity].
Qed.
Lemma key_eqb_sym : forall a b, key_eqb a b = key_eqb b a.
Proof.
  intros a b. destruct (key_eqb a b) eqn:E.
  - apply key_eqb_eq in E; subst. now rewrite key_eqb_refl.
  - apply key_eqb_neq in E. symmetry. apply key_eqb_neq. congruence.
Qed.
Lemma key_dec : forall a b : key, {a = b} + {a <> b}.
Proof. intros a b. destruct (key_eqb a b) eqn:E; [left; now apply key_eqb_eq|right; now apply key_eqb_neq]. Qed.

Lemma memk_In : forall k l, memk k l = true <-> List.In k l.
Proof.
  intros k l. unfold memk. rewrite existsb_exists. split.
  - intros [x [Hx E]]. apply key_eqb_eq in E. now subst.
  - intro H. exists k. split; [assumption|apply key_eqb_refl].
Qed.
Lemma memk_false : forall k l, memk k l = false <-> ~ List.In k l.
Proof.
  intros k l. split; intro H.
  - intro HI. apply memk_In in HI. congruence.
  - destruct (memk k l) eqn:E; [apply memk_In in E; contradiction|reflexivity].
Qed.
Lemma memk_app : forall k a b, memk k (a ++ b) = memk k a || memk k b.
Proof. intros. unfold memk. apply existsb_app. Qed.
Lemma subk_spec : forall a b, subk a b = true <-> (forall k, List.In k a -> List.In k b).
Proof.
  intros a b. unfold subk. rewrite forallb_forall. split; intros H k Hk.
  - apply memk_In. now apply H.
  - apply memk_In. now apply H.
Qed.

Lemma get_set : forall k k' v t, get k (set k' v t) = if key_eqb k k' then Some v else get k t.
Proof.
  intros k k' v t. induction t as [|[k2 v2] r IH]; cbn.
  - now destruct (key_eqb k k').
  - destruct (key_eqb k' k2) eqn:E2; cbn.
    + apply key_eqb_eq in E2; subst. destruct (key_eqb k k2) eqn:E; reflexivity.
    + destruct (key_eqb k k2) eqn:E.
      * apply key_eqb_eq in E; subst. destruct (key_eqb k2 k') eqn:E3; [|reflexivity].
        rewrite key_eqb_sym in E3. congruence.
      * exact IH.
Qed.

Lemma get_select : forall k ks t, get k (select ks t) = if memk k ks then get k t else None.
Proof.
  intros k ks t. induction t as [|[k2 v2] r IH]; cbn.
  - now destruct (memk k ks).
  - destruct (memk k2 ks) eqn:M; cbn.
    + destruct (key_eqb k k2) eqn:E.
      * apply key_eqb_eq in E; subst. now rewrite M.
      * exact IH.
    + destruct (key_eqb k k2) eqn:E.
      * apply key_eqb_eq in E; subst. rewrite M in *. exact IH.
      * exact IH.
Qed.

Lemma has_keys : forall k t, memk k (keys t) = has k t.
Proof.
  intros k t. unfold has. induction t as [|[k2 v2] r IH]; cbn; [reflexivity|].
  destruct (key_eqb k k2); [reflexivity|exact IH].
Qed.
Lemma get_In_keys : forall k t v, get k t = Some v -> List.In k (keys t).
Proof. intros k t v H. apply memk_In. rewrite has_keys. unfold has. now rewrite H. Qed.

(* update(keys_to_update): the binding of every key is the source's where the filter lets it through *)
Lemma get_upd_fold : forall dst0 src ktu L acc k,
  get k (fold_left (fun acc k => match get k src with
                                 | Some v => if upd_cond dst0 ktu k then set k v acc else acc
                                 | None => acc end) L acc)
  = if memk k L && upd_cond dst0 ktu k && has k src then get k src else get k acc.
Proof.
  intros dst0 src ktu L. induction L as [|k1 L IH]; intros acc k; cbn [fold_left].
  - reflexivity.
  - rewrite IH. cbn [memk existsb]. fold (memk k L).
    destruct (memk k L && upd_cond dst0 ktu k && has k src) eqn:C1.
    + apply andb_true_iff in C1 as [C1 C3]. apply andb_true_iff in C1 as [C1 C2].
      rewrite C1, C2, C3. now rewrite orb_true_r.
    + destruct (key_eqb k k1) eqn:E; cbn [orb].
      * apply key_eqb_eq in E; subst k1. unfold has. destruct (get k src) eqn:G.
        -- destruct (upd_cond dst0 ktu k) eqn:U; cbn.
           ++ now rewrite get_set, key_eqb_refl.
           ++ reflexivity.
        -- now rewrite andb_false_r.
      * rewrite C1. destruct (get k1 src); [|reflexivity].
        destruct (upd_cond dst0 ktu k1); [|reflexivity]. now rewrite get_set, E.
Qed.

Lemma get_upd_ktu : forall dst src ktu k,
  get k (upd_ktu dst src ktu) = if upd_cond dst ktu k && has k src then get k src else get k dst.
Proof.
  intros. unfold upd_ktu. rewrite get_upd_fold. rewrite has_keys.
  destruct (has k src) eqn:H; cbn; [|now rewrite andb_false_r].
  now rewrite andb_true_r.
Qed.

Lemma upd_cond_mem : forall dst ktu k, memk k ktu = true -> upd_cond dst ktu k = true.
Proof.
  intros dst ktu k H. unfold upd_cond. rewrite H, orb_true_r, andb_true_r.
  apply existsb_exists. apply memk_In in H. exists k. split; [assumption|apply String.eqb_refl].
Qed.

(* ------------------------------------------------------------------ the spec respects extensional equality *)
Definition oeqe (a b : option env) : Prop :=
  match a, b with Some x, Some y => eqe x y | None, None => True | _, _ => False end.

Lemma eqe_refl : forall e, eqe e e. Proof. intros e k; reflexivity. Qed.
Lemma eqe_sym : forall a b, eqe a b -> eqe b a. Proof. intros a b H k; now rewrite H. Qed.
Lemma eqe_trans : forall a b c, eqe a b -> eqe b c -> eqe a c. Proof. intros a b c H1 H2 k; now rewrite H1. Qed.

Lemma eread_ext : forall ks e1 e2, eqe e1 e2 -> eread ks e1 = eread ks e2.
Proof. induction ks as [|k r IH]; intros e1 e2 H; cbn; [reflexivity|]. now rewrite (H k), (IH e1 e2 H). Qed.
Lemma eupd_ext : forall e1 e2 k v, eqe e1 e2 -> eqe (eupd e1 k v) (eupd e2 k v).
Proof. intros e1 e2 k v H k'. unfold eupd. destruct (key_eqb k' k); [reflexivity|apply H]. Qed.
Lemma ewrite_ext : forall kvs e1 e2, eqe e1 e2 -> eqe (ewrite kvs e1) (ewrite kvs e2).
Proof.
  unfold ewrite. induction kvs as [|kv r IH]; intros e1 e2 H; cbn; [assumption|].
  apply IH. destruct (is_sink (fst kv)); [assumption|now apply eupd_ext].
Qed.
Lemma apply_leaf_ext : forall l e1 e2, eqe e1 e2 -> oeqe (apply_leaf l e1) (apply_leaf l e2).
Proof.
  intros l e1 e2 H. unfold apply_leaf. rewrite (eread_ext _ _ _ H).
  destruct (eread (ins l) e2); cbn; [now apply ewrite_ext|exact I].
Qed.
Lemma spec_run_ext : forall ls e1 e2, eqe e1 e2 -> oeqe (spec_run ls e1) (spec_run ls e2).
Proof.
  induction ls as [|l r IH]; intros e1 e2 H; cbn; [assumption|].
  pose proof (apply_leaf_ext l e1 e2 H) as HA.
  destruct (apply_leaf l e1), (apply_leaf l e2); cbn in HA; try contradiction; [now apply IH|exact I].
Qed.
Lemma spec_run_app : forall a b e,
  spec_run (a ++ b) e = match spec_run a e with Some e1 => spec_run b e1 | None => None end.
Proof.
  induction a as [|l r IH]; intros b e; cbn; [reflexivity|].
  destruct (apply_leaf l e); [apply IH|reflexivity].
Qed.

(* ------------------------------------------------------------------ model operations are the spec's *)
Lemma read_all_eread : forall ks x, read_all ks x = eread ks (env_of x).
Proof. induction ks as [|k r IH]; intro x; cbn; [reflexivity|]. unfold env_of at 1. now rewrite IH. Qed.
Lemma env_of_set : forall k v d, eqe (env_of (set k v d)) (eupd (env_of d) k v).
Proof. intros k v d k'. unfold env_of, eupd. apply get_set. Qed.
Lemma env_of_write_all : forall kvs d, eqe (env_of (write_all kvs d)) (ewrite kvs (env_of d)).
Proof.
  unfold write_all, ewrite. induction kvs as [|kv r IH]; intro d; cbn; [apply eqe_refl|].
  destruct (is_sink (fst kv)); [apply IH|].
  eapply eqe_trans; [apply IH|]. apply (ewrite_ext r). apply env_of_set.
Qed.

(* ------------------------------------------------------------------ induction principle for the nested type *)
Section NodeInd.
  Variable P : node -> Prop.
  Hypothesis HL : forall l, P (Leaf l).
  Hypothesis HS : forall c ms, Forall P ms -> P (Seq c ms).
  Fixpoint node_ind' (n : node) : P n :=
    match n with
    | Leaf l => HL l
    | Seq c ms => HS c ms ((fix go (ms : list node) : Forall P ms :=
                              match ms with
                              | [] => Forall_nil P
                              | m :: r => Forall_cons m (node_ind' m) (go r)
                              end) ms)
    end.
End NodeInd.

(* ------------------------------------------------------------------ regular graphs: chains of in-place modules *)
Definition inpl_true (i : inplace) : bool := match i with ITrue => true | _ => false end.
Fixpoint regular (n : node) : bool :=
  match n with
  | Leaf l => inpl_true (linpl l) && negb (is_some (lsel l))
  | Seq c ms => match sinpl c with None | Some ITrue => true | _ => false end
                && negb (is_some (ssel c)) && negb (spt c) && forallb regular ms
  end.

Definition run_rel (sh : option td) (so : option env) (st : (td * option td) + (td * option td)) : Prop :=
  match so with
  | Some e' => exists cur', st = inl (cur', sh) /\ eqe (env_of cur') e'
  | None => exists cur', st = inr (cur', sh)
  end.
Definition fwd_rel (so : option env) (oc : outcome) : Prop :=
  match so with
  | Some e' => exists x', oc = Done x' None RIn /\ eqe (env_of x') e'
  | None => exists x', oc = Raised x' None
  end.

Lemma regular_leaf : forall l x, regular (Leaf l) = true ->
  fwd_rel (spec_run (leaves (Leaf l)) (env_of x)) (fwd (Leaf l) x None).
Proof.
  intros l x H. cbn in H. apply andb_true_iff in H as [H1 H2].
  cbn [leaves spec_run fwd]. unfold fwd_leaf, apply_leaf. rewrite read_all_eread.
  destruct (eread (ins l) (env_of x)) as [args|]; cbn.
  - destruct (linpl l); try discriminate. unfold hook. destruct (lsel l); [discriminate|].
    eexists; split; [reflexivity|]. apply env_of_write_all.
  - eexists; reflexivity.
Qed.

Lemma regular_run : forall ms,
  Forall (fun n => regular n = true -> forall x, fwd_rel (spec_run (leaves n) (env_of x)) (fwd n x None)) ms ->
  forallb regular ms = true ->
  forall sh cur, run_rel sh (spec_run (flat_map leaves ms) (env_of cur)) (run_gen fwd false ms cur sh).
Proof.
  induction ms as [|m r IH]; intros HF HR sh cur.
  - cbn. exists cur. split; [reflexivity|apply eqe_refl].
  - cbn [forallb] in HR. apply andb_true_iff in HR as [HRm HRr].
    inversion HF as [|? ? Hm Hr]; subst.
    cbn [flat_map run_gen]. rewrite spec_run_app. cbn [negb orb].
    specialize (Hm HRm cur). unfold fwd_rel in Hm.
    destruct (spec_run (leaves m) (env_of cur)) as [e1|].
    + destruct Hm as [x' [Hx Hxe]]. rewrite Hx.
      specialize (IH Hr HRr sh x').
      pose proof (spec_run_ext (flat_map leaves r) _ _ Hxe) as HE.
      unfold run_rel in *. destruct (spec_run (flat_map leaves r) (env_of x')) as [e2|],
        (spec_run (flat_map leaves r) e1) as [e3|]; cbn in HE; try contradiction.
      * destruct IH as [c' [Hc He]]. exists c'. split; [assumption|]. eapply eqe_trans; eassumption.
      * exact IH.
    + destruct Hm as [x' Hx]. rewrite Hx. exists x'. reflexivity.
Qed.

Lemma regular_fwd : forall n, regular n = true ->
  forall x, fwd_rel (spec_run (leaves n) (env_of x)) (fwd n x None).
Proof.
  induction n as [l|c ms IH] using node_ind'; intros HR x.
  - now apply regular_leaf.
  - cbn in HR. apply andb_true_iff in HR as [HR H4]. apply andb_true_iff in HR as [HR H3].
    apply andb_true_iff in HR as [H1 H2].
    cbn [fwd leaves]. unfold seq_copied. destruct (ssel c) eqn:Es; [discriminate|]. cbn [is_some].
    destruct (spt c) eqn:Ep; [discriminate|].
    pose proof (regular_run ms IH H4 None x) as HRun. unfold run_rel in HRun. unfold fwd_rel.
    destruct (spec_run (flat_map leaves ms) (env_of x)) as [e'|].
    + destruct HRun as [cur' [Hc He]]. rewrite Hc. cbn [finish inp_of]. rewrite Es. cbn [is_some].
      exists cur'. split; [|assumption].
      destruct (sinpl c) as [[| |]|]; try discriminate; reflexivity.
    + destruct HRun as [cur' Hc]. rewrite Hc. cbn [finish inp_of]. exists cur'. reflexivity.
Qed.

(* ------------------------------------------------------------------ seq_is_fold: the top module, any configuration *)
Definition top_regular (n : node) : bool :=
  match n with Leaf _ => true | Seq c ms => negb (spt c) && forallb regular ms end.

Lemma ewrite_agree : forall kvs e1 e2 k,
  (List.In k (map fst kvs) /\ is_sink k = false) \/ e1 k = e2 k -> ewrite kvs e1 k = ewrite kvs e2 k.
Proof.
  unfold ewrite. induction kvs as [|kv r IH]; intros e1 e2 k H; cbn.
  - destruct H as [[[] _]|H]; assumption.
  - apply IH. destruct H as [[[H|H] Hs]|H].
    + subst k. rewrite Hs. right. unfold eupd. now rewrite key_eqb_refl.
    + left. now split.
    + right. destruct (is_sink (fst kv)); [assumption|]. unfold eupd. now destruct (key_eqb k (fst kv)).
Qed.

Lemma fst_leaf_vals : forall l args, map fst (leaf_vals l args) = outs l.
Proof.
  intros l args. unfold leaf_vals.
  assert (H : forall (A B : Type) (a : list A) (b : list B), List.length a = List.length b -> map fst (combine a b) = a).
  { induction a as [|x a IH]; destruct b as [|y b]; cbn; intro E; try discriminate; [reflexivity|].
    f_equal. apply IH. now inversion E. }
  apply H. now rewrite map_length, seq_length.
Qed.

Lemma sink_neq : forall k, k <> sink <-> is_sink k = false.
Proof. intro k. unfold is_sink. symmetry. apply key_eqb_neq. Qed.

Lemma leaf_out_sub : forall l, buildable (Leaf l) = true -> forall k, List.In k (leaf_out l) -> List.In k (outs l).
Proof.
  intros l H k Hk. cbn in H. unfold leaf_out in Hk. destruct (lsel l) as [s|]; [|assumption].
  now apply (proj1 (subk_spec s (outs l)) H).
Qed.

Lemma leaf_values : forall l x o e', buildable (Leaf l) = true ->
  spec_run (leaves (Leaf l)) (env_of x) = Some e' ->
  exists x' o' r res, fwd (Leaf l) x o = Done x' o' r /\ result_td (Done x' o' r) = Some res
    /\ forall k v, List.In k (out_keys (Leaf l)) -> k <> sink -> e' k = Some v -> get k res = Some v.
Proof.
  intros l x o e' HB HS. cbn [leaves spec_run] in HS. unfold apply_leaf in HS.
  cbn [fwd]. unfold fwd_leaf. rewrite read_all_eread.
  destruct (eread (ins l) (env_of x)) as [args|]; [|discriminate]. inversion HS; subst e'; clear HS.
  assert (W : forall d k v, List.In k (out_keys (Leaf l)) -> k <> sink ->
                ewrite (leaf_vals l args) (env_of x) k = Some v ->
                get k (hook l (write_all (leaf_vals l args) d)) = Some v).
  { intros d k v Hk Hs Hv. cbn in Hk. pose proof (leaf_out_sub l HB k Hk) as Hko.
    assert (G : get k (write_all (leaf_vals l args) d) = Some v).
    { change (env_of (write_all (leaf_vals l args) d) k = Some v). rewrite env_of_write_all.
      rewrite <- Hv. apply ewrite_agree. left. rewrite fst_leaf_vals. split; [assumption|now apply sink_neq]. }
    unfold hook. unfold leaf_out in Hk. destruct (lsel l) as [s|]; [|assumption].
    rewrite get_select. rewrite memk_app. rewrite (proj2 (memk_In k s) Hk). now rewrite orb_true_r. }
  destruct o as [ot|].
  - do 4 eexists. split; [reflexivity|]. split; [reflexivity|]. apply W.
  - destruct (linpl l); do 4 eexists; (split; [reflexivity|]); (split; [reflexivity|]); apply W.
Qed.

Lemma all_out_keys_in_keys : forall c ms, out_keys (Seq c ms) = seq_okeys c ms.
Proof. intros. unfold out_keys, seq_okeys, all_out_keys. cbn. reflexivity. Qed.

Lemma seq_values : forall c ms x o e', top_regular (Seq c ms) = true ->
  spec_run (leaves (Seq c ms)) (env_of x) = Some e' ->
  exists x' o' r res, fwd (Seq c ms) x o = Done x' o' r /\ result_td (Done x' o' r) = Some res
    /\ forall k v, List.In k (out_keys (Seq c ms)) -> e' k = Some v -> get k res = Some v.
Proof.
  intros c ms x o e' HT HS. cbn in HT. apply andb_true_iff in HT as [Hp HR].
  destruct (spt c) eqn:Ep; [discriminate|]. cbn [leaves] in HS.
  rewrite all_out_keys_in_keys. cbn [fwd]. rewrite Ep.
  assert (HF : Forall (fun n => regular n = true -> forall x, fwd_rel (spec_run (leaves n) (env_of x)) (fwd n x None)) ms).
  { apply Forall_forall. intros n _ Hn. now apply regular_fwd. }
  pose proof (regular_run ms HF HR (if seq_copied c o then Some x else None) x) as HRun.
  unfold run_rel in HRun. rewrite HS in HRun. destruct HRun as [cur' [Hc He]]. rewrite Hc.
  set (ok := seq_okeys c ms).
  assert (U : forall dst ktu k v, List.In k ktu -> e' k = Some v -> get k (upd_ktu dst cur' ktu) = Some v).
  { intros dst ktu k v Hk Hv. rewrite get_upd_ktu. rewrite (upd_cond_mem _ _ _ (proj2 (memk_In _ _) Hk)).
    rewrite <- (He k) in Hv. unfold env_of in Hv. unfold has. now rewrite Hv. }
  assert (C : forall k v, e' k = Some v -> get k cur' = Some v).
  { intros k v Hv. rewrite <- (He k) in Hv. exact Hv. }
  unfold finish, seq_copied. destruct o as [ot|].
  - do 4 eexists. split; [reflexivity|]. split; [reflexivity|]. intros k v Hk Hv. now apply U.
  - destruct (sinpl c) as [[| |]|] eqn:Ei.
    + destruct (ssel c) eqn:Es; cbn [is_some].
      * do 4 eexists. split; [reflexivity|]. split; [reflexivity|]. intros k v Hk Hv. now apply U.
      * do 4 eexists. split; [reflexivity|]. split; [reflexivity|]. intros k v Hk Hv. now apply C.
    + do 4 eexists. split; [reflexivity|]. split; [reflexivity|]. intros k v Hk Hv. now apply U.
    + do 4 eexists. split; [reflexivity|]. split; [reflexivity|]. intros k v Hk Hv. now apply U.
    + destruct (ssel c) eqn:Es; cbn [is_some inp_of].
      * do 4 eexists. split; [reflexivity|]. split; [reflexivity|]. intros k v Hk Hv. apply U; [|assumption].
        apply in_or_app. now left.
      * do 4 eexists. split; [reflexivity|]. split; [reflexivity|]. intros k v Hk Hv. now apply C.
Qed.

Lemma seq_is_fold : forall n x o e', top_regular n = true -> buildable n = true ->
  spec_run (leaves n) (env_of x) = Some e' ->
  exists x' o' r res, fwd n x o = Done x' o' r /\ result_td (Done x' o' r) = Some res
    /\ forall k v, List.In k (out_keys n) -> k <> sink -> e' k = Some v -> get k res = Some v.
Proof.
  intros [l|c ms] x o e' HT HB HS.
  - now apply leaf_values.
  - destruct (seq_values c ms x o e' HT HS) as [x' [o' [r [res [H1 [H2 H3]]]]]].
    exists x', o', r, res. split; [assumption|]. split; [assumption|]. intros k v Hk _ Hv. now apply H3.
Qed.

(* ... and the sequence raises exactly when the fold meets a missing input *)
Lemma seq_raises_iff_fold_fails : forall n x o, top_regular n = true ->
  spec_run (leaves n) (env_of x) = None <-> exists x' o', fwd n x o = Raised x' o'.
Proof.
  intros [l|c ms] x o HT.
  - cbn [leaves spec_run fwd]. unfold fwd_leaf, apply_leaf. rewrite read_all_eread.
    destruct (eread (ins l) (env_of x)); split; intro H.
    + discriminate.
    + destruct H as [x' [o' H]]. destruct o; [discriminate|]. destruct (linpl l); discriminate.
    + do 2 eexists; reflexivity.
    + reflexivity.
  - cbn in HT. apply andb_true_iff in HT as [Hp HR]. destruct (spt c) eqn:Ep; [discriminate|].
    cbn [leaves fwd]. rewrite Ep.
    assert (HF : Forall (fun n => regular n = true -> forall x, fwd_rel (spec_run (leaves n) (env_of x)) (fwd n x None)) ms).
    { apply Forall_forall. intros n _ Hn. now apply regular_fwd. }
    pose proof (regular_run ms HF HR (if seq_copied c o then Some x else None) x) as HRun.
    unfold run_rel in HRun. destruct (spec_run (flat_map leaves ms) (env_of x)); split; intro H.
    + discriminate.
    + exfalso. destruct HRun as [cur' [Hc _]]. rewrite Hc in H. destruct H as [x' [o' H]].
      unfold finish in H. destruct o; [discriminate|].
      destruct (sinpl c) as [[| |]|]; [destruct (if seq_copied c None then Some x else None)| | |]; try discriminate.
      destruct (is_some (ssel c)); [discriminate|].
      destruct (if seq_copied c None then Some x else None); discriminate.
    + destruct HRun as [cur' Hc]. rewrite Hc. cbn. do 2 eexists; reflexivity.
    + reflexivity.
Qed.
