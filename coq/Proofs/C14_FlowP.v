(* C14 — lemmas about the dataflow model. *)
From Coq Require Import List String Bool Arith Lia.
Import ListNotations.
From TD Require Import Model.C14_Flow Spec.C14_Fold.

(* ------------------------------------------------------------------ keys and maps *)
Lemma key_eqb_eq : forall a b, key_eqb a b = true <-> a = b.
Proof.
  induction a as [|x a IH]; destruct b as [|y b]; cbn; split; intro H; try congruence; try discriminate.
  - apply andb_true_iff in H as [H1 H2]. apply String.eqb_eq in H1. apply IH in H2. congruence.
  - inversion H; subst. rewrite String.eqb_refl. cbn. now apply IH.
Qed.
Lemma key_eqb_refl : forall a, key_eqb a a = true.
Proof. intro; now apply key_eqb_eq. Qed.
Lemma key_eqb_neq : forall a b, key_eqb a b = false <-> a <> b.
Proof.
  intros a b; split; intro H.
  - intro E. apply key_eqb_eq in E. congruence.
  - destruct (key_eqb a b) eqn:E; [apply key_eqb_eq in E; contradiction|reflexivity].
Qed.
Lemma key_eqb_sym : forall a b, key_eqb a b = key_eqb b a.
Proof.
  intros a b. destruct (key_eqb a b) eqn:E.
  - apply key_eqb_eq in E; subst. now rewrite key_eqb_refl.
  - apply key_eqb_neq in E. symmetry. apply key_eqb_neq. congruence.
Qed.
Lemma key_dec : forall a b : key, {a = b} + {a <> b}.
Proof. intros a b. destruct (key_eqb a b) eqn:E; [left; now apply key_eqb_eq|right; now apply key_eqb_neq]. Qed.

Lemma memk_In : forall k l, memk k l = true <-> List.In k l.
Proof.
  intros k l. unfold memk. rewrite existsb_exists. split.
  - intros [x [Hx E]]. apply key_eqb_eq in E. now subst.
  - intro H. exists k. split; [assumption|apply key_eqb_refl].
Qed.
Lemma memk_false : forall k l, memk k l = false <-> ~ List.In k l.
Proof.
  intros k l. split; intro H.
  - intro HI. apply memk_In in HI. congruence.
  - destruct (memk k l) eqn:E; [apply memk_In in E; contradiction|reflexivity].
Qed.
Lemma memk_app : forall k a b, memk k (a ++ b) = memk k a || memk k b.
Proof. intros. unfold memk. apply existsb_app. Qed.
Lemma subk_spec : forall a b, subk a b = true <-> (forall k, List.In k a -> List.In k b).
Proof.
  intros a b. unfold subk. rewrite forallb_forall. split; intros H k Hk.
  - apply memk_In. now apply H.
  - apply memk_In. now apply H.
Qed.

Lemma get_set : forall k k' v t, get k (set k' v t) = if key_eqb k k' then Some v else get k t.
Proof.
  intros k k' v t. induction t as [|[k2 v2] r IH]; cbn.
  - now destruct (key_eqb k k').
  - destruct (key_eqb k' k2) eqn:E2; cbn.
    + apply key_eqb_eq in E2; subst. destruct (key_eqb k k2) eqn:E; reflexivity.
    + destruct (key_eqb k k2) eqn:E.
      * apply key_eqb_eq in E; subst. destruct (key_eqb k2 k') eqn:E3; [|reflexivity].
        rewrite key_eqb_sym in E3. congruence.
      * exact IH.
Qed.

Lemma get_select : forall k ks t, get k (select ks t) = if memk k ks then get k t else None.
Proof.
  intros k ks t. induction t as [|[k2 v2] r IH]; cbn.
  - now destruct (memk k ks).
  - destruct (memk k2 ks) eqn:M; cbn.
    + destruct (key_eqb k k2) eqn:E.
      * apply key_eqb_eq in E; subst. now rewrite M.
      * exact IH.
    + destruct (key_eqb k k2) eqn:E.
      * apply key_eqb_eq in E; subst. rewrite M in *. exact IH.
      * exact IH.
Qed.

Lemma has_keys : forall k t, memk k (keys t) = has k t.
Proof.
  intros k t. unfold has. induction t as [|[k2 v2] r IH]; cbn; [reflexivity|].
  destruct (key_eqb k k2); [reflexivity|exact IH].
Qed.
Lemma get_In_keys : forall k t v, get k t = Some v -> List.In k (keys t).
Proof. intros k t v H. apply memk_In. rewrite has_keys. unfold has. now rewrite H. Qed.

(* the final update of forward: the binding of every key is the source's where the filter lets it through (either filter) *)
Lemma get_upd_fold : forall fx dst0 src ktu L acc k,
  get k (fold_left (fun acc k => match get k src with
                                 | Some v => if upd_cond_gen fx dst0 ktu k then set k v acc else acc
                                 | None => acc end) L acc)
  = if memk k L && upd_cond_gen fx dst0 ktu k && has k src then get k src else get k acc.
Proof.
  intros fx dst0 src ktu L. induction L as [|k1 L IH]; intros acc k; cbn [fold_left].
  - reflexivity.
  - rewrite IH. cbn [memk existsb]. fold (memk k L).
    destruct (memk k L && upd_cond_gen fx dst0 ktu k && has k src) eqn:C1.
    + apply andb_true_iff in C1 as [C1 C3]. apply andb_true_iff in C1 as [C1 C2].
      rewrite C1, C2, C3. now rewrite orb_true_r.
    + destruct (key_eqb k k1) eqn:E; cbn [orb].
      * apply key_eqb_eq in E; subst k1. unfold has. destruct (get k src) eqn:G.
        -- destruct (upd_cond_gen fx dst0 ktu k) eqn:U; cbn.
           ++ now rewrite get_set, key_eqb_refl.
           ++ reflexivity.
        -- now rewrite andb_false_r.
      * rewrite C1. destruct (get k1 src); [|reflexivity].
        destruct (upd_cond_gen fx dst0 ktu k1); [|reflexivity]. now rewrite get_set, E.
Qed.

Lemma get_upd_ktu_gen : forall fx dst src ktu k,
  get k (upd_ktu_gen fx dst src ktu) = if upd_cond_gen fx dst ktu k && has k src then get k src else get k dst.
Proof.
  intros. unfold upd_ktu_gen. rewrite get_upd_fold. rewrite has_keys.
  destruct (has k src) eqn:H; cbn; [|now rewrite andb_false_r].
  now rewrite andb_true_r.
Qed.

(* the repaired library: exactly the named keys *)
Lemma upd_cond_fixed : forall dst ktu k, upd_cond dst ktu k = memk k ktu.
Proof. reflexivity. Qed.

Lemma get_upd_ktu : forall dst src ktu k,
  get k (upd_ktu dst src ktu) = if memk k ktu && has k src then get k src else get k dst.
Proof. intros. now rewrite get_upd_ktu_gen, upd_cond_fixed. Qed.

(* ------------------------------------------------------------------ the spec respects extensional equality *)
Definition oeqe (a b : option env) : Prop :=
  match a, b with Some x, Some y => eqe x y | None, None => True | _, _ => False end.

Lemma eqe_refl : forall e, eqe e e. Proof. intros e k; reflexivity. Qed.
Lemma eqe_sym : forall a b, eqe a b -> eqe b a. Proof. intros a b H k; now rewrite H. Qed.
Lemma eqe_trans : forall a b c, eqe a b -> eqe b c -> eqe a c. Proof. intros a b c H1 H2 k; now rewrite H1. Qed.

Lemma eread_ext : forall ks e1 e2, eqe e1 e2 -> eread ks e1 = eread ks e2.
Proof. induction ks as [|k r IH]; intros e1 e2 H; cbn; [reflexivity|]. now rewrite (H k), (IH e1 e2 H). Qed.
Lemma eupd_ext : forall e1 e2 k v, eqe e1 e2 -> eqe (eupd e1 k v) (eupd e2 k v).
Proof. intros e1 e2 k v H k'. unfold eupd. destruct (key_eqb k' k); [reflexivity|apply H]. Qed.
Lemma ewrite_ext : forall kvs e1 e2, eqe e1 e2 -> eqe (ewrite kvs e1) (ewrite kvs e2).
Proof.
  unfold ewrite. induction kvs as [|kv r IH]; intros e1 e2 H; cbn; [assumption|].
  apply IH. destruct (is_sink (fst kv)); [assumption|now apply eupd_ext].
Qed.
Lemma apply_leaf_ext : forall l e1 e2, eqe e1 e2 -> oeqe (apply_leaf l e1) (apply_leaf l e2).
Proof.
  intros l e1 e2 H. unfold apply_leaf. rewrite (eread_ext _ _ _ H).
  destruct (eread (ins l) e2); cbn; [now apply ewrite_ext|exact I].
Qed.
Lemma spec_run_ext : forall ls e1 e2, eqe e1 e2 -> oeqe (spec_run ls e1) (spec_run ls e2).
Proof.
  induction ls as [|l r IH]; intros e1 e2 H; cbn; [assumption|].
  pose proof (apply_leaf_ext l e1 e2 H) as HA.
  destruct (apply_leaf l e1), (apply_leaf l e2); cbn in HA; try contradiction; [now apply IH|exact I].
Qed.
Lemma spec_run_app : forall a b e,
  spec_run (a ++ b) e = match spec_run a e with Some e1 => spec_run b e1 | None => None end.
Proof.
  induction a as [|l r IH]; intros b e; cbn; [reflexivity|].
  destruct (apply_leaf l e); [apply IH|reflexivity].
Qed.

(* ------------------------------------------------------------------ model operations are the spec's *)
Lemma read_all_eread : forall ks x, read_all ks x = eread ks (env_of x).
Proof. induction ks as [|k r IH]; intro x; cbn; [reflexivity|]. unfold env_of at 1. now rewrite IH. Qed.
Lemma env_of_set : forall k v d, eqe (env_of (set k v d)) (eupd (env_of d) k v).
Proof. intros k v d k'. unfold env_of, eupd. apply get_set. Qed.
Lemma env_of_write_all : forall kvs d, eqe (env_of (write_all kvs d)) (ewrite kvs (env_of d)).
Proof.
  unfold write_all, ewrite. induction kvs as [|kv r IH]; intro d; cbn; [apply eqe_refl|].
  destruct (is_sink (fst kv)); [apply IH|].
  eapply eqe_trans; [apply IH|]. apply (ewrite_ext r). apply env_of_set.
Qed.

(* ------------------------------------------------------------------ induction principle for the nested type *)
Section NodeInd.
  Variable P : node -> Prop.
  Hypothesis HL : forall l, P (Leaf l).
  Hypothesis HS : forall c ms, Forall P ms -> P (Seq c ms).
  Fixpoint node_ind' (n : node) : P n :=
    match n with
    | Leaf l => HL l
    | Seq c ms => HS c ms ((fix go (ms : list node) : Forall P ms :=
                              match ms with
                              | [] => Forall_nil P
                              | m :: r => Forall_cons m (node_ind' m) (go r)
                              end) ms)
    end.
End NodeInd.

(* ------------------------------------------------------------------ regular graphs: chains of in-place modules *)
Definition inpl_true (i : inplace) : bool := match i with ITrue => true | _ => false end.
Fixpoint regular (n : node) : bool :=
  match n with
  | Leaf l => inpl_true (linpl l) && negb (is_some (lsel l))
  | Seq c ms => match sinpl c with None | Some ITrue => true | _ => false end
                && negb (is_some (ssel c)) && negb (spt c) && forallb regular ms
  end.

Definition run_rel (sh : option td) (so : option env) (st : (td * option td) + (td * option td)) : Prop :=
  match so with
  | Some e' => exists cur', st = inl (cur', sh) /\ eqe (env_of cur') e'
  | None => exists cur', st = inr (cur', sh)
  end.
Definition fwd_rel (so : option env) (oc : outcome) : Prop :=
  match so with
  | Some e' => exists x', oc = Done x' None RIn /\ eqe (env_of x') e'
  | None => exists x', oc = Raised x' None
  end.

Lemma regular_leaf : forall l x, regular (Leaf l) = true ->
  fwd_rel (spec_run (leaves (Leaf l)) (env_of x)) (fwd (Leaf l) x None).
Proof.
  intros l x H. cbn in H. apply andb_true_iff in H as [H1 H2].
  cbn [leaves spec_run fwd_gen]. unfold fwd_leaf, apply_leaf. rewrite read_all_eread.
  destruct (eread (ins l) (env_of x)) as [args|]; cbn.
  - destruct (linpl l); try discriminate. unfold sel_vals. destruct (lsel l); [discriminate|].
    eexists; split; [reflexivity|]. apply env_of_write_all.
  - eexists; reflexivity.
Qed.

Lemma regular_run : forall ms,
  Forall (fun n => regular n = true -> forall x, fwd_rel (spec_run (leaves n) (env_of x)) (fwd n x None)) ms ->
  forallb regular ms = true ->
  forall sh cur, run_rel sh (spec_run (flat_map leaves ms) (env_of cur)) (run_gen fwd false ms cur sh).
Proof.
  induction ms as [|m r IH]; intros HF HR sh cur.
  - cbn. exists cur. split; [reflexivity|apply eqe_refl].
  - cbn [forallb] in HR. apply andb_true_iff in HR as [HRm HRr].
    inversion HF as [|? ? Hm Hr]; subst.
    cbn [flat_map run_gen]. rewrite spec_run_app. cbn [negb orb].
    specialize (Hm HRm cur). unfold fwd_rel in Hm.
    destruct (spec_run (leaves m) (env_of cur)) as [e1|].
    + destruct Hm as [x' [Hx Hxe]]. rewrite Hx.
      specialize (IH Hr HRr sh x').
      pose proof (spec_run_ext (flat_map leaves r) _ _ Hxe) as HE.
      unfold run_rel in *. destruct (spec_run (flat_map leaves r) (env_of x')) as [e2|],
        (spec_run (flat_map leaves r) e1) as [e3|]; cbn in HE; try contradiction.
      * destruct IH as [c' [Hc He]]. exists c'. split; [assumption|]. eapply eqe_trans; eassumption.
      * exact IH.
    + destruct Hm as [x' Hx]. rewrite Hx. exists x'. reflexivity.
Qed.

Lemma regular_fwd : forall n, regular n = true ->
  forall x, fwd_rel (spec_run (leaves n) (env_of x)) (fwd n x None).
Proof.
  induction n as [l|c ms IH] using node_ind'; intros HR x.
  - now apply regular_leaf.
  - cbn in HR. apply andb_true_iff in HR as [HR H4]. apply andb_true_iff in HR as [HR H3].
    apply andb_true_iff in HR as [H1 H2].
    cbn [fwd_gen leaves]. unfold seq_copied. destruct (ssel c) eqn:Es; [discriminate|]. cbn [is_some].
    destruct (spt c) eqn:Ep; [discriminate|].
    pose proof (regular_run ms IH H4 None x) as HRun. unfold run_rel in HRun. unfold fwd_rel.
    destruct (spec_run (flat_map leaves ms) (env_of x)) as [e'|].
    + destruct HRun as [cur' [Hc He]]. rewrite Hc. cbn [finish_gen inp_of]. rewrite Es. cbn [is_some].
      exists cur'. split; [|assumption].
      destruct (sinpl c) as [[| |]|]; try discriminate; reflexivity.
    + destruct HRun as [cur' Hc]. rewrite Hc. cbn [finish_gen inp_of]. exists cur'. reflexivity.
Qed.

(* ------------------------------------------------------------------ seq_is_fold: the top module, any configuration *)
Definition top_regular (n : node) : bool :=
  match n with Leaf _ => true | Seq c ms => negb (spt c) && forallb regular ms end.

Lemma ewrite_agree : forall kvs e1 e2 k,
  (List.In k (map fst kvs) /\ is_sink k = false) \/ e1 k = e2 k -> ewrite kvs e1 k = ewrite kvs e2 k.
Proof.
  unfold ewrite. induction kvs as [|kv r IH]; intros e1 e2 k H; cbn.
  - destruct H as [[[] _]|H]; assumption.
  - apply IH. destruct H as [[[H|H] Hs]|H].
    + subst k. rewrite Hs. right. unfold eupd. now rewrite key_eqb_refl.
    + left. now split.
    + right. destruct (is_sink (fst kv)); [assumption|]. unfold eupd. now destruct (key_eqb k (fst kv)).
Qed.

Lemma ewrite_filter_agree : forall (p : key * term -> bool) kvs e1 e2 k,
  (forall kv, fst kv = k -> p kv = true) ->
  (List.In k (map fst kvs) /\ is_sink k = false) \/ e1 k = e2 k -> ewrite (filter p kvs) e1 k = ewrite kvs e2 k.
Proof.
  intros p. unfold ewrite. induction kvs as [|kv r IH]; intros e1 e2 k Hp H; cbn.
  - destruct H as [[[] _]|H]; assumption.
  - destruct (key_dec (fst kv) k) as [E|E].
    + rewrite (Hp kv E). cbn [fold_left]. apply IH; [assumption|]. subst k.
      destruct (is_sink (fst kv)) eqn:Hs.
      * destruct H as [[_ H]|H]; [congruence|now right].
      * right. unfold eupd. now rewrite key_eqb_refl.
    + assert (Hr : (List.In k (map fst r) /\ is_sink k = false) \/
                   e1 k = (if is_sink (fst kv) then e2 else eupd e2 (fst kv) (snd kv)) k).
      { destruct H as [[[H|H] Hs]|H]; [contradiction|left; now split|right].
        destruct (is_sink (fst kv)); [assumption|]. unfold eupd.
        destruct (key_eqb k (fst kv)) eqn:E2; [apply key_eqb_eq in E2; congruence|assumption]. }
      destruct (p kv); cbn [fold_left].
      * apply IH; [assumption|]. destruct Hr as [Hr|Hr]; [now left|right].
        destruct (is_sink (fst kv)); [assumption|]. unfold eupd in *.
        destruct (key_eqb k (fst kv)) eqn:E2; [apply key_eqb_eq in E2; congruence|assumption].
      * apply IH; assumption.
Qed.

Lemma fst_leaf_vals : forall l args, map fst (leaf_vals l args) = outs l.
Proof.
  intros l args. unfold leaf_vals.
  assert (H : forall (A B : Type) (a : list A) (b : list B), List.length a = List.length b -> map fst (combine a b) = a).
  { induction a as [|x a IH]; destruct b as [|y b]; cbn; intro E; try discriminate; [reflexivity|].
    f_equal. apply IH. now inversion E. }
  apply H. now rewrite map_length, seq_length.
Qed.

Lemma sink_neq : forall k, k <> sink <-> is_sink k = false.
Proof. intro k. unfold is_sink. symmetry. apply key_eqb_neq. Qed.

Lemma leaf_out_sub : forall l, buildable (Leaf l) = true -> forall k, List.In k (leaf_out l) -> List.In k (outs l).
Proof.
  intros l H k Hk. cbn in H. unfold leaf_out in Hk. destruct (lsel l) as [s|]; [|assumption].
  now apply (proj1 (subk_spec s (outs l)) H).
Qed.

Lemma leaf_values : forall l x o e', buildable (Leaf l) = true ->
  spec_run (leaves (Leaf l)) (env_of x) = Some e' ->
  exists x' o' r res, fwd (Leaf l) x o = Done x' o' r /\ result_td (Done x' o' r) = Some res
    /\ forall k v, List.In k (out_keys (Leaf l)) -> k <> sink -> e' k = Some v -> get k res = Some v.
Proof.
  intros l x o e' HB HS. cbn [leaves spec_run] in HS. unfold apply_leaf in HS.
  cbn [fwd_gen]. unfold fwd_leaf. rewrite read_all_eread.
  destruct (eread (ins l) (env_of x)) as [args|]; [|discriminate]. inversion HS; subst e'; clear HS.
  assert (W : forall d k v, List.In k (out_keys (Leaf l)) -> k <> sink ->
                ewrite (leaf_vals l args) (env_of x) k = Some v ->
                get k (write_all (sel_vals l (leaf_vals l args)) d) = Some v).
  { intros d k v Hk Hs Hv. cbn in Hk. pose proof (leaf_out_sub l HB k Hk) as Hko.
    change (env_of (write_all (sel_vals l (leaf_vals l args)) d) k = Some v). rewrite env_of_write_all.
    rewrite <- Hv. unfold sel_vals, leaf_out in *. destruct (lsel l) as [s|].
    - apply ewrite_filter_agree.
      + intros kv E. subst k. now apply memk_In.
      + left. rewrite fst_leaf_vals. split; [assumption|now apply sink_neq].
    - apply ewrite_agree. left. rewrite fst_leaf_vals. split; [assumption|now apply sink_neq]. }
  destruct o as [ot|].
  - do 4 eexists. split; [reflexivity|]. split; [reflexivity|]. apply W.
  - destruct (linpl l); do 4 eexists; (split; [reflexivity|]); (split; [reflexivity|]); apply W.
Qed.

Lemma all_out_keys_in_keys : forall c ms, out_keys (Seq c ms) = seq_okeys c ms.
Proof. intros. unfold out_keys, seq_okeys, all_out_keys. cbn. reflexivity. Qed.

Lemma seq_values : forall c ms x o e', top_regular (Seq c ms) = true ->
  spec_run (leaves (Seq c ms)) (env_of x) = Some e' ->
  exists x' o' r res, fwd (Seq c ms) x o = Done x' o' r /\ result_td (Done x' o' r) = Some res
    /\ forall k v, List.In k (out_keys (Seq c ms)) -> e' k = Some v -> get k res = Some v.
Proof.
  intros c ms x o e' HT HS. cbn in HT. apply andb_true_iff in HT as [Hp HR].
  destruct (spt c) eqn:Ep; [discriminate|]. cbn [leaves] in HS.
  rewrite all_out_keys_in_keys. cbn [fwd_gen]. rewrite Ep.
  assert (HF : Forall (fun n => regular n = true -> forall x, fwd_rel (spec_run (leaves n) (env_of x)) (fwd n x None)) ms).
  { apply Forall_forall. intros n _ Hn. now apply regular_fwd. }
  pose proof (regular_run ms HF HR (if seq_copied c o then Some x else None) x) as HRun.
  unfold run_rel in HRun. rewrite HS in HRun. destruct HRun as [cur' [Hc He]]. rewrite Hc.
  set (ok := seq_okeys c ms).
  assert (U : forall dst ktu k v, List.In k ktu -> e' k = Some v -> get k (upd_ktu dst cur' ktu) = Some v).
  { intros dst ktu k v Hk Hv. rewrite get_upd_ktu. rewrite (proj2 (memk_In _ _) Hk).
    rewrite <- (He k) in Hv. unfold env_of in Hv. unfold has. now rewrite Hv. }
  assert (C : forall k v, e' k = Some v -> get k cur' = Some v).
  { intros k v Hv. rewrite <- (He k) in Hv. exact Hv. }
  unfold finish_gen, seq_copied. destruct o as [ot|].
  - do 4 eexists. split; [reflexivity|]. split; [reflexivity|]. intros k v Hk Hv. now apply U.
  - destruct (sinpl c) as [[| |]|] eqn:Ei.
    + destruct (ssel c) eqn:Es; cbn [is_some].
      * do 4 eexists. split; [reflexivity|]. split; [reflexivity|]. intros k v Hk Hv. now apply U.
      * do 4 eexists. split; [reflexivity|]. split; [reflexivity|]. intros k v Hk Hv. now apply C.
    + do 4 eexists. split; [reflexivity|]. split; [reflexivity|]. intros k v Hk Hv. now apply U.
    + do 4 eexists. split; [reflexivity|]. split; [reflexivity|]. intros k v Hk Hv. now apply U.
    + destruct (ssel c) eqn:Es; cbn [is_some inp_of].
      * do 4 eexists. split; [reflexivity|]. split; [reflexivity|]. intros k v Hk Hv. apply U; [|assumption].
        apply in_or_app. now left.
      * do 4 eexists. split; [reflexivity|]. split; [reflexivity|]. intros k v Hk Hv. now apply C.
Qed.

Lemma seq_is_fold : forall n x o e', top_regular n = true -> buildable n = true ->
  spec_run (leaves n) (env_of x) = Some e' ->
  exists x' o' r res, fwd n x o = Done x' o' r /\ result_td (Done x' o' r) = Some res
    /\ forall k v, List.In k (out_keys n) -> k <> sink -> e' k = Some v -> get k res = Some v.
Proof.
  intros [l|c ms] x o e' HT HB HS.
  - now apply leaf_values.
  - destruct (seq_values c ms x o e' HT HS) as [x' [o' [r [res [H1 [H2 H3]]]]]].
    exists x', o', r, res. split; [assumption|]. split; [assumption|]. intros k v Hk _ Hv. now apply H3.
Qed.

(* ... and the sequence raises exactly when the fold meets a missing input *)
Lemma seq_raises_iff_fold_fails : forall n x o, top_regular n = true ->
  spec_run (leaves n) (env_of x) = None <-> exists x' o', fwd n x o = Raised x' o'.
Proof.
  intros [l|c ms] x o HT.
  - cbn [leaves spec_run fwd_gen]. unfold fwd_leaf, apply_leaf. rewrite read_all_eread.
    destruct (eread (ins l) (env_of x)); split; intro H.
    + discriminate.
    + destruct H as [x' [o' H]]. destruct o; [discriminate|]. destruct (linpl l); discriminate.
    + do 2 eexists; reflexivity.
    + reflexivity.
  - cbn in HT. apply andb_true_iff in HT as [Hp HR]. destruct (spt c) eqn:Ep; [discriminate|].
    cbn [leaves fwd_gen]. rewrite Ep.
    assert (HF : Forall (fun n => regular n = true -> forall x, fwd_rel (spec_run (leaves n) (env_of x)) (fwd n x None)) ms).
    { apply Forall_forall. intros n _ Hn. now apply regular_fwd. }
    pose proof (regular_run ms HF HR (if seq_copied c o then Some x else None) x) as HRun.
    unfold run_rel in HRun. destruct (spec_run (flat_map leaves ms) (env_of x)); split; intro H.
    + discriminate.
    + exfalso. destruct HRun as [cur' [Hc _]]. rewrite Hc in H. destruct H as [x' [o' H]].
      unfold finish_gen in H. destruct o; [discriminate|].
      destruct (sinpl c) as [[| |]|]; [destruct (if seq_copied c None then Some x else None)| | |]; try discriminate.
      destruct (is_some (ssel c)); [discriminate|].
      destruct (if seq_copied c None then Some x else None); discriminate.
    + destruct HRun as [cur' Hc]. rewrite Hc. cbn. do 2 eexists; reflexivity.
    + reflexivity.
Qed.

(* ------------------------------------------------------------------ in_keys_sufficient *)
Definition defined (e : env) (k : key) : Prop := e k <> None.
Definition no_sink_in (n : node) : bool := forallb (fun l => negb (memk sink (ins l))) (leaves n).

Lemma eread_some : forall ks e, (forall k, List.In k ks -> defined e k) -> exists args, eread ks e = Some args.
Proof.
  induction ks as [|k r IH]; intros e H; cbn; [eexists; reflexivity|].
  destruct (e k) eqn:E; [|exfalso; apply (H k); [now left|assumption]].
  destruct (IH e) as [args Ha]; [intros; apply H; now right|]. rewrite Ha. eexists; reflexivity.
Qed.
Lemma eread_defined : forall ks e args, eread ks e = Some args -> forall k, List.In k ks -> defined e k.
Proof.
  induction ks as [|k r IH]; intros e args H k' Hk; [destruct Hk|]. cbn in H.
  destruct (e k) eqn:E; [|discriminate]. destruct (eread r e) eqn:E2; [|discriminate].
  destruct Hk as [->|Hk]; [unfold defined; congruence|]. eapply IH; eassumption.
Qed.

Lemma ewrite_mono : forall kvs e k, defined e k -> defined (ewrite kvs e) k.
Proof.
  unfold ewrite. induction kvs as [|kv r IH]; intros e k H; cbn; [assumption|]. apply IH.
  destruct (is_sink (fst kv)); [assumption|]. unfold defined, eupd. destruct (key_eqb k (fst kv)); [discriminate|assumption].
Qed.
Lemma ewrite_written : forall kvs e k, List.In k (map fst kvs) -> is_sink k = false -> defined (ewrite kvs e) k.
Proof.
  unfold ewrite. induction kvs as [|kv r IH]; intros e k H Hs; [destruct H|]. cbn.
  destruct H as [H|H].
  - subst k. rewrite Hs. apply (ewrite_mono r). unfold defined, eupd. now rewrite key_eqb_refl.
  - now apply IH.
Qed.

Lemma spec_run_mono : forall ls e e', spec_run ls e = Some e' -> forall k, defined e k -> defined e' k.
Proof.
  induction ls as [|l r IH]; intros e e' H k Hk; cbn in H; [inversion H; now subst|].
  unfold apply_leaf in H. destruct (eread (ins l) e); [|discriminate].
  eapply IH; [eassumption|]. now apply ewrite_mono.
Qed.

Lemma add_ins_incl : forall ok mi ik k, List.In k ik -> List.In k (add_ins ok ik mi).
Proof.
  unfold add_ins. induction mi as [|m r IH]; intros ik k H; cbn; [assumption|]. apply IH.
  destruct (memk m (ok ++ ik)); [assumption|apply in_or_app; now left].
Qed.
Lemma add_ins_covers : forall ok mi ik k, List.In k mi -> List.In k ok \/ List.In k (add_ins ok ik mi).
Proof.
  unfold add_ins. induction mi as [|m r IH]; intros ik k H; [destruct H|]. cbn.
  destruct H as [->|H]; [|now apply IH].
  destruct (memk k (ok ++ ik)) eqn:M.
  - apply memk_In in M. apply in_app_or in M as [M|M]; [now left|]. right. now apply (add_ins_incl ok r).
  - right. apply (add_ins_incl ok r). apply in_or_app. right. now left.
Qed.
Lemma add_ins_sub : forall ok mi ik k, List.In k (add_ins ok ik mi) -> List.In k ik \/ List.In k mi.
Proof.
  unfold add_ins. induction mi as [|m r IH]; intros ik k H; cbn in H; [now left|].
  apply IH in H as [H|H]; [|right; now right].
  destruct (memk m (ok ++ ik)); [now left|]. apply in_app_or in H as [H|[->|[]]]; [now left|right; now left].
Qed.

Definition iofold (ms : list node) (acc : list key * list key) := fold_left (fun acc m => step_io acc (io m)) ms acc.

Lemma iofold_ik_mono : forall ms acc k, List.In k (fst acc) -> List.In k (fst (iofold ms acc)).
Proof.
  unfold iofold. induction ms as [|m r IH]; intros acc k H; cbn; [assumption|]. apply IH. cbn. now apply add_ins_incl.
Qed.
Lemma iofold_ik_sub : forall ms acc k, List.In k (fst (iofold ms acc)) ->
  List.In k (fst acc) \/ exists m, List.In m ms /\ List.In k (in_keys m).
Proof.
  unfold iofold. induction ms as [|m r IH]; intros acc k H; cbn in H; [now left|].
  apply IH in H as [H|[m' [Hm Hk]]].
  - cbn in H. apply add_ins_sub in H as [H|H]; [now left|]. right. exists m. split; [now left|assumption].
  - right. exists m'. split; [now right|assumption].
Qed.
Lemma iofold_ok : forall ms acc, snd (iofold ms acc) = snd acc ++ flat_map out_keys ms.
Proof.
  unfold iofold. induction ms as [|m r IH]; intro acc; cbn; [now rewrite app_nil_r|].
  rewrite IH. cbn. now rewrite app_assoc.
Qed.

Lemma dedup_last_In : forall l k, List.In k (dedup_last l) <-> List.In k l.
Proof.
  induction l as [|x r IH]; intro k; cbn; [tauto|].
  destruct (memk x r) eqn:M.
  - rewrite IH. split; [now right|]. intros [->|H]; [now apply memk_In|assumption].
  - cbn. now rewrite IH.
Qed.

Lemma in_keys_from_leaves : forall n k, List.In k (in_keys n) -> exists l, List.In l (leaves n) /\ List.In k (ins l).
Proof.
  induction n as [l|c ms IH] using node_ind'; intros k H.
  - exists l. split; [now left|assumption].
  - unfold in_keys in H. cbn in H. fold (iofold ms ([], [])) in H.
    apply iofold_ik_sub in H as [[]|[m [Hm Hk]]].
    rewrite Forall_forall in IH. destruct (IH m Hm k Hk) as [l [Hl Hi]].
    exists l. split; [|assumption]. cbn. apply in_flat_map. now exists m.
Qed.

Definition suff (n : node) : Prop :=
  forall e, (forall k, List.In k (in_keys n) -> defined e k) ->
  exists e', spec_run (leaves n) e = Some e' /\ (forall k, List.In k (out_keys n) -> k <> sink -> defined e' k).

Lemma suff_list : forall ms, Forall (fun n => regular n = true -> no_sink_in n = true -> suff n) ms ->
  forallb regular ms = true -> forallb no_sink_in ms = true ->
  forall acc e,
    (forall k, List.In k (fst (iofold ms acc)) -> defined e k) ->
    (forall k, List.In k (snd acc) -> k <> sink -> defined e k) ->
    exists e', spec_run (flat_map leaves ms) e = Some e'
      /\ (forall k, List.In k (snd (iofold ms acc)) -> k <> sink -> defined e' k).
Proof.
  induction ms as [|m r IH]; intros HF HR HN acc e Hik Hok.
  - cbn. exists e. split; [reflexivity|assumption].
  - cbn [forallb] in HR, HN. apply andb_true_iff in HR as [HRm HRr]. apply andb_true_iff in HN as [HNm HNr].
    inversion HF as [|? ? Hm Hr]; subst. specialize (Hm HRm HNm).
    set (acc1 := step_io acc (io m)).
    assert (E : iofold (m :: r) acc = iofold r acc1) by reflexivity. rewrite E in *.
    destruct (Hm e) as [e1 [H1 H1o]].
    { intros k Hk. destruct (add_ins_covers (snd acc) (in_keys m) (fst acc) k Hk) as [H|H].
      - apply Hok; [assumption|]. intro Es. subst k.
        destruct (in_keys_from_leaves m sink Hk) as [l [Hl Hi]].
        unfold no_sink_in in HNm. rewrite forallb_forall in HNm. specialize (HNm l Hl).
        apply memk_In in Hi. rewrite Hi in HNm. discriminate.
      - apply Hik. now apply iofold_ik_mono. }
    destruct (IH Hr HRr HNr acc1 e1) as [e' [H2 H2o]].
    + intros k Hk. eapply spec_run_mono; [eassumption|]. now apply Hik.
    + intros k Hk Hs. cbn in Hk. apply in_app_or in Hk as [Hk|Hk].
      * eapply spec_run_mono; [eassumption|]. now apply Hok.
      * now apply H1o.
    + exists e'. split; [|assumption]. cbn [flat_map]. rewrite spec_run_app, H1. assumption.
Qed.

Lemma suff_node : forall n, regular n = true -> no_sink_in n = true -> suff n.
Proof.
  induction n as [l|c ms IH] using node_ind'; intros HR HN e He.
  - cbn [leaves spec_run]. unfold apply_leaf. destruct (eread_some (ins l) e He) as [args Ha]. rewrite Ha.
    eexists. split; [reflexivity|]. intros k Hk Hs. cbn in HR. apply andb_true_iff in HR as [_ HR].
    unfold out_keys in Hk. cbn in Hk. unfold leaf_out in Hk. destruct (lsel l); [discriminate|].
    apply ewrite_written; [now rewrite fst_leaf_vals|now apply sink_neq].
  - cbn in HR. apply andb_true_iff in HR as [HR H4]. apply andb_true_iff in HR as [HR H3].
    apply andb_true_iff in HR as [H1 H2]. destruct (ssel c) eqn:Es; [discriminate|].
    assert (HN' : forallb no_sink_in ms = true).
    { unfold no_sink_in in HN. cbn [leaves] in HN. rewrite forallb_forall in HN. apply forallb_forall. intros m Hm.
      unfold no_sink_in. apply forallb_forall. intros l Hl. apply HN. apply in_flat_map. now exists m. }
    destruct (suff_list ms IH H4 HN' ([], []) e) as [e' [H5 H6]].
    + exact He.
    + intros k [].
    + exists e'. split; [exact H5|]. intros k Hk Hs. apply H6; [|assumption].
      unfold out_keys in Hk. cbn [io snd] in Hk. rewrite Es in Hk. apply (proj1 (dedup_last_In _ _)) in Hk. exact Hk.
Qed.

(* top module, any configuration: running on a tensordict that holds the advertised in_keys never raises *)
Lemma in_keys_sufficient : forall n x o, top_regular n = true -> no_sink_in n = true ->
  (forall k, List.In k (in_keys n) -> has k x = true) ->
  exists x' o' r, fwd n x o = Done x' o' r.
Proof.
  intros n x o HT HN Hx.
  assert (HS : exists e', spec_run (leaves n) (env_of x) = Some e').
  { assert (Hd : forall k, List.In k (in_keys n) -> defined (env_of x) k).
    { intros k Hk. specialize (Hx k Hk). unfold has in Hx. unfold defined, env_of. destruct (get k x); [discriminate|discriminate]. }
    destruct n as [l|c ms].
    - cbn [leaves spec_run]. unfold apply_leaf. destruct (eread_some (ins l) _ Hd) as [a Ha]. rewrite Ha. eexists; reflexivity.
    - (* in_keys do not depend on the configuration: use the default one *)
      cbn in HT. apply andb_true_iff in HT as [_ HR].
      assert (R : regular (Seq (default_cfg false) ms) = true) by (cbn; exact HR).
      destruct (suff_node (Seq (default_cfg false) ms) R HN (env_of x)) as [e' [H _]]; [exact Hd|].
      exists e'. exact H. }
  destruct HS as [e' HS].
  destruct n as [l|c ms].
  - cbn [fwd_gen]. unfold fwd_leaf. cbn [leaves spec_run] in HS. unfold apply_leaf in HS. rewrite read_all_eread.
    destruct (eread (ins l) (env_of x)); [|discriminate].
    destruct o; [do 3 eexists; reflexivity|]. destruct (linpl l); do 3 eexists; reflexivity.
  - destruct (seq_values c ms x o e' HT HS) as [x' [o' [r [_ [H _]]]]]. now exists x', o', r.
Qed.

(* ------------------------------------------------------------------ out_keys_last_writer *)
Lemma ewrite_frame : forall kvs e k, ~ List.In k (map fst kvs) \/ is_sink k = true -> ewrite kvs e k = e k.
Proof.
  unfold ewrite. induction kvs as [|kv r IH]; intros e k H; cbn; [reflexivity|].
  rewrite IH.
  - destruct (is_sink (fst kv)) eqn:S; [reflexivity|]. unfold eupd. destruct (key_eqb k (fst kv)) eqn:E; [|reflexivity].
    apply key_eqb_eq in E. subst k. destruct H as [H|H]; [exfalso; apply H; now left|congruence].
  - destruct H as [H|H]; [left; intro HI; apply H; now right|now right].
Qed.

Lemma ewrite_last : forall kvs1 k v kvs2 e, is_sink k = false -> ~ List.In k (map fst kvs2) ->
  ewrite (kvs1 ++ (k, v) :: kvs2) e k = Some v.
Proof.
  intros kvs1 k v kvs2 e Hs Hn. unfold ewrite. rewrite fold_left_app. cbn [fold_left fst snd]. rewrite Hs.
  fold (ewrite kvs2 (eupd (fold_left (fun e kv => if is_sink (fst kv) then e else eupd e (fst kv) (snd kv)) kvs1 e) k v)).
  rewrite ewrite_frame; [|now left]. unfold eupd. now rewrite key_eqb_refl.
Qed.

Lemma spec_run_frame : forall ls e e' k, spec_run ls e = Some e' ->
  (forall l, List.In l ls -> ~ List.In k (outs l)) -> e' k = e k.
Proof.
  induction ls as [|l r IH]; intros e e' k H Hn; cbn in H; [now inversion H|].
  unfold apply_leaf in H. destruct (eread (ins l) e) as [args|]; [|discriminate].
  rewrite (IH _ _ k H); [|intros; apply Hn; now right].
  apply ewrite_frame. left. rewrite fst_leaf_vals. apply Hn. now left.
Qed.

Lemma nth_combine_seq : forall (A : Type) (f : nat -> A) (a : list key) s j k,
  nth_error a j = Some k -> nth_error (combine a (map f (seq s (List.length a)))) j = Some (k, f (s + j)).
Proof.
  induction a as [|x a IH]; intros s j k H; destruct j; cbn in *; try discriminate.
  - inversion H. now rewrite Nat.add_0_r.
  - rewrite (IH (S s) j k H). now rewrite Nat.add_succ_r.
Qed.

Lemma In_fst_nth : forall (kvs : list (key * term)) k, List.In k (map fst kvs) -> exists j v, nth_error kvs j = Some (k, v).
Proof.
  induction kvs as [|[k1 v1] r IH]; intros k H; [destruct H|]. destruct H as [H|H].
  - cbn in H. subst. now exists 0, v1.
  - destruct (IH k H) as [j [v Hj]]. now exists (S j), v.
Qed.

Lemma nth_leaf_vals_fst : forall l args j k v, nth_error (leaf_vals l args) j = Some (k, v) -> nth_error (outs l) j = Some k.
Proof.
  intros l args j k v H. assert (E : nth_error (map fst (leaf_vals l args)) j = Some k) by (rewrite nth_error_map, H; reflexivity).
  now rewrite fst_leaf_vals in E.
Qed.

Lemma last_writer : forall pre l post e e', spec_run (pre ++ l :: post) e = Some e' ->
  exists e1 args, spec_run pre e = Some e1 /\ eread (ins l) e1 = Some args /\
    forall j k, nth_error (outs l) j = Some k -> k <> sink ->
      (forall j', j < j' -> nth_error (outs l) j' <> Some k) ->
      (forall l', List.In l' post -> ~ List.In k (outs l')) ->
      e' k = Some (App (mid l) j args).
Proof.
  intros pre l post e e' H. rewrite spec_run_app in H. destruct (spec_run pre e) as [e1|]; [|discriminate].
  cbn in H. unfold apply_leaf in H. destruct (eread (ins l) e1) as [args|] eqn:Ea; [|discriminate].
  exists e1, args. split; [reflexivity|]. split; [exact Ea|]. intros j k Hj Hs Hlast Hpost.
  rewrite (spec_run_frame _ _ _ k H Hpost).
  pose proof (nth_combine_seq term (fun j => App (mid l) j args) (outs l) 0 j k Hj) as Hn. cbn in Hn.
  fold (leaf_vals l args) in Hn.
  destruct (nth_error_split _ _ Hn) as [kvs1 [kvs2 [Hsplit Hlen]]]. rewrite Hsplit.
  apply ewrite_last; [now apply sink_neq|]. intro HI.
  destruct (In_fst_nth kvs2 k HI) as [j2 [v2 Hj2]].
  apply (Hlast (j + S j2)); [lia|].
  apply (nth_leaf_vals_fst l args _ k v2). rewrite Hsplit, nth_error_app2; [|lia].
  replace (j + S j2 - List.length kvs1) with (S j2) by lia. exact Hj2.
Qed.

(* out_keys of a sequence: every key some module writes, once *)
Lemma dedup_last_NoDup : forall l, NoDup (dedup_last l).
Proof.
  induction l as [|x r IH]; cbn; [constructor|]. destruct (memk x r) eqn:M; [assumption|].
  constructor; [|assumption]. rewrite dedup_last_In. now apply memk_false.
Qed.

Lemma out_keys_are_writes : forall n, regular n = true ->
  forall k, List.In k (out_keys n) <-> exists l, List.In l (leaves n) /\ List.In k (outs l).
Proof.
  induction n as [l|c ms IH] using node_ind'; intros HR k.
  - cbn in HR. apply andb_true_iff in HR as [_ HR]. unfold out_keys. cbn. unfold leaf_out. destruct (lsel l); [discriminate|].
    split; [intro H; exists l; split; [now left|assumption]|intros [l' [[<-|[]] H]]; assumption].
  - cbn in HR. apply andb_true_iff in HR as [HR H4]. apply andb_true_iff in HR as [HR H3].
    apply andb_true_iff in HR as [H1 H2]. destruct (ssel c) eqn:Es; [discriminate|].
    unfold out_keys. cbn [io snd]. rewrite Es. rewrite dedup_last_In. fold (iofold ms ([], [])). rewrite iofold_ok. cbn [snd app].
    rewrite in_flat_map. rewrite Forall_forall in IH. rewrite forallb_forall in H4. split.
    + intros [m [Hm Hk]]. apply (IH m Hm (H4 m Hm)) in Hk as [l [Hl Ho]]. exists l. split; [|assumption].
      cbn. apply in_flat_map. now exists m.
    + intros [l [Hl Ho]]. cbn in Hl. apply in_flat_map in Hl as [m [Hm Hl]]. exists m. split; [assumption|].
      apply (IH m Hm (H4 m Hm)). now exists l.
Qed.

(* ------------------------------------------------------------------ module_footprint *)
Definition xa (oc : outcome) : td := match oc with Done x _ _ | Raised x _ => x end.
Definition oa (oc : outcome) : option td := match oc with Done _ o _ | Raised _ o => o end.

(* no select_out_keys on a SEQUENCE (D142 stays); leaf modules may select *)
Fixpoint noseqsel (n : node) : bool :=
  match n with
  | Leaf l => true
  | Seq c ms => negb (is_some (ssel c)) && forallb noseqsel ms
  end.
Definition all_outs (n : node) : list key := flat_map outs (leaves n).

Lemma get_write_all_frame : forall kvs d k, ~ List.In k (map fst kvs) -> get k (write_all kvs d) = get k d.
Proof.
  intros kvs d k H. change (env_of (write_all kvs d) k = env_of d k). rewrite env_of_write_all.
  apply ewrite_frame. now left.
Qed.
Lemma fst_sel_vals : forall l args k, List.In k (map fst (sel_vals l (leaf_vals l args))) ->
  List.In k (outs l) /\ List.In k (leaf_out l).
Proof.
  intros l args k H. unfold sel_vals, leaf_out in *. destruct (lsel l) as [s|].
  - apply in_map_iff in H as [kv [E H]]. apply filter_In in H as [H1 H2]. subst k. split.
    + rewrite <- (fst_leaf_vals l args). now apply in_map.
    + now apply memk_In.
  - rewrite fst_leaf_vals in H. now split.
Qed.
(* D143 repaired: the final update touches the named keys only *)
Lemma upd_ktu_frame : forall dst src ktu k, ~ List.In k ktu -> get k (upd_ktu dst src ktu) = get k dst.
Proof.
  intros dst src ktu k Hn. rewrite get_upd_ktu. apply memk_false in Hn. now rewrite Hn.
Qed.

Lemma out_keys_child : forall ms m k, List.In m ms -> List.In k (out_keys m) -> List.In k (all_out_keys ms).
Proof.
  intros ms m k Hm Hk. unfold all_out_keys. apply dedup_last_In. fold (iofold ms ([], [])). rewrite iofold_ok.
  cbn. apply in_flat_map. now exists m.
Qed.

Definition inner_fp (n : node) : Prop :=
  forall x k, ~ List.In k (out_keys n) -> get k (xa (fwd n x None)) = get k x.

Lemma inner_fp_leaf : forall l, inner_fp (Leaf l).
Proof.
  intros l x k Hk. cbn [fwd_gen]. unfold fwd_leaf.
  assert (Eo : out_keys (Leaf l) = leaf_out l) by reflexivity. rewrite Eo in Hk.
  destruct (read_all (ins l) x) as [args|]; cbn; [|reflexivity].
  destruct (linpl l); cbn; try reflexivity.
  apply get_write_all_frame. intro HI. apply Hk. now apply (fst_sel_vals l args).
Qed.

(* invariant of the module loop *)
Definition run_inv (okeys : list key) (x : td) (st : (td * option td) + (td * option td)) : Prop :=
  let '(cur, sh) := match st with inl p | inr p => p end in
  forall k, ~ List.In k okeys -> get k (inp_of cur sh) = get k x.

Lemma run_inv_step : forall okeys pt ms,
  Forall inner_fp ms -> (forall m k, List.In m ms -> List.In k (out_keys m) -> List.In k okeys) ->
  forall x cur sh, (forall k, ~ List.In k okeys -> get k (inp_of cur sh) = get k x) ->
    run_inv okeys x (run_gen fwd pt ms cur sh).
Proof.
  intros okeys pt ms. induction ms as [|m r IH]; intros HF Hsub x cur sh Hg.
  - cbn. auto.
  - inversion HF as [|? ? Hm Hr]; subst. cbn [run_gen].
    assert (Hsub' : forall m' k, List.In m' r -> List.In k (out_keys m') -> List.In k okeys) by (intros; eapply Hsub; [right|]; eassumption).
    destruct (negb pt || subk (fst (io m)) (keys cur)); [|now apply IH].
    assert (Fr : forall k, ~ List.In k okeys -> get k (xa (fwd m cur None)) = get k cur).
    { intros k Hk. apply Hm. intro HI. apply Hk. eapply Hsub; [now left|eassumption]. }
    destruct (fwd m cur None) as [cur' o' rr|cur' o'] eqn:E; cbn [xa] in *.
    + assert (Step : forall k, ~ List.In k okeys -> get k (inp_of cur' sh) = get k x).
      { destruct sh as [s|]; cbn [inp_of] in *; [assumption|]. intros k Hk. rewrite Fr; auto. }
      destruct rr as [| |f].
      * now apply IH.
      * now apply IH.
      * apply IH; try assumption. destruct sh; cbn [inp_of] in *; assumption.
    + cbn. destruct sh as [s|]; cbn [inp_of] in *; [assumption|]. intros k Hk. rewrite Fr; auto.
Qed.

Lemma inner_fp_node : forall n, noseqsel n = true -> inner_fp n.
Proof.
  induction n as [l|c ms IH] using node_ind'; intros HS.
  - apply inner_fp_leaf.
  - cbn in HS. apply andb_true_iff in HS as [H1 H2]. destruct (ssel c) eqn:Es; [discriminate|].
    assert (HF : Forall inner_fp ms).
    { rewrite Forall_forall in *. rewrite forallb_forall in H2. intros m Hm. apply IH; [assumption|now apply H2]. }
    intros x k Hk. cbn [fwd_gen]. unfold seq_copied, seq_okeys. rewrite Es. cbn [is_some].
    assert (Eo : out_keys (Seq c ms) = all_out_keys ms) by (unfold out_keys; cbn [io snd]; now rewrite Es).
    rewrite Eo in Hk.
    pose proof (run_inv_step (all_out_keys ms) (spt c) ms HF (out_keys_child ms) x x None (fun k _ => eq_refl)) as Inv.
    unfold run_inv in Inv.
    destruct (run_gen fwd (spt c) ms x None) as [[cur sh]|[cur sh]].
    + cbn [finish_gen]. rewrite Es. cbn [is_some].
      destruct (sinpl c) as [[| |]|].
      * destruct sh as [s|]; cbn [xa inp_of] in *.
        -- rewrite upd_ktu_frame; auto.
        -- auto.
      * cbn [xa inp_of] in *. auto.
      * cbn [xa inp_of] in *. auto.
      * destruct sh as [s|]; cbn [xa inp_of] in *; auto.
    + cbn [finish_gen xa]. auto.
Qed.

Definition footprint_statement_gen (fx : bool) (n : node) (x : td) (o : option td) (k : key) : Prop :=
  get k (xa (fwd_gen fx n x o)) = get k x
  /\ match o, oa (fwd_gen fx n x o) with
     | Some ot, Some ot' => get k ot' = get k ot
     | None, None => True
     | _, _ => False
     end.
Notation footprint_statement := (footprint_statement_gen fixed_D143).

(* the top module with or without a tensordict_out: neither the input nor tensordict_out changes outside out_keys.
   With D143 repaired no hypothesis on the key universe is left: any keys, any nesting of sequences, any inplace modes. *)
Lemma footprint_partial : forall n x o, noseqsel n = true ->
  forall k, ~ List.In k (out_keys n) -> footprint_statement n x o k.
Proof.
  intros n x o HS k Hk. unfold footprint_statement_gen. destruct o as [ot|].
  2:{ split; [now apply (inner_fp_node n HS)|].
      destruct n as [l|c ms]; cbn [fwd_gen].
      - unfold fwd_leaf. destruct (read_all (ins l) x); [destruct (linpl l)|]; exact I.
      - destruct (run_gen fwd (spt c) ms x (if seq_copied c None then Some x else None)) as [[cur sh]|[cur sh]]; cbn [finish_gen oa]; [|exact I].
        destruct (sinpl c) as [[| |]|]; [destruct sh| | |destruct (is_some (ssel c)); [|destruct sh]]; exact I. }
  destruct n as [l|c ms].
  - cbn [fwd_gen]. unfold fwd_leaf.
    assert (Eo : out_keys (Leaf l) = leaf_out l) by reflexivity. rewrite Eo in Hk.
    destruct (read_all (ins l) x) as [args|]; cbn; [|now split]. split; [reflexivity|].
    apply get_write_all_frame. intro HI. apply Hk. now apply (fst_sel_vals l args).
  - cbn in HS. apply andb_true_iff in HS as [H1 H2]. destruct (ssel c) eqn:Es; [discriminate|].
    assert (HF : Forall inner_fp ms).
    { apply Forall_forall. rewrite forallb_forall in H2. intros m Hm. apply inner_fp_node. now apply H2. }
    assert (Eo : out_keys (Seq c ms) = all_out_keys ms) by (unfold out_keys; cbn [io snd]; now rewrite Es).
    rewrite Eo in Hk. cbn [fwd_gen]. unfold seq_copied, seq_okeys. rewrite Es.
    pose proof (run_inv_step (all_out_keys ms) (spt c) ms HF (out_keys_child ms) x x (Some x) (fun k _ => eq_refl)) as Inv.
    unfold run_inv in Inv.
    destruct (run_gen fwd (spt c) ms x (Some x)) as [[cur sh]|[cur sh]]; cbn [finish_gen xa oa].
    + split; [now apply Inv|]. rewrite upd_ktu_frame; auto.
    + split; [now apply Inv|reflexivity].
Qed.

(* ------------------------------------------------------------------ where the footprint statement still fails (D142) *)
Definition ka : key := ["a"%string].  Definition kb : key := ["b"%string].  Definition kc : key := ["c"%string].
Definition kz : key := ["z"%string].
Definition knx : key := ["n"%string; "x"%string].  Definition kny : key := ["n"%string; "y"%string].
Definition mk (i : nat) (a b : list key) : leaf := {| mid := i; ins := a; outs := b; lsel := None; linpl := ITrue |}.
Definition mksel (i : nat) (a b s : list key) : leaf := {| mid := i; ins := a; outs := b; lsel := Some s; linpl := ITrue |}.
Definition dcfg := default_cfg false.

(* D142: a sequence with select_out_keys(c) writes the overwritten input entry a back *)
Definition d142_node := Seq {| sinpl := None; ssel := Some [kc]; spt := false; sdict := false |}
                            [Leaf (mk 1 [ka] [ka]); Leaf (mk 2 [ka] [kc])].
Lemma footprint_refuted_D142 : ~ List.In ka (out_keys d142_node)
  /\ get ka (xa (fwd d142_node [(ka, In ka)] None)) = Some (App 1 0 [In ka]).
Proof. split; [|reflexivity]. cbn. intros [H|[]]; discriminate. Qed.

Lemma footprint_refuted_seq_select : exists n x k, ~ List.In k (out_keys n) /\ top_regular n = true /\ ~ footprint_statement n x None k.
Proof.
  exists d142_node, [(ka, In ka)], ka. destruct footprint_refuted_D142 as [H1 H2]. split; [assumption|]. split; [reflexivity|].
  intros [H _]. rewrite H2 in H. discriminate.
Qed.

(* the former witnesses of D9, D141 and D143 now satisfy the statement *)
Definition d9_node := Leaf (mksel 1 [ka] [kb; kc] [kc]).
Definition d9_x : td := [(ka, In ka); (kz, In kz)].
Lemma footprint_D9_repaired : fwd d9_node d9_x None = Done [(ka, In ka); (kz, In kz); (kc, App 1 1 [In ka])] None RIn.
Proof. reflexivity. Qed.
Definition d141_node := Leaf (mksel 1 [ka] [ka; kb] [kb]).
Lemma footprint_D141_repaired : fwd d141_node [(ka, In ka)] None = Done [(ka, In ka); (kb, App 1 1 [In ka])] None RIn.
Proof. reflexivity. Qed.
(* D143, the library before the repair ([fx = false]): update(keys_to_update=[(n,x)]) copied the sibling (n,y) into a
   tensordict_out that has no node n; the same call under the repair *)
Definition d143_node := Seq dcfg [Leaf (mk 1 [ka] [knx])].
Definition d143_x : td := [(ka, In ka); (kny, In kny)].
Lemma footprint_refuted_tout_unrepaired : exists n x ot k, ~ List.In k (out_keys n) /\ noseqsel n = true
  /\ ~ footprint_statement_gen false n x (Some ot) k.
Proof.
  exists d143_node, d143_x, [], kny. split; [cbn; intros [H|[]]; discriminate|]. split; [reflexivity|].
  intros [_ H]. vm_compute in H. discriminate.
Qed.
Lemma footprint_D143_repaired : fwd d143_node d143_x (Some []) = Done d143_x (Some [(knx, App 1 0 [In ka])]) ROut
  /\ fwd_gen false d143_node d143_x (Some []) = Done d143_x (Some [(kny, In kny); (knx, App 1 0 [In ka])]) ROut.
Proof. split; reflexivity. Qed.
