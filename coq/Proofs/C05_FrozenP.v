(* C05 — the property theorems: locked_frozen, member_cannot_unlock, unlock_root_frees, shared_node, gc_parent. *)
From Coq Require Import List String Bool Arith PeanoNat Lia.
Import ListNotations.
From TD Require Import Model.C05_Heap Model.C05_Lock Spec.C05_LockSpec Proofs.C05_HeapP Proofs.C05_LockP Proofs.C05_InvP Proofs.C05_StepP.

(* a node is kept: same kind, same entries (keys and bound identities), same memmap mark, and a True flag stays True *)
Definition node_kept (h h' : heap) (x : nat) : Prop :=
  match lookup h x, lookup h' x with
  | Some a, Some b => nk a = nk b /\ ents a = ents b /\ mm a = mm b /\ (flg a = FTrue -> flg b = FTrue)
  | None, _ => True
  | Some _, None => False
  end.

Definition kept_all (h h' : heap) : Prop := forall x, node_kept h h' x.
(* what every guarded call guarantees: whatever is locked is kept *)
Definition locked_kept (h h' : heap) : Prop := forall x, flag_true h x = true -> node_kept h h' x.

Lemma kept_all_refl : forall h, kept_all h h.
Proof. intros h x. unfold node_kept. destruct (lookup h x); auto. Qed.

Lemma kept_all_trans : forall a b c, kept_all a b -> kept_all b c -> kept_all a c.
Proof.
  intros a b c H1 H2 x. specialize (H1 x). specialize (H2 x). unfold node_kept in *.
  destruct (lookup a x) as [na|]; [|exact I]. destruct (lookup b x) as [nb|]; [|contradiction].
  destruct (lookup c x) as [nc|]; [|contradiction].
  destruct H1 as (A1 & A2 & A3 & A4). destruct H2 as (B1 & B2 & B3 & B4). repeat split; try congruence. auto.
Qed.

Lemma kept_all_locked : forall h h', kept_all h h' -> locked_kept h h'.
Proof. intros h h' K x _. apply K. Qed.

Lemma grows_kept : forall h h', grows h h' -> kept_all h h'.
Proof.
  intros h h' G x. unfold node_kept. pose proof (g_struct _ _ G x) as Hs. unfold same_node_structure in Hs.
  destruct (lookup h x) as [a|] eqn:Ea; [|exact I]. destruct (lookup h' x) as [b|] eqn:Eb; [|contradiction].
  destruct Hs as [Hk He]. destruct (g_node _ _ G x a b Ea Eb) as (_ & M & _ & F). auto.
Qed.

Lemma alloc_kept : forall s nd, kept_all (hp s) (hp (fst (alloc_node s nd))).
Proof.
  intros s nd x. unfold node_kept. cbn. rewrite lookup_app_fresh. destruct (lookup (hp s) x); auto.
Qed.

(* changing one node whose flag is not True keeps every locked node *)
Lemma upd_locked_kept : forall h n nd nd', lookup h n = Some nd -> flg nd <> FTrue -> locked_kept h (upd h n nd').
Proof.
  intros h n nd nd' E F x Fx. unfold node_kept. rewrite lookup_upd.
  destruct (Nat.eqb_spec x n) as [->|Hne].
  - exfalso. apply F. unfold flag_true in Fx. rewrite E in Fx. destruct (flg nd); cbn in Fx; congruence.
  - destruct (lookup h x); auto.
Qed.

Lemma upd_kept : forall h n nd nd', lookup h n = Some nd -> nk nd' = nk nd -> ents nd' = ents nd -> mm nd' = mm nd ->
  (flg nd = FTrue -> flg nd' = FTrue) -> kept_all h (upd h n nd').
Proof.
  intros h n nd nd' E K En M F x. unfold node_kept. rewrite lookup_upd.
  destruct (Nat.eqb_spec x n) as [->|Hne].
  - rewrite E. auto.
  - destruct (lookup h x); auto.
Qed.

(* ---- a tree all of whose nodes are kept is unchanged and still locked ------------------------------------------------ *)
Lemma kept_tree : forall h h' r, locked_kept h h' -> tree_locked h r ->
  tree_unchanged h h' r /\ tree_locked h' r /\ (forall x, Reach h' r x -> Reach h r x).
Proof.
  intros h h' r K TL.
  assert (Back : forall a x, Reach h' a x -> Reach h r a -> Reach h r x).
  { intros a x R. induction R as [a|a c x Hc R IH]; intros Ra; [exact Ra|].
    apply IH. eapply Reach_trans; [exact Ra|]. apply Reach_child.
    pose proof (K a (TL a Ra)) as Ka. unfold node_kept in Ka. unfold child, children in *.
    destruct (lookup h' a) as [b|] eqn:Eb; [|destruct Hc].
    destruct (lookup h a) as [a0|] eqn:Ea.
    - destruct Ka as (_ & He & _). unfold node_children in *. rewrite He. exact Hc.
    - pose proof (TL a Ra) as F. unfold flag_true in F. rewrite Ea in F. discriminate. }
  split; [|split].
  - intros x R. pose proof (K x (TL x R)) as Kx. unfold node_kept in Kx. unfold same_node_structure.
    destruct (lookup h x) as [a|] eqn:Ea.
    + destruct (lookup h' x) as [b|]; [|contradiction]. destruct Kx as (A & B & _). auto.
    + pose proof (TL x R) as F. unfold flag_true in F. rewrite Ea in F. discriminate.
  - intros x R. assert (R0 : Reach h r x) by (eapply Back; [exact R|constructor]).
    pose proof (TL x R0) as F. pose proof (K x F) as Kx. unfold node_kept in Kx.
    apply flag_true_lookup in F. destruct F as [a [Ea Fa]]. rewrite Ea in Kx.
    destruct (lookup h' x) as [b|] eqn:Eb; [|contradiction]. destruct Kx as (_ & _ & _ & Fl).
    eapply flag_true_intro; [exact Eb|auto].
  - intros x R. eapply Back; [exact R|constructor].
Qed.

(* ---- below a live locked root everything is locked (and live) --------------------------------------------------------- *)
Lemma tree_locked_of_root : forall s r, Inv s -> flag_true (hp s) r = true -> live s r = true ->
  tree_locked (hp s) r /\ (forall x, Reach (hp s) r x -> live s x = true).
Proof.
  intros s r HI F L.
  assert (Gen : forall a x, Reach (hp s) a x -> flag_true (hp s) a = true -> live s a = true ->
                  flag_true (hp s) x = true /\ live s x = true).
  { intros a x R. induction R as [a|a c x Hc R IH]; intros Fa La; [split; assumption|].
    destruct (child_lookup _ _ _ Hc) as [nd [E Hin]].
    assert (Lc : live s c = true) by (eapply (inv_I0 _ HI); eassumption).
    destruct (inv_I1 _ HI a Fa La nd c E Hin) as [Fc _]. apply IH; assumption. }
  split; intros x R; eapply Gen; eassumption.
Qed.

(* ---- every guarded call keeps what is locked -------------------------------------------------------------------------- *)
Lemma set_ents_locked_kept : forall s n nd e, lookup (hp s) n = Some nd -> flg nd <> FTrue ->
  locked_kept (hp s) (hp (set_node_ents s n e)).
Proof.
  intros s n nd e E F. unfold set_node_ents. rewrite E. cbn. eapply upd_locked_kept; eassumption.
Qed.

Lemma lookup_flag_false : forall s n nd, lookup (hp s) n = Some nd -> td_flag s n = false -> flg nd <> FTrue.
Proof. intros. eapply td_flag_false; eassumption. Qed.

Lemma pshare_kept : forall lf fuel s n s' r, pshare lf fuel s n = Some (s', r) -> kept_all (hp s) (hp s') /\ dead s' = dead s.
Proof.
  intros lf. induction fuel as [|f IH]; intros s n s' r H; [discriminate|].
  cbn in H. destruct (lookup (hp s) n) as [nd|] eqn:E; [|inversion H; subst; split; [apply kept_all_refl|reflexivity]].
  assert (Fold : forall l sa ra sb rb,
     fold_opt (fun (acc : st * bool) c => if snd acc then Some acc else pshare lf f (fst acc) c) l (sa, ra) = Some (sb, rb) ->
     kept_all (hp sa) (hp sb) /\ dead sb = dead sa).
  { induction l as [|c l IHl]; intros sa ra sb rb Hf; cbn [fold_opt] in Hf.
    - inversion Hf. subst. split; [apply kept_all_refl|reflexivity].
    - cbn [fst snd] in Hf. destruct ra; [eapply IHl; exact Hf|].
      destruct (pshare lf f sa c) as [[sm rm]|] eqn:Pc; [|discriminate].
      destruct (IH _ _ _ _ Pc) as [K1 D1]. destruct (IHl _ _ _ _ Hf) as [K2 D2].
      split; [eapply kept_all_trans; eassumption|congruence]. }
  destruct (nk nd) eqn:K.
  - destruct (mm nd); [inversion H; subst; split; [apply kept_all_refl|reflexivity]|].
    destruct (fold_opt _ (node_children nd) (s, false)) as [[s2 r2]|] eqn:Hf; [|discriminate].
    destruct (Fold _ _ _ _ _ Hf) as [K2 D2].
    destruct r2; [inversion H; subst; split; assumption|].
    destruct (lookup (hp s2) n) as [nd2|] eqn:E2; [|inversion H; subst; split; assumption].
    destruct (lock_ lf (upd (hp s2) n (set_shm nd2 true)) n) as [h4|] eqn:LK; [|discriminate].
    inversion H. subst s' r. split; [|exact D2].
    eapply kept_all_trans; [exact K2|]. eapply kept_all_trans; [|apply grows_kept; eapply lock_grows; exact LK].
    eapply upd_kept; [exact E2| | | |]; auto.
  - destruct (fold_opt _ (node_children nd) (s, false)) as [[s2 r2]|] eqn:Hf; [|discriminate].
    destruct (Fold _ _ _ _ _ Hf) as [K2 D2].
    destruct r2; [inversion H; subst; split; assumption|].
    destruct (lock_ lf (hp s2) n) as [h4|] eqn:LK; [|discriminate].
    inversion H. subst s' r. split; [|exact D2].
    eapply kept_all_trans; [exact K2|apply grows_kept; eapply lock_grows; exact LK].
Qed.

Lemma pcopy_kept : forall lf fuel s memo n s' memo' c, pcopy lf fuel s memo n = Some (s', memo', c) ->
  kept_all (hp s) (hp s') /\ dead s' = dead s.
Proof.
  intros lf. induction fuel as [|f IH]; intros s memo n s' memo' c H; [discriminate|].
  cbn in H. destruct (memo_get memo n) as [c0|]; [inversion H; subst; split; [apply kept_all_refl|reflexivity]|].
  destruct (lookup (hp s) n) as [nd|] eqn:E; [|discriminate].
  match type of H with context [fold_opt ?F (ents nd) _] => set (Fm := F) in * end.
  assert (Fold : forall l s0 m0 es s1 m1 es1, fold_opt Fm l (s0, m0, es) = Some (s1, m1, es1) ->
            kept_all (hp s0) (hp s1) /\ dead s1 = dead s0).
  { induction l as [|e l IHl]; intros s0 m0 es s1 m1 es1 Hf; cbn [fold_opt] in Hf.
    - inversion Hf. subst. split; [apply kept_all_refl|reflexivity].
    - destruct (Fm (s0, m0, es) e) as [[[sm mm0] esm]|] eqn:Fe; [|discriminate].
      assert (St : kept_all (hp s0) (hp sm) /\ dead sm = dead s0).
      { unfold Fm in Fe. destruct (snd e) as [lf0|c1].
        - cbn in Fe. inversion Fe. subst. split; [apply kept_all_refl|reflexivity].
        - destruct (pcopy lf f s0 m0 c1) as [[[s9 m9] c9]|] eqn:Pc; [|discriminate]. inversion Fe. subst.
          eapply IH; exact Pc. }
      destruct St as [K1 D1]. destruct (IHl _ _ _ _ _ _ Hf) as [K2 D2].
      split; [eapply kept_all_trans; eassumption|congruence]. }
  destruct (fold_opt Fm (ents nd) (s, memo, [])) as [[[s1 m1] es]|] eqn:Hf; [|discriminate].
  destruct (Fold _ _ _ _ _ _ _ Hf) as [K1 D1].
  set (nd' := mkNode (nk nd) es (if flag_is_true (flg nd) then FFalse else flg nd) [] (shm nd) (mm nd)) in *.
  cbn [alloc_node] in H.
  change (mkSt (hp s1 ++ [(nxt s1, nd')]) (dead s1) (S (nxt s1)) (writes s1)) with (fst (alloc_node s1 nd')) in H.
  destruct (flag_is_true (flg nd)).
  - change (hp s1 ++ [(nxt s1, nd')]) with (hp (fst (alloc_node s1 nd'))) in H.
    destruct (lock_ lf (hp (fst (alloc_node s1 nd'))) (nxt s1)) as [h3|] eqn:LK; [|discriminate].
    inversion H. subst s' memo' c. split; [|exact D1].
    eapply kept_all_trans; [exact K1|]. eapply kept_all_trans; [apply alloc_kept|].
    apply grows_kept. eapply lock_grows. exact LK.
  - inversion H. subst s' memo' c. split; [|exact D1].
    eapply kept_all_trans; [exact K1|apply alloc_kept].
Qed.

Lemma node_kept_flag : forall h h' x, node_kept h h' x -> flag_true h x = true -> flag_true h' x = true.
Proof.
  intros h h' x K F. unfold node_kept in K. apply flag_true_lookup in F. destruct F as [a [Ea Fa]]. rewrite Ea in K.
  destruct (lookup h' x) as [b|] eqn:Eb; [|contradiction]. destruct K as (_ & _ & _ & Fl).
  eapply flag_true_intro; [exact Eb|auto].
Qed.

Lemma node_kept_trans : forall a b c x, node_kept a b x -> node_kept b c x -> node_kept a c x.
Proof.
  intros a b c x H1 H2. unfold node_kept in *.
  destruct (lookup a x) as [na|]; [|exact I]. destruct (lookup b x) as [nb|]; [|contradiction].
  destruct (lookup c x) as [nc|]; [|contradiction].
  destruct H1 as (A1 & A2 & A3 & A4). destruct H2 as (B1 & B2 & B3 & B4). repeat split; try congruence. auto.
Qed.

Lemma locked_kept_trans : forall a b c, locked_kept a b -> locked_kept b c -> locked_kept a c.
Proof.
  intros a b c H1 H2 x F. eapply node_kept_trans; [apply H1; exact F|]. apply H2. eapply node_kept_flag; [apply H1; exact F|exact F].
Qed.

Lemma locked_kept_refl : forall h, locked_kept h h.
Proof. intros h. apply kept_all_locked. apply kept_all_refl. Qed.

Lemma resolve_value_kept : forall s v s1 r, resolve_value s v = Some (s1, r) -> kept_all (hp s) (hp s1) /\ dead s1 = dead s.
Proof.
  intros s v s1 r H. destruct v as [|m|]; cbn in H.
  - inversion H. subst. split; [apply kept_all_refl|reflexivity].
  - destruct (exists_live s m); [|discriminate]. inversion H. subst. split; [apply kept_all_refl|reflexivity].
  - assert (Hs : s1 = fst (alloc_node s empty_td)) by (inversion H; reflexivity). subst s1.
    split; [apply alloc_kept|reflexivity].
Qed.

Ltac same_state H := inversion H; subst; split; [apply locked_kept_refl|auto].

(* every call other than unlock_ and the three unguarded ones keeps every locked node; no call revives a collected object *)
Lemma step_locked_kept : forall fuel s o s' out, step fuel s o = Some (s', out) ->
  ~ unguarded o -> (forall n, o <> OUnlock n) ->
  locked_kept (hp s) (hp s') /\ (forall x, live s' x = true -> live s x = true).
Proof.
  intros fuel s o s' out H NU NUn. destruct o; cbn [step] in H.
  - destruct (exists_live s n); cbn [negb] in H; [|same_state H].
    destruct (lock_ fuel (hp s) n) as [h|] eqn:L; [|discriminate]. inversion H. subst.
    split; [apply kept_all_locked; apply grows_kept; eapply lock_grows; exact L|auto].
  - exfalso. eapply NUn. reflexivity.
  - destruct (is_td s n) eqn:T; cbn [negb] in H; [|same_state H].
    destruct (resolve_value s v) as [[s1 r]|] eqn:RV; [|same_state H].
    destruct (td_flag s n) eqn:TF; [same_state H|].
    destruct (resolve_value_kept _ _ _ _ RV) as [K1 D1].
    destruct (is_td_spec _ _ T) as (nd & E & K & L).
    pose proof (K1 n) as Kn. unfold node_kept in Kn. rewrite E in Kn.
    destruct (lookup (hp s1) n) as [nd1|] eqn:E1; [|contradiction].
    inversion H. subst s' out. split.
    + eapply locked_kept_trans; [apply kept_all_locked; exact K1|].
      eapply set_ents_locked_kept; [exact E1|]. destruct Kn as (_ & _ & _ & Fl).
      intros F1. pose proof (td_flag_false s n nd E TF) as NF.
      (* the flag of n in s1 is the flag of n in s: allocation does not touch existing nodes *)
      destruct v as [|m|]; cbn in RV.
      * inversion RV. subst. cbn in E1. rewrite E in E1. inversion E1. subst. exact (NF F1).
      * destruct (exists_live s m); [|discriminate]. inversion RV. subst. rewrite E in E1. inversion E1. subst. exact (NF F1).
      * assert (Hs : s1 = fst (alloc_node s empty_td)) by (inversion RV; reflexivity). subst s1.
        cbn in E1. rewrite lookup_app_fresh, E in E1. inversion E1. subst. exact (NF F1).
    + intros x Lx. unfold set_node_ents in Lx. rewrite E1 in Lx. unfold live in *. cbn in Lx. rewrite D1 in Lx. exact Lx.
  - destruct (is_td s n) eqn:T; cbn [negb] in H; [|same_state H].
    destruct (is_td_spec _ _ T) as (nd & E & K & L). rewrite E in H.
    destruct (ents_get (ents nd) k) as [[l|c]|] eqn:G; [same_state H|same_state H|].
    destruct (td_flag s n) eqn:TF; [same_state H|].
    cbn in H. inversion H. subst s' out. split.
    + unfold set_node_ents. cbn. rewrite E. cbn. eapply upd_locked_kept; [exact E|eapply td_flag_false; eassumption].
    + intros x Lx. unfold set_node_ents in Lx. cbn in Lx. rewrite E in Lx. exact Lx.
  - destruct (is_td s n) eqn:T; cbn [negb] in H; [|same_state H].
    destruct (is_td_spec _ _ T) as (nd & E & K & L). rewrite E in H.
    destruct (ents_get (ents nd) k) as [[l|c]|] eqn:G; same_state H.
  - destruct (is_td s n && is_td s hn) eqn:T; cbn [negb] in H; [|same_state H].
    apply andb_prop in T. destruct T as [T _].
    destruct (td_flag s hn); [same_state H|]. destruct (td_flag s n) eqn:TF; [same_state H|].
    destruct (is_td_spec _ _ T) as (nd & E & K & L). rewrite E in H.
    destruct (ents_has (ents nd) k); [|same_state H]. inversion H. subst. split.
    + eapply set_ents_locked_kept; [exact E|eapply td_flag_false; eassumption].
    + intros x Lx. unfold set_node_ents in Lx. rewrite E in Lx. exact Lx.
  - destruct (is_td s n && is_td s hn) eqn:T; cbn [negb] in H; [|same_state H].
    apply andb_prop in T. destruct T as [T _].
    destruct (is_td_spec _ _ T) as (nd & E & K & L). rewrite E in H.
    destruct (ents_has (ents nd) k); cbn [negb] in H; [|same_state H].
    destruct (td_flag s hn); [same_state H|]. destruct (td_flag s n) eqn:TF; [same_state H|]. inversion H. subst. split.
    + eapply set_ents_locked_kept; [exact E|eapply td_flag_false; eassumption].
    + intros x Lx. unfold set_node_ents in Lx. rewrite E in Lx. exact Lx.
  - destruct (is_td s n) eqn:T; cbn [negb] in H; [|same_state H].
    destruct (td_flag s n) eqn:TF; [same_state H|].
    destruct (is_td_spec _ _ T) as (nd & E & K & L). rewrite E in H.
    destruct (String.eqb k k'); [destruct (ents_has (ents nd) k); same_state H|].
    destruct (safe && ents_has (ents nd) k'); [same_state H|].
    destruct (ents_get (ents nd) k) as [r|] eqn:G; [|same_state H]. inversion H. subst. split.
    + eapply set_ents_locked_kept; [exact E|eapply td_flag_false; eassumption].
    + intros x Lx. unfold set_node_ents in Lx. rewrite E in Lx. exact Lx.
  - destruct (is_td s n) eqn:T; cbn [negb] in H; [|same_state H].
    destruct (td_flag s n) eqn:TF; [same_state H|]. inversion H. subst.
    destruct (is_td_spec _ _ T) as (nd & E & K & L). split.
    + eapply set_ents_locked_kept; [exact E|eapply td_flag_false; eassumption].
    + intros x Lx. unfold set_node_ents in Lx. rewrite E in Lx. exact Lx.
  - destruct (is_td s n) eqn:T; cbn [negb] in H; [|same_state H].
    destruct (td_flag s n) eqn:TF; [same_state H|].
    destruct (is_td_spec _ _ T) as (nd & E & K & L). rewrite E in H.
    destruct (ents nd) as [|e0 es] eqn:En; [same_state H|].
    assert (Hs : s' = set_node_ents s n (removelast (e0 :: es))) by (inversion H; reflexivity). subst s'. split.
    + eapply set_ents_locked_kept; [exact E|eapply td_flag_false; eassumption].
    + intros x Lx. unfold set_node_ents in Lx. rewrite E in Lx. exact Lx.
  - destruct (is_td s n) eqn:T; cbn [negb] in H; [|same_state H].
    destruct (td_flag s n) eqn:TF; [same_state H|].
    destruct (is_td_spec _ _ T) as (nd & E & K & L). rewrite E in H.
    destruct (select_ents (ents nd) (dedup_keys ks [])) as [e|] eqn:S; [|same_state H]. inversion H. subst. split.
    + eapply set_ents_locked_kept; [exact E|eapply td_flag_false; eassumption].
    + intros x Lx. unfold set_node_ents in Lx. rewrite E in Lx. exact Lx.
  - destruct (is_td s n) eqn:T; cbn [negb] in H; [|same_state H].
    destruct (td_flag s n) eqn:TF; [same_state H|].
    destruct (is_td_spec _ _ T) as (nd & E & K & L). rewrite E in H. inversion H. subst. split.
    + eapply set_ents_locked_kept; [exact E|eapply td_flag_false; eassumption].
    + intros x Lx. unfold set_node_ents in Lx. rewrite E in Lx. exact Lx.
  - destruct (is_lazy s l && exists_live s m) eqn:T; cbn [negb] in H; [|same_state H].
    apply andb_prop in T. destruct T as [T X].
    destruct (is_locked fuel (hp s) l) as [[|]|] eqn:IL; [same_state H| |discriminate].
    destruct (is_lazy_spec _ _ T) as (nd & E & K & L). rewrite E in H. inversion H. subst. split.
    + eapply set_ents_locked_kept; [exact E|]. intros F. assert (false = true); [|discriminate]. eapply is_locked_flag; eassumption.
    + intros x Lx. unfold set_node_ents in Lx. rewrite E in Lx. exact Lx.
  - destruct (is_lazy s l && exists_live s m) eqn:T; cbn [negb] in H; [|same_state H].
    apply andb_prop in T. destruct T as [T X].
    destruct (is_locked fuel (hp s) l) as [[|]|] eqn:IL; [same_state H| |discriminate].
    destruct (is_lazy_spec _ _ T) as (nd & E & K & L). rewrite E in H. inversion H. subst. split.
    + eapply set_ents_locked_kept; [exact E|]. intros F. assert (false = true); [|discriminate]. eapply is_locked_flag; eassumption.
    + intros x Lx. unfold set_node_ents in Lx. rewrite E in Lx. exact Lx.
  - destruct (forallb (exists_live s) ms); [|same_state H].
    assert (Hs : s' = fst (alloc_node s (mkNode KLazy (map (fun m => (""%string, RNode m)) ms) FNone [] false false))) by (inversion H; reflexivity).
    subst s'. split; [apply kept_all_locked; apply alloc_kept|auto].
  - assert (Hs : s' = fst (alloc_node s empty_td)) by (inversion H; reflexivity).
    subst s'. split; [apply kept_all_locked; apply alloc_kept|auto].
  - exfalso. apply NU. exact I.
  - destruct (exists_live s n); cbn [negb] in H; [|same_state H].
    destruct (pshare fuel fuel s n) as [[s1 [|]]|] eqn:P; [| |discriminate]; inversion H; subst;
      destruct (pshare_kept _ _ _ _ _ _ P) as [K1 D1]; (split; [apply kept_all_locked; exact K1|intros x Lx; unfold live in *; rewrite D1 in Lx; exact Lx]).
  - destruct (exists_live s n); cbn [negb] in H; [|same_state H].
    destruct (pcopy fuel fuel s [] n) as [[[s1 m1] c1]|] eqn:P; [|discriminate]. inversion H. subst.
    destruct (pcopy_kept _ _ _ _ _ _ _ _ P) as [K1 D1].
    split; [apply kept_all_locked; exact K1|intros x Lx; unfold live in *; rewrite D1 in Lx; exact Lx].
  - exfalso. apply NU. exact I.
  - destruct (gc_ok s ds); [|same_state H]. inversion H. subst. split; [apply locked_kept_refl|].
    intros x Lx. unfold live in *. cbn in Lx. unfold memb in *. rewrite existsb_app in Lx.
    apply negb_true_iff in Lx. apply orb_false_iff in Lx. destruct Lx as [_ B]. rewrite B. reflexivity.
Qed.

(* ---------------------------------------------------------------------------------------------- unlock_ *)
Lemma unlock_relock_is_plock : forall fuel s n h1 subs s2 h3,
  punlock fuel (hp s) n = Some (h1, subs) -> chk (with_hp s h1) s2 -> lock_ fuel (hp s2) n = Some h3 ->
  plock fuel (hp s2) n None = Some h3.
Proof.
  intros fuel s n h1 subs s2 h3 PU Ck LK.
  destruct (punlock_spec _ _ _ _ _ PU) as (Un & Fr & Cl & Sub & Dp).
  unfold lock_ in LK. rewrite (chk_flag _ _ _ Ck) in LK. cbn in LK. rewrite (Cl n (Reach_refl _ n)) in LK. exact LK.
Qed.

Lemma unlock_facts : forall fuel s n s' out, unlock_ fuel s n = Some (s', out) ->
  same_struct (hp s) (hp s') /\ dead s' = dead s /\
  (forall x a b, lookup (hp s) x = Some a -> lookup (hp s') x = Some b -> mm b = true -> mm a = true) /\
  (out = Done \/ out = Raised ELock).
Proof.
  intros fuel s n s' out U. unfold unlock_ in U.
  destruct (punlock fuel (hp s) n) as [[h1 subs]|] eqn:PU; [|discriminate].
  destruct (check_all fuel (with_hp s h1) (subs ++ [n])) as [[s2 r]|] eqn:CA; [|discriminate].
  destruct (punlock_spec _ _ _ _ _ PU) as (Un & _).
  destruct (check_all_spec _ _ _ _ _ CA) as [Ck _].
  assert (M2 : forall x a b, lookup (hp s) x = Some a -> lookup (hp s2) x = Some b -> mm b = true -> mm a = true).
  { intros x a b Ea Eb Mb. pose proof (u_struct _ _ Un x) as Hs. unfold same_node_structure in Hs. rewrite Ea in Hs.
    destruct (lookup h1 x) as [m|] eqn:Em; [|contradiction].
    destruct (u_node _ _ Un x a m Ea Em) as (_ & _ & Mm & _). apply Mm.
    destruct (c_node _ _ Ck x m b Em Eb) as (_ & _ & M & _). congruence. }
  destruct r.
  - destruct (lock_ fuel (hp s2) n) as [h3|] eqn:LK; [|discriminate]. inversion U. subst s' out.
    pose proof (lock_grows _ _ _ _ LK) as G.
    split; [eapply same_struct_trans; [apply Un|eapply same_struct_trans; [apply Ck|apply G]]|].
    split; [cbn; apply (c_dead _ _ Ck)|]. split; [|right; reflexivity].
    intros x a b Ea Eb Mb. cbn in Eb.
    pose proof (g_struct _ _ G x) as Hs. unfold same_node_structure in Hs. rewrite Eb in Hs.
    destruct (lookup (hp s2) x) as [m|] eqn:Em; [|contradiction].
    destruct (g_node _ _ G x m b Em Eb) as (_ & M & _ & _). eapply M2; [exact Ea|exact Em|congruence].
  - inversion U. subst s' out. cbn [hp with_hp dead].
    split; [eapply same_struct_trans; [apply Un|eapply same_struct_trans; [apply Ck|apply unshare_struct]]|].
    split; [apply (c_dead _ _ Ck)|]. split; [|left; reflexivity].
    intros x a b Ea Eb Mb.
    assert (S02 : same_struct (hp s) (hp s2)) by (eapply same_struct_trans; [apply Un|apply Ck]).
    pose proof (S02 x) as Hs. unfold same_node_structure in Hs. rewrite Ea in Hs.
    destruct (lookup (hp s2) x) as [m|] eqn:Em; [|contradiction].
    eapply M2; [exact Ea|exact Em|]. eapply unshare_mm; eassumption.
Qed.

(* a failed unlock_ restores every flag (the re-lock goes through the whole subtree again) *)
Lemma unlock_raised_restores : forall fuel s n s' e, unlock_ fuel s n = Some (s', Raised e) ->
  forall x, flag_true (hp s) x = true -> flag_true (hp s') x = true.
Proof.
  intros fuel s n s' e U x Fx. unfold unlock_ in U.
  destruct (punlock fuel (hp s) n) as [[h1 subs]|] eqn:PU; [|discriminate].
  destruct (check_all fuel (with_hp s h1) (subs ++ [n])) as [[s2 r]|] eqn:CA; [|discriminate].
  destruct (punlock_spec _ _ _ _ _ PU) as (Un & Fr & Cl & Sub & Dp).
  destruct (check_all_spec _ _ _ _ _ CA) as [Ck _].
  destruct r; [|inversion U].
  destruct (lock_ fuel (hp s2) n) as [h3|] eqn:LK; [|discriminate]. inversion U. subst s' e. cbn.
  pose proof (unlock_relock_is_plock _ _ _ _ _ _ _ PU Ck LK) as P.
  pose proof (plock_grows _ _ _ _ _ P) as G.
  assert (S02 : same_struct (hp s) (hp s2)) by (eapply same_struct_trans; [apply Un|apply Ck]).
  destruct (flag_true h3 x) eqn:F3; [reflexivity|exfalso].
  assert (NN : ~ ~ Reach (hp s) n x).
  { intros NR. assert (flag_true h3 x = true); [|congruence].
    eapply grows_flag; [exact G|]. rewrite (chk_flag _ _ _ Ck). cbn. unfold flag_true. rewrite (Fr x NR). exact Fx. }
  apply NN. intros R. assert (flag_true h3 x = true); [|congruence].
  eapply plock_reach_flag; [exact P|eapply same_struct_reach; [exact S02|exact R]|].
  eapply same_struct_some; [exact S02|]. apply flag_true_lookup in Fx. destruct Fx as [a [Ea _]]. congruence.
Qed.

(* a refused unlock_ leaves _is_shared / _is_memmap of every node as they were (D68 repaired) *)
Lemma unlock_raised_keeps_sharing : forall fuel s n s' e, unlock_ fuel s n = Some (s', Raised e) ->
  forall x a b, lookup (hp s) x = Some a -> lookup (hp s') x = Some b -> shm a = shm b /\ mm a = mm b.
Proof.
  intros fuel s n s' e U x a b Ea Eb. unfold unlock_ in U.
  destruct (punlock fuel (hp s) n) as [[h1 subs]|] eqn:PU; [|discriminate].
  destruct (check_all fuel (with_hp s h1) (subs ++ [n])) as [[s2 r]|] eqn:CA; [|discriminate].
  destruct (punlock_spec _ _ _ _ _ PU) as (Un & _).
  destruct (check_all_spec _ _ _ _ _ CA) as [Ck _].
  destruct r; [|inversion U].
  destruct (lock_ fuel (hp s2) n) as [h3|] eqn:LK; [|discriminate]. inversion U. subst s' e. cbn in Eb.
  pose proof (lock_grows _ _ _ _ LK) as G.
  pose proof (u_struct _ _ Un x) as Hs1. unfold same_node_structure in Hs1. rewrite Ea in Hs1.
  destruct (lookup h1 x) as [m1|] eqn:E1; [|contradiction].
  pose proof (c_struct _ _ Ck x) as Hs2. unfold same_node_structure in Hs2. cbn in Hs2. rewrite E1 in Hs2.
  destruct (lookup (hp s2) x) as [m2|] eqn:E2; [|contradiction].
  destruct (u_node _ _ Un x a m1 Ea E1) as (_ & _ & _ & A1 & B1).
  destruct (c_node _ _ Ck x m1 m2 E1 E2) as (_ & A2 & B2 & _).
  destruct (g_node _ _ G x m2 b E2 Eb) as (A3 & B3 & _).
  split; congruence.
Qed.

(* a node of the subtree with a live locked parent outside the subtree makes unlock_ fail *)
Lemma unlock_blocked : forall fuel s n s' out p c,
  unlock_ fuel s n = Some (s', out) ->
  Reach (hp s) n c -> child (hp s) p c -> has_parent (hp s) c p ->
  flag_true (hp s) p = true -> live s p = true -> (Reach (hp s) n p -> c = n) ->
  out = Raised ELock.
Proof.
  intros fuel s n s' out p c U Rc Hc HP Fp Lp Hcyc. pose proof U as U0. unfold unlock_ in U.
  destruct (punlock fuel (hp s) n) as [[h1 subs]|] eqn:PU; [|discriminate].
  destruct (check_all fuel (with_hp s h1) (subs ++ [n])) as [[s2 r]|] eqn:CA; [|discriminate].
  destruct (punlock_spec _ _ _ _ _ PU) as (Un & Fr & Cl & Sub & Dp).
  destruct (check_all_spec _ _ _ _ _ CA) as [Ck Hall].
  destruct r.
  - destruct (lock_ fuel (hp s2) n); [|discriminate]. inversion U. reflexivity.
  - exfalso.
    assert (NRp : ~ Reach (hp s) n p).
    { intros R. specialize (Hcyc R). subst c.
      eapply depth_lt_no_cycle; [|exact Hc|exact R]. eapply depth_lt_reach; [exact R|exact Dp]. }
    assert (F1 : flag_true h1 p = true) by (unfold flag_true; rewrite (Fr p NRp); exact Fp).
    assert (In c (subs ++ [n])).
    { apply in_or_app. apply Reach_inv in Rc. destruct Rc as [->|[c' [Hc' R']]]; [right; left; reflexivity|left; apply Sub; eauto]. }
    destruct (Hall eq_refl c H) as [sx [Cx Bx]].
    assert (false = true); [|discriminate].
    eapply blocked_by; [exact Bx| | | |].
    + eapply chk_has_parent; [exact Cx|exact Lp|exact F1|]. cbn. eapply unl_has_parent; eassumption.
    + intros Rcp. apply NRp. eapply Reach_trans; [exact Rc|].
      eapply same_struct_reach; [|exact Rcp]. apply same_struct_sym. eapply same_struct_trans; [apply Un|apply Cx].
    + rewrite (chk_live _ _ _ Cx). exact Lp.
    + rewrite (chk_flag _ _ _ Cx). exact F1.
Qed.

Lemma unlock_done_clears : forall fuel s n s', unlock_ fuel s n = Some (s', Done) ->
  forall x, Reach (hp s) n x -> flag_true (hp s') x = false.
Proof.
  intros fuel s n s' U x R. unfold unlock_ in U.
  destruct (punlock fuel (hp s) n) as [[h1 subs]|] eqn:PU; [|discriminate].
  destruct (check_all fuel (with_hp s h1) (subs ++ [n])) as [[s2 r]|] eqn:CA; [|discriminate].
  destruct (punlock_spec _ _ _ _ _ PU) as (Un & Fr & Cl & Sub & Dp).
  destruct (check_all_spec _ _ _ _ _ CA) as [Ck _].
  destruct r; [destruct (lock_ fuel (hp s2) n); [inversion U|discriminate]|].
  inversion U. subst s'. cbn [hp with_hp]. rewrite unshare_flag. rewrite (chk_flag _ _ _ Ck). cbn. apply Cl. exact R.
Qed.

Lemma check_all_raised : forall fuel l s s', check_all fuel s l = Some (s', true) ->
  exists x sx, In x l /\ chk s sx /\ blocked fuel sx x = Some true.
Proof.
  intros fuel. induction l as [|a l IH]; intros s s' H; cbn in H; [discriminate|].
  destruct (check_unlock fuel s a) as [[s1 [|]]|] eqn:Ca; [| |discriminate].
  - destruct (check_unlock_spec _ _ _ _ _ Ca) as (C & B & _). exists a, s. split; [left; reflexivity|split; [apply chk_refl|exact B]].
  - destruct (check_unlock_spec _ _ _ _ _ Ca) as (C & B & _).
    destruct (IH _ _ H) as (x & sx & Hx & Cx & Bx). exists x, sx. split; [right; exact Hx|split; [eapply chk_trans; eassumption|exact Bx]].
Qed.

Lemma chk_has_parent_back : forall s s' c p, chk s s' -> has_parent (hp s') c p -> has_parent (hp s) c p.
Proof.
  intros s s' c p C HP. induction HP as [c nd p E I|c nd m p E K I _ IH].
  - pose proof (c_struct _ _ C c) as Hs. unfold same_node_structure in Hs. rewrite E in Hs.
    destruct (lookup (hp s) c) as [y|] eqn:Hy; [|contradiction].
    destruct (c_node _ _ C c y nd Hy E) as (_ & _ & _ & [P|[P _]]).
    + eapply HP_own; [exact Hy|rewrite <- P; exact I].
    + rewrite P in I. destruct I.
  - pose proof (c_struct _ _ C c) as Hs. unfold same_node_structure in Hs. rewrite E in Hs.
    destruct (lookup (hp s) c) as [y|] eqn:Hy; [|contradiction]. destruct Hs as [Hk He].
    eapply HP_lazy; [exact Hy|congruence| |exact IH]. unfold node_children in *. rewrite He. exact I.
Qed.

Lemma unl_has_parent_back : forall h h' c p, unl h h' -> has_parent h' c p -> has_parent h c p.
Proof.
  intros h h' c p [S N] HP. induction HP as [c nd p E I|c nd m p E K I _ IH].
  - pose proof (S c) as Hs. unfold same_node_structure in Hs. rewrite E in Hs.
    destruct (lookup h c) as [y|] eqn:Hy; [|contradiction].
    destruct (N c y nd Hy E) as (P & _). eapply HP_own; [exact Hy|rewrite P; exact I].
  - pose proof (S c) as Hs. unfold same_node_structure in Hs. rewrite E in Hs.
    destruct (lookup h c) as [y|] eqn:Hy; [|contradiction]. destruct Hs as [Hk He].
    eapply HP_lazy; [exact Hy|congruence| |exact IH]. unfold node_children in *. rewrite He. exact I.
Qed.

(* when no live locked object outside the subtree is a lock parent of a node of the subtree, unlock_ succeeds *)
Lemma unlock_succeeds : forall fuel s n s' out, unlock_ fuel s n = Some (s', out) ->
  (forall x p, Reach (hp s) n x -> has_parent (hp s) x p ->
               live s p = false \/ flag_true (hp s) p = false \/ Reach (hp s) n p) ->
  out = Done.
Proof.
  intros fuel s n s' out U Free. unfold unlock_ in U.
  destruct (punlock fuel (hp s) n) as [[h1 subs]|] eqn:PU; [|discriminate].
  destruct (check_all fuel (with_hp s h1) (subs ++ [n])) as [[s2 r]|] eqn:CA; [|discriminate].
  destruct (punlock_spec _ _ _ _ _ PU) as (Un & Fr & Cl & Sub & Dp).
  destruct r; [|inversion U; reflexivity]. exfalso.
  destruct (check_all_raised _ _ _ _ CA) as (x & sx & Hx & Cx & Bx).
  unfold blocked in Bx. destruct (parents_of fuel (hp sx) x) as [l|] eqn:Pl; [|discriminate].
  inversion Bx as [Ex]. apply existsb_exists in Ex. destruct Ex as [p [Hp Hlf]]. apply andb_prop in Hlf. destruct Hlf as [Lp Fp].
  assert (Rx : Reach (hp s) n x).
  { apply in_app_or in Hx. destruct Hx as [Hx|[<-|[]]]; [|constructor].
    apply Sub in Hx. destruct Hx as [c [Hc R]]. econstructor; eassumption. }
  assert (HP : has_parent (hp s) x p).
  { eapply unl_has_parent_back; [exact Un|]. apply (chk_has_parent_back _ _ _ _ Cx). eapply parents_of_sound; eassumption. }
  rewrite (chk_live _ _ _ Cx) in Lp. rewrite (chk_flag _ _ _ Cx) in Fp.
  change (live s p = true) in Lp. change (flag_true h1 p = true) in Fp.
  destruct (Free x p Rx HP) as [A|[A|A]].
  - congruence.
  - rewrite (unl_flag_false _ _ _ Un A) in Fp. discriminate.
  - rewrite (Cl p A) in Fp. discriminate.
Qed.

(* ---------------------------------------------------------------------------------------------- locked_frozen *)
Lemma op_unlock_dec : forall o, (exists n, o = OUnlock n) \/ (forall n, o <> OUnlock n).
Proof. destruct o; try (right; intros; discriminate). left. eauto. Qed.

Theorem locked_frozen_step : forall fuel s o s' out r,
  Inv s -> step fuel s o = Some (s', out) -> ~ unguarded o ->
  flag_true (hp s) r = true -> live s r = true ->
  tree_unchanged (hp s) (hp s') r /\
  (tree_locked (hp s') r \/ (exists n, o = OUnlock n /\ out = Done /\ flag_true (hp s') r = false)).
Proof.
  intros fuel s o s' out r HI H NU Fr Lr.
  destruct (tree_locked_of_root s r HI Fr Lr) as [TL _].
  destruct (op_unlock_dec o) as [[n ->]|NUn].
  - pose proof (step_inv _ _ _ _ _ HI H) as HI'. cbn [step] in H.
    destruct (exists_live s n); cbn [negb] in H.
    2:{ inversion H. subst. split; [intros x _; apply same_struct_refl|]. left; exact TL. }
    destruct (unlock_facts _ _ _ _ _ H) as (S & D & Mm & Out).
    split; [intros x _; apply S|].
    destruct (flag_true (hp s') r) eqn:Fr'.
    + left. apply (tree_locked_of_root s' r HI' Fr'). unfold live in *. rewrite D. exact Lr.
    + right. exists n. split; [reflexivity|]. split; [|reflexivity].
      destruct Out as [-> | ->]; [reflexivity|]. rewrite (unlock_raised_restores _ _ _ _ _ H r Fr) in Fr'. discriminate.
  - destruct (step_locked_kept _ _ _ _ _ H NU NUn) as [K _].
    destruct (kept_tree _ _ r K TL) as (TU & TL' & Back).
    split; [exact TU|left; exact TL'].
Qed.

Lemma tree_unchanged_reach : forall h h' r x, tree_unchanged h h' r -> Reach h r x -> Reach h' r x.
Proof.
  intros h h' r x TU R.
  assert (Gen : forall a x, Reach h a x -> Reach h r a -> Reach h' a x).
  { clear x R. intros a x R. induction R as [a|a c x Hc R IH]; intros Ra; [constructor|].
    econstructor; [|apply IH; eapply Reach_trans; [exact Ra|apply Reach_child; exact Hc]].
    pose proof (TU a Ra) as Hs. unfold same_node_structure in Hs. unfold child, children in *.
    destruct (lookup h a) as [na|]; [|destruct Hc]. destruct (lookup h' a) as [nb|]; [|contradiction].
    destruct Hs as [_ He]. unfold node_children in *. rewrite <- He. exact Hc. }
  apply Gen; [exact R|constructor].
Qed.

Lemma tree_unchanged_trans : forall a b c r, tree_unchanged a b r -> tree_unchanged b c r -> tree_unchanged a c r.
Proof.
  intros a b c r H1 H2 x R. pose proof (H1 x R) as A. pose proof (H2 x (tree_unchanged_reach _ _ _ _ H1 R)) as B.
  unfold same_node_structure in *. destruct (lookup a x), (lookup b x), (lookup c x); try tauto.
  destruct A, B. split; congruence.
Qed.

(* r stays locked and alive after every call of the history *)
Fixpoint stays_locked (ff : st -> nat) (s : st) (ops : list op) (r : nat) : Prop :=
  match ops with
  | [] => True
  | o :: rest => match step (ff s) s o with
                 | None => True
                 | Some (s1, _) => flag_true (hp s1) r = true /\ live s1 r = true /\ stays_locked ff s1 rest r
                 end
  end.

Theorem locked_frozen_run : forall ff ops s s' outs r,
  Inv s -> Forall (fun o => ~ unguarded o) ops -> run ff s ops = Some (s', outs) ->
  flag_true (hp s) r = true -> live s r = true -> stays_locked ff s ops r ->
  tree_unchanged (hp s) (hp s') r /\ tree_locked (hp s') r.
Proof.
  intros ff. induction ops as [|o ops IH]; intros s s' outs r HI NU H Fr Lr SL; cbn in H.
  - inversion H. subst. split; [intros x _; apply same_struct_refl|]. apply (tree_locked_of_root s' r HI Fr Lr).
  - cbn in SL. destruct (step (ff s) s o) as [[s1 out]|] eqn:St; [|discriminate].
    destruct (run ff s1 ops) as [[s2 outs2]|] eqn:R; [|discriminate]. inversion H. subst s2 outs. clear H.
    inversion NU. subst. destruct SL as (F1 & L1 & SL1).
    destruct (locked_frozen_step _ _ _ _ _ r HI St H1 Fr Lr) as (TU1 & _).
    destruct (IH s1 s' outs2 r (step_inv _ _ _ _ _ HI St) H2 R F1 L1 SL1) as [TU2 TL2].
    split; [eapply tree_unchanged_trans; eassumption|exact TL2].
Qed.

(* ---------------------------------------------------------------------------------------------- member_cannot_unlock, shared_node *)
Theorem member_cannot_unlock : forall fuel s q n s' out,
  Inv s -> child (hp s) q n -> flag_true (hp s) q = true -> live s q = true ->
  step fuel s (OUnlock n) = Some (s', out) ->
  out = Raised ELock /\ same_struct (hp s) (hp s') /\ dead s' = dead s /\
  (forall x, flag_true (hp s) x = true -> flag_true (hp s') x = true).
Proof.
  intros fuel s q n s' out HI Hc Fq Lq H.
  destruct (child_lookup _ _ _ Hc) as [nd [E Hin]].
  destruct (inv_I1 _ HI q Fq Lq nd n E Hin) as [Fn HP].
  assert (Ln : live s n = true) by (eapply (inv_I0 _ HI); eassumption).
  cbn [step] in H. unfold exists_live in H. apply flag_true_lookup in Fn. destruct Fn as [ndn [En _]].
  rewrite En, Ln in H. cbn [negb] in H.
  assert (Out : out = Raised ELock).
  { eapply unlock_blocked; [exact H|constructor|exact Hc|exact HP|exact Fq|exact Lq|reflexivity]. }
  subst out. destruct (unlock_facts _ _ _ _ _ H) as (S & D & _ & _).
  split; [reflexivity|]. split; [exact S|]. split; [exact D|]. eapply unlock_raised_restores. exact H.
Qed.

Theorem shared_node : forall fuel s r1 c p s' out,
  Inv s -> Reach (hp s) r1 c -> child (hp s) p c -> ~ Reach (hp s) r1 p ->
  flag_true (hp s) p = true -> live s p = true -> exists_live s r1 = true ->
  step fuel s (OUnlock r1) = Some (s', out) ->
  out = Raised ELock /\ (forall x, flag_true (hp s) x = true -> flag_true (hp s') x = true).
Proof.
  intros fuel s r1 c p s' out HI Rc Hc NR Fp Lp X H.
  destruct (child_lookup _ _ _ Hc) as [nd [E Hin]].
  destruct (inv_I1 _ HI p Fp Lp nd c E Hin) as [Fc HP].
  cbn [step] in H. rewrite X in H. cbn [negb] in H.
  assert (Out : out = Raised ELock).
  { eapply unlock_blocked; [exact H|exact Rc|exact Hc|exact HP|exact Fp|exact Lp|]. intros R. contradiction. }
  subst out. split; [reflexivity|]. eapply unlock_raised_restores. exact H.
Qed.

(* ---------------------------------------------------------------------------------------------- unlock_root_frees, gc_parent *)
Theorem unlock_root_frees : forall fuel s r s',
  step fuel s (OUnlock r) = Some (s', Done) -> exists_live s r = true ->
  forall x, Reach (hp s) r x ->
    flag_true (hp s') x = false /\
    (forall fuel' b, is_locked fuel' (hp s') x = Some b -> b = false) /\
    (forall fuel' k, is_td s' x = true -> exists s'', step fuel' s' (OSet x k VLeaf) = Some (s'', Done)).
Proof.
  intros fuel s r s' H X x R. cbn [step] in H. rewrite X in H. cbn [negb] in H.
  pose proof (unlock_done_clears _ _ _ _ H) as Cl.
  destruct (unlock_facts _ _ _ _ _ H) as (S & _).
  split; [apply Cl; exact R|]. split.
  - intros fuel' b IL. eapply is_locked_cleared; [|exact IL]. intros y Ry. apply Cl.
    eapply Reach_trans; [exact R|]. eapply same_struct_reach; [apply same_struct_sym; exact S|exact Ry].
  - intros fuel' k T. cbn [step]. rewrite T. cbn [negb resolve_value alloc_leaf].
    unfold td_flag. rewrite (Cl x R). destruct (is_td_spec _ _ T) as (nd & E & _). cbn [hp]. rewrite E. eauto.
Qed.

Theorem gc_parent : forall fuel s n s' out,
  step fuel s (OUnlock n) = Some (s', out) -> exists_live s n = true ->
  (forall x p, Reach (hp s) n x -> has_parent (hp s) x p -> live s p = false \/ flag_true (hp s) p = false \/ Reach (hp s) n p) ->
  out = Done.
Proof.
  intros fuel s n s' out H X Free. cbn [step] in H. rewrite X in H. cbn [negb] in H. eapply unlock_succeeds; eassumption.
Qed.

(* in-place value writes stay possible on a locked node and touch nothing but the write log *)
Theorem inplace_write_ok : forall fuel s n k nd l,
  is_td s n = true -> lookup (hp s) n = Some nd -> ents_get (ents nd) k = Some (RLeaf l) ->
  step fuel s (OSetInplace n k) = Some (log_write s l, Done) /\ step fuel s (OSetBest n k) = Some (log_write s l, Done).
Proof.
  intros fuel s n k nd l T E G. cbn [step]. rewrite T. cbn [negb]. rewrite E, G. split; reflexivity.
Qed.

(* ---------------------------------------------------------------------------------------------- pickle round trip *)
Lemma pcopy_top_flag : forall lf fuel s n s' memo' c nd,
  Inv s -> pcopy lf fuel s [] n = Some (s', memo', c) -> lookup (hp s) n = Some nd -> flg nd = FTrue ->
  c = pred (nxt s') /\ flag_true (hp s') c = true.
Proof.
  intros lf fuel s n s' memo' c nd HI H E F. destruct fuel as [|f]; [discriminate|].
  cbn in H. rewrite E in H.
  match type of H with context [fold_opt ?F0 (ents nd) _] => set (Fm := F0) in * end.
  assert (Fold : forall l s0 m0 es s1 m1 es1, fold_opt Fm l (s0, m0, es) = Some (s1, m1, es1) ->
            Inv s0 -> memo_ok s0 m0 -> Inv s1 /\ memo_ok s1 m1).
  { induction l as [|e l IHl]; intros s0 m0 es s1 m1 es1 Hf I0' M0; cbn [fold_opt] in Hf.
    - inversion Hf. subst. split; assumption.
    - destruct (Fm (s0, m0, es) e) as [[[sm mm0] esm]|] eqn:Fe; [|discriminate].
      assert (St : Inv sm /\ memo_ok sm mm0).
      { unfold Fm in Fe. destruct (snd e) as [lf0|c1].
        - cbn in Fe. inversion Fe. subst. split; [apply (Inv_alloc_leaf s0 I0')|].
          eapply memo_ok_ext; [apply ext_alloc_leaf|exact M0].
        - destruct (pcopy lf f s0 m0 c1) as [[[s9 m9] c9]|] eqn:Pc; [|discriminate]. inversion Fe. subst.
          destruct (pcopy_inv _ _ _ _ _ _ _ _ I0' M0 Pc) as (A & B & _). split; assumption. }
      destruct St as [Im Mm]. eapply IHl; eassumption. }
  destruct (fold_opt Fm (ents nd) (s, [], [])) as [[[s1 m1] es]|] eqn:Hf; [|discriminate].
  destruct (Fold _ _ _ _ _ _ _ Hf HI) as [I1' _]; [intros a b []|].
  rewrite F in H. cbn [flag_is_true] in H.
  set (nd' := mkNode (nk nd) es FFalse [] (shm nd) (mm nd)) in *.
  cbn [alloc_node] in H.
  change (hp s1 ++ [(nxt s1, nd')]) with (hp (fst (alloc_node s1 nd'))) in H.
  destruct (lock_ lf (hp (fst (alloc_node s1 nd'))) (nxt s1)) as [h3|] eqn:LK; [|discriminate].
  inversion H. subst s' memo' c. cbn. split; [reflexivity|].
  assert (Ec : lookup (hp (fst (alloc_node s1 nd'))) (nxt s1) = Some nd') by (apply lookup_alloc_new; apply I1').
  unfold lock_ in LK. assert (FF : flag_true (hp (fst (alloc_node s1 nd'))) (nxt s1) = false) by (unfold flag_true; rewrite Ec; reflexivity).
  rewrite FF in LK. destruct lf as [|lf']; [discriminate|]. eapply plock_flag_self; [exact LK|exact Ec].
Qed.

(* ---------------------------------------------------------------------------------------------- lock_ covers the tree *)
Theorem lock_covers_tree : forall fuel s r s',
  Inv s -> exists_live s r = true -> step fuel s (OLock r) = Some (s', Done) ->
  tree_locked (hp s') r /\ tree_unchanged (hp s) (hp s') r.
Proof.
  intros fuel s r s' HI X H. cbn [step] in H. rewrite X in H. cbn [negb] in H.
  destruct (lock_ fuel (hp s) r) as [h|] eqn:L; [|discriminate]. inversion H. subst s'. cbn.
  pose proof (lock_grows _ _ _ _ L) as G.
  split; [|intros x _; apply G].
  apply exists_live_spec in X. destruct X as [Xr Lr].
  unfold lock_ in L. destruct (flag_true (hp s) r) eqn:F.
  - inversion L. subst h. apply (tree_locked_of_root s r HI F Lr).
  - intros x R.
    assert (R0 : Reach (hp s) r x) by (eapply same_struct_reach; [apply same_struct_sym; apply G|exact R]).
    eapply plock_reach_flag; [exact L|exact R0|].
    clear - R0 Xr HI. induction R0 as [n|n c m Hc _ IH]; [exact Xr|]. apply IH.
    destruct (inv_closed _ HI) as [C1 _]. eapply C1. exact Hc.
Qed.

(* D68 repaired: a refused unlock_ call leaves _is_shared / _is_memmap of every node as they were *)
Theorem refused_unlock_keeps_sharing : forall fuel s n s' e, step fuel s (OUnlock n) = Some (s', Raised e) ->
  forall x a b, lookup (hp s) x = Some a -> lookup (hp s') x = Some b -> shm a = shm b /\ mm a = mm b.
Proof.
  intros fuel s n s' e H. cbn [step] in H. destruct (exists_live s n); cbn [negb] in H; [|discriminate].
  eapply unlock_raised_keeps_sharing. exact H.
Qed.
