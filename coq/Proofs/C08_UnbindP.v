(* C08: unbind along the stack dim returns the member objects themselves, and member k IS dense.unbind(stack_dim)[k]
   = dense[:, .., :, k] (every rank, every stack dim, every member count, members of any kind). *)
From Coq Require Import ZArith List Bool Lia ZifyBool.
Import ListNotations.
From TD Require Import Spec.PySlice Spec.C08_Dense Model.C08_Lazy Model.C08_Write
  Proofs.C08_CoordP Proofs.C08_IndexP Proofs.C08_TenP Proofs.C08_TenWP.
Open Scope Z_scope.

Lemma full_slices_forall n : forallb is_full_slice (repeat (ISl None None None) n) = true.
Proof. induction n; cbn; auto. Qed.
Lemma full_slices_noell n : noell (repeat (ISl None None None) n).
Proof. induction n; cbn; constructor; auto. Qed.
Lemma full_slices_consumed n : consumed (repeat (ISl None None None) n) = n.
Proof. induction n as [|n IH]; [reflexivity|]. cbn [repeat]. rewrite consumed_cons, IH. reflexivity. Qed.
Lemma full_slices_rdims n : rdims_l (repeat (ISl None None None) n) = n.
Proof. induction n as [|n IH]; [reflexivity|]. cbn [repeat]. rewrite rdims_l_cons, IH. reflexivity. Qed.

Theorem unbind_stackdim sd bs0 parts bs fuel :
  parts <> [] -> Forall (fun p => shape_of p = Some bs) parts -> Forall (fun p => sound p bs) parts ->
  Forall (fun s => 0 <= s) bs -> (sd <= List.length bs)%nat ->
  lz_unbind (S fuel) (Stack sd bs0 parts) (Z.of_nat sd) = Ok parts /\
  forall k p, nth_error parts k = Some p -> equiv p (Index (select_idx sd (Z.of_nat k)) (Stack sd bs0 parts)).
Proof.
  intros Hne Hsh Hso Hnn Hsd.
  pose proof (shape_of_stack sd bs0 parts bs Hne Hsh Hsd) as Hself. unfold compute_batch_size in Hself.
  split.
  - cbn [lz_unbind]. rewrite Hself. unfold norm_dim. rewrite insert_at_length by exact Hsd.
    replace (Z.of_nat sd <? 0) with false by lia.
    replace ((Z.of_nat sd <? 0) || (Z.of_nat (S (List.length bs)) <=? Z.of_nat sd)) with false by lia.
    cbn [rbind]. rewrite Nat2Z.id, Nat.eqb_refl. reflexivity.
  - intros k p Hk.
    destruct (split_at sd bs Hsd) as [S1 [S2 [Ebs LS1]]]. subst bs.
    assert (Eins : insert_at sd (lenZ parts) (S1 ++ S2) = S1 ++ lenZ parts :: S2) by (rewrite <- LS1; apply insert_at_app).
    rewrite Eins in Hself.
    apply Forall_app in Hnn. destruct Hnn as [Hn1 Hn2].
    assert (Hp : shape_of p = Some (S1 ++ S2)) by (apply (proj1 (Forall_forall _ _) Hsh); eapply nth_error_In; exact Hk).
    assert (Hps : sound p (S1 ++ S2)) by (apply (proj1 (Forall_forall _ _) Hso); eapply nth_error_In; exact Hk).
    assert (Hkn : Z.of_nat k < lenZ parts).
    { unfold lenZ. assert (k < List.length parts)%nat by (apply nth_error_Some; congruence). lia. }
    assert (Ek : norm_i (Z.of_nat k) (lenZ parts) = Some (Z.of_nat k)).
    { unfold norm_i, in_dim. replace ((0 <=? Z.of_nat k) && (Z.of_nat k <? lenZ parts)) with true by lia. reflexivity. }
    set (F := repeat (ISl None None None) sd).
    assert (HF : res_shape F S1 = Some S1).
    { pose proof (res_shape_full_slices S1 Hn1 [] []) as H. rewrite !app_nil_r in H. rewrite LS1 in H. cbn [res_shape option_map] in H. rewrite app_nil_r in H. exact H. }
    split.
    + rewrite Hp, (shape_index _ _ _ Hself). unfold select_idx. rewrite <- LS1.
      rewrite (res_shape_full_slices S1 Hn1). cbn [res_shape]. rewrite Ek. reflexivity.
    + intros r. rewrite (at_index _ _ _ r Hself). unfold select_idx. fold F.
      rewrite (src_of_app F (full_slices_noell sd) S1 _ _ r ltac:(unfold F; rewrite full_slices_consumed; lia)).
      replace (rdims_l F) with sd by (unfold F; rewrite full_slices_rdims; reflexivity).
      destruct (full_slices_id F (full_slices_forall sd) S1 S1 Hn1 HF) as [_ Hsrc]. rewrite Hsrc.
      cbn [src_of]. rewrite Ek.
      destruct (in_range (S1 ++ S2) r) eqn:Er.
      * pose proof (in_range_length _ _ Er) as HL. rewrite app_length in HL.
        rewrite <- (firstn_skipn sd r) in Er.
        rewrite in_range_app in Er by (rewrite firstn_length; lia).
        apply andb_prop in Er. destruct Er as [E1 E2]. rewrite E1, E2. cbn [option_map opt_bind].
        rewrite at_stack.
        assert (Lf : List.length (firstn sd r) = sd) by (rewrite firstn_length; lia).
        pose proof (firstn_skipn sd r) as Efs.
        set (r1 := firstn sd r) in *. set (r2 := skipn sd r) in *. rewrite <- Efs.
        rewrite <- Lf. rewrite nth_error_app_mid, remove_at_app.
        unfold nthZ. replace (Z.of_nat k <? 0) with false by lia. rewrite Nat2Z.id, Hk. reflexivity.
      * destruct (at_ p r) as [e|] eqn:Ea; [rewrite (Hps r e Ea) in Er; discriminate|].
        destruct (in_range S1 (firstn sd r)) eqn:E1; [|reflexivity].
        destruct (in_range S2 (skipn sd r)) eqn:E2; [|reflexivity]. exfalso.
        pose proof (in_range_length _ _ E1) as HL1.
        rewrite <- (firstn_skipn sd r) in Er. rewrite in_range_app in Er by exact HL1. rewrite E1, E2 in Er. discriminate.
Qed.
