(* The element map lands inside the source: a position of the result is sent to a position of the indexed tensor,
   provided the index entries READ for that position are valid indices (torch's own bounds check). *)
From Coq Require Import ZArith List Bool Lia.
Import ListNotations.
From TD Require Import Spec.PySlice Model.C03_Index Spec.C03_TorchIndex Spec.C03_TorchSel Proofs.SliceP
  Proofs.C03_IndexP Proofs.C03_SelP.
Open Scope nat_scope.

(* the index values read at block coordinate b are valid for the dims they index *)
Fixpoint vwf_at (b : list nat) (idx : list vitem) (dims : list nat) : Prop :=
  match idx with
  | [] => True
  | it :: r =>
      match it with
      | VNone => vwf_at b r dims
      | VEll => False
      | VInt _ | VSl _ _ _ => vwf_at b r (tl dims)
      | VAdv0 i =>
          match dims with n :: ds => (- Z.of_nat n <= i < Z.of_nat n)%Z /\ vwf_at b r ds | [] => False end
      | VAdv sh vals =>
          match dims with n :: ds => (- Z.of_nat n <= lookup sh vals b < Z.of_nat n)%Z /\ vwf_at b r ds | [] => False end
      | VMask sh pos => in_range (firstn (length sh) dims) (mask_pos pos b) /\ vwf_at b r (skipn (length sh) dims)
      end
  end.

Lemma norm_in n z : (- Z.of_nat n <= z < Z.of_nat n)%Z -> (0 <= norm n z < Z.of_nat n)%Z.
Proof. intros H. unfold norm. destruct (z <? 0)%Z eqn:E; lia. Qed.

Lemma in_range_Z sh r : in_range sh r -> in_rangeZ sh (map Z.of_nat r).
Proof. unfold in_range, in_rangeZ. induction 1; cbn; constructor; [lia|assumption]. Qed.

Lemma F2_cons_inv {X Y} (P : X -> Y -> Prop) x l y l' : Forall2 P (x :: l) (y :: l') -> P x y /\ Forall2 P l l'.
Proof. intros H; inversion H; auto. Qed.

Lemma sel_items_in_bounds idx : forall dims sl b ks s,
  slots (map erase idx) dims = Some sl -> vwf_at b idx dims -> in_range (keeps sl) ks ->
  sel_items idx dims b ks = Some s -> in_rangeZ dims s.
Proof.
  induction idx as [|it r IH]; intros dims sl b ks s Hs Hw Hk H; cbn [map slots erase] in Hs; cbn [sel_items] in H;
    cbn [vwf_at] in Hw.
  - injection Hs as <-. injection H as <-. rewrite keeps_mapK in Hk. now apply in_range_Z.
  - destruct it as [i|a bb c| | |sh vals|i|sh pos]; cbn [erase] in Hs.
    + destruct dims as [|n ds]; [discriminate|].
      destruct ((- Z.of_nat n <=? i)%Z && (i <? Z.of_nat n)%Z) eqn:Eb; [|discriminate].
      destruct (sel_items r ds b ks) as [s'|] eqn:E; [|discriminate]. injection H as <-.
      constructor; [apply norm_in; lia|]. eapply IH; eassumption.
    + destruct dims as [|n ds]; [discriminate|].
      destruct ((match c with Some s => s | None => 1%Z end <=? 0)%Z) eqn:Est; [discriminate|].
      destruct (slots (map erase r) ds) as [sl'|] eqn:E2; [|discriminate]. injection Hs as <-.
      destruct ks as [|k ks']; [discriminate|].
      destruct (sel_items r ds b ks') as [s'|] eqn:E; [|discriminate]. injection H as <-.
      cbn [keeps] in Hk. unfold in_range in Hk. apply F2_cons_inv in Hk. destruct Hk as [Hx Hl].
      constructor; [|eapply IH; eassumption].
      set (st := match c with Some s => s | None => 1%Z end) in *.
      change (0 <= range_nth (py_indices a bb st (Z.of_nat n)) (Z.of_nat k) < Z.of_nat n)%Z.
      change (k < Z.to_nat (range_len (py_indices a bb st (Z.of_nat n)))) in Hx.
      apply py_indices_in_bounds; [lia|lia|]. lia.
    + destruct (slots (map erase r) dims) as [sl'|] eqn:E2; [|discriminate]. injection Hs as <-.
      destruct ks as [|k ks']; [discriminate|].
      cbn [keeps] in Hk. unfold in_range in Hk. apply F2_cons_inv in Hk. destruct Hk as [Hx Hl].
      eapply IH; eassumption.
    + discriminate.
    + destruct dims as [|n ds]; [discriminate|].
      destruct (slots (map erase r) ds) as [sl'|] eqn:E2; [|discriminate]. injection Hs as <-.
      destruct (sel_items r ds b ks) as [s'|] eqn:E; [|discriminate]. injection H as <-.
      destruct Hw as [Hv Hw]. cbn [keeps] in Hk.
      constructor; [now apply norm_in|]. eapply IH; eassumption.
    + destruct dims as [|n ds]; [discriminate|].
      destruct (sel_items r ds b ks) as [s'|] eqn:E; [|discriminate]. injection H as <-.
      destruct Hw as [Hv Hw].
      constructor; [now apply norm_in|]. eapply IH; eassumption.
    + destruct (Nat.leb (length sh) (length dims)) eqn:El; [|discriminate]. cbn [andb] in Hs.
      destruct (shape_eqb sh (firstn (length sh) dims)); [|discriminate]. cbn [andb] in Hs.
      destruct (negb (Nat.eqb (length sh) 0)); [|discriminate].
      destruct (slots (map erase r) (skipn (length sh) dims)) as [sl'|] eqn:E2; [|discriminate]. injection Hs as <-.
      destruct (sel_items r (skipn (length sh) dims) b ks) as [s'|] eqn:E; [|discriminate]. injection H as <-.
      destruct Hw as [Hv Hw]. cbn [keeps] in Hk.
      rewrite <- (firstn_skipn (length sh) dims). unfold in_rangeZ. apply Forall2_app.
      * now apply in_range_Z.
      * eapply IH; eassumption.
Qed.

Lemma keeps_eq sl : has_A sl = true -> keeps sl = before_A sl ++ after_first_A sl.
Proof. induction sl as [|[n|] sl IH]; cbn; intros H; [discriminate|now rewrite IH|reflexivity]. Qed.

Lemma unplace_in_range B sl r :
  in_range (place B sl) r ->
  in_range (keeps sl) (snd (unplace (length B) sl r)) /\ (has_A sl = true -> in_range B (fst (unplace (length B) sl r))).
Proof.
  unfold place, unplace, in_range. destruct (has_A sl) eqn:HA; cbn [negb].
  2:{ intros H; cbn [fst snd]. split; [assumption|discriminate]. }
  destruct (adjacent sl).
  - intros H. apply Forall2_app_inv_r in H. destruct H as (r1 & r' & H1 & H & ->).
    apply Forall2_app_inv_r in H. destruct H as (rb & r2 & Hb & H2 & ->).
    pose proof (Forall2_length H1) as L1. pose proof (Forall2_length Hb) as Lb.
    cbn [fst snd]. rewrite <- L1, <- Lb.
    rewrite (skipn_app_le (length r1) r1 (rb ++ r2)) by lia. rewrite skipn_all. cbn [app].
    rewrite (firstn_app_le (length rb) rb r2) by lia. rewrite firstn_all.
    rewrite (firstn_app_le (length r1) r1 (rb ++ r2)) by lia. rewrite firstn_all.
    rewrite app_assoc, (skipn_app (length r1 + length rb)). rewrite app_length, Nat.sub_diag. cbn [skipn].
    rewrite skipn_all2 by (rewrite app_length; lia). cbn [app].
    rewrite (keeps_eq sl HA). split; [now apply Forall2_app|intros _; assumption].
  - intros H. apply Forall2_app_inv_r in H. destruct H as (rb & r2 & Hb & H2 & ->).
    pose proof (Forall2_length Hb) as Lb. cbn [fst snd]. rewrite <- Lb.
    rewrite (firstn_app_le (length rb) rb r2) by lia. rewrite firstn_all.
    rewrite (skipn_app_le (length rb) rb r2) by lia. rewrite skipn_all. cbn [app].
    split; [assumption|intros _; assumption].
Qed.

(* every position of the result is sent to a position of the source *)
Theorem sel_ne_in_bounds bs idx sl B r s :
  slots (map erase idx) bs = Some sl -> bcast_all (adv_shapes (map erase idx)) = Ok B ->
  in_range (place B sl) r ->
  vwf_at (fst (unplace (length B) sl r)) idx bs ->
  sel_ne bs idx r = Some s -> in_rangeZ bs s.
Proof.
  intros Hs HB Hr Hw. unfold sel_ne. rewrite Hs, HB.
  destruct (Nat.eqb (length r) (length (place B sl))); [|discriminate].
  destruct (unplace_in_range B sl r Hr) as [Hk _].
  destruct (unplace (length B) sl r) as [b ks]. cbn [fst snd] in *.
  intros H. eapply sel_items_in_bounds; eassumption.
Qed.
