(* C07 — well-formedness (no dangling node reference) is an invariant of every operation, hence of every history. *)
From Coq Require Import ZArith List String Bool Arith PeanoNat Lia.
Import ListNotations.
From TD Require Import Model.C07_Heap Model.C07_Alias Spec.C07_AliasSpec Proofs.C07_HeapP Proofs.C07_AliasP Proofs.C07_TreeP.
Local Open Scope list_scope.

Local Arguments write_c : simpl never.
Local Arguments write_list : simpl never.
Local Arguments update_u : simpl never.

Definition wfst (s : st) : Prop := wfheap (hp s) /\ Forall (wfref (hp s)) (regs s).

(* h' is well formed and has at least the nodes of h (so every reference valid in h stays valid) *)
Definition wfgrow (h h' : heap) : Prop := wfheap h' /\ List.length (hnodes h) <= List.length (hnodes h').

Lemma wfref_grow : forall h h' r, List.length (hnodes h) <= List.length (hnodes h') -> wfref h r -> wfref h' r.
Proof. intros h h' [v|n] L H; cbn in *; auto. lia. Qed.

Lemma wfgrow_refl : forall h, wfheap h -> wfgrow h h.
Proof. intros. split; auto. Qed.

Lemma wfgrow_trans : forall a b c, wfgrow a b -> wfgrow b c -> wfgrow a c.
Proof. intros a b c [_ L1] [W2 L2]. split; auto. lia. Qed.

Lemma frame_wfgrow : forall h h', wfheap h -> inplace_frame h h' -> wfgrow h h'.
Proof. intros h h' W [N _]. split; [eapply wfheap_nodes_eq; eauto|rewrite N; lia]. Qed.

Lemma heap_ext_grow : forall h h', heap_ext h h' -> List.length (hnodes h) <= List.length (hnodes h').
Proof. intros h h' [_ [e E]]. rewrite E, app_length. lia. Qed.

Lemma nth_error_upd_nth : forall {A} (l : list A) i x m,
  nth_error (upd_nth l i x) m = if Nat.eqb m i then (match nth_error l i with Some _ => Some x | None => None end) else nth_error l m.
Proof.
  induction l as [|a l IH]; intros i x m.
  - destruct i, m; cbn; try reflexivity; destruct (Nat.eqb m i); reflexivity.
  - destruct i, m; cbn; try reflexivity. apply IH.
Qed.

Lemma set_node_wf : forall h n nd, wfheap h -> (forall k x, In (k, x) (nents nd) -> wfref h x) -> wfgrow h (set_node h n nd).
Proof.
  intros h n nd W Wn. split; [|cbn; rewrite upd_nth_length; lia].
  intros m nd0 k x Hm Hi. cbn in Hm. rewrite nth_error_upd_nth in Hm.
  assert (L : List.length (hnodes h) <= List.length (hnodes (set_node h n nd))) by (cbn; rewrite upd_nth_length; lia).
  eapply wfref_grow; [exact L|].
  destruct (Nat.eqb m n).
  - destruct (nth_error (hnodes h) n); [|discriminate]. inversion Hm; subst. eapply Wn; eauto.
  - eapply W; eauto.
Qed.

Lemma get_node_In_wf : forall h n nd k x, wfheap h -> get_node h n = Some nd -> In (k, x) (nents nd) -> wfref h x.
Proof. intros. eapply H; eauto. Qed.

Lemma bind_wf : forall h n k r h' o, wfheap h -> wfref h r -> bind h n k r = (h', o) -> wfgrow h h'.
Proof.
  unfold bind. intros h n k r h' o W Wr H. destruct (get_node h n) as [nd|] eqn:En; [|inversion H; subst; now apply wfgrow_refl].
  destruct (nlock nd); inversion H; subst; [now apply wfgrow_refl|].
  apply set_node_wf; auto. cbn. intros k0 x Hi. apply ents_set_In in Hi. destruct Hi as [[_ E]|Hi]; [now subst|].
  eapply get_node_In_wf; eauto.
Qed.

Lemma write_c_wf : forall chk h v vals h' o, wfheap h -> write_c chk h v vals = (h', o) -> wfgrow h h'.
Proof. intros. apply frame_wfgrow; auto. eapply write_c_frame; eauto. Qed.

Lemma update_u_wf : forall h d s h' o, wfheap h -> update_u h d s = (h', o) -> wfgrow h h'.
Proof. intros. apply frame_wfgrow; auto. eapply update_u_frame; eauto. Qed.

Definition upd_ok (upd : heap -> nat -> nat -> heap * outcome) : Prop :=
  forall h d s h' o, wfheap h -> upd h d s = (h', o) -> wfgrow h h'.

Lemma set_str_wf : forall upd, upd_ok upd -> forall h n k val inpl h' o,
  wfheap h -> wfref h val -> set_str upd h n k val inpl = (h', o) -> wfgrow h h'.
Proof.
  unfold set_str. intros upd Hu h n k val inpl h' o W Wv H.
  destruct (get_node h n) as [nd|] eqn:En; [|inversion H; subst; now apply wfgrow_refl].
  assert (Gi : forall (best : bool) (x : heap * outcome), (match ents_get (nents nd) k, val with
                          | Some (RLeaf d), RLeaf v => if view_eqb d v then (h, Done) else write_c true h d (read h v)
                          | Some (RNode d), RNode v => if best then upd h d v else update_u h (RNode d) (RNode v)
                          | _, _ => (h, Raised EType) end) = x -> wfgrow h (fst x)).
  { intros best x Hx. subst x. destruct (ents_get (nents nd) k) as [[d|d]|]; destruct val as [v|v]; cbn; try now apply wfgrow_refl.
    - destruct (view_eqb d v); cbn; [now apply wfgrow_refl|].
      destruct (write_c true h d (read h v)) eqn:E. eapply write_c_wf; eauto.
    - destruct best.
      + destruct (upd h d v) eqn:E. eapply Hu; eauto.
      + destruct (update_u h (RNode d) (RNode v)) eqn:E. eapply update_u_wf; eauto. }
  destruct inpl.
  - eapply bind_wf; eauto.
  - destruct (ents_has (nents nd) k); [|inversion H; subst; now apply wfgrow_refl].
    specialize (Gi false _ H). exact Gi.
  - destruct (ents_has (nents nd) k); [|eapply bind_wf; eauto].
    specialize (Gi true _ H). exact Gi.
Qed.

Lemma set_tuple_wf : forall upd, upd_ok upd -> forall p h n val inpl h' o,
  wfheap h -> wfref h val -> set_tuple upd h n p val inpl = (h', o) -> wfgrow h h'.
Proof.
  intros upd Hu. induction p as [|k p IH]; intros h n val inpl h' o W Wv H.
  - cbn in H. inversion H; subst. now apply wfgrow_refl.
  - destruct p as [|k2 p2].
    + cbn in H. eapply set_str_wf; eauto.
    + cbn [set_tuple] in H.
      destruct (get_node h n) as [nd|] eqn:En; [|inversion H; subst; now apply wfgrow_refl].
      destruct (ents_get (nents nd) k) as [[d|m]|] eqn:Ek.
      * inversion H; subst. now apply wfgrow_refl.
      * eapply IH; eauto.
      * destruct (fixed_D75 && is_true inpl); [inversion H; subst; now apply wfgrow_refl|].
        unfold alloc_node in H. cbv beta iota zeta in H.
        set (h1 := {| hstor := hstor h; hnodes := hnodes h ++ [mkNode [] false] |}) in *.
        assert (G1 : wfgrow h h1).
        { destruct (wfheap_alloc h (mkNode [] false) W) as [A _]; [intros ? ? []|].
          split; [exact A|cbn; rewrite app_length; lia]. }
        destruct (bind h1 n k (RNode (List.length (hnodes h)))) as [h2 [|e]] eqn:Eb.
        -- assert (G2 : wfgrow h1 h2).
           { eapply bind_wf; [apply G1| |exact Eb]. cbn. rewrite app_length. cbn. lia. }
           eapply wfgrow_trans; [exact G1|]. eapply wfgrow_trans; [exact G2|].
           refine (IH h2 (List.length (hnodes h)) val IFalse h' o (proj1 G2) _ H).
           eapply wfref_grow; [|exact Wv]. destruct G1 as [_ L1]. destruct G2 as [_ L2]. lia.
        -- inversion H; subst. eapply wfgrow_trans; [exact G1|]. eapply bind_wf; [apply G1| |exact Eb].
           cbn. rewrite app_length. cbn. lia.
Qed.

Lemma fold_out_wf : forall {A} (stepf : heap -> A -> heap * outcome),
  (forall h x h' o, wfheap h -> stepf h x = (h', o) -> wfgrow h h') ->
  forall l h h' o, wfheap h -> fold_out stepf h l = (h', o) -> wfgrow h h'.
Proof.
  intros A stepf Hs. induction l as [|x l IH]; intros h h' o W H; cbn in H.
  - inversion H; subst. now apply wfgrow_refl.
  - destruct (stepf h x) as [h1 [|e]] eqn:E.
    + pose proof (Hs _ _ _ _ W E) as G. eapply wfgrow_trans; [exact G|]. eapply IH; [apply G|exact H].
    + inversion H; subst. eapply Hs; eauto.
Qed.

Lemma deep_clone_wf : forall fuel h r h' r', wfheap h -> wfref h r -> deep_clone fuel h r = Some (h', r') ->
  wfgrow h h' /\ wfref h' r'.
Proof.
  unfold deep_clone. intros fuel h r h' r' W Wr H.
  destruct (map_tree_wf _ lf_copy_ok fuel false false false _ _ _ _ _ W Wr H) as [X [W' R']].
  split; [split; [exact W'|now apply heap_ext_grow]|exact R'].
Qed.

Lemma update_n_wf : forall fuel clone inpl, upd_ok (update_n fuel clone inpl).
Proof.
  induction fuel as [|f IH]; intros clone inpl h d s h' o W H; cbn [update_n] in H.
  - inversion H; subst. now apply wfgrow_refl.
  - destruct (get_node h d) as [nd|] eqn:Ed; [|inversion H; subst; now apply wfgrow_refl].
    destruct (get_node h s) as [ns|] eqn:Es; [|inversion H; subst; now apply wfgrow_refl].
    destruct (nlock nd && negb inpl); [inversion H; subst; now apply wfgrow_refl|].
    destruct (Nat.eqb d s); [inversion H; subst; now apply wfgrow_refl|].
    (* entries of the source stay valid references while the heap grows *)
    assert (G : forall l h0 h1 o1, wfheap h0 -> (forall k x, In (k, x) l -> wfref h0 x) ->
                  fold_out (upd_entry (update_n f clone inpl) (update_n f false true) clone inpl d) h0 l = (h1, o1) -> wfgrow h0 h1).
    { induction l as [|[k v] l IHl]; intros h0 h1 o1 W0 Wl Hf; cbn [fold_out] in Hf.
      - inversion Hf; subst. now apply wfgrow_refl.
      - assert (Ge : forall hx ox, upd_entry (update_n f clone inpl) (update_n f false true) clone inpl d h0 (k, v) = (hx, ox) -> wfgrow h0 hx).
        { intros hx ox Hu. unfold upd_entry in Hu.
          assert (Wv : wfref h0 v) by (eapply Wl; now left).
          destruct clone.
          - destruct (deep_clone (fuel_of h0) h0 v) as [[ha va]|] eqn:Ec; [|inversion Hu; subst; now apply wfgrow_refl].
            destruct (deep_clone_wf _ _ _ _ _ W0 Wv Ec) as [Ga Ra].
            eapply wfgrow_trans; [exact Ga|].
            destruct (match get_node ha d with Some nd1 => ents_get (nents nd1) k | None => None end) as [[t|t]|];
              destruct va as [sv|sv];
              try (eapply set_str_wf; [apply IH|apply Ga|exact Ra|exact Hu]).
            eapply IH; [apply Ga|exact Hu].
          - destruct (match get_node h0 d with Some nd1 => ents_get (nents nd1) k | None => None end) as [[t|t]|];
              destruct v as [sv|sv];
              try (eapply set_str_wf; [apply IH|exact W0|exact Wv|exact Hu]).
            eapply IH; [exact W0|exact Hu]. }
        destruct (upd_entry (update_n f clone inpl) (update_n f false true) clone inpl d h0 (k, v)) as [hx [|e]] eqn:Eu.
        + pose proof (Ge _ _ eq_refl) as Gx. eapply wfgrow_trans; [exact Gx|].
          eapply IHl; [apply Gx| |exact Hf]. intros k0 x Hi. eapply wfref_grow; [apply Gx|]. eapply (Wl k0). right. exact Hi.
        + inversion Hf; subst. eapply Ge; eauto. }
    eapply G; [exact W| |exact H]. intros k x Hi. eapply get_node_In_wf; eauto.
Qed.

Lemma resolve_wf : forall p h r x, wfheap h -> wfref h r -> resolve h r p = Some x -> wfref h x.
Proof.
  induction p as [|k p IH]; intros h r x W Wr H; cbn in H.
  - inversion H; now subst.
  - destruct r as [v|n]; [discriminate|]. destruct (get_node h n) as [nd|] eqn:En; [|discriminate].
    destruct (ents_get (nents nd) k) as [y|] eqn:Ek; [|discriminate].
    eapply IH; [exact W| |exact H]. eapply get_node_In_wf; eauto. eapply ents_get_In; eauto.
Qed.

Lemma regs_get_wf : forall h rs l es, Forall (wfref h) rs -> regs_get rs l = Some es -> forall k x, In (k, x) es -> wfref h x.
Proof.
  intros h rs. induction l as [|[k i] t IH]; intros es F H k0 x Hi; cbn in H.
  - inversion H; subst. destruct Hi.
  - destruct (nth_error rs i) eqn:En; [|discriminate]. destruct (regs_get rs t) eqn:Et; [|discriminate].
    inversion H; subst. destruct Hi as [Hi|Hi].
    + inversion Hi; subst. rewrite Forall_forall in F. apply F. eapply nth_error_In; eauto.
    + eapply IH; eauto.
Qed.

Lemma reg_wf : forall s r x, wfst s -> reg s r = Some x -> wfref (hp s) x.
Proof. intros s r x [_ F] H. rewrite Forall_forall in F. apply F. eapply nth_error_In; eauto. Qed.

Lemma wfst_grow : forall s h', wfst s -> wfgrow (hp s) h' -> wfst (with_h s h').
Proof.
  intros s h' [W F] [W' L]. split; cbn; auto. rewrite Forall_forall in *. intros x Hx. eapply wfref_grow; eauto.
Qed.

Lemma wfst_push : forall s h' x, wfst s -> wfgrow (hp s) h' -> wfref h' x -> wfst (push s h' x).
Proof.
  intros s h' x [W F] [W' L] Wx. split; cbn; auto. apply Forall_app. split; [|now constructor].
  rewrite Forall_forall in *. intros y Hy. eapply wfref_grow; eauto.
Qed.

Lemma alloc_wfst : forall s nd, wfst s -> (forall k x, In (k, x) (nents nd) -> wfref (hp s) x) ->
  wfst (push s (fst (alloc_node (hp s) nd)) (RNode (List.length (hnodes (hp s))))).
Proof.
  intros s nd Ws Wn. destruct (wfheap_alloc (hp s) nd (proj1 Ws) Wn) as [A B].
  apply wfst_push; auto. split; auto. cbn. rewrite app_length. lia.
Qed.

Lemma map_tree_wfst : forall s leaff fuel lk ln fe d h1 x, lf_ok leaff -> wfst s -> wfref (hp s) d ->
  map_tree fuel lk ln fe leaff (hp s) d [] = Some (h1, x) -> wfst (push s h1 x).
Proof.
  intros s leaff fuel lk ln fe d h1 x Hl Ws Wd H.
  destruct (map_tree_wf _ Hl fuel lk ln fe _ _ _ _ _ (proj1 Ws) Wd H) as [X [W1 R1]].
  apply wfst_push; auto. split; auto. now apply heap_ext_grow.
Qed.

Lemma leaves_wf_entries : forall sep ls h k x,
  In (k, x) (map (fun pv : path * view => (join sep (fst pv), RLeaf (snd pv))) ls) -> wfref h x.
Proof. intros sep ls h k x Hi. apply in_map_iff in Hi. destruct Hi as [[p v] [E _]]. inversion E; subst. exact I. Qed.

Lemma fold_lock_wf : forall (b : bool) ns h, wfheap h ->
  wfgrow h (fold_left (fun h0 n => match get_node h0 n with
                                   | Some nd => set_node h0 n (mkNode (nents nd) b) | None => h0 end) ns h).
Proof.
  intros b. induction ns as [|n ns IH]; intros h W; cbn; [now apply wfgrow_refl|].
  destruct (get_node h n) as [nd|] eqn:En; [|now apply IH].
  assert (G : wfgrow h (set_node h n (mkNode (nents nd) b))).
  { apply set_node_wf; auto. cbn. intros; eapply get_node_In_wf; eauto. }
  eapply wfgrow_trans; [exact G|apply IH; apply G].
Qed.

Lemma In_ents_del : forall e k k0 x, In (k0, x) (ents_del e k) -> In (k0, x) e.
Proof.
  induction e as [|[k' r'] t IH]; intros k k0 x H; cbn in H; auto.
  destruct (String.eqb k' k); [now right|]. destruct H as [H|H]; [now left|right; eauto].
Qed.

Local Arguments update_n : simpl never.
Local Arguments set_tuple : simpl never.
Local Arguments map_tree : simpl never.
Local Arguments fuel_of : simpl never.
Theorem step_wf : forall s i, wfst s -> wfst (fst (step s i)).
Proof.
  intros s i Ws.
  destruct (classify i) eqn:Ec.
  - (* alloc *)
    destruct i; cbn in Ec; try discriminate; try (destruct inpl; discriminate); unfold step; cbv zeta.
    + cbn. apply wfst_push; auto; [|exact I]. split; [eapply wfheap_nodes_eq; [|apply Ws]; reflexivity|cbn; lia].
    + destruct (regs_get (regs s) ents) as [es|] eqn:Er; [|exact Ws]. cbn.
      apply (alloc_wfst s (mkNode es false) Ws). cbn. eapply regs_get_wf; [apply Ws|exact Er].
    + destruct (reg s r) as [x|] eqn:Er; [|exact Ws]. destruct (resolve (hp s) x p) as [y|] eqn:Ey; [|exact Ws]. cbn.
      apply wfst_push; auto; [apply wfgrow_refl; apply Ws|]. eapply resolve_wf; [apply Ws| |exact Ey]. eapply reg_wf; eauto.
  - (* in-place *)
    destruct (step_inplace_frame s i Ec) as [F R].
    destruct (step s i) as [s' o]. cbn in *. destruct s' as [h' rs]. cbn in *. subst rs.
    apply (wfst_grow s h' Ws). apply frame_wfgrow; [apply Ws|exact F].
  - (* best effort *)
    destruct i; cbn in Ec; try discriminate; try (destruct inpl; discriminate); unfold step; cbv zeta.
    + destruct (reg s r) as [[v0|n]|] eqn:Er; try exact Ws. destruct (reg s v) as [val|] eqn:Ev; [|exact Ws]. cbn.
      destruct (set_tuple upd_best (hp s) n p val inpl) as [h' o] eqn:E. cbn. apply wfst_grow; auto.
      eapply set_tuple_wf; [intros h0 d0 s0 h1 o1; apply update_n_wf|apply Ws|eapply reg_wf; eauto|exact E].
    + destruct (reg s r) as [[v0|d]|] eqn:Er; try exact Ws. destruct (reg s src) as [[v1|o]|] eqn:Ev; try exact Ws. cbn.
      destruct (update_n (fuel_of (hp s)) clone inpl (hp s) d o) as [h' oo] eqn:E. cbn. apply wfst_grow; auto.
      eapply update_n_wf; [apply Ws|exact E].
  - (* structure *)
    destruct i; cbn in Ec; try discriminate; try (destruct inpl; discriminate); unfold step; cbv zeta.
    + destruct (reg s r) as [[v0|n]|] eqn:Er; try exact Ws. destruct (reg s v) as [val|] eqn:Ev; [|exact Ws]. cbn.
      destruct (set_tuple upd_best (hp s) n p val inpl) as [h' o] eqn:E. cbn. apply wfst_grow; auto.
      eapply set_tuple_wf; [intros h0 d0 s0 h1 o1; apply update_n_wf|apply Ws|eapply reg_wf; eauto|exact E].
    + destruct (reg s r) as [[v0|d]|] eqn:Er; try exact Ws. destruct (reg s src) as [[v1|o]|] eqn:Ev; try exact Ws. cbn.
      destruct (update_n (fuel_of (hp s)) clone inpl (hp s) d o) as [h' oo] eqn:E. cbn. apply wfst_grow; auto.
      eapply update_n_wf; [apply Ws|exact E].
    + (* IDel *)
      destruct (reg s r) as [d|] eqn:Er; [|exact Ws].
      destruct (resolve (hp s) d (removelast p)) as [[v0|n]|] eqn:Ep; try exact Ws.
      destruct (get_node (hp s) n) as [nd|] eqn:En; [|exact Ws].
      match goal with |- context [if ?c then _ else _] => destruct c end; [exact Ws|].
      destruct (ents_has (nents nd) (last p "")); [|exact Ws]. cbn.
      apply wfst_grow; auto. apply set_node_wf; [apply Ws|]. cbn. intros k x Hi. apply In_ents_del in Hi.
      eapply get_node_In_wf; [apply Ws|exact En|exact Hi].
    + (* ILock *)
      destruct (reg s r) as [d|] eqn:Er; [|exact Ws].
      destruct (nodes_below (fuel_of (hp s)) (hp s) d) as [ns|]; [|exact Ws]. cbn.
      apply wfst_grow; auto. apply fold_lock_wf. apply Ws.
  - (* views *)
    destruct i; cbn in Ec; try discriminate; try (destruct inpl; discriminate); unfold step; cbv zeta.
    + destruct (reg s r) as [d|] eqn:Er; [|exact Ws].
      match goal with |- context [map_tree ?a ?b ?c ?c2 ?d ?e ?f ?g] => destruct (map_tree a b c c2 d e f g) as [[h1 x]|] eqn:E end; [|exact Ws].
      cbn. eapply map_tree_wfst; [apply lf_sub_ok|exact Ws|eapply reg_wf; eauto|exact E].
    + (* ISelect *)
      destruct (reg s r) as [[v0|n]|] eqn:Er; try exact Ws. destruct (get_node (hp s) n) as [nd|] eqn:En; [|exact Ws].
      destruct (forallb (fun k => ents_has (nents nd) k) ks); [|exact Ws]. cbn.
      match goal with |- wfst (push s _ (RNode _)) => idtac end.
      apply (alloc_wfst s (mkNode _ false) Ws). cbn.
      assert (G : forall l acc, (forall k x, In (k, x) acc -> wfref (hp s) x) ->
                   forall k x, In (k, x) (fold_left (fun acc k => match ents_get (nents nd) k with
                                                                  | Some y => ents_set acc k y | None => acc end) l acc) ->
                               wfref (hp s) x).
      { induction l as [|k0 l IH]; intros acc Ha k x Hi; cbn in Hi; [eapply Ha; eauto|].
        eapply IH; [|exact Hi]. intros k1 x1 H1. destruct (ents_get (nents nd) k0) eqn:E0; [|eapply Ha; eauto].
        apply ents_set_In in H1. destruct H1 as [[A B]|A]; [|eapply Ha; eauto]. subst.
        eapply get_node_In_wf; [apply Ws|exact En|]. eapply ents_get_In; eauto. }
      eapply G. intros k x [].
    + (* IExclude *)
      destruct (reg s r) as [[v0|n]|] eqn:Er; try exact Ws. destruct (get_node (hp s) n) as [nd|] eqn:En; [|exact Ws]. cbn.
      apply (alloc_wfst s (mkNode _ false) Ws). cbn. intros k x Hi. apply filter_In in Hi.
      eapply get_node_In_wf; [apply Ws|exact En|apply Hi].
    + destruct (reg s r) as [d|] eqn:Er; [|exact Ws].
      match goal with |- context [map_tree ?a ?b ?c ?c2 ?d ?e ?f ?g] => destruct (map_tree a b c c2 d e f g) as [[h1 x]|] eqn:E end; [|exact Ws].
      cbn. eapply map_tree_wfst; [apply lf_same_ok|exact Ws|eapply reg_wf; eauto|exact E].
    + (* IFlatten *)
      destruct (reg s r) as [d|] eqn:Er; [|exact Ws]. destruct (leaves_of (hp s) d) as [ls|]; [|exact Ws]. cbn.
      apply (alloc_wfst s (mkNode _ false) Ws). cbn. intros k x Hi. eapply leaves_wf_entries; eauto.
  - (* copies *)
    destruct i; cbn in Ec; try discriminate; try (destruct inpl; discriminate); unfold step; cbv zeta.
    + destruct (reg s r) as [d|] eqn:Er; [|exact Ws].
      match goal with |- context [map_tree ?a ?b ?c ?c2 ?d ?e ?f ?g] => destruct (map_tree a b c c2 d e f g) as [[h1 x]|] eqn:E end; [|exact Ws].
      cbn. eapply map_tree_wfst; [apply lf_copy_ok|exact Ws|eapply reg_wf; eauto|exact E].
    + destruct (reg s r) as [d|] eqn:Er; [|exact Ws].
      match goal with |- context [map_tree ?a ?b ?c ?c2 ?d ?e ?f ?g] => destruct (map_tree a b c c2 d e f g) as [[h1 x]|] eqn:E end; [|exact Ws].
      cbn. eapply map_tree_wfst; [apply lf_gather_ok|exact Ws|eapply reg_wf; eauto|exact E].
    + destruct (reg s r) as [d|] eqn:Er; [|exact Ws].
      match goal with |- context [map_tree ?a ?b ?c ?c2 ?d ?e ?f ?g] => destruct (map_tree a b c c2 d e f g) as [[h1 x]|] eqn:E end; [|exact Ws].
      cbn. eapply map_tree_wfst; [apply lf_un_ok|exact Ws|eapply reg_wf; eauto|exact E].
    + destruct (reg s r) as [d|] eqn:Er; [|exact Ws]. destruct (reg s src) as [o|] eqn:Eo; [|exact Ws].
      destruct (leaves_of (hp s) d) as [ls|]; [|exact Ws]. destruct (leaves_of (hp s) o) as [lo|]; [|exact Ws].
      destruct (pair_all ls lo); [|exact Ws].
      match goal with |- context [map_tree ?a ?b ?c ?c2 ?d ?e ?f ?g] => destruct (map_tree a b c c2 d e f g) as [[h1 x]|] eqn:E end; [|exact Ws].
      cbn. eapply map_tree_wfst; [apply lf_bin_ok|exact Ws|exact (reg_wf s r d Ws Er)|exact E].
  - (* contiguous *)
    destruct i; cbn in Ec; try discriminate; try (destruct inpl; discriminate); unfold step; cbv zeta.
    destruct (reg s r) as [d|] eqn:Er; [|exact Ws].
    match goal with |- context [map_tree ?a ?b ?c ?c2 ?d ?e ?f ?g] => destruct (map_tree a b c c2 d e f g) as [[h1 x]|] eqn:E end; [|exact Ws].
    cbn. eapply map_tree_wfst; [apply lf_contig_ok|exact Ws|eapply reg_wf; eauto|exact E].
Qed.

Theorem wf_run : forall prog s, wfst s -> wfst (run s prog).
Proof. induction prog as [|i t IH]; intros s W; cbn; auto. apply IH. now apply step_wf. Qed.

Lemma wf_empty : wfst empty_st.
Proof. split; cbn; [|constructor]. intros n nd k x H. destruct n; discriminate. Qed.

Theorem reachable_wf : forall hist, wfst (run empty_st hist).
Proof. intro hist. apply wf_run. apply wf_empty. Qed.
