(* C02 proofs, part 1: list lemmas, well-formed trees, the relation "same tree with the batch prefix bs replaced by bs'",
   and the generic soundness theorem for operations that go through _fast_apply(call_on_nested=True):
   a class K of (call, batch, new batch, tail) that is closed under "the call made on an entry" lifts from the batch
   shape to every entry and every nested node of any well-formed tree (any depth, any width). *)
From Coq Require Import ZArith List Bool Lia ZifyBool String.
Import ListNotations.
From TD Require Import Spec.PySlice Spec.C02_TorchShape Model.C02_ShapeOps.
Open Scope Z_scope.
Ltac Zify.zify_post_hook ::= Z.to_euclidean_division_equations.

(* ------------------------------------------------------------------ lists *)
Lemma prodZ_app a b : prodZ (a ++ b) = prodZ a * prodZ b.
Proof. unfold prodZ. induction a as [|x a IH]; cbn [fold_right app]; [ring|]. rewrite IH. ring. Qed.

Lemma sumZ_app a b : sumZ (a ++ b) = sumZ a + sumZ b.
Proof. unfold sumZ. induction a as [|x a IH]; cbn [fold_right app]; [ring|]. rewrite IH. ring. Qed.

Lemma nthZ_app_l a b i : (i < List.length a)%nat -> nthZ (a ++ b) i = nthZ a i.
Proof. intros H. unfold nthZ. apply app_nth1. exact H. Qed.

Lemma nthZ_app_r a b i : (List.length a <= i)%nat -> nthZ (a ++ b) i = nthZ b (i - List.length a).
Proof. intros H. unfold nthZ. apply app_nth2. lia. Qed.

Lemma firstn_app_l {A} (a b : list A) i : (i <= List.length a)%nat -> firstn i (a ++ b) = firstn i a.
Proof. intros H. rewrite firstn_app. replace (i - List.length a)%nat with 0%nat by lia. cbn. apply app_nil_r. Qed.

Lemma skipn_app_l {A} (a b : list A) i : (i <= List.length a)%nat -> skipn i (a ++ b) = skipn i a ++ b.
Proof. intros H. rewrite skipn_app. replace (i - List.length a)%nat with 0%nat by lia. reflexivity. Qed.

Lemma remove_nth_app_l {A} (a b : list A) i : (i < List.length a)%nat -> remove_nth i (a ++ b) = remove_nth i a ++ b.
Proof. intros H. unfold remove_nth. rewrite firstn_app_l, skipn_app_l by lia. apply app_assoc. Qed.

Lemma insert_nth_app_l {A} (a b : list A) i x : (i <= List.length a)%nat -> insert_nth i x (a ++ b) = insert_nth i x a ++ b.
Proof. intros H. unfold insert_nth. rewrite firstn_app_l, skipn_app_l by lia. rewrite <- app_assoc. reflexivity. Qed.

Lemma set_nth_app_l {A} (a b : list A) i x : (i < List.length a)%nat -> set_nth i x (a ++ b) = set_nth i x a ++ b.
Proof. intros H. unfold set_nth. rewrite firstn_app_l, skipn_app_l by lia. rewrite <- app_assoc. reflexivity. Qed.

Lemma set_nth_length {A} (l : list A) i x : (i < List.length l)%nat -> List.length (set_nth i x l) = List.length l.
Proof. intros H. unfold set_nth. rewrite app_length. cbn [List.length]. rewrite firstn_length, skipn_length. lia. Qed.

Lemma remove_nth_length {A} (l : list A) i : (i < List.length l)%nat -> List.length (remove_nth i l) = (List.length l - 1)%nat.
Proof. intros H. unfold remove_nth. rewrite app_length, firstn_length, skipn_length. lia. Qed.

Lemma insert_nth_length {A} (l : list A) i x : (i <= List.length l)%nat -> List.length (insert_nth i x l) = S (List.length l).
Proof. intros H. unfold insert_nth. rewrite app_length. cbn [List.length]. rewrite firstn_length, skipn_length. lia. Qed.

Lemma list_eqb_refl l : list_eqb l l = true.
Proof. induction l as [|x l IH]; cbn; [reflexivity|]. rewrite Z.eqb_refl. exact IH. Qed.

Lemma list_eqb_eq a b : list_eqb a b = true <-> a = b.
Proof.
  revert b. induction a as [|x a IH]; intros [|y b]; cbn; split; intros H; try congruence; try discriminate.
  - apply andb_true_iff in H. destruct H as [H1 H2]. apply Z.eqb_eq in H1. apply IH in H2. congruence.
  - injection H as -> ->. rewrite Z.eqb_refl. apply IH. reflexivity.
Qed.

Lemma list_eqb_neq a b : list_eqb a b = false -> a <> b.
Proof. intros H E. apply list_eqb_eq in E. congruence. Qed.

Lemma wrap_dim_nat i n : (i < n)%nat -> wrap_dim (Z.of_nat i) n = Ok i.
Proof.
  intros H. unfold wrap_dim.
  destruct ((Z.of_nat i <? - Z.of_nat n) || (Z.of_nat n <=? Z.of_nat i)) eqn:E; [lia|].
  destruct (Z.of_nat i <? 0) eqn:E2; [lia|]. rewrite Nat2Z.id. reflexivity.
Qed.

Lemma wrap_dim_ok d n i : wrap_dim d n = Ok i -> (i < n)%nat /\ Z.of_nat i = (if d <? 0 then d + Z.of_nat n else d).
Proof.
  unfold wrap_dim. destruct ((d <? - Z.of_nat n) || (Z.of_nat n <=? d)) eqn:E; [discriminate|].
  intros H. injection H as <-. destruct (d <? 0) eqn:E2; lia.
Qed.

Lemma wrap_dim_scalar_pos d n : (0 < n)%nat -> wrap_dim_scalar d n = wrap_dim d n.
Proof. intros H. unfold wrap_dim_scalar. replace (Nat.max n 1) with n by lia. reflexivity. Qed.

(* ------------------------------------------------------------------ trees *)
Section tree_ind.
  Variable P : tree -> Prop.
  Hypothesis Hleaf : forall sh, P (Leaf sh).
  Hypothesis Hnode : forall bs nm ents, Forall (fun e => P (snd e)) ents -> P (Node bs nm ents).
  Fixpoint tree_ind' (t : tree) : P t :=
    match t with
    | Leaf sh => Hleaf sh
    | Node bs nm ents =>
        Hnode bs nm ents
          ((fix go (l : list (string * tree)) : Forall (fun e => P (snd e)) l :=
              match l with
              | [] => Forall_nil _
              | e :: r => Forall_cons e (tree_ind' (snd e)) (go r)
              end) ents)
    end.
End tree_ind.

Definition nonneg (s : list Z) : Prop := Forall (fun x => 0 <= x) s.

Definition names_wf (nm : dimnames) (bs : list Z) : Prop :=
  match nm with Some l => List.length l = List.length bs | None => True end.

(* a well-formed tensordict tree (what C01 calls coherent): sizes are non-negative, names (if any) name every batch
   dim, every entry's shape starts with the batch size of the node that holds it *)
Inductive wf : tree -> Prop :=
| wf_leaf sh : nonneg sh -> wf (Leaf sh)
| wf_node bs nm ents :
    nonneg bs -> names_wf nm bs ->
    Forall (fun e => wf (snd e) /\ exists tl, top_shape (snd e) = bs ++ tl) ents ->
    wf (Node bs nm ents).

(* t' is t with the leading [bs] of every shape (entries and nested batch sizes) replaced by [bs'];
   same keys in the same order, feature dims / extra nested batch dims untouched *)
Inductive rel (bs bs' : list Z) : tree -> tree -> Prop :=
| rel_leaf tl : rel bs bs' (Leaf (bs ++ tl)) (Leaf (bs' ++ tl))
| rel_node tl nm nm' ents ents' :
    Forall2 (fun e e' => fst e = fst e' /\ rel bs bs' (snd e) (snd e')) ents ents' ->
    rel bs bs' (Node (bs ++ tl) nm ents) (Node (bs' ++ tl) nm' ents').

Lemma rel_weaken bs bs' tl t t' : rel (bs ++ tl) (bs' ++ tl) t t' -> rel bs bs' t t'.
Proof.
  revert t'. induction t as [sh|b nm ents IH] using tree_ind'; intros t' H; inversion H; subst.
  - rewrite <- !app_assoc. constructor.
  - rewrite <- !app_assoc. constructor.
    match goal with H2 : Forall2 _ ents _ |- _ => rename H2 into HF end.
    clear H. induction HF as [|e e' l l' [Hk Hr] HF IHF]; constructor.
    + split; [exact Hk|]. inversion IH; subst. auto.
    + inversion IH; subst. auto.
Qed.

Lemma rel_refl bs tl t : wf t -> top_shape t = bs ++ tl -> rel bs bs t t.
Proof.
  revert tl. induction t as [sh|b nm ents IH] using tree_ind'; intros tl Hw Ht; cbn in Ht; subst.
  - constructor.
  - constructor. inversion Hw as [|? ? ? _ _ HF]; subst. clear Hw.
    induction ents as [|e l IHl]; constructor.
    + pose proof (Forall_inv HF) as [Hwe [tl2 He]]. pose proof (Forall_inv IH) as IHe.
      split; [reflexivity|]. eapply IHe; [exact Hwe|]. rewrite He, <- app_assoc. reflexivity.
    + apply IHl; [exact (Forall_inv_tail IH)|exact (Forall_inv_tail HF)].
Qed.

Lemma rel_top bs bs' t t' : rel bs bs' t t' -> exists tl, top_shape t = bs ++ tl /\ top_shape t' = bs' ++ tl.
Proof. intros H. inversion H; subst; eexists; split; reflexivity. Qed.

(* same keys, in the same order, at every level *)
Inductive same_keys : tree -> tree -> Prop :=
| sk_leaf a b : same_keys (Leaf a) (Leaf b)
| sk_node b nm ents b' nm' ents' :
    Forall2 (fun e e' => fst e = fst e' /\ same_keys (snd e) (snd e')) ents ents' ->
    same_keys (Node b nm ents) (Node b' nm' ents').

Lemma rel_same_keys bs bs' t t' : rel bs bs' t t' -> same_keys t t'.
Proof.
  revert t'. induction t as [sh|b nm ents IH] using tree_ind'; intros t' H; inversion H; subst; constructor.
  match goal with H2 : Forall2 _ ents _ |- _ => rename H2 into HF end.
  clear H. induction HF as [|e e' l l' [Hk Hr] HF IHF]; constructor.
  - split; [exact Hk|]. inversion IH; subst. auto.
  - inversion IH; subst. auto.
Qed.

(* ------------------------------------------------------------------ the generic lifting theorem *)
Section lifting.
  (* K o bs bs' tl : "o is the call made on an object of shape bs ++ tl, and it turns the leading bs into bs'" *)
  Variable K : sop -> list Z -> list Z -> list Z -> Prop.

  Definition K_nonneg : Prop := forall o bs bs' tl, K o bs bs' tl -> nonneg bs -> nonneg bs'.

  (* on a tensor: torch accepts and keeps the tail *)
  Definition K_leaf : Prop :=
    forall o bs bs' tl, K o bs bs' tl -> nonneg (bs ++ tl) -> leaf_op o (bs ++ tl) = Done (bs' ++ tl).

  (* on a (nested) tensordict of batch size bs ++ tl: either the method returns self (then nothing changes), or it
     computes the batch size bs' ++ tl, well-formed names, and makes, on every entry of shape bs ++ tl ++ tl2, a call
     that is again in K; the names check that unflatten runs afterwards passes *)
  Definition K_node : Prop :=
    forall o bs bs' tl nm, K o bs bs' tl -> nonneg (bs ++ tl) -> names_wf nm (bs ++ tl) ->
      (node_step o (bs ++ tl) nm = Done SSelf /\ bs' = bs) \/
      (exists nm' child,
         node_step o (bs ++ tl) nm = Done (SStep (bs' ++ tl) nm' child) /\
         (forall tl2, nonneg tl2 -> K (child (bs ++ tl ++ tl2)) (bs ++ tl) (bs' ++ tl) tl2) /\
         (forall ents', exists nm'', unflatten_names_check o (Node (bs' ++ tl) nm' ents') = Done (Node (bs' ++ tl) nm'' ents')
                                     /\ names_wf nm'' (bs' ++ tl))).

  Hypothesis HP : K_nonneg.
  Hypothesis HL : K_leaf.
  Hypothesis HN : K_node.

  Lemma nonneg_app a b : nonneg (a ++ b) <-> nonneg a /\ nonneg b.
  Proof. unfold nonneg. apply Forall_app. Qed.

  Theorem apply_lifts : forall t o bs bs' tl,
    K o bs bs' tl -> wf t -> top_shape t = bs ++ tl ->
    exists t', apply t o = Done t' /\ rel bs bs' t t' /\ wf t'.
  Proof.
    induction t as [sh|b nm ents IH] using tree_ind'; intros o bs bs' tl HK Hw Ht; cbn in Ht; subst.
    - inversion Hw as [? Hn|]; subst. cbn [apply]. rewrite (HL _ _ _ _ HK) by assumption. cbn [bindo].
      eexists; split; [reflexivity|split; [constructor|]]. constructor.
      apply nonneg_app in Hn. apply nonneg_app. split; [eapply HP; [exact HK|tauto]|tauto].
    - inversion Hw as [|? ? ? Hnn Hnm HF]; subst. cbn [apply].
      destruct (HN _ _ _ _ nm HK Hnn Hnm) as [[Hs Heq]|(nm' & child & Hs & Hc & Hu)].
      + rewrite Hs. cbn [bindo]. subst. eexists; split; [reflexivity|]. split; [|exact Hw].
        eapply rel_refl; [exact Hw|reflexivity].
      + rewrite Hs. cbn [bindo].
        assert (Hents : exists ents',
          (fix go (l : list (string * tree)) : out (list (string * tree)) :=
             match l with
             | [] => Done []
             | (k, c) :: r => let* c' := apply c (child (top_shape c)) in let* r' := go r in Done ((k, c') :: r')
             end) ents = Done ents' /\
          Forall2 (fun e e' => fst e = fst e' /\ rel bs bs' (snd e) (snd e')) ents ents' /\
          Forall (fun e => wf (snd e) /\ exists tl2, top_shape (snd e) = (bs' ++ tl) ++ tl2) ents').
        { clear Hs Hw Hu. induction ents as [|[k c] l IHl].
          - exists []. split; [reflexivity|split; constructor].
          - pose proof (Forall_inv IH) as IHc. pose proof (Forall_inv_tail IH) as IHr.
            pose proof (Forall_inv HF) as [Hwc [tl2 Hcs]]. pose proof (Forall_inv_tail HF) as HFr. cbn [snd] in *.
            assert (Hnn2 : nonneg tl2).
            { assert (Hn : nonneg (top_shape c)) by (inversion Hwc; subst; assumption).
              rewrite Hcs in Hn. apply nonneg_app in Hn. tauto. }
            destruct (IHc (child (top_shape c)) (bs ++ tl) (bs' ++ tl) tl2) as [c' [Hc' [Hr' Hwc']]].
            { rewrite Hcs, <- app_assoc. apply Hc. exact Hnn2. }
            { exact Hwc. } { exact Hcs. }
            destruct (IHl IHr HFr) as [l' [Hl' [HF2 HF3]]].
            exists ((k, c') :: l'). rewrite Hc'. cbn [bindo]. rewrite Hl'. cbn [bindo]. split; [reflexivity|]. split.
            + constructor; [|exact HF2]. split; [reflexivity|]. cbn [snd]. eapply rel_weaken. exact Hr'.
            + constructor; [|exact HF3]. cbn [snd]. split; [exact Hwc'|].
              destruct (rel_top _ _ _ _ Hr') as [tl3 [E1 E2]]. exists tl3. exact E2. }
        destruct Hents as [ents' [He [HF2 HF3]]]. rewrite He. cbn [bindo].
        destruct (Hu ents') as [nm'' [Hu' Hnw]]. rewrite Hu'. eexists; split; [reflexivity|]. split.
        * constructor. exact HF2.
        * constructor; [|exact Hnw|exact HF3].
          apply nonneg_app in Hnn. apply nonneg_app. split; [eapply HP; [exact HK|tauto]|tauto].
  Qed.
End lifting.

(* ------------------------------------------------------------------ a boolean twin of wf (used for examples and by the harness-side evidence) *)
Fixpoint prefixb (a b : list Z) : bool :=
  match a, b with
  | [], _ => true
  | x :: a', y :: b' => (x =? y) && prefixb a' b'
  | _, [] => false
  end.

Lemma prefixb_spec a b : prefixb a b = true -> exists tl, b = a ++ tl.
Proof.
  revert b. induction a as [|x a IH]; intros b H; [exists b; reflexivity|].
  destruct b as [|y b]; [discriminate|]. cbn in H. apply andb_true_iff in H. destruct H as [H1 H2].
  apply Z.eqb_eq in H1. subst. destruct (IH _ H2) as [tl ->]. exists tl. reflexivity.
Qed.

Fixpoint wfb (t : tree) : bool :=
  match t with
  | Leaf sh => forallb (fun x => 0 <=? x) sh
  | Node bs nm ents =>
      forallb (fun x => 0 <=? x) bs &&
      (match nm with Some l => Nat.eqb (List.length l) (List.length bs) | None => true end) &&
      (fix go (l : list (string * tree)) : bool :=
         match l with [] => true | (_, c) :: r => wfb c && prefixb bs (top_shape c) && go r end) ents
  end.

Lemma forallb_nonneg' l : forallb (fun x => 0 <=? x) l = true -> nonneg l.
Proof. unfold nonneg. rewrite forallb_forall, Forall_forall. intros H x Hx. specialize (H x Hx). lia. Qed.

Lemma wfb_wf t : wfb t = true -> wf t.
Proof.
  induction t as [sh|bs nm ents IH] using tree_ind'; cbn [wfb]; intros H.
  - constructor. apply forallb_nonneg'. exact H.
  - apply andb_true_iff in H. destruct H as [H H3]. apply andb_true_iff in H. destruct H as [H1 H2].
    constructor.
    + apply forallb_nonneg'. exact H1.
    + destruct nm as [l|]; [apply Nat.eqb_eq in H2; exact H2|exact I].
    + clear H1 H2. induction ents as [|[k c] l IHl]; constructor.
      * apply andb_true_iff in H3. destruct H3 as [H3 _]. apply andb_true_iff in H3. destruct H3 as [Hc Hp].
        cbn [snd]. split; [apply (Forall_inv IH); exact Hc|]. apply prefixb_spec. exact Hp.
      * apply andb_true_iff in H3. destruct H3 as [_ H3]. apply IHl; [exact (Forall_inv_tail IH)|exact H3].
Qed.
