(* C09 — _cast_reduction: batch size / names / per-leaf dims against torch's reduction of the proxy shape *)
From Coq Require Import ZArith List String Bool Lia Arith ZifyBool.
Import ListNotations.
From TD Require Import Model.Dual Model.C09_Align Model.C09_Shape Model.C09_Reduce Spec.C09_TorchReduce Proofs.C09_AlignP.
Ltac Zify.zify_post_hook ::= Z.to_euclidean_division_equations.

(* ---------- the two list comprehensions are torch's reduction ---------- *)
Lemma filter_idx_reduce {A} (dims : list nat) : forall (l : list A) i,
  filter_idx_from (fun j => negb (nat_in j dims)) i l = reduce_from None i l dims.
Proof.
  induction l as [|x l IH]; intros i; cbn; [reflexivity|]. unfold nat_in at 1.
  destruct (existsb (Nat.eqb i) dims); cbn; now rewrite IH.
Qed.
Lemma map_idx_reduce (dims : list nat) : forall (l : list nat) i,
  map_idx_from (fun j b => if nat_in j dims then 1 else b) i l = reduce_from (Some 1) i l dims.
Proof.
  induction l as [|x l IH]; intros i; cbn; [reflexivity|]. unfold nat_in at 1.
  destruct (existsb (Nat.eqb i) dims); cbn; now rewrite IH.
Qed.

Lemma filter_idx_from_ext {A} (f g : nat -> bool) : forall (l : list A) i,
  (forall j, f j = g j) -> filter_idx_from f i l = filter_idx_from g i l.
Proof. induction l as [|x l IH]; intros i H; cbn; [reflexivity|]. rewrite H, (IH (S i) H). reflexivity. Qed.

Lemma correct_neg_dim_norm d n : correct_neg_dim d n = norm_dim n d.
Proof.
  unfold correct_neg_dim, norm_dim. cbv zeta.
  destruct (d <? 0)%Z eqn:E1.
  - destruct ((Z.of_nat n + d <? 0) || (Z.of_nat n + d >=? Z.of_nat n))%Z eqn:E3;
      destruct ((- Z.of_nat n <=? d) && (d <? Z.of_nat n))%Z eqn:E2; try reflexivity; try lia.
    f_equal. f_equal. apply (Z.mod_unique d (Z.of_nat n) (-1)); lia.
  - destruct ((d <? 0) || (d >=? Z.of_nat n))%Z eqn:E3;
      destruct ((- Z.of_nat n <=? d) && (d <? Z.of_nat n))%Z eqn:E2; try reflexivity; try lia.
    f_equal. f_equal. symmetry. apply Z.mod_small. lia.
Qed.

Lemma sequence_map_ext {A B} (f g : A -> option B) l : (forall x, f x = g x) -> sequence (map f l) = sequence (map g l).
Proof. intros H. f_equal. apply map_ext. exact H. Qed.

(* ========== tuple_ok reductions (sum, nansum, mean, nanmean, std, var): int or tuple of ints ========== *)
Definition user_dims (dim : dimarg) : option (list Z) :=
  match dim with DimInt z => Some [z] | DimTuple l => Some l | _ => None end.

Theorem cast_reduction_tuple fx (bs : shape) (names : names_t) dim kd con zs nd :
  user_dims dim = Some zs ->
  sequence (map (norm_dim (List.length bs)) zs) = Some nd ->
  cast_reduction fx bs names dim kd true con None
  = Ok {| ro_bs := torch_reduce bs nd (kd_truthy kd);
          ro_names := option_map (fun ns => torch_reduce_names ns nd (kd_truthy kd)) names;
          ro_call := LcDim (PTuple nd) kd; ro_post := PostNone |}.
Proof.
  intros Hu Hs. unfold cast_reduction.
  assert (Hp : proc_dim dim (List.length bs) true = Ok (PTuple nd)).
  { destruct dim; cbn in Hu; try discriminate; injection Hu as <-; cbn.
    - cbn in Hs. rewrite correct_neg_dim_norm. destruct (norm_dim (List.length bs) z); cbn in Hs; [|discriminate].
      now injection Hs as <-.
    - rewrite (sequence_map_ext _ (norm_dim (List.length bs))) by (intros; apply correct_neg_dim_norm). now rewrite Hs. }
  rewrite Hp. cbn [orb]. unfold torch_reduce, torch_reduce_names.
  assert (Hall : forall (A : Type) (l : list A), filter_idx (idx_neq_dim (PTuple nd)) l = l).
  { intros A l. unfold filter_idx, idx_neq_dim. generalize 0. induction l as [|x l IH]; intros i; cbn; [reflexivity|]. now rewrite IH. }
  destruct (kd_truthy kd) eqn:K; cbn [negb andb].
  - f_equal. f_equal.
    + apply map_idx_reduce.
    + destruct names; [|now destruct fx]. destruct fx; cbn [option_map]; [reflexivity|]. now rewrite Hall.
  - f_equal. f_equal.
    + apply filter_idx_reduce.
    + destruct names; [|now destruct fx]. destruct fx; cbn [option_map]; f_equal; apply filter_idx_reduce.
Qed.

Theorem cast_reduction_tuple_out_of_range fx (bs : shape) names dim kd con zs :
  user_dims dim = Some zs ->
  sequence (map (norm_dim (List.length bs)) zs) = None ->
  cast_reduction fx bs names dim kd true con None = Raised.
Proof.
  intros Hu Hs. unfold cast_reduction.
  assert (Hp : proc_dim dim (List.length bs) true = Raised).
  { destruct dim; cbn in Hu; try discriminate; injection Hu as <-; cbn.
    - cbn in Hs. rewrite correct_neg_dim_norm. destruct (norm_dim (List.length bs) z); cbn in Hs; [discriminate|reflexivity].
    - rewrite (sequence_map_ext _ (norm_dim (List.length bs))) by (intros; apply correct_neg_dim_norm). now rewrite Hs. }
  now rewrite Hp.
Qed.

(* ---------- every leaf of the result starts with the result batch size ---------- *)
Lemma reduce_from_app {A} (one : option A) dims : forall (l r : list A) i,
  (forall d, In d dims -> d < i + List.length l) ->
  reduce_from one i (l ++ r) dims = reduce_from one i l dims ++ r.
Proof.
  induction l as [|x l IH]; intros r i H; cbn.
  - revert i H. induction r as [|y r IHr]; intros i H; cbn; [reflexivity|].
    replace (existsb (Nat.eqb i) dims) with false.
    + f_equal. apply IHr. intros d Hd. specialize (H d Hd). cbn in H. lia.
    + symmetry. apply not_true_is_false. intros C. apply existsb_exists in C. destruct C as [d [Hd E]].
      apply Nat.eqb_eq in E. subst. specialize (H d Hd). cbn in H. lia.
  - assert (Hr : reduce_from one (S i) (l ++ r) dims = reduce_from one (S i) l dims ++ r).
    { apply IH. intros d Hd. specialize (H d Hd). cbn in H. lia. }
    rewrite Hr. destruct (existsb (Nat.eqb i) dims); [destruct one|]; reflexivity.
Qed.

Theorem leaf_shape_coherent (bs feat : shape) nd kd :
  (forall d, In d nd -> d < List.length bs) ->
  torch_reduce (bs ++ feat) nd kd = torch_reduce bs nd kd ++ feat.
Proof. intros H. unfold torch_reduce. apply reduce_from_app. intros d Hd. cbn. now apply H. Qed.

Lemma norm_dim_lt n d r : norm_dim n d = Some r -> r < n.
Proof.
  unfold norm_dim. destruct ((- Z.of_nat n <=? d) && (d <? Z.of_nat n))%Z eqn:E; [|discriminate].
  intros [= <-]. apply Nat2Z.inj_lt. rewrite Z2Nat.id by lia. lia.
Qed.
Lemma normalised_in_range n zs nd : sequence (map (norm_dim n) zs) = Some nd -> forall d, In d nd -> d < n.
Proof.
  revert nd. induction zs as [|z zs IH]; intros nd; cbn; [intros [= <-] d []|].
  destruct (norm_dim n z) eqn:E; [|discriminate]. destruct (sequence (map (norm_dim n) zs)) eqn:E2; cbn; [|discriminate].
  intros [= <-] d [<-|Hd]; [now apply norm_dim_lt in E|now apply (IH l)].
Qed.

(* names and batch size have the same number of entries *)
Lemma reduce_from_length {A B} (oa : option A) (ob : option B) dims : forall (l : list A) (m : list B) i,
  List.length l = List.length m -> (oa = None <-> ob = None) ->
  List.length (reduce_from oa i l dims) = List.length (reduce_from ob i m dims).
Proof.
  induction l as [|x l IH]; intros [|y m] i Hl Ho; cbn in *; try discriminate; [reflexivity|].
  assert (R := IH m (S i) ltac:(lia) Ho).
  destruct (existsb (Nat.eqb i) dims); [|cbn; lia].
  destruct oa, ob; cbn; try lia; exfalso; destruct Ho as [H1 H2]; try (specialize (H1 eq_refl)); try (specialize (H2 eq_refl)); discriminate.
Qed.

Theorem names_match_batch {N} (bs : shape) (ns : list N) nd kd :
  List.length ns = List.length bs ->
  List.length (torch_reduce_names ns nd kd) = List.length (torch_reduce bs nd kd).
Proof.
  intros H. unfold torch_reduce_names, torch_reduce. destruct kd.
  - assert (G : forall (l : list nat) i, List.length (reduce_from (Some 1) i l nd) = List.length l).
    { induction l as [|b l IH]; intros i; cbn; [reflexivity|]. destruct (existsb (Nat.eqb i) nd); cbn; now rewrite IH. }
    now rewrite G.
  - apply reduce_from_length; [exact H|tauto].
Qed.

(* ========== single-dim reductions (amin, amax, min, max; prod before its keepdim step): keepdim = False ========== *)
Theorem cast_reduction_single fx (bs : shape) (names : names_t) z d con :
  norm_dim (List.length bs) z = Some d ->
  cast_reduction fx bs names (DimInt z) KdFalse false con None
  = Ok {| ro_bs := torch_reduce bs [d] false;
          ro_names := option_map (fun ns => torch_reduce_names ns [d] false) names;
          ro_call := LcDim (PInt (Z.of_nat d)) KdFalse; ro_post := PostNone |}.
Proof.
  intros H. unfold cast_reduction. cbn [proc_dim]. rewrite correct_neg_dim_norm, H. cbn [orb kd_truthy negb andb].
  assert (E : forall i, Z.eqb (Z.of_nat i) (Z.of_nat d) = nat_in i [d]).
  { intros i. unfold nat_in. cbn. rewrite orb_false_r. destruct (Nat.eqb_spec i d) as [->|N]; [apply Z.eqb_refl|].
    apply Z.eqb_neq. lia. }
  f_equal. f_equal.
  - unfold torch_reduce. rewrite <- filter_idx_reduce. unfold filter_idx. apply filter_idx_from_ext. intros j. now rewrite E.
  - destruct names; [|now destruct fx]. destruct fx; cbn [option_map]; f_equal; unfold torch_reduce_names; rewrite <- filter_idx_reduce;
      unfold filter_idx, idx_neq_dim; apply filter_idx_from_ext; intros j; now rewrite E.
Qed.

(* ========== refutations (witnesses by computation) ========== *)
Local Open Scope string_scope.

(* D43: keepdim=True on a single-dim reduction keeps the batch dim but drops its name *)
Theorem names_keepdim_refuted :
  exists bs ns r, List.length ns = List.length bs /\
    front false RSingle bs (Some ns) (DimInt 0) KdTrue = Ok r /\
    ro_bs r = torch_reduce bs [0] true /\
    option_map (@List.length _) (ro_names r) <> Some (List.length (ro_bs r)).
Proof.
  exists [2; 3], [Some "p"; Some "q"]. eexists. split; [reflexivity|]. split; [reflexivity|]. split; [reflexivity|].
  cbn. discriminate.
Qed.

(* D43: cumulative ops keep the batch size and drop a name *)
Theorem names_cumulative_refuted :
  exists bs ns r, front false RCum bs (Some ns) (DimInt 0) KdNoDefault = Ok r /\ ro_bs r = bs /\
    option_map (@List.length _) (ro_names r) <> Some (List.length (ro_bs r)).
Proof. exists [2; 3], [Some "p"; Some "q"]. eexists. split; [reflexivity|]. split; [reflexivity|]. cbn. discriminate. Qed.

(* D44: dim=None : batch size [1]*n where torch reduces to a 0-d tensor *)
Theorem dim_none_refuted :
  exists bs r, front false RTuple bs None DimNone KdNoDefault = Ok r /\
    ro_bs r <> torch_reduce bs (seq 0 (List.length bs)) false.
Proof. exists [2; 3]. eexists. split; [reflexivity|]. cbn. discriminate. Qed.

(* D45: a tuple of dims on amin/amax reduces the first member only *)
Theorem tuple_single_refuted :
  exists bs r, front false RSingle bs None (DimTuple [0; 1]%Z) KdNoDefault = Ok r /\ ro_bs r <> torch_reduce bs [0; 1] false.
Proof. exists [2; 3]. eexists. split; [reflexivity|]. cbn. discriminate. Qed.

(* D46: prod(dim=0, keepdim=True) *)
Theorem prod_keepdim_dim0_refuted :
  exists bs, front false RProd bs None (DimInt 0) KdTrue = Raised /\ norm_dim (List.length bs) 0 = Some 0.
Proof. exists [2; 3]. split; reflexivity. Qed.

(* ========== prod(dim, keepdim=True): unsqueeze of the reduced result restores the dim, except for dim = 0 ========== *)
Lemma reduce_from_past {A} (one : option A) k : forall (l : list A) j, k < j -> reduce_from one j l [k] = l.
Proof.
  induction l as [|x l IH]; intros j H; cbn; [reflexivity|].
  replace (Nat.eqb j k) with false by (symmetry; apply Nat.eqb_neq; lia). cbn. now rewrite IH by lia.
Qed.

Lemma insert_restores : forall (l : list nat) i d, d < List.length l ->
  insert_at d 1 (reduce_from None i l [i + d]) = reduce_from (Some 1) i l [i + d].
Proof.
  induction l as [|x l IH]; intros i d H; cbn in H; [lia|]. destruct d as [|d].
  - rewrite Nat.add_0_r. cbn. rewrite Nat.eqb_refl. cbn. now rewrite !reduce_from_past by lia.
  - cbn. replace (Nat.eqb i (i + S d)) with false by (symmetry; apply Nat.eqb_neq; lia). cbn.
    replace (i + S d) with (S i + d) by lia. f_equal. apply IH. lia.
Qed.

Lemma reduce_none_length : forall (l : list nat) i d, d < List.length l ->
  List.length (reduce_from None i l [i + d]) = List.length l - 1.
Proof.
  induction l as [|x l IH]; intros i d H; cbn in H; [lia|]. destruct d as [|d].
  - rewrite Nat.add_0_r. cbn. rewrite Nat.eqb_refl. cbn. rewrite reduce_from_past by lia. lia.
  - cbn. replace (Nat.eqb i (i + S d)) with false by (symmetry; apply Nat.eqb_neq; lia). cbn.
    replace (i + S d) with (S i + d) by lia. rewrite IH by lia. lia.
Qed.

Theorem prod_keepdim_nonzero fx (bs : shape) z d :
  norm_dim (List.length bs) z = Some d -> (fx = true \/ z <> 0%Z) ->
  exists r, front fx RProd bs None (DimInt z) KdTrue = Ok r /\ ro_bs r = torch_reduce bs [d] true /\
            ro_call r = LcDim (PInt (Z.of_nat d)) KdFalse /\ ro_post r = PostUnsqueeze d.
Proof.
  intros Hn Hz. unfold front. rewrite (cast_reduction_single fx bs None z d true Hn). cbn [kd_truthy option_map].
  replace (negb fx && Z.eqb z 0) with false
    by (symmetry; destruct Hz as [->|Hz]; [reflexivity|apply andb_false_iff; right; now apply Z.eqb_neq]).
  pose proof (norm_dim_lt _ _ _ Hn) as Hd.
  unfold td_unsqueeze. cbn [ro_bs ro_names ro_call].
  unfold torch_reduce.
  assert (Hl : List.length (reduce_from None 0 bs [d]) = List.length bs - 1) by (apply (reduce_none_length bs 0 d Hd)).
  rewrite Hl.
  assert (Hnd : (if (z <? 0)%Z then (Z.of_nat (List.length bs - 1) + z + 1)%Z else z) = Z.of_nat d).
  { unfold norm_dim in Hn. destruct ((- Z.of_nat (List.length bs) <=? z) && (z <? Z.of_nat (List.length bs)))%Z eqn:E; [|discriminate].
    injection Hn as Hn. destruct (z <? 0)%Z eqn:E1.
    - assert (z mod Z.of_nat (List.length bs) = Z.of_nat (List.length bs) + z)%Z.
      { symmetry. apply (Z.mod_unique z (Z.of_nat (List.length bs)) (-1)); lia. }
      lia.
    - rewrite Z.mod_small in Hn by lia. lia. }
  rewrite Hnd.
  replace ((Z.of_nat d >? Z.of_nat (List.length bs - 1)) || (Z.of_nat d <? 0))%Z with false by lia.
  rewrite Nat2Z.id. eexists. split; [reflexivity|]. cbn [ro_bs ro_call ro_post]. split; [|split; reflexivity].
  apply (insert_restores bs 0 d Hd).
Qed.

(* ========== the patched reductions (fx = true): what was refuted above now holds ========== *)

Lemma map_idx_from_ext {A B} (f g : nat -> A -> B) : forall (l : list A) i,
  (forall j x, f j x = g j x) -> map_idx_from f i l = map_idx_from g i l.
Proof. induction l as [|x l IH]; intros i H; cbn; [reflexivity|]. now rewrite H, (IH (S i) H). Qed.

(* D43: a kept dim keeps its name — single-dim reductions with keepdim=True *)
Theorem cast_reduction_single_keepdim (bs : shape) (names : names_t) z d con :
  norm_dim (List.length bs) z = Some d ->
  cast_reduction true bs names (DimInt z) KdTrue false con None
  = Ok {| ro_bs := torch_reduce bs [d] true;
          ro_names := option_map (fun ns => torch_reduce_names ns [d] true) names;
          ro_call := LcDim (PInt (Z.of_nat d)) KdTrue; ro_post := PostNone |}.
Proof.
  intros H. unfold cast_reduction. cbn [proc_dim]. rewrite correct_neg_dim_norm, H. cbn [orb kd_truthy negb andb].
  assert (E : forall i, Z.eqb (Z.of_nat i) (Z.of_nat d) = nat_in i [d]).
  { intros i. unfold nat_in. cbn. rewrite orb_false_r. destruct (Nat.eqb_spec i d) as [->|N]; [apply Z.eqb_refl|].
    apply Z.eqb_neq. lia. }
  f_equal. f_equal.
  all: try (now destruct names).
  unfold torch_reduce. rewrite <- map_idx_reduce. apply map_idx_from_ext. intros j x. now rewrite E.
Qed.

(* D43: cumulative ops keep batch size and names *)
Theorem front_cumulative (bs : shape) (names : names_t) z d kd :
  norm_dim (List.length bs) z = Some d ->
  front true RCum bs names (DimInt z) kd
  = Ok {| ro_bs := bs; ro_names := names; ro_call := LcDim (PInt (Z.of_nat d)) KdNoDefault; ro_post := PostNone |}.
Proof.
  intros H. unfold front, cast_reduction. cbn [proc_dim]. rewrite correct_neg_dim_norm, H. cbn. now destruct names.
Qed.

(* D44: dim=None reduces every dim *)
Lemma reduce_all_none {A} : forall (l : list A) i k, reduce_from None (i + k) l (seq i (k + List.length l)) = [].
Proof.
  induction l as [|x l IH]; intros i k; cbn; [reflexivity|].
  replace (existsb (Nat.eqb (i + k)) (seq i (k + S (List.length l)))) with true.
  - replace (S (i + k)) with (i + S k) by lia. replace (k + S (List.length l)) with (S k + List.length l) by lia. apply IH.
  - symmetry. apply existsb_exists. exists (i + k). split; [apply in_seq; lia|apply Nat.eqb_refl].
Qed.
Lemma reduce_all_ones : forall (l : list nat) i k,
  reduce_from (Some 1) (i + k) l (seq i (k + List.length l)) = map (fun _ => 1) l.
Proof.
  induction l as [|x l IH]; intros i k; cbn; [reflexivity|].
  replace (existsb (Nat.eqb (i + k)) (seq i (k + S (List.length l)))) with true.
  - f_equal. replace (S (i + k)) with (i + S k) by lia. replace (k + S (List.length l)) with (S k + List.length l) by lia. apply IH.
  - symmetry. apply existsb_exists. exists (i + k). split; [apply in_seq; lia|apply Nat.eqb_refl].
Qed.

Theorem front_dim_none (bs : shape) (names : names_t) kd :
  exists r, front true RTuple bs names DimNone kd = Ok r /\
    ro_bs r = torch_reduce bs (seq 0 (List.length bs)) (kd_truthy kd) /\
    ro_names r = (if kd_truthy kd then names else None) /\ ro_call r = LcDim PNone kd.
Proof.
  unfold front, cast_reduction. cbn [proc_dim orb]. eexists. split; [reflexivity|]. cbn [ro_bs ro_names ro_call].
  split; [|split; [|reflexivity]].
  - unfold torch_reduce. destruct (kd_truthy kd); cbn [andb negb].
    + symmetry. apply (reduce_all_ones bs 0 0).
    + symmetry. apply (reduce_all_none bs 0 0).
  - destruct names; destruct (kd_truthy kd); reflexivity.
Qed.

(* D45: amin / amax take tuples like the other tuple reductions *)
Theorem front_aminmax (bs : shape) (names : names_t) dim kd zs nd :
  user_dims dim = Some zs -> sequence (map (norm_dim (List.length bs)) zs) = Some nd ->
  let kd' := match kd with KdNoDefault => KdFalse | k => k end in
  front true RAminmax bs names dim kd
  = Ok {| ro_bs := torch_reduce bs nd (kd_truthy kd);
          ro_names := option_map (fun ns => torch_reduce_names ns nd (kd_truthy kd)) names;
          ro_call := LcDim (PTuple nd) kd'; ro_post := PostNone |}.
Proof.
  intros Hu Hs kd'. unfold front. fold kd'. rewrite (cast_reduction_tuple true bs names dim kd' false zs nd Hu Hs).
  now destruct kd.
Qed.

(* D46: prod(dim, keepdim=True) for every in-range dim, 0 included *)
Theorem prod_keepdim (bs : shape) z d :
  norm_dim (List.length bs) z = Some d ->
  exists r, front true RProd bs None (DimInt z) KdTrue = Ok r /\ ro_bs r = torch_reduce bs [d] true /\
            ro_call r = LcDim (PInt (Z.of_nat d)) KdFalse /\ ro_post r = PostUnsqueeze d.
Proof. intros H. apply prod_keepdim_nonzero; [exact H|now left]. Qed.

(* D43 + D47, every front-end, every argument: the result never has a different number of names and batch dims *)
Lemma filter_idx_from_len {A B} (keep : nat -> bool) : forall (l : list A) (m : list B) i,
  List.length l = List.length m -> List.length (filter_idx_from keep i l) = List.length (filter_idx_from keep i m).
Proof.
  induction l as [|x l IH]; intros [|y m] i H; cbn in *; try discriminate; [reflexivity|].
  destruct (keep i); cbn; rewrite (IH m (S i)); lia.
Qed.
Lemma map_idx_from_len {A B} (f : nat -> A -> B) : forall (l : list A) i, List.length (map_idx_from f i l) = List.length l.
Proof. induction l as [|x l IH]; intros i; cbn; [reflexivity|]. now rewrite IH. Qed.
Lemma insert_at_len {A} (x : A) : forall n l, List.length (insert_at n x l) = S (List.length l).
Proof. induction n as [|n IH]; intros [|y l]; cbn; try reflexivity. now rewrite IH. Qed.

Definition names_ok (r : red_out) : Prop := forall ns', ro_names r = Some ns' -> List.length ns' = List.length (ro_bs r).

Lemma cast_reduction_names_ok (bs : shape) ns dim kd tok con ov r :
  List.length ns = List.length bs -> (forall b, ov = Some b -> List.length b = List.length bs) ->
  cast_reduction true bs (Some ns) dim kd tok con ov = Ok r -> names_ok r.
Proof.
  intros Hl Hov. unfold cast_reduction. destruct (proc_dim dim (List.length bs) tok) as [d|]; [|discriminate].
  destruct d.
  - (* PNoDefault *) cbn [orb]. destruct (kd_truthy kd) eqn:K; cbn [negb andb].
    + intros [= <-]. intros ns' [= <-]. cbn. destruct ov as [b|]; [now rewrite (Hov b eq_refl)|]. now rewrite map_length.
    + intros [= <-]. intros ns' H. discriminate.
  - (* PNone *) cbn [orb]. intros [= <-]. intros ns'. cbn.
    destruct (kd_truthy kd); destruct ov as [b|]; cbn; try discriminate; intros [= <-];
      try (now rewrite (Hov b eq_refl)); now rewrite map_length.
  - (* PInt *) cbn [orb]. intros [= <-]. intros ns'. cbn.
    destruct (kd_truthy kd); destruct ov as [b|]; cbn; intros [= <-]; try (now rewrite (Hov b eq_refl)).
    + now rewrite map_idx_from_len.
    + unfold filter_idx. apply filter_idx_from_len. exact Hl.
  - (* PTuple *) cbn [orb]. intros [= <-]. intros ns'. cbn.
    destruct (kd_truthy kd); destruct ov as [b|]; cbn; intros [= <-]; try (now rewrite (Hov b eq_refl)).
    + now rewrite map_idx_from_len.
    + unfold filter_idx. apply filter_idx_from_len. exact Hl.
  - (* PFeature *) destruct (kd_truthy kd); [discriminate|]. destruct (negb con); [discriminate|].
    intros [= <-]. intros ns' [= <-]. exact Hl.
Qed.

Theorem front_names_ok op (bs : shape) ns dim kd r :
  List.length ns = List.length bs -> front true op bs (Some ns) dim kd = Ok r -> names_ok r.
Proof.
  intros Hl. destruct op; cbn [front].
  - apply cast_reduction_names_ok; [exact Hl|discriminate].
  - apply cast_reduction_names_ok; [exact Hl|discriminate].
  - apply cast_reduction_names_ok; [exact Hl|discriminate].
  - apply cast_reduction_names_ok; [exact Hl|]. now intros b [= <-].
  - destruct (cast_reduction true bs (Some ns) dim KdFalse false true None) as [r0|] eqn:E; [|discriminate].
    pose proof (cast_reduction_names_ok bs ns dim KdFalse false true None r0 Hl ltac:(discriminate) E) as H0.
    destruct (kd_truthy kd); [|now intros [= <-]].
    assert (Hre : forall r1, (if Nat.eqb (fold_right Nat.mul 1 (ro_bs r0)) 1
                              then Ok {| ro_bs := map (fun _ => 1) bs; ro_names := None; ro_call := ro_call r0; ro_post := PostReshapeOnes |}
                              else Raised) = Ok r1 -> names_ok r1).
    { intros r1. destruct (Nat.eqb _ 1); [|discriminate]. intros [= <-]. intros ns' H. discriminate. }
    assert (Hun : forall z r1, match td_unsqueeze true (ro_bs r0) (ro_names r0) z with
                               | Ok (b, n, pos) => Ok {| ro_bs := b; ro_names := n; ro_call := ro_call r0; ro_post := PostUnsqueeze pos |}
                               | Raised => Raised end = Ok r1 -> names_ok r1).
    { intros z r1. unfold td_unsqueeze. destruct (_ || _)%bool; [discriminate|]. intros [= <-]. intros ns'. cbn.
      destruct (ro_names r0) as [[|x l]|] eqn:En; intros [= <-]; rewrite !insert_at_len; f_equal; symmetry.
      - rewrite <- (H0 [] En). reflexivity.
      - rewrite <- (H0 (x :: l) En). reflexivity. }
    destruct dim as [| |z|[|z l]|]; cbn [negb andb]; try (apply Hre); try discriminate; try (apply Hun).
Qed.
