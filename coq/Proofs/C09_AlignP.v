(* C09 — proofs about the pairing model (Model/C09_Align.v) against Spec/C09_KeyWise.v *)
From Coq Require Import ZArith List String Bool Lia Arith Permutation.
Import ListNotations.
From TD Require Import Model.Dual Proofs.DualP Model.C09_Align Spec.C09_KeyWise.

Section P.
  Context {V : Type}.
  Notation items := (@items V).

  (* ---------- association lists with unique keys are their own dict ---------- *)
  Lemma dset_notin {A} (d : list (string * A)) k v : ~ In k (map fst d) -> dset d k v = d ++ [(k, v)].
  Proof.
    induction d as [|[k' v'] r IH]; cbn; intros H; [reflexivity|].
    destruct (String.eqb k' k) eqn:E.
    - apply String.eqb_eq in E. subst. exfalso. apply H. now left.
    - f_equal. apply IH. intros C. apply H. now right.
  Qed.

  Lemma fold_dset_nodup {A} (l : list (string * A)) : forall d,
    NoDup (map fst (d ++ l)) -> fold_left (fun d kv => dset d (fst kv) (snd kv)) l d = d ++ l.
  Proof.
    induction l as [|[k v] r IH]; intros d H; cbn [fold_left fst snd]; [now rewrite app_nil_r|].
    rewrite dset_notin.
    - rewrite IH; rewrite <- app_assoc; [reflexivity|exact H].
    - rewrite map_app in H. cbn in H. apply NoDup_remove_2 in H. intros C. apply H. apply in_or_app. now left.
  Qed.

  Lemma dict_of_nodup {A} (l : list (string * A)) : NoDup (map fst l) -> dict_of l = l.
  Proof. intros H. unfold dict_of. now rewrite (fold_dset_nodup l []). Qed.

  Lemma combine_fst_snd {A B} (l : list (A * B)) : combine (map fst l) (map snd l) = l.
  Proof. induction l as [|[a b] r IH]; cbn; [reflexivity|now rewrite IH]. Qed.

  Lemma map_fst_combine {A B} (a : list A) (b : list B) : List.length a = List.length b -> map fst (combine a b) = a.
  Proof. revert b. induction a as [|x a IH]; intros [|y b] H; cbn in *; try discriminate; [reflexivity|]. f_equal. apply IH. lia. Qed.

  (* ---------- membership / lookup ---------- *)
  Lemma mem_In k l : mem k l = true <-> In k l.
  Proof.
    unfold mem. rewrite existsb_exists. split.
    - intros [x [Hx E]]. apply String.eqb_eq in E. now subst.
    - intros H. exists k. split; [exact H|apply String.eqb_refl].
  Qed.

  Lemma dget_some_in {A} (d : list (string * A)) k v : dget d k = Some v -> In k (map fst d).
  Proof.
    induction d as [|[k' v'] r IH]; cbn; [discriminate|]. destruct (String.eqb k' k) eqn:E.
    - apply String.eqb_eq in E. intros _. now left.
    - intros H. right. now apply IH.
  Qed.
  Lemma dget_none_notin {A} (d : list (string * A)) k : dget d k = None <-> ~ In k (map fst d).
  Proof.
    induction d as [|[k' v'] r IH]; cbn; [tauto|]. destruct (String.eqb k' k) eqn:E.
    - apply String.eqb_eq in E. subst. split; [discriminate|]. intros H. exfalso. apply H. now left.
    - rewrite IH. apply String.eqb_neq in E. split; intros H.
      + intros [C|C]; [congruence|tauto].
      + intros C. apply H. now right.
  Qed.
  Lemma dget_in_some {A} (d : list (string * A)) k : In k (map fst d) -> exists v, dget d k = Some v.
  Proof.
    intros H. destruct (dget d k) eqn:E; [eauto|]. apply dget_none_notin in E. contradiction.
  Qed.

  (* ---------- sequence ---------- *)
  Lemma sequence_some {A} (l : list (option A)) r : sequence l = Some r -> l = map Some r.
  Proof.
    revert r. induction l as [|[a|] l IH]; intros r; cbn; [intros [= <-]; reflexivity| |discriminate].
    destruct (sequence l) eqn:E; cbn; [|discriminate]. intros [= <-]. cbn. f_equal. now apply IH.
  Qed.
  Lemma sequence_map_some {A} (r : list A) : sequence (map Some r) = Some r.
  Proof. induction r as [|a r IH]; cbn; [reflexivity|now rewrite IH]. Qed.
  Lemma sequence_none {A B} (f : A -> option B) l x : In x l -> f x = None -> sequence (map f l) = None.
  Proof.
    induction l as [|a l IH]; cbn; [tauto|]. intros [->|H] E.
    - now rewrite E.
    - destruct (f a); [|reflexivity]. now rewrite (IH H E).
  Qed.
  Lemma sequence_all {A B} (f : A -> option B) l :
    (forall x, In x l -> exists b, f x = Some b) -> exists r, sequence (map f l) = Some r /\ List.length r = List.length l.
  Proof.
    induction l as [|a l IH]; cbn; intros H; [now exists []|].
    destruct (H a (or_introl eq_refl)) as [b Hb]. rewrite Hb.
    destruct IH as [r [Hr Hl]]; [intros x Hx; apply H; now right|]. rewrite Hr. cbn. exists (b :: r). split; [reflexivity|cbn; lia].
  Qed.

  (* ---------- strict inclusion of duplicate-free lists ---------- *)
  Lemma nodup_strict_incl (a b : list string) x :
    NoDup a -> incl a b -> In x b -> ~ In x a -> List.length a < List.length b.
  Proof.
    intros Ha Hi Hx Hn.
    assert (H : NoDup (x :: a)) by (constructor; assumption).
    apply (NoDup_incl_length H). intros y [<-|Hy]; [exact Hx|now apply Hi].
  Qed.
  Lemma nodup_same_length (a b : list string) :
    NoDup a -> NoDup b -> (forall k, In k a <-> In k b) -> List.length a = List.length b.
  Proof.
    intros Ha Hb H. apply Nat.le_antisymm; apply NoDup_incl_length; try assumption; intros k Hk; now apply H.
  Qed.

  Lemma same_keysb_true (s o : items) :
    same_keysb s o = true <-> (forall k, In k (keys_of s) <-> In k (keys_of o)).
  Proof.
    unfold same_keysb. rewrite andb_true_iff, !forallb_forall. split.
    - intros [A B] k. split; intros H; [apply mem_In, A, H|apply mem_In, B, H].
    - intros H. split; intros k Hk; apply mem_In, H, Hk.
  Qed.

  (* ---------- the aligned list of `other` ---------- *)
  Lemma align_eager_nodup (o : items) sorting :
    NoDup (keys_of o) -> align_eager (keys_of o) (vals_of o) sorting = sequence (map (dget o) sorting).
  Proof.
    intros H. unfold align_eager, keys_of, vals_of. rewrite combine_fst_snd. now rewrite dict_of_nodup.
  Qed.

  (* pairing produced for self's leaves when the aligned values are [ov] *)
  Lemma lookup_pairs (o : items) : forall (s : items) ov,
    map Some ov = map (dget o) (keys_of s) ->
    forall k, dget (combine (keys_of s) (combine (vals_of s) (map (@RLeaf V) ov))) k = spec_same s o k.
  Proof.
    induction s as [|[k0 v0] s IH]; intros ov H k; cbn in *.
    - reflexivity.
    - destruct ov as [|w0 ov]; [discriminate|]. cbn in H. injection H as H0 H. cbn. unfold spec_same. cbn.
      destruct (String.eqb k0 k) eqn:E.
      + apply String.eqb_eq in E. subst. now rewrite <- H0.
      + apply (IH ov H).
  Qed.

  Lemma keys_vals_length (s : items) : List.length (keys_of s) = List.length (vals_of s).
  Proof. unfold keys_of, vals_of. now rewrite !map_length. Qed.

  (* ========== binary family, default=None ========== *)
  Theorem binary_same_keys fx f closed (s o : items) :
    NoDup (keys_of s) -> NoDup (keys_of o) -> s <> [] -> same_keysb s o = true ->
    exists r, binary_plan fx f closed s (OpTd o) DNone = Ok r /\ forall k, dget r k = spec_same s o k.
  Proof.
    intros Hs Ho Hne Hk0. pose proof (proj1 (same_keysb_true s o) Hk0) as Hk.
    assert (Hlen : List.length (keys_of s) = List.length (keys_of o)) by (apply nodup_same_length; assumption).
    assert (Hone : o <> []).
    { intros ->. destruct s as [|[k v] s]; [congruence|]. cbn in Hlen. discriminate. }
    destruct (sequence_all (dget o) (keys_of s)) as [ov [Hov Hl]].
    { intros k Hin. apply dget_in_some. unfold keys_of in *. now apply Hk. }
    destruct o as [|o0 o']; [congruence|]. unfold binary_plan, items_list_c09. cbn [is_nil]. rewrite andb_false_r.
    set (o := o0 :: o') in *.
    unfold items_list_aligned. rewrite align_eager_nodup by assumption. rewrite Hov.
    assert (Hvl : List.length (vals_of o) = List.length ov).
    { rewrite <- keys_vals_length. lia. }
    replace (Nat.ltb (List.length ov) (List.length (vals_of o))) with false by (symmetry; apply Nat.ltb_ge; lia).
    assert (Hnz : List.length (vals_of s) <> 0).
    { rewrite <- keys_vals_length. destruct s; [congruence|cbn; lia]. }
    assert (Hcv : exists c, combine_vals f (vals_of s) ov = Ok c /\ c = combine (vals_of s) (map (@RLeaf V) ov)).
    { assert (E1 : Nat.eqb (List.length (vals_of s)) (List.length ov) = true)
        by (apply Nat.eqb_eq; rewrite <- keys_vals_length; lia).
      assert (E2 : Nat.eqb (List.length (vals_of s)) 0 = false) by (apply Nat.eqb_neq; exact Hnz).
      destruct f; cbn; rewrite ?E1, ?E2; cbn; eexists; split; reflexivity. }
    destruct Hcv as [c [Hc ->]]. rewrite Hc.
    assert (Hm : map fst (combine (keys_of s) (combine (vals_of s) (map (@RLeaf V) ov))) = keys_of s).
    { apply map_fst_combine. rewrite combine_length, map_length, <- keys_vals_length. lia. }
    replace (closed && _) with false.
    2:{ symmetry. apply andb_false_iff. right. rewrite Hm. apply not_true_is_false. intros C.
        apply existsb_exists in C. destruct C as [k [Hin Hneg]]. apply mem_In in Hin. now rewrite Hin in Hneg. }
    eexists. split; [reflexivity|]. intros k. rewrite dict_of_nodup by (rewrite Hm; exact Hs).
    apply lookup_pairs. symmetry. now apply sequence_some.
  Qed.

  Theorem binary_diff_keys_raises f closed (s o : items) :
    NoDup (keys_of s) -> NoDup (keys_of o) -> same_keysb s o = false ->
    binary_plan true f closed s (OpTd o) DNone = Raised.
  Proof.
    intros Hs Ho Hk. unfold binary_plan, items_list_c09. cbn [negb andb].
    unfold items_list_aligned. rewrite align_eager_nodup by assumption.
    unfold same_keysb in Hk. apply andb_false_iff in Hk. destruct Hk as [Hk|Hk].
    - (* a key of self is missing in other *)
      assert (exists k, In k (keys_of s) /\ mem k (keys_of o) = false) as [k [Hin Hm]].
      { clear -Hk. induction (keys_of s) as [|a l IH]; cbn in Hk; [discriminate|].
        apply andb_false_iff in Hk. destruct Hk as [Hk|Hk]; [exists a; split; [now left|exact Hk]|].
        destruct (IH Hk) as [k [A B]]. exists k. split; [now right|exact B]. }
      rewrite (sequence_none (dget o) (keys_of s) k Hin); [reflexivity|].
      apply dget_none_notin. intros C. apply mem_In in C. unfold keys_of in Hm. congruence.
    - (* every key of self is in other, other has more *)
      destruct (forallb (fun k => mem k (keys_of o)) (keys_of s)) eqn:Hall.
      + assert (exists k, In k (keys_of o) /\ mem k (keys_of s) = false) as [k [Hin Hm]].
        { clear -Hk. induction (keys_of o) as [|a l IH]; cbn in Hk; [discriminate|].
          apply andb_false_iff in Hk. destruct Hk as [Hk|Hk]; [exists a; split; [now left|exact Hk]|].
          destruct (IH Hk) as [k [A B]]. exists k. split; [now right|exact B]. }
        rewrite forallb_forall in Hall.
        destruct (sequence_all (dget o) (keys_of s)) as [ov [Hov Hl]].
        { intros x Hx. apply dget_in_some. apply mem_In. now apply Hall. }
        rewrite Hov.
        assert (List.length (keys_of s) < List.length (keys_of o)).
        { apply (nodup_strict_incl _ _ k Hs); [intros x Hx; apply mem_In; now apply Hall|exact Hin|].
          intros C. apply mem_In in C. congruence. }
        replace (Nat.ltb (List.length ov) (List.length (vals_of o))) with true; [reflexivity|].
        symmetry. apply Nat.ltb_lt. rewrite <- keys_vals_length. lia.
      + assert (exists k, In k (keys_of s) /\ mem k (keys_of o) = false) as [k [Hin Hm]].
        { clear -Hall. induction (keys_of s) as [|a l IH]; cbn in Hall; [discriminate|].
          apply andb_false_iff in Hall. destruct Hall as [H|H]; [exists a; split; [now left|exact H]|].
          destruct (IH H) as [k [A B]]. exists k. split; [now right|exact B]. }
        rewrite (sequence_none (dget o) (keys_of s) k Hin); [reflexivity|].
        apply dget_none_notin. intros C. apply mem_In in C. unfold keys_of in Hm. congruence.
  Qed.

  (* ========== scalar / tensor operand: every entry of self meets the operand ========== *)
  Theorem binary_scalar fx f closed (s : items) d :
    NoDup (keys_of s) -> s <> [] ->
    exists r, binary_plan fx f closed s OpScalar d = Ok r /\ forall k, dget r k = spec_scalar s k.
  Proof.
    intros Hs Hne. unfold binary_plan.
    assert (Hc : combine_scalar f (vals_of s) = Ok (map (fun v => (v, @ROperand V)) (vals_of s))).
    { destruct s as [|[k v] s]; [congruence|]. destruct f; reflexivity. }
    rewrite Hc. eexists. split; [reflexivity|]. intros k.
    rewrite dict_of_nodup by (rewrite map_fst_combine; [exact Hs|now rewrite map_length, keys_vals_length]).
    unfold spec_scalar. clear. induction s as [|[k0 v0] s IH]; cbn; [reflexivity|].
    destruct (String.eqb k0 k); [reflexivity|exact IH].
  Qed.

  (* ========== in-place binary family ========== *)
  Theorem inplace_same_keys f fixed (s o : items) :
    NoDup (keys_of s) -> NoDup (keys_of o) -> s <> [] -> same_keysb s o = true ->
    exists r, inplace_plan f fixed s (OpTd o) = Ok r /\ forall k, dget r k = spec_same s o k.
  Proof.
    intros Hs Ho Hne Hk0. pose proof (proj1 (same_keysb_true s o) Hk0) as Hk.
    assert (Hlen : List.length (keys_of s) = List.length (keys_of o)) by (apply nodup_same_length; assumption).
    destruct (sequence_all (dget o) (keys_of s)) as [ov [Hov Hl]].
    { intros k Hin. apply dget_in_some. unfold keys_of in *. now apply Hk. }
    unfold inplace_plan, values_list_c09. rewrite align_eager_nodup by assumption. rewrite Hov.
    assert (Hol : List.length o = List.length (keys_of o)) by (unfold keys_of; now rewrite map_length).
    replace (fixed && Nat.ltb (List.length ov) (List.length o)) with false
      by (symmetry; apply andb_false_iff; right; apply Nat.ltb_ge; lia).
    cbv iota.
    assert (Hnz : List.length (vals_of s) <> 0).
    { rewrite <- keys_vals_length. destruct s; [congruence|cbn; lia]. }
    assert (E1 : Nat.eqb (List.length (vals_of s)) (List.length ov) = true)
      by (apply Nat.eqb_eq; rewrite <- keys_vals_length; lia).
    assert (E2 : Nat.eqb (List.length (vals_of s)) 0 = false) by (apply Nat.eqb_neq; exact Hnz).
    assert (Hc : combine_vals f (vals_of s) ov = Ok (combine (vals_of s) (map (@RLeaf V) ov))).
    { destruct f; cbn; rewrite ?E1, ?E2; reflexivity. }
    rewrite Hc. eexists. split; [reflexivity|]. intros k. apply lookup_pairs. symmetry. now apply sequence_some.
  Qed.

  Theorem inplace_missing_key_raises f fixed (s o : items) k :
    NoDup (keys_of o) -> In k (keys_of s) -> ~ In k (keys_of o) -> inplace_plan f fixed s (OpTd o) = Raised.
  Proof.
    intros Ho Hin Hn. unfold inplace_plan, values_list_c09. rewrite align_eager_nodup by assumption.
    rewrite (sequence_none (dget o) (keys_of s) k Hin); [reflexivity|]. now apply dget_none_notin.
  Qed.

  (* with the length check of _items_list added to _values_list (fixed = true): any difference of key sets raises *)
  Theorem inplace_fixed_diff_keys_raises f (s o : items) :
    NoDup (keys_of s) -> NoDup (keys_of o) -> same_keysb s o = false -> inplace_plan f true s (OpTd o) = Raised.
  Proof.
    intros Hs Ho Hk. unfold same_keysb in Hk. apply andb_false_iff in Hk.
    assert (Hmiss : forall l1 l2, forallb (fun k => mem k l2) l1 = false -> exists k, In k l1 /\ ~ In k l2).
    { intros l1 l2. induction l1 as [|a l IH]; cbn; [discriminate|]. intros H. apply andb_false_iff in H.
      destruct H as [H|H]; [exists a; split; [now left|intros C; apply mem_In in C; congruence]|].
      destruct (IH H) as [k [A B]]. exists k. split; [now right|exact B]. }
    destruct (forallb (fun k => mem k (keys_of o)) (keys_of s)) eqn:Hall.
    - destruct Hk as [Hk|Hk]; [discriminate|]. destruct (Hmiss _ _ Hk) as [k [Hin Hn]].
      rewrite forallb_forall in Hall.
      destruct (sequence_all (dget o) (keys_of s)) as [ov [Hov Hl]].
      { intros x Hx. apply dget_in_some. apply mem_In. now apply Hall. }
      unfold inplace_plan, values_list_c09. rewrite align_eager_nodup by assumption. rewrite Hov.
      assert (List.length (keys_of s) < List.length (keys_of o)).
      { apply (nodup_strict_incl _ _ k Hs); [intros x Hx; apply mem_In; now apply Hall|exact Hin|exact Hn]. }
      assert (Hol : List.length o = List.length (keys_of o)) by (unfold keys_of; now rewrite map_length).
      replace (Nat.ltb (List.length ov) (List.length o)) with true; [reflexivity|]. symmetry. apply Nat.ltb_lt. lia.
    - destruct (Hmiss _ _ Hall) as [k [Hin Hn]]. now apply (inplace_missing_key_raises f true s o k).
  Qed.

  (* ========== ternary family ========== *)
  Lemma lookup_triples (o1 o2 : items) : forall (s : items) a b,
    map Some a = map (dget o1) (keys_of s) -> map Some b = map (dget o2) (keys_of s) ->
    forall k, dget (combine (keys_of s) (combine (combine (vals_of s) (map (@RLeaf V) a)) (map (@RLeaf V) b))) k
              = spec_tern s o1 o2 k.
  Proof.
    induction s as [|[k0 v0] s IH]; intros a b Ha Hb k; cbn in *; [reflexivity|].
    destruct a as [|a0 a]; [discriminate|]. destruct b as [|b0 b]; [discriminate|]. cbn in *.
    injection Ha as Ha0 Ha. injection Hb as Hb0 Hb. unfold spec_tern. cbn.
    destruct (String.eqb k0 k) eqn:E.
    - apply String.eqb_eq in E. subst. now rewrite <- Ha0, <- Hb0.
    - apply (IH a b Ha Hb).
  Qed.

  (* positional lists are the key-wise ones when the operands list their leaves in self's order *)
  Lemma vals_in_self_order (s o : items) :
    NoDup (keys_of o) -> keys_of o = keys_of s -> map Some (vals_of o) = map (dget o) (keys_of s).
  Proof.
    intros Ho <-. clear s. unfold keys_of, vals_of in *. induction o as [|[k v] o IH]; cbn in *; [reflexivity|].
    rewrite String.eqb_refl. f_equal. inversion Ho as [|? ? Hn Ho']; subst. rewrite (IH Ho').
    apply map_ext_in. intros x Hx. destruct (String.eqb k x) eqn:E; [|reflexivity].
    apply String.eqb_eq in E. subst. contradiction.
  Qed.

  Theorem ternary_same_order (s o1 o2 : items) :
    NoDup (keys_of s) -> s <> [] -> keys_of o1 = keys_of s -> keys_of o2 = keys_of s ->
    exists r, ternary_plan false false s (OpTd o1) (OpTd o2) = Ok r /\ forall k, dget r k = spec_tern s o1 o2 k.
  Proof.
    intros Hs Hne H1 H2. unfold ternary_plan, tern_vals.
    assert (L1 : List.length (vals_of o1) = List.length (vals_of s)) by (rewrite <- !keys_vals_length; now rewrite H1).
    assert (L2 : List.length (vals_of o2) = List.length (vals_of s)) by (rewrite <- !keys_vals_length; now rewrite H2).
    rewrite L1, L2, !Nat.eqb_refl. cbn [andb].
    replace (Nat.eqb (List.length (vals_of s)) 0) with false
      by (symmetry; apply Nat.eqb_neq; rewrite <- keys_vals_length; destruct s; [congruence|cbn; lia]).
    cbn [negb]. eexists. split; [reflexivity|]. intros k. cbn [rhs_list].
    apply lookup_triples; apply vals_in_self_order; try assumption; [now rewrite H1|now rewrite H2].
  Qed.

  Theorem ternary_fixed_same_keys chk (s o1 o2 : items) :
    NoDup (keys_of s) -> NoDup (keys_of o1) -> NoDup (keys_of o2) -> s <> [] ->
    same_keysb s o1 = true -> same_keysb s o2 = true ->
    exists r, ternary_plan true chk s (OpTd o1) (OpTd o2) = Ok r /\ forall k, dget r k = spec_tern s o1 o2 k.
  Proof.
    intros Hs H1 H2 Hne K1 K2.
    pose proof (proj1 (same_keysb_true s o1) K1) as K1'. pose proof (proj1 (same_keysb_true s o2) K2) as K2'.
    destruct (sequence_all (dget o1) (keys_of s)) as [a [Ha La]].
    { intros k Hin. apply dget_in_some. unfold keys_of in *. now apply K1'. }
    destruct (sequence_all (dget o2) (keys_of s)) as [b [Hb Lb]].
    { intros k Hin. apply dget_in_some. unfold keys_of in *. now apply K2'. }
    assert (N1 : Nat.ltb (List.length a) (List.length o1) = false).
    { apply Nat.ltb_ge. rewrite La. replace (List.length o1) with (List.length (keys_of o1)) by (unfold keys_of; now rewrite map_length).
      rewrite (nodup_same_length _ _ Hs H1 K1'). lia. }
    assert (N2 : Nat.ltb (List.length b) (List.length o2) = false).
    { apply Nat.ltb_ge. rewrite Lb. replace (List.length o2) with (List.length (keys_of o2)) by (unfold keys_of; now rewrite map_length).
      rewrite (nodup_same_length _ _ Hs H2 K2'). lia. }
    unfold ternary_plan, tern_vals, values_list_c09. rewrite !align_eager_nodup by assumption. rewrite Ha, Hb.
    rewrite N1, N2, !andb_false_r.
    rewrite La, Lb, <- keys_vals_length, !Nat.eqb_refl. cbn [andb].
    replace (Nat.eqb (List.length (keys_of s)) 0) with false
      by (symmetry; apply Nat.eqb_neq; destruct s; [congruence|cbn; lia]).
    cbn [negb]. eexists. split; [reflexivity|]. intros k. cbn [rhs_list].
    apply lookup_triples; symmetry; now apply sequence_some.
  Qed.

  (* ========== default = "intersection" / a value ========== *)
  Lemma lookup_on (s o : items) (gs go : string -> V) : forall ks,
    forall k, dget (combine ks (combine (map gs ks) (map (@RLeaf V) (map go ks)))) k
              = if mem k ks then Some (gs k, RLeaf (go k)) else None.
  Proof.
    induction ks as [|k0 ks IH]; intros k; cbn; [reflexivity|].
    rewrite (String.eqb_sym k k0). destruct (String.eqb k0 k) eqn:E.
    - apply String.eqb_eq in E. now subst.
    - cbn. apply IH.
  Qed.

  Lemma dedup_in l k : In k (dedup l) <-> In k l.
  Proof.
    induction l as [|a l IH]; cbn; [tauto|]. rewrite filter_In, IH. split.
    - intros [H|[H _]]; tauto.
    - intros [H|H]; [now left|]. destruct (String.eqb a k) eqn:E.
      + left. now apply String.eqb_eq.
      + right. split; [exact H|reflexivity].
  Qed.
  Lemma dedup_nodup l : NoDup (dedup l).
  Proof.
    induction l as [|a l IH]; cbn; constructor.
    - rewrite filter_In. intros [_ H]. now rewrite String.eqb_refl in H.
    - now apply NoDup_filter.
  Qed.

  Theorem binary_default_value fx f (s o : items) (v : V) :
    NoDup (keys_of s) -> NoDup (keys_of o) -> o <> [] ->
    exists r, binary_plan fx f false s (OpTd o) (DVal v) = Ok r /\ forall k, dget r k = spec_default v s o k.
  Proof.
    intros Hs Ho Hne. destruct o as [|o0 o']; [congruence|]. unfold binary_plan, items_list_c09. cbn [is_nil].
    rewrite andb_false_r. set (o := o0 :: o') in *.
    cbv zeta. rewrite !dict_of_nodup by assumption.
    set (nk := dedup (keys_of s ++ keys_of o)).
    set (gs := fun k => match dget s k with Some x => x | None => v end).
    set (go := fun k => match dget o k with Some x => x | None => v end).
    assert (Hnz : List.length nk <> 0).
    { destruct nk eqn:E; [|cbn; lia]. exfalso. assert (In (fst o0) nk) as Hi.
      { apply dedup_in, in_or_app. right. now left. } rewrite E in Hi. contradiction. }
    assert (Hc : combine_vals f (map gs nk) (map go nk) = Ok (combine (map gs nk) (map (@RLeaf V) (map go nk)))).
    { destruct f; cbn; rewrite ?map_length, ?Nat.eqb_refl; cbn;
        try (replace (Nat.eqb (List.length nk) 0) with false by (symmetry; now apply Nat.eqb_neq)); reflexivity. }
    rewrite Hc. cbn [andb]. eexists. split; [reflexivity|]. intros k.
    rewrite dict_of_nodup.
    2:{ rewrite map_fst_combine; [apply dedup_nodup|]. now rewrite combine_length, !map_length, Nat.min_id. }
    rewrite (lookup_on s o gs go nk k). unfold spec_default, gs, go.
    destruct (mem k nk) eqn:M.
    - apply mem_In, dedup_in, in_app_or in M.
      destruct (dget s k) eqn:E1, (dget o k) eqn:E2; try reflexivity.
      exfalso. apply dget_none_notin in E1, E2. unfold keys_of in M. tauto.
    - destruct (dget s k) eqn:E1.
      { exfalso. apply dget_some_in in E1. assert (In k nk) by (apply dedup_in, in_or_app; now left).
        apply mem_In in H. congruence. }
      destruct (dget o k) eqn:E2; [|reflexivity].
      exfalso. apply dget_some_in in E2. assert (In k nk) by (apply dedup_in, in_or_app; now right).
      apply mem_In in H. congruence.
  Qed.

  Theorem binary_intersection (s o : items) closed :
    NoDup (keys_of s) -> NoDup (keys_of o) ->
    exists r, binary_plan true Loop closed s (OpTd o) DInter = Ok r /\ forall k, dget r k = spec_inter s o k.
  Proof.
    intros Hs Ho. unfold binary_plan, items_list_c09. cbn [negb andb].
    cbv zeta. rewrite !dict_of_nodup by assumption.
    set (nk := filter (fun k => mem k (keys_of o)) (keys_of s)).
    destruct (sequence_all (dget o) nk) as [ov [Hov Lo]].
    { intros k Hin. apply filter_In in Hin. destruct Hin as [_ Hm]. apply dget_in_some. now apply mem_In. }
    destruct (sequence_all (dget s) nk) as [sv [Hsv Ls]].
    { intros k Hin. apply filter_In in Hin. destruct Hin as [Hi _]. now apply dget_in_some. }
    rewrite Hov. cbn [option_map]. rewrite Hsv. cbn [option_map combine_vals].
    assert (Hm : map fst (combine nk (combine sv (map (@RLeaf V) ov))) = nk).
    { apply map_fst_combine. rewrite combine_length, map_length. lia. }
    replace (closed && _) with false.
    2:{ symmetry. apply andb_false_iff. right. rewrite Hm. apply not_true_is_false. intros C.
        apply existsb_exists in C. destruct C as [k [Hin Hneg]]. apply filter_In in Hin. destruct Hin as [Hin _].
        apply mem_In in Hin. now rewrite Hin in Hneg. }
    eexists. split; [reflexivity|]. intros k.
    rewrite dict_of_nodup by (rewrite Hm; now apply NoDup_filter).
    apply sequence_some in Hov, Hsv.
    assert (G : forall ks a b, map (dget s) ks = map Some a -> map (dget o) ks = map Some b ->
                dget (combine ks (combine a (map (@RLeaf V) b))) k = if mem k ks then spec_same s o k else None).
    { clear. induction ks as [|k0 ks IH]; intros [|a0 a] [|b0 b] Ha Hb; cbn in *; try discriminate; [reflexivity|].
      injection Ha as Ha0 Ha. injection Hb as Hb0 Hb. rewrite (String.eqb_sym k k0). destruct (String.eqb k0 k) eqn:E.
      - apply String.eqb_eq in E. subst. unfold spec_same. now rewrite Ha0, Hb0.
      - cbn. now apply IH. }
    rewrite (G nk sv ov Hsv Hov). unfold spec_inter, spec_same. destruct (mem k nk) eqn:M; [reflexivity|].
    destruct (dget s k) eqn:E1; [|reflexivity]. destruct (dget o k) eqn:E2; [|reflexivity]. exfalso.
    assert (In k nk). { apply filter_In. split; [now apply dget_some_in in E1|]. apply mem_In. now apply dget_some_in in E2. }
    apply mem_In in H. congruence.
  Qed.
End P.

(* ========== refutation witnesses (concrete, by computation) ========== *)
Local Open Scope string_scope.
Local Open Scope Z_scope.

(* D18: same keys, other insertion order: x is paired with the operand's y *)
Theorem ternary_positional_refuted :
  exists (s o1 o2 : @items Z) r,
    NoDup (keys_of s) /\ same_keysb s o1 = true /\ same_keysb s o2 = true /\
    ternary_plan false false s (OpTd o1) (OpTd o2) = Ok r /\ dget r "x" <> spec_tern s o1 o2 "x".
Proof.
  exists [("x", 1); ("y", 2)], [("y", 20); ("x", 10)], [("x", 100); ("y", 200)]. eexists.
  split; [repeat constructor; cbn; intuition discriminate|].
  split; [reflexivity|]. split; [reflexivity|]. split; [reflexivity|]. cbn. discriminate.
Qed.

(* in-place ops: a key only `other` has is ignored, nothing is raised *)
Theorem inplace_extra_key_refuted :
  exists (s o : @items Z) r, NoDup (keys_of s) /\ NoDup (keys_of o) /\ same_keysb s o = false /\
    inplace_plan Foreach false s (OpTd o) = Ok r.
Proof.
  exists [("x", 1)], [("x", 10); ("z", 30)]. eexists.
  split; [repeat constructor; cbn; intuition discriminate|].
  split; [repeat constructor; cbn; intuition discriminate|]. split; reflexivity.
Qed.

(* an empty `other`: the loop family returns an empty result, clamp_max/clamp_min return self's values *)
Theorem empty_other_refuted :
  exists (s : @items Z), s <> [] /\ same_keysb s [] = false /\
    binary_plan false Loop false s (OpTd []) DNone = Ok [] /\
    binary_plan false ForeachSwallow false s (OpTd []) DNone = Ok [("x", (1, RUnchanged))].
Proof. exists [("x", 1)]. repeat split; try reflexivity. discriminate. Qed.

(* default=value on a result that cannot take new keys (locked self / tensorclass): raises although the same call on
   the open tensordict returns the documented union *)
Theorem default_closed_refuted :
  exists (s o : @items Z) r, binary_plan true Foreach false s (OpTd o) (DVal 0) = Ok r /\
    binary_plan true Foreach true s (OpTd o) (DVal 0) = Raised.
Proof. exists [("x", 1)], [("x", 10); ("z", 30)]. eexists. split; reflexivity. Qed.

(* operator spellings *)
Theorem dunder_order_all_but_rsub : forall d, d <> DuRsub -> order_ok false d = true.
Proof. intros [] H; try reflexivity. congruence. Qed.
Theorem dunder_rsub_refuted : order_ok false DuRsub = false.
Proof. reflexivity. Qed.
Theorem dunder_order_fixed : forall d, order_ok true d = true.
Proof. intros []; reflexivity. Qed.
