From Coq Require Import ZArith List Bool Arith Lia String.
Import ListNotations.
From TD Require Import Model.C11_Layout Model.C11_Tree Proofs.C11_LayoutP.
Open Scope nat_scope.

Scheme tree_mut := Induction for tree Sort Prop
with forest_mut := Induction for forest Sort Prop.
Combined Scheme tree_forest_ind from tree_mut, forest_mut.

(* ------------------------------------------------------------------ side conditions on the flat leaf list *)
Definition sizes_ok (A : nat) (np : bool) (ls : list leaf) : bool :=
  forallb (fun l => flat_size A np (spec_of l) mod l_esz l =? 0) ls.

Lemma wf_leafb_iff l : wf_leafb l = true <-> wf_leaf l.
Proof.
  unfold wf_leafb, wf_leaf. rewrite andb_true_iff, Nat.eqb_eq, Nat.ltb_lt. tauto.
Qed.

Lemma wf_flat : (forall t, wf_t t = true -> Forall wf_leaf (flat t)) /\ (forall f, wf_f f = true -> Forall wf_leaf (flat_f f)).
Proof.
  apply tree_forest_ind; cbn [wf_t wf_f flat flat_f].
  - intros m f IH H. auto.
  - intros _. constructor.
  - intros k l v r IH H. apply andb_true_iff in H as [H1 H2]. constructor; [now apply wf_leafb_iff|auto].
  - intros k p bs r IH H. auto.
  - intros k t IHt r IHr H. apply andb_true_iff in H as [H1 H2]. apply Forall_app. auto.
Qed.

(* ------------------------------------------------------------------ the running offset *)
Definition lspecs (ls : list leaf) : list lspec := map spec_of ls.

Lemma mark_stop A np :
  (forall t s, snd (mark_t A np t s) = s + total A np (lspecs (flat t)) /\ flat (fst (mark_t A np t s)) = flat t) /\
  (forall f s, snd (mark_f A np f s) = s + total A np (lspecs (flat_f f)) /\ flat_f (fst (mark_f A np f s)) = flat_f f).
Proof.
  apply tree_forest_ind; cbn [mark_t mark_f flat flat_f lspecs map].
  - intros m f H s. destruct (mark_f A np f s) as [f' e] eqn:E. specialize (H s). rewrite E in H. cbn [fst snd flat flat_f] in *. exact H.
  - intros s. cbn [fst snd flat_f map]. unfold total. cbn [fold_right]. split; [lia|reflexivity].
  - intros k l v f H s. destruct (mark_f A np f (s + flat_size A np (spec_of l))) as [r' e] eqn:E.
    specialize (H (s + flat_size A np (spec_of l))). rewrite E in H. cbn [fst snd flat flat_f] in *. destruct H as [H1 H2].
    rewrite total_cons. split; [fold (lspecs (flat_f f)); lia|now rewrite H2].
  - intros k p bs f H s. destruct (mark_f A np f s) as [r' e] eqn:E. specialize (H s). rewrite E in H. cbn [fst snd flat flat_f] in *. exact H.
  - intros k t H f H0 s. destruct (mark_t A np t s) as [t' mid] eqn:E1. destruct (mark_f A np f mid) as [r' e] eqn:E2.
    specialize (H s). rewrite E1 in H. specialize (H0 mid). rewrite E2 in H0. cbn [fst snd flat flat_f] in *.
    destruct H as [H1 H2], H0 as [H3 H4]. unfold lspecs in *. rewrite map_app, total_app.
    split; [lia|now rewrite H2, H4].
Qed.

Definition mf_nts A np f s := fst (fst (fst (meta_f A np f s))).
Definition mf_lvs A np f s := snd (fst (fst (meta_f A np f s))).
Definition mf_subs A np f s := snd (fst (meta_f A np f s)).
Definition mf_stop A np f s := snd (meta_f A np f s).

Lemma meta_stop A np :
  (forall t s, snd (meta_t A np t s) = s + total A np (lspecs (flat t))) /\
  (forall f s, mf_stop A np f s = s + total A np (lspecs (flat_f f))).
Proof.
  unfold mf_stop.
  apply tree_forest_ind; cbn [meta_t meta_f flat flat_f lspecs map].
  - intros m f H s. specialize (H s). destruct (meta_f A np f s) as [[[a b] c] d]. exact H.
  - intros s. cbn [fst snd map]. unfold total. cbn [fold_right]. lia.
  - intros k l v f H s. specialize (H (s + flat_size A np (spec_of l))).
    destruct (meta_f A np f (s + flat_size A np (spec_of l))) as [[[a b] c] d]. cbn [fst snd flat flat_f] in *. rewrite total_cons.
    fold (lspecs (flat_f f)). lia.
  - intros k p bs f H s. specialize (H s). destruct (meta_f A np f s) as [[[a b] c] d]. exact H.
  - intros k t H f H0 s. specialize (H s). destruct (meta_t A np t s) as [mt mid]. specialize (H0 mid).
    destruct (meta_f A np f mid) as [[[a b] c] d]. cbn [fst snd flat flat_f] in *. unfold lspecs in *. rewrite map_app, total_app. lia.
Qed.

(* ------------------------------------------------------------------ relock / mark / partition commute where needed *)
Lemma part_n_relock b : forall f, part_n (relock_f b f) = part_n f.
Proof. induction f; cbn; congruence. Qed.
Lemma part_l_relock b : forall f, part_l (relock_f b f) = part_l f.
Proof. induction f; cbn; congruence. Qed.
Lemma part_n_mark A np : forall f s, part_n (fst (mark_f A np f s)) = part_n f.
Proof.
  induction f; intros s; cbn [mark_f].
  - reflexivity.
  - specialize (IHf (s + flat_size A np (spec_of l))). destruct (mark_f A np f (s + flat_size A np (spec_of l))). cbn in *. exact IHf.
  - specialize (IHf s). destruct (mark_f A np f s). cbn in *. now rewrite IHf.
  - destruct (mark_t A np t s) as [t' mid]. specialize (IHf mid). destruct (mark_f A np f mid). cbn in *. exact IHf.
Qed.

(* ------------------------------------------------------------------ rebuild (metadata, storage) = the tree, reordered and re-locked *)
Section Rebuild.
Variables (A : nat) (np : bool).

Definition side (S : nat) (ls : list leaf) : Prop :=
  Forall wf_leaf ls /\ sizes_ok A np ls = true /\ aligned_at A np S (lspecs ls) = true.

Lemma side_app S a b : side S (a ++ b) <-> side S a /\ side (S + total A np (lspecs a)) b.
Proof.
  unfold side, sizes_ok, lspecs. rewrite Forall_app, forallb_app, map_app, aligned_at_app, !andb_true_iff. tauto.
Qed.

Lemma side_cons S l r : side S (l :: r) <->
  (wf_leaf l /\ flat_size A np (spec_of l) mod l_esz l = 0 /\ S mod l_esz l = 0) /\ side (S + flat_size A np (spec_of l)) r.
Proof.
  unfold side, sizes_ok, lspecs. cbn [forallb map aligned_at spec_of sp_esz].
  rewrite Forall_cons_iff, !andb_true_iff, !Nat.eqb_eq. tauto.
Qed.

Lemma rebuild_ok :
  (forall t pre post pl, Forall wf_leaf pre -> no_reserved_t t = true ->
     side (total A np (lspecs pre)) (flat t) ->
     rebuild_t (encode A np (pre ++ flat t ++ post)) pl (fst (meta_t A np t (total A np (lspecs pre))))
     = Ok (reorder_t (relock_t pl (fst (mark_t A np t (total A np (lspecs pre))))))) /\
  (forall f pre post pl, Forall wf_leaf pre -> no_reserved_f f = true ->
     side (total A np (lspecs pre)) (flat_f f) ->
     let S := total A np (lspecs pre) in
     let storage := encode A np (pre ++ flat_f f ++ post) in
     rebuild_subs storage pl (mf_subs A np f S) = Ok (reorder_s (relock_f pl (fst (mark_f A np f S)))) /\
     (forall rest, rebuild_leaves storage (mf_lvs A np f S) rest = Ok (fapp (part_l (fst (mark_f A np f S))) rest)) /\
     (forall rest, nts_forest (mf_nts A np f S) rest = fapp (part_n f) rest)).
Proof.
  apply tree_forest_ind.
  - (* Node *)
    intros m f IH pre post pl Hpre Hres Hside. cbn [flat no_reserved_t] in *.
    cbn [meta_t mark_t].
    specialize (IH pre post (m_locked m || pl) Hpre Hres Hside). cbv zeta in IH.
    unfold mf_subs, mf_lvs, mf_nts in IH.
    pose proof (part_n_mark A np f (total A np (lspecs pre))) as Hpn.
    destruct (meta_f A np f (total A np (lspecs pre))) as [[[nts lvs] subs] stop] eqn:E.
    destruct (mark_f A np f (total A np (lspecs pre))) as [mf e] eqn:Em.
    cbn [fst snd] in *. destruct IH as (IH1 & IH2 & IH3).
    cbn [rebuild_t]. rewrite IH1, IH2, IH3.
    cbn [relock_t reorder_t]. rewrite part_n_relock, part_l_relock, Hpn. reflexivity.
  - (* FNil *)
    intros pre post pl _ _ _. cbn. repeat split; reflexivity.
  - (* FLeaf *)
    intros k l v r IH pre post pl Hpre Hres Hside. cbn [flat_f no_reserved_f] in *.
    apply side_cons in Hside as [(Hwf & Hsz & Hal) Hside'].
    assert (Hpre' : Forall wf_leaf (pre ++ [l])) by (apply Forall_app; split; [exact Hpre|now constructor]).
    assert (HS : total A np (lspecs (pre ++ [l])) = total A np (lspecs pre) + flat_size A np (spec_of l)).
    { unfold lspecs. rewrite map_app, total_app. cbn. lia. }
    specialize (IH (pre ++ [l]) post pl Hpre' Hres). rewrite HS in IH. specialize (IH Hside'). cbv zeta in IH.
    rewrite <- app_assoc in IH. cbn [app] in IH.
    cbv zeta. unfold mf_subs, mf_lvs, mf_nts in *. cbn [meta_f mark_f].
    destruct (meta_f A np r (total A np (lspecs pre) + flat_size A np (spec_of l))) as [[[nts lvs] subs] stop] eqn:E.
    destruct (mark_f A np r (total A np (lspecs pre) + flat_size A np (spec_of l))) as [mf e] eqn:Em.
    cbn [fst snd] in *. destruct IH as (IH1 & IH2 & IH3).
    split; [|split].
    + cbn [relock_f reorder_s]. exact IH1.
    + intros rest. cbn [rebuild_leaves mk_rec r_dt r_esz r_shape r_seg s_start app].
      pose proof (decode_in_context A np pre l (flat_f r ++ post) Hpre Hwf Hsz) as Hd.
      unfold lspecs in *. rewrite Hd. rewrite (proj2 (Nat.eqb_eq _ _) Hal).
      rewrite IH2. cbn [part_l fapp]. reflexivity.
    + intros rest. apply IH3.
  - (* FNonT *)
    intros k p bs r IH pre post pl Hpre Hres Hside. cbn [flat_f no_reserved_f] in *.
    specialize (IH pre post pl Hpre Hres Hside). cbv zeta in *.
    unfold mf_subs, mf_lvs, mf_nts in *. cbn [meta_f mark_f].
    destruct (meta_f A np r (total A np (lspecs pre))) as [[[nts lvs] subs] stop] eqn:E.
    destruct (mark_f A np r (total A np (lspecs pre))) as [mf e] eqn:Em.
    cbn [fst snd] in *. destruct IH as (IH1 & IH2 & IH3).
    split; [|split].
    + cbn [relock_f reorder_s]. exact IH1.
    + intros rest. cbn [part_l]. apply IH2.
    + intros rest. cbn [nts_forest part_n fapp]. now rewrite IH3.
  - (* FSub *)
    intros k t IHt r IHr pre post pl Hpre Hres Hside. cbn [flat_f no_reserved_f] in *.
    apply andb_true_iff in Hres as [Hres Hres_r]. apply andb_true_iff in Hres as [Hres Hres_t].
    apply andb_true_iff in Hres as [Hrr Hrd]. apply negb_true_iff in Hrr, Hrd.
    apply side_app in Hside as [Hside_t Hside_r].
    assert (Hpre' : Forall wf_leaf (pre ++ flat t)) by (apply Forall_app; split; [exact Hpre|apply Hside_t]).
    assert (HS : total A np (lspecs (pre ++ flat t)) = total A np (lspecs pre) + total A np (lspecs (flat t))).
    { unfold lspecs. now rewrite map_app, total_app. }
    specialize (IHt pre (flat_f r ++ post) pl Hpre Hres_t Hside_t).
    specialize (IHr (pre ++ flat t) post pl Hpre' Hres_r). rewrite HS in IHr. specialize (IHr Hside_r). cbv zeta in IHr.
    rewrite <- app_assoc in IHr.
    cbv zeta. unfold mf_subs, mf_lvs, mf_nts in *. cbn [meta_f mark_f].
    pose proof (proj1 (meta_stop A np) t (total A np (lspecs pre))) as Hms.
    pose proof (proj1 (proj1 (mark_stop A np) t (total A np (lspecs pre)))) as Hks.
    destruct (meta_t A np t (total A np (lspecs pre))) as [mt mid] eqn:Et.
    destruct (mark_t A np t (total A np (lspecs pre))) as [t' mid'] eqn:Ek.
    cbn [fst snd] in *. subst mid mid'.
    destruct (meta_f A np r (total A np (lspecs pre) + total A np (lspecs (flat t)))) as [[[nts lvs] subs] stop] eqn:E.
    destruct (mark_f A np r (total A np (lspecs pre) + total A np (lspecs (flat t)))) as [mf e] eqn:Em.
    cbn [fst snd] in *. destruct IHr as (IH1 & IH2 & IH3).
    rewrite <- app_assoc.
    split; [|split].
    + cbn [rebuild_subs]. rewrite Hrr, IH1, Hrd, IHt. cbn [relock_f reorder_s]. reflexivity.
    + intros rest. cbn [part_l]. apply IH2.
    + intros rest. apply IH3.
Qed.
End Rebuild.

(* ------------------------------------------------------------------ consolidate(): the views *)
Fixpoint outmeta_t (tofile : bool) (t : tree) : tree :=
  match t with Node m f => Node (out_meta tofile m) (outmeta_f tofile f) end
with outmeta_f (tofile : bool) (f : forest) : forest :=
  match f with
  | FNil => FNil
  | FLeaf k l v r => FLeaf k l v (outmeta_f tofile r)
  | FNonT k p bs r => FNonT k p bs (outmeta_f tofile r)
  | FSub k t r => FSub k (outmeta_t tofile t) (outmeta_f tofile r)
  end.

Section View.
Variables (A : nat) (np tofile : bool).

Lemma view_ok_all :
  (forall t pre post, Forall wf_leaf pre -> side A np (total A np (lspecs pre)) (flat t) ->
     view_t A np tofile (encode A np (pre ++ flat t ++ post)) t (total A np (lspecs pre))
     = Ok (outmeta_t tofile (fst (mark_t A np t (total A np (lspecs pre)))), snd (mark_t A np t (total A np (lspecs pre))))) /\
  (forall f pre post, Forall wf_leaf pre -> side A np (total A np (lspecs pre)) (flat_f f) ->
     view_f A np tofile (encode A np (pre ++ flat_f f ++ post)) f (total A np (lspecs pre))
     = Ok (outmeta_f tofile (fst (mark_f A np f (total A np (lspecs pre)))), snd (mark_f A np f (total A np (lspecs pre))))).
Proof.
  apply tree_forest_ind.
  - intros m f IH pre post Hpre Hside. cbn [flat] in *. cbn [view_t mark_t]. rewrite (IH pre post Hpre Hside).
    destruct (mark_f A np f (total A np (lspecs pre))) as [mf e]. reflexivity.
  - intros pre post _ _. reflexivity.
  - intros k l v r IH pre post Hpre Hside. cbn [flat_f] in *.
    apply side_cons in Hside as [(Hwf & Hsz & Hal) Hside'].
    assert (Hpre' : Forall wf_leaf (pre ++ [l])) by (apply Forall_app; split; [exact Hpre|now constructor]).
    assert (HS : total A np (lspecs (pre ++ [l])) = total A np (lspecs pre) + flat_size A np (spec_of l)).
    { unfold lspecs. rewrite map_app, total_app. cbn. lia. }
    specialize (IH (pre ++ [l]) post Hpre'). rewrite HS in IH. specialize (IH Hside').
    rewrite <- app_assoc in IH. cbn [app] in IH.
    cbn [view_f mark_f mk_rec r_dt r_esz r_shape r_seg s_start s_stop app].
    pose proof (decode_in_context A np pre l (flat_f r ++ post) Hpre Hwf Hsz) as Hd.
    unfold lspecs in *. rewrite Hd, (proj2 (Nat.eqb_eq _ _) Hal), IH.
    destruct (mark_f A np r (total A np (map spec_of pre) + flat_size A np (spec_of l))) as [mf e]. reflexivity.
  - intros k p bs r IH pre post Hpre Hside. cbn [flat_f] in *. cbn [view_f mark_f]. rewrite (IH pre post Hpre Hside).
    destruct (mark_f A np r (total A np (lspecs pre))) as [mf e]. reflexivity.
  - intros k t IHt r IHr pre post Hpre Hside. cbn [flat_f] in *.
    apply side_app in Hside as [Hside_t Hside_r].
    assert (Hpre' : Forall wf_leaf (pre ++ flat t)) by (apply Forall_app; split; [exact Hpre|apply Hside_t]).
    assert (HS : total A np (lspecs (pre ++ flat t)) = total A np (lspecs pre) + total A np (lspecs (flat t))).
    { unfold lspecs. now rewrite map_app, total_app. }
    specialize (IHt pre (flat_f r ++ post) Hpre Hside_t).
    specialize (IHr (pre ++ flat t) post Hpre'). rewrite HS in IHr. specialize (IHr Hside_r).
    rewrite <- app_assoc in IHr.
    cbn [view_f mark_f]. rewrite <- app_assoc, IHt.
    pose proof (proj1 (proj1 (mark_stop A np) t (total A np (lspecs pre)))) as Hks.
    destruct (mark_t A np t (total A np (lspecs pre))) as [t' mid]. cbn [fst snd] in *. subst mid.
    rewrite IHr.
    destruct (mark_f A np r (total A np (lspecs pre) + total A np (lspecs (flat t)))) as [mf e]. reflexivity.
Qed.
End View.

(* ------------------------------------------------------------------ consolidate, then pickle *)
Definition tree_side (A : nat) (np : bool) (t : tree) : Prop :=
  wf_t t = true /\ no_reserved_t t = true /\ sizes_ok A np (flat t) = true /\ aligned_at A np 0 (lspecs (flat t)) = true.

Lemma tree_side_side A np t : tree_side A np t -> side A np 0 (flat t).
Proof. intros (H1 & _ & H3 & H4). split; [now apply wf_flat|split; assumption]. Qed.

Theorem consolidate_ok A np tofile t : tree_side A np t ->
  consolidate_tree A np tofile t
  = Ok {| cur := outmeta_t tofile (fst (mark_t A np t 0));
          snap := Some {| sn_meta := fst (meta_t A np (outmeta_t tofile (fst (mark_t A np t 0))) 0);
                          sn_storage := encode A np (flat t) |} |}.
Proof.
  intros Hs. unfold consolidate_tree.
  pose proof (proj1 (view_ok_all A np tofile) t [] [] (Forall_nil _) (tree_side_side _ _ _ Hs)) as H.
  cbn [app lspecs map] in H. rewrite app_nil_r in H. change (total A np []) with 0 in H. rewrite H. reflexivity.
Qed.

