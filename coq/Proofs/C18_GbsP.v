From Coq Require Import ZArith List Bool Lia ZifyBool.
From TD Require Import Spec.PySlice Model.SliceM Model.C18_Gbs Proofs.SliceP.
Open Scope Z_scope.
Ltac Zify.zify_post_hook ::= Z.to_euclidean_division_equations.

(* compile arm = eager arm of _getitem_batch_size on a slice, for every slice and every length *)
Theorem gbs_slice_dual start stop step len :
  0 <= len -> gbs_slice_dim true start stop step len = gbs_slice_dim false start stop step len.
Proof.
  intros Hl. unfold gbs_slice_dim. rewrite (slice_indices_opt_eq start stop step len Hl). cbv zeta.
  destruct (match step with Some s => s | None => 1 end =? 0); reflexivity.
Qed.

(* the range_len lemma: get_len_of_range counts exactly the positions the range enumerates, and is never negative *)
Lemma range_len_nonneg t : 0 <= range_len t.
Proof.
  destruct t as [[a b] c]. unfold range_len.
  destruct (c >? 0) eqn:?, (a <? b) eqn:?, (b <? a) eqn:?; try lia; nia.
Qed.

Lemma range_len_counts a b c k :
  c <> 0 -> (in_range (a, b, c) k <-> 0 <= k < range_len (a, b, c)).
Proof.
  intros Hc. unfold in_range, range_len.
  destruct (c >? 0) eqn:Ec.
  - destruct (a <? b) eqn:Eab; split; intros H; try nia.
  - destruct (b <? a) eqn:Eba; split; intros H; try nia.
Qed.

(* hence the batch dimension both arms report is the number of valid positions selected, >= 0 *)
Lemma some_range_nonneg t n : Some (range_len t) = Some n -> 0 <= n.
Proof. intros H. injection H as H. rewrite <- H. apply range_len_nonneg. Qed.

Corollary gbs_slice_dim_nonneg compile start stop step len n :
  gbs_slice_dim compile start stop step len = Some n -> 0 <= n.
Proof.
  unfold gbs_slice_dim. destruct compile.
  - destruct (slice_indices_opt start stop step len) as [t|]; [apply some_range_nonneg|discriminate].
  - lazy zeta. destruct (match step with Some s => s | None => 1 end =? 0); [discriminate|apply some_range_nonneg].
Qed.
