(* Indexed writes: the batch size a value is brought to, the shape of a newly created entry, acceptance on flat trees,
   and the D30 witness. *)
From Coq Require Import ZArith List Bool String Lia.
Import ListNotations.
From TD Require Import Spec.PySlice Model.C03_Index Spec.C03_TorchIndex Spec.C03_TorchSel Model.C03_SetItem
  Proofs.C03_IndexP Proofs.C03_SelP.
Open Scope nat_scope.

Lemma shape_eqb_eq a : forall b, shape_eqb a b = true -> a = b.
Proof.
  induction a as [|x a IH]; intros [|y b] H; cbn in H; try discriminate; [reflexivity|].
  apply andb_prop in H. destruct H as [H1 H2]. apply Nat.eqb_eq in H1. subst. f_equal. now apply IH.
Qed.
Lemma shape_eqb_refl a : shape_eqb a a = true.
Proof. induction a as [|x a IH]; cbn; [reflexivity|]. now rewrite Nat.eqb_refl, IH. Qed.

Lemma torch_shape_ne bs idx sl B :
  slots idx bs = Some sl -> bcast_all (adv_shapes idx) = Ok B -> torch_shape bs idx = Some (place B sl).
Proof.
  intros Hs HB. unfold torch_shape, expand_ell.
  rewrite (filter_ell_none idx (slots_no_ell _ _ _ Hs)). cbn [List.length]. now rewrite Hs, HB.
Qed.

(* the batch size a tensordict / dict value is expanded (or reset) to = the shape torch gives the indexed batch *)
Theorem setitem_target_torch bs idx T :
  existsb is_ell idx = false -> torch_shape bs idx = Some T -> setitem_target bs idx = Ok T.
Proof. intros. now apply gbs_eq_torch_shape. Qed.

Theorem setitem_action_torch bs idx vbs T a :
  existsb is_ell idx = false -> torch_shape bs idx = Some T -> setitem_value_action bs idx vbs = Ok a ->
  (a = SetAsIs /\ vbs = T) \/ (a = SetExpand T /\ is_suffix vbs T = true) \/ (a = SetReshape T /\ is_suffix vbs T = false).
Proof.
  intros Hne HT. unfold setitem_value_action. rewrite (gbs_eq_torch_shape bs idx T Hne HT).
  match goal with |- context [if ?c vbs T then _ else _] => destruct (c vbs T) eqn:E end.
  - intros H; injection H as <-. left. split; [reflexivity|]. now apply shape_eqb_eq.
  - destruct (is_suffix vbs T) eqn:Es; intros H; injection H as <-; auto.
Qed.

(* a key missing from the destination: the entry created for it, indexed with the same index, has exactly the shape of
   the value — for every rank and every Ellipsis-free index torch accepts on the batch shape *)
Theorem new_key_shape bs idx sl B s :
  slots idx bs = Some sl -> bcast_all (adv_shapes idx) = Ok B ->
  prefix_is (place B sl) s = true ->
  torch_shape (new_shape bs (place B sl) s) idx = Some s.
Proof.
  intros Hs HB Hp. unfold new_shape, prefix_is in *. apply shape_eqb_eq in Hp.
  rewrite (torch_shape_ne (bs ++ skipn (List.length (place B sl)) s) idx (sl ++ map K (skipn (List.length (place B sl)) s)) B).
  - rewrite place_app_K. f_equal. rewrite <- Hp at 1. apply firstn_skipn.
  - now apply slots_app_feat.
  - assumption.
Qed.

(* ---- acceptance on flat trees: a tensordict value whose batch size is the indexed batch size, entries that are leaves of
   the destination: accepted as soon as torch accepts every entry write (what D30 breaks for nested dict values) *)
Lemma replace_key_same k c l : find_key k l = Some c -> replace_key k c l = l.
Proof.
  induction l as [|[k' c'] r IH]; intros H; cbn in *; [reflexivity|].
  destruct (String.eqb k k') eqn:E; [now injection H as ->|]. f_equal. now apply IH.
Qed.

Definition flat_item_ok (kids : list (string * vtree)) (idx : list item) (p : string * vtree) : Prop :=
  exists L s, snd p = VL s /\ find_key (fst p) kids = Some (VL L) /\ torch_write_ok L idx s = true.

Theorem setitem_flat_accepts f bs kids idx T items :
  gbs bs idx = Ok T -> Forall (flat_item_ok kids idx) items ->
  setitem (S (S f)) (VN bs kids) idx (WTree (VN T items)) = Ok (VN bs kids).
Proof.
  intros HT Hall. cbn [setitem]. rewrite HT, shape_eqb_refl.
  match goal with |- match fold_left ?F items (Ok kids) with _ => _ end = _ =>
    assert (Hf : fold_left F items (Ok kids) = Ok kids) end.
  { induction Hall as [|[k item] items (L & s & Hi & Hk & Hw) _ IH]; [reflexivity|].
    cbn [fold_left fst snd] in *. subst item. rewrite Hk. cbn [setitem]. rewrite Hw.
    rewrite (replace_key_same _ _ _ Hk). exact IH. }
  now rewrite Hf.
Qed.

(* ---- the spec of acceptance for nested values: torch accepts every leaf write *)
Fixpoint leafwise_ok (dest v : vtree) (idx : list item) : bool :=
  match v, dest with
  | VL s, VL L => torch_write_ok L idx s
  | VN _ items, VN _ kids =>
      forallb (fun p => match find_key (fst p) kids with Some d => leafwise_ok d (snd p) idx | None => false end) items
  | _, _ => false
  end.

Definition d30_dest : vtree := VN [2] [("n"%string, VN [2; 2] [("c"%string, VL [2; 2; 3])])].
Definition d30_value : vtree := VN [] [("n"%string, VN [] [("c"%string, VL [2; 2; 3])])].

Theorem setitem_dict_refuted :
  exists dest idx t, leafwise_ok dest t idx = true /\ setitem 8 dest idx (WDict t) = Reject.
Proof. exists d30_dest, [full_slice], d30_value. split; vm_compute; reflexivity. Qed.

(* the same write with the nested batch size stated (a tensordict value) is accepted *)
Example d30_as_tensordict :
  setitem 8 d30_dest [full_slice] (WTree (VN [2] [("n"%string, VN [2; 2] [("c"%string, VL [2; 2; 3])])])) = Ok d30_dest.
Proof. vm_compute. reflexivity. Qed.

(* ---- the frame: an entry of shape bs ++ feat written through idx is touched exactly at (written bs idx) x (all f) *)
Lemma app_inv_len {X} (p p' f f' : list X) : List.length f = List.length f' -> p ++ f = p' ++ f' -> p = p'.
Proof.
  intros Hl H.
  assert (Hp : List.length p = List.length p').
  { apply (f_equal (@List.length X)) in H. rewrite !app_length in H. lia. }
  revert p' Hp H. induction p as [|x p IH]; intros [|y p'] Hp H; cbn in *; try discriminate; [reflexivity|].
  injection H as -> H. f_equal. apply IH; [lia|assumption].
Qed.

Theorem write_frame bs feat idx p f :
  existsb is_ell (map erase idx) = false -> total_consumed (map erase idx) <= List.length bs ->
  List.length f = List.length feat ->
  ~ written_ne bs idx p -> ~ written_ne (bs ++ feat) idx (p ++ map Z.of_nat f).
Proof.
  intros Hne Hc Hf Hn Hw. apply (written_feat bs feat idx _ Hne Hc) in Hw.
  destruct Hw as (p' & f' & Heq & Hw & Hr). apply Hn.
  assert (p = p'); [|now subst].
  eapply app_inv_len; [|exact Heq]. rewrite !map_length. rewrite Hf. symmetry. exact (in_range_length _ _ Hr).
Qed.

(* ---- nothing else: an entry whose key is not in the value is the same after the write *)
Lemma find_replace_other k k' c l : k' <> k -> find_key k' (replace_key k c l) = find_key k' l.
Proof.
  intros Hk. induction l as [|[k0 c0] r IH]; [reflexivity|]. cbn [replace_key].
  destruct (String.eqb k k0) eqn:E.
  - apply String.eqb_eq in E. subst k0. cbn [find_key].
    destruct (String.eqb k' k) eqn:E2; [apply String.eqb_eq in E2; contradiction|reflexivity].
  - cbn [find_key]. now rewrite IH.
Qed.

Lemma find_app_other k k' c l : k' <> k -> find_key k' (l ++ [(k, c)]) = find_key k' l.
Proof.
  intros Hk. induction l as [|[k0 c0] r IH]; cbn [app find_key].
  - destruct (String.eqb k' k) eqn:E; [apply String.eqb_eq in E; contradiction|reflexivity].
  - now rewrite IH.
Qed.

Theorem setitem_other_keys f bs kids idx T items d' k' :
  gbs bs idx = Ok T ->
  setitem (S f) (VN bs kids) idx (WTree (VN T items)) = Ok d' ->
  ~ In k' (map fst items) ->
  exists kids', d' = VN bs kids' /\ find_key k' kids' = find_key k' kids.
Proof.
  intros HT. cbn [setitem]. rewrite HT, shape_eqb_refl.
  match goal with |- match fold_left ?F items (Ok kids) with _ => _ end = _ -> _ => set (step := F) end.
  intros H Hn.
  assert (Inv : forall its acc ks', fold_left step its acc = Ok ks' -> ~ In k' (map fst its) ->
                  exists ks0, acc = Ok ks0 /\ find_key k' ks' = find_key k' ks0).
  { induction its as [|[k item] its IH]; intros acc ks' Hf Hni; cbn [fold_left] in Hf.
    - exists ks'. auto.
    - cbn [map fst In] in Hni.
      destruct (IH _ _ Hf ltac:(tauto)) as (ks1 & Hs & Hk1).
      destruct acc as [ks0|]; [|discriminate]. exists ks0. split; [reflexivity|].
      rewrite Hk1. unfold step in Hs.
      destruct (find_key k ks0) as [d|].
      + match type of Hs with match ?X with _ => _ end = _ => destruct X as [d2|]; [|discriminate] end.
        injection Hs as <-. apply find_replace_other. intros ->. tauto.
      + match type of Hs with match ?X with _ => _ end = _ => destruct X as [it|]; [|discriminate] end.
        match type of Hs with match ?X with _ => _ end = _ => destruct X as [d2|]; [|discriminate] end.
        injection Hs as <-. apply find_app_other. intros ->. tauto. }
  destruct (fold_left step items (Ok kids)) as [kids'|] eqn:Ef; [|discriminate]. injection H as <-.
  exists kids'. split; [reflexivity|].
  destruct (Inv items (Ok kids) kids' Ef Hn) as (ks0 & E0 & Hk). injection E0 as <-. exact Hk.
Qed.

(* terms of a non-vacuity example (string literals live here) *)
Definition ex12_dest : vtree := VN [3; 4] [("a"%string, VL [3; 4; 2]); ("b"%string, VL [3; 4])].
Definition ex12_value : vtree := VN [4] [("b"%string, VL [4]); ("z"%string, VL [4; 7])].
Definition ex12_result : vtree := VN [3; 4] [("a"%string, VL [3; 4; 2]); ("b"%string, VL [3; 4]); ("z"%string, VL [3; 4; 7])].
