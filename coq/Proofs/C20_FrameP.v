(* C20 — apply_mutates_only: which objects of the caller the result is made of.
   not in place, no out=: none (everything is new);   out=: only objects of out (and it is out that is returned);
   in place: exactly the objects, keys and leaf storages of self (only contents change). *)
From Coq Require Import ZArith List String Bool Lia.
Import ListNotations.
From TD Require Import Model.C20_Apply Model.C20_Spec Proofs.C20_EraseP.
Open Scope string_scope.

Section FrameP.
Variable A : Type.
Variable o : opts.
Variable fn : option (list string) -> tree A -> list (option (tree A)) -> option A.
Notation tree := (tree A).
Notation forest := (forest A).
Notation racc := (racc A).
Notation olds_t := (olds_t A).
Notation olds_f := (olds_f A).

Ltac inv H := inversion H; subst; clear H.

Lemma bind_ok {X Y} (r : res X) (f : X -> res Y) y : bind r f = Ok y -> exists x, r = Ok x /\ f x = Ok y.
Proof. destruct r; cbn [bind]; [eauto|discriminate|discriminate]. Qed.

Lemma olds_f_cons k (t : tree) (r : forest) : olds_f (FCons k t r) = (olds_t t ++ olds_f r)%list.
Proof. reflexivity. Qed.
Lemma olds_t_node ob m (f : forest) : olds_t (Node ob m f) = (ob_ids ob ++ olds_f f)%list.
Proof. reflexivity. Qed.

(* ------------------------------------------------------------------ the maps of _validate_value introduce no old object *)
Lemma olds_to_dev d : forall f : forest, incl (olds_f (f_to_dev A d f)) (olds_f f).
Proof.
  apply (forest_mind A (fun t => match t with Node _ _ g => incl (olds_f (f_to_dev A d g)) (olds_f g) | _ => True end)
                       (fun f => incl (olds_f (f_to_dev A d f)) (olds_f f))); try (intros; exact I).
  - intros _ _ f IH. exact IH.
  - apply incl_refl.
  - intros k t IHt r IHr. cbn [f_to_dev]. rewrite !olds_f_cons. apply incl_app; [|now apply incl_appr].
    destruct t as [s v|ob p m|ob m g].
    + now apply incl_appl, incl_refl.
    + intros x [].
    + rewrite !olds_t_node. cbn [ob_ids app]. apply incl_appl. now apply incl_appr.
Qed.
Lemma olds_clone : forall f : forest, incl (olds_f (f_clone A f)) (olds_f f).
Proof.
  apply (forest_mind A (fun t => match t with Node _ _ g => incl (olds_f (f_clone A g)) (olds_f g) | _ => True end)
                       (fun f => incl (olds_f (f_clone A f)) (olds_f f))); try (intros; exact I).
  - intros _ _ f IH. exact IH.
  - apply incl_refl.
  - intros k t IHt r IHr. cbn [f_clone]. rewrite !olds_f_cons. apply incl_app; [|now apply incl_appr].
    destruct t as [s v|ob p m|ob m g].
    + now apply incl_appl, incl_refl.
    + intros x [].
    + rewrite !olds_t_node. cbn [ob_ids app]. apply incl_appl. now apply incl_appr.
Qed.
Lemma olds_rename : forall (f : forest) ns, olds_f (f_rename A ns f) = olds_f f.
Proof.
  apply (forest_mind A (fun t => match t with Node _ _ g => forall ns, olds_f (f_rename A ns g) = olds_f g | _ => True end)
                       (fun f => forall ns, olds_f (f_rename A ns f) = olds_f f)); try (intros; exact I); try reflexivity.
  - intros _ _ f IH. exact IH.
  - intros k t IHt r IHr ns. cbn [f_rename]. rewrite !olds_f_cons, IHr.
    destruct t as [s v|ob p m|ob m g]; try reflexivity. now rewrite !olds_t_node, IHt.
Qed.
Lemma olds_set_dev d : forall f : forest, olds_f (f_set_dev A d f) = olds_f f.
Proof.
  apply (forest_mind A (fun t => match t with Node _ _ g => olds_f (f_set_dev A d g) = olds_f g | _ => True end)
                       (fun f => olds_f (f_set_dev A d f) = olds_f f)); try (intros; exact I); try reflexivity.
  - intros _ _ f IH. exact IH.
  - intros k t IHt r IHr. cbn [f_set_dev]. rewrite !olds_f_cons, IHr.
    destruct t as [s v|ob p m|ob m g]; try reflexivity. now rewrite !olds_t_node, IHt.
Qed.
Lemma olds_lock : forall f : forest, olds_f (f_lock A f) = olds_f f.
Proof.
  apply (forest_mind A (fun t => match t with Node _ _ g => olds_f (f_lock A g) = olds_f g | _ => True end)
                       (fun f => olds_f (f_lock A f) = olds_f f)); try (intros; exact I); try reflexivity.
  - intros _ _ f IH. exact IH.
  - intros k t IHt r IHr. cbn [f_lock]. rewrite !olds_f_cons, IHr.
    destruct t as [s v|ob p m|ob m g]; try reflexivity. now rewrite !olds_t_node, IHt.
Qed.

Lemma olds_fset : forall (f : forest) k v, incl (olds_f (fset A f k v)) (olds_f f ++ olds_t v).
Proof.
  induction f as [|k' t r IH]; intros k v; cbn [fset].
  - rewrite olds_f_cons. cbn. rewrite app_nil_r. apply incl_refl.
  - destruct (String.eqb k k'); rewrite !olds_f_cons.
    + apply incl_app; [now apply incl_appr, incl_refl|]. now apply incl_appl, incl_appr.
    + apply incl_app; [now apply incl_appl, incl_appl, incl_refl|].
      intros x Hx. apply IH in Hx. apply in_app_or in Hx. apply in_or_app. destruct Hx; [left; apply in_or_app; now right|now right].
Qed.
Lemma olds_fget : forall (f : forest) k t, fget A f k = Some t -> incl (olds_t t) (olds_f f).
Proof.
  induction f as [|k' t' r IH]; intros k t; cbn [fget]; [discriminate|].
  rewrite olds_f_cons. destruct (String.eqb k k').
  - intro H. inv H. now apply incl_appl, incl_refl.
  - intro H. apply incl_appr. now apply (IH k).
Qed.

Definition acc_olds (a : racc) : list Z := (ob_ids (r_obj A a) ++ olds_f (r_f A a))%list.

Lemma validate_olds (r : racc) (v : tree) r' v' :
  validate A r v = Ok (r', v') -> incl (olds_t v') (olds_t v) /\ acc_olds r' = acc_olds r.
Proof.
  unfold validate. destruct (meta_of A v) as [vm0|] eqn:Em.
  2:{ intro H. inv H. split; [apply incl_refl|reflexivity]. }
  intro H. apply bind_ok in H. destruct H as (v1 & H1 & H).
  assert (E1 : incl (olds_t v1) (olds_t v)).
  { destruct (nil_b (m_bs (r_meta A r)) || list_eqb Nat.eqb (firstn (List.length (m_bs (r_meta A r))) (m_bs vm0)) (m_bs (r_meta A r))).
    - inv H1. apply incl_refl.
    - destruct v; try discriminate. inv H1. intros x []. }
  set (v2 := match m_dev (r_meta A r) with
             | Some d => match meta_of A v1 with
                         | Some vm => if odev_eqb (m_dev vm) (Some d) then v1 else t_to_dev A d v1
                         | None => v1 end
             | None => v1 end) in H.
  assert (E2 : incl (olds_t v2) (olds_t v)).
  { unfold v2. destruct (m_dev (r_meta A r)); [|exact E1]. destruct (meta_of A v1); [|exact E1].
    destruct (odev_eqb (m_dev m) (Some d)); [exact E1|].
    eapply incl_tran; [|exact E1]. destruct v1 as [s x|ob p mm|ob mm g]; cbn [t_to_dev].
    - apply incl_refl.
    - intros x [].
    - rewrite !olds_t_node. cbn [ob_ids app]. apply incl_appr. apply olds_to_dev. }
  clearbody v2.
  destruct (nil_b (m_bs (r_meta A r))). { inv H. auto. }
  destruct (meta_of A v2) as [vm|] eqn:Em2. 2:{ inv H. auto. }
  destruct (m_names (r_meta A r)) as [pn|].
  - destruct (list_eqb ostr_eqb (firstn_names (List.length (m_bs (r_meta A r))) vm) pn). { inv H. auto. }
    destruct (negb (refine_ok (names_list vm) pn)); [discriminate|].
    destruct (negb (Nat.eqb (List.length pn) (List.length (m_bs vm)))); [discriminate|].
    inv H. split; [|reflexivity].
    eapply incl_tran; [|exact E2]. destruct v2 as [s x|ob p mm|ob mm g].
    + apply incl_refl.
    + intros x [].
    + rewrite !olds_t_node. cbn [ob_ids app]. apply incl_appr. rewrite olds_rename. apply olds_clone.
  - destruct (m_names vm).
    + inv H. split; [exact E2|]. unfold acc_olds. cbn [r_obj r_f]. now rewrite olds_rename.
    + inv H. auto.
Qed.

(* every write puts into the container the value (or, in place, a content into an entry of the container) *)
Lemma set_item_olds (r : racc) k (v : tree) r' :
  set_item A o r k v = Ok r' -> incl (acc_olds r') (acc_olds r ++ olds_t v) /\ r_obj A r' = r_obj A r.
Proof.
  unfold set_item. intro H. apply bind_ok in H. destruct H as ([r1 v1] & Hv & H).
  assert (Hval : incl (olds_t v1) (olds_t v) /\ acc_olds r1 = acc_olds r).
  { destruct (o_checked o); [inv Hv; split; [apply incl_refl|reflexivity]|now apply validate_olds]. }
  destruct Hval as (Ev & Ea).
  assert (Eo : r_obj A r1 = r_obj A r).
  { destruct (o_checked o); [now inv Hv|]. unfold validate in Hv.
    destruct (meta_of A v); [|now inv Hv]. apply bind_ok in Hv. destruct Hv as (x & _ & Hv).
    destruct (nil_b (m_bs (r_meta A r))); [now inv Hv|].
    match type of Hv with match meta_of A ?y with _ => _ end = _ => destruct (meta_of A y) as [vm|] end; [|now inv Hv].
    destruct (m_names (r_meta A r)).
    - destruct (list_eqb ostr_eqb (firstn_names (List.length (m_bs (r_meta A r))) vm) l); [now inv Hv|].
      destruct (negb (refine_ok (names_list vm) l)); [discriminate|].
      destruct (negb (Nat.eqb (List.length l) (List.length (m_bs vm)))); [discriminate|]. now inv Hv.
    - destruct (m_names vm); now inv Hv. }
  assert (Hplain : forall x, incl (olds_t x) (olds_f (r_f A r1) ++ olds_t v) ->
            incl (acc_olds (mkAcc A (r_obj A r1) (r_meta A r1) (fset A (r_f A r1) k x))) (acc_olds r ++ olds_t v)).
  { intros x Hx. unfold acc_olds at 1. cbn [r_obj r_f]. rewrite <- Ea. unfold acc_olds.
    apply incl_app; [now apply incl_appl, incl_appl, incl_refl|].
    intros y Hy. apply olds_fset in Hy. apply in_app_or in Hy. destruct Hy as [Hy|Hy].
    - apply in_or_app. left. apply in_or_app. now right.
    - apply Hx in Hy. apply in_app_or in Hy. apply in_or_app. destruct Hy; [left; apply in_or_app; now right|now right]. }
  assert (Hval' : incl (olds_t v1) (olds_f (r_f A r1) ++ olds_t v)) by (now apply incl_appr).
  destruct (if o_inplace o then fget A (r_f A r) k else None) as [d|] eqn:Ed.
  - assert (Hd : incl (olds_t d) (olds_f (r_f A r1))).
    { destruct (o_inplace o); [|discriminate]. apply olds_fget in Ed.
      assert (E : incl (olds_f (r_f A r)) (olds_f (r_f A r1))).
      { assert (acc_olds r1 = acc_olds r) by exact Ea. unfold acc_olds in H0. rewrite Eo in H0. apply app_inv_head in H0. rewrite H0. apply incl_refl. }
      eapply incl_tran; eassumption. }
    destruct d as [s x|od dp dm|od dm df].
    + destruct v1 as [s1 x1| |]; try discriminate. inv H. split; [|exact Eo]. apply Hplain. now apply incl_appl.
    + destruct v1 as [s1 x1|ov vp vm|]; try discriminate. { destruct s1; discriminate. }
      assert (Hr : r' = mkAcc A (r_obj A r1) (r_meta A r1) (fset A (r_f A r1) k (NonT od vp dm))).
      { destruct (match ov, od with New, _ => true | Old b, Old a => Z.eqb a b | _, _ => false end); [now inv H|].
        destruct (m_lock dm); [discriminate|now inv H]. }
      subst r'. split; [|exact Eo]. apply Hplain. now apply incl_appl.
    + destruct v1 as [| |ov vm vf]; try discriminate.
      destruct od as [a|]; [|discriminate]. destruct ov as [b|]; [|discriminate].
      destruct (Z.eqb a b); [|discriminate]. inv H. split; [|exact Eo]. now apply Hplain.
  - destruct (m_lock (r_meta A r1)); [discriminate|]. inv H. split; [|exact Eo]. now apply Hplain.
Qed.


(* ------------------------------------------------------------------ not in place: the result is made of new objects and of objects of out= *)
Definition P_olds (items : forest) : Prop :=
  forall con prefix sm sf others out names acc any res any' L,
    o_inplace o = false ->
    (forall X, out = Some X -> incl (olds_t X) L) ->
    (forall a, acc = Some a -> incl (acc_olds a) L) ->
    apply_items A o fn con prefix sm sf others out names items acc any = Ok (res, any') ->
    (forall a', res = Some a' -> incl (acc_olds a') L)
    /\ (forall a a', acc = Some a -> res = Some a' -> r_obj A a' = r_obj A a)
    /\ (acc <> None -> res <> None).

Lemma level_init_olds so sm sf out init L :
  o_inplace o = false -> (forall X, out = Some X -> incl (olds_t X) L) ->
  level_init A o so sm sf out = Ok init ->
  (forall a, init = Some a -> incl (acc_olds a) L /\ exists om og, out = Some (Node (r_obj A a) om og))
  /\ (out <> None -> init <> None).
Proof.
  intros Hi HL. unfold level_init. rewrite Hi. destruct out as [[| |oo om og]|]; try discriminate.
  - destruct (m_lock om); [discriminate|].
    destruct (match o_bs o with Some b => negb (list_eqb Nat.eqb b (m_bs om)) | None => false end); [discriminate|].
    specialize (HL _ eq_refl). rewrite olds_t_node in HL.
    destruct (o_dev o) as [d|].
    + destruct (odev_eqb d (m_dev om)).
      * intro H. inv H. split; [|discriminate]. intros a Ha. inv Ha. split; [exact HL|eauto].
      * destruct (o_checked o); [|discriminate]. destruct d; [|discriminate]. intro H. inv H. split; [|discriminate].
        intros a Ha. inv Ha. unfold acc_olds. cbn [r_obj r_f]. rewrite olds_set_dev. split; [exact HL|eauto].
    + intro H. inv H. split; [|discriminate]. intros a Ha. inv Ha. split; [exact HL|eauto].
  - intro H. inv H. split; [discriminate|congruence].
Qed.

Lemma P_olds_all : forall items, P_olds items.
Proof.
  apply (forest_mind A (fun t => match t with Node _ _ g => P_olds g | _ => True end) P_olds).
  - intros; exact I.
  - intros; exact I.
  - intros _ _ f IH. exact IH.
  - intros con prefix sm sf others out names acc any res any' L Hi HoL HaL H. cbn [apply_items] in H. inv H.
    repeat split; auto. intros a a' E1 E2. congruence.
  - intros k item IHt rest IHr con prefix sm sf others out names acc any res any' L Hi HoL HaL H.
    cbn [apply_items] in H. apply bind_ok in H. destruct H as (t & Htr & Hrun).
    set (acc1 := match acc with Some a => a | None => make_result A o sm names end) in Hrun.
    assert (Hacc1 : incl (acc_olds acc1) L).
    { unfold acc1. destruct acc as [a|]; [now apply HaL|]. intros x []. }
    assert (Ht : forall v, t = Some v -> incl (olds_t v) L).
    { intros v ->. destruct (negb con && negb (o_is_leaf o (kind_of A item))).
      - apply bind_ok in Htr. destruct Htr as (others' & _ & Htr).
        apply bind_ok in Htr. destruct Htr as (out_k & Hok & Htr).
        assert (Hokl : forall X, out_k = Some X -> incl (olds_t X) L).
        { intros X ->. rewrite Hi in Hok.
          destruct out as [X0|]; [|discriminate Hok].
          destruct acc as [a|].
          - cbn [out_child acc_tree oget] in Hok. injection Hok as Hok. apply olds_fget in Hok.
            eapply incl_tran; [exact Hok|]. eapply incl_tran; [|exact (HaL a eq_refl)]. unfold acc_olds. now apply incl_appr, incl_refl.
          - cbn [out_child] in Hok. destruct X0 as [| |oo om og]; cbn [oget] in Hok; try discriminate. injection Hok as Hok.
            apply olds_fget in Hok. eapply incl_tran; [exact Hok|].
            eapply incl_tran; [|exact (HoL _ eq_refl)]. rewrite olds_t_node. now apply incl_appr, incl_refl. }
        destruct item as [s x|io d im|io im g]; [discriminate| |].
        + inv Htr. unfold nont_apply. intros x [].
        + apply bind_ok in Htr. destruct Htr as (init & Hinit & Htr).
          apply bind_ok in Htr. destruct Htr as ([resn anyn] & Hnest & Htr). cbn [fst snd] in Htr. inv Htr.
          destruct (level_init_olds io im g out_k init L Hi Hokl Hinit) as (Hin1 & _).
          destruct (IHt false (prefix ++ [k])%list im g others' out_k None init false resn anyn L Hi Hokl) as (N1 & _ & _).
          { intros a Ha. now apply Hin1. } { exact Hnest. }
          unfold level_finish in H0.
          assert (Hres : incl (olds_t (acc_tree A (match resn with Some a => a | None => make_result A o im None end))) L).
          { unfold acc_tree. rewrite olds_t_node. destruct resn as [a|]; [now apply (N1 a)|]. intros x []. }
          destruct (o_fe o) as [[|]|].
          * destruct anyn; inv H0. exact Hres.
          * inv H0. exact Hres.
          * destruct (negb anyn && negb (f_is_empty A g)); inv H0. exact Hres.
      - apply bind_ok in Htr. destruct Htr as (args & _ & Htr). inv Htr.
        destruct (fn (keyarg o prefix k) item args); inv H0. intros x []. }
    destruct t as [v|].
    + apply bind_ok in Hrun. destruct Hrun as (acc' & Hset & Hrun).
      destruct (set_item_olds acc1 k v acc' Hset) as (S1 & S2).
      assert (Hacc' : incl (acc_olds acc') L).
      { eapply incl_tran; [exact S1|]. apply incl_app; [exact Hacc1|now apply Ht]. }
      destruct (IHr con prefix sm sf others out names (Some acc') true res any' L Hi HoL) as (R1 & R2 & R3).
      { intros a Ha. inv Ha. exact Hacc'. } { exact Hrun. }
      split; [exact R1|]. split.
      * intros a a' Ea Er. subst acc. rewrite (R2 acc' a' eq_refl Er). exact S2.
      * intros _. apply R3. discriminate.
    + now apply (IHr con prefix sm sf others out names acc any res any' L Hi HoL HaL).
Qed.

(* apply_mutates_only, part 1: not in place, every object of the caller found in the result is an object of out=
   (none without out=), and with out= it is out itself that is returned *)
Theorem result_objects : forall con propagate so sm sf others out names r,
  o_inplace o = false ->
  front A o fn con propagate (Node so sm sf) others out names = Ok (Some r) ->
  incl (olds_t r) (match out with Some X => olds_t X | None => [] end)
  /\ (forall oo om og, out = Some (Node oo om og) -> exists m f, r = Node oo m f).
Proof.
  intros con propagate so sm sf others out names r Hi H.
  cbn [front] in H. apply bind_ok in H. destruct H as (r0 & Hnest & H).
  unfold apply_nest in Hnest. apply bind_ok in Hnest. destruct Hnest as (init & Hinit & Hnest).
  apply bind_ok in Hnest. destruct Hnest as ([res any'] & Hitems & Hfin). cbn [fst snd] in Hfin.
  set (L := match out with Some X => olds_t X | None => [] end).
  assert (HoL : forall X, out = Some X -> incl (olds_t X) L) by (intros X ->; apply incl_refl).
  destruct (level_init_olds so sm sf out init L Hi HoL Hinit) as (Hin1 & Hin2).
  destruct (P_olds_all sf con [] sm sf others out names init false res any' L Hi HoL) as (R1 & R2 & R3).
  { intros a Ha. now apply Hin1. } { exact Hitems. }
  assert (Hr0 : forall x, r0 = Some x -> incl (olds_t x) L /\ (forall oo om og, out = Some (Node oo om og) -> exists m f, x = Node oo m f)).
  { intros x ->. injection Hfin as Hfin. unfold level_finish in Hfin.
    assert (Hres : x = acc_tree A (match res with Some a => a | None => make_result A o sm names end)).
    { destruct (o_fe o) as [[|]|].
      - destruct any'; now inv Hfin.
      - now inv Hfin.
      - destruct (negb any' && negb (f_is_empty A sf)); now inv Hfin. }
    subst x. unfold acc_tree. rewrite olds_t_node. split.
    - destruct res as [a|]; [now apply (R1 a)|]. intros y [].
    - intros oo om og ->. destruct init as [a0|]; [|exfalso; now apply Hin2].
      destruct (Hin1 a0 eq_refl) as (_ & om' & og' & E). inv E.
      destruct res as [a|]; [|exfalso; apply R3; [discriminate|reflexivity]].
      rewrite (R2 a0 a eq_refl eq_refl). eauto. }
  injection H as H.
  destruct (propagate && negb (o_inplace o) && m_lock sm).
  - destruct r0 as [x|]; cbn [option_map] in H; [|discriminate]. inv H. destruct (Hr0 x eq_refl) as (Q1 & Q2). split.
    + destruct x as [s v|ob p m|ob m f]; cbn [t_lock]; try exact Q1. rewrite olds_t_node in *. now rewrite olds_lock.
    + intros oo om og E. destruct (Q2 oo om og E) as (m & f & ->). cbn [t_lock]. eauto.
  - subst r0. now apply Hr0.
Qed.


(* ------------------------------------------------------------------ in place: the same objects, keys and storages *)
Notation shape_t := (shape_t A).
Notation shape_f := (shape_f A).

Lemma shape_f_cons k (t : tree) (r : forest) : shape_f (FCons k t r) = (k, shape_t t) :: shape_f r.
Proof. reflexivity. Qed.
Lemma shape_t_node ob m (f : forest) : shape_t (Node ob m f) = HNode ob (shape_f f).
Proof. reflexivity. Qed.

Lemma shape_rename : forall (f : forest) ns, shape_f (f_rename A ns f) = shape_f f.
Proof.
  apply (forest_mind A (fun t => match t with Node _ _ g => forall ns, shape_f (f_rename A ns g) = shape_f g | _ => True end)
                       (fun f => forall ns, shape_f (f_rename A ns f) = shape_f f)); try (intros; exact I); try reflexivity.
  - intros _ _ f IH. exact IH.
  - intros k t IHt r IHr ns. cbn [f_rename]. rewrite !shape_f_cons, IHr.
    destruct t as [s v|ob p m|ob m g]; try reflexivity. now rewrite !shape_t_node, IHt.
Qed.

Lemma shape_fget : forall (f1 f2 : forest) k, shape_f f1 = shape_f f2 ->
  option_map shape_t (fget A f1 k) = option_map shape_t (fget A f2 k).
Proof.
  induction f1 as [|k1 t1 r1 IH]; intros [|k2 t2 r2] k; rewrite ?shape_f_cons; try discriminate; [reflexivity|].
  intro H. injection H as -> Ht Hr. cbn [fget]. destruct (String.eqb k k2); [cbn [option_map]; now rewrite Ht|now apply IH].
Qed.

Lemma shape_fset_same : forall (f : forest) k d x, fget A f k = Some d -> shape_t x = shape_t d -> shape_f (fset A f k x) = shape_f f.
Proof.
  induction f as [|k' t r IH]; intros k d x; cbn [fget fset]; [discriminate|].
  destruct (String.eqb k k').
  - intros H Hx. inv H. rewrite !shape_f_cons. now rewrite Hx.
  - intros H Hx. rewrite !shape_f_cons. now rewrite (IH k d x H Hx).
Qed.

Definition root_old (t : tree) : bool :=
  match t with Leaf _ _ => true | NonT (Old _) _ _ => true | Node (Old _) _ _ => true | _ => false end.

Lemma validate_shape (r : racc) (v : tree) r' v' :
  validate A r v = Ok (r', v') ->
  shape_f (r_f A r') = shape_f (r_f A r) /\ (root_old v' = true -> shape_t v' = shape_t v).
Proof.
  unfold validate. destruct (meta_of A v) as [vm0|] eqn:Em.
  2:{ intro H. inv H. auto. }
  intro H. apply bind_ok in H. destruct H as (v1 & H1 & H).
  assert (E1 : root_old v1 = true -> shape_t v1 = shape_t v).
  { destruct (nil_b (m_bs (r_meta A r)) || list_eqb Nat.eqb (firstn (List.length (m_bs (r_meta A r))) (m_bs vm0)) (m_bs (r_meta A r))).
    - now inv H1.
    - destruct v; try discriminate. inv H1. discriminate. }
  set (v2 := match m_dev (r_meta A r) with
             | Some d => match meta_of A v1 with
                         | Some vm => if odev_eqb (m_dev vm) (Some d) then v1 else t_to_dev A d v1
                         | None => v1 end
             | None => v1 end) in H.
  assert (E2 : root_old v2 = true -> shape_t v2 = shape_t v).
  { unfold v2. destruct (m_dev (r_meta A r)); [|exact E1]. destruct (meta_of A v1) eqn:Em1; [|exact E1].
    destruct (odev_eqb (m_dev m) (Some d)); [exact E1|].
    destruct v1 as [s x|ob p mm|ob mm g]; cbn [t_to_dev root_old]; try discriminate. }
  clearbody v2.
  destruct (nil_b (m_bs (r_meta A r))). { inv H. auto. }
  destruct (meta_of A v2) as [vm|] eqn:Em2. 2:{ inv H. auto. }
  destruct (m_names (r_meta A r)) as [pn|].
  - destruct (list_eqb ostr_eqb (firstn_names (List.length (m_bs (r_meta A r))) vm) pn). { inv H. auto. }
    destruct (negb (refine_ok (names_list vm) pn)); [discriminate|].
    destruct (negb (Nat.eqb (List.length pn) (List.length (m_bs vm)))); [discriminate|].
    inv H. split; [reflexivity|]. destruct v2 as [s x|ob p mm|ob mm g]; cbn [root_old]; discriminate.
  - destruct (m_names vm).
    + inv H. cbn [r_f]. split; [apply shape_rename|exact E2].
    + inv H. auto.
Qed.

Lemma set_item_shape (r : racc) k (v : tree) r' d :
  o_inplace o = true -> fget A (r_f A r) k = Some d ->
  (kind_of A d = KNode -> kind_of A v = KNode -> shape_t v = shape_t d) ->
  set_item A o r k v = Ok r' -> shape_f (r_f A r') = shape_f (r_f A r).
Proof.
  intros Hi Hd Hnode. unfold set_item. rewrite Hi, Hd. intro H. apply bind_ok in H. destruct H as ([r1 v1] & Hv & H).
  assert (Hval : shape_f (r_f A r1) = shape_f (r_f A r) /\ (root_old v1 = true -> shape_t v1 = shape_t v)).
  { destruct (o_checked o); [inv Hv; auto|now apply validate_shape]. }
  destruct Hval as (Ef & Ev).
  assert (Hd1 : exists d1, fget A (r_f A r1) k = Some d1 /\ shape_t d1 = shape_t d).
  { pose proof (shape_fget (r_f A r1) (r_f A r) k Ef) as E. rewrite Hd in E.
    destruct (fget A (r_f A r1) k) as [d1|]; [|discriminate]. cbn [option_map] in E. injection E as E. eauto. }
  destruct Hd1 as (d1 & Hd1 & Ed1).
  destruct d as [s x|od dp dm|od dm df].
  - destruct v1 as [s1 x1| |]; try discriminate. inv H. cbn [r_f]. rewrite <- Ef.
    apply (shape_fset_same _ k d1); [exact Hd1|]. rewrite Ed1. reflexivity.
  - destruct v1 as [s1 x1|ov vp vm|]; try discriminate. { destruct s1; discriminate. }
    assert (Hr : r' = mkAcc A (r_obj A r1) (r_meta A r1) (fset A (r_f A r1) k (NonT od vp dm))).
    { destruct (match ov, od with New, _ => true | Old b, Old a => Z.eqb a b | _, _ => false end); [now inv H|].
      destruct (m_lock dm); [discriminate|now inv H]. }
    subst r'. cbn [r_f]. rewrite <- Ef.
    apply (shape_fset_same _ k d1); [exact Hd1|]. rewrite Ed1. reflexivity.
  - destruct v1 as [| |ov vm vf]; try discriminate.
    destruct od as [a|]; [|discriminate]. destruct ov as [b|]; [|discriminate].
    destruct (Z.eqb a b) eqn:Eab; [|discriminate]. inv H. cbn [r_f]. rewrite <- Ef.
    apply (shape_fset_same _ k d1); [exact Hd1|]. rewrite Ed1.
    specialize (Ev eq_refl). rewrite Ev. apply Hnode; [reflexivity|].
    (* v is a node, since its validated form is one with an old root *)
    clear - Hv. destruct (o_checked o); [now inv Hv|].
    unfold validate in Hv. destruct v as [s x|ob p m|ob m g]; [|exfalso|reflexivity].
    + cbn [meta_of] in Hv. inv Hv.
    + cbn [meta_of] in Hv. apply bind_ok in Hv. destruct Hv as (v1 & H1 & Hv).
      assert (Hk : kind_of A v1 = KNonT).
      { destruct (nil_b (m_bs (r_meta A r)) || list_eqb Nat.eqb (firstn (List.length (m_bs (r_meta A r))) (m_bs m)) (m_bs (r_meta A r))); now inv H1. }
      destruct v1 as [|ob1 p1 m1|]; try discriminate.
      cbn [meta_of t_to_dev] in Hv.
      destruct (m_dev (r_meta A r)) as [dd|].
      * destruct (odev_eqb (m_dev m1) (Some dd)); destruct (nil_b (m_bs (r_meta A r))); try (inv Hv; fail);
          cbn [meta_of] in Hv; destruct (m_names (r_meta A r)); repeat (match type of Hv with (if ?c then _ else _) = _ => destruct c end); try discriminate;
          try (inv Hv; fail); try (destruct (m_names _); inv Hv).
      * destruct (nil_b (m_bs (r_meta A r))); try (inv Hv; fail);
          cbn [meta_of] in Hv; destruct (m_names (r_meta A r)); repeat (match type of Hv with (if ?c then _ else _) = _ => destruct c end); try discriminate;
          try (inv Hv; fail); try (destruct (m_names _); inv Hv).
Qed.


Definition P_shape (items : forest) : Prop :=
  forall con prefix sm sf others out names a any res any',
    o_inplace o = true ->
    (forall k, In k (fkeys A items) -> fget A sf k = fget A items k) ->
    nodup_str (fkeys A items) = true -> wf_sub A items = true ->
    shape_f (r_f A a) = shape_f sf ->
    apply_items A o fn con prefix sm sf others out names items (Some a) any = Ok (res, any') ->
    exists a', res = Some a' /\ shape_f (r_f A a') = shape_f sf /\ r_obj A a' = r_obj A a.

Lemma P_shape_all : forall items, P_shape items.
Proof.
  apply (forest_mind A (fun t => match t with Node _ _ g => P_shape g | _ => True end) P_shape).
  - intros; exact I.
  - intros; exact I.
  - intros _ _ f IH. exact IH.
  - intros con prefix sm sf others out names a any res any' Hi _ _ _ Hs H. cbn [apply_items] in H. inv H. eauto.
  - intros k item IHt rest IHr con prefix sm sf others out names a any res any' Hi Htail Hnd Hwf Hs H.
    cbn [fkeys nodup_str] in Hnd. apply andb_true_iff in Hnd. destruct Hnd as [Hnk Hnd]. apply negb_true_iff in Hnk.
    assert (Hnin : ~ In k (fkeys A rest)). { intro Hin. apply mem_str_in in Hin. congruence. }
    assert (Hsfk : fget A sf k = Some item).
    { rewrite (Htail k); [|now left]. cbn [fget]. now rewrite String.eqb_refl. }
    assert (Htail' : forall k', In k' (fkeys A rest) -> fget A sf k' = fget A rest k').
    { intros k' Hk'. rewrite (Htail k'); [|now right]. cbn [fget].
      destruct (String.eqb k' k) eqn:E; [apply String.eqb_eq in E; subst; contradiction|reflexivity]. }
    cbn [wf_sub] in Hwf. apply andb_true_iff in Hwf. destruct Hwf as [Hwfi Hwfr].
    cbn [apply_items] in H. apply bind_ok in H. destruct H as (t & Htr & Hrun).
    destruct t as [v|].
    2:{ now apply (IHr con prefix sm sf others out names a any res any' Hi Htail' Hnd Hwfr Hs). }
    apply bind_ok in Hrun. destruct Hrun as (acc' & Hset & Hrun).
    (* the entry of the accumulator under k has the shape of the item *)
    pose proof (shape_fget (r_f A a) sf k Hs) as Ed. rewrite Hsfk in Ed.
    destruct (fget A (r_f A a) k) as [d|] eqn:Hd; [|discriminate]. cbn [option_map] in Ed. injection Ed as Ed.
    assert (Hnode : kind_of A d = KNode -> kind_of A v = KNode -> shape_t v = shape_t d).
    { intros Kd Kv. rewrite Ed.
      destruct (negb con && negb (o_is_leaf o (kind_of A item))).
      - apply bind_ok in Htr. destruct Htr as (others' & _ & Htr).
        apply bind_ok in Htr. destruct Htr as (out_k & _ & Htr).
        destruct item as [s x|io dd im|io im g]; [discriminate| |].
        + exfalso. destruct d; cbn [shape_t] in Ed; try discriminate.
        + apply bind_ok in Htr. destruct Htr as (init & Hinit & Htr).
          apply bind_ok in Htr. destruct Htr as ([resn anyn] & Hnest & Htr). cbn [fst snd] in Htr.
          unfold level_init in Hinit. rewrite Hi in Hinit. inv Hinit.
          cbn [wf_sub] in Hwfi. apply andb_true_iff in Hwfi. destruct Hwfi as [Hndg Hwfg].
          destruct (IHt false (prefix ++ [k])%list im g others' out_k None (mkAcc A io im g) false resn anyn Hi) as (an & -> & Sn & On);
            try assumption; try reflexivity.
          injection Htr as Htr. unfold level_finish in Htr. cbn [r_obj] in On.
          assert (v = acc_tree A an).
          { destruct (o_fe o) as [[|]|].
            - destruct anyn; now inv Htr.
            - now inv Htr.
            - destruct (negb anyn && negb (f_is_empty A g)); now inv Htr. }
          subst v. unfold acc_tree. rewrite !shape_t_node, On. now rewrite Sn.
      - apply bind_ok in Htr. destruct Htr as (args & _ & Htr). inv Htr.
        destruct (fn (keyarg o prefix k) item args); inv H0. discriminate. }
    pose proof (set_item_shape a k v acc' d Hi Hd Hnode Hset) as Hs'.
    assert (Ho : r_obj A acc' = r_obj A a) by (apply (set_item_olds a k v acc' Hset)).
    destruct (IHr con prefix sm sf others out names acc' true res any' Hi Htail' Hnd Hwfr) as (a' & R1 & R2 & R3).
    { now rewrite Hs'. } { exact Hrun. }
    exists a'. repeat split; [exact R1|exact R2|]. now rewrite R3.
Qed.

(* apply_mutates_only, part 2: in place, the call returns self with the same objects, the same keys in the same order
   and the same leaf storages at every depth (only contents change) *)
Theorem inplace_shape : forall con propagate so sm sf others out names r,
  o_inplace o = true -> wf_keys A sf = true ->
  front A o fn con propagate (Node so sm sf) others out names = Ok (Some r) ->
  shape_t r = shape_t (Node so sm sf).
Proof.
  intros con propagate so sm sf others out names r Hi Hwf H.
  unfold wf_keys in Hwf. apply andb_true_iff in Hwf. destruct Hwf as [Hnd Hwf].
  cbn [front] in H. apply bind_ok in H. destruct H as (r0 & Hnest & H).
  rewrite Hi in H. rewrite andb_false_r in H. cbn [andb] in H. injection H as ->.
  unfold apply_nest in Hnest. apply bind_ok in Hnest. destruct Hnest as (init & Hinit & Hnest).
  apply bind_ok in Hnest. destruct Hnest as ([res any'] & Hitems & Hfin). cbn [fst snd] in Hfin.
  unfold level_init in Hinit. rewrite Hi in Hinit. inv Hinit.
  destruct (P_shape_all sf con [] sm sf others out names (mkAcc A so sm sf) false res any' Hi) as (a' & -> & S & O);
    try assumption; try reflexivity.
  injection Hfin as Hfin. unfold level_finish in Hfin. cbn [r_obj] in O.
  assert (r = acc_tree A a').
  { destruct (o_fe o) as [[|]|].
    - destruct any'; now inv Hfin.
    - now inv Hfin.
    - destruct (negb any' && negb (f_is_empty A sf)); now inv Hfin. }
  subst r. unfold acc_tree. rewrite !shape_t_node, O. now rewrite S.
Qed.


(* ------------------------------------------------------------------ result creation: the metadata of a new result *)
Definition meta_core (m : meta) : list nat * option dev * bool := (m_bs m, m_dev m, m_lock m).

Lemma set_item_meta_core (r : racc) k (v : tree) r' :
  set_item A o r k v = Ok r' ->
  meta_core (r_meta A r') = meta_core (r_meta A r) /\ (o_checked o = true -> r_meta A r' = r_meta A r).
Proof.
  unfold set_item. intro H. apply bind_ok in H. destruct H as ([r1 v1] & Hv & H).
  assert (Hm : meta_core (r_meta A r1) = meta_core (r_meta A r) /\ (o_checked o = true -> r_meta A r1 = r_meta A r)).
  { destruct (o_checked o); [inv Hv; auto|]. split; [|discriminate]. unfold validate in Hv.
    destruct (meta_of A v); [|now inv Hv]. apply bind_ok in Hv. destruct Hv as (x & _ & Hv).
    destruct (nil_b (m_bs (r_meta A r))); [now inv Hv|].
    match type of Hv with match meta_of A ?y with _ => _ end = _ => destruct (meta_of A y) as [vm|] end; [|now inv Hv].
    destruct (m_names (r_meta A r)).
    - destruct (list_eqb ostr_eqb (firstn_names (List.length (m_bs (r_meta A r))) vm) l); [now inv Hv|].
      destruct (negb (refine_ok (names_list vm) l)); [discriminate|].
      destruct (negb (Nat.eqb (List.length l) (List.length (m_bs vm)))); [discriminate|]. now inv Hv.
    - destruct (m_names vm); now inv Hv. }
  assert (Hfin : r_meta A r' = r_meta A r1).
  { destruct (if o_inplace o then fget A (r_f A r) k else None) as [d|].
    - destruct d as [s x|od dp dm|od dm df]; destruct v1 as [s1 x1|ov vp vm|ov vm vf]; try discriminate.
      + now inv H.
      + destruct s1; discriminate.
      + destruct (match ov, od with New, _ => true | Old b, Old a => Z.eqb a b | _, _ => false end); [now inv H|].
        destruct (m_lock dm); [discriminate|]. now inv H.
      + destruct od; [|discriminate]. destruct ov; [|discriminate]. destruct (Z.eqb z z0); [|discriminate]. now inv H.
    - destruct (m_lock (r_meta A r1)); [discriminate|]. now inv H. }
  rewrite Hfin. exact Hm.
Qed.

Lemma apply_items_meta : forall items con prefix sm sf others out names acc any res any',
  apply_items A o fn con prefix sm sf others out names items acc any = Ok (res, any') ->
  forall a', res = Some a' ->
    let m0 := match acc with Some a => r_meta A a | None => result_meta o sm names end in
    meta_core (r_meta A a') = meta_core m0 /\ (o_checked o = true -> r_meta A a' = m0).
Proof.
  induction items as [|k item rest IH]; intros con prefix sm sf others out names acc any res any' H a' Hr.
  - cbn [apply_items] in H. inv H. cbn zeta. auto.
  - cbn [apply_items] in H. apply bind_ok in H. destruct H as (t & _ & Hrun).
    destruct t as [v|].
    + apply bind_ok in Hrun. destruct Hrun as (acc' & Hset & Hrun).
      destruct (set_item_meta_core _ k v acc' Hset) as (M1 & M2).
      destruct (IH con prefix sm sf others out names (Some acc') true res any' Hrun a' Hr) as (N1 & N2).
      cbn zeta in *. destruct acc as [a|]; cbn [make_result r_meta] in *.
      * split; [congruence|]. intro Hc. rewrite (N2 Hc). now apply M2.
      * split; [congruence|]. intro Hc. rewrite (N2 Hc). now apply M2.
    + now apply (IH con prefix sm sf others out names acc any res any' Hrun).
Qed.

(* a result that is a new object: batch size and device as requested (else as self's), unlocked unless propagate_lock
   and self is locked; its dim names — when nothing is validated on the way in (checked) — are the ones given, none
   when the batch size is overridden, else self's *)
Theorem new_result_meta : forall con propagate so sm sf others names ob m f,
  o_inplace o = false ->
  front A o fn con propagate (Node so sm sf) others None names = Ok (Some (Node ob m f)) ->
  m_bs m = match o_bs o with Some b => b | None => m_bs sm end
  /\ m_dev m = match o_dev o with Some d => d | None => m_dev sm end
  /\ m_lock m = (propagate && m_lock sm)
  /\ (o_checked o = true ->
        m_names m = match names with Some n => n | None => match o_bs o with Some _ => None | None => m_names sm end end).
Proof.
  intros con propagate so sm sf others names ob m f Hi H.
  cbn [front] in H. apply bind_ok in H. destruct H as (r0 & Hnest & H).
  unfold apply_nest in Hnest. apply bind_ok in Hnest. destruct Hnest as (init & Hinit & Hnest).
  apply bind_ok in Hnest. destruct Hnest as ([res any'] & Hitems & Hfin). cbn [fst snd] in Hfin.
  unfold level_init in Hinit. rewrite Hi in Hinit. inv Hinit.
  pose proof (apply_items_meta sf con [] sm sf others None names None false res any' Hitems) as HM. cbn zeta in HM.
  assert (Hr0 : forall ob0 m0 f0, r0 = Some (Node ob0 m0 f0) ->
            meta_core m0 = meta_core (result_meta o sm names) /\ (o_checked o = true -> m0 = result_meta o sm names)).
  { intros ob0 m0 f0 ->. injection Hfin as Hfin. unfold level_finish in Hfin.
    assert (E : Node ob0 m0 f0 = acc_tree A (match res with Some a => a | None => make_result A o sm names end)).
    { destruct (o_fe o) as [[|]|].
      - destruct any'; now inv Hfin.
      - now inv Hfin.
      - destruct (negb any' && negb (f_is_empty A sf)); now inv Hfin. }
    unfold acc_tree in E. injection E as _ E2 _. rewrite E2.
    destruct res as [a|]; [now apply HM|]. cbn [make_result r_meta]. auto. }
  injection H as H. rewrite Hi in H. cbn [negb] in H. rewrite andb_true_r in H.
  destruct (propagate && m_lock sm) eqn:Ep.
  - destruct r0 as [[s x|ob0 p0 m0|ob0 m0 f0]|]; cbn [option_map t_lock] in H; try discriminate.
    injection H as _ Em _. subst m. destruct (Hr0 ob0 m0 f0 eq_refl) as (C1 & C2). unfold meta_core, result_meta in C1.
    cbn [m_bs m_dev m_lock m_names set_lock] in *. injection C1 as B D L. repeat split; try assumption.
    intro Hc. rewrite (C2 Hc). reflexivity.
  - subst r0. destruct (Hr0 ob m f eq_refl) as (C1 & C2). unfold meta_core, result_meta in C1.
    cbn [m_bs m_dev m_lock] in C1. injection C1 as B D L. repeat split; try assumption.
    intro Hc. rewrite (C2 Hc). reflexivity.
Qed.

End FrameP.
