(* C20 — concrete witnesses (vm_compute): the defects of the unchanged code that the faithful model reproduces, and
   non-trivial instances of the hypotheses of the theorems. *)
From Coq Require Import ZArith List String Bool.
Import ListNotations.
From TD Require Import Model.C20_Apply Model.C20_Sched Model.C20_Spec.
Open Scope string_scope.
Open Scope Z_scope.

Definition m0 : meta := mkMeta [3%nat] None None false.
Definition mL : meta := mkMeta [3%nat] None None true.
Definition lf (z : Z) : tree Z := Leaf (Old z) (VOld z).
Definition is_leaf_default (k : kind) : bool := match k with KTensor => true | _ => false end.
Definition base_opts : opts := mkOpts false false (Some false) false false None None false is_leaf_default.
Definition with_default (o : opts) := mkOpts (o_inplace o) true (o_fe o) (o_named o) (o_nested_keys o) (o_bs o) (o_dev o) (o_checked o) (o_is_leaf o).
Definition with_inplace (o : opts) := mkOpts true (o_default o) (o_fe o) (o_named o) (o_nested_keys o) (o_bs o) (o_dev o) (o_checked o) (o_is_leaf o).
Definition with_fe (o : opts) fe := mkOpts (o_inplace o) (o_default o) fe (o_named o) (o_nested_keys o) (o_bs o) (o_dev o) (o_checked o) (o_is_leaf o).
Definition with_checked (o : opts) := mkOpts (o_inplace o) (o_default o) (o_fe o) (o_named o) (o_nested_keys o) (o_bs o) (o_dev o) true (o_is_leaf o).
Definition with_dev (o : opts) d := mkOpts (o_inplace o) (o_default o) (o_fe o) (o_named o) (o_nested_keys o) (o_bs o) (Some d) (o_checked o) (o_is_leaf o).

(* fn: 1 + the item's content id + 10 per operand entry found, 100 per default; None for the items listed *)
Definition arg_code (a : option (tree Z)) : Z :=
  match a with None => 100 | Some (Leaf _ (VOld z)) => 10 + z | Some _ => 7 end.
Definition fn_of (nones : list Z) : option (list string) -> tree Z -> list (option (tree Z)) -> option Z :=
  fun _ item args =>
    match item with
    | Leaf _ (VOld z) => if existsb (Z.eqb z) nones then None else Some (1 + z + fold_right (fun a n => arg_code a + n) 0 args)
    | _ => Some 0
    end.

(* the former defects of the front-ends (C20-a, C20-b, C20-c, C20-f, repaired in /repo), on their witnesses *)
Definition self_b : tree Z := Node (Old 10) m0 (FCons "n" (Node (Old 11) m0 (FCons "n" (lf 1) FNil)) FNil).
Definition other_b : tree Z := Node (Old 20) m0 FNil.
Definition self_c : tree Z := Node (Old 10) mL (FCons "a" (lf 1) (FCons "t" (NonT (Old 12) 5 mL) FNil)).
Definition self_a : tree Z := Node (Old 10) m0 (FCons "a" (lf 1) FNil).
Definition self_f : tree Z := Node (Old 10) m0 (FCons "a" (lf 1) (FCons "t" (NonT (Old 12) 5 m0) FNil)).
Definition out_f : tree Z := Node (Old 30) m0 (FCons "a" (lf 31) (FCons "t" (NonT (Old 32) 50 m0) FNil)).
Lemma former_front_defects :
  (* C20-b: the other operand lacks the nested tensordict "n" whose key "n" is also a key of self: fn gets the default *)
  (let o := with_default base_opts in
   exists r, front Z o (fn_of []) false false self_b [other_b] None None = Ok r
             /\ ref_apply Z o (fn_of []) false self_b [other_b] None = ROk (option_map (erase_t Z) r)
             /\ option_map (erase_t Z) r
                = Some (SNode Z (SCons Z "n" (SNode Z (SCons Z "n" (SLeaf Z (SNew Z 102)) (SNil Z))) (SNil Z))))
  (* C20-c: in place on a locked tensordict that holds a non-tensor entry *)
  /\ (let o := with_inplace base_opts in
      exists x, front Z o (fn_of []) false false self_c [] None None = Ok (Some x) /\ shape_t Z x = shape_t Z self_c)
  (* C20-f: out= already holds the non-tensor entry (data 50): the result carries self's data (5) *)
  /\ (let o := base_opts in
      exists m f, front Z o (fn_of []) false false self_f [] (Some out_f) None = Ok (Some (Node (Old 30) m f))
                  /\ fget Z f "t" = Some (NonT New 5 m0)).
Proof.
  cbv zeta. split; [|split].
  - eexists. split; [vm_compute; reflexivity|]. split; vm_compute; reflexivity.
  - eexists. split; vm_compute; reflexivity.
  - do 2 eexists. split; [vm_compute; reflexivity|reflexivity].
Qed.

(* ---------------------------------------------------------------- thread pools *)
Definition nested2 : tree Z := Node (Old 10) m0 (FCons "a" (lf 1) (FCons "n" (Node (Old 11) m0 (FCons "c" (lf 2) FNil)) FNil)).

(* a non-tensor entry that out= already holds, written without validation (checked) — the former witness of C20-g: both
   forms write a new entry with self's data AND the metadata of self's entry (before the repair the thread-pool form gave it
   the metadata of out[key]: device cpu here) *)
Definition out_g : tree Z := Node (Old 30) (mkMeta [3%nat] (Some CPU) None false)
                               (FCons "t" (NonT (Old 32) 50 (mkMeta [3%nat] (Some CPU) None false)) FNil).
Lemma mt_nontensor_out_agree :
  let o := with_checked base_opts in
  exists m f,
    st_front Z o (fn_of []) false false self_f [] (Some out_g) None = MOk (Some (Node (Old 30) m f))
    /\ fget Z f "t" = Some (NonT New 5 m0)
    /\ mt_front Z o (fn_of []) false false self_f [] (Some out_g) None [0%nat] = MOk (Some (Node (Old 30) m f)).
Proof. cbv zeta. do 2 eexists. split; [vm_compute; reflexivity|]. split; [reflexivity|vm_compute; reflexivity]. Qed.

(* the repaired thread-pool form on the former defects: out= with a nested tensordict, default= below the root,
   filter_empty=None with an all-None subtree, names= with a nested tensordict, checked with another device *)
Definition out2 : tree Z := Node (Old 30) m0 (FCons "a" (lf 31) (FCons "n" (Node (Old 32) m0 (FCons "c" (lf 33) FNil)) FNil)).
Definition other_s15 : tree Z := Node (Old 20) m0 (FCons "a" (lf 21) (FCons "n" (Node (Old 22) m0 FNil) FNil)).
Definition out_dev : tree Z := Node (Old 30) (mkMeta [3%nat] (Some CPU) None false) FNil.
Lemma mt_former_defects_agree :
  (let o := with_checked base_opts in
   mt_front Z o (fn_of []) false false nested2 [] (Some out2) None [1%nat; 0%nat] = st_front Z o (fn_of []) false false nested2 [] (Some out2) None)
  /\ (let o := with_default (with_checked base_opts) in
      mt_front Z o (fn_of []) false false nested2 [other_s15] None None [1%nat; 0%nat] = st_front Z o (fn_of []) false false nested2 [other_s15] None None)
  /\ (let o := with_fe (with_checked base_opts) None in
      mt_front Z o (fn_of [2]) false false nested2 [] None None [0%nat; 1%nat] = st_front Z o (fn_of [2]) false false nested2 [] None None)
  /\ (let o := with_checked base_opts in
      mt_front Z o (fn_of []) false false nested2 [] None (Some (Some [Some "t"])) [0%nat; 1%nat]
      = st_front Z o (fn_of []) false false nested2 [] None (Some (Some [Some "t"])))
  /\ (let o := with_dev (with_checked base_opts) (Some META) in
      mt_front Z o (fn_of []) false false self_a [] (Some out_dev) None [0%nat] = st_front Z o (fn_of []) false false self_a [] (Some out_dev) None).
Proof. cbv zeta. repeat split; vm_compute; reflexivity. Qed.

(* ---------------------------------------------------------------- non-vacuity: a non-trivial call inside every domain *)
Definition self_ex : tree Z :=
  Node (Old 10) m0
    (FCons "a" (lf 1)
    (FCons "n" (Node (Old 11) m0 (FCons "c" (lf 2) (FCons "e" (Node (Old 12) m0 FNil) (FCons "t" (NonT (Old 13) 7 m0) FNil))))
    (FCons "b" (lf 3) FNil))).
Definition other_ex : tree Z :=
  Node (Old 20) m0 (FCons "b" (lf 23) (FCons "x" (lf 24) (FCons "a" (lf 21) FNil))).       (* permuted, extra, no "n" *)
Definition self_ex_forest : forest Z :=
  match self_ex with Node _ _ f => f | _ => FNil end.

Lemma example_apply_spec :
  let o := with_default (with_fe base_opts None) in
  wf_keys Z self_ex_forest = true
  /\ exists x, front Z o (fn_of [3]) false false self_ex [other_ex] None None = Ok (Some x)
               /\ List.length (fkeys Z (match x with Node _ _ f => f | _ => FNil end)) = 2%nat.
Proof. cbv zeta. split; [reflexivity|]. eexists. split; vm_compute; reflexivity. Qed.

Lemma example_inplace :
  let o := with_inplace base_opts in
  exists x, front Z o (fn_of [3]) false false self_ex [] None None = Ok (Some x) /\ x <> self_ex.
Proof. cbv zeta. eexists. split; [vm_compute; reflexivity|discriminate]. Qed.

Lemma example_out :
  let o := base_opts in
  exists x, front Z o (fn_of []) false false nested2 [] (Some out2) None = Ok (Some x) /\ olds_t Z x = [30; 32].
Proof. cbv zeta. eexists. split; vm_compute; reflexivity. Qed.

Lemma example_mt :
  let o := with_checked base_opts in
  flat_items Z o (o_default o) false [] m0 (match nested2 with Node _ _ f => f | _ => FNil end) [] (match nested2 with Node _ _ f => f | _ => FNil end) 0
  = Ok ([mkTask Z None (lf 1) []; mkTask Z None (lf 2) []], [LFut 0; LList [LFut 1]])
  /\ exists x, mt_front Z o (fn_of []) false false nested2 [] (Some out2) (Some (Some [Some "t"])) [1%nat; 0%nat] = MOk (Some x).
Proof. cbv zeta. split; [vm_compute; reflexivity|]. eexists. vm_compute. reflexivity. Qed.
