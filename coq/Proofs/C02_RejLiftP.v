(* C02 proofs, part 9: the generic REJECTION lifting.  For the operations whose arguments are validated only by the
   per-entry torch calls (expand, view / reshape, unflatten, repeat, repeat_interleave), "torch rejects the arguments
   for the batch shape" travels down the tree like the legal case does: a class KR of (call, batch, tail) that is closed
   under "the call made on an entry" and refused by torch on every tensor of shape batch ++ tail makes [apply] raise on
   every well-formed tree that CONTAINS A TENSOR (anywhere, at any depth) whose trailing dims satisfy G.
   The complement (no tensor anywhere) is finding C02-l; G = "no size-0 trailing dim" is needed by view / reshape only
   (finding C02-o: with zero elements in every entry a view to another numel is accepted). *)
From Coq Require Import ZArith List Bool Lia ZifyBool String.
Import ListNotations.
From TD Require Import Spec.PySlice Spec.C02_TorchShape Model.C02_ShapeOps Proofs.C02_FrameP Proofs.C02_OpsP Proofs.C02_InferP.
Open Scope Z_scope.
Ltac Zify.zify_post_hook ::= Z.to_euclidean_division_equations.

(* ------------------------------------------------------------------ [apply] returns or raises (it never diverges, and
   the only call the model does not follow is repeat_interleave(dim) on a rank-0 batch) *)
Definition settled {A} (r : out A) : Prop := match r with Done _ | Raised _ => True | _ => False end.

Lemma settled_bind {A B} (r : out A) (f : A -> out B) : settled r -> (forall a, r = Done a -> settled (f a)) -> settled (bindo r f).
Proof. destruct r; cbn; intros H Hf; try contradiction; [apply Hf; reflexivity|exact I]. Qed.

Lemma correct_neg_dim_settled d n : settled (correct_neg_dim d n).
Proof. unfold correct_neg_dim. destruct (_ || _); exact I. Qed.

Lemma infer_size_impl_settled s n : settled (infer_size_impl s n).
Proof. rewrite infer_equiv. destruct (infer_size s n); exact I. Qed.

Lemma squeeze_chain_settled ds : forall bs nl done, settled (squeeze_chain ds bs nl done).
Proof.
  induction ds as [|i r IH]; intros bs nl done; cbn [squeeze_chain]; [exact I|].
  destruct (_ <=? _)%nat; [exact I|]. destruct (nthZ bs i =? 1); apply IH.
Qed.

Definition not_repint (o : sop) : Prop := match o with ORepInt _ _ => False | _ => True end.

Lemma node_step_settled o bs nm : not_repint o \/ bs <> [] -> settled (node_step o bs nm).
Proof.
  intros Hr. destruct o as [dims|d0 d1|d|d|sh|sh|sh|sh|a b|d sizes|reps|r d|ds|bs1 n1 ds]; cbn [node_step].
  - destruct (existsb _ _); [exact I|]. destruct (negb _); [exact I|]. destruct (is_identity _); exact I.
  - destruct (_ || _); [exact I|]. destruct (Nat.eqb _ _); exact I.
  - destruct d as [d|].
    + apply settled_bind; [apply correct_neg_dim_settled|]. intros nd _. destruct (negb _); exact I.
    + destruct (list_eqb _ _); exact I.
  - destruct (_ || _); exact I.
  - destruct (_ <? _)%nat; [exact I|]. destruct (existsb _ _); exact I.
  - apply settled_bind.
    + destruct (existsb _ _); [apply infer_size_impl_settled|exact I].
    + intros s _. destruct (list_eqb _ _); exact I.
  - apply settled_bind.
    + destruct (existsb _ _); [apply infer_size_impl_settled|exact I].
    + intros s _. destruct (list_eqb _ _); exact I.
  - apply settled_bind.
    + destruct (existsb _ _); [apply infer_size_impl_settled|exact I].
    + intros s _. destruct (list_eqb _ _); exact I.
  - destruct (fixed_S5 && _); [exact I|]. destruct (_ && _); [exact I|]. destruct (_ <=? _); exact I.
  - apply settled_bind; [apply correct_neg_dim_settled|]. intros nd _.
    apply settled_bind; [destruct (fixed_C02g && _); [apply infer_size_impl_settled|exact I]|]. intros s _. exact I.
  - destruct (negb _); exact I.
  - destruct bs as [|b0 bs]; [destruct Hr as [Hr|Hr]; [contradiction|congruence]|].
    destruct (_ <? 0); [exact I|]. destruct (fixed_S5 && _); exact I.
  - apply settled_bind; [apply squeeze_chain_settled|]. intros [[b l] sq] _. destruct sq; exact I.
  - apply settled_bind; [apply squeeze_chain_settled|]. intros [[b l] sq] _. destruct sq; exact I.
Qed.

(* the call made on an entry is a repeat_interleave only if the call on the node was one *)
Lemma node_step_child_repint o bs nm bs' nm' child : node_step o bs nm = Done (SStep bs' nm' child) ->
  forall csh, not_repint o -> not_repint (child csh).
Proof.
  intros H csh Hn.
  destruct o as [dims|d0 d1|d|d|sh|sh|sh|sh|a b|d sizes|reps|r d|ds|bs1 n1 ds]; cbn [node_step] in H; try contradiction.
  - destruct (existsb _ _); [discriminate|]. destruct (negb _); [discriminate|]. destruct (is_identity _); [discriminate|].
    injection H as _ _ <-. exact I.
  - destruct (_ || _); [discriminate|]. destruct (Nat.eqb _ _); [discriminate|]. injection H as _ _ <-. exact I.
  - destruct d as [d|].
    + destruct (correct_neg_dim _ _); try discriminate. cbn [bindo] in H. destruct (negb _); [discriminate|].
      injection H as _ _ <-. exact I.
    + destruct (list_eqb _ _); [discriminate|]. injection H as _ _ <-. exact I.
  - destruct (_ || _); [discriminate|]. injection H as _ _ <-. exact I.
  - destruct (_ <? _)%nat; [discriminate|]. destruct (existsb _ _); [discriminate|]. injection H as _ _ <-. exact I.
  - destruct (if existsb _ _ then _ else _); try discriminate. cbn [bindo] in H. destruct (list_eqb _ _); [discriminate|].
    injection H as _ _ <-. exact I.
  - destruct (if existsb _ _ then _ else _); try discriminate. cbn [bindo] in H. destruct (list_eqb _ _); [discriminate|].
    injection H as _ _ <-. exact I.
  - destruct (if existsb _ _ then _ else _); try discriminate. cbn [bindo] in H. destruct (list_eqb _ _); [discriminate|].
    injection H as _ _ <-. exact I.
  - destruct (fixed_S5 && _); [discriminate|]. destruct (_ && _); [discriminate|]. destruct (_ <=? _); [discriminate|].
    injection H as _ _ <-. exact I.
  - destruct (correct_neg_dim _ _); try discriminate. cbn [bindo] in H.
    destruct (if fixed_C02g && _ then _ else _); try discriminate. cbn [bindo] in H. injection H as _ _ <-. exact I.
  - destruct (negb _); [discriminate|]. injection H as _ _ <-. exact I.
  - destruct (squeeze_chain _ _ _ _) as [[[b l] sq]| | |]; try discriminate. cbn [bindo] in H. destruct sq; [discriminate|].
    injection H as _ _ <-. exact I.
  - destruct (squeeze_chain _ _ _ _) as [[[b l] sq]| | |]; try discriminate. cbn [bindo] in H. destruct sq; [discriminate|].
    injection H as _ _ <-. exact I.
Qed.

Lemma unflatten_check_settled o t : settled (unflatten_names_check o t).
Proof.
  unfold unflatten_names_check. destruct o; try exact I. destruct t as [|bs [l|] ents]; try exact I.
  destruct (Nat.eqb _ _); [exact I|]. destruct (negb _); exact I.
Qed.

(* the loop over the entries *)
Definition ents_loop (f : tree -> out tree) : list (string * tree) -> out (list (string * tree)) :=
  fix go (l : list (string * tree)) : out (list (string * tree)) :=
    match l with
    | [] => Done []
    | (k, c) :: r => let* c' := f c in let* r' := go r in Done ((k, c') :: r')
    end.

Lemma apply_node_unfold bs nm ents o :
  apply (Node bs nm ents) o =
  let* st := node_step o bs nm in
  match st with
  | SSelf => Done (Node bs nm ents)
  | SStep bs' nm' child =>
      let* ents' := ents_loop (fun c => apply c (child (top_shape c))) ents in
      unflatten_names_check o (Node bs' nm' ents')
  end.
Proof. reflexivity. Qed.

Lemma ents_loop_settled f ents : Forall (fun e => settled (f (snd e))) ents -> settled (ents_loop f ents).
Proof.
  induction ents as [|[k c] l IH]; intros H; cbn [ents_loop]; [exact I|].
  apply settled_bind; [exact (Forall_inv H)|]. intros c' _. apply settled_bind; [exact (IH (Forall_inv_tail H))|]. intros r' _. exact I.
Qed.

Lemma ents_loop_raises f ents k c : Forall (fun e => settled (f (snd e))) ents ->
  In (k, c) ents -> (exists e, f c = Raised e) -> exists e, ents_loop f ents = Raised e.
Proof.
  induction ents as [|[k0 c0] l IH]; intros H Hin Hr; [contradiction|]. cbn [ents_loop].
  pose proof (Forall_inv H) as H0. pose proof (Forall_inv_tail H) as Ht. cbn [snd] in H0.
  destruct Hin as [E|Hin].
  - injection E as -> ->. destruct Hr as [e ->]. exists e. reflexivity.
  - destruct (f c0) as [c0'|e0| |] eqn:E0; try contradiction; [|exists e0; reflexivity].
    cbn [bindo]. destruct (IH Ht Hin Hr) as [e ->]. exists e. reflexivity.
Qed.

Theorem apply_settled : forall t o, wf t -> not_repint o \/ top_shape t <> [] -> settled (apply t o).
Proof.
  induction t as [sh|bs nm ents IH] using tree_ind'; intros o Hw Hr.
  - cbn [apply]. apply settled_bind; [|intros; exact I].
    destruct o as [dims|d0 d1|d|d|s|s|s|s|a b|d sizes|reps|r d|ds|bs1 n1 ds]; cbn [leaf_op];
      try (match goal with |- settled (lift _ ?x) => destruct x; exact I end).
    + destruct d; cbv iota; match goal with |- settled (lift _ ?x) => destruct x; exact I end.
    + destruct s; cbv iota; [exact I|]. match goal with |- settled (lift _ ?x) => destruct x; exact I end.
    + destruct reps; [destruct fixed_C02m|]; cbv iota; try exact I; match goal with |- settled (lift _ ?x) => destruct x; exact I end.
    + clear Hr Hw. generalize sh. induction ds as [|i r IHr]; intros cur; [exact I|].
      apply settled_bind; [destruct (t_squeeze_dim cur (Z.of_nat i)); exact I|]. intros nxt _. apply IHr.
  - rewrite apply_node_unfold. cbn [top_shape] in Hr.
    apply settled_bind; [apply node_step_settled; exact Hr|]. intros [|bs' nm' child] Hs; [exact I|].
    apply settled_bind; [|intros; apply unflatten_check_settled].
    apply ents_loop_settled. inversion Hw as [|? ? ? Hnn Hnm HF]; subst.
    rewrite Forall_forall in *. intros [k c] Hin. cbn [snd]. specialize (HF _ Hin). cbn [snd] in HF. destruct HF as [Hwc [tl Hc]].
    apply (IH _ Hin); [exact Hwc|].
    destruct Hr as [Hr|Hr]; [left; eapply node_step_child_repint; eassumption|].
    right. cbn [snd]. rewrite Hc. destruct bs; [congruence|discriminate].
Qed.

(* ------------------------------------------------------------------ trees that contain a tensor *)
(* [hasleaf G n t]: t contains a tensor (at any depth) whose shape, after its first n dims, satisfies G *)
Inductive hasleaf (G : list Z -> Prop) (n : nat) : tree -> Prop :=
| hl_leaf sh : G (skipn n sh) -> hasleaf G n (Leaf sh)
| hl_node bs nm ents k c : In (k, c) ents -> hasleaf G n c -> hasleaf G n (Node bs nm ents).

Section rejlift.
  Variable G : list Z -> Prop.
  Hypothesis G_app : forall a b, G (a ++ b) -> G a /\ G b.

  (* KR o bs tl : "o is a call made on an object of shape bs ++ tl, and torch refuses it on every such tensor" *)
  Variable KR : sop -> list Z -> list Z -> Prop.

  Definition KR_leaf : Prop :=
    forall o bs tl, KR o bs tl -> nonneg (bs ++ tl) -> G tl -> exists k, leaf_op o (bs ++ tl) = Raised k.

  Definition KR_node : Prop :=
    forall o bs tl nm, KR o bs tl -> nonneg (bs ++ tl) -> names_wf nm (bs ++ tl) -> G tl ->
      (exists k, node_step o (bs ++ tl) nm = Raised k) \/
      (exists bs' nm' child, node_step o (bs ++ tl) nm = Done (SStep bs' nm' child) /\
         forall tl2, nonneg tl2 -> KR (child (bs ++ tl ++ tl2)) (bs ++ tl) tl2).

  Definition KR_repint : Prop := forall o bs tl, KR o bs tl -> not_repint o \/ bs <> [].

  Hypothesis HL : KR_leaf.
  Hypothesis HN : KR_node.
  Hypothesis HR : KR_repint.

  Lemma hasleaf_tail : forall t pre x, wf t -> top_shape t = pre ++ x -> hasleaf G (List.length pre) t -> G x.
  Proof.
    induction t as [sh|bs nm ents IH] using tree_ind'; intros pre x Hw Ht Hh; cbn [top_shape] in Ht; subst.
    - inversion Hh; subst. rewrite skipn_app_exact in *. assumption.
    - inversion Hh as [|? ? ? k c Hin Hc]; subst. inversion Hw as [|? ? ? _ _ HF]; subst.
      rewrite Forall_forall in IH, HF. specialize (HF _ Hin). cbn [snd] in HF. destruct HF as [Hwc [tl Hcs]].
      rewrite <- app_assoc in Hcs. pose proof (IH _ Hin pre (x ++ tl) Hwc Hcs Hc) as Hg. apply G_app in Hg. tauto.
  Qed.

  Lemma hasleaf_shift : forall t a b x, wf t -> top_shape t = a ++ b ++ x -> hasleaf G (List.length a) t -> hasleaf G (List.length (a ++ b)) t.
  Proof.
    induction t as [sh|bs nm ents IH] using tree_ind'; intros a b x Hw Ht Hh; cbn [top_shape] in Ht; subst.
    - inversion Hh; subst. constructor. rewrite skipn_app_exact in *. rewrite app_assoc, skipn_app_exact.
      match goal with H : G (b ++ x) |- _ => apply G_app in H; tauto end.
    - inversion Hh as [|? ? ? k c Hin Hc]; subst. inversion Hw as [|? ? ? _ _ HF]; subst.
      rewrite Forall_forall in IH, HF. pose proof (HF _ Hin) as HFc. cbn [snd] in HFc. destruct HFc as [Hwc [tl Hcs]].
      econstructor; [exact Hin|]. apply (IH _ Hin a b (x ++ tl)); [exact Hwc| |exact Hc].
      cbn [snd]. rewrite Hcs, <- !app_assoc. reflexivity.
  Qed.

  Theorem reject_lifts : forall t o bs tl,
    KR o bs tl -> wf t -> top_shape t = bs ++ tl -> hasleaf G (List.length bs) t ->
    exists k, apply t o = Raised k.
  Proof.
    induction t as [sh|b nm ents IH] using tree_ind'; intros o bs tl HK Hw Ht Hh; cbn [top_shape] in Ht; subst.
    - inversion Hw as [? Hn|]; subst. inversion Hh; subst. rewrite skipn_app_exact in *.
      destruct (HL _ _ _ HK Hn) as [k Hk]; [assumption|]. exists k. cbn [apply]. rewrite Hk. reflexivity.
    - inversion Hw as [|? ? ? Hnn Hnm HF]; subst. inversion Hh as [|? ? ? k c Hin Hc]; subst.
      rewrite Forall_forall in HF. pose proof (HF _ Hin) as HFc. cbn [snd] in HFc. destruct HFc as [Hwc [tl2 Hcs]].
      assert (Hg : G tl).
      { rewrite <- app_assoc in Hcs. pose proof (hasleaf_tail c bs (tl ++ tl2) Hwc Hcs Hc) as Hg. apply G_app in Hg. tauto. }
      rewrite apply_node_unfold.
      destruct (HN _ _ _ nm HK Hnn Hnm Hg) as [[e He]|(bs' & nm' & child & Hs & Hch)].
      + exists e. rewrite He. reflexivity.
      + rewrite Hs. cbn [bindo].
        assert (Hn2 : nonneg tl2).
        { assert (Hn : nonneg (top_shape c)) by (inversion Hwc; subst; assumption).
          rewrite Hcs in Hn. apply nonneg_app in Hn. tauto. }
        destruct (ents_loop_raises (fun c0 => apply c0 (child (top_shape c0))) ents k c) as [e He].
        * rewrite Forall_forall. intros [k0 c0] Hin0. cbn [snd]. pose proof (HF _ Hin0) as HF0. cbn [snd] in HF0.
          destruct HF0 as [Hw0 [tl0 Hc0]]. apply apply_settled; [exact Hw0|].
          destruct (HR _ _ _ HK) as [Hr|Hr]; [left; eapply node_step_child_repint; eassumption|].
          right. rewrite Hc0. destruct bs; [congruence|discriminate].
        * exact Hin.
        * rewrite Forall_forall in IH. apply (IH _ Hin _ (bs ++ tl) tl2).
          -- rewrite Hcs, <- app_assoc. apply Hch. exact Hn2.
          -- exact Hwc.
          -- exact Hcs.
          -- rewrite <- app_assoc in Hcs. eapply hasleaf_shift; [exact Hwc|exact Hcs|exact Hc].
        * exists e. rewrite He. reflexivity.
  Qed.
End rejlift.
