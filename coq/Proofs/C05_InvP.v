(* C05 — the lock-graph invariant is preserved by every public call (lock_, unlock_, mutators, conversions, gc, pickle). *)
From Coq Require Import List String Bool Arith PeanoNat Lia.
Import ListNotations.
From TD Require Import Model.C05_Heap Model.C05_Lock Spec.C05_LockSpec Proofs.C05_HeapP Proofs.C05_LockP.

Lemma with_hp_id : forall s, with_hp s (hp s) = s.
Proof. destruct s; reflexivity. Qed.

Lemma live_with_hp : forall s h n, live (with_hp s h) n = live s n.
Proof. reflexivity. Qed.

(* invariants that only depend on the structure *)
Lemma struct_inv : forall s h', same_struct (hp s) h' -> I0 s -> closed_heap s ->
  I0 (with_hp s h') /\ closed_heap (with_hp s h').
Proof.
  intros s h' S H0 [C1 [C2 C3]]. split.
  - intros p c Hc L. cbn in *. eapply H0; [|exact L]. eapply same_struct_child; [apply same_struct_sym; exact S|exact Hc].
  - split.
    + intros p c Hc. cbn in *. eapply same_struct_some; [exact S|]. eapply C1.
      eapply same_struct_child; [apply same_struct_sym; exact S|exact Hc].
    + split; [|exact C3]. intros n Hn. cbn in *. apply C2. eapply same_struct_some; [apply same_struct_sym; exact S|exact Hn].
Qed.

Lemma children_exist_of_closed : forall s, closed_heap s -> children_exist (hp s).
Proof. intros s [C _]. exact C. Qed.

Lemma closed_lt : forall s n, closed_heap s -> lookup (hp s) n <> None -> n < nxt s.
Proof. intros s n [_ [C _]]. apply C. Qed.

(* ---------------------------------------------------------------------------------------------- lock_ *)
Lemma plock_inv : forall fuel s n ps h', Inv s -> plock fuel (hp s) n ps = Some h' -> Inv (with_hp s h').
Proof.
  intros fuel s n ps h' [HI1 HI0 HC] P.
  assert (G : grows (hp s) h') by (eapply plock_grows; exact P).
  destruct (struct_inv s h' (g_struct _ _ G) HI0 HC) as (A & B).
  split; [|exact A|exact B].
  intros p F L nd' c E' Hc. cbn in *.
  pose proof (g_struct _ _ G p) as Hs. unfold same_node_structure in Hs. rewrite E' in Hs.
  destruct (lookup (hp s) p) as [nd|] eqn:E; [|contradiction]. destruct Hs as [Hk He].
  assert (Hc0 : In c (node_children nd)) by (unfold node_children in *; rewrite He; exact Hc).
  destruct (flag_true (hp s) p) eqn:F0.
  - destruct (HI1 p F0 L nd c E Hc0) as [Fc Pc].
    split; [eapply grows_flag; eassumption|eapply grows_has_parent; eassumption].
  - apply (plock_new_closed _ _ _ _ _ (children_exist_of_closed _ HC) P p F0 F nd' c E' Hc).
Qed.

Lemma lock_inv : forall fuel s n h', Inv s -> lock_ fuel (hp s) n = Some h' -> Inv (with_hp s h').
Proof.
  intros fuel s n h' HI L. unfold lock_ in L. destruct (flag_true (hp s) n).
  - inversion L. subst. rewrite with_hp_id. exact HI.
  - eapply plock_inv; eassumption.
Qed.

Lemma lock_grows : forall fuel h n h', lock_ fuel h n = Some h' -> grows h h'.
Proof.
  intros fuel h n h' L. unfold lock_ in L. destruct (flag_true h n).
  - inversion L. apply grows_refl.
  - eapply plock_grows; exact L.
Qed.

(* a subtree whose flags are all cleared is not locked, whatever the derivation *)
Lemma is_locked_cleared : forall fuel h n b,
  (forall x, Reach h n x -> flag_true h x = false) -> is_locked fuel h n = Some b -> b = false.
Proof.
  induction fuel as [|f IH]; intros h n b Hc H; [discriminate|].
  cbn in H. destruct (lookup h n) as [nd|] eqn:E; [|inversion H; reflexivity].
  assert (Fn : flag_true h n = false) by (apply Hc; constructor).
  unfold flag_true in Fn. rewrite E in Fn.
  destruct (flg nd) eqn:Fl; cbn in Fn; [discriminate|inversion H; reflexivity|].
  destruct (nk nd); [inversion H; reflexivity|].
  destruct (node_children nd) as [|c cs] eqn:Ec; [inversion H; reflexivity|].
  cbn in H. destruct (is_locked f h c) as [[|]|] eqn:Lc; [| |discriminate].
  - assert (true = false); [|discriminate]. eapply IH; [|exact Lc].
    intros x R. apply Hc. econstructor; [|exact R]. eapply child_intro; [exact E|rewrite Ec; left; reflexivity].
  - inversion H. reflexivity.
Qed.

(* ---------------------------------------------------------------------------------------------- local updates of one node *)
Lemma lookup_upd_dom : forall h n nd m, lookup (upd h n nd) m = None <-> lookup h m = None.
Proof.
  intros h n nd m. rewrite lookup_upd. destruct (Nat.eqb_spec m n) as [->|Hne]; [|tauto].
  destruct (lookup h n); split; intros; congruence.
Qed.

Lemma upd_has_parent : forall h n nd nd' c p, lookup h n = Some nd -> nk nd' = nk nd -> pars nd' = pars nd ->
  (nk nd = KLazy -> incl (node_children nd) (node_children nd')) ->
  has_parent h c p -> has_parent (upd h n nd') c p.
Proof.
  intros h n nd nd' c p E K P L HP. induction HP as [c x p Ex I|c x m p Ex Kx I _ IH].
  - destruct (Nat.eq_dec c n) as [->|Hne].
    + rewrite E in Ex. inversion Ex. subst x. eapply HP_own; [eapply lookup_upd_same; exact E|rewrite P; exact I].
    + eapply HP_own; [rewrite lookup_upd_other; eassumption|exact I].
  - destruct (Nat.eq_dec c n) as [->|Hne].
    + rewrite E in Ex. inversion Ex. subst x. eapply HP_lazy; [eapply lookup_upd_same; exact E|congruence|apply (L Kx); exact I|exact IH].
    + eapply HP_lazy; [rewrite lookup_upd_other; eassumption|exact Kx|exact I|exact IH].
Qed.

Lemma Inv_update : forall s n nd nd', Inv s -> lookup (hp s) n = Some nd ->
  nk nd' = nk nd -> pars nd' = pars nd -> flg nd' = flg nd ->
  (forall c, In c (node_children nd') -> lookup (hp s) c <> None /\ (live s n = true -> live s c = true)) ->
  (flg nd = FTrue -> incl (node_children nd') (node_children nd)) ->
  (nk nd = KLazy -> incl (node_children nd) (node_children nd')) ->
  Inv (with_hp s (upd (hp s) n nd')).
Proof.
  intros s n nd nd' [HI1 HI0 [C1 [C2 C3]]] E K P Fl Ch Sub Lz.
  assert (FlagSame : forall x, flag_true (upd (hp s) n nd') x = flag_true (hp s) x).
  { intros x. unfold flag_true. rewrite lookup_upd. destruct (Nat.eqb_spec x n) as [->|Hne]; [|reflexivity].
    rewrite E, Fl. reflexivity. }
  split.
  - intros p F L nd2 c E2 Hc. cbn in *. rewrite FlagSame in F.
    destruct (Nat.eq_dec p n) as [->|Hne].
    + erewrite lookup_upd_same in E2; [|exact E]. inversion E2. subst nd2.
      assert (F0 : flg nd = FTrue).
      { unfold flag_true in F. rewrite E in F. destruct (flg nd); cbn in F; congruence. }
      destruct (HI1 n F L nd c E (Sub F0 c Hc)) as [Fc Pc].
      split; [rewrite FlagSame; exact Fc|eapply upd_has_parent; eassumption].
    + rewrite lookup_upd_other in E2; [|exact Hne].
      destruct (HI1 p F L nd2 c E2 Hc) as [Fc Pc].
      split; [rewrite FlagSame; exact Fc|eapply upd_has_parent; eassumption].
  - intros p c Hc L. cbn in *. destruct (child_lookup _ _ _ Hc) as [nd2 [E2 Hin]].
    destruct (Nat.eq_dec p n) as [->|Hne].
    + erewrite lookup_upd_same in E2; [|exact E]. inversion E2. subst nd2. apply (Ch c Hin). exact L.
    + rewrite lookup_upd_other in E2; [|exact Hne]. eapply HI0; [eapply child_intro; eassumption|exact L].
  - split.
    + intros p c Hc. cbn in *. destruct (child_lookup _ _ _ Hc) as [nd2 [E2 Hin]].
      intros Hnone. apply lookup_upd_dom in Hnone. revert Hnone.
      destruct (Nat.eq_dec p n) as [->|Hne].
      * erewrite lookup_upd_same in E2; [|exact E]. inversion E2. subst nd2. apply (Ch c Hin).
      * rewrite lookup_upd_other in E2; [|exact Hne]. eapply C1. eapply child_intro; eassumption.
    + split; [|exact C3]. intros m Hm. cbn in *. apply C2. intros Hnone. apply Hm. apply lookup_upd_dom. exact Hnone.
Qed.

(* an accepted unlock_ drops the shared / memmap flags of the nodes it went through: nothing the invariant talks about *)
Lemma Inv_unshare : forall l s, Inv s -> Inv (with_hp s (unshare (hp s) l)).
Proof.
  induction l as [|y r IH]; intros s HI; cbn [unshare].
  - rewrite with_hp_id. exact HI.
  - destruct (lookup (hp s) y) as [nd|] eqn:E; [|apply IH; exact HI].
    destruct (unshare_node_keeps nd) as (K & En & Fl & Pa & _).
    assert (HI' : Inv (with_hp s (upd (hp s) y (unshare_node nd)))).
    { apply (Inv_update s y nd (unshare_node nd) HI E K Pa Fl).
      - intros c Hc. unfold node_children in Hc. rewrite En in Hc. fold (node_children nd) in Hc.
        destruct HI as [_ HI0 [C1 _]]. split.
        + eapply C1. eapply child_intro; eassumption.
        + intros L. eapply HI0; [eapply child_intro; eassumption|exact L].
      - intros _. unfold node_children. rewrite En. apply incl_refl.
      - intros _. unfold node_children. rewrite En. apply incl_refl. }
    specialize (IH _ HI'). cbn in IH. exact IH.
Qed.

(* ---------------------------------------------------------------------------------------------- unlock_ *)
Lemma chk_with_hp : forall s1 s2, chk s1 s2 -> s2 = with_hp s1 (hp s2).
Proof.
  intros s1 s2 C. destruct s2 as [h d x w]. unfold with_hp. cbn.
  pose proof (c_dead _ _ C) as A. pose proof (c_nxt _ _ C) as B. pose proof (c_writes _ _ C) as D. cbn in *. subst. reflexivity.
Qed.

Lemma blocked_by : forall fuel s c p b,
  blocked fuel s c = Some b -> has_parent (hp s) c p -> ~ Reach (hp s) c p ->
  live s p = true -> flag_true (hp s) p = true -> b = true.
Proof.
  intros fuel s c p b B HP NR L F. unfold blocked in B.
  destruct (parents_of fuel (hp s) c) as [l|] eqn:Pl; [|discriminate]. inversion B. subst b.
  apply existsb_exists. exists p. split; [eapply parents_of_complete; eassumption|]. rewrite L, F. reflexivity.
Qed.

Lemma unlock_inv : forall fuel s n s' out, Inv s -> unlock_ fuel s n = Some (s', out) -> Inv s'.
Proof.
  intros fuel s n s' out HI U. unfold unlock_ in U.
  destruct (punlock fuel (hp s) n) as [[h1 subs]|] eqn:PU; [|discriminate].
  destruct (check_all fuel (with_hp s h1) (subs ++ [n])) as [[s2 r]|] eqn:CA; [|discriminate].
  destruct (punlock_spec _ _ _ _ _ PU) as (Un & Fr & Cl & Sub & Dp).
  destruct (check_all_spec _ _ _ _ _ CA) as [Ck Hall].
  destruct HI as [HI1 HI0 HC].
  assert (S01 : same_struct (hp s) h1) by apply Un.
  assert (S12 : same_struct h1 (hp s2)) by apply Ck.
  assert (S02 : same_struct (hp s) (hp s2)) by (eapply same_struct_trans; eassumption).
  assert (Es2 : s2 = with_hp s (hp s2)) by (rewrite (chk_with_hp _ _ Ck); reflexivity).
  (* a node still flagged after the propagation lies outside the unlocked subtree, and keeps its place in its children's lists *)
  assert (Key : forall p, flag_true (hp s2) p = true -> live s p = true ->
            flag_true h1 p = true /\ flag_true (hp s) p = true /\ ~ Reach (hp s) n p /\ lookup h1 p = lookup (hp s) p /\
            (forall sx c, chk (with_hp s h1) sx -> has_parent (hp s) c p -> has_parent (hp sx) c p)).
  { intros p F2 L. rewrite (chk_flag _ _ _ Ck) in F2. cbn in F2.
    assert (F0 : flag_true (hp s) p = true) by (eapply unl_flag; eassumption).
    assert (NR : ~ Reach (hp s) n p) by (intros R; rewrite (Cl _ R) in F2; discriminate).
    repeat split; auto.
    intros sx c Cx HP. eapply chk_has_parent; [exact Cx|exact L|exact F2|]. cbn. eapply unl_has_parent; eassumption. }
  (* a child of such a node that lies inside the unlocked subtree is blocked when its turn comes *)
  assert (Blocks : forall p c sx b, flag_true (hp s2) p = true -> live s p = true -> child (hp s) p c ->
            has_parent (hp s) c p -> Reach (hp s) n c -> chk (with_hp s h1) sx -> blocked fuel sx c = Some b -> b = true).
  { intros p c sx b F2 L Hc HP R Cx B.
    destruct (Key p F2 L) as (F1 & F0 & NR & El & Hk).
    eapply blocked_by; [exact B|apply Hk; assumption| |rewrite (chk_live _ _ _ Cx); exact L|rewrite (chk_flag _ _ _ Cx); exact F1].
    intros Rcp. assert (Rcp0 : Reach (hp s) c p).
    { eapply same_struct_reach; [apply same_struct_sym; eapply same_struct_trans; [exact S01|apply Cx]|exact Rcp]. }
    eapply depth_lt_no_cycle; [|exact Hc|exact Rcp0].
    eapply depth_lt_reach; [exact Rcp0|]. eapply depth_lt_reach; [exact R|exact Dp]. }
  assert (InSubs : forall c, Reach (hp s) n c -> In c (subs ++ [n])).
  { intros c R. apply in_or_app. apply Reach_inv in R. destruct R as [->|[c' [Hc' R']]]; [right; left; reflexivity|left; apply Sub; eauto]. }
  destruct r.
  - (* some check failed: self is re-locked *)
    destruct (lock_ fuel (hp s2) n) as [h3|] eqn:LK; [|discriminate]. inversion U. subst s' out. clear U.
    assert (P : plock fuel (hp s2) n None = Some h3).
    { unfold lock_ in LK. rewrite (chk_flag _ _ _ Ck) in LK. cbn in LK. rewrite (Cl n (Reach_refl _ n)) in LK. exact LK. }
    assert (G : grows (hp s2) h3) by (eapply plock_grows; exact P).
    assert (S03 : same_struct (hp s) h3) by (eapply same_struct_trans; [exact S02|apply G]).
    rewrite Es2. cbn.
    destruct (struct_inv s h3 S03 HI0 HC) as (A & B).
    split; [|exact A|exact B].
    intros p F3 L nd3 c E3 Hc. cbn in *.
    pose proof (S03 p) as Hs. unfold same_node_structure in Hs. rewrite E3 in Hs.
    destruct (lookup (hp s) p) as [nd|] eqn:E; [|contradiction]. destruct Hs as [Hk He].
    assert (Hc0 : In c (node_children nd)) by (unfold node_children in *; rewrite He; exact Hc).
    destruct (flag_true (hp s2) p) eqn:F2.
    + destruct (Key p F2 L) as (F1 & F0 & NR & El & Hkp).
      destruct (HI1 p F0 L nd c E Hc0) as [Fc Pc].
      split.
      * destruct (flag_true h3 c) eqn:F3c; [reflexivity|exfalso].
        assert (NN : ~ ~ Reach (hp s) n c).
        { intros NRc. assert (flag_true h3 c = true); [|congruence].
          eapply grows_flag; [exact G|]. rewrite (chk_flag _ _ _ Ck). cbn. unfold flag_true. rewrite (Fr c NRc). exact Fc. }
        apply NN. intros R. assert (flag_true h3 c = true); [|congruence].
        eapply plock_reach_flag; [exact P|eapply same_struct_reach; [exact S02|exact R]|].
        eapply same_struct_some; [exact S02|]. destruct HC as [C1 _]. eapply C1. eapply child_intro; eassumption.
      * eapply grows_has_parent; [exact G|]. apply (Hkp s2 c Ck Pc).
    + assert (CE2 : children_exist (hp s2)) by (eapply children_exist_same; [exact S02|apply children_exist_of_closed; exact HC]).
      apply (plock_new_closed _ _ _ _ _ CE2 P p F2 F3 nd3 c E3 Hc).
  - (* every check passed *)
    inversion U. subst s' out. clear U. apply Inv_unshare. rewrite Es2.
    destruct (struct_inv s (hp s2) S02 HI0 HC) as (A & B).
    split; [|exact A|exact B].
    intros p F2 L nd2 c E2 Hc. cbn in *.
    destruct (Key p F2 L) as (F1 & F0 & NR & El & Hkp).
    pose proof (S02 p) as Hs. unfold same_node_structure in Hs. rewrite E2 in Hs.
    destruct (lookup (hp s) p) as [nd|] eqn:E; [|contradiction]. destruct Hs as [Hk He].
    assert (Hc0 : In c (node_children nd)) by (unfold node_children in *; rewrite He; exact Hc).
    destruct (HI1 p F0 L nd c E Hc0) as [Fc Pc].
    assert (NRc : ~ Reach (hp s) n c).
    { intros R. destruct (Hall eq_refl c (InSubs c R)) as [sx [Cx Bx]].
      assert (false = true); [|discriminate].
      eapply (Blocks p c sx false); try eassumption. eapply child_intro; eassumption. }
    split.
    + rewrite (chk_flag _ _ _ Ck). cbn. unfold flag_true. rewrite (Fr c NRc). exact Fc.
    + apply (Hkp s2 c Ck Pc).
Qed.

(* ---------------------------------------------------------------------------------------------- allocation *)
Lemma Inv_alloc_leaf : forall s, Inv s -> Inv (fst (alloc_leaf s)).
Proof.
  intros s [HI1 HI0 [C1 [C2 C3]]]. unfold alloc_leaf. cbn. split; [exact HI1|exact HI0|].
  split; [exact C1|split]; cbn.
  - intros n Hn. specialize (C2 n Hn). lia.
  - intros d Hd. specialize (C3 d Hd). lia.
Qed.

Lemma lookup_alloc_old : forall s nd m, closed_heap s -> lookup (hp s) m <> None ->
  lookup (hp (fst (alloc_node s nd))) m = lookup (hp s) m.
Proof.
  intros s nd m _ Hm. cbn. rewrite lookup_app_fresh. destruct (lookup (hp s) m); [reflexivity|congruence].
Qed.

Lemma lookup_alloc_new : forall s nd, closed_heap s -> lookup (hp (fst (alloc_node s nd))) (nxt s) = Some nd.
Proof.
  intros s nd [_ [C2 _]]. cbn. rewrite lookup_app_fresh.
  destruct (lookup (hp s) (nxt s)) eqn:E.
  - assert (nxt s < nxt s) by (apply C2; congruence). lia.
  - rewrite Nat.eqb_refl. reflexivity.
Qed.

Lemma lookup_alloc_cases : forall s nd m, closed_heap s ->
  lookup (hp (fst (alloc_node s nd))) m = if Nat.eqb (nxt s) m then Some nd else lookup (hp s) m.
Proof.
  intros s nd m HC. destruct (Nat.eqb_spec (nxt s) m) as [Heq|Hne]; [subst m|].
  - apply lookup_alloc_new. exact HC.
  - cbn. rewrite lookup_app_fresh. destruct (lookup (hp s) m); [reflexivity|].
    destruct (Nat.eqb_spec (nxt s) m); [congruence|reflexivity].
Qed.

Lemma alloc_has_parent : forall s nd c p, closed_heap s -> has_parent (hp s) c p -> has_parent (hp (fst (alloc_node s nd))) c p.
Proof.
  intros s nd c p HC HP. induction HP as [c x p Ex I|c x m p Ex Kx I _ IH].
  - eapply HP_own; [rewrite lookup_alloc_old; [exact Ex|exact HC|congruence]|exact I].
  - eapply HP_lazy; [rewrite lookup_alloc_old; [exact Ex|exact HC|congruence]|exact Kx|exact I|exact IH].
Qed.

Lemma Inv_alloc_node : forall s nd, Inv s -> flg nd <> FTrue ->
  (forall c, In c (node_children nd) -> lookup (hp s) c <> None /\ live s c = true) ->
  Inv (fst (alloc_node s nd)).
Proof.
  intros s nd [HI1 HI0 HC] Fl Ch. pose proof HC as [C1 [C2 C3]].
  assert (FT : forall x, flag_true (hp (fst (alloc_node s nd))) x = true -> flag_true (hp s) x = true /\ x <> nxt s).
  { intros x F. unfold flag_true in F. rewrite lookup_alloc_cases in F; [|exact HC].
    destruct (Nat.eqb_spec (nxt s) x) as [Heq|Hne].
    - destruct (flg nd); cbn in F; congruence.
    - split; [exact F|congruence]. }
  split.
  - intros p F L nd2 c E2 Hc. destruct (FT p F) as [F0 Hne].
    rewrite lookup_alloc_cases in E2; [|exact HC]. destruct (Nat.eqb_spec (nxt s) p); [congruence|].
    destruct (HI1 p F0 L nd2 c E2 Hc) as [Fc Pc]. split.
    + unfold flag_true in *. rewrite lookup_alloc_old; [exact Fc|exact HC|].
      eapply C1. eapply child_intro; eassumption.
    + apply alloc_has_parent; assumption.
  - intros p c Hc L. destruct (child_lookup _ _ _ Hc) as [nd2 [E2 Hin]].
    rewrite lookup_alloc_cases in E2; [|exact HC]. destruct (Nat.eqb_spec (nxt s) p) as [Heq|Hne]; [subst p|].
    + inversion E2. subst nd2. apply (Ch c Hin).
    + eapply HI0; [eapply child_intro; eassumption|exact L].
  - split.
    + intros p c Hc. destruct (child_lookup _ _ _ Hc) as [nd2 [E2 Hin]].
      rewrite lookup_alloc_cases in E2; [|exact HC].
      assert (Hex : lookup (hp s) c <> None).
      { destruct (Nat.eqb_spec (nxt s) p) as [Heq|Hne]; [inversion E2; subst nd2; apply (Ch c Hin)|].
        eapply C1. eapply child_intro; eassumption. }
      rewrite lookup_alloc_old; assumption.
    + split.
      * intros m Hm. rewrite lookup_alloc_cases in Hm; [|exact HC]. cbn.
        destruct (Nat.eqb_spec (nxt s) m) as [Heq|Hne]; [lia|]. specialize (C2 m Hm). lia.
      * intros d Hd. cbn in *. specialize (C3 d Hd). lia.
Qed.
