From Coq Require Import ZArith List String Bool Lia.
Import ListNotations.
From TD Require Import Model.Dual.

Theorem parse_batch_size_dual src b : parse_bs_compile src b = parse_bs_eager src b.
Proof. destruct b, src; reflexivity. Qed.

Section AlignP.
  Context {V : Type}.

  Lemma dset_map {A B} (f : A -> B) d k v :
    dset (map (fun kv => (fst kv, f (snd kv))) d) k (f v) = map (fun kv => (fst kv, f (snd kv))) (dset d k v).
  Proof.
    induction d as [|[k' v'] r IH]; cbn; [reflexivity|].
    destruct (String.eqb k' k); cbn; [reflexivity|]. now rewrite IH.
  Qed.

  Lemma dget_map {A B} (f : A -> B) d k :
    dget (map (fun kv => (fst kv, f (snd kv))) d) k = option_map f (dget d k).
  Proof.
    induction d as [|[k' v'] r IH]; cbn; [reflexivity|]. destruct (String.eqb k' k); [reflexivity|exact IH].
  Qed.

  Lemma fold_dset_map {A B} (f : A -> B) l : forall d,
    fold_left (fun d kv => dset d (fst kv) (snd kv)) (map (fun kv => (fst kv, f (snd kv))) l)
              (map (fun kv => (fst kv, f (snd kv))) d)
    = map (fun kv => (fst kv, f (snd kv))) (fold_left (fun d kv => dset d (fst kv) (snd kv)) l d).
  Proof.
    induction l as [|[k v] r IH]; intros d; cbn [fold_left map fst snd]; [reflexivity|].
    rewrite dset_map. apply IH.
  Qed.

  (* partial map variant: values come from nth_error on [vals]; indices stored are always < length vals *)
  Lemma dget_dset_same {A} (d : list (string * A)) k v : dget (dset d k v) k = Some v.
  Proof.
    induction d as [|[k' v'] r IH]; cbn; [now rewrite String.eqb_refl|].
    destruct (String.eqb k' k) eqn:E; cbn; rewrite E; [reflexivity|exact IH].
  Qed.

  Lemma dget_dset_other {A} (d : list (string * A)) k k2 v : k <> k2 -> dget (dset d k v) k2 = dget d k2.
  Proof.
    intros N. induction d as [|[k' v'] r IH]; cbn.
    - destruct (String.eqb k k2) eqn:E; [apply String.eqb_eq in E; congruence|reflexivity].
    - destruct (String.eqb k' k) eqn:E; cbn.
      + apply String.eqb_eq in E. subst k'.
        destruct (String.eqb k k2) eqn:E2; [apply String.eqb_eq in E2; congruence|reflexivity].
      + destruct (String.eqb k' k2); [reflexivity|exact IH].
  Qed.

  (* invariant linking the two dictionaries while they are filled in lock-step *)
  Lemma align_inv (vals : list V) : forall keys (off : nat) (d1 : list (string * V)) (d2 : list (string * nat)) vs,
    List.length vs = List.length keys ->
    (forall k, dget d1 k = match dget d2 k with Some i => nth_error vals i | None => None end) ->
    (forall j, j < List.length vs -> nth_error vs j = nth_error vals (off + j)) ->
    forall k,
      dget (fold_left (fun d kv => dset d (fst kv) (snd kv)) (combine keys vs) d1) k
      = match dget (fold_left (fun d kv => dset d (fst kv) (snd kv)) (combine keys (seq off (List.length keys))) d2) k with
        | Some i => nth_error vals i | None => None end.
  Proof.
    induction keys as [|k0 keys IH]; intros off d1 d2 vs Hl H Hv k; cbn [combine fold_left length seq]; [apply H|].
    destruct vs as [|v vs]; [discriminate|]. cbn [combine fold_left fst snd].
    apply IH.
    - cbn in Hl. lia.
    - intros k2. destruct (string_dec k0 k2) as [->|N].
      + rewrite !dget_dset_same. specialize (Hv 0 ltac:(cbn; lia)). cbn in Hv. now rewrite Nat.add_0_r in Hv.
      + rewrite !dget_dset_other by assumption. apply H.
    - intros j Hj. specialize (Hv (S j) ltac:(cbn; lia)). cbn in Hv. now rewrite Nat.add_succ_r in Hv.
  Qed.

  Theorem align_dual keys (vals : list V) sorting :
    List.length keys = List.length vals -> align_compile keys vals sorting = align_eager keys vals sorting.
  Proof.
    intros Hl. unfold align_compile, align_eager, dict_of. f_equal. apply map_ext. intros k. symmetry.
    apply (align_inv vals keys 0 [] [] vals); [lia|reflexivity|reflexivity].
  Qed.

  Theorem items_list_dual keys (vals : list V) sorting :
    List.length keys = List.length vals ->
    items_list_aligned true keys vals sorting = items_list_aligned false keys vals sorting.
  Proof. intros Hl. unfold items_list_aligned. now rewrite align_dual. Qed.

  (* meaning of the aligned list, keys distinct: the i-th value returned is the one stored under the i-th sorting key *)
  Lemma dget_fold_notin {A} (l : list (string * A)) : forall d k,
    ~ In k (map fst l) -> dget (fold_left (fun d kv => dset d (fst kv) (snd kv)) l d) k = dget d k.
  Proof.
    induction l as [|[a v] r IH]; intros d k Hn; cbn [fold_left fst snd]; [reflexivity|].
    rewrite IH by (intros C; apply Hn; now right). apply dget_dset_other. intros ->. apply Hn. now left.
  Qed.

  Theorem align_keywise keys (vals : list V) i k v :
    NoDup keys -> List.length keys = List.length vals -> nth_error keys i = Some k -> nth_error vals i = Some v ->
    dget (dict_of (combine keys vals)) k = Some v.
  Proof.
    unfold dict_of. generalize (@nil (string * V)) as d. revert vals i.
    induction keys as [|k0 keys IH]; intros vals i d Hnd Hl Hk Hv; [destruct i; discriminate|].
    destruct vals as [|v0 vals]; [discriminate|]. cbn [combine fold_left fst snd].
    inversion Hnd as [|? ? Hnotin Hnd']; subst. destruct i as [|i]; cbn in Hk, Hv.
    - injection Hk as ->. injection Hv as ->. rewrite dget_fold_notin.
      + apply dget_dset_same.
      + intros C. apply Hnotin. clear -C Hl. revert vals Hl C. induction keys as [|a keys IHk]; intros [|b vals] Hl C;
          cbn in *; try contradiction; try discriminate.
        destruct C as [->|C]; [now left|right]. apply (IHk vals); [lia|exact C].
    - apply (IH vals i); [assumption|cbn in Hl; lia|assumption|assumption].
  Qed.
End AlignP.
