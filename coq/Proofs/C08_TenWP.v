(* C08: writes through an integer tensor (list / range) of any rank >= 1 sitting ON the stack dim:
   lazy[pre, T, post] = V performs ONE in-place write per position p of T, into the member selected by the VALUE T[p],
   at the sub-index the read uses, with the slice V[.., p, ..] taken by the POSITION p; no member object is replaced. *)
From Coq Require Import ZArith List Bool Lia ZifyBool.
Import ListNotations.
From TD Require Import Spec.PySlice Spec.C08_Dense Model.C08_Lazy Model.C08_Write
  Proofs.C08_CoordP Proofs.C08_IndexP Proofs.C08_WriteP Proofs.C08_TenP.
Open Scope Z_scope.

(* the plan: ms = the members addressed by the values of T, row-major; rank 1: member ms[i] <- V[.., i, ..] (dim ud);
   rank >= 2: row i of T is served with V[.., i, ..], recursively (the next dim of T sits at ud again) *)
Fixpoint ten_plan (sub : list item) (ud : nat) (tsh : list Z) (ms : list arr) (v : arr) : list wr :=
  match tsh with
  | s :: ((_ :: _) as rest) =>
      concat (map (fun ck => ten_plan sub ud rest (fst ck) (Index (select_idx ud (Z.of_nat (snd ck))) v))
                  (combine (chunks (Z.to_nat s) (Z.to_nat (prodZ rest)) ms) (seq 0 (Z.to_nat s))))
  | _ => map (fun mk => WSet (fst mk) sub (Index (select_idx ud (Z.of_nat (snd mk))) v)) (combine ms (seq 0 (List.length ms)))
  end.

Definition leaf_write (LS : arr -> list item -> arr -> res (list wr)) (f' : nat) (parts : list arr) (sub : list item)
                      (j : Z) (vi : arr) : res (list wr) :=
  if is_empty_idx sub
  then (if fixed_D23 then rbind (member parts j) (fun m => m_update f' m vi)
        else match norm_i j (lenZ parts) with Some j' => Ok [WReplace j' vi] | None => Raised end)
  else rbind (member parts j) (fun m => m_setitem LS m sub vi).

Lemma assign_leaves_eq LS f' parts ud sub full vals :
  assign LS f' parts ud sub full (NList (map NLeaf vals)) =
  rbind (v_unbind full ud) (fun vs =>
  rbind (rmap (fun ji => rbind (of_opt (nth_error vs (snd ji))) (fun vi => leaf_write LS f' parts sub (fst ji) vi))
              (combine vals (seq 0 (List.length vals))))
        (fun ws => Ok (concat ws))).
Proof.
  cbn [assign]. destruct (v_unbind full ud) as [vs| | |]; cbn [rbind]; try reflexivity.
  generalize 0%nat. induction vals as [|j vals IH]; intros i; [reflexivity|].
  cbn [map List.length seq combine rmap fst snd].
  destruct (of_opt (nth_error vs i)) as [vi| | |]; cbn [rbind]; try reflexivity.
  fold (leaf_write LS f' parts sub j vi).
  destruct (leaf_write LS f' parts sub j vi) as [w| | |]; cbn [rbind]; try reflexivity.
  rewrite IH. destruct (rmap _ _) as [ws| | |]; reflexivity.
Qed.

Lemma assign_lists_eq LS f' parts ud sub full sh cs :
  assign LS f' parts ud sub full (NList (map (to_nest sh) cs)) =
  rbind (v_unbind full ud) (fun vs =>
  rbind (rmap (fun ci => rbind (of_opt (nth_error vs (snd ci))) (fun vi => assign LS f' parts ud sub vi (to_nest sh (fst ci))))
              (combine cs (seq 0 (List.length cs))))
        (fun ws => Ok (concat ws))).
Proof.
  cbn [assign]. destruct (v_unbind full ud) as [vs| | |]; cbn [rbind]; try reflexivity.
  generalize 0%nat. induction cs as [|c cs IH]; intros i; [reflexivity|].
  cbn [map List.length seq combine rmap fst snd].
  destruct (to_nest_list sh c) as [l E]. rewrite E.
  destruct (of_opt (nth_error vs i)) as [vi| | |]; cbn [rbind]; try reflexivity.
  destruct (assign LS f' parts ud sub vi (NList l)) as [w| | |]; cbn [rbind]; try reflexivity.
  rewrite IH. destruct (rmap _ _) as [ws| | |]; reflexivity.
Qed.

(* V[.., i, ..] along dim |ra| of a value of shape ra ++ t :: rb *)
Lemma res_shape_full_slices ra : Forall (fun s => 0 <= s) ra -> forall rest tl,
  res_shape (repeat (ISl None None None) (List.length ra) ++ rest) (ra ++ tl) = option_map (app ra) (res_shape rest tl).
Proof.
  induction 1 as [|s ra Hs _ IH]; intros rest tl.
  - cbn. destruct (res_shape rest tl); reflexivity.
  - cbn [List.length repeat app res_shape step_of]. change (1 <=? 0) with false. cbv iota.
    assert (Hrl : range_len (py_indices None None 1 s) = s).
    { unfold py_indices, adjust, range_len. cbn. destruct (0 <? s) eqn:E; [|lia]. rewrite Z.div_1_r. lia. }
    rewrite Hrl, IH. destruct (res_shape rest tl); reflexivity.
Qed.

Lemma shape_select ra t rb i v : Forall (fun s => 0 <= s) ra -> shape_of v = Some (ra ++ t :: rb) -> (Z.of_nat i < t) ->
  shape_of (Index (select_idx (List.length ra) (Z.of_nat i)) v) = Some (ra ++ rb).
Proof.
  intros Hra Hv Hi. cbn [shape_of]. rewrite Hv. cbn [opt_bind]. unfold select_idx.
  rewrite (res_shape_full_slices ra Hra). cbn [res_shape]. unfold norm_i, in_dim.
  replace ((0 <=? Z.of_nat i) && (Z.of_nat i <? t)) with true by lia. reflexivity.
Qed.

Lemma v_unbind_ok ra t rb v : shape_of v = Some (ra ++ t :: rb) ->
  v_unbind v (List.length ra) = Ok (map (fun k => Index (select_idx (List.length ra) (Z.of_nat k)) v) (seq 0 (Z.to_nat t))).
Proof. intros Hv. unfold v_unbind. rewrite Hv, nth_error_app_mid. reflexivity. Qed.

Lemma chunks_concat {A} k : forall (mss : list (list A)), Forall (fun c => List.length c = k) mss ->
  chunks (List.length mss) k (concat mss) = mss.
Proof.
  induction 1 as [|c mss Hc _ IH]; [reflexivity|]. cbn [List.length chunks concat].
  rewrite <- Hc at 1 3. rewrite firstn_app_exact', skipn_app_exact', IH. reflexivity.
Qed.

Section TenWrite.
  Variable LS : arr -> list item -> arr -> res (list wr).
  Variables (f' : nat) (parts : list arr) (sub : list item) (ra rb : list Z).
  Let ud := List.length ra.
  Hypothesis Hplain : Forall (fun p => is_stack p = false) parts.
  Hypothesis Hra : Forall (fun s => 0 <= s) ra.

  Lemma leaf_write_plain j vi w : leaf_write LS (S f') parts sub j vi = Ok w ->
    exists m, member parts j = Ok m /\ w = [WSet m sub vi].
  Proof.
    unfold leaf_write, fixed_D23. destruct sub as [|it sub'] eqn:Es; cbn [is_empty_idx]; intros H;
      apply rbind_ok in H; destruct H as [m [Em H]]; exists m; (split; [exact Em|]);
      pose proof (proj1 (Forall_forall _ _) Hplain m (member_In _ _ _ Em)) as Hm.
    - destruct m; cbn in Hm; try discriminate; cbn [m_update] in H; inversion H; reflexivity.
    - unfold m_setitem in H. rewrite Hm in H. inversion H. reflexivity.
  Qed.

  Lemma rmap_leaf_writes v : forall vals i ws n,
    (i + List.length vals <= n)%nat ->
    rmap (fun ji : Z * nat => rbind (of_opt (nth_error (map (fun k => Index (select_idx ud (Z.of_nat k)) v) (seq 0 n)) (snd ji)))
                                    (fun vi => leaf_write LS (S f') parts sub (fst ji) vi))
         (combine vals (seq i (List.length vals))) = Ok ws ->
    exists ms, Forall2 (fun j m => member parts j = Ok m) vals ms /\
               concat ws = map (fun mk => WSet (fst mk) sub (Index (select_idx ud (Z.of_nat (snd mk))) v)) (combine ms (seq i (List.length ms))).
  Proof.
    induction vals as [|j vals IH]; intros i ws n Hn H.
    - cbn in H. inversion H. exists []. split; [constructor|reflexivity].
    - cbn [List.length seq combine rmap fst snd] in H. cbn [List.length] in Hn.
      apply rbind_ok in H. destruct H as [w [Hw H]]. apply rbind_ok in H. destruct H as [ws' [Hws H]].
      inversion H; subst ws. clear H.
      apply rbind_ok in Hw. destruct Hw as [vi [Hvi Hw]].
      rewrite nth_error_map, nth_error_seq in Hvi.
      replace (i <? n)%nat with true in Hvi by (symmetry; apply Nat.ltb_lt; lia). cbn in Hvi. inversion Hvi; subst vi. clear Hvi.
      destruct (leaf_write_plain _ _ _ Hw) as [m [Em Ew]]. subst w.
      destruct (IH (S i) ws' n ltac:(lia) Hws) as [ms [F E]].
      exists (m :: ms). split; [constructor; assumption|].
      cbn [concat List.length seq combine map fst snd app]. rewrite E. reflexivity.
  Qed.

  Lemma assign_sem : forall tsh, tsh <> [] -> Forall (fun s => 0 <= s) tsh -> forall vals v plan,
    lenZ vals = prodZ tsh -> shape_of v = Some (ra ++ tsh ++ rb) ->
    assign LS (S f') parts ud sub v (to_nest tsh vals) = Ok plan ->
    exists ms, Forall2 (fun j m => member parts j = Ok m) vals ms /\ plan = ten_plan sub ud tsh ms v.
  Proof.
    induction tsh as [|s tsh IH]; intros Hne Hpos vals v plan HL Hv H; [congruence|].
    inversion Hpos as [|? ? Hs Hpos']; subst.
    destruct tsh as [|s2 rest].
    - cbn [to_nest] in H. rewrite assign_leaves_eq in H. cbn [app] in Hv. unfold ud in H.
      rewrite (v_unbind_ok ra s rb v Hv) in H. cbn [rbind] in H.
      apply rbind_ok in H. destruct H as [ws [Hws H]]. inversion H; subst plan. clear H.
      assert (E : lenZ vals = s) by (cbn in HL; lia).
      assert (En : (0 + List.length vals <= Z.to_nat s)%nat) by (unfold lenZ in E; lia).
      destruct (rmap_leaf_writes v vals 0%nat ws (Z.to_nat s) En Hws) as [ms [F Ep]].
      exists ms. split; [exact F|]. rewrite Ep. reflexivity.
    - set (tsh' := s2 :: rest) in *.
      assert (HP : 0 <= prodZ tsh') by (apply prodZ_nonneg; exact Hpos').
      change (to_nest (s :: tsh') vals)
        with (NList (map (to_nest tsh') (chunks (Z.to_nat s) (Z.to_nat (prodZ tsh')) vals))) in H.
      rewrite assign_lists_eq in H. cbn [app] in Hv. unfold ud in H.
      rewrite (v_unbind_ok ra s (tsh' ++ rb) v Hv) in H. cbn [rbind] in H.
      apply rbind_ok in H. destruct H as [ws [Hws H]]. inversion H; subst plan. clear H.
      change (prodZ (s :: tsh')) with (s * prodZ tsh') in HL.
      assert (HLn : List.length vals = (Z.to_nat s * Z.to_nat (prodZ tsh'))%nat) by (unfold lenZ in HL; nia).
      pose proof (chunks_all_length (Z.to_nat s) (Z.to_nat (prodZ tsh')) vals HLn) as Hcs.
      (* rows, one after the other *)
      assert (Hrows : forall cs i ws, (i + List.length cs <= Z.to_nat s)%nat ->
                Forall (fun c : list Z => List.length c = Z.to_nat (prodZ tsh')) cs ->
                rmap (fun ci : list Z * nat =>
                        rbind (of_opt (nth_error (map (fun k => Index (select_idx (List.length ra) (Z.of_nat k)) v) (seq 0 (Z.to_nat s))) (snd ci)))
                              (fun vi => assign LS (S f') parts (List.length ra) sub vi (to_nest tsh' (fst ci))))
                     (combine cs (seq i (List.length cs))) = Ok ws ->
                exists mss, Forall2 (fun c ms => Forall2 (fun j m => member parts j = Ok m) c ms) cs mss /\
                  concat ws = concat (map (fun ck => ten_plan sub ud tsh' (fst ck) (Index (select_idx ud (Z.of_nat (snd ck))) v))
                                          (combine mss (seq i (List.length mss))))).
      { induction cs as [|c cs IHc]; intros i ws0 Hi Hall Hr.
        - cbn in Hr. inversion Hr. exists []. split; [constructor|reflexivity].
        - cbn [List.length seq combine rmap fst snd] in Hr. cbn [List.length] in Hi.
          inversion Hall as [|? ? Hc Hall']; subst.
          apply rbind_ok in Hr. destruct Hr as [w [Hw Hr]]. apply rbind_ok in Hr. destruct Hr as [ws' [Hws' Hr]].
          inversion Hr; subst ws0. clear Hr.
          apply rbind_ok in Hw. destruct Hw as [vi [Hvi Hw]].
          rewrite nth_error_map, nth_error_seq in Hvi.
          replace (i <? Z.to_nat s)%nat with true in Hvi by (symmetry; apply Nat.ltb_lt; lia). cbn in Hvi. inversion Hvi; subst vi. clear Hvi.
          assert (Hvi : shape_of (Index (select_idx (List.length ra) (Z.of_nat i)) v) = Some (ra ++ tsh' ++ rb)).
          { apply (shape_select ra s (tsh' ++ rb) i v Hra Hv). lia. }
          destruct (IH ltac:(discriminate) Hpos' c _ w ltac:(unfold lenZ; lia) Hvi Hw) as [ms [Fm Ew]].
          destruct (IHc (S i) ws' ltac:(lia) Hall' Hws') as [mss [Fmss Ec]].
          exists (ms :: mss). split; [constructor; assumption|].
          cbn [concat List.length seq combine map fst snd]. rewrite Ec, Ew. reflexivity. }
      assert (Hi0 : (0 + List.length (chunks (Z.to_nat s) (Z.to_nat (prodZ tsh')) vals) <= Z.to_nat s)%nat)
        by (rewrite chunks_length; lia).
      destruct (Hrows _ 0%nat ws Hi0 Hcs Hws) as [mss [Fmss Ec]].
      exists (concat mss). split.
      + (* Forall2 over the concatenation of the rows *)
        assert (Evals : vals = concat (chunks (Z.to_nat s) (Z.to_nat (prodZ tsh')) vals)).
        { clear -HLn. revert vals HLn. generalize (Z.to_nat (prodZ tsh')) as k. induction (Z.to_nat s) as [|n IHn]; intros k vals HL.
          - cbn in *. destruct vals; [reflexivity|discriminate].
          - cbn [chunks concat]. rewrite <- IHn by (rewrite skipn_length; nia). symmetry. apply firstn_skipn. }
        rewrite Evals at 1. clear -Fmss. induction Fmss as [|c ms cs mss Hc _ IHF]; [constructor|].
        cbn [concat]. apply Forall2_app; assumption.
      + rewrite Ec. cbn [ten_plan]. fold tsh'.
        assert (Hlen : List.length mss = Z.to_nat s) by (rewrite <- (Forall2_length _ _ _ Fmss), chunks_length; reflexivity).
        assert (Hmss : Forall (fun ms : list arr => List.length ms = Z.to_nat (prodZ tsh')) mss).
        { apply (Forall2_Forall_r _ _ _ _ _ Fmss Hcs). intros c ms Hc F. rewrite <- (Forall2_length _ _ _ F). exact Hc. }
        rewrite <- Hlen. rewrite (chunks_concat _ mss Hmss). reflexivity.
  Qed.
End TenWrite.

Lemma res_shape_basic_nonneg pre : basic pre -> forall S1 ra, Forall (fun s => 0 <= s) S1 ->
  res_shape pre S1 = Some ra -> Forall (fun s => 0 <= s) ra.
Proof.
  induction 1 as [|it pre Hit _ IH]; intros S1 ra HS H.
  - cbn in H. inversion H; subst. exact HS.
  - destruct it as [j|a b c| | |? ?|? ?]; cbn in Hit; try contradiction; cbn [res_shape] in H.
    + destruct S1 as [|s S1]; [discriminate|]. destruct (norm_i j s); [|discriminate]. inversion HS; subst. eapply IH; eauto.
    + destruct S1 as [|s S1]; [discriminate|]. destruct (step_of c <=? 0); [discriminate|].
      destruct (res_shape pre S1) as [t|] eqn:E; [|discriminate]. cbn [option_map] in H.
      assert (Era : ra = range_len (py_indices a b (step_of c) s) :: t) by congruence. subst ra. inversion HS; subst.
      constructor; [apply range_len_nonneg|eapply IH; eauto].
    + destruct (res_shape pre S1) as [t|] eqn:E; [|discriminate]. inversion H; subst.
      constructor; [lia|eapply IH; eauto].
Qed.

(* write_through for an integer tensor on the stack dim: every rank >= 1, every stack dim, ints / slices / None around it;
   flat stack of plain members.  ms = the members addressed by the VALUES of T (row-major); none is replaced *)
Theorem setitem_ten_plan fuel sd bs0 parts bs pre t0 tsh vals post v vsh plan :
  parts <> [] -> Forall (fun p => shape_of p = Some bs /\ is_stack p = false) parts -> (sd <= List.length bs)%nat ->
  Forall (fun s => 0 <= s) bs ->
  basic pre -> consumed pre = sd -> basic post ->
  shape_of v = Some vsh -> res_shape (pre ++ ITen (t0 :: tsh) vals :: post) (insert_at sd (lenZ parts) bs) = Some vsh ->
  lz_setitem (S (S fuel)) (Stack sd bs0 parts) (pre ++ ITen (t0 :: tsh) vals :: post) v = Ok plan ->
  exists ms, Forall2 (fun j m => member parts j = Ok m) vals ms /\
             plan = ten_plan (pre ++ post) (rdims_l pre) (t0 :: tsh) ms v.
Proof.
  intros Hne Hparts Hsd Hnn HB HC HBp Hv Hlegal H.
  set (T := t0 :: tsh) in *.
  assert (Hsh : Forall (fun p => shape_of p = Some bs) parts) by (eapply Forall_impl; [|exact Hparts]; intros p [A _]; exact A).
  assert (Hpl : Forall (fun p => is_stack p = false) parts) by (eapply Forall_impl; [|exact Hparts]; intros p [_ A]; exact A).
  assert (HNpre : noell pre) by (apply basic_noell; exact HB).
  assert (HN : noell (pre ++ ITen T vals :: post)).
  { apply noell_app; [exact HNpre|constructor; [reflexivity|apply basic_noell; exact HBp]]. }
  remember (S fuel) as f1 eqn:Ef1.
  cbn [lz_setitem] in H. rewrite (shape_of_stack sd bs0 parts bs Hne Hsh Hsd) in H.
  rewrite (convert_ellipsis_noell _ _ HN) in H. cbn [rbind] in H. unfold compute_batch_size in H. rewrite Hlegal in H.
  unfold prep_value in H. rewrite Hv, list_eqb_refl, Hv in H.
  destruct (split_at sd bs Hsd) as [S1 [S2 [Ebs LS1]]]. subst bs.
  assert (Eins : insert_at sd (lenZ parts) (S1 ++ S2) = S1 ++ lenZ parts :: S2) by (rewrite <- LS1; apply insert_at_app).
  rewrite Eins in H, Hlegal.
  rewrite (res_shape_app pre HNpre S1 _ _ ltac:(lia)) in Hlegal.
  destruct (res_shape pre S1) as [ra|] eqn:Era; [|discriminate].
  cbn [res_shape] in Hlegal.
  destruct ((lenZ vals =? prodZ T) && vals_ok vals (lenZ parts) && forallb (fun x : Z => 0 <=? x) T) eqn:Hc; [|discriminate].
  destruct (res_shape post S2) as [rb|] eqn:Erb; [|discriminate]. cbn [option_map] in Hlegal.
  inversion Hlegal; subst vsh. clear Hlegal.
  apply andb_prop in Hc. destruct Hc as [Hc HposT]. apply andb_prop in Hc. destruct Hc as [HL _].
  assert (HposT' : Forall (fun s => 0 <= s) T).
  { apply Forall_forall. intros s Hs. pose proof (proj1 (forallb_forall _ _) HposT s Hs). lia. }
  assert (HA : one_adv (pre ++ ITen T vals :: post)).
  { unfold one_adv.
    assert (E : forall l, basic l -> filter is_adv l = []).
    { intros l Hl. induction Hl as [|it l Hit _ IH]; [reflexivity|]. cbn. destruct it; cbn in Hit; try contradiction; cbn; exact IH. }
    rewrite filter_app. cbn [filter is_adv]. rewrite (E pre HB), (E post HBp). reflexivity. }
  unfold setitem_body in H.
  rewrite (split_index_ten sd (List.length parts) _ pre T vals post HB HC (basic_post _ HBp) HA HL) in H.
  cbn [rbind mk_split_nd sp_has_bool sp_nd sp_kind sp_isint sp_num_single sp_num_none sp_num_squash] in H.
  rewrite Z.sub_0_r in H. rewrite <- HC in H at 1. rewrite (nsd_basic pre HB) in H.
  unfold nonneg_nat in H. replace (Z.of_nat (rdims_l pre) <? 0) with false in H by lia. cbn [rbind] in H.
  rewrite Nat2Z.id in H.
  assert (Hnsd : List.length ra = rdims_l pre) by (eapply res_shape_exact; eauto; lia).
  assert (Hra : Forall (fun s => 0 <= s) ra).
  { apply (res_shape_basic_nonneg pre HB S1 ra); [|exact Era]. apply Forall_app in Hnn. tauto. }
  rewrite <- Hnsd in H |- *. subst f1.
  apply (assign_sem _ fuel parts (pre ++ post) ra rb Hpl Hra T ltac:(discriminate) HposT' vals v plan ltac:(lia) Hv H).
Qed.

(* rank 1, spelled out: member T[i] receives V[.., i, ..] -- the slice is chosen by the POSITION i, the member by the VALUE T[i] *)
Corollary setitem_ten1_plan fuel sd bs0 parts bs pre t0 vals post v vsh plan :
  parts <> [] -> Forall (fun p => shape_of p = Some bs /\ is_stack p = false) parts -> (sd <= List.length bs)%nat ->
  Forall (fun s => 0 <= s) bs ->
  basic pre -> consumed pre = sd -> basic post ->
  shape_of v = Some vsh -> res_shape (pre ++ ITen [t0] vals :: post) (insert_at sd (lenZ parts) bs) = Some vsh ->
  lz_setitem (S (S fuel)) (Stack sd bs0 parts) (pre ++ ITen [t0] vals :: post) v = Ok plan ->
  exists ms, Forall2 (fun j m => member parts j = Ok m) vals ms /\
             plan = write_plan_of ms (pre ++ post) (rdims_l pre) v.
Proof. intros. eapply (setitem_ten_plan fuel sd bs0 parts bs pre t0 [] vals post v vsh plan); eauto. Qed.
