(* C14 — key plumbing of probabilistic modules: lemmas about Model/C14_Prob.v *)
From Coq Require Import List String Bool Arith Lia.
Import ListNotations.
From TD Require Import Model.C14_Flow Model.C14_Interact Model.C14_Prob Proofs.C14_FlowP Proofs.C14_InteractP.

Lemma all_some_map : forall (A : Type) (l : list (option A)) r, all_some l = Some r -> map Some r = l.
Proof.
  induction l as [|[a|] l IH]; intros r H; cbn in H; try discriminate.
  - inversion H. reflexivity.
  - destruct (all_some l) as [r'|]; cbn in H; [|discriminate]. inversion H; subst. cbn. f_equal. now apply IH.
Qed.

(* ---- the distribution is built from exactly the entries stored under the advertised in_keys *)
Lemma dist_reads_in_keys : forall m x x', (forall k, List.In k (p_in m) -> pget k x = pget k x') ->
  get_dist m x = get_dist m x'.
Proof.
  intros m x x' H. unfold get_dist. do 2 f_equal. apply map_ext_in. intros k Hk. now rewrite (H k Hk).
Qed.

Lemma dist_params : forall m x d, get_dist m x = Some d ->
  d_mod d = pid m /\ d_kw d = p_kw m /\ map Some (d_ps d) = map (fun k => par (pget k x)) (p_in m).
Proof.
  intros m x d H. unfold get_dist in H.
  destruct (all_some (map (fun k => par (pget k x)) (p_in m))) as [ps|] eqn:E; cbn in H; [|discriminate].
  inversion H; subst; cbn. repeat split. now apply all_some_map.
Qed.

(* ---- writes *)
Lemma pget_pset : forall k k' v t, pget k (pset k' v t) = if key_eqb k k' then Some v else pget k t.
Proof.
  intros k k' v t. induction t as [|[k1 v1] r IH]; cbn.
  - destruct (key_eqb k k'); reflexivity.
  - destruct (key_eqb k' k1) eqn:E1; cbn.
    + destruct (key_eqb k k') eqn:E2; [reflexivity|].
      destruct (key_eqb k k1) eqn:E3; [|reflexivity].
      apply key_eqb_eq in E1, E3. subst. now rewrite key_eqb_refl in E2.
    + destruct (key_eqb k k1) eqn:E3.
      * destruct (key_eqb k k') eqn:E2; [|reflexivity].
        apply key_eqb_eq in E2, E3. subst. now rewrite key_eqb_refl in E1.
      * exact IH.
Qed.

Lemma wr_frame : forall kvs d k, (forall kv, List.In kv kvs -> fst kv <> k) -> pget k (wr kvs d) = pget k d.
Proof.
  unfold wr. induction kvs as [|kv r IH]; intros d k H; cbn; [reflexivity|].
  rewrite IH by (intros kv' Hk; apply H; now right). rewrite pget_pset.
  destruct (key_eqb k (fst kv)) eqn:E; [|reflexivity]. apply key_eqb_eq in E. exfalso. apply (H kv); [now left|congruence].
Qed.

Lemma keys_eqb_eq : forall a b, keys_eqb a b = true -> a = b.
Proof.
  induction a as [|x a IH]; destruct b as [|y b]; cbn; intro H; try discriminate; [reflexivity|].
  apply andb_true_iff in H as [H1 H2]. apply key_eqb_eq in H1. subst. f_equal. now apply IH.
Qed.
Lemma In_skipn' : forall (A : Type) n (l : list A) x, List.In x (skipn n l) -> List.In x l.
Proof. induction n as [|n IH]; intros [|y l] x H; cbn in *; auto. Qed.
Lemma lastn_incl : forall n l k, List.In k (lastn n l) -> List.In k l.
Proof. intros n l k H. unfold lastn in H. destruct (Nat.eqb n 0); [assumption|]. now apply In_skipn' in H. Qed.

(* ---- every log-probability key of a module that returns log-probabilities is an advertised out key *)
Lemma log_prob_keys_advertised : forall now m oks lpks, p_rlp m = true ->
  pm_out_keys now m = Some oks -> log_prob_keys_of now m = Some lpks ->
  forall k, List.In k lpks -> List.In k oks.
Proof.
  intros now m oks lpks Hr Ho Hl k Hk. unfold pm_out_keys in Ho. rewrite Hr in Ho. destruct now.
  - unfold log_prob_keys_of in Hl. destruct (Bool.eqb true (p_agg m)) eqn:E; [|discriminate].
    destruct (log_prob_key_of true m) as [lk|]; [|discriminate]. cbn in Hl. inversion Hl; subst. inversion Ho; subst.
    destruct Hk as [<-|[]]. destruct (memk lk (p_out m)) eqn:M; [now apply memk_In|]. apply in_or_app. right. now left.
  - rewrite Hl in Ho. inversion Ho; subst.
    destruct (keys_eqb (lastn (List.length lpks) (p_out m)) lpks) eqn:E.
    + apply keys_eqb_eq in E. rewrite <- E in Hk. now apply lastn_incl in Hk.
    + apply in_or_app. now right.
Qed.
Lemma log_prob_key_in_keys : forall now m lk, log_prob_key_of now m = Some lk ->
  exists lpks, log_prob_keys_of now m = Some lpks /\ List.In lk lpks.
Proof.
  intros now m lk H. unfold log_prob_keys_of. unfold log_prob_key_of in *.
  destruct (Bool.eqb now (p_agg m)) eqn:E; [|discriminate]. destruct now.
  - rewrite H. cbn. eexists; split; [reflexivity|now left].
  - destruct (p_lpks m) as [[|k [|]]|]; try discriminate. inversion H; subst. eexists; split; [reflexivity|now left].
Qed.

Definition dest (x : ptd) (o : option ptd) : ptd := match o with Some ot => ot | None => x end.

(* ---- a plain (non-composite) module, any settings: the sample is the term the interaction type prescribes, of the
   distribution built from the in_keys; every entry outside the advertised out_keys is the same binding afterwards, in the
   destination and (with tensordict_out) in the input *)
Lemma plain_sample_term : forall f148 f149 now ctx cap m x o k x' o',
  p_comp m = None -> p_out m = [k] ->
  (forall lk, p_rlp m = true -> log_prob_key_of now m = Some lk -> lk <> k) ->
  pm_forward f148 f149 now ctx cap m x o true = PDone x' o' ->
  exists d, get_dist m x = Some d
    /\ pget k (dest x' o') = Some (PS d (dist_sample (resolve ctx (p_default m)) cap) 0).
Proof.
  intros f148 f149 now ctx cap m x o k x' o' Hc Hk Hlk H. unfold pm_forward in H.
  destruct (get_dist m x) as [d|]; [|discriminate]. exists d. split; [reflexivity|].
  destruct (is_raise (dist_sample (resolve ctx (p_default m)) cap)); [discriminate|]. rewrite Hc, Hk in H.
  destruct (p_rlp m) eqn:Hr.
  - destruct (log_prob_key_of now m) as [lk|] eqn:El; [|discriminate]. specialize (Hlk lk eq_refl eq_refl).
    assert (N : key_eqb k lk = false) by (apply key_eqb_neq; congruence).
    destruct o as [ot|]; inversion H; subst; cbn [dest]; unfold wr; cbn [fold_left fst snd];
      rewrite !pget_pset, N, key_eqb_refl; reflexivity.
  - destruct o as [ot|]; inversion H; subst; cbn [dest]; unfold wr; cbn [fold_left fst snd];
      rewrite pget_pset, key_eqb_refl; reflexivity.
Qed.

Lemma plain_footprint : forall f148 f149 now ctx cap m x o req x' o' oks,
  p_comp m = None ->
  pm_forward f148 f149 now ctx cap m x o req = PDone x' o' -> pm_out_keys now m = Some oks ->
  forall k, ~ List.In k oks ->
    pget k (dest x' o') = pget k (dest x o) /\ (o <> None -> x' = x).
Proof.
  intros f148 f149 now ctx cap m x o req x' o' oks Hc H Ho k Hk.
  assert (Hout : forall k0, List.In k0 (p_out m) -> List.In k0 oks).
  { intros k0 H0. unfold pm_out_keys in Ho. destruct (p_rlp m); [|inversion Ho; now subst].
    destruct now.
    - destruct (log_prob_key_of true m); [|discriminate]. inversion Ho; subst.
      destruct (memk k1 (p_out m)); [assumption|]. apply in_or_app. now left.
    - destruct (log_prob_keys_of false m); [|discriminate]. inversion Ho; subst.
      destruct (keys_eqb _ _); [assumption|]. apply in_or_app. now left. }
  assert (Hlp : forall lk, p_rlp m = true -> log_prob_key_of now m = Some lk -> List.In lk oks).
  { intros lk Hr El. destruct (log_prob_key_in_keys now m lk El) as [lpks [E1 E2]].
    now apply (log_prob_keys_advertised now m oks lpks Hr Ho E1). }
  assert (Fin : forall kvs, (forall kv, List.In kv kvs -> List.In (fst kv) oks) ->
     (match o with Some ot => PDone x (Some (wr kvs ot)) | None => PDone (wr kvs x) None end) = PDone x' o' ->
     pget k (dest x' o') = pget k (dest x o) /\ (o <> None -> x' = x)).
  { intros kvs Hkvs E. destruct o as [ot|]; inversion E; subst; cbn [dest].
    - split; [|reflexivity]. apply wr_frame. intros kv Hkv Ek. apply Hk. rewrite <- Ek. now apply Hkvs.
    - split; [|intro C; now elim C]. apply wr_frame. intros kv Hkv Ek. apply Hk. rewrite <- Ek. now apply Hkvs. }
  unfold pm_forward in H. destruct (get_dist m x) as [d|]; [|discriminate]. rewrite Hc in H.
  destruct req.
  - destruct (is_raise (dist_sample (resolve ctx (p_default m)) cap)); [discriminate|].
    destruct (p_out m) as [|k0 [|]] eqn:Eo; try discriminate.
    destruct (p_rlp m) eqn:Hr.
    + destruct (log_prob_key_of now m) as [lk|] eqn:El; [|discriminate].
      refine (Fin _ _ H). intros kv [<-|[<-|[]]]; cbn; [apply Hout; now left|now apply Hlp].
    + refine (Fin _ _ H). intros kv [<-|[]]; cbn; apply Hout; now left.
  - destruct (p_rlp m) eqn:Hr.
    + rewrite Ho in H. destruct (log_prob_keys_of now m) as [lpks|]; [|discriminate].
      destruct (all_some (map (fun k1 => stored k1 x) (filter (fun k1 => negb (memk k1 lpks)) oks))) as [r|]; [|discriminate].
      destruct (all_some r) as [[|v [|]]|]; try discriminate.
      destruct (log_prob_key_of now m) as [lk|] eqn:El; [|discriminate].
      refine (Fin _ _ H). intros kv [<-|[]]; cbn; now apply Hlp.
    + refine (Fin [] _ H). intros kv [].
Qed.

(* ---- a probabilistic sequence hands _requires_sample = true to its final module iff some sample key of that module is not
   produced by the deterministic part *)
Lemma q_requires_sample_spec : forall q,
  q_requires_sample q = true <-> exists k, List.In k (p_out (q_last q)) /\ ~ List.In k (all_out_keys (q_det q)).
Proof. intro q. unfold q_requires_sample. apply requires_sample_spec. Qed.

Lemma q_forward_is_last : forall f148 f149 now ctx cap q x x',
  det_run q x = Some (Some x') ->
  q_forward f148 f149 now ctx cap q x = pm_forward f148 f149 now ctx cap (q_last q) (lift x') None (q_requires_sample q).
Proof. intros. unfold q_forward. now rewrite H. Qed.

(* ------------------------------------------------------------------ witnesses *)
Definition kA : key := ["a"%string].  Definition kB : key := ["b"%string].  Definition kP : key := ["params"%string].
Definition comp_args (rlp : bool) (lpks : option (list key)) : pargs :=
  {| a_id := 1; a_in := [kP]; a_dict := None; a_out := None; a_comp := Some [kA; kB]; a_rlp := rlp; a_lpk := None;
     a_lpks := lpks; a_default := TMode |}.
Definition comp_cap : dcap :=
  {| is_lkj := false; has_det := true; reg := None; support_real := None; c_mode := CValue; c_median := CAttrErr;
     c_mean := CValue; has_rsample := false |}.
Definition x0 : ptd := lift [(kP, In kP)].
Definition written (r : pres) : list key := match r with PDone x _ => map fst x | _ => [] end.

(* D147 (kept): in the legacy aggregate mode the per-leaf log-probs are written but not advertised *)
Lemma composite_aggregate_refuted : exists m, pm_init true (comp_args true None) = Some m
  /\ pm_out_keys true m = Some [kA; kB; slp]
  /\ written (pm_forward true true true None comp_cap m x0 None true) = [kP; kA; kB; add_suffix kA; add_suffix kB; slp].
Proof. eexists. split; [reflexivity|]. split; reflexivity. Qed.
(* ... in the per-leaf mode exactly the advertised keys are written *)
Lemma composite_per_leaf_example : exists m, pm_init false (comp_args true None) = Some m
  /\ pm_out_keys false m = Some [kA; kB; add_suffix kA; add_suffix kB]
  /\ written (pm_forward true true false None comp_cap m x0 None true) = [kP; kA; kB; add_suffix kA; add_suffix kB].
Proof. eexists. split; [reflexivity|]. split; reflexivity. Qed.
(* D149: custom log_prob_keys; before the repair the default names were written *)
Definition kLa : key := ["lpa"%string].  Definition kLb : key := ["lpb"%string].
Lemma D149_witness : exists m, pm_init false (comp_args true (Some [kLa; kLb])) = Some m
  /\ pm_out_keys false m = Some [kA; kB; kLa; kLb]
  /\ written (pm_forward true true false None comp_cap m x0 None true) = [kP; kA; kB; kLa; kLb]
  /\ written (pm_forward true false false None comp_cap m x0 None true) = [kP; kA; kB; add_suffix kA; add_suffix kB].
Proof. eexists. split; [reflexivity|]. repeat split; reflexivity. Qed.
(* D148: all samples written upstream, return_log_prob; before the repair the call raised *)
Definition x1 : ptd := lift [(kP, In kP); (kA, In kA); (kB, In kB)].
Lemma D148_witness : exists m, pm_init false (comp_args true None) = Some m
  /\ pm_forward false true false None comp_cap m x1 None false = PRaise
  /\ written (pm_forward true true false None comp_cap m x1 None false) = [kP; kA; kB; add_suffix kA; add_suffix kB]
  /\ pget (add_suffix kA) (match pm_forward true true false None comp_cap m x1 None false with PDone x _ => x | _ => [] end)
     = Some (PL {| d_mod := 1; d_kw := ["params"%string]; d_ps := [Some (In kP)] |} (Some 0) [SUp (In kA)]).
Proof. eexists. split; [reflexivity|]. repeat split; reflexivity. Qed.
