(* C20 — lazy stacks: concrete instances (non-vacuity of the hypotheses, the refusals, the witness of C20-h). *)
From Coq Require Import ZArith List String Bool.
Import ListNotations.
From TD Require Import Model.C20_Apply Model.C20_Sched Model.C20_Spec Model.C20_Lazy
     Proofs.C20_WitnessP Proofs.C20_LazyP Proofs.C20_LazyMtP.
Open Scope string_scope.
Open Scope Z_scope.

(* a tensordict {a: tensor z+1, n: {c: tensor z+3}} with objects z, z+2 *)
Definition tdz (z : Z) : tree Z :=
  Node (Old z) m0 (FCons "a" (lf (z + 1)) (FCons "n" (Node (Old (z + 2)) m0 (FCons "c" (lf (z + 3)) FNil)) FNil)).
Definition self_l : lstack Z := mkLazy Z (Old 7) 0 (Some "s") [tdz 10; tdz 110].
Definition dummy : tree Z := Leaf New (VOld 0).
(* an operand stacked lazily along ANOTHER dim (1): its members (900 …) are not the slices along self's stack dim (200, 300) *)
Definition op_x : operand Z :=
  mkOp Z (Some (1%nat, [tdz 900; tdz 910; tdz 920])) [2%nat; 3%nat]
       (fun d i => if Nat.eqb d 0 then nth i [tdz 200; tdz 300] dummy else dummy).
(* an operand stacked along the same dim: its members are the slices *)
Definition op_y : operand Z :=
  mkOp Z (Some (0%nat, [tdz 400; tdz 500])) [2%nat; 3%nat]
       (fun d i => if Nat.eqb d 0 then nth i [tdz 400; tdz 500] dummy else dummy).
Definition out_l : lout Z := OutLazy Z false [tdz 600; tdz 700].
Definition out_tc : lout Z := OutLazy Z true [tdz 600; tdz 700].

Lemma ops_wf : Forall (wf_operand Z 0) [op_x; op_y].
Proof.
  constructor; [|constructor; [|constructor]].
  - unfold wf_operand. cbn. intro E. discriminate.
  - unfold wf_operand. cbn. intros _. reflexivity.
Qed.

(* member 0 of the result pairs self[0] with op_x's SLICE 0 along dim 0 (tensor 201), not with its member 0 (tensor 901) *)
Lemma example_lazy_spec :
  exists r0 r1 f0,
    lz_apply_nest Z base_opts (fn_of []) false self_l [op_x; op_y] None None = Ok (LRStack Z New 0%nat (Some "s") [r0; r1])
    /\ r0 = Node New m0 f0
    /\ fget Z f0 "a" = Some (Leaf New (VNew (1 + 11 + (10 + 201) + (10 + 401)))).
Proof. do 3 eexists. split; [vm_compute; reflexivity|]. split; reflexivity. Qed.

Lemma example_lazy_out_names :
  exists r0 r1 m f0,
    lz_apply_nest Z base_opts (fn_of []) false self_l [op_y] (Some out_l) (Some (Some [Some "p"; Some "q"]))
    = Ok (LRStack Z New 0%nat (Some "p") [r0; r1])
    /\ r0 = Node (Old 600) m f0 /\ m_names m = Some [Some "q"].
Proof. do 4 eexists. split; [vm_compute; reflexivity|]. split; reflexivity. Qed.

Lemma example_lazy_none :
  lz_apply_nest Z (with_fe base_opts None) (fn_of [11; 13; 111; 113]) false self_l [] None None = Ok (LRNone Z).
Proof. vm_compute. reflexivity. Qed.

Lemma example_lazy_refusals :
  l_members Z self_l <> []
  /\ refuse_inplace (with_dev (with_inplace base_opts) (Some CPU)) None = true
  /\ lz_apply_nest Z (with_dev (with_inplace base_opts) (Some CPU)) (fn_of []) false self_l [] None None = Raised EValue
  /\ lz_apply_nest Z base_opts (fn_of []) false self_l [] (Some (OutOther Z)) None = Raised EValue
  /\ lz_apply_nest Z (mkOpts false false (Some false) false false (Some [6%nat]) None false is_leaf_default) (fn_of []) false self_l [] None None
     = Ok (LRView Z (mkMeta [6%nat] None None false))
  /\ (exists oth rs,
        unbind_all Z 0 [] = Ok oth
        /\ lazy_members Z (mo (with_fe base_opts (Some true))) (fn_of [11; 13]) false [] (l_members Z self_l) oth None = Ok rs
        /\ existsb is_none (map snd rs) = true /\ forallb is_none (map snd rs) = false)
  /\ lz_apply_nest Z (with_fe base_opts (Some true)) (fn_of [11; 13]) false self_l [] None None = Raised ERuntime
  /\ lz_apply_nest Z base_opts (fn_of []) false self_l [] (Some (OutLazy Z false [tdz 600])) None = Raised EIndex.
Proof.
  split; [discriminate|]. split; [reflexivity|]. split; [reflexivity|]. split; [reflexivity|]. split; [reflexivity|].
  split; [do 2 eexists; split; [reflexivity|]; split; [vm_compute; reflexivity|]; split; reflexivity|].
  split; vm_compute; reflexivity.
Qed.

(* the thread pool: four tasks (two per member), completed in another order *)
Lemma example_lazy_mt :
  exists oth tasks lfss,
    unbind_all Z 0 [op_x; op_y] = Ok oth
    /\ lz_flat Z base_opts false (l_members Z self_l) oth 0 = Ok (tasks, lfss)
    /\ List.length tasks = 4%nat
    /\ exists r, lz_mt_front Z base_opts (fn_of []) false false self_l [op_x; op_y] (Some out_l) None [3; 1; 0; 2]%nat = MOk r
                 /\ lz_front Z base_opts (fn_of []) false false self_l [op_x; op_y] (Some out_l) None = Ok r.
Proof.
  do 3 eexists. split; [vm_compute; reflexivity|]. split; [vm_compute; reflexivity|]. split; [reflexivity|].
  eexists. split; vm_compute; reflexivity.
Qed.

(* the former witness of C20-h: out= a lazily stacked tensorclass is written by both forms *)
Lemma lazy_mt_tc_out_agree :
  exists r, lz_front Z base_opts (fn_of []) false false self_l [] (Some out_tc) None = Ok r
            /\ lz_mt_front Z base_opts (fn_of []) false false self_l [] (Some out_tc) None [0; 1; 2; 3]%nat = MOk r.
Proof. eexists; split; vm_compute; reflexivity. Qed.

Lemma example_lazy_apply_ :
  exists r0 r1,
    lz_apply_ Z base_opts (fn_of [113]) false None self_l [op_x] = Ok (LRStack Z (Old 7) 0%nat (Some "s") [r0; r1])
    /\ shape_t Z r0 = shape_t Z (tdz 10) /\ r0 <> tdz 10.
Proof. do 2 eexists. split; [vm_compute; reflexivity|]. split; [reflexivity|discriminate]. Qed.

(* ------------------------------------------------------------------ exception classes (Proofs/C20_RaiseP.v) *)
From TD Require Import Proofs.C20_RaiseP.
Definition out_locked : tree Z := Node (Old 30) mL (FCons "a" (lf 31) FNil).
Definition out_cpu : tree Z := Node (Old 30) (mkMeta [3%nat] (Some CPU) None false) (FCons "a" (lf 31) FNil).
Definition with_bs (o : opts) b := mkOpts (o_inplace o) (o_default o) (o_fe o) (o_named o) (o_nested_keys o) (Some b) (o_dev o) (o_checked o) (o_is_leaf o).
Lemma example_refusals :
  refusal Z base_opts (Some out_locked) = Some ERuntime
  /\ front Z base_opts (fn_of []) false false self_a [] (Some out_locked) None = Raised ERuntime
  /\ refusal Z (with_bs base_opts [4%nat]) (Some out_cpu) = Some ERuntime
  /\ refusal Z (with_dev base_opts (Some META)) (Some out_cpu) = Some ERuntime
  /\ refusal Z (with_dev (with_checked base_opts) None) (Some out_cpu) = Some EType
  /\ front Z (with_dev (with_checked base_opts) None) (fn_of []) false false self_a [] (Some out_cpu) None = Raised EType
  /\ refusal Z (with_dev (with_checked base_opts) (Some META)) (Some out_cpu) = None
  /\ refusal Z base_opts (Some (lf 5)) = Some EAttr
  /\ refusal Z (with_inplace base_opts) (Some out_locked) = None.
Proof. repeat split; vm_compute; reflexivity. Qed.
(* a key of self that an operand lacks: KeyError without default=, from below the root; the reference says KeyError too *)
Lemma example_keyerror :
  refusal Z base_opts None = None
  /\ front Z base_opts (fn_of []) false false self_ex [other_ex] None None = Raised EKey
  /\ o_default base_opts = false
  /\ wf_keys Z self_ex_forest = true
  /\ ref_apply Z base_opts (fn_of []) false self_ex [other_ex] None = RKey.
Proof. repeat split; vm_compute; reflexivity. Qed.
