(* C04 — every spelling of a nested key denotes the same entry: the entry points of the model depend on a well-formed
   key only through its in-order strings (str vs 1-tuple vs nested tuples). *)
From Coq Require Import ZArith List String Bool.
Import ListNotations.
From TD Require Import Model.Keys Proofs.KeysP Model.C04_Tree Model.C04_Ops Model.C04_Step Proofs.C04_CoreP.
Open Scope string_scope.
Open Scope list_scope.

Lemma present_eq k es : wfb k = true ->
  (if is_tuple k then view_contains true k es else skeys_contains k es) = view_contains_path true (strings k) es.
Proof.
  intros W. destruct (wf_key_tuple k W) as [U N].
  destruct k as [s|l|]; [reflexivity| |discriminate]. cbn [is_tuple]. unfold view_contains. now rewrite U.
Qed.

Theorem spelling_entry_points k1 k2 : wfb k1 = true -> wfb k2 = true -> strings k1 = strings k2 ->
  forall v hd inc es,
    set_ k1 v es = set_ k2 v es /\ del_ k1 es = del_ k2 es /\ get k1 es = get k2 es
    /\ pop k1 hd es = pop k2 hd es /\ view_contains inc k1 es = view_contains inc k2 es
    /\ setdefault k1 v es = setdefault k2 v es
    /\ step es (OSet k1 v) = step es (OSetItem k2 v) /\ step es (ODel k1) = step es (ODelItem k2)
    /\ td_contains k1 es = td_contains k2 es.
Proof.
  intros W1 W2 E v hd inc es. destruct (unravel_spelling k1 k2 W1 W2 E) as [T K].
  destruct (wf_key_tuple k2 W2) as [U2 N2].
  assert (SD : setdefault k1 v es = setdefault k2 v es).
  { unfold setdefault. rewrite (present_eq k1 es W1), (present_eq k2 es W2), E. unfold set_, get. now rewrite T. }
  unfold set_, del_, get, pop, view_contains. rewrite T. repeat split; try reflexivity; try exact SD.
  - cbn [step]. unfold set_. rewrite T, U2. destruct (strings k2); [congruence|reflexivity].
  - cbn [step]. unfold del_. now rewrite T.
  - (* `in` on the tensordict: str goes to _StringKeys, a tuple is unravelled (after the fix of D43 the str "" too) *)
    assert (TC : forall k, wfb k = true -> td_contains k es = view_contains_path true (strings k) es).
    { intros k W. destruct (wf_key_tuple k W) as [_ N]. destruct k as [s|l|]; [reflexivity| |discriminate].
      unfold td_contains. rewrite (wf_key_keyres _ W). destruct (strings (KT l)) as [|a [|b r]]; [congruence|reflexivity|reflexivity]. }
    now rewrite (TC k1 W1), (TC k2 W2), E.
Qed.

Theorem spelling_rename k1 k2 k1' k2' safe es :
  wfb k1 = true -> wfb k2 = true -> strings k1 = strings k2 ->
  wfb k1' = true -> wfb k2' = true -> strings k1' = strings k2' ->
  rename k1 k1' safe es = rename k2 k2' safe es.
Proof.
  intros W1 W2 E W1' W2' E'. destruct (unravel_spelling k1 k2 W1 W2 E) as [_ K]. destruct (unravel_spelling k1' k2' W1' W2' E') as [_ K'].
  unfold rename. rewrite K, K'. destruct k1, k2, k1', k2'; try discriminate; reflexivity.
Qed.

Lemma unravel_key_list_spelling : forall ks1 ks2,
  Forall2 (fun a b => wfb a = true /\ wfb b = true /\ strings a = strings b) ks1 ks2 ->
  cpp_unravel_key_list ks1 = cpp_unravel_key_list ks2.
Proof.
  intros ks1 ks2 F. unfold cpp_unravel_key_list. f_equal.
  induction F as [|a b l1 l2 [Wa [Wb E]] F IH]; [reflexivity|]. cbn [map].
  destruct (unravel_spelling a b Wa Wb E) as [_ K]. now rewrite K, IH.
Qed.

Theorem spelling_select_exclude ks1 ks2 strict inplace es :
  Forall2 (fun a b => wfb a = true /\ wfb b = true /\ strings a = strings b) ks1 ks2 ->
  select ks1 strict inplace es = select ks2 strict inplace es /\ exclude ks1 inplace es = exclude ks2 inplace es.
Proof. intros F. unfold select, exclude. now rewrite (unravel_key_list_spelling ks1 ks2 F). Qed.
