(* C08: the index translation of the lazy stack (_split_index + __getitem__) selects what torch indexing selects in
   the dense stack. *)
From Coq Require Import ZArith List Bool Lia ZifyBool.
Import ListNotations.
From TD Require Import Spec.PySlice Spec.C08_Dense Model.C08_Lazy Proofs.C08_CoordP Proofs.SliceP.
Open Scope Z_scope.
Ltac Zify.zify_post_hook ::= Z.to_euclidean_division_equations.

(* result dims an item produces *)
Definition rdims (it : item) : nat :=
  match it with
  | IInt _ | IEll => 0%nat
  | ISl _ _ _ | INone | IMask _ _ => 1%nat
  | ITen sh _ => List.length sh
  end.
Definition rdims_l (idx : list item) : nat := fold_right (fun it acc => (rdims it + acc)%nat) 0%nat idx.
Definition noell (idx : list item) : Prop := Forall (fun it => is_ell it = false) idx.

Lemma consumed_cons it idx : consumed (it :: idx) = (consumes it + consumed idx)%nat.
Proof. reflexivity. Qed.
Lemma rdims_l_cons it idx : rdims_l (it :: idx) = (rdims it + rdims_l idx)%nat.
Proof. reflexivity. Qed.

Lemma option_map_app_nil {A} (o : option (list A)) : option_map (app []) o = o.
Proof. destruct o; reflexivity. Qed.

Lemma skipn_firstn_add {A} a b (l : list A) : skipn a (firstn (a + b) l) = firstn b (skipn a l).
Proof.
  revert l. induction a as [|a IH]; intros l; [reflexivity|].
  destruct l as [|x l]; [cbn; rewrite firstn_nil; reflexivity|]. cbn. apply IH.
Qed.
Lemma firstn_firstn_add {A} a b (l : list A) : firstn a (firstn (a + b) l) = firstn a l.
Proof. rewrite firstn_firstn. f_equal. lia. Qed.
Lemma skipn_add {A} a b (l : list A) : skipn (a + b) l = skipn b (skipn a l).
Proof.
  revert l. induction a as [|a IH]; intros l; [reflexivity|].
  destruct l as [|x l]; [cbn; rewrite skipn_nil; reflexivity|]. cbn. apply IH.
Qed.

(* an index prefix that addresses exactly the dims S1 acts on S1 alone, the rest of the index on the rest *)
Lemma src_of_app pre : noell pre -> forall S1 S2 rest r,
  consumed pre = List.length S1 ->
  src_of (pre ++ rest) (S1 ++ S2) r =
  match src_of pre S1 (firstn (rdims_l pre) r) with
  | Some a => option_map (app a) (src_of rest S2 (skipn (rdims_l pre) r))
  | None => None
  end.
Proof.
  induction pre as [|it pre IH]; intros HN S1 S2 rest r HC.
  - destruct S1; [|discriminate]. cbn. rewrite option_map_app_nil. reflexivity.
  - inversion HN as [|? ? Hit HN']; subst. rewrite consumed_cons in HC. rewrite rdims_l_cons.
    destruct it as [i|a b c| | |tsh vals|msh bits]; cbn [is_ell] in Hit; try discriminate.
    + (* IInt *)
      destruct S1 as [|s S1]; [cbn in HC; lia|]. cbn [consumes] in HC. cbn [rdims Nat.add app src_of].
      destruct (norm_i i s) as [i'|]; [|reflexivity].
      rewrite (IH HN' S1 S2 rest r) by (cbn in HC; lia).
      destruct (src_of pre S1 (firstn (rdims_l pre) r)) as [a0|]; [|reflexivity]. cbn [option_map].
      destruct (src_of rest S2 (skipn (rdims_l pre) r)); reflexivity.
    + (* ISl *)
      destruct S1 as [|s S1]; [cbn in HC; lia|]. cbn [consumes] in HC. cbn [rdims app src_of].
      destruct r as [|x r]; [cbn; destruct (step_of c <=? 0); reflexivity|].
      cbn [Nat.add firstn skipn]. destruct (step_of c <=? 0); [reflexivity|].
      destruct (in_dim x (range_len (py_indices a b (step_of c) s))); [|reflexivity].
      rewrite (IH HN' S1 S2 rest r) by (cbn in HC; lia).
      destruct (src_of pre S1 (firstn (rdims_l pre) r)) as [a0|]; [|reflexivity]. cbn [option_map].
      destruct (src_of rest S2 (skipn (rdims_l pre) r)); reflexivity.
    + (* INone *)
      cbn [consumes] in HC. cbn [rdims app src_of].
      destruct r as [|x r]; [reflexivity|]. cbn [Nat.add firstn skipn].
      destruct (x =? 0); [|reflexivity]. apply (IH HN' S1 S2 rest r). lia.
    + (* ITen *)
      destruct S1 as [|s S1]; [cbn in HC; lia|]. cbn [consumes] in HC. cbn [rdims app src_of].
      rewrite firstn_firstn_add, skipn_firstn_add, skipn_add.
      destruct ((lenZ vals =? prodZ tsh) && vals_ok vals s && forallb (fun x : Z => 0 <=? x) tsh &&
                in_range tsh (firstn (List.length tsh) r)); [|reflexivity].
      destruct (nthZ vals (ravel tsh (firstn (List.length tsh) r))) as [v|]; [|reflexivity].
      destruct (norm_i v s) as [v'|]; [|reflexivity].
      rewrite (IH HN' S1 S2 rest (skipn (List.length tsh) r)) by (cbn in HC; lia).
      destruct (src_of pre S1 (firstn (rdims_l pre) (skipn (List.length tsh) r))) as [a0|]; [|reflexivity].
      cbn [option_map]. destruct (src_of rest S2 _); reflexivity.
    + (* IMask *)
      cbn [consumes] in HC. cbn [rdims app src_of].
      assert (HL : (List.length msh <= List.length S1)%nat) by lia.
      rewrite firstn_app. replace (List.length msh - List.length S1)%nat with 0%nat by lia.
      cbn [firstn]. rewrite app_nil_r.
      rewrite skipn_app. replace (List.length msh - List.length S1)%nat with 0%nat by lia. cbn [skipn].
      destruct (list_eqb (firstn (List.length msh) S1) msh && (lenZ bits =? prodZ msh)); [|reflexivity].
      destruct r as [|x r]; [reflexivity|]. cbn [Nat.add firstn skipn].
      destruct (nthZ (true_pos bits) x) as [p|]; [|reflexivity].
      rewrite (IH HN' (skipn (List.length msh) S1) S2 rest r) by (rewrite skipn_length; lia).
      destruct (src_of pre (skipn (List.length msh) S1) (firstn (rdims_l pre) r)) as [a0|]; [|reflexivity].
      cbn [option_map]. destruct (src_of rest S2 _); [|reflexivity]. cbn [option_map]. rewrite app_assoc. reflexivity.
Qed.

Lemma res_shape_app pre : noell pre -> forall S1 S2 rest,
  consumed pre = List.length S1 ->
  res_shape (pre ++ rest) (S1 ++ S2) =
  match res_shape pre S1 with
  | Some a => option_map (app a) (res_shape rest S2)
  | None => None
  end.
Proof.
  induction pre as [|it pre IH]; intros HN S1 S2 rest HC.
  - destruct S1; [|discriminate]. cbn. rewrite option_map_app_nil. reflexivity.
  - inversion HN as [|? ? Hit HN']; subst. rewrite consumed_cons in HC.
    destruct it as [i|a b c| | |tsh vals|msh bits]; cbn [is_ell] in Hit; try discriminate.
    + destruct S1 as [|s S1]; [cbn in HC; lia|]. cbn [consumes] in HC. cbn [app res_shape].
      destruct (norm_i i s); [|reflexivity]. apply IH; [assumption|cbn in HC; lia].
    + destruct S1 as [|s S1]; [cbn in HC; lia|]. cbn [consumes] in HC. cbn [app res_shape].
      destruct (step_of c <=? 0); [reflexivity|].
      rewrite (IH HN' S1 S2 rest) by (cbn in HC; lia).
      destruct (res_shape pre S1); [|reflexivity]. cbn [option_map]. destruct (res_shape rest S2); reflexivity.
    + cbn [consumes] in HC. cbn [app res_shape]. rewrite (IH HN' S1 S2 rest) by lia.
      destruct (res_shape pre S1); [|reflexivity]. cbn [option_map]. destruct (res_shape rest S2); reflexivity.
    + destruct S1 as [|s S1]; [cbn in HC; lia|]. cbn [consumes] in HC. cbn [app res_shape].
      destruct ((lenZ vals =? prodZ tsh) && vals_ok vals s && forallb (fun x : Z => 0 <=? x) tsh); [|reflexivity].
      rewrite (IH HN' S1 S2 rest) by (cbn in HC; lia).
      destruct (res_shape pre S1); [|reflexivity]. cbn [option_map]. destruct (res_shape rest S2); [|reflexivity].
      cbn [option_map]. rewrite app_assoc. reflexivity.
    + cbn [consumes] in HC. cbn [app res_shape].
      assert (HL : (List.length msh <= List.length S1)%nat) by lia.
      rewrite firstn_app. replace (List.length msh - List.length S1)%nat with 0%nat by lia.
      cbn [firstn]. rewrite app_nil_r.
      rewrite skipn_app. replace (List.length msh - List.length S1)%nat with 0%nat by lia. cbn [skipn].
      destruct (list_eqb (firstn (List.length msh) S1) msh && (lenZ bits =? prodZ msh)); [|reflexivity].
      rewrite (IH HN' (skipn (List.length msh) S1) S2 rest) by (rewrite skipn_length; lia).
      destruct (res_shape pre (skipn (List.length msh) S1)); [|reflexivity]. cbn [option_map].
      destruct (res_shape rest S2); reflexivity.
Qed.

Corollary res_shape_tail idx : noell idx -> forall Sa X, consumed idx = List.length Sa ->
  res_shape idx (Sa ++ X) = match res_shape idx Sa with Some a => Some (a ++ X) | None => None end.
Proof.
  intros HN Sa X HC. pose proof (res_shape_app idx HN Sa X [] HC) as H. rewrite app_nil_r in H. rewrite H.
  destruct (res_shape idx Sa); reflexivity.
Qed.
Corollary src_of_tail idx : noell idx -> forall Sa X r, consumed idx = List.length Sa ->
  src_of idx (Sa ++ X) r =
  match src_of idx Sa (firstn (rdims_l idx) r) with
  | Some a1 => if in_range X (skipn (rdims_l idx) r) then Some (a1 ++ skipn (rdims_l idx) r) else None
  | None => None
  end.
Proof.
  intros HN Sa X r HC. pose proof (src_of_app idx HN Sa X [] r HC) as H. rewrite app_nil_r in H. rewrite H.
  destruct (src_of idx Sa _); [|reflexivity]. cbn [src_of]. destruct (in_range X _); reflexivity.
Qed.

(* the result of a prefix that addresses exactly S1 has rdims_l dims, and its source index has |S1| coordinates *)
Lemma res_shape_exact pre : noell pre -> forall S1 a, consumed pre = List.length S1 ->
  res_shape pre S1 = Some a -> List.length a = rdims_l pre.
Proof.
  induction pre as [|it pre IH]; intros HN S1 a HC H.
  - destruct S1; [|discriminate]. cbn in H. inversion H. reflexivity.
  - inversion HN as [|? ? Hit HN']; subst. rewrite consumed_cons in HC. rewrite rdims_l_cons.
    destruct it as [i|a0 b c| | |tsh vals|msh bits]; cbn [is_ell] in Hit; try discriminate; cbn [res_shape] in H.
    + destruct S1 as [|s S1]; [discriminate|]. destruct (norm_i i s); [|discriminate].
      cbn [rdims Nat.add]. apply (IH HN' S1); [cbn in HC; lia|exact H].
    + destruct S1 as [|s S1]; [discriminate|]. destruct (step_of c <=? 0); [discriminate|].
      destruct (res_shape pre S1) as [t|] eqn:E; [|discriminate]. cbn in H. inversion H; subst.
      cbn [rdims List.length Nat.add]. f_equal. apply (IH HN' S1); [cbn in HC; lia|exact E].
    + destruct (res_shape pre S1) as [t|] eqn:E; [|discriminate]. cbn in H. inversion H; subst.
      cbn [rdims List.length Nat.add]. f_equal. apply (IH HN' S1); [cbn in HC; lia|exact E].
    + destruct S1 as [|s S1]; [discriminate|].
      destruct ((lenZ vals =? prodZ tsh) && vals_ok vals s && forallb (fun x : Z => 0 <=? x) tsh); [|discriminate].
      destruct (res_shape pre S1) as [t|] eqn:E; [|discriminate]. cbn in H. inversion H; subst.
      rewrite app_length. cbn [rdims]. f_equal. apply (IH HN' S1); [cbn in HC; lia|exact E].
    + destruct (list_eqb (firstn (List.length msh) S1) msh && (lenZ bits =? prodZ msh)); [|discriminate].
      destruct (res_shape pre (skipn (List.length msh) S1)) as [t|] eqn:E; [|discriminate]. cbn in H. inversion H; subst.
      cbn [rdims List.length Nat.add]. f_equal.
      apply (IH HN' (skipn (List.length msh) S1)); [cbn in HC; rewrite skipn_length; lia|exact E].
Qed.

(* ------------------------------------------------------------------------------------------------------------
   the loop of _split_index *)
Definition basic_item (it : item) : Prop := match it with IInt _ | ISl _ _ _ | INone => True | _ => False end.
Definition basic (idx : list item) : Prop := Forall basic_item idx.
Lemma basic_noell idx : basic idx -> noell idx.
Proof. intros H. eapply Forall_impl; [|exact H]. intros [] Hb; cbn in *; tauto || reflexivity. Qed.

Definition count_int (idx : list item) : Z := fold_right (fun it acc => match it with IInt _ => 1 + acc | _ => acc end) 0 idx.
Definition count_none (idx : list item) : Z := fold_right (fun it acc => match it with INone => 1 + acc | _ => acc end) 0 idx.

Definition st_upd (s : sstate) (out : list osub) (dsingle dnone : Z) (dcur : nat) : sstate :=
  {| st_out := st_out s ++ out; st_sel := st_sel s; st_num_single := st_num_single s + dsingle;
     st_num_none := st_num_none s + dnone; st_num_squash := st_num_squash s; st_isint := st_isint s;
     st_has_bool := st_has_bool s; st_nd := st_nd s; st_enc := st_enc s; st_cursor := (st_cursor s + dcur)%nat;
     st_split_dim := st_split_dim s; st_mask_loc := st_mask_loc s; st_masks := st_masks s |}.

Lemma st_upd_id s : st_upd s [] 0 0 0 = s.
Proof. destruct s; unfold st_upd; cbn. rewrite app_nil_r, !Z.add_0_r, Nat.add_0_r. reflexivity. Qed.
Lemma st_upd_upd s o1 a1 b1 c1 o2 a2 b2 c2 :
  st_upd (st_upd s o1 a1 b1 c1) o2 a2 b2 c2 = st_upd s (o1 ++ o2) (a1 + a2) (b1 + b2) (c1 + c2).
Proof. destruct s; unfold st_upd; cbn. rewrite app_assoc, !Z.add_assoc, Nat.add_assoc. reflexivity. Qed.

Section Loop.
  Variables (sd n : nat) (shape : list Z).

  Lemma step_none_before s i : (st_cursor s <= sd)%nat ->
    split_step sd n shape i INone s = Ok (st_upd s [OI INone] 0 1 0).
  Proof.
    intros H. unfold split_step. cbn [as_number].
    assert (E : (st_cursor s <=? sd)%nat = true) by (apply Nat.leb_le; exact H). rewrite E.
    destruct s; unfold st_upd; cbn. rewrite Z.add_0_r, Nat.add_0_r. reflexivity.
  Qed.
  Lemma step_none_after s i : (sd < st_cursor s)%nat ->
    split_step sd n shape i INone s = Ok (st_upd s [OI INone] 0 0 0).
  Proof.
    intros H. unfold split_step. cbn [as_number].
    assert (E : (st_cursor s <=? sd)%nat = false) by (apply Nat.leb_gt; exact H). rewrite E.
    destruct s; unfold st_upd; cbn. rewrite !Z.add_0_r, Nat.add_0_r. reflexivity.
  Qed.
  Lemma step_int_before s i j : (st_cursor s < sd)%nat ->
    split_step sd n shape i (IInt j) s = Ok (st_upd s [OI (IInt j)] 1 0 1).
  Proof.
    intros H. unfold split_step. cbn [as_number].
    assert (E : Nat.eqb (st_cursor s) sd = false) by (apply Nat.eqb_neq; lia). rewrite E.
    assert (E2 : (st_cursor s <? sd)%nat = true) by (apply Nat.ltb_lt; exact H). rewrite E2.
    destruct s; unfold st_upd; cbn. rewrite Z.add_0_r, Nat.add_1_r. reflexivity.
  Qed.
  Lemma step_int_after s i j : (sd < st_cursor s)%nat ->
    split_step sd n shape i (IInt j) s = Ok (st_upd s [OI (IInt j)] 0 0 1).
  Proof.
    intros H. unfold split_step. cbn [as_number].
    assert (E : Nat.eqb (st_cursor s) sd = false) by (apply Nat.eqb_neq; lia). rewrite E.
    assert (E2 : (st_cursor s <? sd)%nat = false) by (apply Nat.ltb_ge; lia). rewrite E2.
    destruct s; unfold st_upd; cbn. rewrite !Z.add_0_r, Nat.add_1_r. reflexivity.
  Qed.
  Lemma step_sl_off s i a b c : st_cursor s <> sd ->
    split_step sd n shape i (ISl a b c) s = Ok (st_upd s [OI (ISl a b c)] 0 0 1).
  Proof.
    intros H. unfold split_step. cbn [as_number].
    assert (E : Nat.eqb (st_cursor s) sd = false) by (apply Nat.eqb_neq; exact H). rewrite E.
    destruct s; unfold st_upd; cbn. rewrite !Z.add_0_r, Nat.add_1_r. reflexivity.
  Qed.

  (* basic items before the stack dim: appended to the sub-index, ints and Nones counted *)
  Lemma loop_pre pre : basic pre -> forall s i rest, (st_cursor s + consumed pre <= sd)%nat ->
    split_loop sd n shape i (pre ++ rest) s =
    split_loop sd n shape (i + List.length pre) rest (st_upd s (map OI pre) (count_int pre) (count_none pre) (consumed pre)).
  Proof.
    induction pre as [|it pre IH]; intros HB s i rest HC.
    - cbn. rewrite st_upd_id, Nat.add_0_r. reflexivity.
    - inversion HB as [|? ? Hit HB']; subst. rewrite consumed_cons in HC.
      cbn [app split_loop List.length]. replace (i + S (List.length pre))%nat with (S i + List.length pre)%nat by lia.
      destruct it as [j|a b c| | |? ?|? ?]; cbn in Hit; try contradiction; cbn [consumes] in HC.
      + rewrite step_int_before by lia. cbn [rbind]. rewrite IH by (assumption || (cbn; lia)).
        rewrite st_upd_upd. reflexivity.
      + rewrite step_sl_off by lia. cbn [rbind]. rewrite IH by (assumption || (cbn; lia)).
        rewrite st_upd_upd. reflexivity.
      + rewrite step_none_before by lia. cbn [rbind]. rewrite IH by (assumption || (cbn; lia)).
        rewrite st_upd_upd. reflexivity.
  Qed.

  (* items after the stack dim (any kind but Ellipsis): appended unchanged, nothing counted *)
  Definition upd_post (s : sstate) (post : list item) : sstate := st_upd s (map OI post) 0 0 (consumed post).

  Definition post_item (it : item) : Prop := match it with IEll | IMask [] _ => False | _ => True end.

  Lemma step_post it s i : post_item it -> (sd < st_cursor s)%nat ->
    split_step sd n shape i it s = Ok (st_upd s [OI it] 0 0 (consumes it)).
  Proof.
    intros HE H.
    assert (E : Nat.eqb (st_cursor s) sd = false) by (apply Nat.eqb_neq; lia).
    assert (E2 : (st_cursor s <? sd)%nat = false) by (apply Nat.ltb_ge; lia).
    destruct it as [j|a b c| | |tsh vals|msh bits]; cbn in HE; try contradiction.
    - apply step_int_after. exact H.
    - apply step_sl_off. lia.
    - apply step_none_after. exact H.
    - unfold split_step. cbn [as_number]. rewrite E, E2.
      destruct s; unfold st_upd; cbn. rewrite !Z.add_0_r, Nat.add_1_r. reflexivity.
    - destruct msh as [|m0 msh]; [contradiction|].
      unfold split_step. cbn [as_number]. rewrite E. rewrite E2. cbn [andb].
      destruct s; unfold st_upd; cbn. rewrite !Z.add_0_r. reflexivity.
  Qed.

  Lemma loop_post post : Forall post_item post -> forall s i, (sd < st_cursor s)%nat ->
    split_loop sd n shape i post s = Ok (st_upd s (map OI post) 0 0 (consumed post)).
  Proof.
    induction post as [|it post IH]; intros HP s i HC.
    - cbn. rewrite st_upd_id. reflexivity.
    - inversion HP as [|? ? Hit HP']; subst. cbn [split_loop]. rewrite step_post by assumption. cbn [rbind].
      rewrite IH by (assumption || (cbn; lia)). rewrite st_upd_upd. reflexivity.
  Qed.
End Loop.

(* ------------------------------------------------------------------------------------------------------------
   what _split_index returns for an index whose item on the stack dim is an int or a slice *)
Lemma convert_ellipsis_noell idx rank : noell idx -> convert_ellipsis idx rank = Ok idx.
Proof.
  intros H. unfold convert_ellipsis.
  assert (E : filter is_ell idx = []).
  { induction H as [|it idx Hit _ IH]; [reflexivity|]. cbn. rewrite Hit. exact IH. }
  rewrite E. reflexivity.
Qed.

Lemma rmap_osub_item l : rmap osub_item (map OI l) = Ok l.
Proof. induction l as [|x l IH]; [reflexivity|]. cbn. rewrite IH. reflexivity. Qed.

Definition s0 (n : nat) : sstate :=
  {| st_out := []; st_sel := SAll n; st_num_single := 0; st_num_none := 0; st_num_squash := 0;
     st_isint := false; st_has_bool := false; st_nd := false; st_enc := false; st_cursor := 0%nat;
     st_split_dim := 0; st_mask_loc := 0%nat; st_masks := [] |}.

Definition one_adv (idx : list item) : Prop := (1 <? List.length (filter is_adv idx))%nat = false.

Definition mk_split (k : split_kind) (ns nn : Z) (isint : bool) : split :=
  {| sp_kind := k; sp_num_single := ns; sp_num_none := nn; sp_num_squash := 0; sp_isint := isint; sp_has_bool := false;
     sp_nd := false; sp_split_dim := 0; sp_mask_loc := 0%nat; sp_masks := [] |}.

Definition mk_split2 (k : split_kind) (ns nn nsq : Z) (isint : bool) : split :=
  {| sp_kind := k; sp_num_single := ns; sp_num_none := nn; sp_num_squash := nsq; sp_isint := isint; sp_has_bool := false;
     sp_nd := false; sp_split_dim := 0; sp_mask_loc := 0%nat; sp_masks := [] |}.
Lemma mk_split_eq k ns nn isint : mk_split k ns nn isint = mk_split2 k ns nn 0 isint.
Proof. reflexivity. Qed.

Lemma post_noell post : Forall (post_item) post -> noell post.
Proof. intros H. eapply Forall_impl; [|exact H]. intros [] Hb; cbn in *; tauto || reflexivity. Qed.

Lemma noell_app a b : noell a -> noell b -> noell (a ++ b).
Proof. intros. apply Forall_app. split; assumption. Qed.

Theorem split_index_slice sd n shape pre a b c post :
  basic pre -> consumed pre = sd -> Forall post_item post -> one_adv (pre ++ ISl a b c :: post) ->
  (step_of c =? 0) = false ->
  split_index sd n shape (pre ++ ISl a b c :: post) =
  Ok (mk_split (KDict (map (fun j => (j, pre ++ post)) (range_elems (py_indices a b (step_of c) (Z.of_nat n)))))
               (count_int pre) (count_none pre) false).
Proof.
  intros HB HC HP HA HS. unfold split_index.
  rewrite convert_ellipsis_noell by (apply noell_app; [apply basic_noell; exact HB|constructor; [reflexivity|apply post_noell; exact HP]]).
  cbn [rbind]. unfold one_adv in HA. rewrite HA.
  change {| st_out := []; st_sel := SAll n; st_num_single := 0; st_num_none := 0; st_num_squash := 0;
            st_isint := false; st_has_bool := false; st_nd := false; st_enc := false; st_cursor := 0%nat;
            st_split_dim := 0; st_mask_loc := 0%nat; st_masks := [] |} with (s0 n).
  rewrite loop_pre by (assumption || (cbn; lia)).
  cbn [split_loop]. unfold split_step at 1. cbn [as_number st_cursor st_upd s0].
  replace (0 + consumed pre)%nat with sd by lia. rewrite Nat.eqb_refl. rewrite HS. cbn [rbind].
  rewrite loop_post by (assumption || (cbn; lia)). cbn [rbind].
  unfold st_upd, s0. cbn -[range_elems py_indices Z.add].
  rewrite <- map_app, rmap_osub_item. cbn [rbind]. unfold mk_split.
  rewrite !Z.add_0_r, !Z.add_0_l. reflexivity.
Qed.

Theorem split_index_int sd n shape pre j j' post :
  basic pre -> consumed pre = sd -> Forall post_item post -> one_adv (pre ++ IInt j :: post) ->
  norm_i j (Z.of_nat n) = Some j' ->
  split_index sd n shape (pre ++ IInt j :: post) =
  Ok (mk_split (KDict [(j', pre ++ post)]) (count_int pre) (count_none pre) true).
Proof.
  intros HB HC HP HA HS. unfold split_index.
  rewrite convert_ellipsis_noell by (apply noell_app; [apply basic_noell; exact HB|constructor; [reflexivity|apply post_noell; exact HP]]).
  cbn [rbind]. unfold one_adv in HA. rewrite HA.
  change {| st_out := []; st_sel := SAll n; st_num_single := 0; st_num_none := 0; st_num_squash := 0;
            st_isint := false; st_has_bool := false; st_nd := false; st_enc := false; st_cursor := 0%nat;
            st_split_dim := 0; st_mask_loc := 0%nat; st_masks := [] |} with (s0 n).
  rewrite loop_pre by (assumption || (cbn; lia)).
  cbn [split_loop]. unfold split_step at 1. cbn [as_number st_cursor st_upd s0].
  replace (0 + consumed pre)%nat with sd by lia. rewrite Nat.eqb_refl. rewrite HS. cbn [rbind].
  rewrite loop_post by (assumption || (cbn; lia)). cbn [rbind].
  unfold st_upd, s0. cbn -[range_elems py_indices Z.add].
  rewrite <- map_app, rmap_osub_item. cbn [rbind]. unfold mk_split.
  rewrite !Z.add_0_r, !Z.add_0_l. reflexivity.
Qed.

(* the index stops before the stack dim: every member gets the whole index *)
Theorem split_index_short sd n shape idx :
  basic idx -> (consumed idx <= sd)%nat ->
  split_index sd n shape idx =
  Ok (mk_split (KDict (map (fun j => (j, idx)) (map Z.of_nat (seq 0 n)))) (count_int idx) (count_none idx) false).
Proof.
  intros HB HC. unfold split_index.
  rewrite convert_ellipsis_noell by (apply basic_noell; exact HB). cbn [rbind].
  assert (HA : (1 <? List.length (filter is_adv idx))%nat = false).
  { assert (E : filter is_adv idx = []).
    { clear HC. induction HB as [|it idx Hit _ IH]; [reflexivity|]. cbn. destruct it; cbn in Hit; try contradiction; cbn; exact IH. }
    rewrite E. reflexivity. }
  rewrite HA.
  change {| st_out := []; st_sel := SAll n; st_num_single := 0; st_num_none := 0; st_num_squash := 0;
            st_isint := false; st_has_bool := false; st_nd := false; st_enc := false; st_cursor := 0%nat;
            st_split_dim := 0; st_mask_loc := 0%nat; st_masks := [] |} with (s0 n).
  rewrite <- (app_nil_r idx) at 1. rewrite loop_pre by (assumption || (cbn; lia)).
  cbn [split_loop rbind]. unfold st_upd, s0. cbn -[Z.add]. rewrite rmap_osub_item. cbn [rbind].
  unfold mk_split. rewrite !Z.add_0_l. reflexivity.
Qed.

(* ------------------------------------------------------------------------------------------------------------
   semantics: two array expressions denote the same array *)
Definition equiv (a b : arr) : Prop := shape_of a = shape_of b /\ forall r, at_ a r = at_ b r.
Definition sound (m : arr) (bs : list Z) : Prop := forall r e, at_ m r = Some e -> in_range bs r = true.

Lemma equiv_refl a : equiv a a. Proof. split; reflexivity. Qed.
Lemma equiv_trans a b c : equiv a b -> equiv b c -> equiv a c.
Proof. intros [H1 H2] [H3 H4]. split; [congruence|]. intros r. rewrite H2. apply H4. Qed.

Lemma index_nil_equiv m bs : shape_of m = Some bs -> sound m bs -> equiv m (Index [] m).
Proof.
  intros Hs Hm. split.
  - cbn [shape_of]. rewrite Hs. reflexivity.
  - intros r. cbn [at_]. rewrite Hs. cbn [opt_bind src_of].
    destruct (in_range bs r) eqn:E; [reflexivity|].
    destruct (at_ m r) as [e|] eqn:Ea; [|reflexivity]. rewrite (Hm r e Ea) in E. discriminate.
Qed.

Lemma at_index idx m bs r : shape_of m = Some bs -> at_ (Index idx m) r = opt_bind (src_of idx bs r) (at_ m).
Proof. intros H. cbn [at_]. rewrite H. reflexivity. Qed.
Lemma shape_index idx m bs : shape_of m = Some bs -> shape_of (Index idx m) = res_shape idx bs.
Proof. intros H. cbn [shape_of]. rewrite H. reflexivity. Qed.

(* an index made of full slices only, legal on a shape of non-negative sizes, is the identity *)
Lemma full_slices_id idx : forallb is_full_slice idx = true -> forall bs rs,
  Forall (fun s => 0 <= s) bs -> res_shape idx bs = Some rs ->
  rs = bs /\ forall r, src_of idx bs r = if in_range bs r then Some r else None.
Proof.
  induction idx as [|it idx IH]; intros HF bs rs Hnn H.
  - cbn in H. inversion H. split; [reflexivity|]. intros r. reflexivity.
  - cbn [forallb] in HF. apply andb_prop in HF. destruct HF as [Hit HF].
    destruct it as [| [?|] [?|] [?|] | | | |]; cbn in Hit; try discriminate.
    cbn [res_shape] in H. destruct bs as [|s bs]; [discriminate|]. cbn [step_of] in H.
    change (1 <=? 0) with false in H. cbv iota in H.
    inversion Hnn as [|? ? Hs Hnn']; subst.
    assert (Hrl : range_len (py_indices None None 1 s) = s).
    { unfold py_indices, adjust, range_len. cbn. destruct (0 <? s) eqn:E; [|lia]. rewrite Z.div_1_r. lia. }
    assert (Hrn : forall x, range_nth (py_indices None None 1 s) x = x).
    { intros x. unfold py_indices, adjust, range_nth. cbn. lia. }
    rewrite Hrl in H.
    destruct (res_shape idx bs) as [t|] eqn:Et; [|discriminate]. cbn [option_map] in H.
    assert (Ers : rs = s :: t) by congruence. subst rs. clear H.
    destruct (IH HF bs t Hnn' Et) as [Ht Hsrc]. subst t.
    split; [reflexivity|].
    intros r. cbn [src_of step_of]. destruct r as [|x r]; [reflexivity|].
    change (1 <=? 0) with false. cbv iota. rewrite Hrl, Hrn. cbn [in_range].
    destruct (in_dim x s) eqn:Ex; [|reflexivity]. cbn [andb]. rewrite Hsrc.
    destruct (in_range bs r); reflexivity.
Qed.

Lemma full_slices_equiv idx m bs rs :
  forallb is_full_slice idx = true -> Forall (fun s => 0 <= s) bs -> res_shape idx bs = Some rs ->
  shape_of m = Some bs -> sound m bs -> equiv m (Index idx m).
Proof.
  intros HF Hnn Hrs Hs Hm. destruct (full_slices_id idx HF bs rs Hnn Hrs) as [E Hsrc]. subst rs. split.
  - rewrite (shape_index _ _ _ Hs), Hrs. exact Hs.
  - intros r. rewrite (at_index _ _ _ r Hs), Hsrc. destruct (in_range bs r) eqn:E; [reflexivity|].
    cbn [opt_bind]. destruct (at_ m r) as [e|] eqn:Ea; [|reflexivity]. rewrite (Hm r e Ea) in E. discriminate.
Qed.

Section Members.
  Variable G : arr -> list item -> res arr.

  Lemma m_getitem_equiv m sub x bs rs :
    shape_of m = Some bs -> sound m bs -> Forall (fun s => 0 <= s) bs -> res_shape sub bs = Some rs ->
    (is_stack m = true -> G m sub = Ok x -> equiv x (Index sub m)) ->
    m_getitem G m sub = Ok x -> equiv x (Index sub m).
  Proof.
    intros Hs Hm Hnn Hrs HG. unfold m_getitem. destruct (is_stack m) eqn:E; [intros H; apply HG; auto|].
    destruct (forallb is_full_slice sub) eqn:EF.
    - intros H. inversion H; subst. eapply full_slices_equiv; eauto.
    - rewrite Hs. destruct bs as [|? ?].
      + destruct (rank0_index_ok sub); intros H; inversion H. apply equiv_refl.
      + intros H; inversion H. apply equiv_refl.
  Qed.

  Lemma m_get_or_self_equiv m sub x bs rs :
    shape_of m = Some bs -> sound m bs -> Forall (fun s => 0 <= s) bs -> res_shape sub bs = Some rs ->
    (is_stack m = true -> G m sub = Ok x -> equiv x (Index sub m)) ->
    m_get_or_self G m sub = Ok x -> equiv x (Index sub m).
  Proof.
    intros Hs Hm Hnn Hrs HG. unfold m_get_or_self. destruct sub as [|it sub]; cbn [is_empty_idx].
    - intros H. inversion H; subst. apply (index_nil_equiv x bs); assumption.
    - apply (m_getitem_equiv m (it :: sub) x bs rs); assumption.
  Qed.
End Members.

Lemma rmap_Forall2 {A B} (f : A -> res B) l : forall ys, rmap f l = Ok ys -> Forall2 (fun a y => f a = Ok y) l ys.
Proof.
  induction l as [|a l IH]; intros ys H; cbn in H.
  - inversion H. constructor.
  - destruct (f a) as [y| | |] eqn:Ea; cbn in H; try discriminate.
    destruct (rmap f l) as [ys'| | |] eqn:El; cbn in H; try discriminate.
    inversion H; subst. constructor; [exact Ea|apply IH; reflexivity].
Qed.

Lemma Forall2_nthZ {A B} (P : A -> B -> Prop) l m : Forall2 P l m -> forall k,
  match nthZ l k, nthZ m k with
  | Some a, Some b => P a b
  | None, None => True
  | _, _ => False
  end.
Proof.
  intros H k. unfold nthZ. destruct (k <? 0); [exact I|]. generalize (Z.to_nat k). clear k.
  induction H as [|a b l m Hab _ IH]; intros [|k]; cbn; auto. apply IH.
Qed.

Lemma Forall2_length {A B} (P : A -> B -> Prop) l m : Forall2 P l m -> List.length l = List.length m.
Proof. induction 1; cbn; congruence. Qed.

(* a stack of members all indexed by the same sub-index *)
Lemma stack_of_indexed nsd bs0 sub bs rs ms xs :
  Forall2 (fun m x => equiv x (Index sub m)) ms xs ->
  Forall (fun m => shape_of m = Some bs) ms -> res_shape sub bs = Some rs -> (nsd <= List.length rs)%nat -> xs <> [] ->
  shape_of (Stack nsd bs0 xs) = Some (insert_at nsd (lenZ xs) rs) /\
  forall r, at_ (Stack nsd bs0 xs) r =
            match nth_error r nsd with
            | Some k => match nthZ ms k with
                        | Some m => opt_bind (src_of sub bs (remove_at nsd r)) (at_ m)
                        | None => None
                        end
            | None => None
            end.
Proof.
  intros HF Hms Hrs Hn Hne. split.
  - apply shape_of_stack; [exact Hne| |exact Hn].
    apply Forall_forall. intros x Hx.
    destruct (In_nth_error _ _ Hx) as [k Hk].
    pose proof (Forall2_nthZ _ _ _ HF (Z.of_nat k)) as HP. unfold nthZ in HP.
    assert (E : (Z.of_nat k <? 0) = false) by lia. rewrite E, Nat2Z.id, Hk in HP.
    destruct (nth_error ms k) as [m|] eqn:Em; [|contradiction].
    destruct HP as [Hsh _]. rewrite Hsh.
    rewrite (shape_index sub m bs); [exact Hrs|].
    apply (proj1 (Forall_forall _ _) Hms). eapply nth_error_In; exact Em.
  - intros r. rewrite at_stack. destruct (nth_error r nsd) as [k|]; [|reflexivity].
    pose proof (Forall2_nthZ _ _ _ HF k) as HP.
    destruct (nthZ ms k) as [m|] eqn:Em; destruct (nthZ xs k) as [x|] eqn:Ex; try contradiction; [|reflexivity].
    destruct HP as [_ Hat]. rewrite Hat. apply at_index.
    apply (proj1 (Forall_forall _ _) Hms). eapply nthZ_In; exact Em.
Qed.

(* arithmetic of the new stack dim: stack_dim - num_single + num_none = number of result dims before it *)
Lemma nsd_basic pre : basic pre ->
  Z.of_nat (consumed pre) - count_int pre + count_none pre = Z.of_nat (rdims_l pre).
Proof.
  induction 1 as [|it pre Hit _ IH]; [reflexivity|].
  rewrite consumed_cons, rdims_l_cons. destruct it; cbn in Hit; try contradiction; cbn [consumes rdims count_int count_none fold_right];
    fold (count_int pre); fold (count_none pre); lia.
Qed.

Lemma src_of_length idx : noell idx -> forall S r a, consumed idx = List.length S -> src_of idx S r = Some a -> List.length a = List.length S.
Proof.
  induction idx as [|it idx IH]; intros HN S r a HC H.
  - destruct S; [|discriminate]. cbn in H. destruct r; cbn in H; inversion H. reflexivity.
  - inversion HN as [|? ? Hit HN']; subst. rewrite consumed_cons in HC.
    destruct it as [i|a0 b c| | |tsh vals|msh bits]; cbn [is_ell] in Hit; try discriminate; cbn [src_of] in H.
    + destruct S as [|s S]; [discriminate|]. destruct (norm_i i s); [|discriminate].
      destruct (src_of idx S r) as [t|] eqn:E; [|discriminate]. inversion H; subst. cbn. f_equal.
      eapply IH; eauto; cbn in HC; lia.
    + destruct S as [|s S]; [discriminate|]. destruct r as [|x r]; [discriminate|].
      destruct (step_of c <=? 0); [discriminate|]. destruct (in_dim x _); [|discriminate].
      destruct (src_of idx S r) as [t|] eqn:E; [|discriminate]. inversion H; subst. cbn. f_equal.
      eapply IH; eauto; cbn in HC; lia.
    + destruct r as [|x r]; [discriminate|]. destruct (x =? 0); [|discriminate]. eapply IH; eauto.
    + destruct S as [|s S]; [discriminate|].
      destruct (_ && _ && _ && _); [|discriminate]. destruct (nthZ vals _); [|discriminate].
      destruct (norm_i _ s); [|discriminate].
      destruct (src_of idx S _) as [t|] eqn:E; [|discriminate]. inversion H; subst. cbn. f_equal.
      eapply IH; eauto; cbn in HC; lia.
    + destruct (list_eqb (firstn (List.length msh) S) msh && (lenZ bits =? prodZ msh)) eqn:EM; [|discriminate].
      destruct r as [|x r]; [discriminate|]. destruct (nthZ (true_pos bits) x) as [p|]; [|discriminate].
      destruct (src_of idx (skipn (List.length msh) S) r) as [t|] eqn:E; [|discriminate]. inversion H; subst.
      rewrite app_length. cbn [consumes] in HC.
      assert (HC' : consumed idx = List.length (skipn (List.length msh) S)) by (rewrite skipn_length; lia).
      rewrite (IH HN' _ _ _ HC' E). rewrite skipn_length.
      assert (List.length (unravel msh p) = List.length msh).
      { clear. revert p. induction msh as [|m msh IHm]; intros p; cbn; [reflexivity|]. rewrite IHm. reflexivity. }
      lia.
Qed.

(* ------------------------------------------------------------------------------------------------------------
   __getitem__ at one level of stacking, members abstract (they may be lazy stacks handled by G) *)
Lemma nth_error_seq len : forall start i, nth_error (seq start len) i = if (i <? len)%nat then Some (start + i)%nat else None.
Proof.
  induction len as [|len IH]; intros start i; cbn [seq].
  - destruct i; reflexivity.
  - destruct i as [|i]; cbn [nth_error]; [rewrite Nat.add_0_r; reflexivity|].
    rewrite IH. replace (S start + i)%nat with (start + S i)%nat by lia.
    destruct (i <? len)%nat eqn:E; destruct (S i <? S len)%nat eqn:E2; try reflexivity;
      (apply Nat.ltb_lt in E || apply Nat.ltb_ge in E); (apply Nat.ltb_lt in E2 || apply Nat.ltb_ge in E2); lia.
Qed.

Lemma range_len_nonneg t : 0 <= range_len t.
Proof.
  destruct t as [[a b] c]. unfold range_len.
  destruct (c >? 0) eqn:?; [destruct (a <? b) eqn:?|destruct (b <? a) eqn:?]; try lia.
  - assert (0 <= (b - a - 1) / c) by (apply Z_div_nonneg_nonneg; lia). lia.
  - assert (0 <= (a - b - 1) / - c) by (apply Z_div_nonneg_nonneg; lia). lia.
Qed.

Lemma nthZ_range_elems t k :
  nthZ (range_elems t) k = if in_dim k (range_len t) then Some (range_nth t k) else None.
Proof.
  pose proof (range_len_nonneg t) as HL. unfold nthZ, range_elems, in_dim.
  destruct (k <? 0) eqn:E; [replace (0 <=? k) with false by lia; reflexivity|].
  replace (0 <=? k) with true by lia. cbn [andb].
  rewrite nth_error_map, nth_error_seq. cbn [Nat.add].
  destruct (Z.to_nat k <? Z.to_nat (range_len t))%nat eqn:E2; destruct (k <? range_len t) eqn:E3; cbn [option_map];
    try (rewrite Z2Nat.id by lia; reflexivity); try reflexivity;
    (apply Nat.ltb_lt in E2 || apply Nat.ltb_ge in E2); lia.
Qed.

Lemma lenZ_range_elems t : lenZ (range_elems t) = range_len t.
Proof.
  unfold lenZ, range_elems. rewrite map_length, seq_length. pose proof (range_len_nonneg t). lia.
Qed.

Lemma member_In parts j m : member parts j = Ok m -> In m parts.
Proof.
  unfold member. destruct (norm_i j (lenZ parts)) as [j'|]; [|discriminate].
  destruct (nthZ parts j') as [x|] eqn:E; cbn; [|discriminate]. intros H; inversion H; subst. eapply nthZ_In; exact E.
Qed.

Lemma member_inrange parts j : in_dim j (lenZ parts) = true -> member parts j = of_opt (nthZ parts j).
Proof. intros H. unfold member, norm_i. rewrite H. reflexivity. Qed.

Lemma rbind_ok {A B} (r : res A) (f : A -> res B) y : rbind r f = Ok y -> exists a, r = Ok a /\ f a = Ok y.
Proof. destruct r; cbn; intros H; try discriminate. eauto. Qed.

Section OneLevel.
  Variable G : arr -> list item -> res arr.
  Variables (sd : nat) (bs0 : list Z) (parts : list arr) (S1 S2 : list Z).
  Let bs := S1 ++ S2.
  Let self := Stack sd bs0 parts.
  Let shape := S1 ++ lenZ parts :: S2.
  Hypothesis HS1 : List.length S1 = sd.
  Hypothesis Hne : parts <> [].
  Hypothesis Hshape : Forall (fun p => shape_of p = Some bs) parts.
  Hypothesis Hsound : Forall (fun p => sound p bs) parts.
  Hypothesis Hnn : Forall (fun s => 0 <= s) bs.
  Variable Psub : list item -> Prop.     (* what is known of the sub-indices handed to nested lazy members *)
  Hypothesis HG : forall m sub x rs, In m parts -> is_stack m = true -> Psub sub -> res_shape sub bs = Some rs ->
                                     G m sub = Ok x -> equiv x (Index sub m).

  Lemma shape_self : shape_of self = Some shape.
  Proof.
    unfold self, shape. rewrite (shape_of_stack sd bs0 parts bs Hne Hshape) by (unfold bs; rewrite app_length; lia).
    unfold bs. rewrite <- HS1 at 1. rewrite insert_at_app. reflexivity.
  Qed.

  Lemma rmap_members sub rs0 : Psub sub -> res_shape sub bs = Some rs0 -> forall js xs,
    rmap (fun e : Z * list item => let '(i, sub) := e in rbind (member parts i) (fun m => m_get_or_self G m sub))
         (map (fun j => (j, sub)) js) = Ok xs ->
    exists ms, Forall2 (fun j m => member parts j = Ok m) js ms /\
               Forall2 (fun m x => equiv x (Index sub m)) ms xs.
  Proof.
    intros HPs Hrs0. induction js as [|j js IH]; intros xs H; cbn [map rmap] in H.
    - inversion H. exists []. split; constructor.
    - apply rbind_ok in H. destruct H as [x [Hx H]].
      apply rbind_ok in Hx. destruct Hx as [m [Em Ex]].
      apply rbind_ok in H. destruct H as [xs' [Er H]].
      inversion H as [Hxs]. destruct (IH xs' Er) as [ms [F1 F2]].
      exists (m :: ms). split; constructor; auto.
      pose proof (member_In _ _ _ Em) as Hin.
      apply (m_get_or_self_equiv G m sub x bs rs0).
      + apply (proj1 (Forall_forall _ _) Hshape). exact Hin.
      + apply (proj1 (Forall_forall _ _) Hsound). exact Hin.
      + exact Hnn.
      + exact Hrs0.
      + intros. eapply HG; eauto.
      + exact Ex.
  Qed.

  Lemma members_shape ms js : Forall2 (fun j m => member parts j = Ok m) js ms -> Forall (fun m => shape_of m = Some bs) ms.
  Proof.
    induction 1 as [|j m js ms Hm _ IH]; constructor; [|exact IH].
    apply (proj1 (Forall_forall _ _) Hshape). eapply member_In; exact Hm.
  Qed.

  Lemma nth_error_split {A} (r : list A) k x : nth_error r k = Some x ->
    exists r1 r2, r = r1 ++ x :: r2 /\ List.length r1 = k.
  Proof.
    intros H. apply nth_error_split in H. destruct H as [l1 [l2 [E L]]]. exists l1, l2. auto.
  Qed.

  Lemma firstn_app_exact {A} (a b : list A) : firstn (List.length a) (a ++ b) = a.
  Proof. rewrite firstn_app, firstn_all, Nat.sub_diag. cbn. apply app_nil_r. Qed.
  Lemma skipn_app_exact {A} (a b : list A) : skipn (List.length a) (a ++ b) = b.
  Proof. rewrite skipn_app, skipn_all, Nat.sub_diag. reflexivity. Qed.

  (* the slice case: lazy[pre, a:b:c, post]; what is needed of the prefix is what _split_index returns for it and
     that  stack_dim - num_single + num_none - num_squash  counts the result dims it produces *)
  Theorem getitem_slice_core pre a b c post a' rsd ns nn nsq :
    noell pre -> consumed pre = sd -> Forall post_item post -> Psub (pre ++ post) ->
    split_index sd (List.length parts) shape (pre ++ ISl a b c :: post) =
      Ok (mk_split2 (KDict (map (fun j => (j, pre ++ post)) (range_elems (py_indices a b (step_of c) (Z.of_nat (List.length parts))))))
                    ns nn nsq false) ->
    Z.of_nat sd - ns + nn - nsq = Z.of_nat (rdims_l pre) ->
    res_shape (pre ++ ISl a b c :: post) shape = Some rsd ->          (* the index is legal on the dense stack *)
    getitem_body G self sd bs0 parts shape (pre ++ ISl a b c :: post) = Ok a' ->
    equiv a' (Index (pre ++ ISl a b c :: post) self).
  Proof.
    intros HNpre HC HP HPs Hsplit Hnsdeq Hlegal H.
    assert (HCpre : consumed pre = List.length S1) by lia.
    (* decompose the legality of the index *)
    unfold shape in Hlegal. rewrite (res_shape_app pre HNpre S1 _ _ HCpre) in Hlegal.
    destruct (res_shape pre S1) as [ra|] eqn:Era; [|discriminate].
    cbn [res_shape] in Hlegal. destruct (step_of c <=? 0) eqn:Hstep; [discriminate|].
    destruct (res_shape post S2) as [rb|] eqn:Erb; [|discriminate]. cbn [option_map] in Hlegal.
    unfold getitem_body in H.
    rewrite Hsplit in H.
    cbn [rbind mk_split2 sp_has_bool sp_nd sp_kind sp_isint sp_num_single sp_num_none sp_num_squash] in H.
    change (Z.of_nat (List.length parts)) with (lenZ parts) in *.
    set (t := py_indices a b (step_of c) (lenZ parts)) in *.
    rewrite Hnsdeq in H.
    unfold nonneg_nat in H. replace (Z.of_nat (rdims_l pre) <? 0) with false in H by lia. cbn [rbind] in H.
    rewrite Nat2Z.id in H. set (nsd := rdims_l pre) in *.
    apply rbind_ok in H. destruct H as [xs [Er H]].
    assert (Hrs : res_shape (pre ++ post) bs = Some (ra ++ rb)).
    { unfold bs. rewrite (res_shape_app pre HNpre S1 S2 post HCpre), Era, Erb. reflexivity. }
    destruct (rmap_members (pre ++ post) _ HPs Hrs _ _ Er) as [ms [F1 F2]].
    destruct xs as [|x0 xs]; [discriminate|]. inversion H as [Ha']. clear H.
    pose proof (members_shape _ _ F1) as Hms.
    pose proof shape_self as Hself.
    assert (Hnsd : List.length ra = nsd) by (eapply res_shape_exact; eauto).
    destruct (stack_of_indexed nsd bs0 (pre ++ post) bs (ra ++ rb) ms (x0 :: xs) F2 Hms Hrs
                ltac:(rewrite app_length; lia) ltac:(discriminate)) as [Hsh Hat].
    assert (Hlen : lenZ (x0 :: xs) = range_len t).
    { rewrite <- lenZ_range_elems. unfold lenZ. rewrite <- (Forall2_length _ _ _ F2), (Forall2_length _ _ _ F1). reflexivity. }
    split.
    - rewrite Hsh, (shape_index _ _ _ Hself). unfold shape.
      rewrite (res_shape_app pre HNpre S1 _ _ HCpre), Era. cbn [res_shape]. rewrite Hstep, Erb. cbn [option_map].
      fold t. rewrite Hlen, <- Hnsd, insert_at_app. reflexivity.
    - intros r. rewrite Hat, (at_index _ _ _ r Hself). unfold shape.
      rewrite (src_of_app pre HNpre S1 _ _ r HCpre). fold nsd.
      destruct (nth_error r nsd) as [k|] eqn:Ek.
      + destruct (nth_error_split _ _ _ Ek) as [r1 [r2 [Er12 Lr1]]]. subst r.
        rewrite <- Lr1. rewrite firstn_app_exact, skipn_app_exact, remove_at_app.
        cbn [src_of]. rewrite Hstep. fold t.
        unfold bs. rewrite (src_of_app pre HNpre S1 S2 post (r1 ++ r2) HCpre). fold nsd. rewrite <- Lr1.
        rewrite firstn_app_exact, skipn_app_exact.
        pose proof (Forall2_nthZ _ _ _ F1 k) as HP1. rewrite nthZ_range_elems in HP1. fold t in HP1.
        destruct (in_dim k (range_len t)) eqn:Ein.
        * destruct (nthZ ms k) as [m|] eqn:Em; [|contradiction].
          assert (Hj : in_dim (range_nth t k) (lenZ parts) = true).
          { unfold in_dim in Ein |- *. unfold t in Ein |- *.
            assert (H0 : 0 <= lenZ parts) by (unfold lenZ; lia).
            pose proof (py_indices_in_bounds a b (step_of c) (lenZ parts) k H0 ltac:(lia) ltac:(lia)) as HB'. lia. }
          rewrite (member_inrange _ _ Hj) in HP1.
          destruct (nthZ parts (range_nth t k)) as [m'|] eqn:Em'; cbn in HP1; [|discriminate]. inversion HP1; subst m'.
          destruct (src_of pre S1 r1) as [a1|] eqn:Ea1; [|reflexivity].
          destruct (src_of post S2 r2) as [b1|] eqn:Eb1; [|reflexivity]. cbn [option_map opt_bind].
          unfold self. rewrite at_stack.
          assert (La1 : List.length a1 = sd) by (rewrite (src_of_length pre HNpre S1 r1 a1 HCpre Ea1); exact HS1).
          rewrite <- La1. rewrite nth_error_app_mid, Em', remove_at_app. reflexivity.
        * destruct (nthZ ms k); [contradiction|].
          destruct (src_of pre S1 r1); reflexivity.
      + apply nth_error_None in Ek. rewrite (skipn_all2 r) by exact Ek. cbn [src_of].
        destruct (src_of pre S1 (firstn nsd r)); [|reflexivity]. destruct (step_of c <=? 0); reflexivity.
  Qed.
  Theorem getitem_slice pre a b c post a' rsd :
    basic pre -> consumed pre = sd -> Forall post_item post -> Psub (pre ++ post) ->
    res_shape (pre ++ ISl a b c :: post) shape = Some rsd ->          (* the index is legal on the dense stack *)
    getitem_body G self sd bs0 parts shape (pre ++ ISl a b c :: post) = Ok a' ->
    equiv a' (Index (pre ++ ISl a b c :: post) self).
  Proof.
    intros HB HC HP HPs Hlegal H.
    assert (HNpre : noell pre) by (apply basic_noell; exact HB).
    destruct ((1 <? List.length (filter is_adv (pre ++ ISl a b c :: post)))%nat) eqn:HA.
    { exfalso. unfold getitem_body, split_index in H.
      rewrite convert_ellipsis_noell in H by (apply noell_app; [exact HNpre|constructor; [reflexivity|apply post_noell; exact HP]]).
      cbn [rbind] in H. rewrite HA in H. discriminate. }
    destruct (step_of c =? 0) eqn:Hst.
    { exfalso. unfold shape in Hlegal. rewrite (res_shape_app pre HNpre S1 _ _ ltac:(lia)) in Hlegal.
      destruct (res_shape pre S1); [|discriminate]. cbn [res_shape] in Hlegal.
      replace (step_of c <=? 0) with true in Hlegal by lia. discriminate. }
    eapply (getitem_slice_core pre a b c post a' rsd (count_int pre) (count_none pre) 0); eauto.
    - rewrite (split_index_slice sd (List.length parts) shape pre a b c post HB HC HP HA Hst). rewrite mk_split_eq. reflexivity.
    - rewrite Z.sub_0_r. rewrite <- HC at 1. apply nsd_basic. exact HB.
  Qed.

  Lemma norm_i_range i s i' : norm_i i s = Some i' -> in_dim i' s = true.
  Proof.
    unfold norm_i, in_dim. destruct ((0 <=? i) && (i <? s)) eqn:E1.
    - intros H; inversion H; subst. exact E1.
    - destruct ((- s <=? i) && (i <? 0)) eqn:E2; [|discriminate]. intros H; inversion H; subst. lia.
  Qed.

  (* the int case: lazy[pre, j, post] is member j indexed by the rest *)
  Theorem getitem_int_core pre j post a' rsd ns nn nsq :
    noell pre -> consumed pre = sd -> Forall post_item post -> Psub (pre ++ post) ->
    (forall j', norm_i j (lenZ parts) = Some j' ->
       split_index sd (List.length parts) shape (pre ++ IInt j :: post) = Ok (mk_split2 (KDict [(j', pre ++ post)]) ns nn nsq true)) ->
    res_shape (pre ++ IInt j :: post) shape = Some rsd ->
    getitem_body G self sd bs0 parts shape (pre ++ IInt j :: post) = Ok a' ->
    equiv a' (Index (pre ++ IInt j :: post) self).
  Proof.
    intros HNpre HC HP HPs Hsplit Hlegal H.
    assert (HCpre : consumed pre = List.length S1) by lia.
    unfold shape in Hlegal. rewrite (res_shape_app pre HNpre S1 _ _ HCpre) in Hlegal.
    destruct (res_shape pre S1) as [ra|] eqn:Era; [|discriminate].
    cbn [res_shape] in Hlegal. destruct (norm_i j (lenZ parts)) as [j'|] eqn:Ej; [|discriminate].
    destruct (res_shape post S2) as [rb|] eqn:Erb; [|discriminate]. cbn [option_map] in Hlegal.
    unfold getitem_body in H.
    rewrite (Hsplit j' eq_refl) in H.
    cbn [rbind mk_split2 sp_has_bool sp_nd sp_kind sp_isint] in H.
    apply rbind_ok in H. destruct H as [m [Em Hx]].
    pose proof (norm_i_range _ _ _ Ej) as Hj'.
    rewrite (member_inrange _ _ Hj') in Em.
    destruct (nthZ parts j') as [m'|] eqn:Em'; cbn in Em; [|discriminate]. inversion Em; subst m'. clear Em.
    pose proof (nthZ_In _ _ _ Em') as Hin.
    assert (Hm : shape_of m = Some bs) by (apply (proj1 (Forall_forall _ _) Hshape); exact Hin).
    assert (Hrs : res_shape (pre ++ post) bs = Some (ra ++ rb)).
    { unfold bs. rewrite (res_shape_app pre HNpre S1 S2 post HCpre), Era, Erb. reflexivity. }
    assert (Heq : equiv a' (Index (pre ++ post) m)).
    { apply (m_get_or_self_equiv G m (pre ++ post) a' bs (ra ++ rb) Hm).
      - apply (proj1 (Forall_forall _ _) Hsound). exact Hin.
      - exact Hnn.
      - exact Hrs.
      - intros. eapply (HG m (pre ++ post) a' (ra ++ rb)); eauto.
      - exact Hx. }
    apply (equiv_trans _ _ _ Heq). clear Heq Hx.
    pose proof shape_self as Hself.
    split.
    - rewrite (shape_index _ _ _ Hm), (shape_index _ _ _ Hself). unfold bs, shape.
      rewrite (res_shape_app pre HNpre S1 S2 post HCpre), (res_shape_app pre HNpre S1 _ _ HCpre), Era.
      cbn [res_shape]. rewrite Ej. reflexivity.
    - intros r. rewrite (at_index _ _ _ r Hm), (at_index _ _ _ r Hself). unfold bs, shape.
      rewrite (src_of_app pre HNpre S1 S2 post r HCpre), (src_of_app pre HNpre S1 _ _ r HCpre).
      destruct (src_of pre S1 (firstn (rdims_l pre) r)) as [a1|] eqn:Ea1; [|reflexivity].
      cbn [src_of]. rewrite Ej.
      destruct (src_of post S2 (skipn (rdims_l pre) r)) as [b1|]; [|reflexivity]. cbn [option_map opt_bind].
      unfold self. rewrite at_stack.
      assert (La1 : List.length a1 = sd) by (rewrite (src_of_length pre HNpre S1 _ a1 HCpre Ea1); exact HS1).
      rewrite <- La1. rewrite nth_error_app_mid, Em', remove_at_app. reflexivity.
  Qed.
  Theorem getitem_int pre j post a' rsd :
    basic pre -> consumed pre = sd -> Forall post_item post -> Psub (pre ++ post) ->
    res_shape (pre ++ IInt j :: post) shape = Some rsd ->
    getitem_body G self sd bs0 parts shape (pre ++ IInt j :: post) = Ok a' ->
    equiv a' (Index (pre ++ IInt j :: post) self).
  Proof.
    intros HB HC HP HPs Hlegal H.
    assert (HNpre : noell pre) by (apply basic_noell; exact HB).
    destruct ((1 <? List.length (filter is_adv (pre ++ IInt j :: post)))%nat) eqn:HA.
    { exfalso. unfold getitem_body, split_index in H.
      rewrite convert_ellipsis_noell in H by (apply noell_app; [exact HNpre|constructor; [reflexivity|apply post_noell; exact HP]]).
      cbn [rbind] in H. rewrite HA in H. discriminate. }
    eapply (getitem_int_core pre j post a' rsd (count_int pre) (count_none pre) 0); eauto.
    intros j' Ej. rewrite (split_index_int sd (List.length parts) shape pre j j' post HB HC HP HA Ej). rewrite mk_split_eq. reflexivity.
  Qed.

  Lemma nthZ_seq n k : nthZ (map Z.of_nat (seq 0 n)) k = if in_dim k (Z.of_nat n) then Some k else None.
  Proof.
    unfold nthZ, in_dim. destruct (k <? 0) eqn:E; [replace (0 <=? k) with false by lia; reflexivity|].
    replace (0 <=? k) with true by lia. cbn [andb]. rewrite nth_error_map, nth_error_seq. cbn [Nat.add].
    destruct (Z.to_nat k <? n)%nat eqn:E2; destruct (k <? Z.of_nat n) eqn:E3; cbn [option_map];
      try (rewrite Z2Nat.id by lia; reflexivity); try reflexivity;
      (apply Nat.ltb_lt in E2 || apply Nat.ltb_ge in E2); lia.
  Qed.

  Lemma in_range_wrong_length sh r : List.length r <> List.length sh -> in_range sh r = false.
  Proof.
    intros H. destruct (in_range sh r) eqn:E; [|reflexivity]. apply in_range_length in E. contradiction.
  Qed.

  (* the index stops before the stack dim: lazy[idx] is the stack of member[idx], the stack dim moved by the dims idx adds/removes *)
  Theorem getitem_short idx a' rsd :
    basic idx -> (consumed idx <= sd)%nat -> Psub idx ->
    res_shape idx shape = Some rsd ->
    getitem_body G self sd bs0 parts shape idx = Ok a' ->
    equiv a' (Index idx self).
  Proof.
    intros HB HC HPs Hlegal H.
    assert (HN : noell idx) by (apply basic_noell; exact HB).
    set (c := consumed idx) in *.
    assert (ES1 : S1 = firstn c S1 ++ skipn c S1) by (symmetry; apply firstn_skipn).
    set (Sa := firstn c S1) in *. set (Sb := skipn c S1) in *.
    assert (LSa : List.length Sa = c) by (unfold Sa; rewrite firstn_length; lia).
    assert (LSb : List.length Sb = (sd - c)%nat) by (unfold Sb; rewrite skipn_length; lia).
    assert (HCa : consumed idx = List.length Sa) by (fold c; lia).
    assert (Eshape : shape = Sa ++ (Sb ++ lenZ parts :: S2)) by (unfold shape; rewrite ES1 at 1; rewrite <- app_assoc; reflexivity).
    assert (Ebs : bs = Sa ++ (Sb ++ S2)) by (unfold bs; rewrite ES1 at 1; rewrite <- app_assoc; reflexivity).
    rewrite Eshape in Hlegal. rewrite (res_shape_tail idx HN Sa _ HCa) in Hlegal.
    destruct (res_shape idx Sa) as [ra|] eqn:Era; [|discriminate].
    unfold getitem_body in H.
    rewrite (split_index_short sd (List.length parts) shape idx HB HC) in H.
    cbn [rbind mk_split sp_has_bool sp_nd sp_kind sp_isint sp_num_single sp_num_none sp_num_squash] in H.
    rewrite Z.sub_0_r in H.
    pose proof (nsd_basic idx HB) as Hn. fold c in Hn.
    replace (Z.of_nat sd - count_int idx + count_none idx) with (Z.of_nat (rdims_l idx + (sd - c))) in H by lia.
    unfold nonneg_nat in H. replace (Z.of_nat (rdims_l idx + (sd - c)) <? 0) with false in H by lia. cbn [rbind] in H.
    rewrite Nat2Z.id in H. set (rd := rdims_l idx) in *. set (nsd := (rd + (sd - c))%nat) in *.
    apply rbind_ok in H. destruct H as [xs [Er H]].
    assert (Hrs : res_shape idx bs = Some (ra ++ (Sb ++ S2))).
    { rewrite Ebs. rewrite (res_shape_tail idx HN Sa _ HCa), Era. reflexivity. }
    destruct (rmap_members idx _ HPs Hrs _ _ Er) as [ms [F1 F2]].
    destruct xs as [|x0 xs]; [discriminate|]. inversion H as [Ha']. clear H.
    pose proof (members_shape _ _ F1) as Hms.
    pose proof shape_self as Hself.
    assert (Hra : List.length ra = rd) by (eapply res_shape_exact; eauto).
    destruct (stack_of_indexed nsd bs0 idx bs (ra ++ (Sb ++ S2)) ms (x0 :: xs) F2 Hms Hrs
                ltac:(rewrite !app_length; unfold nsd; lia) ltac:(discriminate)) as [Hsh Hat].
    assert (Hlen : lenZ (x0 :: xs) = lenZ parts).
    { unfold lenZ. rewrite <- (Forall2_length _ _ _ F2), <- (Forall2_length _ _ _ F1), map_length, seq_length. reflexivity. }
    split.
    - rewrite Hsh, (shape_index _ _ _ Hself), Eshape.
      rewrite (res_shape_tail idx HN Sa _ HCa), Era.
      rewrite Hlen. replace nsd with (List.length (ra ++ Sb)) by (rewrite app_length; unfold nsd; lia).
      rewrite app_assoc, insert_at_app, <- app_assoc. reflexivity.
    - intros r. rewrite Hat, (at_index _ _ _ r Hself), Eshape, Ebs.
      rewrite (src_of_tail idx HN Sa _ r HCa). fold rd.
      destruct (nth_error r nsd) as [k|] eqn:Ek.
      + destruct (nth_error_split _ _ _ Ek) as [r1 [r2 [Er12 Lr1]]]. subst r.
        assert (Lr1' : (rd <= List.length r1)%nat) by (unfold nsd in Lr1; lia).
        destruct (split_at rd r1 Lr1') as [ra' [rb' [Er1 Lra']]]. subst r1.
        rewrite app_length in Lr1.
        assert (Lrb' : List.length rb' = List.length Sb) by (unfold nsd in Lr1; lia).
        replace nsd with (List.length (ra' ++ rb')) by (rewrite app_length; exact Lr1).
        rewrite remove_at_app.
        rewrite (src_of_tail idx HN Sa _ ((ra' ++ rb') ++ r2) HCa). fold rd.
        rewrite <- !app_assoc. rewrite <- Lra'. rewrite !firstn_app_exact, !skipn_app_exact.
        rewrite (in_range_app Sb (lenZ parts :: S2) rb' (k :: r2) Lrb'), (in_range_app Sb S2 rb' r2 Lrb').
        cbn [in_range].
        pose proof (Forall2_nthZ _ _ _ F1 k) as HP1. rewrite nthZ_seq in HP1. fold (lenZ parts) in HP1.
        destruct (in_dim k (lenZ parts)) eqn:Ein.
        * destruct (nthZ ms k) as [m|] eqn:Em; [|contradiction].
          rewrite (member_inrange _ _ Ein) in HP1.
          destruct (nthZ parts k) as [m'|] eqn:Em'; cbn in HP1; [|discriminate]. inversion HP1; subst m'.
          destruct (src_of idx Sa ra') as [a1|] eqn:Ea1; [|reflexivity].
          destruct (in_range Sb rb' && in_range S2 r2) eqn:Ert.
          -- apply andb_prop in Ert. destruct Ert as [E1 E2]. rewrite E1, E2. cbn [andb option_map opt_bind].
             unfold self. rewrite at_stack.
             assert (La1 : List.length a1 = c) by (rewrite (src_of_length idx HN Sa _ a1 HCa Ea1); exact LSa).
             replace sd with (List.length (a1 ++ rb')) by (rewrite app_length; lia).
             rewrite (app_assoc a1 rb' (k :: r2)), nth_error_app_mid, Em', remove_at_app, <- app_assoc. reflexivity.
          -- replace (in_range Sb rb' && (true && in_range S2 r2)) with false
               by (destruct (in_range Sb rb'), (in_range S2 r2); cbn in *; congruence).
             reflexivity.
        * destruct (nthZ ms k); [contradiction|].
          destruct (src_of idx Sa ra'); [|reflexivity].
          cbn [andb]. rewrite andb_false_r. reflexivity.
      + apply nth_error_None in Ek.
        destruct (src_of idx Sa (firstn rd r)); [|reflexivity]. cbn [src_of].
        rewrite in_range_wrong_length; [reflexivity|].
        rewrite skipn_length, app_length. cbn [List.length]. unfold nsd in Ek. lia.
  Qed.
End OneLevel.

(* ------------------------------------------------------------------------------------------------------------
   all basic indices, any nesting depth *)
Lemma basic_cases idx : basic idx -> forall sd,
  (consumed idx <= sd)%nat \/
  exists pre x post, idx = pre ++ x :: post /\ basic pre /\ consumed pre = sd /\ basic post /\
                     ((exists j, x = IInt j) \/ (exists a b c, x = ISl a b c)).
Proof.
  induction 1 as [|it idx Hit HB IH]; intros sd; [left; cbn; lia|].
  destruct it as [j|a b c| | |? ?|? ?]; cbn in Hit; try contradiction.
  - destruct sd as [|sd].
    + right. exists [], (IInt j), idx.
      split; [reflexivity|]. split; [constructor|]. split; [reflexivity|]. split; [exact HB|]. left. eauto.
    + destruct (IH sd) as [Hs|[pre [x [post [E [Hp [Hc [Hpo Hx]]]]]]]].
      * left. rewrite consumed_cons. cbn [consumes]. lia.
      * right. exists (IInt j :: pre), x, post. subst idx.
        split; [reflexivity|]. split; [constructor; [exact I|exact Hp]|].
        split; [rewrite consumed_cons; cbn [consumes]; lia|]. split; [exact Hpo|exact Hx].
  - destruct sd as [|sd].
    + right. exists [], (ISl a b c), idx.
      split; [reflexivity|]. split; [constructor|]. split; [reflexivity|]. split; [exact HB|]. right. eauto.
    + destruct (IH sd) as [Hs|[pre [x [post [E [Hp [Hc [Hpo Hx]]]]]]]].
      * left. rewrite consumed_cons. cbn [consumes]. lia.
      * right. exists (ISl a b c :: pre), x, post. subst idx.
        split; [reflexivity|]. split; [constructor; [exact I|exact Hp]|].
        split; [rewrite consumed_cons; cbn [consumes]; lia|]. split; [exact Hpo|exact Hx].
  - destruct (IH sd) as [Hs|[pre [x [post [E [Hp [Hc [Hpo Hx]]]]]]]].
    + left. rewrite consumed_cons. cbn [consumes]. lia.
    + right. exists (INone :: pre), x, post. subst idx.
      split; [reflexivity|]. split; [constructor; [exact I|exact Hp]|].
      split; [rewrite consumed_cons; cbn [consumes]; lia|]. split; [exact Hpo|exact Hx].
Qed.

Lemma basic_post post : basic post -> Forall post_item post.
Proof. intros H. eapply Forall_impl; [|exact H]. intros [] Hb; cbn in *; tauto. Qed.
Lemma basic_app a b : basic a -> basic b -> basic (a ++ b).
Proof. intros. apply Forall_app. split; assumption. Qed.

Lemma wf_forall_shapes parts bs : wf_forall parts bs -> Forall (fun p => shape_of p = Some bs) parts.
Proof.
  intros H. apply Forall_forall. intros p Hp. apply wf_shape. eapply wf_forall_In; eauto.
Qed.
Lemma wf_forall_nonneg parts bs : parts <> [] -> wf_forall parts bs -> Forall (fun s => 0 <= s) bs.
Proof.
  intros Hne H. destruct parts as [|p parts]; [congruence|]. inversion H; subst. eapply wf_nonneg; eauto.
Qed.
Lemma wf_forall_sound parts bs : wf_forall parts bs -> Forall (fun p => sound p bs) parts.
Proof.
  intros H. apply Forall_forall. intros p Hp r e. apply at_sound. eapply wf_forall_In; eauto.
Qed.

(* THE index theorem for basic indices: whatever the nesting, lazy[idx] denotes dense[idx] *)
Theorem getitem_basic : forall fuel self bs idx a' rsd,
  wf_tree self bs -> basic idx -> res_shape idx bs = Some rsd ->
  lz_getitem fuel self idx = Ok a' -> equiv a' (Index idx self).
Proof.
  induction fuel as [|f IH]; intros self bs idx a' rsd Hwf HB Hlegal H; [discriminate|].
  cbn [lz_getitem] in H. inversion Hwf as [j bs' E1 E2|sd bs0 parts bs' Hne Hparts Hsd E1 E2]; subst.
  - inversion H. apply equiv_refl.
  - rewrite (wf_shape _ _ Hwf) in H.
    pose proof (wf_forall_nonneg _ _ Hne Hparts) as Hnn.
    destruct (split_at sd bs' Hsd) as [S1 [S2 [Ebs LS1]]]. subst bs'.
    assert (Eins : insert_at sd (lenZ parts) (S1 ++ S2) = S1 ++ lenZ parts :: S2) by (rewrite <- LS1; apply insert_at_app).
    rewrite Eins in H, Hlegal.
    assert (HGm : forall m sub x rs, In m parts -> is_stack m = true -> basic sub -> res_shape sub (S1 ++ S2) = Some rs ->
                                    lz_getitem f m sub = Ok x -> equiv x (Index sub m)).
    { intros m sub x rs Hin _ Hbs Hrs Hx. eapply (IH m (S1 ++ S2) sub x rs); eauto. eapply wf_forall_In; eauto. }
    destruct (basic_cases idx HB sd) as [Hs|[pre [x [post [E [Hp [Hc [Hpo Hx]]]]]]]].
    + eapply (getitem_short (lz_getitem f) sd bs0 parts S1 S2 LS1 Hne (wf_forall_shapes _ _ Hparts)
                (wf_forall_sound _ _ Hparts) Hnn basic HGm idx a' rsd); eauto.
    + subst idx. destruct Hx as [[j Ej]|[a [b [c Ec]]]]; subst x.
      * eapply (getitem_int (lz_getitem f) sd bs0 parts S1 S2 LS1 Hne (wf_forall_shapes _ _ Hparts)
                  (wf_forall_sound _ _ Hparts) Hnn basic HGm pre j post a' rsd); eauto using basic_post, basic_app.
      * eapply (getitem_slice (lz_getitem f) sd bs0 parts S1 S2 LS1 Hne (wf_forall_shapes _ _ Hparts)
                  (wf_forall_sound _ _ Hparts) Hnn basic HGm pre a b c post a' rsd); eauto using basic_post, basic_app.
Qed.

(* one advanced index (integer tensor of any rank, mask of any rank >= 1) AFTER the stack dim, flat stack of plain members *)
Theorem getitem_adv_after : forall fuel sd bs0 parts bs pre x post a' rsd,
  parts <> [] -> Forall (fun p => wf_tree p bs /\ is_stack p = false) parts -> (sd <= List.length bs)%nat ->
  basic pre -> consumed pre = sd -> ((exists j, x = IInt j) \/ (exists a b c, x = ISl a b c)) -> Forall post_item post ->
  res_shape (pre ++ x :: post) (insert_at sd (lenZ parts) bs) = Some rsd ->
  lz_getitem (S fuel) (Stack sd bs0 parts) (pre ++ x :: post) = Ok a' ->
  equiv a' (Index (pre ++ x :: post) (Stack sd bs0 parts)).
Proof.
  intros fuel sd bs0 parts bs pre x post a' rsd Hne Hparts Hsd HB HC Hx HP Hlegal H.
  assert (Hsh : Forall (fun p => shape_of p = Some bs) parts).
  { eapply Forall_impl; [|exact Hparts]. intros p [Hw _]. apply wf_shape. exact Hw. }
  assert (Hso : Forall (fun p => sound p bs) parts).
  { eapply Forall_impl; [|exact Hparts]. intros p [Hw _] r e. apply at_sound. exact Hw. }
  assert (Hnn : Forall (fun s => 0 <= s) bs).
  { destruct parts as [|p0 ps]; [congruence|]. inversion Hparts as [|? ? [Hw _] _]; subst. eapply wf_nonneg; eauto. }
  cbn [lz_getitem] in H. rewrite (shape_of_stack sd bs0 parts bs Hne Hsh Hsd) in H.
  destruct (split_at sd bs Hsd) as [S1 [S2 [Ebs LS1]]]. subst bs.
  assert (Eins : insert_at sd (lenZ parts) (S1 ++ S2) = S1 ++ lenZ parts :: S2) by (rewrite <- LS1; apply insert_at_app).
  rewrite Eins in H, Hlegal.
  assert (HGm : forall m sub y rs, In m parts -> is_stack m = true -> True -> res_shape sub (S1 ++ S2) = Some rs ->
                                  lz_getitem fuel m sub = Ok y -> equiv y (Index sub m)).
  { intros m sub y rs Hin Hst. exfalso. destruct (proj1 (Forall_forall _ _) Hparts m Hin) as [_ Hf]. congruence. }
  destruct Hx as [[j Ej]|[a [b [c Ec]]]]; subst x.
  - eapply (getitem_int (lz_getitem fuel) sd bs0 parts S1 S2 LS1 Hne Hsh Hso Hnn (fun _ => True) HGm pre j post a' rsd); eauto.
  - eapply (getitem_slice (lz_getitem fuel) sd bs0 parts S1 S2 LS1 Hne Hsh Hso Hnn (fun _ => True) HGm pre a b c post a' rsd); eauto.
Qed.
