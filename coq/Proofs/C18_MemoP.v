From Coq Require Import List Bool.
Import ListNotations.
From TD Require Import Model.C18_Memo.

Section MemoP.
  Context {K V : Type} (keqb : K -> K -> bool) (f : K -> option V) (storable : V -> bool).
  Hypothesis keqb_eq : forall a b, keqb a b = true <-> a = b.

  Lemma coherent_nil : coherent keqb f [].
  Proof. intros k v H. discriminate. Qed.

  Lemma coherent_store m k : coherent keqb f m -> coherent keqb f ((k, f k) :: m).
  Proof.
    intros C k2 v. cbn. destruct (keqb k k2) eqn:E.
    - apply keqb_eq in E. subst. auto.
    - apply C.
  Qed.

  (* one call returns the uncached value, whichever arm runs, and keeps the table coherent *)
  Lemma query_sound rg c m k :
    coherent keqb f m ->
    fst (query keqb f storable rg c m k) = f k /\ coherent keqb f (snd (query keqb f storable rg c m k)).
  Proof.
    intros C. unfold query.
    destruct (if rg && c then None else pyget keqb m k) as [v|] eqn:E.
    - cbn. split; [|exact C]. destruct (rg && c); [discriminate|]. symmetry. now apply C.
    - cbn. split; [reflexivity|]. destruct c; [exact C|].
      destruct (f k) as [x|] eqn:Ef.
      + destruct (storable x); [|exact C]. rewrite <- Ef. now apply coherent_store.
      + rewrite <- Ef. now apply coherent_store.
  Qed.

  Lemma run_sound rg : forall qs m,
    coherent keqb f m ->
    fst (run keqb f storable rg qs m) = map (fun q => f (snd q)) qs /\ coherent keqb f (snd (run keqb f storable rg qs m)).
  Proof.
    induction qs as [|[c k] r IH]; intros m C; cbn [run]; [split; [reflexivity|exact C]|].
    pose proof (query_sound rg c m k C) as [Hv Hc].
    destruct (query keqb f storable rg c m k) as [v m1]. cbn in Hv, Hc.
    specialize (IH m1 Hc). destruct (run keqb f storable rg r m1) as [vs m2]. cbn in IH. destruct IH as [IH1 IH2].
    cbn. split; [now rewrite Hv, IH1|exact IH2].
  Qed.

  (* the dual statement: two call sequences over the same keys, with ARBITRARY eager/compile flags at each call, from any
     coherent tables (in particular the empty one), return the same values *)
  Theorem memo_dual rg qs1 qs2 m1 m2 :
    coherent keqb f m1 -> coherent keqb f m2 -> map snd qs1 = map snd qs2 ->
    fst (run keqb f storable rg qs1 m1) = fst (run keqb f storable rg qs2 m2).
  Proof.
    intros C1 C2 Hk. rewrite (proj1 (run_sound rg qs1 m1 C1)), (proj1 (run_sound rg qs2 m2 C2)).
    rewrite <- (map_map snd f qs1), <- (map_map snd f qs2). now rewrite Hk.
  Qed.
End MemoP.

(* without coherence (the class attribute changed after it was memoised) the arms differ: the hypothesis is needed *)
Theorem memo_dual_needs_coherence :
  exists (f : nat -> option bool) m,
    fst (query Nat.eqb f (fun _ => true) true true m 0) <> fst (query Nat.eqb f (fun _ => true) true false m 0).
Proof. exists (fun _ => Some true), [(0, Some false)]. cbn. discriminate. Qed.
