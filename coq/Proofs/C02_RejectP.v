(* C02 proofs, part 7: arguments torch rejects for the batch shape are rejected by tensordict — for the operations whose
   guards are checked by tensordict itself before any entry is visited (transpose, unsqueeze, squeeze(dim), permute
   with as many dims as the batch), whatever the entries are (even without entries).
   For the other operations the statement is FALSE of /repo: see the *_refuted theorems (D4, D22, S5, C02-b/c/d/l). *)
From Coq Require Import ZArith List Bool Lia ZifyBool String.
Import ListNotations.
From TD Require Import Spec.PySlice Spec.C02_TorchShape Model.C02_ShapeOps Proofs.C02_FrameP Proofs.C02_OpsP.
Open Scope Z_scope.
Ltac Zify.zify_post_hook ::= Z.to_euclidean_division_equations.

Lemma wrap_dim_reject d n : wrap_dim d n = Reject -> d < - Z.of_nat n \/ Z.of_nat n <= d.
Proof. unfold wrap_dim. destruct ((d <? - Z.of_nat n) || (Z.of_nat n <=? d)) eqn:E; [lia|discriminate]. Qed.

Lemma apply_raises bs nm ents o k : node_step o bs nm = Raised k -> apply (Node bs nm ents) o = Raised k.
Proof. intros H. cbn [apply]. rewrite H. reflexivity. Qed.

Definition reject_domain (o : sop) (bs : list Z) : Prop :=
  match o with
  | OTranspose _ _ => bs <> []
  | OUnsqueeze _ => True
  | OSqueeze (Some _) => bs <> []
  | OPermute dims => List.length dims = List.length bs
  | _ => False
  end.

Lemma mapM_wrap_reject dims m : mapM (fun d => wrap_dim d m) dims = Reject ->
  existsb (fun d => (d <? 0) || (Z.of_nat m <=? d)) (map (fun d => if 0 <=? d then d else Z.of_nat m + d) dims) = true.
Proof.
  induction dims as [|d dims IH]; cbn [mapM]; intros H; [discriminate|].
  destruct (wrap_dim d m) as [i|] eqn:E.
  - cbn [bind] in H. destruct (mapM _ dims) as [p|] eqn:E2; [discriminate|]. cbn [map existsb]. rewrite (IH eq_refl). apply orb_true_r.
  - apply wrap_dim_reject in E. cbn [map existsb]. apply orb_true_iff. left.
    destruct (0 <=? d) eqn:E3; lia.
Qed.

Theorem illegal_is_rejected : forall bs nm ents o,
  reject_domain o bs -> torch_shape o bs = Reject -> exists k, apply (Node bs nm ents) o = Raised k.
Proof.
  intros bs nm ents o Hd Ht. destruct o; cbn [reject_domain torch_shape] in *; try contradiction.
  - (* permute *)
    unfold t_permute in Ht. rewrite Hd, Nat.eqb_refl in Ht. cbn [negb] in Ht.
    destruct (mapM (fun d => wrap_dim d (List.length bs)) dims) as [p|] eqn:E.
    + cbn [bind] in Ht. destruct (nodupb p) eqn:E2; [discriminate|].
      exists EValue. apply apply_raises. rewrite (node_permute_raw _ _ _ _ E). cbn [node_step].
      destruct (mapM_wrap_norm _ _ _ E) as [_ [Hf Hl]].
      rewrite map_norm_nat, (existsb_range_false _ _ Hf), map_to_nat_of_nat, E2, andb_false_r. reflexivity.
    + exists EValue. apply apply_raises. cbn [node_step]. rewrite (mapM_wrap_reject _ _ E). reflexivity.
  - (* transpose *)
    exists EValue. apply apply_raises. unfold t_transpose in Ht.
    rewrite !wrap_dim_scalar_pos in Ht by (destruct bs; [congruence|cbn; lia]).
    cbn [node_step]. destruct (wrap_dim d0 (List.length bs)) as [i|] eqn:E0.
    + cbn [bind] in Ht. destruct (wrap_dim d1 (List.length bs)) as [j|] eqn:E1.
      * cbn [bind] in Ht. destruct bs; [congruence|discriminate].
      * apply wrap_dim_reject in E1.
        destruct ((if d0 <? 0 then _ else _) <? 0) eqn:A1; destruct ((if d1 <? 0 then Z.of_nat (List.length bs) + d1 else d1) <? 0) eqn:A2;
        destruct (Z.of_nat (List.length bs) <=? (if d0 <? 0 then Z.of_nat (List.length bs) + d0 else d0)) eqn:A3;
        destruct (Z.of_nat (List.length bs) <=? (if d1 <? 0 then Z.of_nat (List.length bs) + d1 else d1)) eqn:A4; cbn [orb]; try reflexivity.
        destruct (d1 <? 0); lia.
    + apply wrap_dim_reject in E0.
      destruct ((if d0 <? 0 then Z.of_nat (List.length bs) + d0 else d0) <? 0) eqn:A1; destruct ((if d1 <? 0 then Z.of_nat (List.length bs) + d1 else d1) <? 0) eqn:A2;
      destruct (Z.of_nat (List.length bs) <=? (if d0 <? 0 then Z.of_nat (List.length bs) + d0 else d0)) eqn:A3;
      destruct (Z.of_nat (List.length bs) <=? (if d1 <? 0 then Z.of_nat (List.length bs) + d1 else d1)) eqn:A4; cbn [orb]; try reflexivity.
      destruct (d0 <? 0); lia.
  - (* squeeze(dim) *)
    destruct d as [d|]; [|contradiction]. exists EIndex. apply apply_raises.
    unfold t_squeeze_dim in Ht. rewrite wrap_dim_scalar_pos in Ht by (destruct bs; [congruence|cbn; lia]).
    destruct (wrap_dim d (List.length bs)) as [i|] eqn:E; [cbn [bind] in Ht; destruct bs; [congruence|discriminate]|].
    apply wrap_dim_reject in E. cbn [node_step]. unfold correct_neg_dim.
    destruct (((if d <? 0 then Z.of_nat (List.length bs) + d else d) <? 0)
              || (Z.of_nat (List.length bs) <=? (if d <? 0 then Z.of_nat (List.length bs) + d else d))) eqn:A; [reflexivity|].
    destruct (d <? 0); lia.
  - (* unsqueeze *)
    exists ERuntime. apply apply_raises. unfold t_unsqueeze in Ht.
    destruct (wrap_dim d (S (List.length bs))) as [i|] eqn:E; [discriminate|]. apply wrap_dim_reject in E.
    cbn [node_step].
    destruct ((Z.of_nat (List.length bs) <? (if d <? 0 then Z.of_nat (List.length bs) + d + 1 else d))
              || ((if d <? 0 then Z.of_nat (List.length bs) + d + 1 else d) <? 0)) eqn:A; [reflexivity|].
    destruct (d <? 0); lia.
Qed.
